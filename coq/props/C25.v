(* C25 Rewards accounting distributes exactly the rewards rate.
   Property theorems only (each closed by [exact <lemma>], followed by Print Assumptions).
   Object: RewardsState.NextRewardsState as transcribed in model/Rewards.v; every statement
   is for ALL rewards states, rounds, pool balances, reward-unit totals and ALL values of the
   consensus parameters the function reads (MinBalance, RewardsRateRefreshInterval,
   PendingResidueRewards, RewardsCalculationFix), over the whole uint64 range. *)
From Coq Require Import NArith ZArith List Bool String.
Import ListNotations.
From Verif.lib Require Import Term.
From Verif.model Require Import Overflow Rewards RewardsPool RewardsSpec.
From Verif.proofs Require Import RewardsProofs RewardsSpecProofs RewardsPoolProofs.
Open Scope N_scope.

(* Part 1 of the property.  Whenever the level moves (there are reward units and nothing
   leaves the uint64 range): level increase x units + new residue = rate in effect + old
   residue, and the carried residue is a proper remainder. *)
Theorem C25_rewards_exact : forall s r p pool units s',
  rstate_bounded s -> p_minbal p < 2 ^ 64 -> pool < 2 ^ 64 ->
  next_rewards_state s r p pool units = Some s' ->
  units <> 0 ->
  rate_in_effect p s s' + r_residue s < 2 ^ 64 ->
  r_level s + (rate_in_effect p s s' + r_residue s) / units < 2 ^ 64 ->
  r_level s <= r_level s' /\
  (r_level s' - r_level s) * units + r_residue s' = rate_in_effect p s s' + r_residue s /\
  r_residue s' < units.
Proof. exact rewards_exact. Qed.
Print Assumptions C25_rewards_exact.

(* ... and in exactly the remaining cases (no reward units, or the sum would overflow)
   nothing is distributed and nothing is lost: level and residue are carried unchanged. *)
Theorem C25_otherwise_level_and_residue_kept : forall s r p pool units s',
  rstate_bounded s -> p_minbal p < 2 ^ 64 -> pool < 2 ^ 64 ->
  next_rewards_state s r p pool units = Some s' ->
  (units = 0 \/ 2 ^ 64 <= rate_in_effect p s s' + r_residue s \/
   2 ^ 64 <= r_level s + (rate_in_effect p s s' + r_residue s) / units) ->
  r_level s' = r_level s /\ r_residue s' = r_residue s.
Proof. exact rewards_kept. Qed.
Print Assumptions C25_otherwise_level_and_residue_kept.

(* Part 2 of the property.  A refresh schedules floor(affordable / interval) per round:
   never more than the pool holds above its minimum balance (and, with
   PendingResidueRewards, above the still-unpaid residue too), and not less than the floor.
   [affordable] is unbounded truncated subtraction: the code's two overflow fall-backs are
   covered, not excluded. *)
Theorem C25_refresh_bound : forall s r p pool units s',
  rstate_bounded s -> p_minbal p < 2 ^ 64 -> pool < 2 ^ 64 ->
  next_rewards_state s r p pool units = Some s' ->
  r = r_recalc s ->
  p_interval p <> 0 /\
  r_rate s' * p_interval p <= affordable p s pool /\
  affordable p s pool < (r_rate s' + 1) * p_interval p /\
  r_rate s' * p_interval p <= pool - p_minbal p /\
  (p_pending p = true -> r_rate s' <> 0 ->
     r_rate s' * p_interval p + r_residue s + p_minbal p <= pool) /\
  r_recalc s' = (r + p_interval p) mod 2 ^ 64.
Proof. exact refresh_bound. Qed.
Print Assumptions C25_refresh_bound.

Theorem C25_no_refresh_keeps_rate : forall s r p pool units s',
  rstate_bounded s -> p_minbal p < 2 ^ 64 -> pool < 2 ^ 64 ->
  next_rewards_state s r p pool units = Some s' ->
  r <> r_recalc s -> r_rate s' = r_rate s /\ r_recalc s' = r_recalc s.
Proof. exact no_refresh_keeps_rate. Qed.
Print Assumptions C25_no_refresh_keeps_rate.

(* the only way the call can fail: a refresh round with a zero refresh interval (Go's
   integer division panics) *)
Theorem C25_panics_iff_zero_interval_at_refresh : forall s r p pool units,
  rstate_bounded s -> p_minbal p < 2 ^ 64 -> pool < 2 ^ 64 ->
  (next_rewards_state s r p pool units = None <-> r = r_recalc s /\ p_interval p = 0).
Proof. exact nrs_none_iff. Qed.
Print Assumptions C25_panics_iff_zero_interval_at_refresh.

(* "Each round": over EVERY chain of rounds (any length, parameters / pool / units changing
   arbitrarily from round to round, including protocol upgrades), the total distributed
   (sum of level increase x units) plus the final residue equals the total scheduled (sum
   of the rates in effect in the rounds that distributed) plus the initial residue. *)
Theorem C25_history_exact : forall ins s r sts,
  rstate_bounded s -> Forall rinput_bounded ins ->
  rewards_run s r ins = Some sts ->
  distributed s ins sts + r_residue (last sts s) = scheduled s ins sts + r_residue s /\
  rstate_bounded (last sts s).
Proof. exact history_exact. Qed.
Print Assumptions C25_history_exact.

(* The executable oracle [spec_ok] (declarative: floor bounds + Euclidean identity over
   unbounded N) holds of the model on every input ... *)
Theorem C25_model_meets_spec : forall s r p pool units,
  rstate_bounded s -> p_minbal p < 2 ^ 64 -> pool < 2 ^ 64 ->
  spec_ok s r p pool units (next_rewards_state s r p pool units) = true.
Proof. exact model_meets_spec. Qed.
Print Assumptions C25_model_meets_spec.

(* ... pins the output down completely (so an implementation observation that passes it IS
   the model's output: no behaviour-preserving refactor can trip it, no deviation pass) ... *)
Theorem C25_spec_determines_output : forall s r p pool units obs,
  rstate_bounded s -> p_minbal p < 2 ^ 64 -> pool < 2 ^ 64 ->
  spec_ok s r p pool units obs = true ->
  obs = next_rewards_state s r p pool units.
Proof. exact spec_determines_output. Qed.
Print Assumptions C25_spec_determines_output.

(* ... and is sound for the Prop-level statement on ANY observed output. *)
Theorem C25_spec_ok_sound : forall s r p pool units s',
  spec_ok s r p pool units (Some s') = true ->
  (r = r_recalc s ->
     p_interval p <> 0 /\
     r_rate s' * p_interval p <= affordable p s pool /\
     affordable p s pool < (r_rate s' + 1) * p_interval p /\
     r_rate s' * p_interval p <= pool - p_minbal p) /\
  (r <> r_recalc s -> r_rate s' = r_rate s /\ r_recalc s' = r_recalc s) /\
  (units <> 0 ->
   rate_in_effect p s s' + r_residue s < 2 ^ 64 ->
   r_level s + (rate_in_effect p s s' + r_residue s) / units < 2 ^ 64 ->
     r_level s <= r_level s' /\
     (r_level s' - r_level s) * units + r_residue s' = rate_in_effect p s s' + r_residue s /\
     r_residue s' < units) /\
  (units = 0 \/ 2 ^ 64 <= rate_in_effect p s s' + r_residue s \/
   2 ^ 64 <= r_level s + (rate_in_effect p s s' + r_residue s) / units ->
     r_level s' = r_level s /\ r_residue s' = r_residue s).
Proof. exact spec_ok_sound. Qed.
Print Assumptions C25_spec_ok_sound.

(* a case line accepted by [check] (verdict 0/1) carries an observation that meets the spec
   and equals the model's output *)
Theorem C25_check_sound :
  forall level rate residue recalc nr minbal interval pending cfix pool units l' r' f' c' k,
  let case := TL [TS "nrs"; tn level; tn rate; tn residue; tn recalc; tn nr; tn minbal; tn interval;
                  tb pending; tb cfix; tn pool; tn units;
                  TL [TS "ok"; tn l'; tn r'; tn f'; tn c'; TZ k]] in
  check case = v_ok \/ check case = v_triv ->
  let s := mkR level rate residue recalc in
  let p := mkRP minbal interval pending cfix in
  spec_ok s nr p pool units (Some (mkR l' r' f' c')) = true /\
  next_rewards_state s nr p pool units = Some (mkR l' r' f' c').
Proof. exact check_sound. Qed.
Print Assumptions C25_check_sound.

(* ---------- second mechanism: the pool withdrawal in StartEvaluator (model/RewardsPool.v) ---------- *)

(* The block is accepted EXACTLY when the level does not decrease and the pool still holds
   MinBalance AFTER paying units x (level increase); then exactly that amount leaves the pool.
   All uint64 inputs; the three error exits are the complement. *)
Theorem C25_pool_withdrawal_ok_iff : forall prev new pool units minbal pn,
  prev < 2 ^ 64 -> new < 2 ^ 64 -> pool < 2 ^ 64 -> units < 2 ^ 64 -> minbal < 2 ^ 64 ->
  (withdraw prev new pool units minbal = WOk pn <->
   prev <= new /\ units * (new - prev) + minbal <= pool /\ pn = pool - units * (new - prev)).
Proof. exact withdraw_ok_iff. Qed.
Print Assumptions C25_pool_withdrawal_ok_iff.

Theorem C25_pool_accepts_iff_allowed : forall prev new pool units minbal,
  prev < 2 ^ 64 -> new < 2 ^ 64 -> pool < 2 ^ 64 -> units < 2 ^ 64 -> minbal < 2 ^ 64 ->
  ((exists pn, withdraw prev new pool units minbal = WOk pn) <->
   withdraw_allowed prev new pool units minbal = true).
Proof. exact withdraw_accepts_iff. Qed.
Print Assumptions C25_pool_accepts_iff_allowed.

Theorem C25_pool_accepted_guarantees : forall prev new pool units minbal pn,
  prev < 2 ^ 64 -> new < 2 ^ 64 -> pool < 2 ^ 64 -> units < 2 ^ 64 -> minbal < 2 ^ 64 ->
  withdraw prev new pool units minbal = WOk pn ->
  pn + units * (new - prev) = pool /\ minbal <= pn /\ units * (new - prev) < 2 ^ 64 /\ pn < 2 ^ 64.
Proof. exact withdraw_ok_guarantees. Qed.
Print Assumptions C25_pool_accepted_guarantees.

(* Composition: the header's rewards state is NextRewardsState of the previous one (same pool
   balance and reward units, as StartEvaluator generates / validates it).  If the block is
   accepted the pool keeps MinBalance and what left it is exactly what the level increase
   hands out: rate in effect + old residue - new residue; nothing when the level did not move. *)
Theorem C25_withdrawal_matches_distribution : forall s r p pool units s' pn,
  rstate_bounded s -> p_minbal p < 2 ^ 64 -> pool < 2 ^ 64 -> units < 2 ^ 64 ->
  next_rewards_state s r p pool units = Some s' ->
  withdraw (r_level s) (r_level s') pool units (p_minbal p) = WOk pn ->
  p_minbal p <= pn /\
  if distributes s (rate_in_effect p s s') units
  then pn + rate_in_effect p s s' + r_residue s = pool + r_residue s' /\ r_residue s' < units
  else pn = pool /\ r_residue s' = r_residue s.
Proof. exact withdrawal_matches_distribution. Qed.
Print Assumptions C25_withdrawal_matches_distribution.

Theorem C25_pool_model_meets_spec : forall prev new pool units minbal,
  prev < 2 ^ 64 -> new < 2 ^ 64 -> pool < 2 ^ 64 -> units < 2 ^ 64 -> minbal < 2 ^ 64 ->
  spec_ok_pool prev new pool units minbal (withdraw prev new pool units minbal) = true.
Proof. exact pool_model_meets_spec. Qed.
Print Assumptions C25_pool_model_meets_spec.

(* the oracle on ANY observed outcome is the acceptance iff *)
Theorem C25_spec_ok_pool_sound : forall prev new pool units minbal obs,
  spec_ok_pool prev new pool units minbal obs = true ->
  match obs with
  | WOk pn => prev <= new /\ pn + units * (new - prev) = pool /\ minbal <= pn
  | _ => ~ (prev <= new /\ units * (new - prev) + minbal <= pool)
  end.
Proof. exact spec_ok_pool_sound. Qed.
Print Assumptions C25_spec_ok_pool_sound.

Theorem C25_check_pool_sound : forall prev new pool units minbal obs o,
  parse_wres obs = Some o ->
  (let case := TL [TS "pool"; tn prev; tn new; tn pool; tn units; tn minbal; obs] in
   check case = v_ok \/ check case = v_triv) ->
  spec_ok_pool prev new pool units minbal o = true.
Proof. exact check_pool_sound. Qed.
Print Assumptions C25_check_pool_sound.

Example C25_pool_nonvacuous :
  withdraw 10 35 6003 4 1000 = WOk 5903 /\                 (* 4 x 25 leaves the pool *)
  withdraw 10 35 1099 4 1000 = WErrMinBalance /\           (* 999 would remain: below the minimum AFTER *)
  withdraw 10 35 1100 4 1000 = WOk 1000 /\                 (* exactly the minimum remains *)
  withdraw 10 35 99 4 0 = WErrWithdraw /\
  withdraw 10 9 6003 4 1000 = WErrLevels /\
  withdraw 0 (2 ^ 63) (2 ^ 64 - 1) 2 0 = WErrWithdraw /\   (* units x perUnit overflows *)
  (* composed with the first example of C25_nonvacuous: 103 = rate 100 + residue 3, residue' 3 *)
  withdraw 10 35 6003 4 1000 = WOk (6003 - (100 + 3 - 3)).
Proof. vm_compute. repeat split. Qed.

(* anti-vacuity: concrete calls that meet the hypotheses and exercise every branch:
   refresh with PendingResidueRewards; refresh whose MinBalance+residue overflows (rate 0);
   pool below minimum (rate 0); old rate used without RewardsCalculationFix; overflow of
   the level keeps the state; zero interval panics *)
Example C25_nonvacuous :
  next_rewards_state (mkR 10 7 3 100) 100 (mkRP 1000 50 true true) 6003 4
    = Some (mkR 35 100 3 150) /\
  next_rewards_state (mkR 10 7 (2 ^ 64 - 1) 100) 100 (mkRP 1000 50 true true) 6003 4
    = Some (mkR (10 + (2 ^ 64 - 1) / 4) 0 3 150) /\
  next_rewards_state (mkR 10 7 3 100) 100 (mkRP 7000 50 false false) 6003 4
    = Some (mkR 12 0 2 150) /\
  next_rewards_state (mkR (2 ^ 64 - 1) 7 3 100) 99 (mkRP 1000 50 true true) 6003 4
    = Some (mkR (2 ^ 64 - 1) 7 3 100) /\
  next_rewards_state (mkR 10 7 3 100) 100 (mkRP 1000 0 true true) 6003 4 = None /\
  (let s := mkR 10 7 3 100 in let s' := mkR 35 100 3 150 in
   rstate_bounded s /\ rate_in_effect (mkRP 1000 50 true true) s s' + r_residue s < 2 ^ 64 /\
   (r_level s' - r_level s) * 4 + r_residue s' = 100 + 3) /\
  rewards_run (mkR 0 5 0 2) 1 [mkRI (mkRP 10 2 true true) 100 3; mkRI (mkRP 10 2 true true) 95 3;
                               mkRI (mkRP 10 2 true true) 90 7]
    = Some [mkR 1 5 2 2; mkR 15 41 1 4; mkR 21 41 0 4].
Proof. vm_compute. repeat split. Qed.
