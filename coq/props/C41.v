(* C41 Decoding untrusted bytes is safe and bounded.
   Property theorems only (each closed by [exact] and followed by Print Assumptions).

   Model: [decode] of coq/model/Msgpack.v = protocol.Decode into a fresh object: the generated
   UnmarshalMsgWithState (per schema constructor, gen/unmarshal.go) over the msgp runtime readers
   (msgp/read_bytes.go) with all their leniencies, the allocbound comparisons and the AllowableDepth
   check of every called type.  The statements quantify over EVERY schema environment, every root type,
   every AllowableDepth and ARBITRARY input bytes.

   What "total" means here: [decode] is a Gallina function, i.e. it returns on every input; its
   recursion is structural on the AllowableDepth and the schema, and every loop runs at most
   "bytes left" times ([lacks] check before each loop), without any fuel.  "Never crashes" of the Go
   runtime cannot be proved: the harness observes it (a panic escaping protocol.Decode = violation).

   Inputs outside the model ([Unm k]: duplicate struct key, integers-as-bytes slow path, flattened map
   as array) are excluded from [decode = Ok ...] by construction; for the duplicate key case the real
   code breaks the bound: C41_dup_key_merge_refuted. *)
From Coq Require Import List NArith ZArith Bool.
Import ListNotations.
From Verif.model Require Import Msgpack.
From Verif.gen Require Import Schemas.
From Verif.proofs Require Import MsgpackPrim MsgpackProofs MsgpackDecProofs MsgpackSchemas.
Open Scope N_scope.

(* whenever decoding succeeds, every slice / map / string / byte string of the decoded value, at any
   nesting level, is within the allocbound declared for it *)
Theorem C41_decode_bounds : forall env deep d id b v r,
  decode env deep d id b = Ok (v, r) -> bounds_okb env (SRef id) v = true.
Proof. exact decode_bounds. Qed.
Print Assumptions C41_decode_bounds.

(* the nesting of called types in a decoded value never exceeds the AllowableDepth ... *)
Theorem C41_decode_depth : forall env deep d id b v r,
  decode env deep d id b = Ok (v, r) -> (need v <= d)%nat.
Proof. exact decode_depth. Qed.
Print Assumptions C41_decode_depth.

(* ... and without depth budget nothing is decoded *)
Theorem C41_decode_depth_zero : forall env deep id b, decode env deep 0 id b = Err EDepth.
Proof. exact decode_depth_zero. Qed.
Print Assumptions C41_decode_depth_zero.

(* the same invariant for every generated method body at every remaining depth *)
Theorem C41_dec_good : forall env deep d id b v r, dec env deep d id b = Ok (v, r) ->
  (S (need v) <= d)%nat /\ exists s', lookup env id = Some s' /\ bounds_okb env s' v = true.
Proof. exact dec_good. Qed.
Print Assumptions C41_dec_good.

(* accepted canonical input = encoded value (C40), so acceptance is not vacuous and a value deeper than
   the budget is rejected: from C41_decode_depth by contraposition *)
Theorem C41_accepts_canonical : forall env deep, env_ok env = true ->
  forall id v d rest,
  wtb env deep (SRef id) v = true -> (need (norm env deep (SRef id) v) <= d)%nat ->
  decode env deep d id (enc env deep (SRef id) v ++ rest) = Ok (norm env deep (SRef id) v, rest).
Proof. exact decode_encode. Qed.
Print Assumptions C41_accepts_canonical.

(* on the table generated from the running code, with the real AllowableDepth (255) *)
Theorem C41_real_decode_bounds : forall id b v r,
  decode Schemas.env false Schemas.max_depth id b = Ok (v, r) ->
  bounds_okb Schemas.env (SRef id) v = true /\ (need v <= 255)%nat.
Proof. exact real_decode_bounds. Qed.
Print Assumptions C41_real_decode_bounds.

(* the model threads ONE depth budget through every called type; the generated sources do the same: no
   nested decoder call re-arms the budget (list read from every generated UnmarshalMsgWithState) *)
Theorem C41_real_depth_state_threaded : Schemas.unthreaded_calls = [].
Proof. exact real_depth_state_threaded. Qed.
Print Assumptions C41_real_depth_state_threaded.

(* The bound is NOT kept by the real code when a struct key occurs twice and the field is a map: the
   generated resizeMap keeps the existing map ("because we are decoding the same key twice") and
   compares only the second header with the allocbound.  [merge_dup] is that branch; two maps within
   the bound merge to one above it.  Replayed on the real decoder by the harness
   (bookkeeping.BlockHeader.StateProofTracking, allocbound 1, decoded with 2 entries; signature
   duplicate_key_map_merge_exceeds_allocbound). *)
Theorem C41_dup_key_merge_refuted :
  exists (bd : N) (old new : list (value * value)),
    within (Some bd) (len old) = true /\ within (Some bd) (len new) = true /\
    sorted_keys old = true /\ sorted_keys new = true /\
    within (Some bd) (len (merge_dup old new)) = false.
Proof. exact dup_key_merge_refuted. Qed.
Print Assumptions C41_dup_key_merge_refuted.

(* non-vacuity: the decoder accepts a NON-canonical input (wide integer, str for bin, explicit zero
   field, unsorted fields, nil for a slice) and the theorems apply to it *)
Definition ex41_env : list schema :=
  [ SStruct [ (mkF [97] 0 false true, SUint 255);
              (mkF [98] 1 false true, SSlice (Some 2) (SBytes (Some 3)));
              (mkF [99] 2 false true, SRef 1) ];
    SFixBytes 2 ].
Definition ex41_input : bytes :=
  [131; 161; 99; 162; 7; 8; 161; 97; 205; 0; 9; 161; 98; 146; 161; 120; 192].
Example C41_example_lax_accept :
  decode ex41_env false 2 0 ex41_input
  = Ok (VRef (VStruct [VUint 9; VList [VBytes [120]; VNil]; VRef (VBytes [7; 8])]), []).
Proof. vm_compute. reflexivity. Qed.
Example C41_example_bound_reject :
  decode ex41_env false 2 0 [129; 161; 98; 147; 192; 192; 192] = Err EOverflow
  /\ decode ex41_env false 1 0 ex41_input = Err EDepth.
Proof. split; vm_compute; reflexivity. Qed.
