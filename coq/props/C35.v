(* C35 App programs can touch only resources made available to them.

   Model (model/AvmResources.v): the transcription of resources.fill* / computeAvailability / the
   creation block of EvalContract / availableAccount,Asset,App / allowsHolding,Locals /
   accountReference, resolveApp, resolveAsset, holdingReference, localsReference / itxn_field
   assignment and cx.allows / availableAppBox.  [resolve cx acc] is the list of resources one access
   touches, or the class of the error it fails with; [ctx_of appaddr w] is the evaluation context of
   a probing call in world [w] = (program version, group, creations earlier in the group, the call).
   Rule (model/AvmResourcesSpec.v): [justified appaddr w r] -- named by this call; or, from v9, named
   by ANY transaction of the group (holdings / local states as PAIRS); or created earlier in the
   group (v6); app accounts of created / foreign (v7) apps; the program's own account.

   Every theorem holds for every address function [appaddr], every group (any length, any reference
   lists), every creation history and every probing call.  The policy hook (UnnamedResources, only
   installed by simulation) is [None] unless stated.

   Statement that is FALSE of the faithful model and of the code: unconditional soundness
   (C35_access_sound_refuted; KNOWN_FINDINGS c35_zero_value_via_access).  The strongest true
   statement is C35_access_sound_exact: sound except exactly that signature. *)
From Coq Require Import NArith List Bool.
Import ListNotations.
From Verif.lib Require Import Term.
From Verif.model Require Import AvmResources AvmResourcesSpec.
From Verif.proofs Require Import AvmResourcesProofs AvmResourcesTheorems.
Open Scope N_scope.

(* whatever an access touches is justified by the group -- or is the zero address / id 0 "named" by a
   tx.Access element of another kind (the recorded deviation) *)
Theorem C35_access_sound_exact : forall appaddr w acc rs,
  w_policy w = None ->
  resolve appaddr (ctx_of appaddr w) acc = Ok rs ->
  forall r, In r rs -> justified appaddr w r \/ zero_via_access w r = true.
Proof. exact access_sound_exact. Qed.
Print Assumptions C35_access_sound_exact.

(* for every real resource (no zero component) the rule is exact *)
Theorem C35_access_sound : forall appaddr w acc rs,
  w_policy w = None ->
  resolve appaddr (ctx_of appaddr w) acc = Ok rs ->
  forall r, In r rs -> nonzero r -> justified appaddr w r.
Proof. exact access_sound. Qed.
Print Assumptions C35_access_sound.

Theorem C35_access_sound_refuted : exists w acc r,
  w_policy w = None /\ resolve appaddr_c (ctx_of appaddr_c w) acc = Ok [r] /\ ~ justified appaddr_c w r.
Proof. exact access_sound_refuted. Qed.
Print Assumptions C35_access_sound_refuted.

(* every justified account / asset / app / holding / local state is reachable by its direct reference *)
Theorem C35_access_complete : forall appaddr w r,
  w_policy w = None ->
  begin_check (ctx_of appaddr w) = 0 ->
  justified appaddr w r -> low_ok w r -> app_nonzero r ->
  resolve appaddr (ctx_of appaddr w) (canonical_access r) = Ok [r].
Proof. exact access_complete. Qed.
Print Assumptions C35_access_complete.

(* "any other access fails the program": an unnamed resource is never among the touched ones *)
Theorem C35_unnamed_off_by_default : forall appaddr w r,
  w_policy w = None -> nonzero r -> ~ justified appaddr w r ->
  forall acc rs, resolve appaddr (ctx_of appaddr w) acc = Ok rs -> ~ In r rs.
Proof. exact unnamed_off_by_default. Qed.
Print Assumptions C35_unnamed_off_by_default.

(* ... and it takes an installed policy to change that *)
Theorem C35_unnamed_needs_policy :
  resolve appaddr_c (ctx_of appaddr_c (w_plain None)) (AAcct (ByAddr 5)) = Err E_ACCT /\
  resolve appaddr_c (ctx_of appaddr_c (w_plain (Some allow_all))) (AAcct (ByAddr 5)) = Ok [ResAcct 5] /\
  ~ justified appaddr_c (w_plain (Some allow_all)) (ResAcct 5).
Proof. exact unnamed_needs_policy. Qed.
Print Assumptions C35_unnamed_needs_policy.

(* AppForbidLowResources: opcode lookups never yield ids <= 255 *)
Theorem C35_lookup_respects_low : forall appaddr w acc rs r,
  w_policy w = None ->
  match acc with AAssetParams _ | AAppParams _ | AHold _ _ | ALoc _ _ => True | _ => False end ->
  resolve appaddr (ctx_of appaddr w) acc = Ok rs -> In r rs -> nonzero r -> low_ok w r.
Proof. exact lookup_respects_low. Qed.
Print Assumptions C35_lookup_respects_low.

(* programs older than sharing are never run with tx.Access *)
Theorem C35_presharing_rejects_access : forall appaddr w acc,
  w_version w < sharedResourcesVersion -> access_of (w_cur w) <> [] ->
  resolve appaddr (ctx_of appaddr w) acc = Err E_PRE.
Proof. exact presharing_rejects_access. Qed.
Print Assumptions C35_presharing_rejects_access.

(* boxes: what is available when the program starts is exactly what the group names ... *)
Theorem C35_boxes_initially_named : forall appaddr w app name,
  In (app, name) (bx_avail (av_of appaddr w)) <-> J_box w app name.
Proof. exact boxes_initially_named. Qed.
Print Assumptions C35_boxes_initially_named.

(* ... and over ANY sequence of box operations the boxes that become available beyond those are
   distinct boxes of apps created in this group, at most one per empty reference of the group *)
Theorem C35_box_quota : forall appaddr w io dirty db exist ops st' es,
  w_policy w = None ->
  box_run (ctx_of appaddr w) io (mkBst (av_of appaddr w) dirty db exist) ops = (st', es) ->
  exists new,
    (forall app name, In (app, name) (bx_avail (bs_res st')) -> J_box w app name \/ In (app, name) new) /\
    NoDup new /\
    (forall k, In k new -> In (fst k) (created_apps w) /\ ~ J_box w (fst k) (snd k)) /\
    N.of_nat (length new) + unnamed (bs_res st') <= group_empty_refs (w_group w).
Proof. exact box_run_sound. Qed.
Print Assumptions C35_box_quota.

(* a successful box operation: the box is named, or one unit of the quota was spent on a created app *)
Theorem C35_box_step_sound : forall appaddr w io dirty db exist op st',
  w_policy w = None ->
  box_step (ctx_of appaddr w) io (mkBst (av_of appaddr w) dirty db exist) op = (st', 0) ->
  let k := box_key_of (ctx_of appaddr w) op in
  J_box w (fst k) (snd k) \/
  (In (fst k) (created_apps w) /\ unnamed (bs_res st') + 1 = group_empty_refs (w_group w)).
Proof. exact box_step_sound. Qed.
Print Assumptions C35_box_step_sound.

(* soundness of the oracle [check] applies to the implementation's touches *)
Theorem C35_oracle_sound : forall appaddr w l,
  forallb (justified_b appaddr w) l = true <-> forall r, In r l -> justified appaddr w r.
Proof. exact oracle_sound. Qed.
Print Assumptions C35_oracle_sound.

(* ---- non-vacuity: the cross-product rule on a concrete group --------------------------------------
   tx0 pays account 3, tx1 reconfigures asset 401, tx2 is the probing call (app 501, no references). *)
Definition ex_call : appl := mkAppl 501 false [] [] [] [] None.
Definition ex_group : list txn := [TPay 2 3 0; TAcfg 4 401; TAppl 1 ex_call].
Definition ex_world (v : N) : world := mkWorld v false ex_group [] [] 1 ex_call 501 None.

(* v9: account and asset are each available through sharing, the holding is not (named apart) *)
Example ex_v9_parts_available :
  resolve appaddr_c (ctx_of appaddr_c (ex_world 9)) (AAcct (ByAddr 3)) = Ok [ResAcct 3] /\
  resolve appaddr_c (ctx_of appaddr_c (ex_world 9)) (AAssetParams 401) = Ok [ResAsset 401] /\
  resolve appaddr_c (ctx_of appaddr_c (ex_world 9)) (AHold (ByAddr 3) 401) = Err E_HOLD.
Proof. vm_compute. repeat split; reflexivity. Qed.
(* v8: nothing is shared *)
Example ex_v8_nothing_shared :
  resolve appaddr_c (ctx_of appaddr_c (ex_world 8)) (AAcct (ByAddr 3)) = Err E_ACCT /\
  resolve appaddr_c (ctx_of appaddr_c (ex_world 8)) (AAssetParams 401) = Err E_ASSET.
Proof. vm_compute. repeat split; reflexivity. Qed.
(* an axfer of 401 to 3 in the group names the pair *)
Definition ex_world2 : world :=
  mkWorld 9 false [TAxfer 2 401 3 0 0; TAppl 1 ex_call] [] [] 1 ex_call 501 None.
Example ex_v9_pair_named :
  resolve appaddr_c (ctx_of appaddr_c ex_world2) (AHold (ByAddr 3) 401) = Ok [ResHold 3 401] /\
  justified_b appaddr_c ex_world2 (ResHold 3 401) = true /\
  justified_b appaddr_c (ex_world 9) (ResHold 3 401) = false.
Proof. vm_compute. repeat split; reflexivity. Qed.
(* a creating call with one empty reference: one unnamed box of the new app, not two *)
Definition ex_create : appl := mkAppl 0 false [] [] [] [(0, [])] None.
Definition ex_world3 : world := mkWorld 10 false [TAppl 1 ex_create] [] [] 1 ex_create 601 None.
Example ex_quota :
  snd (box_run (ctx_of appaddr_c ex_world3) 100 (mkBst (av_of appaddr_c ex_world3) [] 0 [])
         [mkBop BCreate 0 [97] 10; mkBop BCreate 0 [98] 10]) = [0; E_BOX].
Proof. vm_compute. reflexivity. Qed.
