(* C26 Protocol upgrades switch only when approved, at the announced round.
   Property theorems only (each closed by [exact <lemma>], followed by Print Assumptions).
   Object: UpgradeState.applyUpgradeVote / BlockHeader.PreCheck as transcribed in
   model/Upgrade.v.  Every statement is for ALL consensus tables [cons] (any number of
   protocol versions with any parameter values; well-formedness only bounds vote rounds + wait
   by some B so that round arithmetic does not wrap), ALL starting rounds >= 1 and ALL lists of
   votes of any length (induction over the list). *)
From Coq Require Import NArith ZArith List Bool String.
Import ListNotations.
From Verif.lib Require Import Term.
From Verif.model Require Import Upgrade UpgradeSpec.
From Verif.proofs Require Import UpgradeProofs UpgradeSpecProofs.
Open Scope N_scope.

(* The property on every accepted history that starts with no proposal pending (e.g. at
   genesis).  [hist_ok] (model/UpgradeSpec.v) says for every block k of the history:
   (1) if the current protocol changes, [switch_justified]: some block j <= k proposed exactly
       the new protocol while nothing was pending, with a delay in [Min,Max]UpgradeWaitRounds;
       k is exactly j + UpgradeVoteRounds + effective delay; at least UpgradeThreshold blocks in
       rounds [j, j + UpgradeVoteRounds) approved; all headers j+1..k carried that proposal, its
       deadline and switch round r0 + k, under the unchanged current protocol;
   (2) a proposal is accepted only when none is pending;
   (3) while a proposal stays pending its announcement (protocol, deadline, switch round) and
       the current protocol do not change. *)
Theorem C26_switch_only_if_approved : forall cons B s0 r0 vs sts,
  wf_cons cons B -> quiescent s0 -> 1 <= r0 -> r0 + N.of_nat (List.length vs) + B < W ->
  trace cons s0 r0 vs = Some sts ->
  hist_ok cons r0 s0 vs sts.
Proof. exact trace_hist_ok. Qed.
Print Assumptions C26_switch_only_if_approved.

(* Histories that start in the middle of a vote (a proposal pending under [PendingOK]): the
   first switch is that proposal's, at its announced round, with the threshold met by the
   approvals already counted plus those in the rest of its window; any later switch is
   justified inside the history. *)
Theorem C26_switch_from_pending_state : forall cons B s0 r0 vs sts P,
  wf_cons cons B -> PendingOK cons s0 r0 P -> 1 <= r0 -> r0 + N.of_nat (List.length vs) + B < W ->
  trace cons s0 r0 vs = Some sts ->
  forall k s s', nth_error (s0 :: sts) k = Some s -> nth_error sts k = Some s' ->
    us_current s' <> us_current s ->
    concl_pending r0 vs s0 (s0 :: sts) k s' P \/ switch_justified cons r0 vs (s0 :: sts) k s s'.
Proof. exact trace_from_pending. Qed.
Print Assumptions C26_switch_from_pending_state.

(* At most one proposal pending: from ANY state (no invariant needed) an accepted block that
   proposes found nothing pending, and an accepted block leaves a pending announcement
   untouched unless it is cleared or executed. *)
Theorem C26_one_pending : forall cons s r v s',
  step cons s r v = UOk s' ->
  (v_propose v <> [] -> us_next s = []) /\
  (us_next s <> [] -> us_next s' <> [] ->
     us_next s' = us_next s /\ us_voteBefore s' = us_voteBefore s /\
     us_switchOn s' = us_switchOn s /\ us_current s' = us_current s).
Proof.
  exact (fun cons s r v s' H =>
           conj (step_one_pending cons s r v s' H) (step_pending_stable cons s r v s' H)).
Qed.
Print Assumptions C26_one_pending.

(* PreCheck accepts a header exactly when its protocol is supported, its round is the
   successor round and its upgrade state is the result of applying its vote ... *)
Theorem C26_precheck_ok_iff : forall cons prev bh,
  precheck cons prev bh = PreOk <->
  (cons (us_current (h_state bh)) <> None /\
   h_round bh = wadd (h_round prev) 1 /\
   step cons (h_state prev) (h_round bh) (h_vote bh) = UOk (h_state bh)).
Proof. exact precheck_ok_iff. Qed.
Print Assumptions C26_precheck_ok_iff.

(* ... so a header whose upgrade state does not follow the rules, or whose vote is invalid,
   is rejected. *)
Theorem C26_precheck_rejects_deviation : forall cons prev bh s',
  step cons (h_state prev) (wadd (h_round prev) 1) (h_vote bh) = UOk s' ->
  h_state bh <> s' -> precheck cons prev bh <> PreOk.
Proof. exact precheck_rejects_deviation. Qed.
Print Assumptions C26_precheck_rejects_deviation.

Theorem C26_precheck_rejects_invalid_vote : forall cons prev bh e,
  step cons (h_state prev) (wadd (h_round prev) 1) (h_vote bh) = UErr e ->
  precheck cons prev bh <> PreOk.
Proof. exact precheck_rejects_invalid_vote. Qed.
Print Assumptions C26_precheck_rejects_invalid_vote.

(* Every chain of headers in which each header passes PreCheck against its predecessor
   satisfies the property. *)
Theorem C26_accepted_chain : forall cons B prev hs,
  wf_cons cons B -> quiescent (h_state prev) ->
  h_round prev + 1 + N.of_nat (List.length hs) + B < W ->
  chain_accepted cons prev hs = true ->
  hist_ok cons (h_round prev + 1) (h_state prev) (map h_vote hs) (map h_state hs).
Proof. exact accepted_chain_hist_ok. Qed.
Print Assumptions C26_accepted_chain.

(* The executable oracle evaluated on the implementation's observed states IS the property
   (for any observed state list, model or not) ... *)
Theorem C26_spec_ok_hist_iff : forall cons r0 s0 vs sts,
  spec_ok_hist cons r0 s0 vs sts = true <->
  List.length sts = List.length vs /\ hist_ok cons r0 s0 vs sts.
Proof. exact spec_ok_hist_iff. Qed.
Print Assumptions C26_spec_ok_hist_iff.

(* ... and every accepted history of the model passes it (no false alarm). *)
Theorem C26_trace_passes_oracle : forall cons B s0 r0 vs sts,
  wf_cons cons B -> quiescent s0 -> 1 <= r0 -> r0 + N.of_nat (List.length vs) + B < W ->
  trace cons s0 r0 vs = Some sts ->
  spec_ok_hist cons r0 s0 vs sts = true.
Proof. exact trace_passes_oracle. Qed.
Print Assumptions C26_trace_passes_oracle.

(* the local rules checked on single-step observations hold of the model from any state *)
Theorem C26_step_rules_model : forall cons s r v, step_rules_b s v (step cons s r v) = true.
Proof. exact step_rules_model. Qed.
Print Assumptions C26_step_rules_model.

(* soundness of [check]: an accepted history line carries states that satisfy the property;
   an accepted PreCheck line with observation "ok" carries the successor round and the
   implementation's own successor state *)
Theorem C26_check_hist_sound : forall tc ts0 tr0 tvs tsts tbl s0 r0 vs sts,
  p_cons tc = Some tbl -> p_state ts0 = Some s0 -> p_round tr0 = Some r0 ->
  map_opt p_vote tvs = Some vs -> map_opt p_state tsts = Some sts ->
  (let case := TL [TS "hist"; tc; ts0; tr0; TL tvs; TL tsts] in
   check case = v_ok \/ check case = v_triv) ->
  List.length sts = List.length vs /\ hist_ok (cons_of tbl) r0 s0 vs sts.
Proof. exact check_hist_sound. Qed.
Print Assumptions C26_check_hist_sound.

Theorem C26_check_pre_sound :
  forall tc tpr tps thr tv ths timpl obs tbl pr ps hr v hs impl,
  p_cons tc = Some tbl -> p_round tpr = Some pr -> p_state tps = Some ps ->
  p_round thr = Some hr -> p_vote tv = Some v -> p_state ths = Some hs -> p_ures timpl = Some impl ->
  (let case := TL [TS "pre"; tc; tpr; tps; thr; tv; ths; timpl; obs] in
   check case = v_ok \/ check case = v_triv) ->
  obs = TS "ok" -> hr = wadd pr 1 /\ impl = UOk hs.
Proof. exact check_pre_sound. Qed.
Print Assumptions C26_check_pre_sound.

(* ---------- anti-vacuity ---------- *)
Definition exA : ver := [65]. Definition exB : ver := [66].
Definition exCons : consensus :=
  cons_of [(exA, mkUP 3 2 1 0 2 8%Z); (exB, mkUP 2 1 0 0 1 8%Z)].
Definition exVotes : list vote :=
  [mkV [] 0 false; mkV exB 0 true; mkV [] 0 false; mkV [] 0 true; mkV [] 0 false; mkV [] 0 false].

(* a concrete table and history meet every hypothesis; the history really switches (block 5 =
   proposal block 1 + 3 vote rounds + default delay 1, 2 approvals >= threshold 2) *)
Example C26_nonvacuous :
  wf_cons exCons 5 /\ quiescent (mkUS exA [] 0 0 0) /\
  trace exCons (mkUS exA [] 0 0 0) 10 exVotes =
    Some [mkUS exA [] 0 0 0; mkUS exA exB 1 14 15; mkUS exA exB 1 14 15; mkUS exA exB 2 14 15;
          mkUS exA exB 2 14 15; mkUS exB [] 0 0 0] /\
  (* the oracle is not trivially true: the same history with the switch one block early, or
     with one approval missing, is rejected *)
  spec_ok_hist exCons 10 (mkUS exA [] 0 0 0) exVotes
    [mkUS exA [] 0 0 0; mkUS exA exB 1 14 15; mkUS exA exB 1 14 15; mkUS exA exB 2 14 15;
     mkUS exB [] 0 0 0; mkUS exB [] 0 0 0] = false /\
  spec_ok_hist exCons 10 (mkUS exA [] 0 0 0)
    [mkV [] 0 false; mkV exB 0 true; mkV [] 0 false; mkV [] 0 false; mkV [] 0 false; mkV [] 0 false]
    [mkUS exA [] 0 0 0; mkUS exA exB 1 14 15; mkUS exA exB 1 14 15; mkUS exA exB 1 14 15;
     mkUS exA exB 1 14 15; mkUS exB [] 0 0 0] = false /\
  (* a failed proposal (1 approval < 2) is dropped at its deadline *)
  trace exCons (mkUS exA [] 0 0 0) 10
    [mkV exB 2 true; mkV [] 0 false; mkV [] 0 false; mkV [] 0 false; mkV [] 0 false] =
    Some [mkUS exA exB 1 13 15; mkUS exA exB 1 13 15; mkUS exA exB 1 13 15; mkUS exA [] 0 0 0;
          mkUS exA [] 0 0 0] /\
  (* second proposal while one is pending / late approval / approval without proposal: rejected *)
  step exCons (mkUS exA exB 1 14 15) 12 (mkV exB 0 false) = UErr EProposalDuringProposal /\
  step exCons (mkUS exA exB 2 14 15) 14 (mkV [] 0 true) = UErr EApproveLate /\
  step exCons (mkUS exA [] 0 0 0) 12 (mkV [] 0 true) = UErr EApproveNoProposal /\
  PendingOK exCons (mkUS exA exB 1 14 15) 12 (mkUP 3 2 1 0 2 8%Z).
Proof.
  split.
  { intros v P H. unfold exCons, cons_of in H. cbn [find fst snd] in H.
    destruct (ver_eqb exA v).
    { inversion H; subst P. split; apply N.leb_le; reflexivity. }
    destruct (ver_eqb exB v).
    { inversion H; subst P. split; apply N.leb_le; reflexivity. }
    discriminate. }
  split; [unfold quiescent; cbn; auto|].
  repeat (split; [vm_compute; reflexivity|]).
  unfold PendingOK. cbn [us_next us_current us_voteBefore us_switchOn us_approvals up_threshold].
  split; [discriminate|]. split; [vm_compute; reflexivity|].
  split; [apply N.leb_le; reflexivity|]. split; [apply N.leb_le; reflexivity|].
  split; [reflexivity|]. split; [apply N.leb_le; reflexivity|].
  intros H. apply N.ltb_lt in H. vm_compute in H. discriminate.
Qed.

(* why the theorems need r0 >= 1: "no proposal" is encoded as NextProtocolSwitchOn = 0, so a
   block of round 0 would execute the empty proposal and blank the protocol.  Unreachable:
   applyUpgradeVote is only called with round = prev.Round + 1 (PreCheck, ProcessUpgradeParams). *)
Example C26_round_zero_artefact :
  step exCons (mkUS exA [] 0 0 0) 0 (mkV [] 0 false) = UOk (mkUS [] [] 0 0 0).
Proof. vm_compute. reflexivity. Qed.
