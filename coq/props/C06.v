(* C06 Vote counting emits exactly one threshold per step, for the right value.

   Property theorems only: each is closed by [exact <lemma>] and followed by Print
   Assumptions.  The model (model/VoteTracker.v) transcribes agreement/voteTracker.go
   (handle on voteAccepted, overThreshold, genBundle), bundle.go:makeBundle and
   types.go:reachesQuorum, including uint64 wrap-around and every panic.  The specification
   (model/VoteTrackerSpec.v) speaks about the RAW list of accepted votes only:
     status_of h s     what sender s has done in h (nothing / voted v / equivocated v1 v2)
     spec_tally h p    weight of the distinct non-equivocating senders whose vote is p
                       + weight of every equivocator              (duplicates add nothing)
     reaches q w       step.reachesQuorum (q = None for the propose step: never)
   Every theorem is for ALL vote lists l (any length, senders, values, weights) with
     wf_votes l        weights positive, one weight per sender, total stake < 2^64
     reaches q 0 = false   the step's threshold is not 0.
   [run q init l] is the model's trace (output and state snapshot per vote, ending at the
   first panic), [exec q l] its outputs.  firstn i l / firstn (S i) l are the histories
   before / after the i-th vote. *)
From Coq Require Import NArith List Bool String.
Import ListNotations.
From Verif.lib Require Import Term.
From Verif.model Require Import VoteTracker VoteTrackerSpec VoteTrackerCheck.
From Verif.proofs Require Import VoteTrackerProofs VoteTrackerCheckProofs VoteTrackerTheorems.
Open Scope N_scope.

(* 1. structural invariant of every reachable tracker state: Voters and Equivocators are
      disjoint, Counts[p] holds exactly the recorded voters for p (never empty) and its
      Count is their weight, EquivocatorsCount is the equivocators' weight *)
Theorem C06_tracker_inv : forall q l, reaches q 0 = false -> wf_votes l ->
  forall i o st, nth_error (run q init l) i = Some (o, Some st) -> tracker_wf st.
Proof. exact tracker_invariant. Qed.
Print Assumptions C06_tracker_inv.

(* 2. the tally the tracker uses (Counts[p].Count + EquivocatorsCount, uint64) IS the
      specified tally of the votes received so far *)
Theorem C06_tally_spec : forall q l, reaches q 0 = false -> wf_votes l ->
  forall i o st p, nth_error (run q init l) i = Some (o, Some st) ->
    count st p = spec_tally (firstn (S i) l) p.
Proof. exact tally_spec. Qed.
Print Assumptions C06_tally_spec.

(* ... in which a repeated vote (same sender, same value) adds nothing ... *)
Theorem C06_duplicates_add_nothing : forall h x y p,
  In y h -> v_sender y = v_sender x -> v_value y = v_value x ->
  spec_tally (h ++ [x]) p = spec_tally h p.
Proof. exact repeat_adds_nothing. Qed.
Print Assumptions C06_duplicates_add_nothing.

(* ... an equivocator counts toward EVERY value ... *)
Theorem C06_equivocators_count_for_every_value : forall h s v1 v2 p,
  status_of h s = SEquiv v1 v2 -> v_weight v2 <= spec_tally h p.
Proof. exact equivocator_counts_everywhere. Qed.
Print Assumptions C06_equivocators_count_for_every_value.

(* ... and which never decreases *)
Theorem C06_tally_monotone : forall h l p, wf_votes (h ++ l) -> spec_tally h p <= spec_tally (h ++ l) p.
Proof. exact spec_tally_mono_app. Qed.
Print Assumptions C06_tally_monotone.

(* 3. at most one threshold event per step *)
Theorem C06_threshold_at_most_once : forall q l, reaches q 0 = false -> wf_votes l ->
  forall i j p b p' b', nth_error (exec q l) i = Some (OThreshold p b) ->
    nth_error (exec q l) j = Some (OThreshold p' b') -> i = j.
Proof. exact threshold_at_most_once. Qed.
Print Assumptions C06_threshold_at_most_once.

(* 4. a threshold event is emitted only at the first crossing, for the value that crossed
      (and that value is unique) ... *)
Theorem C06_threshold_only_at_first_crossing : forall q l, reaches q 0 = false -> wf_votes l ->
  forall i p b, nth_error (exec q l) i = Some (OThreshold p b) ->
    reaches q (spec_tally (firstn (S i) l) p) = true /\
    (forall p', reaches q (spec_tally (firstn i l) p') = false) /\
    (forall p', reaches q (spec_tally (firstn (S i) l) p') = true -> p' = p).
Proof. exact threshold_only_at_first_crossing. Qed.
Print Assumptions C06_threshold_only_at_first_crossing.

(* ... and at the first crossing it IS emitted (unless the node panics on that very vote,
   which theorem 6 characterises) *)
Theorem C06_threshold_at_first_crossing : forall q l, reaches q 0 = false -> wf_votes l ->
  forall i o, nth_error (exec q l) i = Some o ->
    (exists p, reaches q (spec_tally (firstn (S i) l) p) = true) ->
    (forall p', reaches q (spec_tally (firstn i l) p') = false) ->
    (exists p b, o = OThreshold p b) \/ is_panic o = true.
Proof. exact threshold_at_first_crossing. Qed.
Print Assumptions C06_threshold_at_first_crossing.

(* 5. the bundle of a threshold event is a quorum proof: distinct senders, the plain votes
      are recorded votes for p, the pairs are recorded equivocations (two different values),
      and the members' weight reaches the quorum *)
Theorem C06_genBundle_valid : forall q l, reaches q 0 = false -> wf_votes l ->
  forall i p b, nth_error (exec q l) i = Some (OThreshold p b) ->
    b_value b = p /\ b_votes b <> [] /\ NoDup (bundle_members b) /\
    (forall s, In s (b_votes b) -> exists v, status_of (firstn (S i) l) s = SVoted v /\ v_value v = p) /\
    (forall s p0 p1, In (s, p0, p1) (b_eqs b) ->
       exists v1 v2, status_of (firstn (S i) l) s = SEquiv v1 v2 /\
                     v_value v1 = p0 /\ v_value v2 = p1 /\ p0 <> p1) /\
    reaches q (bundle_weight (firstn (S i) l) b) = true.
Proof. exact genBundle_valid. Qed.
Print Assumptions C06_genBundle_valid.

(* 6. the tracker panics exactly when quorum intersection is violated by the votes it
      received: the equivocators alone reach the quorum, or two values do *)
Theorem C06_panic_iff : forall q l, reaches q 0 = false -> wf_votes l ->
  ((forall o, In o (exec q l) -> is_panic o = false) <->
   (forall l1 l2, l = l1 ++ l2 ->
      reaches q (spec_eqw l1) = false /\
      (forall p p', reaches q (spec_tally l1 p) = true -> reaches q (spec_tally l1 p') = true -> p = p'))).
Proof. exact panic_iff. Qed.
Print Assumptions C06_panic_iff.

Theorem C06_no_panic_under_QI : forall t l, 0 < t -> wf_votes l ->
  total_weight l + spec_eqw l < 2 * t ->
  forall o, In o (exec (Some t) l) -> is_panic o = false.
Proof. exact no_panic_under_QI. Qed.
Print Assumptions C06_no_panic_under_QI.

Theorem C06_no_panic_all_processed : forall q l, reaches q 0 = false -> wf_votes l ->
  (forall o, In o (exec q l) -> is_panic o = false) -> List.length (exec q l) = List.length l.
Proof. exact no_panic_all_processed. Qed.
Print Assumptions C06_no_panic_all_processed.

(* 7. altogether: the sequence of reactions equals the specified one *)
Theorem C06_outputs_refine_spec : forall q l, reaches q 0 = false -> wf_votes l ->
  map out_kind (exec q l) = spec_outs q [] l.
Proof. exact outputs_refine_spec. Qed.
Print Assumptions C06_outputs_refine_spec.

(* 8. the oracle evaluated on the implementation's observations is sound: a case inside the
      domain that [check] does not flag satisfies the Prop-level statement [trace_ok] (per
      vote: the reaction is the specified one incl. bundle validity, the snapshot satisfies
      the invariant) -- for which the consequences 1-6 hold just as for the model *)
Theorem C06_check_sound : forall step pr l ob obs_t,
  in_domain (step_quorum pr step) l = true ->
  (check_parsed step pr l ob obs_t = v_ok \/ check_parsed step pr l ob obs_t = v_triv) ->
  wf_votes l /\ trace_ok (step_quorum pr step) [] l (map fst ob).
Proof. exact check_sound. Qed.
Print Assumptions C06_check_sound.

Theorem C06_observed_trace_facts : forall q l obs, wf_votes l -> trace_ok q [] l obs ->
  (forall i o st, nth_error obs i = Some (o, Some st) ->
     tracker_wf st /\ forall p, count st p = spec_tally (firstn (S i) l) p) /\
  (forall i j p b s p' b' s', nth_error obs i = Some (OThreshold p b, s) ->
     nth_error obs j = Some (OThreshold p' b', s') -> i = j) /\
  (forall i p b s, nth_error obs i = Some (OThreshold p b, s) ->
     reaches q (spec_tally (firstn (S i) l) p) = true /\
     (forall p', reaches q (spec_tally (firstn i l) p') = false) /\
     (forall p', reaches q (spec_tally (firstn (S i) l) p') = true -> p' = p) /\
     bundle_valid q (firstn (S i) l) p b) /\
  (forall i o s, nth_error obs i = Some (o, s) ->
     (exists p, reaches q (spec_tally (firstn (S i) l) p) = true) ->
     (forall p', reaches q (spec_tally (firstn i l) p') = false) ->
     (exists p b, o = OThreshold p b) \/ is_panic o = true).
Proof. exact observed_trace_facts. Qed.
Print Assumptions C06_observed_trace_facts.

(* the model's own trace is such a trace *)
Theorem C06_model_trace_ok : forall q l, reaches q 0 = false -> wf_votes l ->
  trace_ok q [] l (run q init l).
Proof. exact model_trace_ok. Qed.
Print Assumptions C06_model_trace_ok.

(* ---- anti-vacuity ---- *)
(* sender 1 and 3 vote 0, sender 2 equivocates (1 then 0), a duplicate in between; quorum 5.
   The hypotheses hold, the threshold comes with the 5th vote, and the bundle packs the two
   plain votes (heavier first) and the equivocation pair. *)
Definition ex_votes : list vote :=
  [mkVote 1 0 2; mkVote 2 1 2; mkVote 2 0 2; mkVote 1 0 2; mkVote 3 0 1; mkVote 4 0 7].
Example C06_nonvacuous :
  wf_votes ex_votes /\ reaches (Some 5) 0 = false /\
  exec (Some 5) ex_votes =
    [ONone; ONone; ONone; ONone; OThreshold 0 (mkBundle 0 [1; 3] [(2, 1, 0)]); ONone] /\
  map (spec_tally (firstn 4 ex_votes)) [0; 1] = [4; 2] /\
  map (spec_tally (firstn 5 ex_votes)) [0; 1] = [5; 2].
Proof. split; [apply wf_votes_b_sound; vm_compute; reflexivity|]. vm_compute. repeat split. Qed.

(* both panics are reachable inside the domain (quorum intersection violated) *)
Example C06_panics_reachable :
  wf_votes [mkVote 1 0 3; mkVote 2 1 3; mkVote 3 0 1; mkVote 4 1 1] /\
  exec (Some 4) [mkVote 1 0 3; mkVote 2 1 3; mkVote 3 0 1; mkVote 4 1 1] =
    [ONone; ONone; OThreshold 0 (mkBundle 0 [1; 3] []); OPanic "two"] /\
  exec (Some 4) [mkVote 1 0 2; mkVote 1 1 2; mkVote 2 0 2; mkVote 2 1 2] =
    [ONone; ONone; OThreshold 0 (mkBundle 0 [2] [(1, 0, 1)]); OPanic "eq"].
Proof. split; [apply wf_votes_b_sound; vm_compute; reflexivity|]. vm_compute. repeat split. Qed.

(* why weights must be positive (zero-weight credentials are rejected by
   committee.Credential verification before a vote reaches the tracker): with a zero-weight
   voter the "only vote for this proposal" test deletes an entry that still has a voter *)
Example C06_zero_weight_breaks_invariant :
  exists st, state_after (Some 9) init [mkVote 1 0 0; mkVote 2 0 5; mkVote 2 1 5] = Some st /\
             alookup 1 (voters st) = Some (mkVote 1 0 0) /\ alookup 0 (counts st) = None.
Proof. eexists. vm_compute. repeat split. Qed.
