(* C04 Bundles and certificates are accepted only if they prove a quorum.
   Model: model/Bundle.v (unauthenticatedBundle.verifyAsync, Certificate.Authenticate).
   Per-vote cryptographic validity is an oracle carried by each vote (outcome of verifying
   the vote re-assembled with the bundle's round/period/step/proposal); unforgeability is
   assumed.  [nowrap]: the uint64 weight sum does not wrap (weights are stake-bounded). *)
From Coq Require Import List NArith ZArith Bool.
From Verif.model Require Import Bundle.
From Verif.proofs Require Import BundleProofs.
Import ListNotations.
Open Scope N_scope.

Theorem C04_bundle_accept_sound : forall thr b,
  nowrap b -> verify thr b = None -> proves_quorum thr b = true.
Proof. exact bundle_accept_sound. Qed.
Print Assumptions C04_bundle_accept_sound.

(* rejection happens only for a listed reason (or the bundle-size rule) *)
Theorem C04_bundle_accept_complete : forall thr b,
  nowrap b -> size_ok thr b = true -> proves_quorum thr b = true -> verify thr b = None.
Proof. exact bundle_accept_complete. Qed.
Print Assumptions C04_bundle_accept_complete.

Theorem C04_proves_quorum_meaning : forall thr b, proves_quorum thr b = true ->
  b_step b <> 0 /\
  NoDup (map bv_sender (b_votes b) ++ map be_sender (b_eqs b)) /\
  (forall v, In v (b_votes b) -> exists w, vote_valid (b_step b) (b_bottom b) v = Some w) /\
  (forall e, In e (b_eqs b) -> be_same e = false /\ exists w, be_ok0 e = Some w /\ be_ok1 e = true) /\
  exists t, total (all_weights b) = Some t /\ thr <= t.
Proof. exact proves_quorum_meaning. Qed.
Print Assumptions C04_proves_quorum_meaning.

Theorem C04_duplicate_voter_rejected : forall thr b, nowrap b ->
  ~ NoDup (map bv_sender (b_votes b) ++ map be_sender (b_eqs b)) -> verify thr b <> None.
Proof. exact duplicate_voter_rejected. Qed.
Print Assumptions C04_duplicate_voter_rejected.

Theorem C04_missing_weight_rejected : forall thr b t, nowrap b ->
  total (all_weights b) = Some t -> t < thr -> verify thr b <> None.
Proof. exact missing_weight_rejected. Qed.
Print Assumptions C04_missing_weight_rejected.

(* wrong round / period / step / digest / bad signature / non-member all surface as an
   invalid re-assembled vote *)
Theorem C04_invalid_vote_rejected : forall thr b v, nowrap b ->
  In v (b_votes b) -> vote_valid (b_step b) (b_bottom b) v = None -> verify thr b <> None.
Proof. exact invalid_vote_rejected. Qed.
Print Assumptions C04_invalid_vote_rejected.

Theorem C04_identical_pair_rejected : forall thr b e, nowrap b ->
  In e (b_eqs b) -> be_same e = true -> verify thr b <> None.
Proof. exact identical_pair_rejected. Qed.
Print Assumptions C04_identical_pair_rejected.

Theorem C04_bottom_vote_rejected : forall thr b, nowrap b -> b_step b <= 2 -> b_bottom b = true ->
  b_votes b <> [] -> verify thr b <> None.
Proof. exact bottom_vote_rejected. Qed.
Print Assumptions C04_bottom_vote_rejected.

Theorem C04_cert_accept_sound : forall thr cr br dm b, nowrap b ->
  authenticate thr cr br dm b = None ->
  b_step b = 2 /\ cr = br /\ dm = true /\ proves_quorum thr b = true /\
  (b_bottom b = true -> b_votes b = []).
Proof. exact cert_accept_sound. Qed.
Print Assumptions C04_cert_accept_sound.

Theorem C04_cert_wrong_round_or_digest_rejected : forall thr cr br dm b,
  cr <> br \/ dm = false \/ b_step b <> 2 -> authenticate thr cr br dm b <> None.
Proof. exact cert_wrong_round_or_digest_rejected. Qed.
Print Assumptions C04_cert_wrong_round_or_digest_rejected.

(* the guard used by the executable checker implies the theorems' hypothesis *)
Theorem C04_check_guard : forall b, small_sum b = true -> nowrap b.
Proof. exact small_sum_nowrap. Qed.
Print Assumptions C04_check_guard.

Example C04_nonvacuous :
  let v s w := {| bv_sender := s; bv_ok := Some w |} in
  let good := {| b_step := 2; b_bottom := false; b_votes := [v 1 40; v 2 30]; b_eqs :=
                 [{| be_sender := 3; be_same := false; be_ok0 := Some 50; be_ok1 := true |}] |} in
  let dup := {| b_step := 2; b_bottom := false; b_votes := [v 1 40; v 1 40; v 2 30]; b_eqs := [] |} in
  nowrap good /\ verify 112 good = None /\ verify 121 good = Some EWeight /\
  verify 100 dup = Some EDupVote /\ authenticate 112 7 8 true good = Some CRound.
Proof. vm_compute. repeat split. Qed.
