(* C45 Overflow-checked arithmetic is exact.
   Property theorems only: each is closed by [exact <lemma>] and followed by
   Print Assumptions.  Statements: the transcription of the Go helpers (model/Overflow.v),
   at EVERY bit width w and for ALL operands below 2^w, equals the closed-form "true
   result" of model/OverflowSpec.v (which is what [check] compares the implementation's
   observations with). *)
From Coq Require Import NArith ZArith List Bool String.
Import ListNotations.
From Verif.lib Require Import Term.
From Verif.model Require Import Overflow OverflowSpec.
From Verif.proofs Require Import OverflowProofs OverflowSpecProofs.
Open Scope N_scope.

Theorem C45_oadd : forall w a b, a < 2 ^ w -> b < 2 ^ w -> oadd w a b = spec_oadd w a b.
Proof. exact oadd_is_spec. Qed.
Print Assumptions C45_oadd.

Theorem C45_oadd_exact : forall w a b, a < 2 ^ w -> b < 2 ^ w ->
  (snd (oadd w a b) = true <-> 2 ^ w <= a + b) /\
  (snd (oadd w a b) = false -> fst (oadd w a b) = a + b).
Proof. exact oadd_exact. Qed.
Print Assumptions C45_oadd_exact.

Theorem C45_osub : forall w a b, a < 2 ^ w -> b < 2 ^ w -> osub w a b = spec_osub w a b.
Proof. exact osub_is_spec. Qed.
Print Assumptions C45_osub.

Theorem C45_osub_exact : forall w a b, a < 2 ^ w -> b < 2 ^ w ->
  (snd (osub w a b) = true <-> a < b) /\
  (snd (osub w a b) = false -> fst (osub w a b) = a - b /\ b <= a).
Proof. exact osub_exact. Qed.
Print Assumptions C45_osub_exact.

Theorem C45_omul : forall w a b, a < 2 ^ w -> b < 2 ^ w -> omul w a b = spec_omul w a b.
Proof. exact omul_is_spec. Qed.
Print Assumptions C45_omul.

Theorem C45_saturating : forall w a b, a < 2 ^ w -> b < 2 ^ w ->
  addsat w a b = N.min (a + b) (2 ^ w - 1) /\
  subsat w a b = a - b /\
  mulsat w a b = N.min (a * b) (2 ^ w - 1).
Proof. exact saturating_spec. Qed.
Print Assumptions C45_saturating.

Theorem C45_odiff : forall a b, a < 2 ^ 64 -> b < 2 ^ 64 -> odiff a b = spec_odiff a b.
Proof. exact odiff_is_spec. Qed.
Print Assumptions C45_odiff.

Theorem C45_muldiv : forall a b c, a < 2 ^ 64 -> b < 2 ^ 64 -> c < 2 ^ 64 ->
  muldiv a b c = spec_muldiv a b c.
Proof. exact muldiv_is_spec. Qed.
Print Assumptions C45_muldiv.

Theorem C45_mul2div : forall a b c d, a < 2 ^ 64 -> b < 2 ^ 64 -> c < 2 ^ 64 -> d < 2 ^ 64 ->
  mul2div a b c d = spec_mul2div a b c d.
Proof. exact mul2div_is_spec. Qed.
Print Assumptions C45_mul2div.

Theorem C45_fee_for_usage : forall base usage mult residue fee res' o,
  base < 2 ^ 64 -> usage < 2 ^ 64 -> mult < 2 ^ 64 -> residue < feeResidueScale ->
  feeForUsage base usage mult residue = (fee, res', o) ->
  fee_ok base usage mult residue fee res' o = true.
Proof. exact feeForUsage_ok. Qed.
Print Assumptions C45_fee_for_usage.

Theorem C45_divvy : forall num den q, num < 2 ^ 64 -> den < 2 ^ 64 -> q < 2 ^ 64 ->
  divvy num den q = spec_divvy num den q.
Proof. exact divvy_is_spec. Qed.
Print Assumptions C45_divvy.

(* fraction splits sum back to the input: on every proper fraction Divvy cannot panic *)
Theorem C45_divvy_sums : forall num den q, num <= den -> den <> 0 -> den < 2 ^ 64 -> q < 2 ^ 64 ->
  exists first second, divvy num den q = Some (first, second) /\
    first = (q * num) / den /\ first + second = q.
Proof. exact divvy_exact. Qed.
Print Assumptions C45_divvy_sums.

Theorem C45_micros : forall m m2 i, m < 2 ^ 64 -> m2 < 2 ^ 64 -> (- 2 ^ 63 <= i < 2 ^ 63)%Z ->
  microsMul m m2 = spec_microsMul m m2 /\ mulMicros m m2 = spec_microsMul m m2 /\
  microsMulInt m i = spec_microsMulInt m i.
Proof. exact micros_is_spec. Qed.
Print Assumptions C45_micros.

Theorem C45_divceil : forall w n d, n < 2 ^ w -> d < 2 ^ w -> d <> 0 -> n + d - 1 < 2 ^ w ->
  divceil w n d = Some ((n + d - 1) / d) /\
  n <= ((n + d - 1) / d) * d /\ (forall k, n <= k * d -> (n + d - 1) / d <= k).
Proof. exact divceil_spec. Qed.
Print Assumptions C45_divceil.

(* the checker is sound: a verdict other than "violation" on a generic case means the
   implementation's observation IS the closed-form result *)
Theorem C45_check_sound_generic : forall w a b obs,
  check (TL [TS "g"; TZ (Z.of_N w); TZ (Z.of_N a); TZ (Z.of_N b); obs]) = v_ok \/
  check (TL [TS "g"; TZ (Z.of_N w); TZ (Z.of_N a); TZ (Z.of_N b); obs]) = v_triv ->
  term_eqb obs (spec_generic w a b) = true /\ model_generic w a b = spec_generic w a b.
Proof. exact check_sound_generic. Qed.
Print Assumptions C45_check_sound_generic.

(* anti-vacuity: concrete operands meet the hypotheses and exercise both branches *)
Example C45_nonvacuous :
  oadd 8 200 100 = (44, true) /\ omul 8 16 16 = (0, true) /\ omul 8 15 17 = (255, false) /\
  muldiv (2 ^ 64 - 1) (2 ^ 64 - 1) (2 ^ 64 - 1) = (2 ^ 64 - 1, 0, false) /\
  mul2div (2 ^ 64 - 1) (2 ^ 64 - 1) 2 (2 ^ 64 - 1) = (2 ^ 64 - 1, 0, true) /\
  odiff 0 (2 ^ 63) = ((- 2 ^ 63)%Z, false) /\ odiff 0 (2 ^ 63 + 1) = (0%Z, true).
Proof. vm_compute. repeat split. Qed.
