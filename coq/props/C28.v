(* C28  Only the current authorizer can authorize a transaction.
   Property theorems only (each closed by [exact <lemma>], followed by Print Assumptions).
   All statements are for EVERY ed25519 / Falcon verification function [sig_ok] / [pq_ok], every
   hash function [H], every consensus-parameter record, every group (any length), every
   transaction content and every AuthAddr state.
   Model: model/TxnAuth.v (verify.TxnGroup, crypto.MultisigBatchPrep, logicSigVerify,
   BlockEvaluator.TransactionGroup's authorizer check); declarative statement:
   model/TxnAuthSpec.v ([accept_ok] = state-proof exemption, or exactly one category and
   [authorised_by]). *)
From Coq Require Import String Ascii NArith ZArith List Bool.
Import ListNotations.
From Verif.lib Require Import Term.
From Verif.model Require Import Commitments TxnAuth TxnAuthSpec TxnAuthCheck.
From Verif.proofs Require Import TxnAuthProofs TxnCacheProofs.
Open Scope N_scope.

(* verify.TxnGroup returns nil  =>  every member carries exactly one authorization category
   (or is the signature-less state proof transaction of the special sender) and is authorised
   by the address it names as authorizer: a signature of that key over "TX"||canonical
   encoding, a version-1 multisig whose recomputed address is the authorizer with at least
   threshold valid sub-signatures over the same bytes, an approving LogicSig whose program
   hash is the authorizer or which the authorizer delegated (signature / Msig / LMsig / PQ),
   or a PQ signature whose derived address is the authorizer. *)
Theorem C28_accept_sound : forall sig_ok pq_ok H p l,
  verify_group sig_ok pq_ok H p l = VOk ->
  forall s, In s l -> accept_ok sig_ok pq_ok H (authorizer s) s.
Proof. exact accept_sound. Qed.
Print Assumptions C28_accept_sound.

(* the evaluator (validate mode) accepts a group only if every member names the CURRENT
   authorizer of its sender: the ledger's AuthAddr (the sender itself when not rekeyed),
   updated by the rekeys of the earlier members of the same group *)
Theorem C28_eval_authorizer_is_current : forall H maxgroup st fees g st',
  eval_txgroup H true maxgroup st fees g = (EOk, st') ->
  st' = fold_left apply_rekey g st /\
  forall j t, nth_error g j = Some t ->
    e_authorizer t = current_authorizer (state_before st g j) (e_sender t).
Proof. exact eval_auth_sound. Qed.
Print Assumptions C28_eval_authorizer_is_current.

(* both together: accepted by the verifier and by the evaluator => authorised by the current
   authorizer of the sender *)
Theorem C28_only_current_authorizer :
  forall sig_ok pq_ok (H : bytes -> bytes) (Hk : N -> bytes -> bytes) p maxgroup st fees l g st',
    map t_sender l = map e_sender g -> map t_auth l = map e_auth g ->
    verify_group sig_ok pq_ok H p l = VOk ->
    eval_txgroup Hk true maxgroup st fees g = (EOk, st') ->
    forall j s, nth_error l j = Some s ->
      accept_ok sig_ok pq_ok H (current_authorizer (state_before st g j) (t_sender s)) s.
Proof. exact only_current_authorizer. Qed.
Print Assumptions C28_only_current_authorizer.

(* zero or several categories: rejected (state proof exemption aside) *)
Theorem C28_zero_or_two_categories_rejected : forall sig_ok pq_ok H p l s,
  In s l -> count_true (categories s) <> 1%nat -> ~ sp_exempt s ->
  verify_group sig_ok pq_ok H p l <> VOk.
Proof. exact zero_or_two_categories_rejected. Qed.
Print Assumptions C28_zero_or_two_categories_rejected.

(* every signature that is present in the category in use (and everything the heartbeat proof
   enqueues) must verify: acceptance never skips one *)
Theorem C28_batch_all_checked : forall sig_ok pq_ok H p l,
  verify_group sig_ok pq_ok H p l = VOk ->
  forall s, In s l -> forall pk m sg, In (pk, m, sg) (present_sigs s) -> sig_ok pk m sg = true.
Proof. exact batch_all_checked. Qed.
Print Assumptions C28_batch_all_checked.

(* "any change after signing causes rejection": the message handed to signature verification
   is the whole canonical encoding, so under unforgeability (only what the key holder signed
   verifies) content that was not signed is rejected *)
Theorem C28_unsigned_content_rejected :
  forall sig_ok pq_ok H p (Signed : bytes -> bytes -> Prop) l s,
    (forall pk m sg, sig_ok pk m sg = true -> Signed pk m) ->
    In s l -> sig_present s = true ->
    ~ Signed (authorizer s) (str "TX" ++ t_enc s) ->
    verify_group sig_ok pq_ok H p l <> VOk.
Proof. exact unsigned_content_rejected. Qed.
Print Assumptions C28_unsigned_content_rejected.

(* the verifier also enforces the group id rule (C29) *)
Theorem C28_verify_checks_group_id : forall sig_ok pq_ok H p l,
  verify_group sig_ok pq_ok H p l = VOk -> check_group_id (fun _ : N => H) (map t_gtx l) = GOk.
Proof. exact verify_group_checks_group_id. Qed.
Print Assumptions C28_verify_checks_group_id.

(* the executable oracles evaluated on the implementation's observations are the statements *)
Theorem C28_spec_ok_sound : forall sig_ok pq_ok H a s,
  accept_ok_b sig_ok pq_ok H a s = true <-> accept_ok sig_ok pq_ok H a s.
Proof. exact accept_ok_b_iff. Qed.
Print Assumptions C28_spec_ok_sound.

Theorem C28_eval_spec_ok_sound : forall g st,
  auth_chain_ok st g = true <->
  forall j t, nth_error g j = Some t ->
    e_authorizer t = current_authorizer (state_before st g j) (e_sender t).
Proof. exact auth_chain_ok_iff. Qed.
Print Assumptions C28_eval_spec_ok_sound.

(* oracle of the composed cases (same group through verify.TxnGroup and the evaluator) = the
   conclusion of C28_only_current_authorizer *)
Theorem C28_compose_spec_ok_sound : forall sig_ok pq_ok H l g st, length l = length g ->
  (compose_ok sig_ok pq_ok H st l g = true <->
   forall j s, nth_error l j = Some s ->
     accept_ok sig_ok pq_ok H (current_authorizer (state_before st g j) (t_sender s)) s).
Proof. exact compose_ok_iff. Qed.
Print Assumptions C28_compose_spec_ok_sound.

(* --- the verified-transaction cache (model: cstep = TxnGroup / PaysetGroups / ProcessBatch) ---
   for EVERY sequence of calls, and every pattern of worksets that completed before an aborted
   PaysetGroups returned, the cache only remembers groups that verified *)
Theorem C28_cache_sound : forall sig_ok pq_ok H p ops g,
  In g (crun sig_ok pq_ok H p ops) -> gvalid sig_ok pq_ok H p g = true.
Proof. exact cache_sound. Qed.
Print Assumptions C28_cache_sound.

(* block validation (GetUnverifiedTransactionGroups, then PaysetGroups on the rest) accepts a
   payset only if every group verifies and every member is authorised -- whatever history the
   shared cache has seen.  Premise: a cache hit stands for a remembered group with the same
   verification outcome (lookup by txid plus equality of all signature fields and AuthAddr). *)
Theorem C28_validate_sound : forall sig_ok pq_ok H p (remembered : list group -> group -> bool),
  (forall c g, remembered c g = true ->
     exists g', In g' c /\ (gvalid sig_ok pq_ok H p g' = true -> gvalid sig_ok pq_ok H p g = true)) ->
  forall ops payset,
    validate sig_ok pq_ok H p remembered (crun sig_ok pq_ok H p ops) payset = true ->
    forall g s, In g payset -> In s g -> accept_ok sig_ok pq_ok H (authorizer s) s.
Proof. exact validate_authorised. Qed.
Print Assumptions C28_validate_sound.

Theorem C28_cache_spec_ok_sound : forall sig_ok pq_ok H g,
  group_authorised sig_ok pq_ok H g = true <->
  g <> [] /\ forall s, In s g -> accept_ok sig_ok pq_ok H (authorizer s) s.
Proof. exact group_authorised_iff. Qed.
Print Assumptions C28_cache_spec_ok_sound.

(* ---- non-vacuity: concrete groups that are accepted / rejected ---- *)
Definition ex_params : vparams := mkVParams true true true 10 false true true 16000 1000.
Definition ex_nomsig : msig := mkMsig 0 0 true [].
Definition ex_nopq : pqsig := mkPQ [0; 0] 0 [] [].
Definition ex_nolsig : lsig := mkLsig [] (repeat 0 64) ex_nomsig ex_nomsig ex_nopq [] false 2.
Definition ex_addr (b : N) : bytes := repeat b 32.
Definition ex_sig (b : N) : bytes := repeat b 64.
(* toy crypto: key k validates the signature whose bytes are all k; H = identity *)
Definition ex_sig_ok (pk m sg : bytes) : bool := beqb sg (repeat (hd 0 pk) 64).
Definition ex_pq_ok (_ _ _ _ : bytes) : bool := false.
Definition ex_H (x : bytes) : bytes := x.

(* a rekeyed sender (7 -> authorizer 9) with a plain signature of key 9 *)
Definition ex_stx1 : stxn :=
  mkStxn (ex_addr 7) (ex_addr 9) false [1; 2; 3] (mkGtx (repeat 0 32) [1; 2; 3]) true []
         (ex_sig 9) ex_nomsig ex_nolsig ex_nopq.
Example ex_accept : verify_group ex_sig_ok ex_pq_ok ex_H ex_params [ex_stx1] = VOk.
Proof. vm_compute. reflexivity. Qed.
(* signed by the sender's own key although the sender is rekeyed: the verifier checks against
   the named authorizer 9, so the signature of key 7 fails *)
Example ex_reject_wrong_key :
  verify_group ex_sig_ok ex_pq_ok ex_H ex_params
    [mkStxn (ex_addr 7) (ex_addr 9) false [1; 2; 3] (mkGtx (repeat 0 32) [1; 2; 3]) true []
            (ex_sig 7) ex_nomsig ex_nolsig ex_nopq] = VErr "batch" (-1) "batch".
Proof. vm_compute. reflexivity. Qed.
(* a 2-of-3 multisig with two valid sub-signatures *)
Definition ex_msig : msig :=
  mkMsig 1 2 false [mkSub (ex_addr 4) (ex_sig 4); mkSub (ex_addr 5) (ex_sig 0); mkSub (ex_addr 6) (ex_sig 6)].
Definition ex_msig_addr : bytes := str "MultisigAddr" ++ [1; 2] ++ ex_addr 4 ++ ex_addr 5 ++ ex_addr 6.
Example ex_accept_msig :
  verify_group ex_sig_ok ex_pq_ok ex_H ex_params
    [mkStxn ex_msig_addr (repeat 0 32) false [9] (mkGtx (repeat 0 32) [9]) true []
            (ex_sig 0) ex_msig ex_nolsig ex_nopq] = VOk.
Proof. vm_compute. reflexivity. Qed.
(* signature and multisig together: rejected *)
Example ex_reject_two_categories :
  verify_group ex_sig_ok ex_pq_ok ex_H ex_params
    [mkStxn ex_msig_addr (repeat 0 32) false [9] (mkGtx (repeat 0 32) [9]) true []
            (ex_sig 4) ex_msig ex_nolsig ex_nopq] = VErr "signotwellformed" 0 "multi".
Proof. vm_compute. reflexivity. Qed.
(* evaluator: sender 7 is rekeyed to 9; the first member (authorised by 9) rekeys it to 8, so
   the second member must name 8 *)
Definition ex_etx (auth rk : bytes) : etx :=
  mkEtx (ex_addr 7) auth rk (mkGtx (repeat 0 32) [1]) true true.
Example ex_eval_accept :
  fst (eval_txgroup (fun _ x => x) true 16 [(ex_addr 7, ex_addr 9)] true [ex_etx (ex_addr 9) (ex_addr 8)]) = EOk.
Proof. vm_compute. reflexivity. Qed.
Example ex_eval_reject_stale :
  fst (eval_txgroup (fun _ x => x) true 16 [(ex_addr 7, ex_addr 8)] true [ex_etx (ex_addr 9) (repeat 0 32)]) = EErrAuth 0.
Proof. vm_compute. reflexivity. Qed.
(* cache history: a bad-signature group is never remembered, a good one is; revalidating the
   payset with the bad group fails again *)
Definition ex_bad : stxn :=
  mkStxn (ex_addr 7) (ex_addr 9) false [1; 2; 4] (mkGtx (repeat 0 32) [1; 2; 4]) true []
         (ex_sig 7) ex_nomsig ex_nolsig ex_nopq.
Definition ex_rem (c : list group) (g : group) : bool :=
  existsb (fun g' => list_eqb beqb (map t_enc g) (map t_enc g') && list_eqb beqb (map t_sig g) (map t_sig g')) c.
Example ex_cache_history :
  let c := crun ex_sig_ok ex_pq_ok ex_H ex_params [CPayset [[ex_stx1]; [ex_bad]] [true; true]; CTxnGroup [ex_bad]; CBatch [[ex_bad]; [ex_stx1]]] in
  map (map t_enc) c = [[[1; 2; 3]]] /\
  validate ex_sig_ok ex_pq_ok ex_H ex_params ex_rem c [[ex_stx1]; [ex_bad]] = false /\
  validate ex_sig_ok ex_pq_ok ex_H ex_params ex_rem c [[ex_stx1]] = true.
Proof. vm_compute. repeat split. Qed.
