(* C08 Ledger queries answer from the block history, not from flush timing.

   Property theorems only: each is closed by [exact <lemma>] and followed by Print Assumptions.

   Model: model/Tracker.v (accountUpdates + base caches + compaction/accountsNewRound + the
   trackerRegistry commit protocol, one generic key-space component instantiated for accounts,
   resources, KV and creatables); specification: model/LedgerSpec.v ([state_at] = fold of the
   block deltas over genesis).  [reach c gen ops] is the tracker state after ANY finite sequence
   of operations [ops] (new blocks, committedUpTo calls, the three phases of a commit taken
   apart, reloads, cache flushes / evictions, lookups, lookups by readers that stall between
   their DB read and their cache write, the landing of such a write at a later time) under ANY
   configuration [c] (lookback, cache on/off, cache sizes); [history_of ops] is the block history
   the sequence contains.
   [lands_ok]: the code as it is (flushPendingWrites, [cf_fix c = false]) tolerates the late landing
   of a held reader's cache write only while the DB round it was read at is still current or a
   newer cache entry for the key is still in the base cache; without that the property is REFUTED
   (C08_late_pending_refuted, finding late_pending_cache_write).  Runs without held readers
   ([prompt]) and any run against the proposed flushPendingWritesSince ([cf_fix c = true],
   fixes/proposed/C08.patch) meet the hypothesis (C08_*_with_proposed_fix, C08_prompt_runs).
   The only hypothesis is [wf_hist]: what the block evaluator guarantees about its deltas
   (distinct keys per round; a KV record's OldData is the previous value; a resource half is
   "nil and not deleted" only if it was absent) -- both special clauses are shown necessary. *)
From Coq Require Import NArith ZArith List Bool String.
Import ListNotations.
From Verif.lib Require Import Term.
From Verif.model Require Import LedgerSpec Tracker TrackerCheck.
From Verif.proofs Require Import LedgerSpecProofs TrackerSpace TrackerProofs TrackerExamples.
Open Scope nat_scope.

(* The tracker invariant holds in every reachable state: the DB table is the state at the DB
   round, the in-memory deltas are exactly the later blocks, every reference count is the number
   of in-memory deltas touching the key with the newest value attached, every base-cache entry
   (and every pending write that can still win a cache slot) carries the DB value, not-found marks
   are only on absent rows, between the SQL transaction and postCommit the DB is exactly [off]
   rounds ahead and memory unchanged. *)
Theorem C08_tracker_invariant : forall c gen ops,
  lands_ok (init c gen) ops = true -> wf_hist (genesis_world gen) (history_of ops) ->
  Inv (genesis_world gen) (reach c gen ops) /\ Full (reach c gen ops) /\
  t_blocks (reach c gen ops) = history_of ops.
Proof. exact reach_inv. Qed.
Print Assumptions C08_tracker_invariant.

(* Every value any lookup returns, in any reachable state (including while a commit is between
   its SQL transaction and its postCommit), is the projection of the state obtained by applying
   exactly the blocks up to the requested round to genesis. *)
Theorem C08_lookup_correct : forall c gen ops q,
  lands_ok (init c gen) ops = true -> wf_hist (genesis_world gen) (history_of ops) -> is_query q ->
  out_is_ok (snd (step (reach c gen ops) q)) ->
  snd (step (reach c gen ops) q) = spec_out (genesis_world gen) (history_of ops) q.
Proof. exact lookup_correct_lemma. Qed.
Print Assumptions C08_lookup_correct.

(* Every round from the DB round to the latest block is served: a lookup there returns a value,
   except while the DB is ahead of memory, where it returns a value or waits (never an error). *)
Theorem C08_lookup_total : forall c gen ops q,
  lands_ok (init c gen) ops = true -> wf_hist (genesis_world gen) (history_of ops) -> is_query q ->
  servable (reach c gen ops) (q_rnd q) ->
  match t_phase (reach c gen ops) with
  | PCommitted _ => out_is_ok (snd (step (reach c gen ops) q)) \/ out_is_retry (snd (step (reach c gen ops) q))
  | _ => out_is_ok (snd (step (reach c gen ops) q))
  end.
Proof. exact lookup_total_lemma. Qed.
Print Assumptions C08_lookup_total.

(* The property's sentence: two runs over the same blocks -- whatever their flush schedules,
   cache configurations, evictions and restarts -- give the same answer to the same question. *)
Theorem C08_schedule_independent : forall c1 c2 gen ops1 ops2 q,
  lands_ok (init c1 gen) ops1 = true -> lands_ok (init c2 gen) ops2 = true ->
  history_of ops1 = history_of ops2 ->
  wf_hist (genesis_world gen) (history_of ops1) -> is_query q ->
  out_is_ok (snd (step (reach c1 gen ops1) q)) -> out_is_ok (snd (step (reach c2 gen ops2) q)) ->
  snd (step (reach c1 gen ops1) q) = snd (step (reach c2 gen ops2) q).
Proof. exact schedule_independent_lemma. Qed.
Print Assumptions C08_schedule_independent.

(* None of the consistency panics of postCommit / produceCommittingTask / slice indexing is
   reachable, as long as committedUpTo is only called for rounds that exist. *)
Theorem C08_no_panic : forall c gen ops,
  lands_ok (init c gen) ops = true -> wf_hist (genesis_world gen) (history_of ops) -> enabled_run (init c gen) ops ->
  Forall (fun r => r <> RPanic) (snd (run (init c gen) ops)).
Proof. exact no_panic_reach. Qed.
Print Assumptions C08_no_panic.

(* The DB round never lags behind memory; a commit in flight covers in-memory rounds only. *)
Theorem C08_phase_rounds : forall c gen ops,
  lands_ok (init c gen) ops = true -> wf_hist (genesis_world gen) (history_of ops) ->
  let s := reach c gen ops in
  match t_phase s with
  | PIdle => t_dbr s = t_dbRound s
  | PPrepared off => t_dbr s = t_dbRound s /\ 1 <= off <= List.length (t_deltas s)
  | PCommitted off => t_dbr s = t_dbRound s + off /\ 1 <= off <= List.length (t_deltas s)
  end /\ t_dbRound s + List.length (t_deltas s) = List.length (history_of ops).
Proof. exact reach_phase. Qed.
Print Assumptions C08_phase_rounds.

(* [check]'s oracle is the statement: the term it compares an (ok ...) observation with is the
   printed form of [spec_out], computed from the delta list alone. *)
Theorem C08_spec_ok_is_statement : forall g h rnd a ci k ct,
  spec_acct g h rnd a = out_term (spec_out g h (OSAcct rnd a)) /\
  spec_acct g h rnd a = out_term (spec_out g h (OQAcct rnd a)) /\
  spec_res g h rnd a ci = out_term (spec_out g h (OQRes rnd a ci)) /\
  spec_kv g h rnd k = out_term (spec_out g h (OQKv rnd k)) /\
  spec_cre g h rnd ci ct = out_term (spec_out g h (OQCre rnd ci ct)).
Proof. intros. repeat split. Qed.
Print Assumptions C08_spec_ok_is_statement.

(* ---------- who meets [lands_ok] ---------- *)
Theorem C08_prompt_runs : forall ops s, prompt ops = true -> lands_ok s ops = true.
Proof. exact lands_ok_prompt. Qed.
Print Assumptions C08_prompt_runs.

Theorem C08_lookup_correct_with_proposed_fix : forall c gen ops q,
  cf_fix c = true -> wf_hist (genesis_world gen) (history_of ops) -> is_query q ->
  out_is_ok (snd (step (reach c gen ops) q)) ->
  snd (step (reach c gen ops) q) = spec_out (genesis_world gen) (history_of ops) q.
Proof. exact lookup_correct_fixed_lemma. Qed.
Print Assumptions C08_lookup_correct_with_proposed_fix.

Theorem C08_schedule_independent_with_proposed_fix : forall c1 c2 gen ops1 ops2 q,
  cf_fix c1 = true -> cf_fix c2 = true ->
  history_of ops1 = history_of ops2 ->
  wf_hist (genesis_world gen) (history_of ops1) -> is_query q ->
  out_is_ok (snd (step (reach c1 gen ops1) q)) -> out_is_ok (snd (step (reach c2 gen ops2) q)) ->
  snd (step (reach c1 gen ops1) q) = snd (step (reach c2 gen ops2) q).
Proof. exact schedule_independent_fixed_lemma. Qed.
Print Assumptions C08_schedule_independent_with_proposed_fix.

(* ---------- the code as it is (flushPendingWrites, [cf_fix c = false]): a cache write that lands
   late -- after a commit changed the key and the cache turned over -- plants a stale entry, and
   lookups then answer from it.  Replayed on the Go code by the harness with a real reader
   goroutine held after its SQL query (finding late_pending_cache_write).  The schedule violates
   [lands_ok]; with flushPendingWritesSince it gives the value the history dictates. ---------- *)
Theorem C08_late_pending_refuted :
  exists c gen ops rnd a v,
    cf_fix c = false /\
    wf_hist (genesis_world gen) (history_of ops) /\
    snd (step (reach c gen ops) (OQAcct rnd a)) = RAcct (LOk v) /\
    v <> ans_acct (state_at (genesis_world gen) (history_of ops) rnd) a.
Proof. exact late_pending_refuted_lemma. Qed.
Print Assumptions C08_late_pending_refuted.

Example C08_late_ops_not_tolerated : lands_ok (init (late_cfg false) late_gen) late_ops = false.
Proof. exact late_ops_not_tolerated. Qed.

Example C08_late_pending_repaired :
  snd (step (reach (late_cfg true) late_gen late_ops) (OQAcct 2 1%N)) = RAcct (LOk (mkAcct 200%N 0%N 0%N)).
Proof. exact late_pending_repaired_lemma. Qed.

(* ---------- the hypotheses on the history are necessary (not artefacts of the model):
   both witnesses are replayed on the Go code by the harness ---------- *)
Theorem C08_kv_olddata_needed :
  exists d ops1 ops2 v1 v2,
    history_of ops1 = [d] /\ history_of ops2 = [d] /\
    wf_histb (genesis_world []) [d] = false /\
    snd (step (fst (run (init cfg0 []) ops1)) (OQKv 1 [107%N])) = RKv (LOk v1) /\
    snd (step (fst (run (init cfg0 []) ops2)) (OQKv 1 [107%N])) = RKv (LOk v2) /\
    v1 <> v2.
Proof. exact kv_olddata_needed_lemma. Qed.
Print Assumptions C08_kv_olddata_needed.

Theorem C08_res_keep_needed :
  exists h ops1 ops2 v1 v2,
    history_of ops1 = h /\ history_of ops2 = h /\
    wf_histb (genesis_world []) h = false /\
    snd (step (fst (run (init cfg0 []) ops1)) (OQRes 2 1%N 10%N)) = RRes (LOk v1) /\
    snd (step (fst (run (init cfg0 []) ops2)) (OQRes 2 1%N 10%N)) = RRes (LOk v2) /\
    v1 <> v2.
Proof. exact res_keep_needed_lemma. Qed.
Print Assumptions C08_res_keep_needed.

(* ---------- non-vacuity: a concrete well-formed run that closes an account, deletes a box and a
   holding, commits two rounds with lookups between the SQL transaction and postCommit (one
   served by the base cache, one waiting), and reloads ---------- *)
Example C08_ex_wf : wf_hist (genesis_world ex_gen) (history_of ex_ops).
Proof. exact ex_wf. Qed.
Example C08_ex_lands : lands_ok (init ex_cfg ex_gen) ex_ops = true.
Proof. exact ex_lands. Qed.
Example C08_ex_enabled : enabled_run (init ex_cfg ex_gen) ex_ops.
Proof. exact ex_enabled. Qed.
Example C08_ex_window :
  t_phase (fst (run (init ex_cfg ex_gen) (firstn 9 ex_ops))) = PCommitted 2 /\
  t_dbr (fst (run (init ex_cfg ex_gen) (firstn 9 ex_ops))) = 2 /\
  t_dbRound (fst (run (init ex_cfg ex_gen) (firstn 9 ex_ops))) = 0.
Proof. exact ex_committed_phase. Qed.
Example C08_ex_outputs :
  nth 9 (snd (run (init ex_cfg ex_gen) ex_ops)) RDone = RAcct (LOk (mkAcct 50%N 0%N 0%N)) /\
  nth 10 (snd (run (init ex_cfg ex_gen) ex_ops)) RDone = RRes LRetry /\
  nth 18 (snd (run (init ex_cfg ex_gen) ex_ops)) RDone = RRes (LOk (Some 7%N, None)) /\
  nth 22 (snd (run (init ex_cfg ex_gen) ex_ops)) RDone = RAcct (LErr 1).
Proof. rewrite ex_outputs. repeat split. Qed.
