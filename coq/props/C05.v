(* C05 Consensus makes progress once the network is synchronous -- PARTIAL BY NATURE.
   Proved (for all parameters, players, routers, traces):
     * the deadline ladder of player.go / types.go:nextVoteRanges on the executable agreement model: ranges of
       consecutive next-steps tile and double; along the deadline timeouts of a period the Deadline never
       decreases, strictly increases at every vote and over any two consecutive timeouts (it is NOT strictly
       increasing per timeout: lower + entropy mod range can equal the previous deadline);
     * a deadline timeout through the whole submitTop model changes (Step, Napping, Deadline) exactly as
       C05Check.timeout_player computes (this function is what the check compares with the real player);
     * partitionPolicy: every next vote of a partitioned player that holds a freshest threshold re-broadcasts
       that bundle;
     * on the abstract protocol (AbstractBA): the honest-node rules never block a next-type vote of a node in
       its current period, nor the entry into period q+1 once a next-type quorum of q exists.
   NOT proved (searched by the N-node simulator, checks/C05.py): that after the synchrony point the votes that
   are enabled coincide and arrive in time, i.e. that every honest node commits within K periods. *)
From Coq Require Import NArith List Bool Arith String.
From Verif.lib Require Import Term.
From Verif.model Require Import AbstractBA AgreementTypes AgreementVotes AgreementPlayer C05Check.
From Verif.proofs Require Import C05Proofs C05AbstractProofs.
Import ListNotations.

Theorem C05_ladder_tiles :
  forall pm s d, (0 < pm_extra pm)%N -> (s_next <= s)%N ->
    let lu := next_vote_ranges pm s d in
    let lu' := next_vote_ranges pm (s + 1)%N d in
    (d <= fst lu /\ fst lu < snd lu /\ fst lu' = snd lu /\ snd lu' = snd lu + 2 * (snd lu - fst lu))%N.
Proof. exact ladder_tiles. Qed.
Print Assumptions C05_ladder_tiles.

Theorem C05_timeout_deadline_monotone :
  forall pm per step nap dl entropy,
    (0 < pm_extra pm)%N -> (step + 1 < 2 ^ 64)%N -> dl_ok pm per step nap dl ->
    let '(step', nap', dl') := timeout_player pm per step nap entropy in
    dl_ok pm per step' nap' dl' /\ (dl <= dl')%N /\ (nap' = false -> (dl < dl')%N) /\
    (step' = step \/ step' = (step + 1)%N).
Proof. exact timeout_deadline_monotone. Qed.
Print Assumptions C05_timeout_deadline_monotone.

Theorem C05_two_timeouts_strict :
  forall pm per step nap dl e1 e2,
    (0 < pm_extra pm)%N -> (step + 2 < 2 ^ 64)%N -> dl_ok pm per step nap dl ->
    let '(s1, n1, d1) := timeout_player pm per step nap e1 in
    let '(s2, n2, d2) := timeout_player pm per s1 n1 e2 in
    (dl < d2)%N.
Proof. exact two_timeouts_strict. Qed.
Print Assumptions C05_two_timeouts_strict.

Theorem C05_step_timeout_player :
  forall pm st entropy st' acts,
    step pm st (EvTimeout false entropy false) = Ok (st', acts) ->
    (p_step (s_pl st'), p_nap (s_pl st'), p_dl (s_pl st')) =
      timeout_player pm (p_per (s_pl st)) (p_step (s_pl st)) (p_nap (s_pl st)) entropy /\
    p_per (s_pl st') = p_per (s_pl st) /\ p_rnd (s_pl st') = p_rnd (s_pl st).
Proof. exact step_timeout_player. Qed.
Print Assumptions C05_step_timeout_player.

Theorem C05_partition_policy_rebroadcasts :
  forall pm pl rt rt1 th rt' acts,
    partitioned pl = true ->
    d_freshest pm pl rt (p_rnd pl) = Ok (rt1, Some th) ->
    partition_policy pm pl rt = Ok (rt', acts) ->
    In (ABroadcastBundle (th_b th)) acts.
Proof. exact partition_policy_rebroadcasts. Qed.
Print Assumptions C05_partition_policy_rebroadcasts.

Theorem C05_next_vote_rebroadcasts :
  forall pm pl rt d rt1 th pl' rt' acts,
    partitioned pl = true ->
    d_freshest pm pl rt (p_rnd pl) = Ok (rt1, Some th) ->
    issue_next_vote pm pl rt d = Ok (pl', rt', acts) ->
    In (ABroadcastBundle (th_b th)) acts /\
    exists v, In (AAttest (p_rnd pl) (p_per pl) (p_step pl) v) acts.
Proof. exact next_vote_rebroadcasts. Qed.
Print Assumptions C05_next_vote_rebroadcasts.

Theorem C05_partitioned_spec :
  forall pl, partitioned pl = true <-> ((partition_step <= p_step pl)%N \/ (3 <= p_per pl)%N).
Proof. exact partitioned_spec. Qed.
Print Assumptions C05_partitioned_spec.

(* the abstract rules never dead-lock a node (no quorum-intersection hypothesis needed) *)
Theorem C05_next_vote_enabled :
  forall (node value : Type)
         (node_eq_dec : forall a b : node, {a = b} + {a <> b})
         (value_eq_dec : forall a b : value, {a = b} + {a <> b})
         (honest : node -> Prop) (quorum : nat -> nat -> (node -> Prop) -> Prop)
         (t : AbstractBA.trace node value) (h : node) (s : nat),
    AbstractBA.reachable node value node_eq_dec value_eq_dec honest quorum t -> honest h -> (3 <= s)%nat ->
    (forall x, ~ AbstractBA.voted node value t (AbstractBA.mkVote node value h (AbstractBA.cur node value node_eq_dec h t) s x)) ->
    exists x, AbstractBA.ok node value node_eq_dec value_eq_dec honest quorum t
                 (AbstractBA.Vote node value (AbstractBA.mkVote node value h (AbstractBA.cur node value node_eq_dec h t) s x)).
Proof. exact next_vote_enabled. Qed.
Print Assumptions C05_next_vote_enabled.

Theorem C05_enter_enabled :
  forall (node value : Type)
         (node_eq_dec : forall a b : node, {a = b} + {a <> b})
         (value_eq_dec : forall a b : value, {a = b} + {a <> b})
         (honest : node -> Prop) (quorum : nat -> nat -> (node -> Prop) -> Prop)
         (t : AbstractBA.trace node value) (h : node) (q : nat) (x : option value),
    AbstractBA.nextq node value quorum t q x -> (AbstractBA.cur node value node_eq_dec h t <= q)%nat ->
    AbstractBA.ok node value node_eq_dec value_eq_dec honest quorum t (AbstractBA.Enter node value h (S q) (AbstractBA.ViaNext value x)).
Proof. exact enter_enabled. Qed.
Print Assumptions C05_enter_enabled.

(* anti-vacuity: the current protocol's timing parameters; a player that has just cast its step-4 vote in a
   later period (Deadline = upper(4) = 17 s + 2 s + 4 s) moves to step 5 napping with a deadline in
   [23 s, 31 s), and an entropy that is a multiple of the range reproduces the previous deadline exactly *)
Definition ex_pm : params :=
  mkParams 2267 1112 3838 320 1768 4560 3000000000 4000000000 4000000000 17000000000 2000000000 300000000000 true 8.
Example C05_ex_ok : dl_ok ex_pm 1 4 false 23000000000.
Proof. right; left. vm_compute. repeat split; discriminate. Qed.
Example C05_ex_step : timeout_player ex_pm 1 4 false 12345678901 = (5%N, true, 27345678901%N).
Proof. vm_compute. reflexivity. Qed.
Example C05_ex_not_strict : timeout_player ex_pm 1 4 false 16000000000 = (5%N, true, 23000000000%N).
Proof. vm_compute. reflexivity. Qed.
