//go:build verif

package verify

// C28 harness (signature categories / authorizer): real keys, real signatures, the real
// verify.TxnGroup.
//
// Every case is one transaction group: payments (plus an occasional heartbeat / state proof
// transaction) signed by a plain key, a k-of-n multisig, a contract or delegated LogicSig
// (delegation by signature, Msig, LMsig or a Falcon key), or a Falcon key; the sender is
// either the authorizer itself or another account with AuthAddr naming the authorizer; then
// zero or more byte- / field-wise mutations are applied AFTER signing.  The case line carries
//   - what the verifier reads of every SignedTxn,
//   - the REAL outcome of verifying every signature that is present in the group one by one
//     (crypto.SignatureVerifier.VerifyBytes / crypto.VerifyFalcon1024): the model's sig_ok,
//   - the REAL digests of the address pre-images (multisig address, program hash, PQ address,
//     member ids, group id): the model's H,
//   - the real per-transaction oracle bits (WellFormed, logic.CheckSignature, program result),
//   - the real result of verify.TxnGroup.

import (
	"errors"
	"fmt"
	"strings"
	"testing"

	"github.com/algorand/go-algorand/config"
	"github.com/algorand/go-algorand/crypto"
	"github.com/algorand/go-algorand/data/basics"
	"github.com/algorand/go-algorand/data/bookkeeping"
	"github.com/algorand/go-algorand/data/committee"
	"github.com/algorand/go-algorand/data/transactions"
	"github.com/algorand/go-algorand/data/transactions/logic"
	"github.com/algorand/go-algorand/protocol"
)

type vc28Key struct {
	sk   *crypto.SignatureSecrets
	addr basics.Address
}

type vc28Falcon struct {
	signer crypto.FalconSigner
	addr   basics.Address
	pq     transactions.PQSig // without signature
}

type vc28U struct {
	t      *testing.T
	r      *vRand
	keys   []vc28Key
	falcon []vc28Falcon
	progs  [][]byte // 0 approve, 1 reject, 2 err, 3 approve (other bytes), 4 version too new, 5 bad varint
	st     map[string]int
	uniq   uint64
}

const (
	vc28Sig = iota
	vc28Msig
	vc28LsigContract
	vc28LsigSig
	vc28LsigMsig
	vc28LsigLMsig
	vc28PQ
	vc28LsigPQ
	vc28None
	vc28StateProof
	vc28Heartbeat
	vc28NumKinds
)

var vc28KindNames = []string{"sig", "msig", "lsig_contract", "lsig_sig", "lsig_msig", "lsig_lmsig", "pq", "lsig_pq", "none", "stateproof", "heartbeat"}

// how one member is (honestly) authorized
type vc28Plan struct {
	kind    int
	key     int   // signing key (sig, lsig_sig)
	mkeys   []int // multisig keys
	thr     int
	signers []int // positions in mkeys that sign
	prog    int
	fal     int
	rekeyed bool
}

func vc28NewUniverse(t *testing.T, r *vRand) *vc28U {
	u := &vc28U{t: t, r: r, st: map[string]int{}}
	for i := 0; i < 7; i++ {
		var seed crypto.Seed
		copy(seed[:], r.Bytes(32))
		sk := crypto.GenerateSignatureSecrets(seed)
		u.keys = append(u.keys, vc28Key{sk: sk, addr: basics.Address(sk.SignatureVerifier)})
	}
	for i := 0; i < 2; i++ {
		var seed crypto.FalconSeed
		copy(seed[:], r.Bytes(len(seed)))
		signer, err := crypto.GenerateFalconSigner(seed)
		if err != nil {
			t.Fatalf("falcon keygen: %v", err)
		}
		pk := signer.PublicKey[:]
		salt, addr, err := basics.CanonicalPQAddressSalt(protocol.PQSchemeFalcon1024, pk)
		if err != nil {
			t.Fatalf("pq salt: %v", err)
		}
		u.falcon = append(u.falcon, vc28Falcon{signer: signer, addr: addr,
			pq: transactions.PQSig{Scheme: protocol.PQSchemeFalcon1024, Salt: salt, PublicKey: append([]byte{}, pk...)}})
	}
	for _, src := range []string{"int 1", "int 0", "err", "int 2"} {
		ops, err := logic.AssembleStringWithVersion(src, 2)
		if err != nil {
			t.Fatalf("assemble %q: %v", src, err)
		}
		u.progs = append(u.progs, ops.Program)
	}
	tooNew := append([]byte{}, u.progs[0]...)
	tooNew[0] = 120
	u.progs = append(u.progs, tooNew, []byte{0x80, 0x80})
	return u
}

// consensus parameter variants, registered under their own names
func (u *vc28U) proto() (protocol.ConsensusVersion, config.ConsensusParams) {
	r := u.r
	p := config.Consensus[protocol.ConsensusFuture]
	bits := 0
	flip := func(prob int, f func()) {
		bits <<= 1
		if r.Intn(prob) == 0 {
			bits |= 1
			f()
		}
	}
	flip(12, func() { p.SupportRekeying = false })
	flip(3, func() { p.EnforceAuthAddrSenderDiff = false })
	flip(6, func() { p.EnablePQSchemeFalcon1024 = false })
	flip(25, func() { p.LogicSigVersion = 0 })
	flip(3, func() { p.LogicSigMsig = true })
	flip(5, func() { p.LogicSigLMsig = false })
	flip(4, func() { p.PerByteTxnSurcharge = 0 })
	flip(8, func() { p.MaxAbsoluteLogicSigProgramSize = 4 })
	flip(6, func() { p.LogicSigMaxSize = 6; p.MaxAbsoluteLogicSigProgramSize = 6 })
	flip(10, func() { p.LogicSigMaxSize = 6 })
	name := protocol.ConsensusVersion(fmt.Sprintf("verif-c28-%d", bits))
	config.Consensus[name] = p
	return name, p
}

func (u *vc28U) basePay(sender basics.Address) transactions.Transaction {
	u.uniq++
	note := u.r.Bytes(4 + u.r.Intn(8))
	return transactions.Transaction{
		Type: protocol.PaymentTx,
		Header: transactions.Header{
			Sender:      sender,
			Fee:         basics.MicroAlgos{Raw: 3000 + uint64(u.r.Intn(5000))},
			FirstValid:  basics.Round(100 + u.r.Intn(10)),
			LastValid:   basics.Round(150 + u.r.Intn(10)),
			Note:        note,
			GenesisHash: crypto.Hash([]byte{1, 2, 3, 4, 5}),
		},
		PaymentTxnFields: transactions.PaymentTxnFields{
			Receiver: u.keys[u.r.Intn(len(u.keys))].addr,
			Amount:   basics.MicroAlgos{Raw: u.uniq*1000 + uint64(u.r.Intn(1000))},
		},
	}
}

type vc28RNG struct{ r *vRand }

func (g vc28RNG) RandBytes(b []byte) { copy(b, g.r.Bytes(len(b))) }

// a heartbeat transaction with a genuine (or, one in four, broken) heartbeat proof
func (u *vc28U) heartbeat(sender basics.Address, proto config.ConsensusParams) transactions.Transaction {
	r := u.r
	fv := basics.Round(100 + r.Intn(5))
	kd := uint64(111)
	lv := fv + 15
	firstID := basics.OneTimeIDForRound(fv, kd)
	lastID := basics.OneTimeIDForRound(lv, kd)
	otss := crypto.GenerateOneTimeSignatureSecretsRNG(firstID.Batch, lastID.Batch-firstID.Batch+1, vc28RNG{r})
	var seed committee.Seed
	copy(seed[:], r.Bytes(32))
	proof := otss.Sign(lastID, seed).ToHeartbeatProof()
	switch r.Intn(8) {
	case 0:
		proof.Sig[r.Intn(64)] ^= 1
	case 1:
		proof.PK1Sig[r.Intn(64)] ^= 1
	}
	return transactions.Transaction{
		Type: protocol.HeartbeatTx,
		Header: transactions.Header{Sender: sender, Fee: basics.MicroAlgos{Raw: proto.MinTxnFee * 2}, FirstValid: fv, LastValid: lv,
			GenesisHash: crypto.Hash([]byte{1, 2, 3, 4, 5})},
		HeartbeatTxnFields: &transactions.HeartbeatTxnFields{
			HbAddress: u.keys[r.Intn(len(u.keys))].addr, HbProof: proof, HbSeed: seed,
			HbVoteID: otss.OneTimeSignatureVerifier, HbKeyDilution: kd},
	}
}

func (u *vc28U) randPlan() vc28Plan {
	r := u.r
	pl := vc28Plan{key: r.Intn(len(u.keys)), prog: r.Intn(2) * 3, fal: r.Intn(len(u.falcon)), rekeyed: r.Intn(3) == 0}
	switch x := r.Intn(100); {
	case x < 24:
		pl.kind = vc28Sig
	case x < 46:
		pl.kind = vc28Msig
	case x < 56:
		pl.kind = vc28LsigContract
	case x < 66:
		pl.kind = vc28LsigSig
	case x < 72:
		pl.kind = vc28LsigMsig
	case x < 80:
		pl.kind = vc28LsigLMsig
	case x < 86:
		pl.kind = vc28PQ
	case x < 90:
		pl.kind = vc28LsigPQ
	case x < 94:
		pl.kind = vc28None
	case x < 97:
		pl.kind = vc28StateProof
	default:
		pl.kind = vc28Heartbeat
	}
	if r.Intn(5) == 0 {
		pl.prog = r.Intn(len(u.progs))
	}
	n := 1 + r.Intn(5)
	if r.Intn(40) == 0 {
		n = 200 + r.Intn(70) // around maxMultisig = 255
	}
	for i := 0; i < n; i++ {
		pl.mkeys = append(pl.mkeys, r.Intn(len(u.keys))) // duplicates possible
	}
	pl.thr = 1 + r.Intn(n)
	if pl.thr > 255 {
		pl.thr = 255
	}
	want := pl.thr + r.Intn(n-pl.thr+1)
	if r.Intn(6) == 0 && pl.thr > 0 {
		want = pl.thr - 1 // not enough signatures
	}
	perm := make([]int, n)
	for i := range perm {
		perm[i] = i
	}
	for i := n - 1; i > 0; i-- {
		j := r.Intn(i + 1)
		perm[i], perm[j] = perm[j], perm[i]
	}
	pl.signers = perm[:want]
	return pl
}

func (u *vc28U) msigPKs(pl vc28Plan) []crypto.PublicKey {
	pks := make([]crypto.PublicKey, len(pl.mkeys))
	for i, k := range pl.mkeys {
		pks[i] = u.keys[k].sk.SignatureVerifier
	}
	return pks
}

// address that has to authorize under the plan
func (u *vc28U) planAuthorizer(pl vc28Plan) basics.Address {
	switch pl.kind {
	case vc28Sig, vc28LsigSig, vc28None, vc28Heartbeat:
		return u.keys[pl.key].addr
	case vc28Msig, vc28LsigMsig, vc28LsigLMsig:
		a, err := crypto.MultisigAddrGen(1, uint8(pl.thr), u.msigPKs(pl))
		if err != nil {
			u.t.Fatalf("MultisigAddrGen: %v", err)
		}
		return basics.Address(a)
	case vc28LsigContract:
		return basics.Address(logic.HashProgram(u.progs[pl.prog]))
	case vc28PQ, vc28LsigPQ:
		return u.falcon[pl.fal].addr
	case vc28StateProof:
		return transactions.StateProofSender
	}
	panic("kind")
}

func (u *vc28U) msigSign(pl vc28Plan, msg crypto.Hashable) crypto.MultisigSig {
	m := crypto.MultisigSig{Version: 1, Threshold: uint8(pl.thr), Subsigs: make([]crypto.MultisigSubsig, len(pl.mkeys))}
	for i, k := range pl.mkeys {
		m.Subsigs[i].Key = u.keys[k].sk.SignatureVerifier
	}
	for _, i := range pl.signers {
		m.Subsigs[i].Sig = u.keys[pl.mkeys[i]].sk.Sign(msg)
	}
	return m
}

func (u *vc28U) falconSign(j int, msg crypto.Hashable) transactions.PQSig {
	q := u.falcon[j].pq
	q.PublicKey = append([]byte{}, q.PublicKey...)
	sig, err := u.falcon[j].signer.Sign(msg)
	if err != nil {
		u.t.Fatalf("falcon sign: %v", err)
	}
	q.Signature = sig
	return q
}

// honest authorization of tx under the plan (tx.Sender / Group already final)
func (u *vc28U) sign(tx transactions.Transaction, pl vc28Plan, auth basics.Address) transactions.SignedTxn {
	stx := transactions.SignedTxn{Txn: tx}
	if pl.rekeyed {
		stx.AuthAddr = auth
	}
	prog := u.progs[pl.prog]
	switch pl.kind {
	case vc28Sig, vc28Heartbeat:
		stx.Sig = u.keys[pl.key].sk.Sign(tx)
	case vc28Msig:
		stx.Msig = u.msigSign(pl, tx)
	case vc28LsigContract:
		stx.Lsig.Logic = prog
	case vc28LsigSig:
		stx.Lsig.Logic = prog
		stx.Lsig.Sig = u.keys[pl.key].sk.Sign(logic.Program(prog))
	case vc28LsigMsig:
		stx.Lsig.Logic = prog
		stx.Lsig.Msig = u.msigSign(pl, logic.Program(prog))
	case vc28LsigLMsig:
		stx.Lsig.Logic = prog
		stx.Lsig.LMsig = u.msigSign(pl, logic.MultisigProgram{Addr: crypto.Digest(auth), Program: prog})
	case vc28PQ:
		stx.PQsig = u.falconSign(pl.fal, tx)
	case vc28LsigPQ:
		stx.Lsig.Logic = prog
		stx.Lsig.PQsig = u.falconSign(pl.fal, logic.PQDelegatedProgram{Addr: auth, Program: prog})
	}
	if (pl.kind >= vc28LsigContract && pl.kind <= vc28LsigLMsig || pl.kind == vc28LsigPQ) && u.r.Intn(4) == 0 {
		for i := u.r.Intn(3); i >= 0; i-- {
			stx.Lsig.Args = append(stx.Lsig.Args, u.r.Bytes(u.r.Intn(9)))
		}
	}
	return stx
}

func vc28FlipSig(r *vRand, s *crypto.Signature) {
	s[r.Intn(len(s))] ^= byte(1 << uint(r.Intn(8)))
}

// one mutation after signing; returns its name ("" = not applicable)
func (u *vc28U) mutate(stxs []transactions.SignedTxn) string {
	r := u.r
	i := r.Intn(len(stxs))
	s := &stxs[i]
	msigOf := func() *crypto.MultisigSig {
		switch {
		case !s.Msig.Blank():
			return &s.Msig
		case !s.Lsig.Msig.Blank():
			return &s.Lsig.Msig
		case !s.Lsig.LMsig.Blank():
			return &s.Lsig.LMsig
		}
		return nil
	}
	switch r.Intn(30) {
	case 0:
		if s.Sig.Blank() {
			return ""
		}
		vc28FlipSig(r, &s.Sig)
		return "sig_flip"
	case 1:
		switch r.Intn(6) {
		case 0:
			s.Txn.Amount.Raw++
		case 1:
			s.Txn.Receiver[r.Intn(32)] ^= 1
		case 2:
			if len(s.Txn.Note) == 0 {
				return ""
			}
			s.Txn.Note = append([]byte{}, s.Txn.Note...)
			s.Txn.Note[r.Intn(len(s.Txn.Note))] ^= 0x10
		case 3:
			s.Txn.Fee.Raw++
		case 4:
			s.Txn.LastValid++
		case 5:
			s.Txn.RekeyTo = u.keys[r.Intn(len(u.keys))].addr
		}
		return "txn_field"
	case 2:
		s.Txn.Sender = u.keys[r.Intn(len(u.keys))].addr
		return "sender_changed"
	case 3:
		switch r.Intn(3) {
		case 0:
			s.AuthAddr = u.keys[r.Intn(len(u.keys))].addr
		case 1:
			s.AuthAddr = s.Txn.Sender
		case 2:
			if s.AuthAddr.IsZero() {
				return ""
			}
			s.AuthAddr = basics.Address{}
		}
		return "authaddr"
	case 4:
		// a second category (each one valid for the authorizer where that is possible)
		switch r.Intn(4) {
		case 0:
			if !s.Sig.Blank() {
				return ""
			}
			s.Sig = u.keys[r.Intn(len(u.keys))].sk.Sign(s.Txn)
		case 1:
			if !s.Msig.Blank() {
				return ""
			}
			s.Msig = u.msigSign(u.randPlan(), s.Txn)
		case 2:
			if s.Lsig.HasProgram() {
				return ""
			}
			s.Lsig.Logic = u.progs[0]
		case 3:
			if !s.PQsig.Blank() {
				return ""
			}
			s.PQsig = u.falconSign(r.Intn(len(u.falcon)), s.Txn)
		}
		return "second_category"
	case 5:
		s.Sig, s.Msig, s.Lsig, s.PQsig = crypto.Signature{}, crypto.MultisigSig{}, transactions.LogicSig{}, transactions.PQSig{}
		return "no_sig"
	case 6, 7, 8, 9, 10, 11, 12:
		m := msigOf()
		if m == nil || len(m.Subsigs) == 0 {
			return ""
		}
		m.Subsigs = append([]crypto.MultisigSubsig{}, m.Subsigs...)
		j := r.Intn(len(m.Subsigs))
		switch r.Intn(15) {
		case 13, 14:
			// break the last / the first sub-signature that is present
			for k := range m.Subsigs {
				idx := k
				if r.Intn(3) > 0 {
					idx = len(m.Subsigs) - 1 - k
				}
				if !m.Subsigs[idx].Sig.Blank() {
					vc28FlipSig(r, &m.Subsigs[idx].Sig)
					return "msig_flip_end_subsig"
				}
			}
			return ""
		case 0:
			m.Subsigs[j].Sig = crypto.Signature{}
			return "msig_blank_subsig"
		case 1:
			if m.Subsigs[j].Sig.Blank() {
				return ""
			}
			vc28FlipSig(r, &m.Subsigs[j].Sig)
			return "msig_flip_subsig"
		case 2:
			m.Threshold++
			return "msig_thr_up"
		case 3:
			m.Threshold = 0
			return "msig_thr_zero"
		case 4:
			m.Version = uint8(r.Intn(3)) * 2
			return "msig_version"
		case 5:
			k := r.Intn(len(m.Subsigs))
			m.Subsigs[j], m.Subsigs[k] = m.Subsigs[k], m.Subsigs[j]
			return "msig_swap"
		case 6:
			m.Subsigs = append(m.Subsigs, crypto.MultisigSubsig{Key: u.keys[r.Intn(len(u.keys))].sk.SignatureVerifier})
			return "msig_extra_key"
		case 7:
			m.Subsigs = append(m.Subsigs[:j], m.Subsigs[j+1:]...)
			if len(m.Subsigs) == 0 && r.Bool() {
				m.Subsigs = nil
			}
			return "msig_drop_key"
		case 8:
			m.Subsigs[0] = crypto.MultisigSubsig{}
			return "msig_zero_first"
		case 9:
			m.Subsigs = []crypto.MultisigSubsig{}
			return "msig_empty"
		case 10:
			// a genuine signature of the same key over a different message
			other := u.basePay(s.Txn.Sender)
			for _, k := range u.keys {
				if k.sk.SignatureVerifier == m.Subsigs[j].Key {
					m.Subsigs[j].Sig = k.sk.Sign(other)
				}
			}
			return "msig_sig_other_msg"
		case 11:
			// a signature by a key that is not the subsig's key
			m.Subsigs[j].Sig = u.keys[r.Intn(len(u.keys))].sk.Sign(s.Txn)
			return "msig_sig_other_key"
		default:
			m.Subsigs[j].Key[r.Intn(32)] ^= 4
			return "msig_key_flip"
		}
	case 13, 14, 15, 16:
		if !s.Lsig.HasProgram() {
			return ""
		}
		switch r.Intn(8) {
		case 0:
			s.Lsig.Logic = u.progs[r.Intn(len(u.progs))]
			return "lsig_program_swapped"
		case 1:
			s.Lsig.Args = append(append([][]byte{}, s.Lsig.Args...), r.Bytes(r.Intn(12)))
			return "lsig_arg_added"
		case 2:
			if s.Lsig.Sig.Blank() {
				return ""
			}
			vc28FlipSig(r, &s.Lsig.Sig)
			return "lsig_sig_flip"
		case 3:
			switch r.Intn(3) {
			case 0:
				s.Lsig.Sig = u.keys[r.Intn(len(u.keys))].sk.Sign(logic.Program(s.Lsig.Logic))
			case 1:
				s.Lsig.Msig = u.msigSign(u.randPlan(), logic.Program(s.Lsig.Logic))
			case 2:
				s.Lsig.LMsig = u.msigSign(u.randPlan(), logic.Program(s.Lsig.Logic))
			}
			return "lsig_delegation_added"
		case 4:
			s.Lsig.Logic = nil
			return "lsig_program_removed"
		case 5:
			s.Lsig.Logic = append(append([]byte{}, s.Lsig.Logic...), 0x48) // trailing pop
			return "lsig_program_extended"
		case 6:
			// move a delegation between the Msig and LMsig fields
			s.Lsig.Msig, s.Lsig.LMsig = s.Lsig.LMsig, s.Lsig.Msig
			return "lsig_msig_lmsig_swapped"
		default:
			s.Lsig.Args = append(append([][]byte{}, s.Lsig.Args...), r.Bytes(5+r.Intn(20)))
			return "lsig_big_arg"
		}
	case 17, 18, 19:
		q := &s.PQsig
		if q.Blank() {
			q = &s.Lsig.PQsig
		}
		if q.Blank() {
			return ""
		}
		switch r.Intn(6) {
		case 0:
			if len(q.Signature) == 0 {
				return ""
			}
			q.Signature = append([]byte{}, q.Signature...)
			q.Signature[r.Intn(len(q.Signature))] ^= 2
			return "pq_sig_flip"
		case 1:
			q.Salt++
			return "pq_salt"
		case 2:
			q.Signature = nil
			return "pq_sig_empty"
		case 3:
			q.Scheme = [][2]byte{{'f', '2'}, {'z', 'z'}, {0, 0}}[r.Intn(3)]
			return "pq_scheme"
		case 4:
			q.PublicKey = append([]byte{}, q.PublicKey...)
			q.PublicKey[r.Intn(len(q.PublicKey))] ^= 8
			return "pq_pk_flip"
		default:
			q.PublicKey = q.PublicKey[:len(q.PublicKey)-1]
			return "pq_pk_short"
		}
	case 20:
		if len(stxs) < 2 {
			return ""
		}
		j := r.Intn(len(stxs))
		stxs[i], stxs[j] = stxs[j], stxs[i]
		return "group_swap"
	case 21:
		if len(stxs) < 2 {
			return ""
		}
		copy(stxs[i:], stxs[i+1:])
		stxs[len(stxs)-1] = stxs[0] // keeps the length; caller may also truncate
		return "group_replace"
	case 22:
		s.Txn.Group[r.Intn(32)] ^= 1
		return "group_id_flip"
	case 23:
		// replay the authorization of another member / another transaction of the same signer
		j := r.Intn(len(stxs))
		s.Sig, s.Msig, s.Lsig, s.PQsig = stxs[j].Sig, stxs[j].Msig, stxs[j].Lsig, stxs[j].PQsig
		return "authorization_replayed"
	case 24:
		// the signature is a genuine one by the right key over the transaction WITHOUT its group
		if s.Sig.Blank() || s.Txn.Group.IsZero() {
			return ""
		}
		for _, k := range u.keys {
			if basics.Address(k.sk.SignatureVerifier) == s.Authorizer() {
				t2 := s.Txn
				t2.Group = crypto.Digest{}
				s.Sig = k.sk.Sign(t2)
				return "sig_without_group"
			}
		}
		return ""
	case 25:
		// orphan LogicSig content next to another category
		if s.Lsig.HasProgram() {
			return ""
		}
		if r.Bool() {
			s.Lsig.Args = [][]byte{r.Bytes(3)}
		} else {
			s.Lsig.Sig = u.keys[0].sk.Sign(logic.Program(u.progs[0]))
		}
		return "lsig_orphan_content"
	case 26, 27:
		// the sender keeps authorising with its OWN identity although the transaction names
		// another authorizer (a rekeyed-away account using its previous authorization)
		if !s.AuthAddr.IsZero() {
			return ""
		}
		s.AuthAddr = u.keys[r.Intn(len(u.keys))].addr
		if s.AuthAddr == s.Txn.Sender {
			return ""
		}
		return "own_identity_after_rekey"
	default:
		return ""
	}
}

// ---- term rendering ----
func vc28MsigT(m crypto.MultisigSig) []interface{} {
	subs := make([]interface{}, len(m.Subsigs))
	for i, s := range m.Subsigs {
		subs[i] = vL(s.Key[:], s.Sig[:])
	}
	return vL(uint64(m.Version), uint64(m.Threshold), m.Subsigs == nil, subs)
}

func vc28PQT(q transactions.PQSig) []interface{} {
	return vL(q.Scheme[:], uint64(q.Salt), q.PublicKey, q.Signature)
}

type vc28Tabs struct {
	sigSeen map[string]bool
	sig     []interface{}
	pqSeen  map[string]bool
	pq      []interface{}
	hSeen   map[string]bool
	h       []interface{}
	nSig    int
	nSigOK  int
}

func (tb *vc28Tabs) addSig(pk crypto.PublicKey, msg []byte, sig crypto.Signature) {
	k := string(pk[:]) + string(sig[:]) + string(msg)
	if tb.sigSeen[k] {
		return
	}
	tb.sigSeen[k] = true
	ok := crypto.SignatureVerifier(pk).VerifyBytes(msg, sig)
	tb.nSig++
	if ok {
		tb.nSigOK++
	}
	tb.sig = append(tb.sig, vL(pk[:], msg, sig[:], ok))
}

func (tb *vc28Tabs) addMsig(m crypto.MultisigSig, msg []byte) {
	for _, s := range m.Subsigs {
		if !s.Sig.Blank() {
			tb.addSig(s.Key, msg, s.Sig)
		}
	}
	if len(m.Subsigs) > 0 {
		pre := append([]byte("MultisigAddr"), m.Version, m.Threshold)
		for _, s := range m.Subsigs {
			pre = append(pre, s.Key[:]...)
		}
		tb.addHash(pre)
	}
}

type vc28Raw struct {
	rep []byte
}

func (h vc28Raw) ToBeHashed() (protocol.HashID, []byte) { return "", h.rep }

func (tb *vc28Tabs) addPQ(q transactions.PQSig, msg []byte) {
	if q.Blank() {
		return
	}
	pre := append([]byte(protocol.PostQuantumAddress), q.Scheme[:]...)
	pre = append(pre, byte(q.Salt))
	pre = append(pre, q.PublicKey...)
	tb.addHash(pre)
	if q.Scheme != protocol.PQSchemeFalcon1024 || len(q.Signature) == 0 {
		return
	}
	k := string(q.PublicKey) + "|" + string(q.Signature) + "|" + string(msg)
	if tb.pqSeen[k] {
		return
	}
	tb.pqSeen[k] = true
	ok := crypto.VerifyFalcon1024(vc28Raw{msg}, q.PublicKey, q.Signature) == nil
	tb.pq = append(tb.pq, vL(q.Scheme[:], q.PublicKey, msg, q.Signature, ok))
}

func (tb *vc28Tabs) addHash(pre []byte) {
	if tb.hSeen[string(pre)] {
		return
	}
	tb.hSeen[string(pre)] = true
	d := crypto.Hash(pre)
	tb.h = append(tb.h, vL(pre, d[:]))
}

type vc28Recorder struct {
	items []interface{}
	tb    *vc28Tabs
}

func (rc *vc28Recorder) EnqueueSignature(pk crypto.SignatureVerifier, msg crypto.Hashable, sig crypto.Signature) {
	rep := crypto.HashRep(msg)
	rc.items = append(rc.items, vL(pk[:], rep, sig[:]))
	rc.tb.addSig(crypto.PublicKey(pk), rep, sig)
}

func vc28Obs(t *testing.T, err error) []interface{} {
	if err == nil {
		return vL(vSym("ok"))
	}
	msg := err.Error()
	var ge *TxGroupError
	if !errors.As(err, &ge) {
		switch {
		case errors.Is(err, crypto.ErrBatchHasFailedSigs):
			return vL(vSym("err"), vSym("batch"), -1, vSym("batch"))
		case strings.Contains(msg, "panic while verifying transaction group"):
			return vL(vSym("err"), vSym("panic"), -1, vSym("emptygroup"))
		}
		t.Fatalf("unclassified error %T: %v", err, err)
	}
	has := func(s string) bool { return strings.Contains(msg, s) }
	msub := func() string {
		switch {
		case has("Invalid number of signatures"):
			return "numsig"
		case has("unknown version"):
			return "version"
		case has("Invalid threshold"):
			return "threshold"
		case has("Invalid address"):
			return "address"
		}
		t.Fatalf("unclassified multisig error: %v", err)
		return ""
	}
	pqsub := func() string {
		switch {
		case has("pq signature is blank"):
			return "pq_blank"
		case errors.Is(err, crypto.ErrPQSchemeNotSupported):
			return "pq_notsupported"
		case errors.Is(err, crypto.ErrPQSchemeNotEnabled):
			return "pq_notenabled"
		case has("pq signature authorizer mismatch"):
			return "pq_mismatch"
		case has("pq signature is empty"):
			return "pq_empty"
		}
		return "pq_verify"
	}
	reason, sub := "", ""
	switch ge.Reason {
	case TxGroupErrorReasonNotWellFormed:
		reason = "notwellformed"
		var me *transactions.TxGroupMalformedError
		_, direct := err.(*TxGroupError)
		switch {
		case errors.As(err, &me) && me.Reason == transactions.TxGroupMalformedErrorReasonEmptyGroupID:
			sub = "emptygid"
		case errors.As(err, &me) && me.Reason == transactions.TxGroupMalformedErrorReasonInconsistentGroupID:
			sub = "inconsistent"
		case errors.As(err, &me) && me.Reason == transactions.TxGroupMalformedErrorReasonIncompleteGroup:
			sub = "incomplete"
		case direct && has("LogicSig fields without LogicSig program"):
			sub = "orphan"
		case direct && has("bytes of LogicSigs, more than the available pool"):
			sub = "pool"
		case direct && has("bytes of LogicSig args, more than"):
			sub = "argspool"
		case !direct:
			sub = "wf"
		default:
			t.Fatalf("unclassified group screening error: %v", err)
		}
	case TxGroupErrorReasonGeneric:
		reason = "generic"
		switch {
		case errors.Is(err, errRekeyingNotSupported):
			sub = "norekey"
		case errors.Is(err, errAuthAddrEqualsSender):
			sub = "authsender"
		default:
			t.Fatalf("unclassified generic error: %v", err)
		}
	case TxGroupErrorReasonHasNoSig:
		reason, sub = "nosig", "nosig"
	case TxGroupErrorReasonSigNotWellFormed:
		reason = "signotwellformed"
		switch {
		case errors.Is(err, errTxnSigNotWellFormed):
			sub = "multi"
		case has("pq signature not enabled"):
			sub = "pqdisabled"
		case has("pq signature validation failed"):
			sub = pqsub()
		default:
			t.Fatalf("unclassified sig error: %v", err)
		}
	case TxGroupErrorReasonMsigNotWellFormed:
		reason, sub = "msig", msub()
	case TxGroupErrorReasonLogicSigFailed:
		reason = "lsig"
		switch {
		case has("LogicSig not enabled"):
			sub = "disabled"
		case has("LogicSig.Logic empty"):
			sub = "empty"
		case has("LogicSig.Logic too long"):
			sub = "toolong"
		case has("LogicSig.Logic bad version"):
			sub = "badversion"
		case has("LogicSig.Logic version too new"):
			sub = "toonew"
		case has("LogicNot signed and not a Logic-only account"):
			sub = "notsigned"
		case has("LogicSig should have only one type of delegation signature"):
			sub = "multideleg"
		case has("pq delegated logic signature validation failed"):
			sub = pqsub()
		case has("LMsig field not supported"):
			sub = "lmsig_unsupported"
		case has("LogicSig Msig field not supported"):
			sub = "msig_unsupported"
		case has("logic multisig validation failed"):
			sub = "msig_" + msub()
		case errors.Is(err, crypto.ErrBatchHasFailedSigs):
			sub = "batch"
		case has("rejected by logic err="): // logic.EvalError's own text
			sub = "evalerr"
		case has("rejected by logic"):
			sub = "rejected"
		case has(" invalid : transaction "):
			sub = "evalerr"
		default:
			sub = "check"
		}
	default:
		t.Fatalf("unknown reason %d: %v", ge.Reason, err)
	}
	return vL(vSym("err"), vSym(reason), ge.GroupIndex, vSym(sub))
}

func TestVerifC28(t *testing.T) {
	n := vEnvInt("VERIF_C28_N", 1500)
	r := vNewRand(0xC28)
	u := vc28NewUniverse(t, r)
	out := vOpen("cases_vg.txt")
	defer out.Close()

	for c := 0; c < n; c++ {
		pname, proto := u.proto()
		hdr := &bookkeeping.BlockHeader{
			RewardsState: bookkeeping.RewardsState{FeeSink: feeSink, RewardsPool: poolAddr},
			UpgradeState: bookkeeping.UpgradeState{CurrentProtocol: pname},
		}
		k := 1 + r.Intn(3)
		switch r.Intn(8) {
		case 0:
			k = 1 + r.Intn(16)
		case 1, 2:
			k = 1
		}
		if c == 7 {
			k = 0
		}
		plans := make([]vc28Plan, k)
		auths := make([]basics.Address, k)
		txs := make([]transactions.Transaction, k)
		for i := range plans {
			plans[i] = u.randPlan()
			if k > 1 && (plans[i].kind == vc28Heartbeat || plans[i].kind == vc28StateProof) && r.Intn(4) > 0 {
				plans[i].kind = vc28Sig // these are only well-formed on their own
			}
			auths[i] = u.planAuthorizer(plans[i])
			sender := auths[i]
			if plans[i].rekeyed {
				sender = u.keys[r.Intn(len(u.keys))].addr
			}
			switch plans[i].kind {
			case vc28StateProof:
				plans[i].rekeyed = false
				txs[i] = transactions.Transaction{Type: protocol.StateProofTx,
					Header: transactions.Header{Sender: transactions.StateProofSender, FirstValid: 100, LastValid: 150,
						GenesisHash: crypto.Hash([]byte{1, 2, 3, 4, 5})}}
				txs[i].StateProofTxnFields.Message.LastAttestedRound = basics.Round(512 + r.Intn(3))
			case vc28Heartbeat:
				txs[i] = u.heartbeat(sender, proto)
			default:
				txs[i] = u.basePay(sender)
			}
		}
		// group id
		if k > 1 || (k == 1 && r.Intn(6) == 0) {
			var g transactions.TxGroup
			for i := range txs {
				g.TxGroupHashes = append(g.TxGroupHashes, crypto.Digest(txs[i].ID()))
			}
			gid := crypto.HashObj(g)
			for i := range txs {
				txs[i].Group = gid
			}
		}
		stxs := make([]transactions.SignedTxn, k)
		for i := range txs {
			stxs[i] = u.sign(txs[i], plans[i], auths[i])
		}
		// mutations after signing
		muts := []string{}
		if k > 0 && r.Intn(100) < 65 {
			for tries, want := 0, 1+r.Intn(5)/4; tries < 60 && len(muts) < want; tries++ {
				if m := u.mutate(stxs); m != "" {
					muts = append(muts, m)
				}
			}
		}
		if k > 1 && r.Intn(25) == 0 {
			stxs = stxs[:len(stxs)-1]
			muts = append(muts, "group_drop_last")
		}

		// ---- observations on the real code ----
		tb := &vc28Tabs{sigSeen: map[string]bool{}, pqSeen: map[string]bool{}, hSeen: map[string]bool{}}
		spec := transactions.SpecialAddresses{FeeSink: feeSink, RewardsPool: poolAddr}
		ep := logic.NewSigEvalParams(stxs, &proto, logic.NoHeaderLedger{})
		txT := make([]interface{}, len(stxs))
		var grp transactions.TxGroup
		kinds := ""
		for i := range stxs {
			s := stxs[i]
			txrep := crypto.HashRep(s.Txn)
			auth := s.Authorizer()
			if !s.Sig.Blank() {
				tb.addSig(crypto.PublicKey(auth), txrep, s.Sig)
			}
			tb.addMsig(s.Msig, txrep)
			tb.addPQ(s.PQsig, txrep)
			progRep := crypto.HashRep(logic.Program(s.Lsig.Logic))
			if !s.Lsig.Sig.Blank() {
				tb.addSig(crypto.PublicKey(auth), progRep, s.Lsig.Sig)
			}
			tb.addMsig(s.Lsig.Msig, progRep)
			tb.addMsig(s.Lsig.LMsig, crypto.HashRep(logic.MultisigProgram{Addr: crypto.Digest(auth), Program: s.Lsig.Logic}))
			tb.addPQ(s.Lsig.PQsig, crypto.HashRep(logic.PQDelegatedProgram{Addr: auth, Program: s.Lsig.Logic}))
			checkOK, evalRes := false, 2
			if s.Lsig.HasProgram() {
				tb.addHash(progRep)
				func() {
					defer func() { recover() }()
					checkOK = logic.CheckSignature(i, ep) == nil
				}()
				if checkOK {
					func() {
						defer func() { recover() }()
						pass, _, err := logic.EvalSignatureFull(i, logic.NewSigEvalParams(stxs, &proto, logic.NoHeaderLedger{}))
						switch {
						case err != nil:
							evalRes = 2
						case pass:
							evalRes = 0
						default:
							evalRes = 1
						}
					}()
				}
			}
			rec := &vc28Recorder{tb: tb}
			if s.Txn.Type == protocol.HeartbeatTx && s.Txn.HeartbeatTxnFields != nil {
				id := basics.OneTimeIDForRound(s.Txn.LastValid, s.Txn.HbKeyDilution)
				s.Txn.HbProof.BatchPrep(s.Txn.HbVoteID, id, s.Txn.HbSeed, rec)
			}
			if rec.items == nil {
				rec.items = []interface{}{}
			}
			noGroup := s.Txn
			noGroup.Group = crypto.Digest{}
			body := protocol.Encode(&noGroup)
			tb.addHash(append([]byte("TX"), body...))
			grp.TxGroupHashes = append(grp.TxGroupHashes, crypto.Digest(noGroup.ID()))
			argLens := make([]interface{}, len(s.Lsig.Args))
			for j, a := range s.Lsig.Args {
				argLens[j] = len(a)
			}
			lsigT := vL(s.Lsig.Logic, s.Lsig.Sig[:], vc28MsigT(s.Lsig.Msig), vc28MsigT(s.Lsig.LMsig), vc28PQT(s.Lsig.PQsig),
				argLens, checkOK, evalRes)
			txT[i] = vL(s.Txn.Sender[:], s.AuthAddr[:],
				s.Txn.Sender == transactions.StateProofSender && s.Txn.Type == protocol.StateProofTx,
				protocol.Encode(&s.Txn), s.Txn.Group[:], body,
				s.Txn.WellFormed(spec, proto) == nil, rec.items,
				s.Sig[:], vc28MsigT(s.Msig), lsigT, vc28PQT(s.PQsig))
			if i < len(plans) {
				kinds += vc28KindNames[plans[i].kind] + ","
			}
		}
		if len(stxs) > 0 {
			tb.addHash(crypto.HashRep(grp))
		}
		for _, l := range []*[]interface{}{&tb.sig, &tb.pq, &tb.h} {
			if *l == nil {
				*l = []interface{}{}
			}
		}

		_, err := TxnGroup(stxs, hdr, nil, logic.NoHeaderLedger{})
		obs := vc28Obs(t, err)

		params := vL(proto.SupportRekeying, proto.EnforceAuthAddrSenderDiff, proto.EnablePQSchemeFalcon1024, proto.LogicSigVersion,
			proto.LogicSigMsig, proto.LogicSigLMsig, proto.TxnSizePricingEnabled(), proto.MaxAbsoluteLogicSigProgramSize, proto.LogicSigMaxSize)
		out.Case(vSym("vg"), params, txT, tb.sig, tb.pq, tb.h, obs)

		u.st["cases"]++
		u.st[fmt.Sprintf("size_%02d", len(stxs))]++
		if err == nil {
			u.st["accepted"]++
		} else {
			u.st["rej_"+fmt.Sprint(obs[1])+"_"+fmt.Sprint(obs[3])]++
		}
		if len(muts) == 0 {
			u.st["unmutated"]++
			if err == nil {
				u.st["unmutated_accepted"]++
			}
		}
		for _, m := range muts {
			u.st["mut_"+m]++
			if err == nil {
				u.st["mut_"+m+"_accepted"]++
			}
		}
		for _, kd := range strings.Split(strings.TrimSuffix(kinds, ","), ",") {
			if kd != "" {
				u.st["kind_"+kd]++
			}
		}
		u.st["sigs_checked"] += tb.nSig
		u.st["sigs_valid"] += tb.nSigOK
	}
	stats := map[string]interface{}{}
	for k, v := range u.st {
		stats[k] = v
	}
	vStats(stats)
}
