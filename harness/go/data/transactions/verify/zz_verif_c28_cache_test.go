//go:build verif

package verify

// C28, stateful histories over ONE shared VerifiedTransactionCache (kinds pg / tc / pb).
//
// A "world" is a fixed consensus version, a real cache and a pool of signed groups (honest ones
// and variants mutated after signing; of the mutated ones only those that the real verifier
// rejects are kept, so that two different VALID authorizations of one transaction never meet in
// the cache).  A history is a sequence of calls on that cache:
//   pg  block validation as in ledger/eval: cache.GetUnverifiedTransactionGroups(payset), then
//       verify.PaysetGroups on the remainder (real execution pool, several worksets); paysets
//       are all-good, good + one group whose only defect is a bad signature (prep passes, the
//       batch fails), random mixes, and exact REPEATS of earlier paysets
//   tc  verify.TxnGroup with the cache
//   pb  txnSigBatchProcessor.ProcessBatch (stream verifier) on a batch of jobs
// After every call the real cache is asked, group by group, whether it now vouches for the group.

import (
	"context"
	"fmt"
	"testing"

	"github.com/algorand/go-algorand/config"
	"github.com/algorand/go-algorand/crypto"
	"github.com/algorand/go-algorand/data/basics"
	"github.com/algorand/go-algorand/data/bookkeeping"
	"github.com/algorand/go-algorand/data/transactions"
	"github.com/algorand/go-algorand/data/transactions/logic"
	"github.com/algorand/go-algorand/protocol"
	"github.com/algorand/go-algorand/util/execpool"
)

type vc28PoolGroup struct {
	stxs  []transactions.SignedTxn
	class string // ok | batch (only the final signature batch fails) | prep
}

// one signed group of payments (1-4 members), possibly mutated after signing
func (u *vc28U) cacheGroup(mutated bool) []transactions.SignedTxn {
	r := u.r
	k := 1 + r.Intn(3)
	if r.Intn(6) == 0 {
		k = 4 + r.Intn(6)
	}
	plans := make([]vc28Plan, k)
	auths := make([]basics.Address, k)
	txs := make([]transactions.Transaction, k)
	for i := range plans {
		pl := u.randPlan()
		switch pl.kind {
		case vc28None, vc28StateProof, vc28Heartbeat:
			pl.kind = vc28Sig
		case vc28PQ, vc28LsigPQ:
			if r.Intn(4) > 0 {
				pl.kind = vc28Sig
			}
		}
		if len(pl.mkeys) > 5 {
			pl.mkeys, pl.thr, pl.signers = pl.mkeys[:3], 2, []int{0, 2}
		}
		if pl.prog != 0 && pl.prog != 3 {
			pl.prog = 0
		}
		plans[i] = pl
		auths[i] = u.planAuthorizer(pl)
		sender := auths[i]
		if pl.rekeyed {
			sender = u.keys[r.Intn(len(u.keys))].addr
			if sender == auths[i] {
				plans[i].rekeyed = false
			}
		}
		txs[i] = u.basePay(sender)
	}
	if k > 1 {
		var g transactions.TxGroup
		for i := range txs {
			g.TxGroupHashes = append(g.TxGroupHashes, crypto.Digest(txs[i].ID()))
		}
		gid := crypto.HashObj(g)
		for i := range txs {
			txs[i].Group = gid
		}
	}
	stxs := make([]transactions.SignedTxn, k)
	for i := range txs {
		stxs[i] = u.sign(txs[i], plans[i], auths[i])
	}
	if mutated {
		for tries, done := 0, 0; tries < 80 && done < 1; tries++ {
			// signature-level damage most of the time: the stateless checks still pass
			if r.Intn(3) > 0 {
				i := r.Intn(len(stxs))
				switch {
				case !stxs[i].Sig.Blank():
					vc28FlipSig(r, &stxs[i].Sig)
					done++
				case !stxs[i].Msig.Blank():
					m := &stxs[i].Msig
					m.Subsigs = append([]crypto.MultisigSubsig{}, m.Subsigs...)
					for j := range m.Subsigs {
						if !m.Subsigs[j].Sig.Blank() {
							vc28FlipSig(r, &m.Subsigs[j].Sig)
							done++
							break
						}
					}
				}
				continue
			}
			if u.mutate(stxs) != "" {
				done++
			}
		}
	}
	return stxs
}

// what the verifier reads of the group, recorded into tb (same layout as the vg cases)
func (u *vc28U) renderGroup(stxs []transactions.SignedTxn, proto config.ConsensusParams, tb *vc28Tabs) []interface{} {
	spec := transactions.SpecialAddresses{FeeSink: feeSink, RewardsPool: poolAddr}
	ep := logic.NewSigEvalParams(stxs, &proto, logic.NoHeaderLedger{})
	txT := make([]interface{}, len(stxs))
	var grp transactions.TxGroup
	for i := range stxs {
		s := stxs[i]
		txrep := crypto.HashRep(s.Txn)
		auth := s.Authorizer()
		if !s.Sig.Blank() {
			tb.addSig(crypto.PublicKey(auth), txrep, s.Sig)
		}
		tb.addMsig(s.Msig, txrep)
		tb.addPQ(s.PQsig, txrep)
		progRep := crypto.HashRep(logic.Program(s.Lsig.Logic))
		if !s.Lsig.Sig.Blank() {
			tb.addSig(crypto.PublicKey(auth), progRep, s.Lsig.Sig)
		}
		tb.addMsig(s.Lsig.Msig, progRep)
		tb.addMsig(s.Lsig.LMsig, crypto.HashRep(logic.MultisigProgram{Addr: crypto.Digest(auth), Program: s.Lsig.Logic}))
		tb.addPQ(s.Lsig.PQsig, crypto.HashRep(logic.PQDelegatedProgram{Addr: auth, Program: s.Lsig.Logic}))
		checkOK, evalRes := false, 2
		if s.Lsig.HasProgram() {
			tb.addHash(progRep)
			func() {
				defer func() { recover() }()
				checkOK = logic.CheckSignature(i, ep) == nil
			}()
			if checkOK {
				func() {
					defer func() { recover() }()
					pass, _, err := logic.EvalSignatureFull(i, logic.NewSigEvalParams(stxs, &proto, logic.NoHeaderLedger{}))
					switch {
					case err != nil:
						evalRes = 2
					case pass:
						evalRes = 0
					default:
						evalRes = 1
					}
				}()
			}
		}
		noGroup := s.Txn
		noGroup.Group = crypto.Digest{}
		body := protocol.Encode(&noGroup)
		tb.addHash(append([]byte("TX"), body...))
		grp.TxGroupHashes = append(grp.TxGroupHashes, crypto.Digest(noGroup.ID()))
		argLens := make([]interface{}, len(s.Lsig.Args))
		for j, a := range s.Lsig.Args {
			argLens[j] = len(a)
		}
		lsigT := vL(s.Lsig.Logic, s.Lsig.Sig[:], vc28MsigT(s.Lsig.Msig), vc28MsigT(s.Lsig.LMsig), vc28PQT(s.Lsig.PQsig),
			argLens, checkOK, evalRes)
		txT[i] = vL(s.Txn.Sender[:], s.AuthAddr[:], false,
			protocol.Encode(&s.Txn), s.Txn.Group[:], body,
			s.Txn.WellFormed(spec, proto) == nil, vL(),
			s.Sig[:], vc28MsigT(s.Msig), lsigT, vc28PQT(s.PQsig))
	}
	if len(stxs) > 0 {
		tb.addHash(crypto.HashRep(grp))
	}
	return txT
}

func vc28NewTabs() *vc28Tabs {
	return &vc28Tabs{sigSeen: map[string]bool{}, pqSeen: map[string]bool{}, hSeen: map[string]bool{},
		sig: []interface{}{}, pq: []interface{}{}, h: []interface{}{}}
}

func TestVerifC28Cache(t *testing.T) {
	worlds := vEnvInt("VERIF_C28_CACHE_WORLDS", 6)
	steps := vEnvInt("VERIF_C28_CACHE_STEPS", 24)
	r := vNewRand(0xC28CA)
	u := vc28NewUniverse(t, r)
	out := vOpen("cases_cache.txt")
	defer out.Close()
	execPool := execpool.MakePool(t)
	defer execPool.Shutdown()
	verificationPool := execpool.MakeBacklog(execPool, 64, execpool.LowPriority, t)
	defer verificationPool.Shutdown()
	spec := transactions.SpecialAddresses{FeeSink: feeSink, RewardsPool: poolAddr}
	st := map[string]int{}

	for w := 0; w < worlds; w++ {
		proto := config.Consensus[protocol.ConsensusFuture]
		if w%2 == 1 {
			proto.LogicSigMsig = true
		}
		pname := protocol.ConsensusVersion(fmt.Sprintf("verif-c28-cache-%d", w%2))
		config.Consensus[pname] = proto
		hdr := bookkeeping.BlockHeader{
			RewardsState: bookkeeping.RewardsState{FeeSink: feeSink, RewardsPool: poolAddr},
			UpgradeState: bookkeeping.UpgradeState{CurrentProtocol: pname},
		}
		params := vL(proto.SupportRekeying, proto.EnforceAuthAddrSenderDiff, proto.EnablePQSchemeFalcon1024, proto.LogicSigVersion,
			proto.LogicSigMsig, proto.LogicSigLMsig, proto.TxnSizePricingEnabled(), proto.MaxAbsoluteLogicSigProgramSize, proto.LogicSigMaxSize)
		cache := MakeVerifiedTransactionCache(100000)
		vouches := func(g []transactions.SignedTxn) bool {
			return len(cache.GetUnverifiedTransactionGroups([][]transactions.SignedTxn{g}, spec, pname)) == 0
		}
		// the pool
		var pool []vc28PoolGroup
		byClass := map[string][]int{}
		for len(pool) < 44 {
			mutated := len(pool)%5 >= 3
			g := u.cacheGroup(mutated)
			_, err := TxnGroup(g, &hdr, nil, logic.NoHeaderLedger{})
			class := "ok"
			if err != nil {
				class = "prep"
				if o := vc28Obs(t, err); fmt.Sprint(o[1]) == "batch" {
					class = "batch"
				}
			}
			if mutated && class == "ok" {
				continue // a second valid authorization of the same transactions: not wanted here
			}
			byClass[class] = append(byClass[class], len(pool))
			pool = append(pool, vc28PoolGroup{g, class})
		}
		if len(byClass["batch"]) == 0 || len(byClass["ok"]) == 0 {
			t.Fatalf("pool without good or bad-signature groups")
		}
		pick := func(class string) int { l := byClass[class]; return l[r.Intn(len(l))] }
		var history [][]int // earlier paysets (pool indices)

		for s := 0; s < steps; s++ {
			tb := vc28NewTabs()
			switch x := r.Intn(10); {
			case x < 6:
				// ---- block validation ----
				var idx []int
				switch y := r.Intn(10); {
				case y < 4 && len(history) > 0:
					idx = history[r.Intn(len(history))] // the same payset again
					st["pg_repeat"]++
				case y < 6:
					for n := 10 + r.Intn(20); len(idx) < n; {
						idx = append(idx, pick("ok"))
					}
				case y < 9:
					for n := 10 + r.Intn(20); len(idx) < n; {
						idx = append(idx, pick("ok"))
					}
					idx[r.Intn(len(idx))] = pick("batch")
				default:
					for n := 3 + r.Intn(30); len(idx) < n; {
						idx = append(idx, r.Intn(len(pool)))
					}
				}
				history = append(history, idx)
				payset := make([][]transactions.SignedTxn, len(idx))
				gT := make([]interface{}, len(idx))
				was := make([]interface{}, len(idx))
				for i, j := range idx {
					payset[i] = pool[j].stxs
					gT[i] = u.renderGroup(payset[i], proto, tb)
					was[i] = vouches(payset[i])
				}
				unverified := cache.GetUnverifiedTransactionGroups(payset, spec, pname)
				err := PaysetGroups(context.Background(), unverified, hdr, verificationPool, cache, logic.NoHeaderLedger{})
				rem := make([]interface{}, len(idx))
				for i := range payset {
					rem[i] = vouches(payset[i])
				}
				res := "ok"
				if err != nil {
					res = "err"
				}
				out.Case(vSym("pg"), params, gT, was, tb.sig, tb.pq, tb.h, vSym(res), rem)
				st["pg"]++
				st["pg_"+res]++
			case x < 8:
				// ---- TxnGroup with the cache ----
				j := r.Intn(len(pool))
				g := pool[j].stxs
				gT := u.renderGroup(g, proto, tb)
				was := vouches(g)
				_, err := TxnGroup(g, &hdr, cache, logic.NoHeaderLedger{})
				out.Case(vSym("tc"), params, gT, was, tb.sig, tb.pq, tb.h, vc28Obs(t, err), vouches(g))
				st["tc"]++
				st["tc_"+pool[j].class]++
			default:
				// ---- stream verifier batch ----
				n := 2 + r.Intn(8)
				jobs := make([]execpool.InputJob, n)
				groups := make([][]transactions.SignedTxn, n)
				gT := make([]interface{}, n)
				was := make([]interface{}, n)
				for i := range jobs {
					groups[i] = pool[r.Intn(len(pool))].stxs
					jobs[i] = &UnverifiedTxnSigJob{TxnGroup: groups[i], BacklogMessage: i}
					gT[i] = u.renderGroup(groups[i], proto, tb)
					was[i] = vouches(groups[i])
				}
				resultChan := make(chan *VerificationResult, n+1)
				droppedChan := make(chan *UnverifiedTxnSigJob, n+1)
				tbp := &txnSigBatchProcessor{
					TxnGroupBatchSigVerifier: TxnGroupBatchSigVerifier{cache: cache, nbw: MakeNewBlockWatcher(hdr), ledger: logic.NoHeaderLedger{}},
					resultChan:               resultChan, droppedChan: droppedChan,
				}
				tbp.ProcessBatch(jobs)
				obs := make([]interface{}, n)
				got := 0
				for len(resultChan) > 0 {
					vr := <-resultChan
					obs[vr.BacklogMessage.(int)] = vc28Obs(t, vr.Err)
					got++
				}
				if got != n || len(droppedChan) != 0 {
					t.Fatalf("ProcessBatch delivered %d results for %d jobs", got, n)
				}
				rem := make([]interface{}, n)
				for i := range groups {
					rem[i] = vouches(groups[i])
				}
				out.Case(vSym("pb"), params, gT, was, tb.sig, tb.pq, tb.h, obs, rem)
				st["pb"]++
			}
		}
		st["pool_ok"] += len(byClass["ok"])
		st["pool_batch"] += len(byClass["batch"])
		st["pool_prep"] += len(byClass["prep"])
	}
	stats := map[string]interface{}{}
	for k, v := range st {
		stats[k] = v
	}
	vStats(stats)
}
