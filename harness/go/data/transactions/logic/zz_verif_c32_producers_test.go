//go:build verif

package logic

// C32 harness, part 2: operands produced by OTHER opcodes.  A stackValue is {Uint, Bytes}; it is a
// byte string iff Bytes != nil, and several opcodes set Bytes without clearing Uint (itob, bzero,
// concat, extract, substring3, b|, ...).  The same abstract operand is therefore built in several
// "producer forms" that differ in the hidden Uint field, in the backing array, and in whether the
// slice is shared with another stack slot; every modelled opcode must give the same, specified
// result for all of them.  The model works on abstract values and is unchanged; the form is
// recorded in the mode symbol of the case line (e.g. sig.p31.s2 = producers 3 and 1, shuffle 2;
// .aK = an aliased copy of operand K lies underneath and must survive unchanged).

import (
	"encoding/binary"
	"fmt"
	"math"
)

type vC32Prog struct {
	e *vC32Env
	p []byte
}

func (g *vC32Prog) op(name string, imm ...byte) {
	spec, ok := OpsByName[LogicVersion][name]
	if !ok {
		g.e.t.Fatalf("producer opcode %s missing", name)
	}
	g.p = append(g.p, spec.Opcode)
	g.p = append(g.p, imm...)
}
func (g *vC32Prog) pushint(x uint64) {
	g.op("pushint")
	g.p = vC32Uvarint(g.p, x)
}
func (g *vC32Prog) pushbytes(b []byte) {
	g.op("pushbytes")
	g.p = vC32Uvarint(g.p, uint64(len(b)))
	g.p = append(g.p, b...)
}

const vC32Taint = uint64(0xA5A5A5A5DEADBEEF) // stale Uint left under a byte string

// byte-string producer forms applicable to x
func vC32BytesForms(x []byte) []int {
	f := []int{0}
	if len(x) <= maxStringSize-8 {
		f = append(f, 1) // itob(taint) ++ x ; extract 8 0      -> Uint = taint
		f = append(f, 2) // itob(taint) ++ x ; substring3 8 end  -> Uint = taint
	}
	f = append(f, 3) // bzero(len) b| x                          -> Uint = len(x)
	allZero := true
	for _, c := range x {
		if c != 0 {
			allZero = false
		}
	}
	if allZero {
		f = append(f, 4) // int len; bzero                         -> Uint = len(x)
	}
	if len(x) == 8 {
		f = append(f, 5) // int v; itob                            -> Uint = v
	}
	f = append(f, 6) // concat of two halves (fresh array, Uint = 0)
	if len(x) > 0 && len(x) <= maxStringSize-8 {
		f = append(f, 7) // x ++ itob(taint); int 0; int len; extract3 (prefix of a longer array, cap > len)
	}
	f = append(f, 8) // int taint; itob; pushbytes x; swap; pop ... select: Uint of the other branch is not involved; plain x after select
	return f
}

func (g *vC32Prog) bytesForm(form int, x []byte) {
	switch form {
	case 0:
		g.pushbytes(x)
	case 1:
		g.pushint(vC32Taint)
		g.op("itob")
		g.pushbytes(x)
		g.op("concat")
		g.op("extract", 8, 0)
	case 2:
		g.pushint(vC32Taint)
		g.op("itob")
		g.pushbytes(x)
		g.op("concat")
		g.pushint(8)
		g.pushint(uint64(8 + len(x)))
		g.op("substring3")
	case 3:
		g.pushint(uint64(len(x)))
		g.op("bzero")
		g.pushbytes(x)
		g.op("b|")
	case 4:
		g.pushint(uint64(len(x)))
		g.op("bzero")
	case 5:
		g.pushint(binary.BigEndian.Uint64(x))
		g.op("itob")
	case 6:
		h := len(x) / 2
		g.pushbytes(x[:h])
		g.pushbytes(x[h:])
		g.op("concat")
	case 7:
		g.pushbytes(x)
		g.pushint(vC32Taint)
		g.op("itob")
		g.op("concat")
		g.pushint(0)
		g.pushint(uint64(len(x)))
		g.op("extract3")
	case 8: // select between a tainted decoy and x
		g.pushint(vC32Taint)
		g.op("itob")
		g.pushbytes(x)
		g.pushint(1)
		g.op("select")
	}
}

func vC32IntForms(x uint64) []int {
	f := []int{0, 1, 3, 4, 6, 7}
	if x <= maxStringSize {
		f = append(f, 2)
	}
	if x <= 1 {
		f = append(f, 5, 8)
	}
	return f
}

func (g *vC32Prog) intForm(form int, x uint64) {
	var be [8]byte
	binary.BigEndian.PutUint64(be[:], x)
	switch form {
	case 0:
		g.pushint(x)
	case 1: // btoi of the 8-byte encoding
		g.pushbytes(be[:])
		g.op("btoi")
	case 2: // len of a string of x bytes
		g.pushint(x)
		g.op("bzero")
		g.op("len")
	case 3:
		g.pushint(x)
		g.pushint(0)
		g.op("+")
	case 4:
		g.pushint(x)
		g.pushint(1)
		g.op("*")
	case 5:
		g.pushint(1 - x)
		g.op("!")
	case 6:
		g.pushint(x)
		g.op("itob")
		g.op("btoi")
	case 7:
		g.pushbytes(be[:])
		g.pushint(0)
		g.op("extract_uint64")
	case 8:
		g.pushbytes([]byte("ab"))
		if x == 1 {
			g.pushbytes([]byte("ab"))
		} else {
			g.pushbytes([]byte("ac"))
		}
		g.op("==")
	}
}

// one case: operands built by forms[i]; shuffle 0 none, 1 swap;swap, 2 cover;uncover, 3 reversed
// production order + swap (two operands), 4 dup;pop; alias >= 0 as in exec.
func (e *vC32Env) runForms(op vC32Op, args []interface{}, forms []int, shuffle int, alias int) {
	g := &vC32Prog{e: e, p: []byte{LogicVersion}}
	n := len(args)
	emit := func(i int) {
		switch x := args[i].(type) {
		case uint64:
			g.intForm(forms[i], x)
		case []byte:
			g.bytesForm(forms[i], x)
		}
	}
	if shuffle == 3 && n == 2 {
		emit(1)
		emit(0)
		g.op("swap")
	} else {
		for i := range args {
			emit(i)
		}
	}
	switch {
	case shuffle == 1 && n >= 2:
		g.op("swap")
		g.op("swap")
	case shuffle == 2 && n >= 2:
		g.op("cover", byte(n-1))
		g.op("uncover", byte(n-1))
	case shuffle == 4:
		g.op("dup")
		g.op("pop")
	}
	if alias >= 0 {
		g.op("dig", byte(n-1-alias))
		g.op("cover", byte(n))
	}
	oppc := len(g.p)
	g.op(op.mnem)
	form := ".p"
	for _, f := range forms {
		form += fmt.Sprint(f)
	}
	if shuffle != 0 {
		form += fmt.Sprintf(".s%d", shuffle)
	}
	if alias >= 0 {
		form += fmt.Sprintf(".a%d", alias)
	}
	app := e.prodRuns%9 == 8
	e.prodRuns++
	e.exec(op, LogicVersion, app, g.p, oppc, args, form, alias)
}

// all producer-form combinations for one operand tuple (capped; beyond the cap a rotating sample)
func (e *vC32Env) allForms(rnd *vRand, op vC32Op, args []interface{}, cap_ int) {
	per := make([][]int, len(args))
	total := 1
	for i, a := range args {
		switch x := a.(type) {
		case uint64:
			per[i] = vC32IntForms(x)
		case []byte:
			per[i] = vC32BytesForms(x)
		}
		total *= len(per[i])
	}
	pick := func(k int) []int {
		f := make([]int, len(args))
		for i := range args {
			f[i] = per[i][k%len(per[i])]
			k /= len(per[i])
		}
		return f
	}
	if total <= cap_ {
		for k := 0; k < total; k++ {
			e.runForms(op, args, pick(k), k%5, -1)
		}
	} else {
		for j := 0; j < cap_; j++ {
			e.runForms(op, args, pick(rnd.Intn(total)), j%5, -1)
		}
	}
	// an aliased copy of each operand underneath, operands produced plainly and tainted
	for k := range args {
		e.runForms(op, args, pick(0), 0, k)
		e.runForms(op, args, pick(rnd.Intn(total)), 0, k)
	}
}

func vC32Producers(e *vC32Env, rnd *vRand, ops map[string]vC32Op, thorough bool) {
	ff := func(n int) []byte {
		b := make([]byte, n)
		for i := range b {
			b[i] = 0xff
		}
		return b
	}
	// boundary subset
	bsmall := [][]byte{{}, {0}, {1}, {0, 0, 0, 0, 0, 0, 0, 0}, {0, 0, 0, 0, 0, 0, 1, 2}, ff(8), {0, 0xff, 1}, ff(9),
		make([]byte, 64), ff(64), make([]byte, 65), rnd.Bytes(33)}
	isub := []uint64{0, 1, 2, 3, 8, 63, 64, 255, 256, 1 << 32, 1<<63 + 1, math.MaxUint64}
	capPairs, capII, capBI, capBII, reps, modII := 14, 6, 10, 5, 15, 6
	if thorough {
		bsmall = append(bsmall, ff(65), rnd.Bytes(8), rnd.Bytes(64), append([]byte{0, 0}, rnd.Bytes(7)...), make([]byte, 300), rnd.Bytes(300))
		capPairs, capII, capBI, capBII, reps, modII = 60, 12, 30, 16, 60, 1
	}
	for _, o := range vC32Ops {
		switch o.kinds {
		case "i":
			for _, a := range isub {
				e.allForms(rnd, o, vL(a), 20)
			}
		case "ii":
			for i, a := range isub {
				for j, b := range isub {
					if (i+j)%modII == 0 || a == b {
						e.allForms(rnd, o, vL(a, b), capII)
					}
				}
			}
		case "iii", "iiii":
			for rep := 0; rep < reps; rep++ {
				var args []interface{}
				for range o.kinds {
					args = append(args, isub[rnd.Intn(len(isub))])
				}
				e.allForms(rnd, o, args, capII)
			}
		case "b":
			for _, a := range bsmall {
				e.allForms(rnd, o, vL(a), 20)
			}
		case "a":
			for _, a := range bsmall {
				e.allForms(rnd, o, vL(a), 20)
			}
			for _, a := range isub {
				e.allForms(rnd, o, vL(a), 20)
			}
		case "bb":
			for i, a := range bsmall {
				for j, b := range bsmall {
					if thorough || (i+2*j)%3 == 0 || i == j {
						e.allForms(rnd, o, vL(a, b), capPairs)
					}
				}
			}
		case "aa":
			for i, a := range bsmall {
				for j, b := range bsmall {
					if thorough || (i+j)%3 == 0 || i == j {
						e.allForms(rnd, o, vL(a, b), capPairs)
					}
				}
				e.allForms(rnd, o, vL(a, uint64(len(a))), 20)
				e.allForms(rnd, o, vL(uint64(i), a), 20)
			}
			for _, a := range isub[:6] {
				for _, b := range isub[:6] {
					e.allForms(rnd, o, vL(a, b), 12)
				}
			}
		case "bi", "ai":
			for _, a := range bsmall {
				idxs := []uint64{0, 1, 7, 8, uint64(len(a)), uint64(8 * len(a)), math.MaxUint64}
				if len(a) > 0 {
					idxs = append(idxs, uint64(len(a)-1), uint64(8*len(a)-1))
				}
				for _, i := range idxs {
					e.allForms(rnd, o, vL(a, i), capBI)
				}
			}
			if o.kinds == "ai" {
				for _, a := range isub {
					for _, i := range []uint64{0, 1, 63, 64} {
						e.allForms(rnd, o, vL(a, i), 12)
					}
				}
			}
		case "bii", "aii":
			for _, a := range bsmall {
				idxs := []uint64{0, 7, 8, uint64(len(a)), uint64(8 * len(a))}
				if len(a) > 0 {
					idxs = append(idxs, uint64(len(a)-1), uint64(8*len(a)-1))
				}
				for _, i := range idxs {
					for _, v := range []uint64{0, 1, 2, 255, 256} {
						e.allForms(rnd, o, vL(a, i, v), capBII)
					}
				}
			}
			if o.kinds == "aii" {
				for _, a := range isub {
					for _, i := range []uint64{0, 63, 64} {
						for _, v := range []uint64{0, 1, 2} {
							e.allForms(rnd, o, vL(a, i, v), 8)
						}
					}
				}
			}
		}
	}
}
