//go:build verif

package logic

// C34 harness.  (x) every (opcode, sub-opcode, field value) x every program version
// 0..LogicVersion x both modes as a minimal crafted program through the real
// CheckSignature/CheckContract and EvalSignatureFull/EvalContract; the instruction under
// test is observed with the package's Tracer hooks.  (b) random branch layouts: the real
// check(), the instruction starts the real checkStep records, and the pc / callstack
// trajectory of the real evaluation.  Case formats: coq/model/AvmC34Check.v.

import (
	"encoding/binary"
	"fmt"
	"sort"
	"testing"
)

// ---------------------------------------------------------------- crafted programs
type vArg interface{} // uint64 or []byte

func vDefaultArgs(spec *OpSpec) []vArg {
	over := map[string][]vArg{
		"balance": {uint64(0)}, "min_balance": {uint64(0)}, "app_opted_in": {uint64(0), uint64(0)},
		"app_local_get": {uint64(0), []byte("3456")}, "app_local_get_ex": {uint64(0), uint64(0), []byte("3456")},
		"app_local_put": {uint64(0), []byte("3456"), uint64(1)}, "app_local_del": {uint64(0), []byte("3456")},
		"app_global_get": {[]byte("3456")}, "app_global_get_ex": {uint64(0), []byte("3456")},
		"app_global_put": {[]byte("3456"), uint64(1)}, "app_global_del": {[]byte("3456")},
		"asset_holding_get": {uint64(0), uint64(0)}, "asset_params_get": {uint64(0)}, "app_params_get": {uint64(0)},
		"acct_params_get": {uint64(0)}, "voter_params_get": {uint64(0)}, "app_params_set": {uint64(1)},
		"gloads": {uint64(0)}, "gaids": {uint64(0)}, "gloadss": {uint64(0), uint64(1)},
		"block": {uint64(40)}, "args": {uint64(1)},
		"gtxns": {uint64(0)}, "gtxnsa": {uint64(0)}, "gtxnsas": {uint64(0), uint64(0)}, "txnas": {uint64(0)},
		"gtxnas": {uint64(0)}, "itxnas": {uint64(0)}, "gitxnas": {uint64(0)},
		"box_create": {[]byte("3"), uint64(10)}, "box_extract": {[]byte("3"), uint64(0), uint64(4)},
		"box_replace": {[]byte("3"), uint64(0), []byte{1, 2, 3, 4}}, "box_del": {[]byte("3")},
		"box_len": {[]byte("3")}, "box_get": {[]byte("3")}, "box_put": {[]byte("3"), []byte("0123456789")},
		"box_splice": {[]byte("3"), uint64(0), uint64(4), []byte{1, 2, 3, 4}}, "box_resize": {[]byte("3"), uint64(5)},
		"app_box_create": {uint64(vAppID), []byte("3"), uint64(10)}, "app_box_extract": {uint64(vAppID), []byte("3"), uint64(0), uint64(4)},
		"app_box_replace": {uint64(vAppID), []byte("3"), uint64(0), []byte{1, 2, 3, 4}}, "app_box_del": {uint64(vAppID), []byte("3")},
		"app_box_len": {uint64(vAppID), []byte("3")}, "app_box_get": {uint64(vAppID), []byte("3")},
		"app_box_put":    {uint64(vAppID), []byte("3"), []byte("0123456789")},
		"app_box_splice": {uint64(vAppID), []byte("3"), uint64(0), uint64(4), []byte{1, 2, 3, 4}},
		"app_box_resize": {uint64(vAppID), []byte("3"), uint64(5)},
		"json_ref":       {[]byte(`{"k": 7}`), []byte("k")}, "base64_decode": {[]byte("MTIz")},
		"divw": {uint64(1), uint64(2), uint64(3)}, "divmodw": {uint64(0), uint64(1), uint64(0), uint64(1)},
		"substring3": {[]byte("3456"), uint64(0), uint64(2)}, "extract3": {[]byte("3456"), uint64(0), uint64(2)},
		"extract_uint16": {[]byte("3456"), uint64(0)}, "extract_uint32": {[]byte("34567"), uint64(1)},
		"extract_uint64": {[]byte("345678901"), uint64(1)}, "replace3": {[]byte("34567"), uint64(2), []byte("ab")},
		"replace2": {[]byte("34567"), []byte("ab")}, "setbyte": {[]byte("3456"), uint64(1), uint64(1)},
		"getbyte": {[]byte("3456"), uint64(1)}, "log": {[]byte("3456")},
		"mimc": {append(make([]byte, 31), 1)}, "poseidon2": {append(make([]byte, 31), 1)},
	}
	if a, ok := over[spec.Name]; ok && len(a) == len(spec.Arg.Types) {
		return a
	}
	var out []vArg
	for _, st := range spec.Arg.Types {
		switch st.AVMType {
		case avmBytes:
			n := 4
			if st.Bound[0] > 0 {
				n = int(st.Bound[0])
			}
			b := make([]byte, n)
			for i := range b {
				b[i] = 0x33 + byte(i%4)
			}
			out = append(out, b)
		default:
			v := uint64(1)
			if st.AVMType == avmUint64 && st.Bound[0] > 1 {
				v = st.Bound[0]
			}
			out = append(out, v)
		}
	}
	return out
}

// vCraft builds: version; intcblock; bytecblock; [prefix]; pushes of the args; the instruction.
// fimm: index of the immediate that receives fval (or -1); sub: sub-opcode byte (or -1).
func vCraft(v uint64, mode RunMode, opcode byte, spec *OpSpec, sub int, fimm int, fval byte) ([]byte, int) {
	prog := vUvarint(v)
	var args []vArg
	if spec != nil {
		args = vDefaultArgs(spec)
		if spec.Name == "itxn_field" {
			// argument typed by the field under test
			fs, ok := txnFieldSpecByField(TxnField(fval))
			if ok && fs.ftype.AVMType == avmBytes {
				n := 4
				if fs.ftype.Bound[0] > 0 {
					n = int(fs.ftype.Bound[0])
				}
				args = []vArg{make([]byte, n)}
			} else {
				args = []vArg{uint64(0)}
			}
		}
	}
	ints := []uint64{1} // intc_0 = 1 (pay) for the inner-transaction prefix
	var bytess [][]byte
	type push struct {
		isInt bool
		idx   int
	}
	var pushes []push
	for _, a := range args {
		switch x := a.(type) {
		case uint64:
			ints = append(ints, x)
			pushes = append(pushes, push{true, len(ints) - 1})
		case []byte:
			bytess = append(bytess, x)
			pushes = append(pushes, push{false, len(bytess) - 1})
		}
	}
	for len(ints) < 4 {
		ints = append(ints, 0)
	}
	for len(bytess) < 4 {
		bytess = append(bytess, []byte("a"))
	}
	prog = append(prog, 0x20)
	prog = append(prog, vUvarint(uint64(len(ints)))...)
	for _, i := range ints {
		prog = append(prog, vUvarint(i)...)
	}
	if len(bytess) > 0 {
		prog = append(prog, 0x26)
		prog = append(prog, vUvarint(uint64(len(bytess)))...)
		for _, b := range bytess {
			prog = append(prog, vUvarint(uint64(len(b)))...)
			prog = append(prog, b...)
		}
	}
	if spec != nil && mode == ModeApp && v >= 5 {
		switch spec.Name {
		case "itxn_field", "itxn_next", "itxn_submit":
			prog = append(prog, 0xb1) // itxn_begin
			if spec.Name != "itxn_field" {
				prog = append(prog, 0x22, 0xb2, byte(TypeEnum)) // intc_0; itxn_field TypeEnum
			}
		case "itxn", "itxna", "itxnas", "gitxn", "gitxna", "gitxnas":
			prog = append(prog, 0xb1, 0x22, 0xb2, byte(TypeEnum), 0xb3) // begin; pay; submit
		}
	}
	if spec != nil && spec.Name == "bury" {
		prog = append(prog, 0x22) // one more item for bury 1 to overwrite
	}
	for _, p := range pushes {
		if p.isInt {
			prog = append(prog, 0x21, byte(p.idx))
		} else {
			prog = append(prog, 0x27, byte(p.idx))
		}
	}
	tpc := len(prog)
	prog = append(prog, opcode)
	if sub >= 0 {
		prog = append(prog, byte(sub))
	}
	if spec != nil {
		for i, im := range spec.Immediates {
			if i == fimm {
				prog = append(prog, fval)
				continue
			}
			switch im.kind {
			case immByte:
				if spec.Name == "bury" {
					prog = append(prog, 1)
				} else {
					prog = append(prog, 0)
				}
			case immInt8:
				prog = append(prog, 0)
			case immLabel:
				prog = append(prog, 0, 0)
			case immVarintLabel:
				prog = append(prog, 0)
			case immLabels:
				prog = append(prog, 0)
			case immInt:
				prog = append(prog, 1)
			case immBytes:
				prog = append(prog, 1, 0x61)
			case immInts:
				prog = append(prog, 1, 7)
			case immBytess:
				prog = append(prog, 1, 1, 0x61)
			}
		}
	}
	return prog, tpc
}

// ---------------------------------------------------------------- tracer
type vTargetTracer struct {
	NullEvalTracer
	tpc     int
	ledger  *vCountLedger
	seen    bool
	done    bool
	stack   []interface{}
	rem     int
	cls     int
	touch0  int
	touched bool
}

func (t *vTargetTracer) BeforeOpcode(cx *EvalContext) {
	if cx.caller != nil || t.seen || cx.pc != t.tpc {
		return
	}
	t.seen = true
	t.stack = vStackTerm(cx.Stack, -1)
	t.rem = cx.remainingBudget()
	t.touch0 = t.ledger.n
}

func (t *vTargetTracer) AfterOpcode(cx *EvalContext, err error) {
	if cx.caller != nil || !t.seen || t.done {
		return
	}
	t.done = true
	t.cls = vStepClass(err)
	t.touched = t.ledger.n != t.touch0
}

var vExecuted = map[string]int{}   // op name -> number of (v, mode, field) combinations executed without error
var vFieldStats = map[string]int{} // allowed-and-executed / allowed-but-failed / disallowed (Go-side view of the field tables)

func vRunX(out *vOut, st map[string]int, v uint64, mode RunMode, prog []byte, tpc int) {
	lsv := uint64(LogicVersion)
	const budget = 60000
	// static check on its own parameters
	envc := vNewEnv(mode, lsv, prog, vLsigArgs(), budget, nil)
	ckb := envc.remaining()
	chk := vCheckClass(envc.check(prog))
	// evaluation
	tr := &vTargetTracer{tpc: tpc}
	env := vNewEnv(mode, lsv, prog, vLsigArgs(), budget, tr)
	tr.ledger = env.ledger
	_, _, _ = env.eval(prog)
	var tstack interface{} = vSym("none")
	if tr.seen {
		tstack = tr.stack
	}
	m := 1
	if mode == ModeApp {
		m = 2
	}
	out.Case(vSym("x"), v, m, lsv, prog, tpc, ckb, chk, tstack, tr.rem, tr.cls, tr.touched)
	if tr.seen {
		if sp := (&EvalContext{EvalParams: env.ep, program: prog, pc: tpc, version: v}).GetOpSpec(); sp.op != nil {
			if _, ok := vExecuted[sp.Name]; !ok {
				vExecuted[sp.Name] = 0
			}
			if tr.cls == 0 {
				vExecuted[sp.Name]++
			}
		}
	}
	switch {
	case !tr.seen:
		st["x_target_not_reached"]++
	case tr.cls == 0:
		st["x_target_executed"]++
	default:
		st[fmt.Sprintf("x_target_class_%d", tr.cls)]++
	}
	st[fmt.Sprintf("x_check_class_%d", chk)]++
}

func TestVerifC34(t *testing.T) {
	out := vOpen("cases_c34.txt")
	defer out.Close()
	st := map[string]int{}
	thorough := vTier() == "thorough"
	rnd := vNewRand(0x34)

	// ---- (x) exhaustive opcode / sub-opcode / field sweep
	nx := 0
	for opcode := 0; opcode < 256; opcode++ {
		for v := uint64(0); v <= LogicVersion; v++ {
			ent := &opsByOpcode[v][opcode]
			latest := &opsByOpcode[LogicVersion][opcode]
			family := latest.SubOps != nil
			for _, mode := range []RunMode{ModeSig, ModeApp} {
				if family {
					for sub := 0; sub < 256; sub++ {
						if !thorough && sub > len(latest.SubOps)+1 && sub < 254 {
							continue
						}
						var spec *OpSpec
						if sub < len(ent.SubOps) && ent.SubOps[sub].op != nil {
							spec = &ent.SubOps[sub]
						} else if sub < len(latest.SubOps) && latest.SubOps[sub].op != nil {
							spec = &latest.SubOps[sub]
						}
						prog, tpc := vCraft(v, mode, byte(opcode), spec, sub, -1, 0)
						vRunX(out, st, v, mode, prog, tpc)
						nx++
					}
					continue
				}
				var spec *OpSpec
				if ent.op != nil {
					spec = ent
				} else if latest.op != nil {
					spec = latest
				}
				fimm := -1
				if spec != nil {
					for i, im := range spec.Immediates {
						if im.Group != nil {
							fimm = i
						}
					}
				}
				if fimm < 0 {
					prog, tpc := vCraft(v, mode, byte(opcode), spec, -1, -1, 0)
					vRunX(out, st, v, mode, prog, tpc)
					nx++
					continue
				}
				ng := len(spec.Immediates[fimm].Group.Names)
				for f := 0; f < 256; f++ {
					if !thorough && f > ng+1 && f < 254 {
						continue
					}
					prog, tpc := vCraft(v, mode, byte(opcode), spec, -1, fimm, byte(f))
					vRunX(out, st, v, mode, prog, tpc)
					nx++
				}
			}
		}
	}
	st["x_cases"] = nx

	// ---- (b) random branch layouts
	// directed stream: extreme immediates (shared with C31), every version, both modes
	nbe := 0
	for v := uint64(0); v <= LogicVersion; v++ {
		for _, prog := range vExtremePrograms(v) {
			for _, mode := range []RunMode{ModeSig, ModeApp} {
				vRunBProg(out, st, v, mode, LogicVersion, prog)
				nbe++
			}
		}
	}
	st["b_extreme_cases"] = nbe
	// directed stream: a taken forward branch of every kind to every byte offset of a body holding
	// every instruction layout (incl. the prefixed sub-opcode instructions of v13+ app mode)
	vTargetSweep(out, st)
	nb := vEnvInt("VERIF_C34_B", 3000)
	for i := 0; i < nb; i++ {
		vRunB(out, st, rnd)
	}
	st["b_cases"] = nb

	stats := map[string]interface{}{}
	for k, n := range st {
		stats[k] = n
	}
	var never []string
	for name, n := range vExecuted {
		if n == 0 {
			never = append(never, name)
		}
	}
	sort.Strings(never)
	stats["x_ops_never_executed_successfully"] = never
	stats["x_ops_executed_successfully"] = len(vExecuted) - len(never)
	vStats(stats)
}

// ---------------------------------------------------------------- (b) branch layouts
type vTraceTracer struct {
	NullEvalTracer
	steps   []interface{}
	pc      int
	calls   []interface{}
	pending bool
	max     int
}

func (t *vTraceTracer) BeforeOpcode(cx *EvalContext) {
	if cx.caller != nil {
		return
	}
	t.pc = cx.pc
	t.calls = vCalls(cx)
	t.pending = true
}

func (t *vTraceTracer) AfterOpcode(cx *EvalContext, err error) {
	if cx.caller != nil || !t.pending {
		return
	}
	t.pending = false
	if err != nil || len(t.steps) >= t.max {
		return
	}
	t.steps = append(t.steps, vL(t.pc, cx.pc, t.calls, vCalls(cx)))
}

// vStarts replays the loop of check() with the real begin/checkStep and returns the
// instructionStarts it recorded
func vStarts(env *vEnv, program []byte) (starts []interface{}, err error) {
	defer func() {
		if x := recover(); x != nil {
			err = fmt.Errorf("panic in TEAL Eval: %v", x)
		}
	}()
	var cx EvalContext
	cx.EvalParams = env.ep
	cx.runMode = env.mode
	cx.branchTargets = make([]bool, len(program)+1)
	cx.instructionStarts = make([]bool, len(program)+1)
	cx.txn = &env.ep.TxnGroup[env.gi]
	if err := cx.begin(program); err != nil {
		return nil, err
	}
	maxCost := cx.remainingBudget()
	staticCost := 0
	for cx.pc < len(cx.program) {
		prevpc := cx.pc
		stepCost, err := cx.checkStep()
		if err != nil {
			return nil, fmt.Errorf("pc=%3d %w", cx.pc, err)
		}
		staticCost += stepCost
		if cx.version < backBranchEnabledVersion && staticCost > maxCost {
			return nil, fmt.Errorf("pc=%3d static cost budget of %d exceeded", cx.pc, maxCost)
		}
		if cx.pc <= prevpc {
			return nil, fmt.Errorf("pc=%3d pc did not advance", cx.pc)
		}
	}
	starts = []interface{}{}
	for i, b := range cx.instructionStarts {
		if b {
			starts = append(starts, i)
		}
	}
	return starts, nil
}

type vIns struct {
	bytes  []byte
	branch int // 0 none, 1 int16 offset at bytes[1:3], 2 varint offset after opcode, 3 switch table
	target []int
}

func vGenLayout(r *vRand, v uint64) []byte {
	varintBr := v >= varintBranchVersion
	n := 3 + r.Intn(14)
	ins := make([]vIns, 0, n+2)
	ins = append(ins, vIns{bytes: []byte{0x20, 0x02, 0x00, 0x01}}) // intcblock 0 1
	for i := 0; i < n; i++ {
		k := r.Intn(100)
		switch {
		case k < 14:
			ins = append(ins, vIns{bytes: []byte{0x22 + byte(r.Intn(2))}}) // intc_0 / intc_1
		case k < 20:
			ins = append(ins, vIns{bytes: []byte{0x48}}) // pop
		case k < 24:
			ins = append(ins, vIns{bytes: []byte{0x49}}) // dup
		case k < 50: // bnz / bz / b, preceded by a condition
			op := byte(0x40 + r.Intn(3))
			if op != 0x42 {
				ins = append(ins, vIns{bytes: []byte{0x22 + byte(r.Intn(2))}})
			}
			if varintBr {
				ins = append(ins, vIns{bytes: []byte{op, 0}, branch: 2, target: []int{0}})
			} else {
				ins = append(ins, vIns{bytes: []byte{op, 0, 0}, branch: 1, target: []int{0}})
			}
		case k < 58: // callsub
			if varintBr {
				ins = append(ins, vIns{bytes: []byte{0x88, 0}, branch: 2, target: []int{0}})
			} else {
				ins = append(ins, vIns{bytes: []byte{0x88, 0, 0}, branch: 1, target: []int{0}})
			}
		case k < 64:
			ins = append(ins, vIns{bytes: []byte{0x89}}) // retsub
		case k < 70: // pushint
			ins = append(ins, vIns{bytes: append([]byte{0x81}, vUvarint(r.Edge64()>>uint(r.Intn(64)))...)})
		case k < 76: // pushbytes with opcode-looking payload
			pl := r.Bytes(r.Intn(5))
			ins = append(ins, vIns{bytes: append(append([]byte{0x80}, vUvarint(uint64(len(pl)))...), pl...)})
		case k < 84: // switch / match
			cnt := r.Intn(4)
			op := byte(0x8d + r.Intn(2))
			ins = append(ins, vIns{bytes: []byte{0x22 + byte(r.Intn(2))}})
			b := []byte{op, byte(cnt)}
			tg := make([]int, cnt)
			for j := 0; j < cnt; j++ {
				b = append(b, 0, 0)
			}
			ins = append(ins, vIns{bytes: b, branch: 3, target: tg})
		case k < 88: // txn f / gtxn t f
			if r.Bool() {
				ins = append(ins, vIns{bytes: []byte{0x31, byte(r.Intn(4))}})
			} else {
				ins = append(ins, vIns{bytes: []byte{0x33, 0, byte(r.Intn(4))}})
			}
		case k < 91: // bytecblock / pushbytess / pushints
			switch r.Intn(3) {
			case 0:
				ins = append(ins, vIns{bytes: []byte{0x26, 0x02, 0x01, 0x40, 0x00}})
			case 1:
				ins = append(ins, vIns{bytes: []byte{0x82, 0x01, 0x02, 0x41, 0x42}})
			default:
				ins = append(ins, vIns{bytes: []byte{0x83, 0x02, 0x01, 0x88, 0x01}})
			}
		case k < 94:
			ins = append(ins, vIns{bytes: []byte{0x08}}) // +
		case k < 97:
			ins = append(ins, vIns{bytes: []byte{0x43}}) // return
		default:
			ins = append(ins, vIns{bytes: []byte{byte(r.Intn(256))}}) // anything
		}
	}
	ins = append(ins, vIns{bytes: []byte{0x23}}) // intc_1
	// positions (assuming the current sizes)
	pos := make([]int, len(ins)+1)
	p := 1 // version byte
	for i := range ins {
		pos[i] = p
		p += len(ins[i].bytes)
	}
	pos[len(ins)] = p
	pick := func(self int) int {
		c := r.Intn(100)
		var t int
		switch {
		case c < 55: // a later instruction boundary (or the end)
			t = pos[self+1+r.Intn(len(ins)-self)]
		case c < 80: // any boundary, possibly backwards
			t = pos[r.Intn(len(ins)+1)]
		case c < 90: // just off a boundary
			t = pos[r.Intn(len(ins)+1)] + 1 - 2*r.Intn(2)
		case c < 95:
			t = r.Intn(p + 3)
		default:
			t = p + r.Intn(4)
		}
		if t < 0 {
			t = 0
		}
		return t
	}
	out := vUvarint(v)
	for i := range ins {
		in := &ins[i]
		switch in.branch {
		case 1:
			off := pick(i) - (pos[i] + 3)
			binary.BigEndian.PutUint16(in.bytes[1:3], uint16(int16(off)))
		case 2:
			t := pick(i)
			var off int
			if t < pos[i] {
				off = t - pos[i]
			} else {
				off = t - (pos[i] + 2)
				if off < 0 {
					off = 0
				}
			}
			in.bytes = append(in.bytes[:1], vVarint(int64(off))...)
		case 3:
			eoi := pos[i] + len(in.bytes)
			for j := range in.target {
				off := pick(i) - eoi
				binary.BigEndian.PutUint16(in.bytes[2+2*j:4+2*j], uint16(int16(off)))
			}
		}
		out = append(out, in.bytes...)
	}
	if r.Intn(100) < 25 && len(out) > 1 { // corrupt one byte
		out[1+r.Intn(len(out)-1)] = byte(r.U64())
	}
	if r.Intn(100) < 5 { // truncate
		out = out[:1+r.Intn(len(out))]
	}
	return out
}

func vRunB(out *vOut, st map[string]int, r *vRand) {
	versions := []uint64{1, 2, 3, 4, 5, 7, 8, 8, 9, 12, 12, 13, 13, 13, 14, 14}
	v := versions[r.Intn(len(versions))]
	if r.Intn(20) == 0 {
		v = uint64(r.Intn(LogicVersion + 2))
	}
	mode := ModeSig
	if r.Bool() {
		mode = ModeApp
	}
	lsv := uint64(LogicVersion)
	if r.Intn(8) == 0 {
		lsv = 12
	}
	vRunBProg(out, st, v, mode, lsv, vGenLayout(r, v))
}

func vRunBProg(out *vOut, st map[string]int, v uint64, mode RunMode, lsv uint64, prog []byte) {
	const budget = 250
	envc := vNewEnv(mode, lsv, prog, vLsigArgs(), budget, nil)
	ckb := envc.remaining()
	chk := vCheckClass(envc.check(prog))
	envs := vNewEnv(mode, lsv, prog, vLsigArgs(), budget, nil)
	starts, serr := vStarts(envs, prog)
	var tstarts interface{} = vSym("none")
	if serr == nil && chk == 0 {
		tstarts = starts
	}
	if (serr == nil) != (chk == 0) {
		st["b_replica_disagrees"]++ // must stay 0: the replayed loop is check()'s loop
		tstarts = vSym("none")
		if chk == 0 {
			chk = 99
		}
	}
	tr := &vTraceTracer{max: 300}
	env := vNewEnv(mode, lsv, prog, vLsigArgs(), budget, tr)
	_, _, everr := env.eval(prog)
	m := 1
	if mode == ModeApp {
		m = 2
	}
	out.Case(vSym("b"), v, m, lsv, prog, ckb, chk, tstarts, tr.steps)
	st[fmt.Sprintf("b_check_class_%d", chk)]++
	st[fmt.Sprintf("b_eval_class_%d", vEvalClass(everr))]++
	if chk == 0 {
		st["b_check_ok_steps"] += len(tr.steps)
	}
}

// ---------------------------------------------------------------- (b) forward-target sweep
// vTargetSweep: for every version and both modes, a body made of one instruction of every
// layout kind the version/mode allows (1-byte ops, byte immediates, varuint / length-prefixed
// immediates, constant blocks, 2-byte and varint branches, switch tables, and -- v13+ app mode --
// every prefixed sub-opcode instruction), preceded by a forward branch of every kind
// (bnz / bz / b / callsub / switch label / match label) that is TAKEN at run time and targets
// EVERY byte offset from the end of the branch to one past the end of the program.  The static
// verdict is compared with the model's instruction-boundary set and the executed jump with the
// instruction starts of the real checkStep.
func vSweepBody(v uint64, mode RunMode) []byte {
	var b []byte
	add := func(minv uint64, bs ...byte) {
		if v >= minv {
			b = append(b, bs...)
		}
	}
	add(1, 0x22)                                     // intc_0
	add(1, 0x21, 0x01)                               // intc 1
	add(1, 0x48, 0x48)                               // pop; pop
	add(1, 0x31, 0x00, 0x48)                         // txn Sender; pop
	add(1, 0x33, 0x00, 0x01, 0x48)                   // gtxn 0 Fee; pop
	add(3, 0x81, 0xac, 0x02, 0x48)                   // pushint 300; pop
	add(3, 0x80, 0x03, 0xd4, 0x05, 0x42)             // pushbytes 0xd40542
	add(3, 0x48)                                     // pop
	add(1, 0x26, 0x02, 0x01, 0x61, 0x02, 0xd4, 0x06) // bytecblock "a" 0xd406
	if v >= foreignBoxVersion && mode == ModeApp {
		for sub := byte(1); sub <= 9; sub++ { // every prefixed instruction: args pushed, result dropped by a later error at worst
			b = append(b, 0xd4, sub)
		}
	}
	add(8, 0x83, 0x02, 0x01, 0x02, 0x48, 0x48)       // pushints 1 2; pop; pop
	add(8, 0x22, 0x8d, 0x02, 0x00, 0x00, 0x00, 0x00) // intc_0; switch l l (both to the next instruction)
	if v >= varintBranchVersion {
		b = append(b, 0x42, 0x00) // b +0
	} else if v >= 2 {
		b = append(b, 0x42, 0x00, 0x00)
	}
	add(8, 0x23, 0x8b, 0x00, 0x48, 0x48) // intc_1; frame_dig 0; pop; pop (never reached usefully)
	b = append(b, 0x23)                  // intc_1
	return b
}

func vTargetSweep(out *vOut, st map[string]int) {
	n := 0
	for v := uint64(1); v <= LogicVersion; v++ {
		varintBr := v >= varintBranchVersion
		for _, mode := range []RunMode{ModeSig, ModeApp} {
			body := vSweepBody(v, mode)
			hdr := append(vUvarint(v), 0x20, 0x02, 0x00, 0x01) // intcblock 0 1
			type kind struct {
				minv uint64
				pre  []byte // pushes making the branch taken
				op   byte
				sw   bool
			}
			kinds := []kind{
				{1, []byte{0x23}, 0x40, false},      // intc_1; bnz
				{2, []byte{0x22}, 0x41, false},      // intc_0; bz
				{2, nil, 0x42, false},               // b
				{4, nil, 0x88, false},               // callsub
				{8, []byte{0x22}, 0x8d, true},       // intc_0; switch (label 0 taken)
				{8, []byte{0x23, 0x23}, 0x8e, true}, // intc_1; intc_1; match (label 0 taken)
			}
			for _, k := range kinds {
				if v < k.minv {
					continue
				}
				// a forward offset is relative to the end of the branch instruction, i.e. to the start of
				// the body, whatever the size of its own encoding
				for off := 0; off <= len(body)+1; off++ {
					prog := append([]byte{}, hdr...)
					prog = append(prog, k.pre...)
					switch {
					case k.sw:
						prog = append(prog, k.op, 0x01, byte(off>>8), byte(off))
					case varintBr:
						prog = append(prog, k.op)
						prog = append(prog, vVarint(int64(off))...)
					default:
						prog = append(prog, k.op, byte(off>>8), byte(off))
					}
					prog = append(prog, body...)
					vRunBProg(out, st, v, mode, LogicVersion, prog)
					n++
				}
			}
		}
	}
	st["b_target_sweep_cases"] = n
}
