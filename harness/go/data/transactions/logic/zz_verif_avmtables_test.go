//go:build verif

package logic

// Translator for C31 / C34 (and C33): dumps the AVM tables of the running package
// (OpSpecs, the per-version dispatch tables opsByOpcode built by init(), the field groups
// attached to immediates, doc op groups, frame constants) as Coq data into
// $VERIF_GEN_OUT (coq/gen/AvmTables.v).  Output is deterministic: everything is sorted or
// follows source order of OpSpecs, so an unchanged tree gives a byte-identical file.

import (
	"encoding/json"
	"fmt"
	"os"
	"reflect"
	"sort"
	"strings"
	"testing"
)

func vFnPtr(f interface{}) uintptr {
	v := reflect.ValueOf(f)
	if !v.IsValid() || v.IsNil() {
		return 0
	}
	return v.Pointer()
}

func vCoqStr(s string) string {
	return "\"" + strings.ReplaceAll(s, "\"", "\"\"") + "\""
}

func vCoqLC(lc linearCost) string {
	z := func(i int) string {
		if i < 0 {
			return fmt.Sprintf("(%d)", i)
		}
		return fmt.Sprintf("%d", i)
	}
	return fmt.Sprintf("(mkLC %s %s %s %s)", z(lc.baseCost), z(lc.chunkCost), z(lc.chunkSize), z(lc.depth))
}

func vCkind(spec *OpSpec) string {
	p := vFnPtr(spec.check)
	switch p {
	case 0:
		return "CkNone"
	case vFnPtr(checkFunc(checkBranch)):
		return "CkBranch2B"
	case vFnPtr(checkFunc(checkBranchVarint)):
		return "CkBranchVarint"
	case vFnPtr(checkFunc(checkSwitch)):
		return "CkSwitch"
	case vFnPtr(checkFunc(checkIntImmArgs)):
		return "CkIntImm"
	case vFnPtr(checkFunc(checkByteImmArgs)):
		return "CkByteImm"
	case vFnPtr(checkFunc(opPushBytes)):
		return "CkPushBytes"
	case vFnPtr(checkFunc(opPushInt)):
		return "CkPushInt"
	}
	return "CkUnknown"
}

func vOkind(spec *OpSpec) string {
	p := vFnPtr(spec.op)
	tab := []struct {
		f evalFunc
		n string
	}{
		{opBnz2B, "OpBnz2B"}, {opBz2B, "OpBz2B"}, {opB2B, "OpB2B"}, {opCallSub2B, "OpCallsub2B"},
		{opBnz, "OpBnzV"}, {opBz, "OpBzV"}, {opB, "OpBV"}, {opCallSub, "OpCallsubV"},
		{opSwitch, "OpSwitch"}, {opMatch, "OpMatch"}, {opRetSub, "OpRetsub"}, {opReturn, "OpReturn"},
		{opIntConstBlock, "OpIntcBlock"}, {opByteConstBlock, "OpBytecBlock"},
		{opPushInts, "OpPushInts"}, {opPushBytess, "OpPushBytess"},
		{opPushInt, "OpPushInt"}, {opPushBytes, "OpPushBytes"},
	}
	for _, e := range tab {
		if p != 0 && p == vFnPtr(e.f) {
			return e.n
		}
	}
	return "OpPlain"
}

type vGroups struct {
	ptrs []*FieldGroup
}

func (g *vGroups) id(p *FieldGroup) int {
	if p == nil {
		return 0
	}
	for i, q := range g.ptrs {
		if q == p {
			return i + 1
		}
	}
	g.ptrs = append(g.ptrs, p)
	return len(g.ptrs)
}

func vCoqTypes(sts StackTypes) string {
	var parts []string
	for _, st := range sts {
		parts = append(parts, fmt.Sprintf("%d", int(st.AVMType)))
	}
	return "[" + strings.Join(parts, "; ") + "]"
}

func vCoqSpec(spec *OpSpec, g *vGroups) string {
	var imms []string
	for _, im := range spec.Immediates {
		costs := "[]"
		if im.fieldCosts != nil {
			last := -1
			for i, lc := range im.fieldCosts {
				if lc != (linearCost{}) {
					last = i
				}
			}
			var cs []string
			for i := 0; i <= last; i++ {
				cs = append(cs, vCoqLC(im.fieldCosts[i]))
			}
			costs = "[" + strings.Join(cs, "; ") + "]"
		}
		imms = append(imms, fmt.Sprintf("mkImm %d %d %s", int(im.kind), g.id(im.Group), costs))
	}
	b := func(x bool) string {
		if x {
			return "true"
		}
		return "false"
	}
	return fmt.Sprintf("mkOp %d %d %s %d %d %d %s %s %s %s [%s] %s %s %s",
		spec.Opcode, spec.SubOpcode, vCoqStr(spec.Name), spec.Version, int(spec.Modes), spec.Size,
		vCoqTypes(spec.Arg.Types), vCoqTypes(spec.Return.Types), b(spec.trusted), vCoqLC(spec.FullCost),
		strings.Join(imms, "; "), vCkind(spec), vOkind(spec), b(spec.op != nil))
}

type vPoolEnt struct {
	opcode, sub byte
	version     uint64
	text        string
}

func TestVerifAvmGen(t *testing.T) {
	out := os.Getenv("VERIF_GEN_OUT")
	if out == "" {
		t.Skip("VERIF_GEN_OUT not set")
	}
	g := &vGroups{}
	// group ids follow first use in OpSpecs source order (deterministic)
	for i := range OpSpecs {
		for _, im := range OpSpecs[i].Immediates {
			g.id(im.Group)
		}
	}
	// the runtime view of itxn_field's immediate is the settable-field group (eval.go:opItxnField
	// checks itxVersion); cmd/opdoc/opdoc.go:argEnumOverrides makes the same substitution
	override := map[string]*FieldGroup{"itxn_field": &ItxnSettableFields}
	var overrideNames []string
	for n := range override {
		overrideNames = append(overrideNames, n)
	}
	sort.Strings(overrideNames)
	for _, n := range overrideNames {
		g.id(override[n])
	}

	// ---- spec pool
	pool := map[string]vPoolEnt{}
	add := func(s *OpSpec) string {
		txt := vCoqSpec(s, g)
		pool[txt] = vPoolEnt{s.Opcode, s.SubOpcode, s.Version, txt}
		return txt
	}
	zero := OpSpec{}
	zeroTxt := vCoqSpec(&zero, g)
	for i := range OpSpecs {
		add(&OpSpecs[i])
	}
	for v := range opsByOpcode {
		for i := range opsByOpcode[v] {
			e := &opsByOpcode[v][i]
			add(e)
			for j := range e.SubOps {
				add(&e.SubOps[j])
			}
		}
	}
	delete(pool, zeroTxt)
	var ents []vPoolEnt
	for _, e := range pool {
		ents = append(ents, e)
	}
	sort.Slice(ents, func(i, j int) bool {
		a, b := ents[i], ents[j]
		if a.opcode != b.opcode {
			return a.opcode < b.opcode
		}
		if a.sub != b.sub {
			return a.sub < b.sub
		}
		if a.version != b.version {
			return a.version < b.version
		}
		return a.text < b.text
	})
	idx := map[string]int{zeroTxt: 0}
	for i, e := range ents {
		idx[e.text] = i + 1
	}
	ix := func(s *OpSpec) int { return idx[vCoqSpec(s, g)] }

	var sb strings.Builder
	sb.WriteString("(* GENERATED on every run by harness/go/data/transactions/logic/zz_verif_avmtables_test.go:\n" +
		"   TestVerifAvmGen from the running package data/transactions/logic (OpSpecs, opsByOpcode as built\n" +
		"   by init(), field groups, doc.go:OpGroups, frame constants).  Never edit. *)\n")
	sb.WriteString("From Coq Require Import List NArith ZArith String.\nFrom Verif.model Require Import AvmTypes.\nImport ListNotations.\nLocal Open Scope string_scope.\nLocal Open Scope N_scope.\n\n")
	fmt.Fprintf(&sb, "Definition logic_version : N := %d.\n", LogicVersion)
	fmt.Fprintf(&sb, "Definition max_stack_depth : N := %d.\n", maxStackDepth)
	fmt.Fprintf(&sb, "Definition max_string_size : N := %d.\n", maxStringSize)
	fmt.Fprintf(&sb, "Definition max_byte_math_size : N := %d.\n", maxByteMathSize)
	fmt.Fprintf(&sb, "Definition back_branch_enabled_version : N := %d.\n", backBranchEnabledVersion)
	fmt.Fprintf(&sb, "Definition proto_byte : N := %d.\n", protoByte)
	fmt.Fprintf(&sb, "Definition shared_resources_version : N := %d.\n", sharedResourcesVersion)
	fmt.Fprintf(&sb, "Definition mode_sig : N := %d.\nDefinition mode_app : N := %d.\n\n", int(ModeSig), int(ModeApp))

	sb.WriteString("(* every distinct OpSpec value occurring in OpSpecs or in opsByOpcode[v] (incl. SubOps);\n   index 0 is the zero OpSpec (op == nil) *)\nDefinition spec_pool : list opspec := [\n")
	fmt.Fprintf(&sb, "  %s", zeroTxt)
	for _, e := range ents {
		fmt.Fprintf(&sb, ";\n  %s", e.text)
	}
	sb.WriteString("].\n\n")

	sb.WriteString("(* OpSpecs in source order, as pool indices *)\nDefinition op_specs_src : list N := [")
	for i := range OpSpecs {
		if i > 0 {
			sb.WriteString("; ")
		}
		fmt.Fprintf(&sb, "%d", ix(&OpSpecs[i]))
	}
	sb.WriteString("].\n\n")

	sb.WriteString("(* opsByOpcode[v] for v = 0..LogicVersion: (opcode, (pool index of the entry, pool indices of its SubOps))\n   for every opcode byte whose entry is not the zero OpSpec with nil SubOps *)\nDefinition ops_by_opcode : list (list tentry) := [\n")
	for v := range opsByOpcode {
		if v > 0 {
			sb.WriteString(";\n")
		}
		fmt.Fprintf(&sb, "  (* v%d *) [", v)
		first := true
		for i := range opsByOpcode[v] {
			e := &opsByOpcode[v][i]
			ei := ix(e)
			if ei == 0 && e.SubOps == nil {
				continue
			}
			if !first {
				sb.WriteString("; ")
			}
			first = false
			var subs []string
			for j := range e.SubOps {
				subs = append(subs, fmt.Sprintf("%d", ix(&e.SubOps[j])))
			}
			fmt.Fprintf(&sb, "(%d, (%d, [%s]))", i, ei, strings.Join(subs, "; "))
		}
		sb.WriteString("]")
	}
	sb.WriteString("].\n\n")

	mismatch := 0
	sb.WriteString("(* field groups attached to immediates (1-based ids used by mkImm), then override groups;\n   an entry per non-empty Names[i] whose SpecByName succeeds: position i, name, Version(), Modes() *)\nDefinition field_groups : list fgroup := [\n")
	for gi, p := range g.ptrs {
		if gi > 0 {
			sb.WriteString(";\n")
		}
		fmt.Fprintf(&sb, "  mkFG %s [", vCoqStr(p.Name))
		first := true
		for i, name := range p.Names {
			if name == "" {
				continue
			}
			fs, ok := p.SpecByName(name)
			if !ok {
				continue
			}
			if int(fs.Field()) != i {
				mismatch++
			}
			if !first {
				sb.WriteString("; ")
			}
			first = false
			fmt.Fprintf(&sb, "mkFS %d %s %d %d", i, vCoqStr(name), fs.Version(), int(fs.Modes()))
		}
		sb.WriteString("]")
	}
	sb.WriteString("].\n\n")
	fmt.Fprintf(&sb, "(* number of field specs whose Field() differs from their position in Names *)\nDefinition field_index_mismatches : N := %d.\n\n", mismatch)

	sb.WriteString("(* opcodes whose run-time field check uses another group than the one attached to the immediate *)\nDefinition runtime_group_override : list (string * N) := [")
	for i, n := range overrideNames {
		if i > 0 {
			sb.WriteString("; ")
		}
		fmt.Fprintf(&sb, "(%s, %d)", vCoqStr(n), g.id(override[n]))
	}
	sb.WriteString("].\n\n")

	var gnames []string
	for n := range OpGroups {
		gnames = append(gnames, n)
	}
	sort.Strings(gnames)
	sb.WriteString("(* doc.go:OpGroups *)\nDefinition op_groups : list (string * list string) := [\n")
	for i, n := range gnames {
		if i > 0 {
			sb.WriteString(";\n")
		}
		var ns []string
		for _, o := range OpGroups[n] {
			ns = append(ns, vCoqStr(o))
		}
		fmt.Fprintf(&sb, "  (%s, [%s])", vCoqStr(n), strings.Join(ns, "; "))
	}
	sb.WriteString("].\n")

	// ---- the repository's second source: langspec_v<K>.json (generated by cmd/opdoc and committed)
	type lsArg struct {
		Name         string
		ByteEncoding int
		Modes        int
		Version      uint64
	}
	type lsOp struct {
		Opcode            json.RawMessage
		Name              string
		IntroducedVersion uint64
		Modes             int
		ArgDetails        []lsArg
	}
	type lsFile struct {
		Version uint64
		Ops     []lsOp
	}
	opBytes := func(raw json.RawMessage) (int, int) {
		var one int
		if json.Unmarshal(raw, &one) == nil {
			return one, 0
		}
		var two []int
		if json.Unmarshal(raw, &two) == nil && len(two) == 2 {
			return two[0], two[1]
		}
		return -1, -1
	}
	var lsVersions []int
	var lsFiles []lsFile
	for k := 1; k <= LogicVersion; k++ {
		b, err := os.ReadFile(fmt.Sprintf("langspec_v%d.json", k))
		if err != nil {
			continue
		}
		var f lsFile
		if err := json.Unmarshal(b, &f); err != nil {
			t.Fatalf("langspec_v%d.json: %v", k, err)
		}
		lsVersions = append(lsVersions, k)
		lsFiles = append(lsFiles, f)
	}
	sb.WriteString("\n(* langspec_v<K>.json, K = the versions for which the file exists: (K, [(opcode, sub-opcode, name,\n   IntroducedVersion, Modes)]) *)\nDefinition langspec_ops : list (N * list (N * N * string * N * N)) := [\n")
	for i, f := range lsFiles {
		if i > 0 {
			sb.WriteString(";\n")
		}
		fmt.Fprintf(&sb, "  (%d, [", lsVersions[i])
		for j, o := range f.Ops {
			if j > 0 {
				sb.WriteString("; ")
			}
			a, b := opBytes(o.Opcode)
			fmt.Fprintf(&sb, "(%d, %d, %s, %d, %d)", a, b, vCoqStr(o.Name), o.IntroducedVersion, o.Modes)
		}
		sb.WriteString("])")
	}
	sb.WriteString("].\n\n")
	latest := 0
	if len(lsVersions) > 0 {
		latest = lsVersions[len(lsVersions)-1]
	}
	fmt.Fprintf(&sb, "Definition langspec_latest : N := %d.\n", latest)
	sb.WriteString("(* ArgDetails of the newest langspec: (opcode, sub-opcode, [(name, ByteEncoding, Modes (0 = same as the\n   opcode), Version)]) for every op that has them *)\nDefinition langspec_fields : list (N * N * list (string * N * N * N)) := [\n")
	first := true
	if latest > 0 {
		for _, o := range lsFiles[len(lsFiles)-1].Ops {
			if len(o.ArgDetails) == 0 {
				continue
			}
			if !first {
				sb.WriteString(";\n")
			}
			first = false
			a, b := opBytes(o.Opcode)
			fmt.Fprintf(&sb, "  (%d, %d, [", a, b)
			for j, ad := range o.ArgDetails {
				if j > 0 {
					sb.WriteString("; ")
				}
				fmt.Fprintf(&sb, "(%s, %d, %d, %d)", vCoqStr(ad.Name), ad.ByteEncoding, ad.Modes, ad.Version)
			}
			sb.WriteString("])")
		}
	}
	sb.WriteString("].\n")

	if err := os.WriteFile(out, []byte(sb.String()), 0644); err != nil {
		t.Fatal(err)
	}
}
