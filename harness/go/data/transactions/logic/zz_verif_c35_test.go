//go:build verif

package logic

// C35 harness: random transaction groups with random reference lists (foreign arrays or tx.Access,
// box references, creations earlier in the group) x one probe program performing one access (or a
// short sequence of box operations), program versions 5..LogicVersion, through the REAL evaluator
// (NewAppEvalParams / EvalContract / RecordAD) on the package's test Ledger.  Observation per case:
// the class of the error the probe failed with (0 = no availability error) and the resources the
// program touched (every LedgerForLogic call made while the program ran, recorded by a wrapper).
// The Coq side (coq/model/AvmResourcesSpec.v: check) predicts the class with the transcription of
// the availability code and applies the declarative rule to everything the implementation touched.
//
// Address space of the cases: 0 = zero address, 1..6 plain accounts, 1000+id = address of app id.

import (
	"bytes"
	"encoding/hex"
	"fmt"
	"sort"
	"strings"
	"testing"

	"github.com/algorand/go-algorand/config"
	"github.com/algorand/go-algorand/data/basics"
	"github.com/algorand/go-algorand/data/transactions"
	"github.com/algorand/go-algorand/ledger/ledgercore"
	"github.com/algorand/go-algorand/protocol"
)

// ---------------------------------------------------------------- universe
var vC35Assets = []uint64{401, 402, 403, 404, 7}
var vC35NewAsas = []uint64{701, 702, 703, 704}
var vC35Apps = []uint64{501, 502, 503, 504, 9}
var vC35AppVer = map[uint64]uint64{501: 7, 502: 8, 503: 10, 504: 13, 9: 10}
var vC35NewApps = []uint64{601, 602, 603, 604}
var vC35Names = [][]byte{[]byte("a"), []byte("b"), []byte("cc"), nil}

const vC35NAcct = 6

func vC35Addr(code uint64) basics.Address {
	switch {
	case code == 0:
		return basics.Address{}
	case code >= 1000:
		return basics.AppIndex(code - 1000).Address()
	default:
		var a basics.Address
		for i := range a {
			a[i] = byte(0xC3 ^ (i * 7))
		}
		a[0] = 0x35
		a[1] = byte(code)
		return a
	}
}

type vC35Codes struct{ m map[basics.Address]uint64 }

func vC35NewCodes() *vC35Codes {
	c := &vC35Codes{m: map[basics.Address]uint64{}}
	for k := uint64(0); k <= vC35NAcct; k++ {
		c.m[vC35Addr(k)] = k
	}
	for _, l := range [][]uint64{vC35Apps, vC35NewApps} {
		for _, id := range l {
			c.m[vC35Addr(1000+id)] = 1000 + id
		}
	}
	return c
}

func (c *vC35Codes) code(a basics.Address) uint64 {
	if k, ok := c.m[a]; ok {
		return k
	}
	return 999999
}

// ---------------------------------------------------------------- recording ledger
type vC35Ledger struct {
	l     *Ledger
	codes *vC35Codes
	on    bool
	seen  map[string]bool
	list  []string
}

func (r *vC35Ledger) rec(args ...interface{}) {
	if !r.on {
		return
	}
	s := vT(args...)
	if !r.seen[s] {
		r.seen[s] = true
		r.list = append(r.list, s)
	}
}
func (r *vC35Ledger) acct(a basics.Address) { r.rec(vSym("acct"), r.codes.code(a)) }
func (r *vC35Ledger) hold(a basics.Address, n basics.AssetIndex) {
	r.rec(vSym("hold"), r.codes.code(a), uint64(n))
}
func (r *vC35Ledger) loc(a basics.Address, n basics.AppIndex) {
	r.rec(vSym("loc"), r.codes.code(a), uint64(n))
}
func (r *vC35Ledger) box(a basics.AppIndex, name string) { r.rec(vSym("box"), uint64(a), []byte(name)) }

func (r *vC35Ledger) AccountData(addr basics.Address) (ledgercore.AccountData, error) {
	r.acct(addr)
	return r.l.AccountData(addr)
}
func (r *vC35Ledger) Authorizer(addr basics.Address) (basics.Address, error) {
	r.acct(addr)
	return r.l.Authorizer(addr)
}
func (r *vC35Ledger) Round() basics.Round  { return r.l.Round() }
func (r *vC35Ledger) PrevTimestamp() int64 { return r.l.PrevTimestamp() }
func (r *vC35Ledger) AgreementData(addr basics.Address) (basics.OnlineAccountData, error) {
	r.acct(addr)
	return r.l.AgreementData(addr)
}
func (r *vC35Ledger) OnlineStake() (basics.MicroAlgos, error) { return r.l.OnlineStake() }
func (r *vC35Ledger) AssetHolding(addr basics.Address, a basics.AssetIndex) (basics.AssetHolding, error) {
	r.hold(addr, a)
	return r.l.AssetHolding(addr, a)
}
func (r *vC35Ledger) AssetParams(a basics.AssetIndex) (basics.AssetParams, basics.Address, error) {
	r.rec(vSym("asset"), uint64(a))
	return r.l.AssetParams(a)
}
func (r *vC35Ledger) AppParams(a basics.AppIndex) (basics.AppParams, basics.Address, error) {
	r.rec(vSym("app"), uint64(a))
	return r.l.AppParams(a)
}
func (r *vC35Ledger) OptedIn(addr basics.Address, a basics.AppIndex) (bool, error) {
	r.loc(addr, a)
	return r.l.OptedIn(addr, a)
}
func (r *vC35Ledger) GetLocal(addr basics.Address, a basics.AppIndex, key string, ai uint64) (basics.TealValue, bool, error) {
	r.loc(addr, a)
	return r.l.GetLocal(addr, a, key, ai)
}
func (r *vC35Ledger) SetLocal(addr basics.Address, a basics.AppIndex, key string, v basics.TealValue, ai uint64) error {
	r.loc(addr, a)
	return r.l.SetLocal(addr, a, key, v, ai)
}
func (r *vC35Ledger) DelLocal(addr basics.Address, a basics.AppIndex, key string, ai uint64) error {
	r.loc(addr, a)
	return r.l.DelLocal(addr, a, key, ai)
}
func (r *vC35Ledger) GetGlobal(a basics.AppIndex, key string) (basics.TealValue, bool, error) {
	r.rec(vSym("app"), uint64(a))
	return r.l.GetGlobal(a, key)
}
func (r *vC35Ledger) SetGlobal(a basics.AppIndex, key string, v basics.TealValue) error {
	r.rec(vSym("app"), uint64(a))
	return r.l.SetGlobal(a, key, v)
}
func (r *vC35Ledger) DelGlobal(a basics.AppIndex, key string) error {
	r.rec(vSym("app"), uint64(a))
	return r.l.DelGlobal(a, key)
}
func (r *vC35Ledger) NewBox(a basics.AppIndex, key string, v []byte, addr basics.Address) error {
	r.box(a, key)
	return r.l.NewBox(a, key, v, addr)
}
func (r *vC35Ledger) GetBox(a basics.AppIndex, key string) ([]byte, bool, error) {
	r.box(a, key)
	return r.l.GetBox(a, key)
}
func (r *vC35Ledger) SetBox(a basics.AppIndex, key string, v []byte) error {
	r.box(a, key)
	return r.l.SetBox(a, key, v)
}
func (r *vC35Ledger) DelBox(a basics.AppIndex, key string, addr basics.Address) (bool, error) {
	r.box(a, key)
	return r.l.DelBox(a, key, addr)
}
func (r *vC35Ledger) Perform(gi int, ep *EvalParams) error { return r.l.Perform(gi, ep) }
func (r *vC35Ledger) Counter() uint64                      { return r.l.Counter() }
func (r *vC35Ledger) SetForeignBoxReads(a basics.AppIndex, e bool) error {
	return r.l.SetForeignBoxReads(a, e)
}
func (r *vC35Ledger) SetFamilyBoxAccess(a basics.AppIndex, e bool) error {
	return r.l.SetFamilyBoxAccess(a, e)
}

// recording starts when the probing program starts (the read-budget prefetch of EvalContract is not
// a touch by the program)
type vC35Tracer struct {
	NullEvalTracer
	led *vC35Ledger
	gi  int
}

func (t *vC35Tracer) BeforeProgram(cx *EvalContext) {
	if cx.caller == nil && cx.groupIndex == t.gi {
		t.led.on = true
	}
}

// ---------------------------------------------------------------- case structure (mirrors the model)
type vC35Ref struct {
	kind byte // d s p h l b e
	a, b uint64
	name []byte
}
type vC35Box struct {
	idx  uint64
	name []byte
}
type vC35Appl struct {
	id        uint64
	clear     bool
	accounts  []uint64
	fapps     []uint64
	fassets   []uint64
	boxes     []vC35Box
	useAccess bool
	access    []vC35Ref
}
type vC35Txn struct {
	typ        string // pay keyreg acfg axfer afrz appl other
	snd        uint64
	asset      uint64
	a1, a2, a3 uint64
	ap         *vC35Appl
}

func vC35U64s(l []uint64) []interface{} {
	out := make([]interface{}, len(l))
	for i, x := range l {
		out[i] = x
	}
	return out
}
func vC35Name(n []byte) []byte {
	if n == nil {
		return []byte{}
	}
	return n
}

func (r vC35Ref) term() interface{} {
	switch r.kind {
	case 'd', 's', 'p':
		return vL(vSym(string(r.kind)), r.a)
	case 'h', 'l':
		return vL(vSym(string(r.kind)), r.a, r.b)
	case 'b':
		return vL(vSym("b"), r.a, vC35Name(r.name))
	}
	return vL(vSym("e"))
}

func (r vC35Ref) toGo() transactions.ResourceRef {
	switch r.kind {
	case 'd':
		return transactions.ResourceRef{Address: vC35Addr(r.a)}
	case 's':
		return transactions.ResourceRef{Asset: basics.AssetIndex(r.a)}
	case 'p':
		return transactions.ResourceRef{App: basics.AppIndex(r.a)}
	case 'h':
		return transactions.ResourceRef{Holding: transactions.HoldingRef{Address: r.a, Asset: r.b}}
	case 'l':
		return transactions.ResourceRef{Locals: transactions.LocalsRef{Address: r.a, App: r.b}}
	case 'b':
		return transactions.ResourceRef{Box: transactions.BoxRef{Index: r.a, Name: r.name}}
	}
	return transactions.ResourceRef{}
}

func (ap *vC35Appl) term() interface{} {
	boxes := make([]interface{}, len(ap.boxes))
	for i, b := range ap.boxes {
		boxes[i] = vL(b.idx, vC35Name(b.name))
	}
	var acc interface{} = vSym("none")
	if ap.useAccess {
		l := make([]interface{}, len(ap.access))
		for i, r := range ap.access {
			l[i] = r.term()
		}
		acc = l
	}
	return vL(ap.id, ap.clear, vC35U64s(ap.accounts), vC35U64s(ap.fapps), vC35U64s(ap.fassets), boxes, acc)
}

func (t *vC35Txn) term() interface{} {
	switch t.typ {
	case "pay":
		return vL(vSym("pay"), t.snd, t.a1, t.a2)
	case "keyreg":
		return vL(vSym("keyreg"), t.snd)
	case "acfg":
		return vL(vSym("acfg"), t.snd, t.asset)
	case "axfer":
		return vL(vSym("axfer"), t.snd, t.asset, t.a1, t.a2, t.a3)
	case "afrz":
		return vL(vSym("afrz"), t.snd, t.asset, t.a1)
	case "appl":
		return vL(vSym("appl"), t.snd, t.ap.term())
	}
	return vL(vSym("other"), t.snd)
}

func (t *vC35Txn) toGo() transactions.SignedTxn {
	var s transactions.SignedTxn
	tx := &s.Txn
	tx.Sender = vC35Addr(t.snd)
	tx.Fee.Raw = 20000
	tx.FirstValid = 42
	tx.LastValid = 1066
	switch t.typ {
	case "pay":
		tx.Type = protocol.PaymentTx
		tx.Receiver = vC35Addr(t.a1)
		tx.CloseRemainderTo = vC35Addr(t.a2)
	case "keyreg":
		tx.Type = protocol.KeyRegistrationTx
	case "acfg":
		tx.Type = protocol.AssetConfigTx
		tx.ConfigAsset = basics.AssetIndex(t.asset)
	case "axfer":
		tx.Type = protocol.AssetTransferTx
		tx.XferAsset = basics.AssetIndex(t.asset)
		tx.AssetReceiver = vC35Addr(t.a1)
		tx.AssetSender = vC35Addr(t.a2)
		tx.AssetCloseTo = vC35Addr(t.a3)
	case "afrz":
		tx.Type = protocol.AssetFreezeTx
		tx.FreezeAsset = basics.AssetIndex(t.asset)
		tx.FreezeAccount = vC35Addr(t.a1)
	case "appl":
		tx.Type = protocol.ApplicationCallTx
		ap := t.ap
		tx.ApplicationID = basics.AppIndex(ap.id)
		if ap.clear {
			tx.OnCompletion = transactions.ClearStateOC
		}
		for _, a := range ap.accounts {
			tx.Accounts = append(tx.Accounts, vC35Addr(a))
		}
		for _, a := range ap.fapps {
			tx.ForeignApps = append(tx.ForeignApps, basics.AppIndex(a))
		}
		for _, a := range ap.fassets {
			tx.ForeignAssets = append(tx.ForeignAssets, basics.AssetIndex(a))
		}
		for _, b := range ap.boxes {
			tx.Boxes = append(tx.Boxes, transactions.BoxRef{Index: b.idx, Name: b.name})
		}
		if ap.useAccess {
			tx.Access = []transactions.ResourceRef{}
			for _, r := range ap.access {
				tx.Access = append(tx.Access, r.toGo())
			}
		}
	default:
		tx.Type = protocol.StateProofTx
	}
	return s
}

type vC35Create struct {
	gi uint64
	id uint64
}

type vC35Case struct {
	version   uint64
	forbidLow bool
	policy    bool
	group     []*vC35Txn
	gi        int
	appid     uint64
	creates   []vC35Create
	asas      []uint64
	asaAt     []int // group index of each asset creation
	probe     interface{}
	kind      string
	src       string
	nops      int // box probes: number of operations
	isSub     bool
}

// ---------------------------------------------------------------- generators
func vC35Pick(r *vRand, l []uint64) uint64 { return l[r.Intn(len(l))] }

func vC35AcctCode(r *vRand) uint64 {
	switch r.Intn(12) {
	case 0:
		return 0
	case 1:
		return 1000 + vC35Pick(r, vC35Apps)
	case 2:
		return 1000 + vC35Pick(r, vC35NewApps)
	}
	return uint64(1 + r.Intn(vC35NAcct))
}
func vC35PlainAcct(r *vRand) uint64 { return uint64(1 + r.Intn(vC35NAcct)) }
func vC35AssetID(r *vRand) uint64 {
	if r.Intn(10) == 0 {
		return vC35Pick(r, vC35NewAsas)
	}
	return vC35Pick(r, vC35Assets)
}
func vC35AppID(r *vRand) uint64 {
	if r.Intn(8) == 0 {
		return vC35Pick(r, vC35NewApps)
	}
	return vC35Pick(r, vC35Apps)
}
func vC35BoxName(r *vRand) []byte { return vC35Names[r.Intn(len(vC35Names))] }

func vC35GenAppl(r *vRand, access bool, create bool) *vC35Appl {
	ap := &vC35Appl{}
	if !create {
		ap.id = vC35Pick(r, vC35Apps[:4])
	}
	ap.clear = r.Intn(25) == 0
	if !access {
		for i, n := 0, r.Intn(4); i < n; i++ {
			ap.accounts = append(ap.accounts, vC35AcctCode(r))
		}
		for i, n := 0, r.Intn(4); i < n; i++ {
			ap.fapps = append(ap.fapps, vC35AppID(r))
		}
		for i, n := 0, r.Intn(4); i < n; i++ {
			ap.fassets = append(ap.fassets, vC35AssetID(r))
		}
		for i, n := 0, r.Intn(3); i < n; i++ {
			ap.boxes = append(ap.boxes, vC35Box{idx: uint64(r.Intn(len(ap.fapps) + 1)), name: vC35BoxName(r)})
		}
		return ap
	}
	ap.useAccess = true
	if r.Intn(12) == 0 {
		return ap // non-nil empty list
	}
	var addrs, assets, apps []uint64 // 1-based positions
	for i, n := 0, r.Intn(5); i < n; i++ {
		switch r.Intn(3) {
		case 0:
			a := vC35AcctCode(r)
			if a == 0 {
				a = 1
			}
			ap.access = append(ap.access, vC35Ref{kind: 'd', a: a})
			addrs = append(addrs, uint64(len(ap.access)))
		case 1:
			ap.access = append(ap.access, vC35Ref{kind: 's', a: vC35AssetID(r)})
			assets = append(assets, uint64(len(ap.access)))
		case 2:
			ap.access = append(ap.access, vC35Ref{kind: 'p', a: vC35AppID(r)})
			apps = append(apps, uint64(len(ap.access)))
		}
	}
	pickPos := func(l []uint64, zero bool) (uint64, bool) {
		if zero && (len(l) == 0 || r.Intn(3) == 0) {
			return 0, true
		}
		if len(l) == 0 {
			return 0, false
		}
		return l[r.Intn(len(l))], true
	}
	for i, n := 0, r.Intn(4); i < n; i++ {
		switch r.Intn(4) {
		case 0:
			a, _ := pickPos(addrs, true)
			if s, ok := pickPos(assets, false); ok {
				ap.access = append(ap.access, vC35Ref{kind: 'h', a: a, b: s})
			}
		case 1:
			a, _ := pickPos(addrs, true)
			p, _ := pickPos(apps, !create)
			if (a != 0 || p != 0) && !(create && p == 0) {
				ap.access = append(ap.access, vC35Ref{kind: 'l', a: a, b: p})
			}
		case 2:
			p, _ := pickPos(apps, true)
			nm := vC35BoxName(r)
			if p == 0 && nm == nil {
				ap.access = append(ap.access, vC35Ref{kind: 'e'})
			} else {
				ap.access = append(ap.access, vC35Ref{kind: 'b', a: p, name: nm})
			}
		case 3:
			ap.access = append(ap.access, vC35Ref{kind: 'e'})
		}
	}
	return ap
}

func vC35GenTxn(r *vRand, access bool) *vC35Txn {
	t := &vC35Txn{snd: vC35PlainAcct(r)}
	optAcct := func() uint64 {
		if r.Intn(3) == 0 {
			return vC35AcctCode(r)
		}
		return 0
	}
	switch r.Intn(14) {
	case 0, 1:
		t.typ = "pay"
		t.a1 = vC35AcctCode(r)
		t.a2 = optAcct()
	case 2:
		t.typ = "keyreg"
	case 3, 4:
		t.typ = "acfg"
		if r.Intn(2) == 0 {
			t.asset = vC35AssetID(r)
		}
	case 5, 6:
		t.typ = "axfer"
		t.asset = vC35AssetID(r)
		if r.Intn(15) == 0 {
			t.asset = 0
		}
		t.a1 = vC35AcctCode(r)
		t.a2 = optAcct()
		t.a3 = optAcct()
	case 7:
		t.typ = "afrz"
		t.asset = vC35AssetID(r)
		t.a1 = vC35AcctCode(r)
	case 8:
		t.typ = "other"
	default:
		t.typ = "appl"
		t.ap = vC35GenAppl(r, access && r.Intn(3) > 0, r.Intn(5) == 0)
	}
	return t
}

// everything some transaction of the group mentions (to aim probes at interesting targets)
type vC35BoxKey struct {
	app  uint64
	name []byte
}
type vC35Mentioned struct {
	accts, assets, apps []uint64
	boxes               []vC35BoxKey
}

func vC35Mentions(c *vC35Case) vC35Mentioned {
	var m vC35Mentioned
	created := map[int]uint64{c.gi: c.appid}
	for _, cr := range c.creates {
		created[int(cr.gi)] = cr.id
	}
	for gi, t := range c.group {
		if t.typ == "appl" {
			self := t.ap.id
			if self == 0 {
				self = created[gi]
			}
			for _, b := range t.ap.boxes {
				app := self
				if b.idx > 0 && t.ap.fapps[b.idx-1] != 0 {
					app = t.ap.fapps[b.idx-1]
				}
				if app != 0 && len(b.name) > 0 {
					m.boxes = append(m.boxes, vC35BoxKey{app, b.name})
				}
			}
			for _, rr := range t.ap.access {
				if rr.kind == 'b' && len(rr.name) > 0 {
					app := self
					if rr.a > 0 {
						app = t.ap.access[rr.a-1].a
					}
					if app != 0 {
						m.boxes = append(m.boxes, vC35BoxKey{app, rr.name})
					}
				}
			}
		}
		m.accts = append(m.accts, t.snd)
		switch t.typ {
		case "pay":
			m.accts = append(m.accts, t.a1, t.a2)
		case "acfg":
			m.assets = append(m.assets, t.asset)
		case "axfer":
			m.assets = append(m.assets, t.asset)
			m.accts = append(m.accts, t.a1, t.a2, t.a3)
		case "afrz":
			m.assets = append(m.assets, t.asset)
			m.accts = append(m.accts, t.a1)
		case "appl":
			ap := t.ap
			m.accts = append(m.accts, ap.accounts...)
			m.assets = append(m.assets, ap.fassets...)
			m.apps = append(m.apps, ap.fapps...)
			if ap.id != 0 {
				m.apps = append(m.apps, ap.id)
				m.accts = append(m.accts, 1000+ap.id)
			}
			for _, f := range ap.fapps {
				m.accts = append(m.accts, 1000+f)
			}
			for _, rr := range ap.access {
				switch rr.kind {
				case 'd':
					m.accts = append(m.accts, rr.a)
				case 's':
					m.assets = append(m.assets, rr.a)
				case 'p':
					m.apps = append(m.apps, rr.a)
				}
			}
		}
	}
	// what was created earlier in the group gets extra weight (the created-asset / created-app rules)
	for w := 0; w < 3; w++ {
		for _, cr := range c.creates {
			m.apps = append(m.apps, cr.id)
			m.accts = append(m.accts, 1000+cr.id)
		}
		m.assets = append(m.assets, c.asas...)
	}
	m.apps = append(m.apps, c.appid)
	m.accts = append(m.accts, 1000+c.appid)
	return m
}

func vC35PushAddr(code uint64) string {
	a := vC35Addr(code)
	return "byte 0x" + hex.EncodeToString(a[:])
}

func vC35TargetAcct(r *vRand, m vC35Mentioned) uint64 {
	if r.Intn(5) < 3 && len(m.accts) > 0 {
		return m.accts[r.Intn(len(m.accts))]
	}
	return vC35AcctCode(r)
}
func vC35TargetAsset(r *vRand, m vC35Mentioned) uint64 {
	switch {
	case r.Intn(5) < 3 && len(m.assets) > 0:
		return m.assets[r.Intn(len(m.assets))]
	case r.Intn(6) == 0:
		return uint64(r.Intn(4)) // slot (or id 0)
	}
	return vC35AssetID(r)
}
func vC35TargetApp(r *vRand, m vC35Mentioned) uint64 {
	switch {
	case r.Intn(5) < 3 && len(m.apps) > 0:
		return m.apps[r.Intn(len(m.apps))]
	case r.Intn(6) == 0:
		return uint64(r.Intn(4)) // slot or 0 = current app
	}
	return vC35AppID(r)
}

// an account reference: by address or by index
func vC35ARef(r *vRand, m vC35Mentioned) (interface{}, string) {
	if r.Intn(4) == 0 {
		i := uint64(r.Intn(5))
		return vL(vSym("i"), i), fmt.Sprintf("int %d", i)
	}
	a := vC35TargetAcct(r, m)
	return vL(vSym("a"), a), vC35PushAddr(a)
}

func vC35GenProbe(r *vRand, c *vC35Case) bool {
	m := vC35Mentions(c)
	v := c.version
	for tries := 0; tries < 20; tries++ {
		switch r.Intn(14) {
		case 0, 1:
			ref, push := vC35ARef(r, m)
			ops := []string{"balance", "min_balance"}
			if v >= 6 {
				ops = append(ops, "acct_params_get AcctBalance; pop")
			}
			c.kind = "acct"
			c.probe = vL(vSym("one"), vL(vSym("acct"), ref))
			c.src = push + "; " + ops[r.Intn(len(ops))] + "; pop; int 1"
			return true
		case 2:
			n := vC35TargetAsset(r, m)
			c.kind = "aparams"
			c.probe = vL(vSym("one"), vL(vSym("aparams"), n))
			c.src = fmt.Sprintf("int %d; asset_params_get AssetTotal; pop; pop; int 1", n)
			return true
		case 3:
			n := vC35TargetApp(r, m)
			c.kind = "pparams"
			c.probe = vL(vSym("one"), vL(vSym("pparams"), n))
			if r.Bool() {
				c.src = fmt.Sprintf("int %d; app_params_get AppCreator; pop; pop; int 1", n)
			} else {
				c.src = fmt.Sprintf("int %d; byte \"k\"; app_global_get_ex; pop; pop; int 1", n)
			}
			return true
		case 4, 5:
			ref, push := vC35ARef(r, m)
			n := vC35TargetAsset(r, m)
			c.kind = "hold"
			c.probe = vL(vSym("one"), vL(vSym("hold"), ref, n))
			c.src = fmt.Sprintf("%s; int %d; asset_holding_get AssetBalance; pop; pop; int 1", push, n)
			return true
		case 6, 7:
			ref, push := vC35ARef(r, m)
			n := vC35TargetApp(r, m)
			c.kind = "loc"
			c.probe = vL(vSym("one"), vL(vSym("loc"), ref, n))
			if r.Bool() {
				c.src = fmt.Sprintf("%s; int %d; byte \"k\"; app_local_get_ex; pop; pop; int 1", push, n)
			} else {
				c.src = fmt.Sprintf("%s; int %d; app_opted_in; pop; int 1", push, n)
			}
			return true
		case 8:
			ref, push := vC35ARef(r, m)
			c.kind = "locmut"
			c.probe = vL(vSym("one"), vL(vSym("locmut"), ref))
			if r.Bool() {
				c.src = push + "; byte \"k\"; int 7; app_local_put; int 1"
			} else {
				c.src = push + "; byte \"k\"; app_local_del; int 1"
			}
			return true
		case 9:
			switch r.Intn(3) {
			case 0:
				a := vC35TargetAcct(r, m)
				f := []string{"Receiver", "CloseRemainderTo", "AssetReceiver", "AssetSender", "AssetCloseTo", "FreezeAssetAccount", "Sender"}
				if v >= 6 {
					f = append(f, "Accounts")
				}
				c.kind = "iacct"
				c.probe = vL(vSym("one"), vL(vSym("iacct"), a))
				c.src = "itxn_begin; " + vC35PushAddr(a) + "; itxn_field " + f[r.Intn(len(f))] + "; int 1"
			case 1:
				n := vC35TargetAsset(r, m)
				f := []string{"XferAsset", "ConfigAsset", "FreezeAsset"}
				if v >= 6 {
					f = append(f, "Assets")
				}
				c.kind = "iasset"
				c.probe = vL(vSym("one"), vL(vSym("iasset"), n))
				c.src = fmt.Sprintf("itxn_begin; int %d; itxn_field %s; int 1", n, f[r.Intn(len(f))])
			case 2:
				if v < 6 {
					continue
				}
				n := vC35TargetApp(r, m)
				c.kind = "iapp"
				c.probe = vL(vSym("one"), vL(vSym("iapp"), n))
				c.src = fmt.Sprintf("itxn_begin; int %d; itxn_field %s; int 1", n, []string{"ApplicationID", "Applications"}[r.Intn(2)])
			}
			return true
		case 10, 11:
			var sb strings.Builder
			sb.WriteString("itxn_begin; ")
			optA := func() uint64 {
				if r.Intn(3) == 0 {
					return vC35TargetAcct(r, m)
				}
				return 0
			}
			setA := func(f string, a uint64, always bool) {
				if a != 0 || always {
					sb.WriteString(vC35PushAddr(a) + "; itxn_field " + f + "; ")
				}
			}
			var it interface{}
			cv := uint64(0)
			switch r.Intn(6) {
			case 0:
				rcv, cl := vC35TargetAcct(r, m), optA()
				if cl == 1000+c.appid {
					cl = 0 // WellFormed (before cx.allows): "cannot close account to its sender"
				}
				sb.WriteString("int pay; itxn_field TypeEnum; ")
				setA("Receiver", rcv, true)
				setA("CloseRemainderTo", cl, false)
				it = vL(vSym("pay"), rcv, cl)
			case 1, 2:
				id, rcv, as, cl := vC35TargetAsset(r, m), vC35TargetAcct(r, m), optA(), optA()
				if as != 0 {
					cl = 0 // WellFormed (before cx.allows): "cannot close asset by clawback"
				}
				sb.WriteString(fmt.Sprintf("int axfer; itxn_field TypeEnum; int %d; itxn_field XferAsset; ", id))
				setA("AssetReceiver", rcv, true)
				setA("AssetSender", as, false)
				setA("AssetCloseTo", cl, false)
				it = vL(vSym("axfer"), id, rcv, as, cl)
			case 3:
				id := vC35TargetAsset(r, m)
				sb.WriteString(fmt.Sprintf("int acfg; itxn_field TypeEnum; int %d; itxn_field ConfigAsset; ", id))
				it = vL(vSym("acfg"), id)
			case 4:
				id, a := vC35TargetAsset(r, m), vC35TargetAcct(r, m)
				if a == 0 {
					a = 1 // WellFormed (before cx.allows): "freeze account cannot be empty"
				}
				if id == 0 {
					id = 401 // WellFormed: "asset ID cannot be zero"
				}
				sb.WriteString(fmt.Sprintf("int afrz; itxn_field TypeEnum; int %d; itxn_field FreezeAsset; ", id))
				setA("FreezeAssetAccount", a, true)
				it = vL(vSym("afrz"), id, a)
			case 5:
				if v < 6 {
					continue
				}
				// callee: an existing app other than the caller (self-calls are rejected before cx.allows)
				var cand []uint64
				for _, id := range vC35Apps[:4] {
					if id != c.appid {
						cand = append(cand, id)
					}
				}
				id := vC35Pick(r, cand)
				if r.Intn(6) == 0 {
					id = vC35TargetApp(r, m)
					if id == c.appid || vC35AppVer[id] == 0 {
						continue
					}
				}
				cv = vC35AppVer[id]
				var accts, fassets, fapps []uint64
				sb.WriteString(fmt.Sprintf("int appl; itxn_field TypeEnum; int %d; itxn_field ApplicationID; ", id))
				for i, n := 0, r.Intn(3); i < n; i++ {
					a := vC35TargetAcct(r, m)
					accts = append(accts, a)
					setA("Accounts", a, true)
				}
				for i, n := 0, r.Intn(3); i < n; i++ {
					a := vC35TargetAsset(r, m)
					fassets = append(fassets, a)
					sb.WriteString(fmt.Sprintf("int %d; itxn_field Assets; ", a))
				}
				for i, n := 0, r.Intn(3); i < n; i++ {
					a := vC35TargetApp(r, m)
					fapps = append(fapps, a)
					sb.WriteString(fmt.Sprintf("int %d; itxn_field Applications; ", a))
				}
				it = vL(vSym("appl"), id, vC35U64s(accts), vC35U64s(fassets), vC35U64s(fapps))
			}
			sb.WriteString("itxn_submit; int 1")
			c.kind = "isub"
			c.isSub = true
			c.probe = vL(vSym("one"), vL(vSym("isub"), it, cv))
			c.src = sb.String()
			return true
		default:
			if v < 8 {
				continue
			}
			n := 1 + r.Intn(3)
			ops := []interface{}{vSym("box")}
			var sb strings.Builder
			for i := 0; i < n; i++ {
				name := vC35Names[r.Intn(3)]
				size := []uint64{0, 24, 60, 100, 101, 150, 200, 250, 1000}[r.Intn(9)]
				app := uint64(0)
				if v >= 13 && r.Intn(3) == 0 {
					app = vC35TargetApp(r, m)
					if app < 256 && r.Intn(4) != 0 {
						app = c.appid
					}
					if _, exists := vC35AppVer[app]; !exists && (app < 601 || app > 604) {
						app = c.appid // authorizeBoxAccess looks the owner up: keep to apps of the ledger
					}
				}
				if len(m.boxes) > 0 && r.Intn(3) > 0 {
					// aim at a box some transaction names
					k := m.boxes[r.Intn(len(m.boxes))]
					for tries := 0; tries < 4 && v < 13 && k.app != c.appid; tries++ {
						k = m.boxes[r.Intn(len(m.boxes))]
					}
					name = k.name
					if k.app == c.appid && r.Intn(3) > 0 {
						app = 0
					} else if v >= 13 {
						app = k.app
					}
				}
				pre := ""
				opn := "box_"
				if app != 0 {
					pre = fmt.Sprintf("int %d; ", app)
					opn = "app_box_"
				}
				switch r.Intn(4) {
				case 0, 1:
					ops = append(ops, vL(vSym("create"), app, name, size))
					sb.WriteString(fmt.Sprintf("%sbyte 0x%x; int %d; %screate; pop; ", pre, name, size, opn))
				case 2:
					ops = append(ops, vL(vSym("read"), app, name, 0))
					sb.WriteString(fmt.Sprintf("%sbyte 0x%x; %slen; pop; pop; ", pre, name, opn))
				case 3:
					ops = append(ops, vL(vSym("del"), app, name, 0))
					sb.WriteString(fmt.Sprintf("%sbyte 0x%x; %sdel; pop; ", pre, name, opn))
				}
				sb.WriteString("byte \"x\"; log; ")
			}
			sb.WriteString("int 1")
			c.kind = "box"
			c.nops = n
			c.probe = ops
			c.src = sb.String()
			return true
		}
	}
	return false
}

func vC35GenCase(r *vRand) *vC35Case {
	c := &vC35Case{}
	c.version = uint64(5 + r.Intn(int(LogicVersion)-4))
	c.forbidLow = r.Intn(4) == 0
	c.policy = r.Intn(12) == 0
	access := c.version >= sharedResourcesVersion && r.Intn(2) == 0
	if c.version < sharedResourcesVersion && r.Intn(15) == 0 {
		access = true
	}
	n := 1 + r.Intn(4)
	for i := 0; i < n; i++ {
		c.group = append(c.group, vC35GenTxn(r, access))
	}
	c.gi = r.Intn(n)
	probeTx := vC35GenTxn(r, access)
	for probeTx.typ != "appl" {
		probeTx = vC35GenTxn(r, access)
	}
	c.group[c.gi] = probeTx
	vC35SetCreates(c)
	if !vC35GenProbe(r, c) {
		return nil
	}
	return c
}


// creations before the probing call, the id of the probing app
func vC35SetCreates(c *vC35Case) {
	newApps, newAsas := 0, 0
	for i := 0; i < c.gi; i++ {
		t := c.group[i]
		if t.typ == "appl" && t.ap.id == 0 {
			c.creates = append(c.creates, vC35Create{gi: uint64(i), id: vC35NewApps[newApps]})
			newApps++
		}
		if t.typ == "acfg" && t.asset == 0 {
			c.asas = append(c.asas, vC35NewAsas[newAsas])
			c.asaAt = append(c.asaAt, i)
			newAsas++
		}
	}
	c.appid = c.group[c.gi].ap.id
	if c.appid == 0 {
		c.appid = vC35NewApps[newApps]
	}
}

// The creation-time rule of EvalContract: while an app is being CREATED, its own boxes are available
// only through references with Index 0 and a non-empty name (tx.Boxes or tx.Access); a reference
// with Index >= 1 names a box of the foreign app / tx.Access app element it points at, never a box of
// the new app.  One scenario = a creating call mixing app references and box references of both
// kinds (plus empty references = quota); one case per box name that appears anywhere in the group
// (and one that does not), each probing the NEW app's own box of that name.
func vC35GenCreateBoxCases(r *vRand) []*vC35Case {
	base := &vC35Case{}
	base.version = uint64(8 + r.Intn(int(LogicVersion)-7))
	base.forbidLow = r.Intn(6) == 0
	access := base.version >= sharedResourcesVersion && r.Intn(3) > 0
	ap := &vC35Appl{}
	names := [][]byte{[]byte("a"), []byte("b"), []byte("cc")}
	pickName := func() []byte {
		if r.Intn(6) == 0 {
			return nil
		}
		return names[r.Intn(len(names))]
	}
	if access {
		ap.useAccess = true
		var apps []uint64
		for i, n := 0, 1+r.Intn(3); i < n; i++ {
			switch r.Intn(5) {
			case 0:
				ap.access = append(ap.access, vC35Ref{kind: 'd', a: vC35PlainAcct(r)})
			case 1:
				ap.access = append(ap.access, vC35Ref{kind: 's', a: vC35AssetID(r)})
			default:
				ap.access = append(ap.access, vC35Ref{kind: 'p', a: vC35AppID(r)})
				apps = append(apps, uint64(len(ap.access)))
			}
		}
		for i, n := 0, 1+r.Intn(4); i < n; i++ {
			idx := uint64(0)
			if len(apps) > 0 && r.Intn(2) == 0 {
				idx = apps[r.Intn(len(apps))]
			}
			nm := pickName()
			if idx == 0 && nm == nil {
				ap.access = append(ap.access, vC35Ref{kind: 'e'})
			} else {
				ap.access = append(ap.access, vC35Ref{kind: 'b', a: idx, name: nm})
			}
		}
	} else {
		for i, n := 0, 1+r.Intn(3); i < n; i++ {
			ap.fapps = append(ap.fapps, vC35AppID(r))
		}
		for i, n := 0, 1+r.Intn(2); i < n; i++ { // MaxAppBoxReferences is not enforced here (no WellFormed)
			ap.boxes = append(ap.boxes, vC35Box{idx: uint64(r.Intn(len(ap.fapps) + 1)), name: pickName()})
		}
		if r.Intn(2) == 0 {
			ap.boxes = append(ap.boxes, vC35Box{idx: uint64(1 + r.Intn(len(ap.fapps))), name: names[r.Intn(len(names))]})
		}
	}
	n := 1 + r.Intn(3)
	for i := 0; i < n; i++ {
		base.group = append(base.group, vC35GenTxn(r, access))
	}
	base.gi = r.Intn(n)
	base.group[base.gi] = &vC35Txn{typ: "appl", snd: vC35PlainAcct(r), ap: ap}
	vC35SetCreates(base)
	// every box name of any reference of the group, and one nobody names
	seen := map[string]bool{}
	var probeNames [][]byte
	add := func(nm []byte) {
		if len(nm) > 0 && !seen[string(nm)] {
			seen[string(nm)] = true
			probeNames = append(probeNames, nm)
		}
	}
	for _, t := range base.group {
		if t.typ == "appl" {
			for _, b := range t.ap.boxes {
				add(b.name)
			}
			for _, rr := range t.ap.access {
				if rr.kind == 'b' {
					add(rr.name)
				}
			}
		}
	}
	add([]byte("zz"))
	var out []*vC35Case
	for _, nm := range probeNames {
		c := *base
		var sb strings.Builder
		ops := []interface{}{vSym("box")}
		switch r.Intn(3) {
		case 0:
			ops = append(ops, vL(vSym("create"), uint64(0), nm, uint64(24)))
			sb.WriteString(fmt.Sprintf("byte 0x%x; int 24; box_create; pop; ", nm))
		case 1:
			ops = append(ops, vL(vSym("read"), uint64(0), nm, 0))
			sb.WriteString(fmt.Sprintf("byte 0x%x; box_len; pop; pop; ", nm))
		case 2:
			ops = append(ops, vL(vSym("del"), uint64(0), nm, 0))
			sb.WriteString(fmt.Sprintf("byte 0x%x; box_del; pop; ", nm))
		}
		sb.WriteString("byte \"x\"; log; int 1")
		c.kind = "box"
		c.nops = 1
		c.probe = ops
		c.src = sb.String()
		out = append(out, &c)
	}
	return out
}

// ---------------------------------------------------------------- running a case on the real evaluator
var vC35ProgCache = map[string][]byte{}

func vC35Assemble(t *testing.T, src string, v uint64) []byte {
	key := fmt.Sprintf("%d|%s", v, src)
	if p, ok := vC35ProgCache[key]; ok {
		return p
	}
	ops, err := AssembleStringWithVersion(strings.ReplaceAll(src, "; ", "\n"), v)
	if err != nil {
		t.Fatalf("assemble v%d %q: %v", v, src, err)
	}
	if len(vC35ProgCache) > 5000 {
		vC35ProgCache = map[string][]byte{}
	}
	vC35ProgCache[key] = ops.Program
	return ops.Program
}

func vC35NewLedger(t *testing.T) *Ledger {
	l := NewLedger(nil)
	creator := vC35Addr(1)
	var accts []basics.Address
	for k := uint64(0); k <= vC35NAcct; k++ {
		accts = append(accts, vC35Addr(k))
	}
	var apps []uint64
	apps = append(apps, vC35Apps...)
	apps = append(apps, vC35NewApps...)
	for _, id := range apps {
		accts = append(accts, vC35Addr(1000+id))
	}
	for _, a := range accts {
		l.NewAccount(a, 1_000_000_000)
	}
	var assets []uint64
	assets = append(assets, vC35Assets...)
	assets = append(assets, vC35NewAsas...)
	for _, id := range assets {
		l.NewAsset(creator, basics.AssetIndex(id), basics.AssetParams{Total: 1 << 40, Manager: creator, Freeze: creator, Clawback: creator, Reserve: creator})
		for _, a := range accts {
			l.NewHolding(a, basics.AssetIndex(id), 1000, false)
		}
	}
	for _, id := range apps {
		v := vC35AppVer[id]
		if v == 0 {
			v = LogicVersion
		}
		prog := vC35Assemble(t, "int 1", v)
		params := basics.AppParams{ApprovalProgram: prog, ClearStateProgram: prog, ForeignBoxReads: true}
		params.LocalStateSchema = basics.StateSchema{NumUint: 8, NumByteSlice: 8}
		params.GlobalStateSchema = basics.StateSchema{NumUint: 8, NumByteSlice: 8}
		l.NewApp(creator, basics.AppIndex(id), params)
		for _, a := range accts {
			l.NewLocals(a, basics.AppIndex(id))
		}
	}
	return l
}

var vC35Patterns = []struct {
	s   string
	cls int
}{
	{"invalid Account reference for mutation", 7},
	{"unavailable Account", 1},
	{"unavailable Asset", 2},
	{"unavailable App", 3},
	{"unavailable Holding", 4},
	{"unavailable Local State", 5},
	{"invalid Account reference", 6},
	{"is not an Address in tx.Access", 6},
	{"low App lookup", 8},
	{"low Asset lookup", 8},
	{"invalid Box reference", 9},
	{"boxes may not be accessed from ClearState program", 10},
	{"write budget exceeded", 11},
	{" box of ", 12},
	{"pre-sharedResources program cannot be invoked with tx.Access", 13},
	{"box size mismatch", 14},
}

// class = the availability message that comes first in the error text
func vC35Class(err error) int {
	if err == nil {
		return 0
	}
	m := err.Error()
	best, cls := -1, 99
	for _, p := range vC35Patterns {
		if i := strings.Index(m, p.s); i >= 0 && (best < 0 || i < best) {
			best, cls = i, p.cls
		}
	}
	return cls
}

type vC35Obs struct {
	err     error
	cls     []int
	touches []string
	note    string
}

func vC35Run(t *testing.T, c *vC35Case) (obs vC35Obs, ok bool) {
	proto := makeTestProto(func(p *config.ConsensusParams) {
		p.AppForbidLowResources = c.forbidLow
		p.MaxAppAccess = 16
		p.MaxAppTxnAccounts = 4
		p.MaxAppTotalTxnReferences = 8
	})
	var txns []transactions.SignedTxn
	for _, tx := range c.group {
		txns = append(txns, tx.toGo())
	}
	ledger := vC35NewLedger(t)
	wl := &vC35Ledger{l: ledger, codes: vC35NewCodes(), seen: map[string]bool{}}
	ep := NewAppEvalParams(transactions.WrapSignedTxnsWithAD(txns), proto, &transactions.SpecialAddresses{})
	ep.Ledger = wl
	ep.SigLedger = ledger
	ep.Tracer = &vC35Tracer{led: wl, gi: c.gi}
	if c.policy {
		ep.UnnamedResources = &mockUnnamedResourcePolicy{allowEverything: true}
	}
	// what happened earlier in the group, through the real code paths
	one := vC35Assemble(t, "int 1", LogicVersion)
	ci, ai := 0, 0
	for i := 0; i < c.gi; i++ {
		tx := c.group[i]
		if tx.typ == "appl" && tx.ap.id == 0 {
			pass, _, err := EvalContract(one, i, basics.AppIndex(c.creates[ci].id), ep)
			if err != nil || !pass {
				return obs, false // e.g. ClearState creation; not a case
			}
			ci++
		}
		if tx.typ == "acfg" && tx.asset == 0 {
			ep.RecordAD(i, transactions.ApplyData{ConfigAsset: basics.AssetIndex(c.asas[ai])})
			ai++
		}
	}
	prog := vC35Assemble(t, c.src, c.version)
	pass, cx, err := EvalContract(prog, c.gi, basics.AppIndex(c.appid), ep)
	wl.on = false
	obs.err = err
	cls := vC35Class(err)
	if err == nil && !pass {
		cls = 98
	}
	if c.kind == "box" {
		done := 0
		if cx != nil {
			done = len(cx.txn.EvalDelta.Logs)
		}
		for i := 0; i < done; i++ {
			obs.cls = append(obs.cls, 0)
		}
		if err != nil || !pass {
			obs.cls = append(obs.cls, cls)
		}
	} else {
		if c.isSub && cls == 99 && strings.Contains(err.Error(), "inner tx 0 failed: ") {
			// the inner transaction got past cx.allows and failed in Ledger.Perform (test-ledger execution)
			obs.note = "later"
			cls = 0
		}
		obs.cls = []int{cls}
	}
	if cls == 99 || cls == 98 {
		obs.note = fmt.Sprintf("%v", err)
	}
	sort.Strings(wl.list)
	obs.touches = wl.list
	return obs, true
}

func vC35Line(c *vC35Case, obs vC35Obs) string {
	g := make([]interface{}, len(c.group))
	for i, tx := range c.group {
		g[i] = tx.term()
	}
	crs := make([]interface{}, len(c.creates))
	for i, cr := range c.creates {
		crs[i] = vL(cr.gi, cr.id)
	}
	cls := make([]interface{}, len(obs.cls))
	for i, x := range obs.cls {
		cls[i] = x
	}
	head := vT(vSym("c35"), c.version, c.forbidLow, c.policy, g, c.gi, c.appid, crs, vC35U64s(c.asas), uint64(100), c.probe)
	// splice the raw touch terms in
	var sb bytes.Buffer
	sb.WriteString(head[:len(head)-1])
	sb.WriteString(" (")
	sb.WriteString(vT(cls...))
	sb.WriteString(" (")
	sb.WriteString(strings.Join(obs.touches, " "))
	sb.WriteString(")))")
	return sb.String()
}

// the recorded deviation (KNOWN_FINDINGS c35_zero_value_via_access), replayed on the real code:
// a v9+ call whose tx.Access holds one element that is not an address reads the zero address
func vC35ZeroWitness() *vC35Case {
	ap := &vC35Appl{id: 501, useAccess: true, access: []vC35Ref{{kind: 's', a: 401}}}
	c := &vC35Case{version: 12, group: []*vC35Txn{{typ: "appl", snd: 1, ap: ap}}, gi: 0, appid: 501, kind: "acct"}
	c.probe = vL(vSym("one"), vL(vSym("acct"), vL(vSym("a"), uint64(0))))
	c.src = vC35PushAddr(0) + "; balance; pop; int 1"
	return c
}

func TestVerifC35(t *testing.T) {
	out := vOpen("cases_c35.txt")
	defer out.Close()
	rnd := vNewRand(35)
	n := vEnvInt("VERIF_C35_N", 3000)
	stats := map[string]int{}
	byClass := map[string]int{}
	byVersion := map[string]int{}
	dbg := vEnvInt("VERIF_C35_DEBUG", -1)
	emit := func(c *vC35Case) {
		obs, ok := vC35Run(t, c)
		if ok && out.n+1 == dbg {
			t.Logf("DEBUG case %d: %s\n  src=%s\n  note=%s err=%v", dbg, vC35Line(c, obs), c.src, obs.note, obs.err)
		}
		if !ok {
			stats["skipped_earlier_create_failed"]++
			return
		}
		out.Line(vC35Line(c, obs))
		stats["kind_"+c.kind]++
		byVersion[fmt.Sprintf("v%d", c.version)]++
		last := obs.cls[len(obs.cls)-1]
		byClass[fmt.Sprintf("%s_%d", c.kind, last)]++
		if obs.note == "later" {
			stats["isub_failed_after_allows"]++
		} else if obs.note != "" {
			stats["other_error"]++
			if stats["other_error"] <= 5 {
				t.Logf("unclassified outcome: %s\n  src=%s\n  err=%s", vC35Line(c, obs), c.src, obs.note)
			}
		}
		if len(c.creates) > 0 {
			stats["with_created_apps"]++
		}
		if len(c.asas) > 0 {
			stats["with_created_asas"]++
		}
		if c.policy {
			stats["with_policy"]++
		}
		if c.group[c.gi].ap.useAccess {
			stats["probe_uses_access"]++
		}
		if c.group[c.gi].ap.id == 0 {
			stats["probe_is_create"]++
		}
		stats["group_size_"+fmt.Sprint(len(c.group))]++
	}
	emit(vC35ZeroWitness())
	for i := 0; i < n; i++ {
		if i%12 == 5 {
			for _, c := range vC35GenCreateBoxCases(rnd) {
				stats["creation_box_rule_cases"]++
				emit(c)
			}
			continue
		}
		c := vC35GenCase(rnd)
		if c == nil {
			continue
		}
		emit(c)
	}
	vStats(map[string]interface{}{"counts": stats, "by_kind_class": byClass, "by_version": byVersion, "cases": out.n})
	if out.n == 0 {
		t.Fatal("no cases")
	}
}
