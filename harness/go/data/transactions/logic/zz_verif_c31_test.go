//go:build verif

package logic

// C31 harness: random, structured-random and mutated bytecode for every version
// 0..LogicVersion (and beyond), both modes, random LogicSig args, several budget
// configurations, on a populated mock ledger, through the real EvalSignatureFull /
// EvalContract.  The package's Tracer hooks observe every instruction of the top-level
// program: pc, remainingBudget(), cx.cost, callstack, stack height and the top stack values
// before and after, the error step() returned; plus run-wide extremes (stack depth, byte
// length, remaining budget).  Case format: coq/model/AvmC31Check.v.

import (
	"encoding/binary"
	"fmt"
	"sort"
	"testing"

	"github.com/algorand/go-algorand/config"
	"github.com/algorand/go-algorand/data/transactions"
)

const vTopK = 10

type vFuzzTracer struct {
	NullEvalTracer
	maxRec   int
	steps    []interface{}
	nsteps   int
	maxdepth int
	maxlen   int
	minrem   int
	panicked bool
	// pending "before" observation
	pend  bool
	pc    int
	rem   int
	cost  int
	calls []interface{}
	h     int
	top   []interface{}
}

func (t *vFuzzTracer) BeforeOpcode(cx *EvalContext) {
	if cx.caller != nil {
		return
	}
	t.nsteps++
	t.pend = true
	t.pc = cx.pc
	t.rem = cx.remainingBudget()
	if t.rem < t.minrem {
		t.minrem = t.rem
	}
	t.cost = cx.cost
	if t.nsteps <= t.maxRec {
		t.calls = vCalls(cx)
		t.h = len(cx.Stack)
		t.top = vStackTerm(cx.Stack, vTopK)
	}
}

func (t *vFuzzTracer) AfterOpcode(cx *EvalContext, err error) {
	if cx.caller != nil || !t.pend {
		return
	}
	t.pend = false
	cls := vStepClass(err)
	if cls == 22 {
		t.panicked = true
	}
	rem := cx.remainingBudget()
	if rem < t.minrem {
		t.minrem = rem
	}
	if err == nil {
		if len(cx.Stack) > t.maxdepth {
			t.maxdepth = len(cx.Stack)
		}
		for i := range cx.Stack {
			if n := len(cx.Stack[i].Bytes); n > t.maxlen {
				t.maxlen = n
			}
		}
	}
	pcAfter := cx.pc
	if pcAfter < 0 { // a negative program counter is an internal crash in the making: report it as one
		t.panicked = true
		cls = 22
		pcAfter = 0
	}
	if t.nsteps <= t.maxRec {
		t.steps = append(t.steps, vL(t.pc, t.rem, t.cost, t.calls, t.h, t.top,
			cls, pcAfter, rem, cx.cost, vCalls(cx), len(cx.Stack), vStackTerm(cx.Stack, vTopK)))
	}
}

// ---------------------------------------------------------------- program generators
func vAvail(v uint64) []*OpSpec {
	var out []*OpSpec
	if v > LogicVersion {
		v = LogicVersion
	}
	for i := range opsByOpcode[v] {
		e := &opsByOpcode[v][i]
		if e.op != nil {
			out = append(out, e)
		}
		for j := range e.SubOps {
			if e.SubOps[j].op != nil {
				out = append(out, &e.SubOps[j])
			}
		}
	}
	return out
}

func vSmallOff(r *vRand) int {
	offs := []int{0, 0, 0, 1, 2, 3, 5, -1, -3, -4, -6, -9, 12, 40}
	return offs[r.Intn(len(offs))]
}

func vRandBytes(r *vRand) []byte {
	lens := []int{0, 1, 2, 4, 8, 31, 32, 33, 64, 65, 80, 200}
	n := lens[r.Intn(len(lens))]
	if r.Intn(4) == 0 {
		n = r.Intn(40)
	}
	return r.Bytes(n)
}

func vEmitImms(r *vRand, spec *OpSpec, prog []byte) []byte {
	for _, im := range spec.Immediates {
		switch im.kind {
		case immByte:
			switch {
			case im.Group != nil && r.Intn(10) != 0:
				prog = append(prog, byte(r.Intn(len(im.Group.Names)+1)))
			case r.Intn(10) == 0:
				prog = append(prog, byte(r.U64()))
			default:
				prog = append(prog, byte(r.Intn(5)))
			}
		case immInt8:
			prog = append(prog, byte(int8(r.Intn(7)-3)))
		case immLabel:
			var b [2]byte
			binary.BigEndian.PutUint16(b[:], uint16(int16(vSmallOff(r))))
			prog = append(prog, b[:]...)
		case immVarintLabel:
			prog = append(prog, vVarint(int64(vSmallOff(r)))...)
		case immLabels:
			n := r.Intn(4)
			prog = append(prog, byte(n))
			for i := 0; i < n; i++ {
				var b [2]byte
				binary.BigEndian.PutUint16(b[:], uint16(int16(vSmallOff(r))))
				prog = append(prog, b[:]...)
			}
		case immInt:
			prog = append(prog, vUvarint(r.Edge64())...)
		case immBytes:
			b := vRandBytes(r)
			prog = append(prog, vUvarint(uint64(len(b)))...)
			prog = append(prog, b...)
		case immInts:
			n := r.Intn(4)
			prog = append(prog, byte(n))
			for i := 0; i < n; i++ {
				prog = append(prog, vUvarint(r.Edge64())...)
			}
		case immBytess:
			n := r.Intn(4)
			prog = append(prog, byte(n))
			for i := 0; i < n; i++ {
				b := vRandBytes(r)
				prog = append(prog, vUvarint(uint64(len(b)))...)
				prog = append(prog, b...)
			}
		}
	}
	return prog
}

func vPushArg(r *vRand, v uint64, st StackType, prog []byte) []byte {
	t := st.AVMType
	wantBytes := t == avmBytes || (t == avmAny && r.Bool())
	if wantBytes {
		if v >= 3 && t == avmBytes && st.Bound[0] > 0 && st.Bound[0] == st.Bound[1] && st.Bound[0] <= 2000 && r.Intn(10) < 7 {
			// the declared fixed length (e.g. 32-byte keys, 64-byte signatures)
			b := r.Bytes(int(st.Bound[0]))
			prog = append(prog, 0x80)
			prog = append(prog, vUvarint(uint64(len(b)))...)
			return append(prog, b...)
		}
		if v >= 3 && r.Bool() {
			b := vRandBytes(r)
			prog = append(prog, 0x80)
			prog = append(prog, vUvarint(uint64(len(b)))...)
			return append(prog, b...)
		}
		return append(prog, 0x28+byte(r.Intn(4))) // bytec_k
	}
	if v >= 3 && r.Bool() {
		prog = append(prog, 0x81)
		x := r.Edge64()
		if r.Bool() {
			x = uint64(r.Intn(70))
		}
		return append(prog, vUvarint(x)...)
	}
	return append(prog, 0x22+byte(r.Intn(4))) // intc_k
}

func vGenStructured(r *vRand, v uint64) []byte {
	prog := vUvarint(v)
	ints := []uint64{0, 1, uint64(r.Intn(70)), r.Edge64()}
	prog = append(prog, 0x20, 4)
	for _, i := range ints {
		prog = append(prog, vUvarint(i)...)
	}
	prog = append(prog, 0x26, 4)
	for i := 0; i < 4; i++ {
		b := vRandBytes(r)
		if i == 0 {
			b = nil
		}
		prog = append(prog, vUvarint(uint64(len(b)))...)
		prog = append(prog, b...)
	}
	avail := vAvail(v)
	if len(avail) == 0 {
		return prog
	}
	// a few canned shapes that drive the frame to its limits
	switch r.Intn(40) {
	case 0: // byte string doubling beyond maxStringSize
		prog = append(prog, 0x81)
		prog = append(prog, vUvarint(uint64(2040+r.Intn(20)))...)
		prog = append(prog, 0xaf, 0x49, 0x50, 0x49, 0x50) // bzero; dup; concat; dup; concat
	case 1: // stack growth in a loop
		if v >= varintBranchVersion {
			prog = append(prog, 0x23, 0x42)
			prog = append(prog, vVarint(-1)...)
		} else {
			prog = append(prog, 0x23, 0x42, 0xff, 0xfc) // l: intc_1; b l
		}
	case 2: // dupn towards the depth limit
		for i := 0; i < 5; i++ {
			prog = append(prog, 0x23, 0x47, 250)
		}
	case 3: // unbounded recursion
		if v >= varintBranchVersion {
			prog = append(prog, 0x88)
			prog = append(prog, vVarint(-1)...)
		} else {
			prog = append(prog, 0x88, 0xff, 0xfd)
		}
	}
	n := 1 + r.Intn(22)
	for i := 0; i < n; i++ {
		spec := avail[r.Intn(len(avail))]
		if spec.Name == "err" && r.Intn(4) != 0 {
			continue
		}
		if r.Intn(4) != 0 {
			for _, st := range spec.Arg.Types {
				prog = vPushArg(r, v, st, prog)
			}
		}
		prog = append(prog, spec.Opcode)
		if spec.SubOpcode != 0 {
			prog = append(prog, spec.SubOpcode)
		}
		prog = vEmitImms(r, spec, prog)
	}
	if r.Bool() {
		prog = append(prog, 0x23)
	}
	return prog
}

func vMutate(r *vRand, prog []byte) []byte {
	out := append([]byte{}, prog...)
	k := 1 + r.Intn(3)
	for i := 0; i < k && len(out) > 1; i++ {
		switch r.Intn(4) {
		case 0:
			out[r.Intn(len(out))] = byte(r.U64())
		case 1:
			out[r.Intn(len(out))] ^= 1 << uint(r.Intn(8))
		case 2:
			p := r.Intn(len(out))
			out = append(out[:p], append([]byte{byte(r.U64())}, out[p:]...)...)
		case 3:
			out = out[:1+r.Intn(len(out))]
		}
	}
	return out
}

func vGenProgram(r *vRand) []byte {
	versions := []uint64{0, 1, 2, 3, 4, 5, 6, 7, 8, 9, 10, 11, 12, 13, 14}
	v := versions[r.Intn(len(versions))]
	c := r.Intn(100)
	switch {
	case c < 55:
		return vGenStructured(r, v)
	case c < 85:
		return vMutate(r, vGenStructured(r, v))
	case c < 95: // valid opcode bytes of the version, random immediates
		prog := vUvarint(v)
		avail := vAvail(v)
		n := r.Intn(40)
		for i := 0; i < n && len(avail) > 0; i++ {
			if r.Intn(3) == 0 {
				prog = append(prog, byte(r.U64()))
			} else {
				prog = append(prog, avail[r.Intn(len(avail))].Opcode)
			}
		}
		return prog
	case c < 98:
		return r.Bytes(r.Intn(60))
	default: // odd version encodings
		switch r.Intn(4) {
		case 0:
			return nil
		case 1:
			return append([]byte{0x80 | byte(v), 0x00}, vGenStructured(r, v)[1:]...)
		case 2:
			return append(vUvarint(uint64(LogicVersion+1+r.Intn(3))), 0x22)
		default:
			return []byte{0xff, 0xff, 0xff, 0xff, 0xff, 0xff, 0xff, 0xff, 0xff, 0xff, 0x01}
		}
	}
}

func vGenArgs(r *vRand) ([][]byte, bool) {
	switch r.Intn(60) {
	case 0:
		return make([][]byte, 256), false
	case 1:
		return [][]byte{make([]byte, 4097)}, false
	case 2:
		return [][]byte{make([]byte, 4096), {1}}, true
	case 3:
		return nil, true
	}
	n := r.Intn(5)
	args := make([][]byte, n)
	for i := range args {
		args[i] = r.Bytes(r.Intn(40))
	}
	return args, true
}

func vRunF(out *vOut, st map[string]int, r *vRand) {
	prog := vGenProgram(r)
	args, argsok := vGenArgs(r)
	mode := ModeSig
	if r.Bool() {
		mode = ModeApp
	}
	lsv := uint64(LogicVersion)
	switch r.Intn(12) {
	case 0:
		lsv = 12
	case 1:
		lsv = uint64(r.Intn(LogicVersion + 1))
	}
	budgets := []int{40, 300, 700, 5000, 20000}
	budget := budgets[r.Intn(len(budgets))]
	pooling := r.Intn(4) != 0
	isolate := mode == ModeApp && r.Intn(6) == 0 // an isolated ClearState run: remainingBudget ignores the pool
	vRunFProg(out, st, "f", prog, args, argsok, mode, lsv, budget, pooling, isolate)
}

func vRunFProg(out *vOut, st map[string]int, tag string, prog []byte, args [][]byte, argsok bool, mode RunMode,
	lsv uint64, budget int, pooling, isolate bool) {
	m := 1
	if mode == ModeApp {
		m = 2
	}
	opt := func(p *config.ConsensusParams) {
		p.LogicSigMaxCost = uint64(budget)
		p.MaxAppProgramCost = budget
		p.EnableLogicSigCostPooling = pooling
		p.EnableAppCostPooling = pooling
		p.IsolateClearState = isolate
	}
	// the static check on its own parameters (a panic there is recovered into a panicError too)
	envc := vNewEnvOpt(mode, lsv, prog, args, nil, opt)
	ckb := envc.remaining()
	chk := vCheckClass(envc.check(prog))
	tr := &vFuzzTracer{maxRec: vEnvInt("VERIF_C31_REC", 100), minrem: 1 << 60}
	env := vNewEnvOpt(mode, lsv, prog, args, tr, opt)
	if isolate {
		env.ep.TxnGroup[env.gi].Txn.OnCompletion = transactions.ClearStateOC
		st["f_isolated_clearstate"]++
	}
	minv := env.ep.minAvmVersion
	rem0 := env.remaining()
	if rem0 < tr.minrem {
		tr.minrem = rem0
	}
	pass, cx, err := env.eval(prog)
	evcls := vEvalClass(err)
	if tr.panicked && evcls != 22 {
		evcls = 22
	}
	fh := 0
	var ftop []interface{}
	if cx != nil {
		fh = len(cx.Stack)
		ftop = vStackTerm(cx.Stack, vTopK)
	}
	if ftop == nil {
		ftop = []interface{}{}
	}
	if tr.steps == nil {
		tr.steps = []interface{}{}
	}
	v, n := binary.Uvarint(prog)
	if n <= 0 {
		v = 0
	}
	out.Case(vSym("f"), v, m, lsv, minv, argsok, prog, chk, ckb, evcls, pass, tr.nsteps, tr.maxdepth, tr.maxlen,
		tr.minrem, vL(fh, ftop), tr.steps)
	st[fmt.Sprintf("%s_eval_class_%d", tag, evcls)]++
	st[fmt.Sprintf("%s_check_class_%d", tag, chk)]++
	if pass {
		st[tag+"_accept"]++
	} else if err == nil {
		st[tag+"_reject"]++
	}
	st[tag+"_steps"] += tr.nsteps
	if tr.maxdepth > st["f_max_depth_seen"] {
		st["f_max_depth_seen"] = tr.maxdepth
	}
	if tr.maxlen > st["f_max_bytes_seen"] {
		st["f_max_bytes_seen"] = tr.maxlen
	}
	if tr.nsteps > st["f_max_steps_seen"] {
		st["f_max_steps_seen"] = tr.nsteps
	}
	if v <= LogicVersion {
		st[fmt.Sprintf("f_version_%d", v)]++
	}
	st[fmt.Sprintf("f_mode_%d", m)]++
}

func TestVerifC31(t *testing.T) {
	out := vOpen("cases_c31.txt")
	defer out.Close()
	st := map[string]int{}
	r := vNewRand(0x31)
	// directed stream: extreme immediates of every kind, every version, both modes (all tiers)
	ne := 0
	for v := uint64(0); v <= LogicVersion+1; v++ {
		for _, prog := range vExtremePrograms(v) {
			for _, mode := range []RunMode{ModeSig, ModeApp} {
				vRunFProg(out, st, "e", prog, vLsigArgs(), true, mode, LogicVersion, 3000, true, false)
				ne++
			}
		}
	}
	st["e_cases"] = ne
	// directed stream: degenerate operands for every opcode of every version (all tiers)
	vRunDegenerate(out, st)
	n := vEnvInt("VERIF_C31_N", 6000)
	for i := 0; i < n; i++ {
		vRunF(out, st, r)
	}
	st["f_cases"] = n
	stats := map[string]interface{}{}
	for k, x := range st {
		stats[k] = x
	}
	var trusted []string
	for _, s := range OpsByName[LogicVersion] {
		if s.trusted {
			trusted = append(trusted, s.Name)
		}
	}
	sort.Strings(trusted)
	stats["trusted_ops"] = trusted
	vStats(stats)
}

// ---------------------------------------------------------------- degenerate operands
// For EVERY opcode of every version (arg types and immediates taken from the running table):
// programs that push combinations of degenerate operands of the right types and then execute
// the op.  Byte operands: empty, 1 byte, the documented length (the declared bound, else the
// curve point / scalar sizes 32/64/96/128/192) and that length +-1, 4096 bytes, all-zero and
// all-0xff; ints: 0, 1, 2^32, 2^63, 2^64-1; every field / group immediate takes each of its
// values.  The full product when it is small, otherwise all-equal diagonals, one-at-a-time
// variations around a baseline and all pairs of the first two operands.
type vOperand struct {
	isInt bool
	u     uint64
	n     int
	fill  byte
}

func vOperandValues(st StackType, wide bool) []vOperand {
	ints := []vOperand{{isInt: true, u: 0}, {isInt: true, u: 1}, {isInt: true, u: 1 << 32}, {isInt: true, u: 1 << 63}, {isInt: true, u: ^uint64(0)}}
	if st.AVMType == avmUint64 {
		return ints
	}
	var lens []int
	if st.Bound[0] > 0 && st.Bound[0] == st.Bound[1] && st.Bound[0] < 4096 {
		l := int(st.Bound[0])
		lens = []int{0, 1, l - 1, l, l + 1, 4096}
	} else {
		lens = []int{0, 1, 32, 64, 96, 128, 192, 4096}
		if wide {
			lens = append(lens, 31, 33, 63, 65, 95, 97, 127, 129, 191, 193, 4095)
		}
	}
	var out []vOperand
	seen := map[int]bool{}
	for _, l := range lens {
		if l < 0 || seen[l] {
			continue
		}
		seen[l] = true
		out = append(out, vOperand{n: l, fill: 0})
		if l > 0 {
			out = append(out, vOperand{n: l, fill: 0xff})
		}
	}
	if st.AVMType == avmAny {
		out = append([]vOperand{{isInt: true, u: 0}, {isInt: true, u: 1}, {isInt: true, u: ^uint64(0)}}, out[:5]...)
	}
	return out
}

// vDegenerateProgram assembles: version; intcblock; bytecblock; pushes; op with immediates
func vDegenerateProgram(v uint64, spec *OpSpec, ops []vOperand, fimm int, fval byte) []byte {
	ints := []uint64{1}
	var bytess [][]byte
	intIdx := func(x uint64) int {
		for i, y := range ints {
			if y == x {
				return i
			}
		}
		ints = append(ints, x)
		return len(ints) - 1
	}
	var body []byte
	for _, o := range ops {
		switch {
		case o.isInt:
			body = append(body, 0x21, byte(intIdx(o.u)))
		case o.n > 64 && v >= 4: // bzero (and b~ for the all-ones fill): short programs for long operands
			body = append(body, 0x21, byte(intIdx(uint64(o.n))), 0xaf)
			if o.fill == 0xff {
				body = append(body, 0xae)
			}
		default:
			b := make([]byte, o.n)
			for i := range b {
				b[i] = o.fill
			}
			bytess = append(bytess, b)
			body = append(body, 0x27, byte(len(bytess)-1))
		}
	}
	prog := vUvarint(v)
	prog = append(prog, 0x20)
	prog = append(prog, vUvarint(uint64(len(ints)))...)
	for _, i := range ints {
		prog = append(prog, vUvarint(i)...)
	}
	if len(bytess) > 0 {
		prog = append(prog, 0x26)
		prog = append(prog, vUvarint(uint64(len(bytess)))...)
		for _, b := range bytess {
			prog = append(prog, vUvarint(uint64(len(b)))...)
			prog = append(prog, b...)
		}
	}
	prog = append(prog, body...)
	prog = append(prog, spec.Opcode)
	if spec.SubOpcode != 0 {
		prog = append(prog, spec.SubOpcode)
	}
	for i, im := range spec.Immediates {
		if i == fimm {
			prog = append(prog, fval)
			continue
		}
		switch im.kind {
		case immByte, immInt8, immVarintLabel, immLabels:
			prog = append(prog, 0)
		case immLabel:
			prog = append(prog, 0, 0)
		case immInt:
			prog = append(prog, 1)
		case immBytes:
			prog = append(prog, 1, 0x61)
		case immInts:
			prog = append(prog, 1, 7)
		case immBytess:
			prog = append(prog, 1, 1, 0x61)
		}
	}
	return prog
}

func vDegenerateCombos(spec *OpSpec) [][]vOperand {
	n := len(spec.Arg.Types)
	if n == 0 {
		return [][]vOperand{nil}
	}
	vals := make([][]vOperand, n)
	total := 1
	for i, st := range spec.Arg.Types {
		vals[i] = vOperandValues(st, false)
		total *= len(vals[i])
	}
	var out [][]vOperand
	if total <= 320 {
		idx := make([]int, n)
		for {
			c := make([]vOperand, n)
			for i := range c {
				c[i] = vals[i][idx[i]]
			}
			out = append(out, c)
			k := n - 1
			for k >= 0 {
				idx[k]++
				if idx[k] < len(vals[k]) {
					break
				}
				idx[k] = 0
				k--
			}
			if k < 0 {
				break
			}
		}
	} else {
		base := make([]vOperand, n)
		for i := range base {
			base[i] = vals[i][len(vals[i])/2]
		}
		// diagonals: the j-th value of every operand
		maxLen := 0
		for i := range vals {
			if len(vals[i]) > maxLen {
				maxLen = len(vals[i])
			}
		}
		for j := 0; j < maxLen; j++ {
			c := make([]vOperand, n)
			for i := range c {
				c[i] = vals[i][j%len(vals[i])]
			}
			out = append(out, c)
		}
		// one at a time
		for i := range vals {
			for _, x := range vals[i] {
				c := append([]vOperand{}, base...)
				c[i] = x
				out = append(out, c)
			}
		}
		// all pairs of the first two operands and of the last two
		pairs := [][2]int{{0, 1}}
		if n > 2 {
			pairs = append(pairs, [2]int{n - 2, n - 1})
		}
		for _, pr := range pairs {
			for _, x := range vals[pr[0]] {
				for _, y := range vals[pr[1]] {
					c := append([]vOperand{}, base...)
					c[pr[0]], c[pr[1]] = x, y
					out = append(out, c)
				}
			}
		}
	}
	// one-at-a-time off-by-one lengths around the documented sizes
	for i, st := range spec.Arg.Types {
		if st.AVMType != avmBytes {
			continue
		}
		for _, x := range vOperandValues(st, true) {
			if x.fill != 0 || x.n%2 == 0 && x.n != 4096 {
				continue
			}
			c := make([]vOperand, n)
			for k := range c {
				c[k] = vals[k][len(vals[k])/2]
			}
			c[i] = x
			out = append(out, c)
		}
	}
	return out
}

func vRunDegenerate(out *vOut, st map[string]int) {
	nd := 0
	for v := uint64(0); v <= LogicVersion; v++ {
		for _, spec := range vAvail(v) {
			if spec.Version != v && v != LogicVersion {
				continue // each distinct spec at the version that introduced it and at the newest version
			}
			combos := vDegenerateCombos(spec)
			fimm := -1
			fvals := []byte{0}
			for i, im := range spec.Immediates {
				if im.Group != nil {
					fimm = i
					fvals = nil
					for j, name := range im.Group.Names {
						if name != "" {
							fvals = append(fvals, byte(j))
						}
					}
				}
			}
			if len(spec.Arg.Types) == 0 && fimm >= 0 {
				continue // pure field reads are swept by C34
			}
			// keep ops with many fields and many operand combinations bounded
			for len(combos)*len(fvals) > 1500 && len(combos) > 40 {
				combos = combos[:len(combos)*3/4]
			}
			for _, mode := range []RunMode{ModeSig, ModeApp} {
				if spec.Modes&mode == 0 {
					continue
				}
				for _, f := range fvals {
					for _, c := range combos {
						prog := vDegenerateProgram(v, spec, c, fimm, f)
						vRunFProg(out, st, "d", prog, vLsigArgs(), true, mode, LogicVersion, 3000000, true, false)
						nd++
					}
				}
			}
		}
	}
	st["d_cases"] = nd
}
