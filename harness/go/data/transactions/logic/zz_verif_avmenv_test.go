//go:build verif

package logic

// Shared environment of the C31 / C34 harnesses: a populated mock ledger (the package's own
// test Ledger) behind a call-counting LedgerForLogic wrapper, EvalParams for both modes,
// error classifiers (error text -> coq/model/AvmFrame.v:ecode_N numbers).

import (
	"encoding/binary"
	"errors"
	"strings"

	"github.com/algorand/go-algorand/config"
	"github.com/algorand/go-algorand/data/basics"
	"github.com/algorand/go-algorand/data/transactions"
	"github.com/algorand/go-algorand/ledger/ledgercore"
	"github.com/algorand/go-algorand/protocol"
)

// ---------------------------------------------------------------- counting ledger
type vCountLedger struct {
	l *Ledger
	n int
}

func (c *vCountLedger) AccountData(addr basics.Address) (ledgercore.AccountData, error) {
	c.n++
	return c.l.AccountData(addr)
}
func (c *vCountLedger) Authorizer(addr basics.Address) (basics.Address, error) {
	c.n++
	return c.l.Authorizer(addr)
}
func (c *vCountLedger) Round() basics.Round  { c.n++; return c.l.Round() }
func (c *vCountLedger) PrevTimestamp() int64 { c.n++; return c.l.PrevTimestamp() }
func (c *vCountLedger) AgreementData(addr basics.Address) (basics.OnlineAccountData, error) {
	c.n++
	return c.l.AgreementData(addr)
}
func (c *vCountLedger) OnlineStake() (basics.MicroAlgos, error) { c.n++; return c.l.OnlineStake() }
func (c *vCountLedger) AssetHolding(addr basics.Address, a basics.AssetIndex) (basics.AssetHolding, error) {
	c.n++
	return c.l.AssetHolding(addr, a)
}
func (c *vCountLedger) AssetParams(a basics.AssetIndex) (basics.AssetParams, basics.Address, error) {
	c.n++
	return c.l.AssetParams(a)
}
func (c *vCountLedger) AppParams(a basics.AppIndex) (basics.AppParams, basics.Address, error) {
	c.n++
	return c.l.AppParams(a)
}
func (c *vCountLedger) OptedIn(addr basics.Address, a basics.AppIndex) (bool, error) {
	c.n++
	return c.l.OptedIn(addr, a)
}
func (c *vCountLedger) GetLocal(addr basics.Address, a basics.AppIndex, key string, ai uint64) (basics.TealValue, bool, error) {
	c.n++
	return c.l.GetLocal(addr, a, key, ai)
}
func (c *vCountLedger) SetLocal(addr basics.Address, a basics.AppIndex, key string, v basics.TealValue, ai uint64) error {
	c.n++
	return c.l.SetLocal(addr, a, key, v, ai)
}
func (c *vCountLedger) DelLocal(addr basics.Address, a basics.AppIndex, key string, ai uint64) error {
	c.n++
	return c.l.DelLocal(addr, a, key, ai)
}
func (c *vCountLedger) GetGlobal(a basics.AppIndex, key string) (basics.TealValue, bool, error) {
	c.n++
	return c.l.GetGlobal(a, key)
}
func (c *vCountLedger) SetGlobal(a basics.AppIndex, key string, v basics.TealValue) error {
	c.n++
	return c.l.SetGlobal(a, key, v)
}
func (c *vCountLedger) DelGlobal(a basics.AppIndex, key string) error {
	c.n++
	return c.l.DelGlobal(a, key)
}
func (c *vCountLedger) NewBox(a basics.AppIndex, key string, v []byte, addr basics.Address) error {
	c.n++
	return c.l.NewBox(a, key, v, addr)
}
func (c *vCountLedger) GetBox(a basics.AppIndex, key string) ([]byte, bool, error) {
	c.n++
	return c.l.GetBox(a, key)
}
func (c *vCountLedger) SetBox(a basics.AppIndex, key string, v []byte) error {
	c.n++
	return c.l.SetBox(a, key, v)
}
func (c *vCountLedger) DelBox(a basics.AppIndex, key string, addr basics.Address) (bool, error) {
	c.n++
	return c.l.DelBox(a, key, addr)
}
func (c *vCountLedger) Perform(gi int, ep *EvalParams) error { c.n++; return c.l.Perform(gi, ep) }
func (c *vCountLedger) Counter() uint64                      { c.n++; return c.l.Counter() }
func (c *vCountLedger) SetForeignBoxReads(a basics.AppIndex, e bool) error {
	c.n++
	return c.l.SetForeignBoxReads(a, e)
}
func (c *vCountLedger) SetFamilyBoxAccess(a basics.AppIndex, e bool) error {
	c.n++
	return c.l.SetFamilyBoxAccess(a, e)
}

// ---------------------------------------------------------------- environment
const vAppID = 300
const vAssetID = 400

type vEnv struct {
	ep     *EvalParams
	ledger *vCountLedger
	mode   RunMode
	gi     int
}

// vSampleTxns: two copies of the package's sample transaction, made an application call on
// app 300 with foreign asset 400, a box reference and LogicSig args (cf. TestReturnTypes).
func vSampleTxns(program []byte, args [][]byte) []transactions.SignedTxn {
	tx0 := makeSampleTxn()
	tx0.Txn.Type = protocol.ApplicationCallTx
	tx0.Txn.ApplicationID = vAppID
	tx0.Txn.ForeignApps = []basics.AppIndex{vAppID}
	tx0.Txn.ForeignAssets = []basics.AssetIndex{vAssetID}
	tx0.Txn.Boxes = []transactions.BoxRef{{Name: []byte("3")}}
	tx0.Txn.RekeyTo = basics.Address{}
	tx0.Lsig.Args = args
	tx0.Lsig.Logic = program
	tx1 := tx0
	return []transactions.SignedTxn{tx0, tx1}
}

func vPopulate(ledger *Ledger, tx transactions.Transaction) {
	ledger.NewAccount(tx.Sender, 5_000_000)
	params := basics.AssetParams{
		Total: 1000, Decimals: 2, UnitName: "ALGO", URL: string(protocol.PaymentTx),
		Manager: tx.Sender, Reserve: tx.Receiver, Freeze: tx.Receiver, Clawback: tx.Receiver,
	}
	ledger.NewAsset(tx.Sender, vAssetID, params)
	ledger.NewHolding(tx.Sender, vAssetID, 77, false)
	ledger.NewApp(tx.Sender, vAppID, basics.AppParams{
		StateSchemas: basics.StateSchemas{
			GlobalStateSchema: basics.StateSchema{NumUint: 4, NumByteSlice: 4},
			LocalStateSchema:  basics.StateSchema{NumUint: 4, NumByteSlice: 4},
		},
	})
	ledger.NewAccount(tx.Receiver, 1_000_000)
	ledger.NewLocals(tx.Receiver, vAppID)
	ledger.NewLocals(tx.Sender, vAppID)
	ledger.NewLocal(tx.Sender, vAppID, "3456", uint64(0x77))
	ledger.NewLocal(tx.Receiver, vAppID, "3456", uint64(0x77))
	ledger.NewGlobal(vAppID, "3456", uint64(0x55))
	ledger.NewAccount(appAddr(vAppID), 1_000_000)
	ledger.CreateBox(vAppID, "3", 10)
}

// vNewEnv builds fresh EvalParams for one evaluation of program in the given mode as group
// index 1; budget is the pooled opcode budget (<= 0: the proto's default).
func vNewEnv(mode RunMode, lsv uint64, program []byte, args [][]byte, budget int, tracer EvalTracer) *vEnv {
	txns := vSampleTxns(program, args)
	proto := makeTestProto(func(p *config.ConsensusParams) {
		p.LogicSigVersion = lsv
		p.Application = true
	})
	ledger := NewLedger(nil)
	vPopulate(ledger, txns[0].Txn)
	cl := &vCountLedger{l: ledger}
	var ep *EvalParams
	if mode == ModeSig {
		ep = NewSigEvalParams(txns, proto, ledger)
		if budget > 0 {
			*ep.PooledLogicSigBudget = budget
		}
	} else {
		ep = NewAppEvalParams(transactions.WrapSignedTxnsWithAD(txns), proto, &transactions.SpecialAddresses{})
		ep.Ledger = cl
		ep.SigLedger = ledger
		ep.pastScratch[0] = &scratchSpace{}
		ep.TxnGroup[0].ConfigAsset = 100
		if budget > 0 {
			*ep.PooledApplicationBudget = budget
		}
	}
	// all program versions in both modes: the group-level minimum version (apps need v2) is not
	// what is under test here
	ep.minAvmVersion = 0
	ep.Trace = nil
	ep.Tracer = tracer
	return &vEnv{ep: ep, ledger: cl, mode: mode, gi: 1}
}

// vNewEnvOpt is vNewEnv with caller-chosen consensus parameters and the proto's own budgets
func vNewEnvOpt(mode RunMode, lsv uint64, program []byte, args [][]byte, tracer EvalTracer, opt func(p *config.ConsensusParams)) *vEnv {
	txns := vSampleTxns(program, args)
	proto := makeTestProto(func(p *config.ConsensusParams) {
		p.LogicSigVersion = lsv
		p.Application = true
		opt(p)
	})
	ledger := NewLedger(nil)
	vPopulate(ledger, txns[0].Txn)
	cl := &vCountLedger{l: ledger}
	var ep *EvalParams
	if mode == ModeSig {
		ep = NewSigEvalParams(txns, proto, ledger)
	} else {
		ep = NewAppEvalParams(transactions.WrapSignedTxnsWithAD(txns), proto, &transactions.SpecialAddresses{})
		ep.Ledger = cl
		ep.SigLedger = ledger
		ep.pastScratch[0] = &scratchSpace{}
		ep.TxnGroup[0].ConfigAsset = 100
	}
	ep.minAvmVersion = 0
	ep.Trace = nil
	ep.Tracer = tracer
	return &vEnv{ep: ep, ledger: cl, mode: mode, gi: 1}
}

func (e *vEnv) remaining() int {
	cx := EvalContext{EvalParams: e.ep, runMode: e.mode, txn: &e.ep.TxnGroup[e.gi]}
	return cx.remainingBudget()
}

func (e *vEnv) check(program []byte) error {
	if e.mode == ModeSig {
		return CheckSignature(e.gi, e.ep)
	}
	return CheckContract(program, e.gi, e.ep)
}

func (e *vEnv) eval(program []byte) (bool, *EvalContext, error) {
	if e.mode == ModeSig {
		return EvalSignatureFull(e.gi, e.ep)
	}
	return EvalContract(program, e.gi, vAppID, e.ep)
}

// ---------------------------------------------------------------- error classes
func vIsPanic(err error) bool {
	var pe panicError
	if errors.As(err, &pe) {
		return true
	}
	return err != nil && strings.Contains(err.Error(), "panic in TEAL Eval")
}

// vStepClass: class of an error returned by EvalContext.step (as seen by Tracer.AfterOpcode)
func vStepClass(err error) int {
	if err == nil {
		return 0
	}
	if vIsPanic(err) {
		return 22
	}
	m := err.Error()
	switch {
	case strings.HasPrefix(m, "illegal opcode 0x"), strings.HasPrefix(m, "prefix opcode 0x"):
		return 4
	case strings.HasSuffix(m, " not allowed in current mode") && !strings.Contains(m, "["):
		return 5
	case strings.HasPrefix(m, "stack underflow in "):
		return 6
	case strings.Contains(m, " arg ") && strings.Contains(m, " wanted ") && strings.Contains(m, " but got "):
		return 7
	case m == "program ends without immediate value(s)":
		return 8
	case strings.HasSuffix(m, " returned 0 cost"):
		return 9
	case strings.HasPrefix(m, "dynamic cost budget exceeded"):
		return 10
	case strings.Contains(m, " changed stack height improperly "):
		return 17
	case strings.Contains(m, " produced ") && strings.Contains(m, " but intended "):
		return 18
	case strings.Contains(m, " produced a too big ("):
		return 19
	case m == "stack overflow":
		return 20
	}
	return 16
}

// vCheckClass: class of an error returned by check()
func vCheckClass(err error) int {
	if err == nil {
		return 0
	}
	if vIsPanic(err) {
		return 22
	}
	if errors.Is(err, errLogicSigNotSupported) {
		return 2
	}
	m := err.Error()
	switch {
	case m == "invalid program (empty)", m == "invalid version",
		strings.HasPrefix(m, "program version "), strings.HasPrefix(m, "pre-sharedResources program"):
		return 1
	case strings.Contains(m, "static cost budget of "):
		return 11
	case strings.HasSuffix(m, " pc did not advance"):
		return 12
	case strings.Contains(m, "illegal opcode 0x"), strings.Contains(m, "prefix opcode 0x"):
		return 4
	case strings.HasSuffix(m, " not allowed in current mode"):
		return 5
	case strings.HasSuffix(m, "program ends without immediate value(s)"):
		return 8
	case strings.HasSuffix(m, " reported non-positive cost"):
		return 9
	case strings.HasSuffix(m, " is not an aligned instruction"):
		return 14
	}
	if strings.HasPrefix(m, "pc=") {
		return 13
	}
	return 99
}

// vEvalClass: class of the final error of an evaluation (EvalError wraps the step error)
func vEvalClass(err error) int {
	if err == nil {
		return 0
	}
	if vIsPanic(err) {
		return 22
	}
	var ee EvalError
	inner := err
	if errors.As(err, &ee) {
		inner = ee.Err
	}
	if errors.Is(inner, errLogicSigNotSupported) {
		return 2
	}
	if errors.Is(inner, errTooManyArgs) || errors.Is(inner, errLogicSigArgTooLarge) {
		return 3
	}
	m := inner.Error()
	// basics.Annotate wraps; compare on the message
	switch {
	case strings.HasPrefix(m, "invalid program (empty)"), strings.HasPrefix(m, "invalid version"),
		strings.HasPrefix(m, "program version "), strings.HasPrefix(m, "pre-sharedResources program"):
		return 1
	case strings.HasPrefix(m, "stack len is "), strings.HasPrefix(m, "stack finished with bytes not int"):
		return 21
	}
	return vStepClass(errors.New(m))
}

func vStackTerm(stack []stackValue, topk int) []interface{} {
	from := 0
	if topk >= 0 && len(stack) > topk {
		from = len(stack) - topk
	}
	out := make([]interface{}, 0, len(stack)-from)
	for _, sv := range stack[from:] {
		if sv.avmType() == avmBytes {
			out = append(out, vL(1, len(sv.Bytes)))
		} else {
			out = append(out, vL(0, sv.Uint))
		}
	}
	return out
}

func vUvarint(x uint64) []byte {
	var buf [binary.MaxVarintLen64]byte
	n := binary.PutUvarint(buf[:], x)
	return buf[:n]
}

func vVarint(x int64) []byte {
	var buf [binary.MaxVarintLen64]byte
	n := binary.PutVarint(buf[:], x)
	return buf[:n]
}

func vCalls(cx *EvalContext) []interface{} {
	out := make([]interface{}, 0, len(cx.callstack))
	for i := len(cx.callstack) - 1; i >= 0; i-- {
		out = append(out, cx.callstack[i].retpc)
	}
	return out
}

// ---------------------------------------------------------------- extreme immediates
// vExtremePrograms: a directed, deterministic stream of programs of version v in which every
// immediate kind takes extreme encodings: 9/10-byte (and overflowing, truncated, non-canonical)
// varints around 2^63 / 2^64-1 / MinInt64 / MaxInt64 for the signed branch offsets of v13+
// (including offsets that make pc+size+offset land exactly on and just past MaxInt64), int16
// offsets +-32767/-32768 for the 2-byte branches, switch/match tables with 255 labels, huge
// pushint values and pushbytes / constant-block length and count prefixes, byte immediates 255.
func vExtremePrograms(v uint64) [][]byte {
	hdr := append(vUvarint(v), 0x20, 0x02, 0x00, 0x01) // intcblock 0 1
	mk := func(parts ...[]byte) []byte {
		p := append([]byte{}, hdr...)
		for _, x := range parts {
			p = append(p, x...)
		}
		return p
	}
	one := []byte{0x23} // intc_1
	ff := func(n int, last ...byte) []byte {
		b := make([]byte, n)
		for i := range b {
			b[i] = 0xff
		}
		return append(b, last...)
	}
	const maxI = int64(^uint64(0) >> 1)
	const minI = -maxI - 1
	var out [][]byte

	// signed varint branch offsets
	var vints [][]byte
	for _, x := range []int64{maxI, maxI - 1, maxI - 2, maxI - 5, maxI - 11, maxI - 12, maxI - 13, maxI - 20, maxI - 64,
		minI, minI + 1, minI + 2, minI + 16, 1 << 62, -(1 << 62), 1 << 32, -(1 << 32), 1 << 31, 65536, -65536,
		32767, -32768, 127, -128, 64, -65} {
		vints = append(vints, vVarint(x))
	}
	vints = append(vints,
		ff(9, 0x01), ff(9, 0x00), ff(9, 0x7f), ff(9, 0x02), ff(10, 0x01), ff(8, 0x7f), ff(8, 0x00),
		[]byte{0x80, 0x80, 0x80, 0x80, 0x80, 0x80, 0x80, 0x80, 0x80, 0x00}, ff(2), ff(9), []byte{0x80})
	for _, op := range []byte{0x40, 0x41, 0x42, 0x88} {
		for _, enc := range vints {
			if op == 0x42 || op == 0x88 {
				out = append(out, mk([]byte{op}, enc, one))
			} else {
				out = append(out, mk(one, []byte{op}, enc, one))
			}
		}
		// offsets chosen so that pc + instrSize + offset is MaxInt64-1 .. MaxInt64+2 (the last two wrap)
		for d := int64(-1); d <= 2; d++ {
			pre := 0
			if op == 0x40 || op == 0x41 {
				pre = 1
			}
			pc := int64(len(hdr) + pre)
			for _, isz := range []int64{11, 10} {
				off := maxI - (pc + isz) + d
				enc := vVarint(off)
				if pre == 1 {
					out = append(out, mk(one, []byte{op}, enc, one))
				} else {
					out = append(out, mk([]byte{op}, enc, one))
				}
			}
		}
	}
	// 2-byte offsets
	for _, op := range []byte{0x40, 0x41, 0x42, 0x88} {
		for _, off := range [][]byte{{0x7f, 0xff}, {0x80, 0x00}, {0x80, 0x01}, {0xff, 0xff}, {0x7f, 0xfe}, {0xff, 0xfd}, {0x00, 0x00}} {
			if op == 0x42 || op == 0x88 {
				out = append(out, mk([]byte{op}, off, one))
			} else {
				out = append(out, mk(one, []byte{op}, off, one))
			}
		}
	}
	// switch / match tables
	for _, op := range []byte{0x8d, 0x8e} {
		for _, cnt := range []int{255, 128, 1} {
			for _, off := range [][]byte{{0x7f, 0xff}, {0x80, 0x00}, {0xff, 0xff}, {0x00, 0x00}} {
				tbl := []byte{op, byte(cnt)}
				for i := 0; i < cnt; i++ {
					tbl = append(tbl, off...)
				}
				out = append(out, mk(one, tbl, one))                   // full table
				out = append(out, mk(one, tbl[:2+cnt], one))           // table cut short, followed by code
				out = append(out, mk(one, one, one, tbl[:len(tbl)-1])) // ends inside the table
			}
		}
		out = append(out, mk(one, []byte{op}))
	}
	// pushint / pushbytes / constant blocks with extreme varuints
	var uvs [][]byte
	for _, x := range []uint64{^uint64(0), 1 << 63, 1<<63 - 1, 1 << 62, 1 << 32, 1<<32 - 1, 65536, 4097, 4096, 255, 128} {
		uvs = append(uvs, vUvarint(x))
	}
	uvs = append(uvs, ff(9, 0x02), ff(10, 0x01), ff(9), []byte{0x80},
		[]byte{0x80, 0x80, 0x80, 0x80, 0x80, 0x80, 0x80, 0x80, 0x80, 0x00})
	for _, enc := range uvs {
		out = append(out, mk([]byte{0x81}, enc, one))             // pushint
		out = append(out, mk([]byte{0x80}, enc, []byte{1, 2, 3})) // pushbytes, length prefix
		for _, op := range []byte{0x20, 0x26, 0x82, 0x83} {
			out = append(out, mk([]byte{op}, enc, []byte{1, 1, 1}))       // count
			out = append(out, mk([]byte{op, 0x02, 0x01, 0x61}, enc, one)) // second item / its length
		}
	}
	for _, l := range []int{0, 1, 2, 3, 4, 5} { // pushbytes whose length is exactly / just past the rest of the program
		out = append(out, mk([]byte{0x80, byte(l)}, []byte{1, 2, 3}))
		out = append(out, mk([]byte{0x26, 0x01, byte(l)}, []byte{1, 2, 3}))
		out = append(out, mk([]byte{0x82, 0x02, 0x00, byte(l)}, []byte{1, 2, 3}))
	}
	// byte immediates at their maximum
	for _, ins := range [][]byte{
		{0x23, 0x47, 255, 0x23, 0x47, 255, 0x23, 0x47, 255, 0x23, 0x47, 255, 0x23, 0x47, 255}, // dupn 255 x5
		{0x46, 255}, {0x23, 0x4b, 255}, {0x23, 0x4e, 255}, {0x23, 0x4f, 255}, {0x23, 0x23, 0x45, 255},
		{0x8b, 0x80}, {0x8b, 0x7f}, {0x23, 0x8c, 0x80}, {0x23, 0x8c, 0x7f}, {0x8a, 255, 255},
		{0x88, 0x00, 0x00, 0x8a, 255, 255, 0x89}, {0x34, 255}, {0x23, 0x35, 255}, {0x33, 255, 255}, {0x36, 255, 255},
		{0x37, 255, 255, 255}, {0x2c, 255}, {0x21, 255}, {0x27, 255}, {0x3a, 255, 255}, {0x3c, 255}, {0x31, 255},
		{0x32, 255}, {0x80, 0x04, 1, 2, 3, 4, 0x51, 255, 0}, {0x80, 0x04, 1, 2, 3, 4, 0x57, 255, 255},
		{0x80, 0x04, 1, 2, 3, 4, 0x80, 0x01, 9, 0x5c, 255}, {0xd4, 255}, {0xd4},
	} {
		out = append(out, mk(ins, one))
	}
	return out
}

func vLsigArgs() [][]byte {
	return [][]byte{[]byte("aoeu"), []byte("aoeu"), []byte("aoeu2"), []byte("aoeu3")}
}
