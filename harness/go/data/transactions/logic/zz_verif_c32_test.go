//go:build verif

package logic

// C32 harness: every arithmetic / comparison / bitwise / byte-math / conversion opcode is run
// through the REAL evaluator (EvalSignatureFull, a sample also through EvalContract) as a
// program "push operands; op", at the newest AVM version and at a sample of every older
// version that has the opcode.  The observation is what the opcode left on the stack, or the
// error class, read through the evaluator's own EvalTracer hook right after the opcode's step.
// Operands: boundary grids (0, 1, 2^k-1, 2^k, 2^k+1, 2^64-1, perfect squares +-1, exact
// overflow boundaries of exp/expw, 0-/1-/8-/9-/64-/65-byte strings, leading zeros) plus random
// 64-bit / up-to-528-bit operands.

import (
	"bytes"
	"encoding/binary"
	"errors"
	"math"
	"math/big"
	"testing"

	"github.com/algorand/go-algorand/data/basics"
	"github.com/algorand/go-algorand/data/transactions"
)

type vC32Op struct {
	sym   string // name in the line protocol
	mnem  string // AVM mnemonic
	kinds string // i = uint64, b = bytes, a = either, per argument
}

var vC32Ops = []vC32Op{
	{"plus", "+", "ii"}, {"minus", "-", "ii"}, {"mul", "*", "ii"}, {"div", "/", "ii"}, {"mod", "%", "ii"},
	{"addw", "addw", "ii"}, {"mulw", "mulw", "ii"}, {"divw", "divw", "iii"}, {"divmodw", "divmodw", "iiii"},
	{"exp", "exp", "ii"}, {"expw", "expw", "ii"}, {"sqrt", "sqrt", "i"}, {"shl", "shl", "ii"}, {"shr", "shr", "ii"},
	{"bitlen", "bitlen", "a"},
	{"lt", "<", "ii"}, {"gt", ">", "ii"}, {"le", "<=", "ii"}, {"ge", ">=", "ii"}, {"and", "&&", "ii"}, {"or", "||", "ii"},
	{"eq", "==", "aa"}, {"neq", "!=", "aa"}, {"not", "!", "i"},
	{"bitor", "|", "ii"}, {"bitand", "&", "ii"}, {"bitxor", "^", "ii"}, {"bitnot", "~", "i"},
	{"itob", "itob", "i"}, {"btoi", "btoi", "b"},
	{"bplus", "b+", "bb"}, {"bminus", "b-", "bb"}, {"bmul", "b*", "bb"}, {"bdiv", "b/", "bb"}, {"bmod", "b%", "bb"},
	{"bsqrt", "bsqrt", "b"},
	{"blt", "b<", "bb"}, {"bgt", "b>", "bb"}, {"ble", "b<=", "bb"}, {"bge", "b>=", "bb"}, {"beq", "b==", "bb"}, {"bneq", "b!=", "bb"},
	{"bor", "b|", "bb"}, {"band", "b&", "bb"}, {"bxor", "b^", "bb"}, {"bnot", "b~", "b"},
	{"getbit", "getbit", "ai"}, {"setbit", "setbit", "aii"}, {"getbyte", "getbyte", "bi"}, {"setbyte", "setbyte", "bii"},
	{"extract_uint16", "extract_uint16", "bi"}, {"extract_uint32", "extract_uint32", "bi"}, {"extract_uint64", "extract_uint64", "bi"},
}

// tracer: remembers the outcome of the most recent opcode step
type vC32Tracer struct {
	NullEvalTracer
	pc    int
	steps int
	err   error
	stack []stackValue
}

func (tr *vC32Tracer) BeforeOpcode(cx *EvalContext) { tr.pc = cx.pc }
func (tr *vC32Tracer) AfterOpcode(cx *EvalContext, err error) {
	tr.steps++
	tr.err = err
	tr.stack = tr.stack[:0]
	for _, sv := range cx.Stack {
		c := stackValue{Uint: sv.Uint}
		if sv.Bytes != nil {
			c.Bytes = append(make([]byte, 0, len(sv.Bytes)), sv.Bytes...)
		}
		tr.stack = append(tr.stack, c)
	}
}

type vC32Env struct {
	t           *testing.T
	sig         [LogicVersion + 1]*EvalParams
	app         [LogicVersion + 1]*EvalParams
	tr          *vC32Tracer
	out         *vOut
	perOp       map[string]int
	errs        map[string]int
	evals       int
	appRuns     int
	aliasBroken int
	prodRuns    int
	oldVer      int
}

func vC32NewEnv(t *testing.T, out *vOut) *vC32Env {
	e := &vC32Env{t: t, tr: &vC32Tracer{}, out: out, perOp: map[string]int{}, errs: map[string]int{}}
	return e
}

func (e *vC32Env) sigParams(v uint64) *EvalParams {
	if e.sig[v] == nil {
		ep := defaultSigParamsWithVersion(v)
		ep.Trace = nil
		ep.Tracer = e.tr
		e.sig[v] = ep
	}
	return e.sig[v]
}

func (e *vC32Env) appParams(v uint64) *EvalParams {
	if e.app[v] == nil {
		ep := defaultAppParamsWithVersion(v)
		ep.Trace = nil
		ep.Tracer = e.tr
		addr, err := basics.UnmarshalChecksumAddress(testAppCreator)
		if err != nil {
			e.t.Fatal(err)
		}
		ep.Ledger.(*Ledger).NewApp(addr, 888, basics.AppParams{})
		e.app[v] = ep
	}
	return e.app[v]
}

func vC32Uvarint(p []byte, x uint64) []byte {
	var buf [binary.MaxVarintLen64]byte
	n := binary.PutUvarint(buf[:], x)
	return append(p, buf[:n]...)
}

// program: version byte; operands (pushint/pushbytes from v3 on, constant blocks before); the opcode.
// Returns the program and the pc of the opcode under test.
func (e *vC32Env) program(v uint64, op vC32Op, args []interface{}) ([]byte, int) {
	spec, ok := OpsByName[v][op.mnem]
	if !ok {
		e.t.Fatalf("opcode %s not in version %d", op.mnem, v)
	}
	p := []byte{byte(v)}
	if v >= 3 {
		pi, pb := OpsByName[v]["pushint"].Opcode, OpsByName[v]["pushbytes"].Opcode
		for _, a := range args {
			switch x := a.(type) {
			case uint64:
				p = vC32Uvarint(append(p, pi), x)
			case []byte:
				p = vC32Uvarint(append(p, pb), uint64(len(x)))
				p = append(p, x...)
			}
		}
	} else {
		var ints []uint64
		var bs [][]byte
		for _, a := range args {
			switch x := a.(type) {
			case uint64:
				ints = append(ints, x)
			case []byte:
				bs = append(bs, x)
			}
		}
		if len(ints) > 0 {
			p = vC32Uvarint(append(p, OpsByName[v]["intcblock"].Opcode), uint64(len(ints)))
			for _, x := range ints {
				p = vC32Uvarint(p, x)
			}
		}
		if len(bs) > 0 {
			p = vC32Uvarint(append(p, OpsByName[v]["bytecblock"].Opcode), uint64(len(bs)))
			for _, x := range bs {
				p = vC32Uvarint(p, uint64(len(x)))
				p = append(p, x...)
			}
		}
		ii, bi := 0, 0
		for _, a := range args {
			switch a.(type) {
			case uint64:
				p = append(p, OpsByName[v]["intc"].Opcode, byte(ii))
				ii++
			case []byte:
				p = append(p, OpsByName[v]["bytec"].Opcode, byte(bi))
				bi++
			}
		}
	}
	pc := len(p)
	p = append(p, spec.Opcode)
	return p, pc
}

// run one case through the real evaluator and emit the case line
func (e *vC32Env) run(op vC32Op, v uint64, app bool, args ...interface{}) {
	prog, oppc := e.program(v, op, args)
	e.exec(op, v, app, prog, oppc, args, "", -1)
}

// exec evaluates prog (whose opcode under test sits at oppc) and emits the case line.  form is
// appended to the mode symbol (how the operands were produced; ignored by the model).  alias >= 0:
// an extra copy of operand #alias (sharing its byte slice) lies below the operands; it must come
// out unchanged and is then dropped from the observation -- if the opcode modified it in place,
// it is left in, and the observation no longer has the specified shape.
func (e *vC32Env) exec(op vC32Op, v uint64, app bool, prog []byte, oppc int, args []interface{}, form string, alias int) {
	e.tr.steps, e.tr.err, e.tr.pc, e.tr.stack = 0, nil, -1, e.tr.stack[:0]
	var err error
	mode := "sig"
	if app {
		mode = "app"
		ep := e.appParams(v)
		ep.reset()
		ep.Trace = nil
		_, _, err = EvalContract(prog, 0, 888, ep)
		e.appRuns++
	} else {
		ep := e.sigParams(v)
		ep.reset()
		ep.TxnGroup[0].Lsig.Logic = prog
		_, _, err = EvalSignatureFull(0, ep)
	}
	var obs []interface{}
	var pe panicError
	switch {
	case errors.As(err, &pe):
		obs = vL(vSym("panic"))
	case e.tr.pc != oppc:
		e.t.Fatalf("C32 harness: %s v%d args %v form %q: evaluation stopped at pc %d before the opcode at %d: %v", op.mnem, v, args, form, e.tr.pc, oppc, err)
	case e.tr.err != nil:
		obs = vL(vSym("err"))
		e.errs[op.sym]++
	default:
		obs = vL(vSym("ok"))
		st := e.tr.stack
		if alias >= 0 && len(st) > 0 {
			intact := false
			switch x := args[alias].(type) {
			case uint64:
				intact = st[0].Bytes == nil && st[0].Uint == x
			case []byte:
				intact = st[0].Bytes != nil && bytes.Equal(st[0].Bytes, x)
			}
			if intact {
				st = st[1:]
			} else {
				e.aliasBroken++
			}
		}
		for _, sv := range st {
			if sv.Bytes != nil {
				obs = append(obs, sv.Bytes)
			} else {
				obs = append(obs, sv.Uint)
			}
		}
	}
	e.out.Case(vSym(op.sym), v, vSym(mode+form), vL(args...), obs)
	e.perOp[op.sym]++
	e.evals++
	if v != LogicVersion {
		e.oldVer++
	}
}

// choose version/mode for the n-th case of an op: mostly newest version in signature mode; every
// 5th case a random older version that has the opcode; every 9th case application mode.
func (e *vC32Env) auto(rnd *vRand, op vC32Op, args ...interface{}) {
	n := e.perOp[op.sym]
	v := uint64(LogicVersion)
	minv := OpsByName[LogicVersion][op.mnem].Version
	if n%5 == 4 {
		v = minv + uint64(rnd.Intn(int(LogicVersion-minv)+1))
	}
	app := n%9 == 8 && v >= appsEnabledVersion
	e.run(op, v, app, args...)
}

func vC32EdgeInts() []uint64 {
	g := []uint64{0, 1, 2, 3, 7, 8, 9, 63, 64, 65, 127, 128, 129, 255, 256, 257, 65535, 65536,
		1<<31 - 1, 1 << 31, 1<<32 - 1, 1 << 32, 1<<32 + 1, 1<<33 - 1, 1<<62 - 1, 1 << 62, 1<<63 - 1, 1 << 63, 1<<63 + 1,
		math.MaxUint64 - 2, math.MaxUint64 - 1, math.MaxUint64,
		(1<<32 - 1) * (1<<32 - 1), (1<<32-1)*(1<<32-1) - 1, (1<<32-1)*(1<<32-1) + 1, 3037000499 * 3037000499, 3037000500*3037000500 - 1}
	return g
}

// byte strings for byte math: interesting lengths, leading zeros, extremes
func vC32EdgeBytes(rnd *vRand) [][]byte {
	ff := func(n int) []byte {
		b := make([]byte, n)
		for i := range b {
			b[i] = 0xff
		}
		return b
	}
	one := func(n int) []byte { b := make([]byte, n); b[n-1] = 1; return b }
	top := func(n int) []byte { b := make([]byte, n); b[0] = 1; return b }
	g := [][]byte{{}, {0}, {1}, {2}, {0xff}, {0, 0}, {0, 1}, {1, 0}, {0xff, 0xff}, {0, 0xff, 0xff},
		make([]byte, 8), ff(8), top(9), ff(9), one(8), make([]byte, 63), make([]byte, 64), make([]byte, 65), make([]byte, 66),
		ff(32), ff(63), ff(64), ff(65), one(64), one(65), top(64), top(65), one(66), top(33),
		append([]byte{0}, ff(64)...), append([]byte{0}, ff(63)...), append(make([]byte, 40), ff(24)...)}
	for _, n := range []int{1, 2, 7, 8, 9, 16, 31, 32, 33, 63, 64, 64, 65} {
		g = append(g, rnd.Bytes(n))
	}
	return g
}

func vC32RandBytes(rnd *vRand, maxLen int) []byte {
	var n int
	switch rnd.Intn(8) {
	case 0:
		n = rnd.Intn(4)
	case 1:
		n = 62 + rnd.Intn(5) // around the 64-byte guard
	case 2:
		n = 7 + rnd.Intn(3)
	default:
		n = rnd.Intn(maxLen + 1)
	}
	if n > maxLen {
		n = maxLen
	}
	b := rnd.Bytes(n)
	if n > 0 {
		switch rnd.Intn(6) {
		case 0: // leading zeros
			z := rnd.Intn(n + 1)
			for i := 0; i < z; i++ {
				b[i] = 0
			}
		case 1: // small value in a long string
			for i := 0; i < n-1; i++ {
				b[i] = 0
			}
		case 2:
			for i := range b {
				b[i] = 0xff
			}
		}
	}
	return b
}

func vC32BigBytes(x *big.Int) []byte { return x.Bytes() }

func TestVerifC32(t *testing.T) {
	out := vOpen("cases_c32.txt")
	defer out.Close()
	e := vC32NewEnv(t, out)
	rnd := vNewRand(32)
	nRand := vEnvInt("VERIF_C32_N", 150)
	ops := map[string]vC32Op{}
	for _, o := range vC32Ops {
		ops[o.sym] = o
		if _, ok := OpsByName[LogicVersion][o.mnem]; !ok {
			t.Fatalf("opcode %s missing from the v%d table", o.mnem, LogicVersion)
		}
	}
	ints := vC32EdgeInts()
	bys := vC32EdgeBytes(rnd)
	thorough := vTier() == "thorough"
	// longest strings: the AVM maximum (4096) in the thorough tier; the model's positional decoding of
	// a 32768-bit number is quadratic, so the quick tier uses 512-byte strings for the value-level ops
	bigLen := 512
	if thorough {
		bigLen = maxStringSize
	}

	// ---- every opcode at every version that has it, once in each mode (smoke grid)
	for _, o := range vC32Ops {
		minv := OpsByName[LogicVersion][o.mnem].Version
		for v := minv; v <= LogicVersion; v++ {
			var args []interface{}
			for i, k := range o.kinds {
				switch k {
				case 'i':
					args = append(args, uint64(3+i))
				case 'b':
					args = append(args, []byte{0, 9, byte(i), 7, 1, 2, 3, 200, 5, 6})
				case 'a':
					if (int(v)+i)%2 == 0 {
						args = append(args, uint64(77))
					} else {
						args = append(args, []byte{1, 2, 3})
					}
				}
			}
			e.run(o, v, false, args...)
			if v >= appsEnabledVersion {
				e.run(o, v, true, args...)
			}
		}
	}

	// ---- two-operand uint64 opcodes: full boundary grid + random
	for _, o := range vC32Ops {
		if o.kinds != "ii" {
			continue
		}
		grid := ints
		if !thorough && (o.sym == "lt" || o.sym == "gt" || o.sym == "le" || o.sym == "ge" || o.sym == "and" || o.sym == "or" ||
			o.sym == "bitor" || o.sym == "bitand" || o.sym == "bitxor") {
			grid = ints[:0:0]
			for i, x := range ints {
				if i%2 == 0 || x > math.MaxUint64-3 {
					grid = append(grid, x)
				}
			}
		}
		for _, a := range grid {
			for _, b := range grid {
				e.auto(rnd, o, a, b)
			}
		}
		for i := 0; i < nRand; i++ {
			a, b := rnd.Edge64(), rnd.Edge64()
			switch rnd.Intn(6) {
			case 0:
				b = a
			case 1:
				b = a + 1
			case 2:
				b = a - 1
			}
			e.auto(rnd, o, a, b)
		}
	}
	// mul / plus / minus around the exact overflow boundary
	for i := 0; i < nRand; i++ {
		a := rnd.Edge64()
		if a == 0 {
			a = 1
		}
		q := math.MaxUint64 / a
		for _, b := range []uint64{q - 1, q, q + 1} {
			e.auto(rnd, ops["mul"], a, b)
			e.auto(rnd, ops["mulw"], a, b)
		}
		for _, b := range []uint64{math.MaxUint64 - a - 1, math.MaxUint64 - a, math.MaxUint64 - a + 1} {
			e.auto(rnd, ops["plus"], a, b)
			e.auto(rnd, ops["addw"], a, b)
		}
	}
	// shl / shr: all shift amounts 0..70 on a few values
	for s := uint64(0); s <= 70; s++ {
		for _, a := range []uint64{1, 3, 1 << 63, math.MaxUint64, rnd.U64()} {
			e.auto(rnd, ops["shl"], a, s)
			e.auto(rnd, ops["shr"], a, s)
		}
	}
	// exp: every small base with every exponent up to 70, exact boundary for random bases
	for b := uint64(0); b <= 17; b++ {
		for x := uint64(0); x <= 70; x++ {
			e.auto(rnd, ops["exp"], b, x)
		}
		for x := uint64(0); x <= 135; x++ {
			e.auto(rnd, ops["expw"], b, x)
		}
	}
	lim64 := new(big.Int).Lsh(big.NewInt(1), 64)
	lim128 := new(big.Int).Lsh(big.NewInt(1), 128)
	expBases := []uint64{255, 256, 257, 65535, 65536, 65537, 1<<21 - 1, 1 << 21, 1<<21 + 1, 2642245, 2642246, 1<<32 - 1, 1 << 32, 1<<32 + 1,
		4294967295, 4294967296, 3037000499, 3037000500, 1<<63 - 1, 1 << 63, math.MaxUint64 - 1, math.MaxUint64, 6981463658331, 6981463658332,
		18446744073709551615, 1844674407370955161, 1 << 42, 1<<43 - 1, 7, 10, 100, 1000, 1 << 16}
	for i := 0; i < nRand; i++ {
		expBases = append(expBases, rnd.Edge64(), 2+uint64(rnd.Intn(70000)))
	}
	for _, b := range expBases {
		if b < 2 {
			continue
		}
		// largest exponent that fits, and its successor
		for _, lim := range []*big.Int{lim64, lim128} {
			x := uint64(0)
			acc := big.NewInt(1)
			bb := new(big.Int).SetUint64(b)
			for {
				nx := new(big.Int).Mul(acc, bb)
				if nx.Cmp(lim) >= 0 {
					break
				}
				acc = nx
				x++
			}
			o := ops["exp"]
			if lim == lim128 {
				o = ops["expw"]
			}
			e.auto(rnd, o, b, x)
			e.auto(rnd, o, b, x+1)
			if x > 0 {
				e.auto(rnd, o, b, x-1)
			}
			e.auto(rnd, o, b, rnd.Edge64())
		}
	}
	for _, x := range ints {
		e.auto(rnd, ops["exp"], uint64(0), x)
		e.auto(rnd, ops["exp"], uint64(1), x)
		e.auto(rnd, ops["expw"], uint64(0), x)
		e.auto(rnd, ops["expw"], uint64(1), x)
	}

	// ---- one-operand uint64 opcodes
	for _, o := range vC32Ops {
		if o.kinds != "i" {
			continue
		}
		for _, a := range ints {
			e.auto(rnd, o, a)
		}
		for k := uint(0); k < 64; k++ {
			for _, d := range []uint64{0, 1, math.MaxUint64} { // 2^k, 2^k+1, 2^k-1
				e.auto(rnd, o, (uint64(1)<<k)+d)
			}
		}
		for i := 0; i < 4*nRand; i++ {
			e.auto(rnd, o, rnd.Edge64())
		}
	}
	// sqrt: r^2-1, r^2, r^2+1, r^2+2r (= (r+1)^2-1) for boundary and random roots
	roots := []uint64{1, 2, 3, 255, 256, 65535, 65536, 1<<31 - 1, 1 << 31, 1<<32 - 2, 1<<32 - 1, 3037000499, 3037000500, 2147483648, 4294967295}
	for i := 0; i < 6*nRand; i++ {
		roots = append(roots, rnd.U64()>>(32+uint(rnd.Intn(32))))
	}
	for _, r := range roots {
		sq := r * r
		for _, x := range []uint64{sq - 1, sq, sq + 1, sq + 2*r, sq + 2*r + 1} {
			e.auto(rnd, ops["sqrt"], x)
		}
	}
	// bitlen on both types
	for _, a := range ints {
		e.auto(rnd, ops["bitlen"], a)
	}
	for _, b := range bys {
		e.auto(rnd, ops["bitlen"], b)
	}
	for i := 0; i < 2*nRand; i++ {
		e.auto(rnd, ops["bitlen"], vC32RandBytes(rnd, 200))
		e.auto(rnd, ops["bitlen"], rnd.Edge64())
	}
	e.auto(rnd, ops["bitlen"], make([]byte, 4096))
	e.auto(rnd, ops["bitlen"], append([]byte{0x80}, make([]byte, 4095)...))

	// ---- divw / divmodw
	for _, hi := range ints {
		for _, y := range []uint64{0, 1, hi - 1, hi, hi + 1, math.MaxUint64, rnd.Edge64()} {
			for _, lo := range []uint64{0, 1, math.MaxUint64, rnd.U64()} {
				e.auto(rnd, ops["divw"], hi, lo, y)
			}
		}
	}
	for i := 0; i < 6*nRand; i++ {
		y := rnd.Edge64()
		hi := rnd.Edge64()
		if y > 0 && i%3 != 0 {
			hi = rnd.U64() % y
		}
		e.auto(rnd, ops["divw"], hi, rnd.Edge64(), y)
	}
	small := []uint64{0, 1, 2, math.MaxUint64, 1 << 63, 1<<32 + 1}
	for _, a := range small {
		for _, b := range small {
			for _, c := range small {
				for _, d := range small {
					e.auto(rnd, ops["divmodw"], a, b, c, d)
				}
			}
		}
	}
	for i := 0; i < 10*nRand; i++ {
		a, b, c, d := rnd.Edge64(), rnd.Edge64(), rnd.Edge64(), rnd.Edge64()
		switch rnd.Intn(5) {
		case 0:
			c = 0
		case 1:
			c, d = a, b
		case 2:
			c = a
		}
		e.auto(rnd, ops["divmodw"], a, b, c, d)
	}

	// ---- == / != on both types and mixed types
	for _, o := range []vC32Op{ops["eq"], ops["neq"]} {
		for _, a := range ints[:12] {
			for _, b := range ints[:12] {
				e.auto(rnd, o, a, b)
			}
		}
		for _, a := range bys {
			for _, b := range bys {
				if len(a)+len(b) < 40 || rnd.Intn(4) == 0 {
					e.auto(rnd, o, a, b)
				}
			}
			e.auto(rnd, o, a, append([]byte{}, a...))
			e.auto(rnd, o, a, uint64(len(a)))
			e.auto(rnd, o, uint64(0), a)
		}
		for i := 0; i < nRand; i++ {
			a := vC32RandBytes(rnd, 100)
			b := append([]byte{}, a...)
			if len(b) > 0 && rnd.Bool() {
				b[rnd.Intn(len(b))] ^= 1 << uint(rnd.Intn(8))
			}
			e.auto(rnd, o, a, b)
			e.auto(rnd, o, rnd.Edge64(), rnd.Edge64())
		}
	}

	// ---- btoi / itob round trip material
	for n := 0; n <= 10; n++ {
		for i := 0; i < 6; i++ {
			b := rnd.Bytes(n)
			if i == 0 {
				b = make([]byte, n)
			} else if i == 1 {
				for j := range b {
					b[j] = 0xff
				}
			} else if i == 2 && n > 0 {
				b[0] = 0
			}
			e.auto(rnd, ops["btoi"], b)
		}
	}
	e.auto(rnd, ops["btoi"], make([]byte, 4096))

	// ---- byte math: grid over the edge strings + random up to 66 bytes (528 bits)
	bm := []string{"bplus", "bminus", "bmul", "bdiv", "bmod", "blt", "bgt", "ble", "bge", "beq", "bneq"}
	for _, name := range bm {
		o := ops[name]
		for i, a := range bys {
			for j, b := range bys {
				if thorough || (i+j)%3 == 0 || i == j {
					e.auto(rnd, o, a, b)
				}
			}
		}
		for i := 0; i < 3*nRand; i++ {
			a, b := vC32RandBytes(rnd, 66), vC32RandBytes(rnd, 66)
			switch rnd.Intn(8) {
			case 0:
				b = append([]byte{}, a...)
			case 1: // same value, different padding
				b = append(make([]byte, rnd.Intn(3)), a...)
			case 2: // b = a +- 1 as numbers (minimal encoding)
				x := new(big.Int).SetBytes(a)
				if rnd.Bool() || x.Sign() == 0 {
					x.Add(x, big.NewInt(1))
				} else {
					x.Sub(x, big.NewInt(1))
				}
				b = vC32BigBytes(x)
			case 3: // exact multiple / off by one for div, mod
				x := new(big.Int).SetBytes(a)
				y := new(big.Int).SetBytes(rnd.Bytes(1 + rnd.Intn(20)))
				x.Mul(x, y)
				if rnd.Bool() {
					x.Sub(x, big.NewInt(1))
				}
				if x.Sign() >= 0 && len(x.Bytes()) <= 64 {
					a, b = vC32BigBytes(x), vC32BigBytes(y)
				}
			}
			e.auto(rnd, o, a, b)
		}
	}
	for _, a := range bys {
		e.auto(rnd, ops["bsqrt"], a)
	}
	for i := 0; i < 4*nRand; i++ {
		a := vC32RandBytes(rnd, 66)
		e.auto(rnd, ops["bsqrt"], a)
		if i%2 == 0 { // perfect squares +- 1
			r := new(big.Int).SetBytes(rnd.Bytes(1 + rnd.Intn(32)))
			sq := new(big.Int).Mul(r, r)
			e.auto(rnd, ops["bsqrt"], vC32BigBytes(sq))
			e.auto(rnd, ops["bsqrt"], vC32BigBytes(new(big.Int).Add(sq, big.NewInt(1))))
			if sq.Sign() > 0 {
				e.auto(rnd, ops["bsqrt"], vC32BigBytes(new(big.Int).Sub(sq, big.NewInt(1))))
			}
		}
	}

	// ---- bitwise byte ops (no 64-byte guard; lengths differ)
	for _, name := range []string{"bor", "band", "bxor"} {
		o := ops[name]
		for i, a := range bys {
			for j, b := range bys {
				if thorough || (i+2*j)%4 == 0 {
					e.auto(rnd, o, a, b)
				}
			}
		}
		for i := 0; i < 2*nRand; i++ {
			e.auto(rnd, o, vC32RandBytes(rnd, 120), vC32RandBytes(rnd, 120))
		}
		e.auto(rnd, o, rnd.Bytes(bigLen), rnd.Bytes(bigLen-96))
		e.auto(rnd, o, rnd.Bytes(1), rnd.Bytes(bigLen))
	}
	for _, a := range bys {
		e.auto(rnd, ops["bnot"], a)
	}
	for i := 0; i < 2*nRand; i++ {
		e.auto(rnd, ops["bnot"], vC32RandBytes(rnd, 150))
	}
	e.auto(rnd, ops["bnot"], rnd.Bytes(bigLen))

	// ---- getbit / setbit / getbyte / setbyte
	for _, tgt := range []uint64{0, 1, 1 << 63, math.MaxUint64, rnd.U64(), rnd.U64()} {
		for idx := uint64(0); idx <= 66; idx++ {
			e.auto(rnd, ops["getbit"], tgt, idx)
			for bit := uint64(0); bit <= 2; bit++ {
				if bit < 2 || idx%16 == 0 {
					e.auto(rnd, ops["setbit"], tgt, idx, bit)
				}
			}
		}
		e.auto(rnd, ops["getbit"], tgt, uint64(math.MaxUint64))
		e.auto(rnd, ops["setbit"], tgt, uint64(math.MaxUint64), uint64(1))
		e.auto(rnd, ops["setbit"], tgt, uint64(3), uint64(math.MaxUint64))
	}
	for n := 0; n <= 5; n++ {
		for rep := 0; rep < 2; rep++ {
			b := rnd.Bytes(n)
			for idx := uint64(0); idx <= uint64(8*n+2); idx++ {
				e.auto(rnd, ops["getbit"], b, idx)
				e.auto(rnd, ops["setbit"], b, idx, uint64(0))
				e.auto(rnd, ops["setbit"], b, idx, uint64(1))
			}
			e.auto(rnd, ops["setbit"], b, uint64(0), uint64(2))
			e.auto(rnd, ops["getbit"], b, uint64(math.MaxUint64))
			e.auto(rnd, ops["getbit"], b, uint64(1<<63))
			for idx := uint64(0); idx <= uint64(n+1); idx++ {
				e.auto(rnd, ops["getbyte"], b, idx)
				for _, v := range []uint64{0, 1, 255, 256, math.MaxUint64} {
					e.auto(rnd, ops["setbyte"], b, idx, v)
				}
			}
			e.auto(rnd, ops["getbyte"], b, uint64(math.MaxUint64))
			e.auto(rnd, ops["setbyte"], b, uint64(math.MaxUint64), uint64(7))
		}
	}
	for i := 0; i < 3*nRand; i++ {
		b := vC32RandBytes(rnd, 300)
		idx := uint64(rnd.Intn(8*len(b) + 4))
		e.auto(rnd, ops["getbit"], b, idx)
		e.auto(rnd, ops["setbit"], b, idx, uint64(rnd.Intn(2)))
		bi := uint64(rnd.Intn(len(b) + 2))
		e.auto(rnd, ops["getbyte"], b, bi)
		e.auto(rnd, ops["setbyte"], b, bi, uint64(rnd.Intn(258)))
	}
	{
		b := rnd.Bytes(bigLen)
		for _, idx := range []uint64{0, 7, 8, uint64(8*bigLen - 1), uint64(8 * bigLen), uint64(8*bigLen - 8)} {
			e.auto(rnd, ops["getbit"], b, idx)
			e.auto(rnd, ops["setbit"], b, idx, uint64(1))
		}
		b = rnd.Bytes(4096)
		e.auto(rnd, ops["getbyte"], b, uint64(4095))
		e.auto(rnd, ops["getbyte"], b, uint64(4096))
		e.auto(rnd, ops["setbyte"], b, uint64(4095), uint64(1))
	}

	// ---- extract_uint16/32/64: start around len-n, and starts near 2^64 (end wraps)
	for _, ex := range []struct {
		name string
		n    int
	}{{"extract_uint16", 2}, {"extract_uint32", 4}, {"extract_uint64", 8}} {
		o := ops[ex.name]
		for n := 0; n <= 12; n++ {
			b := rnd.Bytes(n)
			for s := uint64(0); s <= uint64(n+1); s++ {
				e.auto(rnd, o, b, s)
			}
			for _, s := range []uint64{math.MaxUint64, math.MaxUint64 - uint64(ex.n), math.MaxUint64 - uint64(ex.n) + 1, 1 << 63, 1 << 32} {
				e.auto(rnd, o, b, s)
			}
		}
		for i := 0; i < nRand; i++ {
			b := vC32RandBytes(rnd, 100)
			e.auto(rnd, o, b, uint64(rnd.Intn(len(b)+3)))
		}
		b := rnd.Bytes(4096)
		e.auto(rnd, o, b, uint64(4096-ex.n))
		e.auto(rnd, o, b, uint64(4096-ex.n+1))
	}

	// ---- the same opcodes on operands built by other opcodes (stale Uint under Bytes, shared slices, shuffles)
	vC32Producers(e, rnd, ops, thorough)

	// ---- extra random volume (thorough tier): every opcode on random well-typed operands
	extra := vEnvInt("VERIF_C32_EXTRA", 0)
	for i := 0; i < extra; i++ {
		o := vC32Ops[rnd.Intn(len(vC32Ops))]
		var args []interface{}
		for _, k := range o.kinds {
			switch k {
			case 'i':
				args = append(args, rnd.Edge64())
			case 'b':
				args = append(args, vC32RandBytes(rnd, 70))
			case 'a':
				if rnd.Bool() {
					args = append(args, rnd.Edge64())
				} else {
					args = append(args, vC32RandBytes(rnd, 70))
				}
			}
		}
		e.auto(rnd, o, args...)
	}

	perOp := map[string]interface{}{}
	for k, v := range e.perOp {
		perOp[k] = v
	}
	errs := map[string]interface{}{}
	for k, v := range e.errs {
		errs[k] = v
	}
	vStats(map[string]interface{}{"evaluations": e.evals, "application_mode": e.appRuns, "producer_form_cases": e.prodRuns, "alias_copies_modified": e.aliasBroken, "older_versions": e.oldVer,
		"per_opcode": perOp, "error_outcomes_per_opcode": errs, "opcodes": len(vC32Ops)})
	_ = transactions.EvalMaxArgs
}
