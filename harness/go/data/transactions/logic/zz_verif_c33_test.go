//go:build verif

package logic

// C33 harness: assembler / disassembler round trip on the real code.
//
//   a cases: random programs generated FROM opsByOpcode[v] (every version), printed with the
//     ops' names and the real field-name tables, assembled by the real assembler; the bytes,
//     the static check, the disassembly (instruction start pcs), and two re-assemblies of the
//     disassembly (as is / with type tracking switched off) are observed.
//   d cases: random bytecode (table-driven raw encoder with non-minimal varints, arbitrary
//     field bytes, arbitrary branch offsets, byte mutations); static check, disassembly and
//     the re-assemblies, and one more disassemble/assemble round of the result.
//
// An assembly observation is (cls #bytes ocb saltok): cls 0 accepted / 1 rejected / 9 panic,
// ocb = ProgramHashIsEdwards25519Point(the same text assembled with autosalt forced off),
// saltok = the bytes are that base, or base + "intcblock 1 s" with the smallest s < 128 that
// makes the hash leave the curve.

import (
	"bytes"
	"encoding/base64"
	"encoding/hex"
	"fmt"
	"strings"
	"testing"
)

type vC33Asm struct {
	cls    int
	prog   []byte
	ocb    bool
	saltok bool
	err    string
}

func (a vC33Asm) term() []interface{} { return vL(a.cls, a.prog, a.ocb, a.saltok) }

func vC33AssembleRaw(text string, version uint64, track bool) (prog []byte, err error) {
	defer func() {
		if x := recover(); x != nil {
			prog, err = nil, fmt.Errorf("PANIC: %v", x)
		}
	}()
	ops := newOpStream(version)
	if !track {
		ops.typeTracking = false
	}
	err = ops.assemble(text)
	if err != nil {
		var sb strings.Builder
		sb.WriteString(err.Error())
		for _, e := range ops.Errors {
			sb.WriteString(" | ")
			sb.WriteString(e.Error())
		}
		return nil, fmt.Errorf("%s", sb.String())
	}
	return ops.Program, nil
}

// the same text with "#pragma autosalt false" forced (after the version pragma on line 1)
func vC33SaltOff(text string) string {
	lines := strings.Split(text, "\n")
	out := make([]string, 0, len(lines)+1)
	for i, l := range lines {
		if strings.HasPrefix(l, "#pragma autosalt") {
			continue
		}
		out = append(out, l)
		if i == 0 {
			out = append(out, "#pragma autosalt false")
		}
	}
	return strings.Join(out, "\n")
}

func vC33Assemble(text string, version uint64, track bool) vC33Asm {
	prog, err := vC33AssembleRaw(text, version, track)
	if err != nil {
		if strings.HasPrefix(err.Error(), "PANIC") {
			return vC33Asm{cls: 9, err: err.Error(), saltok: true}
		}
		return vC33Asm{cls: 1, err: err.Error(), saltok: true}
	}
	base, err := vC33AssembleRaw(vC33SaltOff(text), version, track)
	if err != nil {
		return vC33Asm{cls: 0, prog: prog, saltok: false, err: "base: " + err.Error()}
	}
	r := vC33Asm{cls: 0, prog: prog, ocb: ProgramHashIsEdwards25519Point(base)}
	switch {
	case bytes.Equal(prog, base):
		r.saltok = true
	case len(prog) == len(base)+3 && bytes.Equal(prog[:len(base)], base) && prog[len(base)+1] == 1 && prog[len(prog)-1] < 128:
		ok := !ProgramHashIsEdwards25519Point(prog)
		cand := append([]byte{}, prog...)
		for s := 0; s < int(prog[len(prog)-1]); s++ {
			cand[len(cand)-1] = byte(s)
			if !ProgramHashIsEdwards25519Point(cand) {
				ok = false
			}
		}
		r.saltok = ok
	}
	return r
}

type vC33Dis struct {
	cls  int
	text string
	pcs  []interface{}
	ocf  bool
}

func (d vC33Dis) term() []interface{} { return vL(d.cls, d.pcs, d.ocf) }

func vC33Disassemble(b []byte) (d vC33Dis) {
	defer func() {
		if x := recover(); x != nil {
			d = vC33Dis{cls: 9, pcs: vL()}
		}
	}()
	text, ds, err := disassembleInstrumented(b, nil)
	d.pcs = vL()
	if err != nil {
		d.cls = 1
		return
	}
	if strings.HasPrefix(text, "//") { // "// invalid version" / "// unsupported version"
		d.cls = 1
		return
	}
	d.text = text
	for _, po := range ds.pcOffset {
		d.pcs = append(d.pcs, po.PC)
	}
	d.ocf = ProgramHashIsEdwards25519Point(b)
	return
}

func vC33CheckClass(mode RunMode, b []byte) int {
	env := vNewEnv(mode, LogicVersion, b, nil, 0, nil)
	err := env.check(b)
	if err == nil {
		return 0
	}
	m := err.Error()
	switch {
	case vIsPanic(err):
		return 22
	case strings.Contains(m, "static cost budget"):
		return 11
	case strings.Contains(m, "not allowed in current mode"):
		return 5
	}
	return 13
}

// ---------------------------------------------------------------- symbolic programs
type vC33Imm struct {
	kind  immKind
	b     byte     // immByte / immInt8
	u     uint64   // immInt
	bs    []byte   // immBytes
	us    []uint64 // immInts
	bss   [][]byte // immBytess
	label int      // immLabel / immVarintLabel
	ls    []int    // immLabels
	group *FieldGroup
	b64   bool // print byte constants as base64(...)
}

type vC33Ins struct {
	spec *OpSpec
	imms []vC33Imm
}

func vC33HexLit(r *vRand, b []byte) string {
	if len(b) > 0 && len(b) < 20 && r.Intn(6) == 0 {
		printable := true
		for _, c := range b {
			if !(c >= 'a' && c <= 'z' || c >= 'A' && c <= 'Z' || c >= '0' && c <= '9' || c == ' ' || c == '_') {
				printable = false
			}
		}
		if printable {
			return "\"" + string(b) + "\""
		}
	}
	if len(b) > 0 {
		switch r.Intn(12) {
		case 0:
			return "base64(" + base64.StdEncoding.EncodeToString(b) + ")"
		case 1:
			return "b64 " + base64.StdEncoding.EncodeToString(b)
		}
	}
	return "0x" + hex.EncodeToString(b)
}

func (ins *vC33Ins) text(r *vRand) string {
	var sb strings.Builder
	sb.WriteString(ins.spec.Name)
	for _, im := range ins.imms {
		switch im.kind {
		case immByte:
			if im.group != nil {
				sb.WriteString(" " + im.group.Names[im.b])
			} else {
				fmt.Fprintf(&sb, " %d", im.b)
			}
		case immInt8:
			fmt.Fprintf(&sb, " %d", int8(im.b))
		case immInt:
			if r.Intn(8) == 0 {
				fmt.Fprintf(&sb, " 0x%x", im.u)
			} else {
				fmt.Fprintf(&sb, " %d", im.u)
			}
		case immBytes:
			sb.WriteString(" " + vC33HexLit(r, im.bs))
		case immInts:
			for _, u := range im.us {
				fmt.Fprintf(&sb, " %d", u)
			}
		case immBytess:
			for _, b := range im.bss {
				if im.b64 {
					sb.WriteString(" base64(" + base64.StdEncoding.EncodeToString(b) + ")")
				} else {
					sb.WriteString(" " + vC33HexLit(r, b))
				}
			}
		case immLabel, immVarintLabel:
			fmt.Fprintf(&sb, " L%d", im.label)
		case immLabels:
			for _, l := range im.ls {
				fmt.Fprintf(&sb, " L%d", l)
			}
		}
	}
	return sb.String()
}

func (ins *vC33Ins) term() []interface{} {
	imms := vL()
	for _, im := range ins.imms {
		switch im.kind {
		case immByte, immInt8:
			imms = append(imms, vL(vSym("b"), im.b))
		case immInt:
			imms = append(imms, vL(vSym("i"), im.u))
		case immBytes:
			imms = append(imms, vL(vSym("x"), im.bs))
		case immInts:
			l := vL(vSym("is"))
			for _, u := range im.us {
				l = append(l, u)
			}
			imms = append(imms, l)
		case immBytess:
			l := vL(vSym("xs"))
			for _, b := range im.bss {
				l = append(l, b)
			}
			imms = append(imms, l)
		case immLabel:
			imms = append(imms, vL(vSym("l"), im.label))
		case immVarintLabel:
			imms = append(imms, vL(vSym("v"), im.label))
		case immLabels:
			l := vL(vSym("ls"))
			for _, k := range im.ls {
				l = append(l, k)
			}
			imms = append(imms, l)
		}
	}
	return vL(ins.spec.Opcode, ins.spec.SubOpcode, imms)
}

// all assemblable specs of a version: named entries of opsByOpcode[v] and their SubOps
func vC33Specs(v uint64) []*OpSpec {
	var out []*OpSpec
	for i := range opsByOpcode[v] {
		e := &opsByOpcode[v][i]
		if e.Name != "" && e.SubOps == nil {
			out = append(out, e)
		}
		for j := range e.SubOps {
			if e.SubOps[j].Name != "" && e.SubOps[j].op != nil {
				out = append(out, &e.SubOps[j])
			}
		}
	}
	return out
}

func vC33ValidFields(g *FieldGroup, v uint64, anyVersion bool) []byte {
	var out []byte
	for i, n := range g.Names {
		if n == "" || i > 255 {
			continue
		}
		fs, ok := g.SpecByName(n)
		if !ok {
			continue
		}
		if anyVersion || fs.Version() <= v {
			out = append(out, byte(i))
		}
	}
	return out
}

func vC33Bytes(r *vRand, big bool) []byte {
	switch r.Intn(30) {
	case 0:
		return []byte{}
	case 1:
		if big {
			return r.Bytes(4096 - r.Intn(2))
		}
	case 2:
		if big && r.Intn(4) == 0 {
			return r.Bytes(4097)
		}
	case 3:
		return r.Bytes(32)
	case 4:
		return r.Bytes(127 + r.Intn(3))
	case 5:
		s := "abc XYZ_09"
		return []byte(s[:1+r.Intn(len(s))])
	}
	return r.Bytes(1 + r.Intn(12))
}

// random immediates for spec at instruction index idx of an n-instruction program
func vC33GenIns(r *vRand, v uint64, spec *OpSpec, idx, n int, big bool) vC33Ins {
	ins := vC33Ins{spec: spec}
	pickLabel := func() int {
		switch r.Intn(10) {
		case 0:
			return n // end of program
		case 1:
			return idx // self
		case 2, 3:
			if v >= backBranchEnabledVersion && idx > 0 {
				return r.Intn(idx + 1)
			}
		}
		return idx + 1 + r.Intn(n-idx)
	}
	for _, im := range spec.Immediates {
		x := vC33Imm{kind: im.kind}
		switch im.kind {
		case immByte:
			if im.Group != nil {
				g := im.Group
				if spec.Name == "itxn_field" && r.Intn(8) != 0 {
					g = &ItxnSettableFields
				}
				fields := vC33ValidFields(g, v, r.Intn(12) == 0)
				if len(fields) == 0 {
					fields = vC33ValidFields(im.Group, v, true)
				}
				x.group = im.Group
				x.b = fields[r.Intn(len(fields))]
			} else if (spec.Name == "intc" || spec.Name == "bytec" || spec.Name == "arg") && r.Intn(5) != 0 {
				x.b = byte(r.Intn(7))
			} else {
				switch r.Intn(6) {
				case 0:
					x.b = byte(r.Intn(6))
				case 1:
					x.b = 255 - byte(r.Intn(2))
				default:
					x.b = byte(r.U64())
				}
			}
		case immInt8:
			x.b = byte(r.U64())
		case immInt:
			x.u = r.Edge64()
		case immBytes:
			x.bs = vC33Bytes(r, big)
		case immInts:
			k := r.Intn(7)
			if r.Intn(40) == 0 {
				k = 130
			}
			for i := 0; i < k; i++ {
				x.us = append(x.us, r.Edge64())
			}
		case immBytess:
			k := r.Intn(5)
			for i := 0; i < k; i++ {
				x.bss = append(x.bss, vC33Bytes(r, big && r.Intn(3) == 0))
			}
		case immLabel, immVarintLabel:
			x.label = pickLabel()
		case immLabels:
			k := r.Intn(5)
			if r.Intn(60) == 0 {
				k = 255 + r.Intn(2)
			}
			for i := 0; i < k; i++ {
				x.ls = append(x.ls, pickLabel())
			}
		}
		ins.imms = append(ins.imms, x)
	}
	return ins
}

type vC33Prog struct {
	v    uint64
	mode RunMode
	salt int // 0 default, 1 on, 2 off
	tt   bool
	labs []int
	ins  []vC33Ins
}

func (p *vC33Prog) text(r *vRand) string {
	var sb strings.Builder
	fmt.Fprintf(&sb, "#pragma version %d\n", p.v)
	if p.tt {
		sb.WriteString("#pragma typetrack false\n")
	}
	switch p.salt {
	case 1:
		sb.WriteString("#pragma autosalt true\n")
	case 2:
		sb.WriteString("#pragma autosalt false\n")
	}
	lab := map[int]bool{}
	for _, l := range p.labs {
		lab[l] = true
	}
	for i := range p.ins {
		if lab[i] {
			if r.Intn(4) == 0 {
				fmt.Fprintf(&sb, "L%d: ", i)
			} else {
				fmt.Fprintf(&sb, "L%d:\n", i)
			}
		}
		sb.WriteString(p.ins[i].text(r))
		if r.Intn(10) == 0 && i+1 < len(p.ins) && !lab[i+1] {
			sb.WriteString("; ")
		} else {
			sb.WriteString("\n")
		}
	}
	if lab[len(p.ins)] {
		fmt.Fprintf(&sb, "L%d:\n", len(p.ins))
	}
	return sb.String()
}

func (p *vC33Prog) refs() []int {
	seen := map[int]bool{}
	var out []int
	add := func(k int) {
		if !seen[k] {
			seen[k] = true
			out = append(out, k)
		}
	}
	for i := range p.ins {
		for _, im := range p.ins[i].imms {
			switch im.kind {
			case immLabel, immVarintLabel:
				add(im.label)
			case immLabels:
				for _, k := range im.ls {
					add(k)
				}
			}
		}
	}
	return out
}

// untyped generator: any sequence of the version's ops allowed in the chosen mode
func vC33GenFree(r *vRand, v uint64, st map[string]int) *vC33Prog {
	p := &vC33Prog{v: v, tt: true}
	p.mode = ModeApp
	if r.Intn(2) == 0 {
		p.mode = ModeSig
	}
	var specs []*OpSpec
	var branches []*OpSpec
	for _, s := range vC33Specs(v) {
		if s.Modes&p.mode != 0 {
			specs = append(specs, s)
			for _, im := range s.Immediates {
				if im.kind == immLabel || im.kind == immVarintLabel || im.kind == immLabels {
					branches = append(branches, s)
				}
			}
		}
	}
	n := 1 + r.Intn(24)
	big := r.Intn(12) == 0
	cblocks := r.Intn(2) == 0
	if big {
		n = 6 + r.Intn(20)
	}
	brHeavy := r.Intn(3) == 0
	for i := 0; i < n; i++ {
		s := specs[r.Intn(len(specs))]
		if brHeavy && r.Intn(3) == 0 {
			s = branches[r.Intn(len(branches))]
		}
		if big && r.Intn(3) == 0 {
			if ps, ok := OpsByName[v]["pushbytes"]; ok {
				s = &ps
			} else {
				ps := OpsByName[v]["bytecblock"]
				s = &ps
			}
		}
		if cblocks && i < 2 && i < n-1 {
			cs := OpsByName[v][[]string{"intcblock", "bytecblock"}[i]]
			s = &cs
		}
		p.ins = append(p.ins, vC33GenIns(r, v, s, i, n, big))
		st["op_"+s.Name]++
	}
	p.labs = p.refs()
	if len(p.labs) > 0 && r.Intn(60) == 0 { // a reference to a label the text does not define
		p.labs = p.labs[1:]
	}
	if r.Intn(8) == 0 { // unreferenced labels
		for k := 0; k < 1+r.Intn(3); k++ {
			p.labs = append(p.labs, r.Intn(n+1))
		}
	}
	switch r.Intn(10) {
	case 0:
		p.salt = 1
	case 1, 2, 3:
		p.salt = 0
	default:
		p.salt = 2
	}
	return p
}

// typed generator: for every op, push constants of its argument types, the op, pop the
// results -- accepted by the type tracker for most ops
func vC33GenTyped(r *vRand, v uint64, st map[string]int) *vC33Prog {
	p := &vC33Prog{v: v, tt: false}
	p.mode = ModeApp
	if r.Intn(2) == 0 {
		p.mode = ModeSig
	}
	byName := func(n string) *OpSpec {
		s, ok := OpsByName[v][n]
		if !ok {
			return nil
		}
		return &s
	}
	var specs []*OpSpec
	for _, s := range vC33Specs(v) {
		if s.Modes&p.mode == 0 {
			continue
		}
		switch s.Name {
		case "b", "bz", "bnz", "callsub", "retsub", "switch", "match", "proto", "err", "return",
			"intcblock", "bytecblock", "intc", "intc_0", "intc_1", "intc_2", "intc_3",
			"bytec", "bytec_0", "bytec_1", "bytec_2", "bytec_3", "frame_dig", "frame_bury",
			"dig", "bury", "cover", "uncover", "popn", "dupn":
			continue
		}
		specs = append(specs, s)
	}
	add := func(s *OpSpec, imms ...vC33Imm) {
		p.ins = append(p.ins, vC33Ins{spec: s, imms: imms})
	}
	hasPush := byName("pushint") != nil
	if !hasPush {
		add(byName("intcblock"), vC33Imm{kind: immInts, us: []uint64{1, 7, r.Edge64()}})
		add(byName("bytecblock"), vC33Imm{kind: immBytess, bss: [][]byte{r.Bytes(8), r.Bytes(32), {}}})
	}
	pushInt := func() {
		if hasPush {
			add(byName("pushint"), vC33Imm{kind: immInt, u: uint64(r.Intn(5))})
		} else {
			add(byName([]string{"intc_0", "intc_1", "intc_2"}[r.Intn(3)]))
		}
	}
	pushBytes := func() {
		if hasPush {
			add(byName("pushbytes"), vC33Imm{kind: immBytes, bs: r.Bytes(r.Intn(9))})
		} else {
			add(byName([]string{"bytec_0", "bytec_1", "bytec_2"}[r.Intn(3)]))
		}
	}
	n := 1 + r.Intn(10)
	for k := 0; k < n; k++ {
		s := specs[r.Intn(len(specs))]
		for _, a := range s.Arg.Types {
			if a.AVMType == avmBytes {
				pushBytes()
			} else {
				pushInt()
			}
		}
		p.ins = append(p.ins, vC33GenIns(r, v, s, len(p.ins), len(p.ins)+1, false))
		st["op_"+s.Name]++
		for range s.Return.Types {
			add(byName("pop"))
		}
	}
	// a forward branch over the tail keeps label handling in the typed stream
	if r.Intn(3) == 0 {
		if bz := byName("bz"); bz != nil {
			pushInt()
			k := vC33Imm{kind: bz.Immediates[0].kind, label: len(p.ins) + 3}
			add(bz, k)
			pushInt()
			add(byName("pop"))
			p.labs = []int{len(p.ins)}
		}
	}
	pushInt()
	p.salt = []int{2, 2, 0, 1}[r.Intn(4)]
	return p
}

// hand-shaped programs: branch distances at the encoding thresholds, loops, switch tables,
// subroutines, constant blocks in dead code behind an unreferenced label
func vC33Scenarios(r *vRand, v uint64) []*vC33Prog {
	var out []*vC33Prog
	spec := func(n string) *OpSpec {
		s, ok := OpsByName[v][n]
		if !ok {
			return nil
		}
		return &s
	}
	mk := func(ins []vC33Ins, extraLabs ...int) {
		p := &vC33Prog{v: v, tt: true, salt: 2, mode: ModeApp, ins: ins}
		p.labs = append(p.refs(), extraLabs...)
		out = append(out, p)
	}
	one := func(n string, imms ...vC33Imm) vC33Ins { return vC33Ins{spec: spec(n), imms: imms} }
	lbl := func(s *OpSpec, k int) vC33Imm { return vC33Imm{kind: s.Immediates[0].kind, label: k} }
	// filler of exactly n >= 3 bytes
	filler := func(n int) vC33Ins {
		if spec("pushbytes") != nil {
			// opcode + varint(len) + len
			l := n - 2
			if l > 127 {
				l = n - 3
			}
			return one("pushbytes", vC33Imm{kind: immBytes, bs: r.Bytes(l)})
		}
		// bytecblock 1 len bytes
		l := n - 3
		if l > 127 {
			l = n - 4
		}
		return one("bytecblock", vC33Imm{kind: immBytess, bss: [][]byte{r.Bytes(l)}})
	}
	bname := "b"
	if spec("b") == nil {
		bname = "bnz"
	}
	b := spec(bname)
	// forward / backward distances around the 1/2/3-byte varint and the int16 limits
	dists := []int{3, 60, 63, 64, 65, 128, 4000}
	if vTier() != "quick" || v == LogicVersion || v == 4 {
		dists = append(dists, 8190, 8191, 8192, 8193, 8194, 8195, 32764, 32765, 32766, 32767, 32768, 32769, 32770, 32771, 40000)
	}
	if vTier() == "thorough" && (v == 4 || v == LogicVersion) {
		dists = append(dists, 16382, 16383, 16384, 16385, 100000, 200000)
	}
	for _, d := range dists {
		var fill []vC33Ins
		for rest := d; rest > 0; {
			n := rest
			if n > 4000 {
				n = 4000
			}
			if rest-n > 0 && rest-n < 3 {
				n -= 3
			}
			fill = append(fill, filler(n))
			rest -= n
		}
		fwd := append([]vC33Ins{one(bname, lbl(b, len(fill)+1))}, fill...)
		mk(fwd)
		if v >= backBranchEnabledVersion {
			back := append(append([]vC33Ins{}, fill...), one(bname, lbl(b, 0)))
			mk(back)
			// a forward branch over a back branch over the filler: sizes depend on each other
			both := append([]vC33Ins{one("bz", lbl(spec("bz"), len(fill)+2))}, fill...)
			both = append(both, one("bnz", lbl(spec("bnz"), 1)))
			mk(both)
		}
	}
	if sw := spec("switch"); sw != nil {
		mk([]vC33Ins{one("switch", vC33Imm{kind: immLabels, ls: []int{0, 1, 2, 3}}), one("match", vC33Imm{kind: immLabels, ls: []int{3, 0}}), one("err")})
		mk([]vC33Ins{one("switch", vC33Imm{kind: immLabels})})
	}
	if cs := spec("callsub"); cs != nil {
		ins := []vC33Ins{one("callsub", lbl(cs, 2)), one("return"), one("retsub")}
		if spec("proto") != nil {
			ins = []vC33Ins{one("callsub", lbl(cs, 2)), one("return"),
				one("proto", vC33Imm{kind: immByte, b: 1}, vC33Imm{kind: immByte, b: 1}),
				one("frame_dig", vC33Imm{kind: immInt8, b: 0xff}), one("retsub"),
				one("proto", vC33Imm{kind: immByte, b: 0}, vC33Imm{kind: immByte, b: 0}), one("retsub")}
		}
		mk(ins)
	}
	// constant blocks behind a dead-code label that nothing references
	ints := vC33Imm{kind: immInts, us: []uint64{1, 2, 3, 4, 5, 6}}
	bss := vC33Imm{kind: immBytess, bss: [][]byte{{1}, {2}, {3}, {4}, {5}, {6}}}
	mk([]vC33Ins{one("err"), one("intcblock", ints), one("intc", vC33Imm{kind: immByte, b: 5})}, 1)
	mk([]vC33Ins{one("err"), one("bytecblock", bss), one("bytec", vC33Imm{kind: immByte, b: 4})}, 1)
	mk([]vC33Ins{one("err"), one("intcblock", ints), one("intc", vC33Imm{kind: immByte, b: 5})})
	mk([]vC33Ins{one("intcblock", ints), one("intc", vC33Imm{kind: immByte, b: 5}), one("intc", vC33Imm{kind: immByte, b: 2}),
		one("bytecblock", bss), one("bytec", vC33Imm{kind: immByte, b: 0}), one("arg", vC33Imm{kind: immByte, b: 1}), one("arg", vC33Imm{kind: immByte, b: 9})})
	out[len(out)-1].mode = ModeSig
	// a constant list whose disassembly is one line of 65534 / 65536 characters (the source,
	// written with base64 literals, is shorter): "<name>" + sum(" 0x" + 2*len)
	if v == 1 || v == 8 || v == LogicVersion {
		for _, name := range []string{"bytecblock", "pushbytess"} {
			if spec(name) == nil {
				continue
			}
			for _, last := range []int{4078, 4079} {
				var items [][]byte
				for i := 0; i < 7; i++ {
					items = append(items, r.Bytes(4096))
				}
				items = append(items, r.Bytes(last))
				mk([]vC33Ins{one(name, vC33Imm{kind: immBytess, bss: items, b64: true})})
			}
		}
	}
	return out
}

// ---------------------------------------------------------------- cascades of varint branches
// findBranchSizes shrinks the 3-byte placeholders sweep by sweep until nothing changes.  These
// layouts need exactly k changing sweeps: k overlapping branches B_1..B_k, the span of B_i
// contains B_{i+1}, and the distance of every B_i is exactly at a varint boundary (forward
// 63 | 8191, backward 64 | 8192) once B_{i+1} has its final size, one byte beyond it before.
// So B_k settles in sweep 1, B_{k-1} in sweep 2, ..., B_1 in sweep k.  m copies in a row make
// m placeholders shrink per sweep.  Forward layout (the backward one is its mirror image):
//   B_1 P B_2 Q L_1: R B_3 Q L_2: R ... B_k Q L_{k-1}: R pad L_k:
type vC33Item struct {
	ins   *vC33Ins
	label string   // a label definition (ins == nil)
	refs  []string // label names referenced by ins (branch: 1, switch: n)
}

// instructions of exactly n >= 2 bytes in total
func vC33Pad(r *vRand, v uint64, n int) []vC33Item {
	ps := OpsByName[v]["pushbytes"]
	one := func(total int) vC33Item {
		l := total - 2
		if total > 129 {
			l = total - 3
		}
		return vC33Item{ins: &vC33Ins{spec: &ps, imms: []vC33Imm{{kind: immBytes, bs: r.Bytes(l)}}}}
	}
	var out []vC33Item
	for n > 0 {
		switch {
		case n == 130:
			out = append(out, one(65), one(65))
			n = 0
		case n <= 4003:
			out = append(out, one(n))
			n = 0
		case n-4000 < 2 || n-4000 == 130:
			out = append(out, one(3900))
			n -= 3900
		default:
			out = append(out, one(4000))
			n -= 4000
		}
	}
	return out
}

func vC33Cascade(r *vRand, v uint64, k, m int, big, back, withSwitch bool, slack int) *vC33Prog {
	bspec := OpsByName[v]["b"]
	bnz := OpsByName[v]["bnz"]
	sw := OpsByName[v]["switch"]
	D, fs := 63, 2 // boundary distance, final size of a chain branch
	if big {
		D, fs = 8191, 3
	}
	if back {
		D++
	}
	D += slack // slack = 1: one byte beyond the boundary, nothing cascades
	const q = 10
	var all []vC33Item
	for c := 0; c < m; c++ {
		lab := func(i int) string { return fmt.Sprintf("c%d_%d", c, i) }
		branch := func(i int) vC33Item {
			sp := &bspec
			if r.Intn(3) == 0 {
				sp = &bnz
			}
			return vC33Item{ins: &vC33Ins{spec: sp, imms: []vC33Imm{{kind: immVarintLabel}}}, refs: []string{lab(i)}}
		}
		qpad := func() []vC33Item {
			if withSwitch && r.Intn(2) == 0 { // switch with 4 labels = 10 bytes
				it := vC33Item{ins: &vC33Ins{spec: &sw, imms: []vC33Imm{{kind: immLabels}}}}
				for j := 0; j < 4; j++ {
					it.refs = append(it.refs, lab(1+r.Intn(k)))
				}
				return []vC33Item{it}
			}
			return vC33Pad(r, v, q)
		}
		var seq []vC33Item
		if k == 1 {
			seq = append(seq, branch(1))
			seq = append(seq, vC33Pad(r, v, D)...)
			seq = append(seq, vC33Item{label: lab(1)})
		} else {
			seq = append(seq, branch(1))
			seq = append(seq, vC33Pad(r, v, D-fs-q)...)
			seq = append(seq, branch(2))
			seq = append(seq, qpad()...)
			seq = append(seq, vC33Item{label: lab(1)})
			for i := 3; i <= k; i++ {
				seq = append(seq, vC33Pad(r, v, D-fs-2*q)...)
				seq = append(seq, branch(i))
				seq = append(seq, qpad()...)
				seq = append(seq, vC33Item{label: lab(i - 1)})
			}
			// B_k: distance D-5, settles in the first sweep
			seq = append(seq, vC33Pad(r, v, D-fs-2*q)...)
			seq = append(seq, vC33Pad(r, v, q+fs-5)...)
			seq = append(seq, vC33Item{label: lab(k)})
		}
		if back {
			for i, j := 0, len(seq)-1; i < j; i, j = i+1, j-1 {
				seq[i], seq[j] = seq[j], seq[i]
			}
		}
		all = append(all, seq...)
	}
	// labels -> instruction indices
	p := &vC33Prog{v: v, tt: true, salt: 2, mode: ModeApp}
	pos := map[string]int{}
	n := 0
	for _, it := range all {
		if it.ins == nil {
			pos[it.label] = n
		} else {
			n++
		}
	}
	for _, it := range all {
		if it.ins == nil {
			continue
		}
		ins := *it.ins
		ins.imms = append([]vC33Imm{}, ins.imms...)
		if len(it.refs) > 0 {
			if ins.imms[0].kind == immLabels {
				for _, l := range it.refs {
					ins.imms[0].ls = append(ins.imms[0].ls, pos[l])
				}
			} else {
				ins.imms[0].label = pos[it.refs[0]]
			}
		}
		p.ins = append(p.ins, ins)
	}
	p.labs = p.refs()
	return p
}

func vC33Cascades(r *vRand, v uint64) []*vC33Prog {
	var out []*vC33Prog
	if v < varintBranchVersion {
		return out
	}
	for _, back := range []bool{false, true} {
		for k := 1; k <= 6; k++ {
			// 1 -> 2 byte boundary: exact (k sweeps), one beyond (no cascade), several chains
			// in a row mixed with switch tables
			out = append(out, vC33Cascade(r, v, k, 1, false, back, false, 0))
			out = append(out, vC33Cascade(r, v, k, 1, false, back, false, 1))
			out = append(out, vC33Cascade(r, v, k, 2+k%2, false, back, true, 0))
			// 2 -> 3 byte boundary
			if k != 5 {
				out = append(out, vC33Cascade(r, v, k, 1, true, back, v == LogicVersion, 0))
			}
			if k == 3 && v == LogicVersion {
				out = append(out, vC33Cascade(r, v, k, 1, true, back, false, 1))
				out = append(out, vC33Cascade(r, v, k, 2, true, back, true, 0))
			}
		}
	}
	return out
}

func vC33RunA(out *vOut, st map[string]int, r *vRand, p *vC33Prog) {
	text := p.text(r)
	ver := uint64(assemblerNoVersion)
	if r.Intn(3) == 0 {
		ver = p.v
	}
	asm := vC33Assemble(text, ver, true)
	if asm.cls == 1 && !p.tt {
		// rejected with type tracking on: fall back to the untracked source
		st["a_typed_reject"]++
		if st["a_typed_reject"] <= 5 {
			st["zz_typed_reject_example: "+asm.err]++
		}
		p.tt = true
		text = p.text(r)
		asm = vC33Assemble(text, ver, true)
	}
	prog := vL()
	for i := range p.ins {
		prog = append(prog, p.ins[i].term())
	}
	labs := vL()
	for _, l := range p.labs {
		labs = append(labs, l)
	}
	chk := 0
	dis := vC33Dis{cls: 1, pcs: vL()}
	re := vC33Asm{cls: 1, saltok: true}
	nt := vC33Asm{cls: 1, saltok: true}
	if asm.cls == 0 {
		st["a_accepted"]++
		chk = vC33CheckClass(p.mode, asm.prog)
		dis = vC33Disassemble(asm.prog)
		if dis.cls == 0 {
			re = vC33Assemble(dis.text, assemblerNoVersion, true)
			nt = vC33Assemble(dis.text, assemblerNoVersion, false)
			if re.cls != 0 && nt.cls == 0 {
				st["a_re_typed_reject"]++
			}
			if nt.cls != 0 {
				st["a_nt_reject"]++
				if st["a_nt_reject"] <= 5 {
					st["zz_nt_reject_example: "+nt.err]++
				}
			}
		}
		if len(asm.prog) > 200 {
			st["a_len_gt200"]++
		}
	} else {
		st["a_rejected"]++
		if st["a_rejected"] <= 8 {
			st["zz_reject_example: "+asm.err]++
		}
	}
	if p.tt {
		st["a_untracked"]++
	} else {
		st["a_tracked"]++
	}
	st[fmt.Sprintf("a_v%02d", p.v)]++
	if len(text) > 20000 {
		text = "" // only kept for reading a replay
	}
	out.Case(vSym("a"), p.v, int(p.mode), p.salt, p.tt, labs, prog,
		asm.term(), chk, dis.term(), re.term(), nt.term(), text)
}

// ---------------------------------------------------------------- raw bytecode
func vC33Uvarint(r *vRand, x uint64, sloppy bool) []byte {
	b := vUvarint(x)
	if sloppy && r.Intn(6) == 0 && len(b) < 9 {
		// non-minimal: set the continuation bit on the last byte and append zero groups
		k := 1 + r.Intn(2)
		b[len(b)-1] |= 0x80
		for i := 0; i < k-1; i++ {
			b = append(b, 0x80)
		}
		b = append(b, 0)
	}
	return b
}

type vC33Raw struct {
	bytes  []byte
	lkind  int // 0 none, 1 int16 at bytes[1:3], 2 varint after opcode, 3 switch table
	target []int
}

func vC33GenRaw(r *vRand, v uint64, mode RunMode, st map[string]int) []byte {
	var specs []*OpSpec
	for _, s := range vC33Specs(v) {
		if s.Modes&mode != 0 || r.Intn(50) == 0 {
			specs = append(specs, s)
		}
	}
	sloppy := r.Intn(3) == 0
	n := 1 + r.Intn(16)
	ins := make([]vC33Raw, n)
	for i := 0; i < n; i++ {
		s := specs[r.Intn(len(specs))]
		st["rawop_"+s.Name]++
		b := []byte{s.Opcode}
		if s.SubOpcode != 0 {
			b = append(b, s.SubOpcode)
		}
		pick := func() int {
			if v >= backBranchEnabledVersion && r.Intn(4) == 0 {
				return r.Intn(i + 1)
			}
			return i + 1 + r.Intn(n-i)
		}
		raw := vC33Raw{}
		for _, im := range s.Immediates {
			switch im.kind {
			case immByte, immInt8:
				if im.Group != nil && r.Intn(10) != 0 {
					f := vC33ValidFields(im.Group, v, r.Intn(6) == 0)
					if len(f) > 0 {
						b = append(b, f[r.Intn(len(f))])
						break
					}
				}
				if r.Intn(3) == 0 {
					b = append(b, byte(r.Intn(6)))
				} else {
					b = append(b, byte(r.U64()))
				}
			case immInt:
				b = append(b, vC33Uvarint(r, r.Edge64(), sloppy)...)
			case immBytes:
				x := r.Bytes(r.Intn(10))
				b = append(b, vC33Uvarint(r, uint64(len(x)), sloppy)...)
				b = append(b, x...)
			case immInts:
				k := r.Intn(6)
				b = append(b, vC33Uvarint(r, uint64(k), sloppy)...)
				for j := 0; j < k; j++ {
					b = append(b, vC33Uvarint(r, r.Edge64(), sloppy)...)
				}
			case immBytess:
				k := r.Intn(4)
				b = append(b, vC33Uvarint(r, uint64(k), sloppy)...)
				for j := 0; j < k; j++ {
					x := r.Bytes(r.Intn(8))
					b = append(b, vC33Uvarint(r, uint64(len(x)), sloppy)...)
					b = append(b, x...)
				}
			case immLabel:
				raw.lkind = 1
				raw.target = []int{pick()}
				b = append(b, 0, 0)
			case immVarintLabel:
				raw.lkind = 2
				raw.target = []int{pick()}
			case immLabels:
				raw.lkind = 3
				k := r.Intn(4)
				b = append(b, byte(k))
				for j := 0; j < k; j++ {
					raw.target = append(raw.target, pick())
					b = append(b, 0, 0)
				}
			}
		}
		raw.bytes = b
		ins[i] = raw
	}
	// layout: varint branch sizes by iteration (start with 1-byte offsets, grow)
	vlen := len(vUvarint(v))
	vsz := make([]int, n)
	for i := range vsz {
		vsz[i] = 1
	}
	var pos []int
	jump := func(i int) int64 {
		t := pos[ins[i].target[0]]
		if t < pos[i] {
			return int64(t - pos[i])
		}
		return int64(t - (pos[i] + 1 + vsz[i]))
	}
	for iter := 0; iter < 8; iter++ {
		pos = make([]int, n+1)
		p := vlen
		for i := 0; i < n; i++ {
			pos[i] = p
			p += len(ins[i].bytes)
			if ins[i].lkind == 2 {
				p += vsz[i]
			}
		}
		pos[n] = p
		changed := false
		for i := 0; i < n; i++ {
			if ins[i].lkind == 2 {
				need := len(vVarint(jump(i)))
				if need > vsz[i] {
					vsz[i] = need
					changed = true
				}
			}
		}
		if !changed {
			break
		}
	}
	out := append([]byte{}, vUvarint(v)...)
	for i := 0; i < n; i++ {
		b := append([]byte{}, ins[i].bytes...)
		end := pos[i+1]
		switch ins[i].lkind {
		case 1:
			off := pos[ins[i].target[0]] - end
			if r.Intn(25) == 0 {
				off += r.Intn(5) - 2
			}
			b[len(b)-2], b[len(b)-1] = byte(off>>8), byte(off)
		case 2:
			j := jump(i)
			if r.Intn(25) == 0 {
				j += int64(r.Intn(5) - 2)
			}
			enc := vVarint(j)
			for len(enc) < vsz[i] { // non-minimal padding keeps the layout
				enc[len(enc)-1] |= 0x80
				enc = append(enc, 0)
			}
			b = append(b, enc...)
		case 3:
			k := len(ins[i].target)
			for j, t := range ins[i].target {
				off := pos[t] - end
				if r.Intn(40) == 0 {
					off += r.Intn(5) - 2
				}
				b[len(b)-2*k+2*j], b[len(b)-2*k+2*j+1] = byte(off>>8), byte(off)
			}
		}
		out = append(out, b...)
	}
	switch r.Intn(12) {
	case 0:
		if len(out) > 1 {
			out[1+r.Intn(len(out)-1)] = byte(r.U64())
		}
	case 1:
		out = out[:1+r.Intn(len(out))]
	case 2:
		out = append(out, r.Bytes(1+r.Intn(3))...)
	}
	return out
}

func vC33RunD(out *vOut, st map[string]int, mode RunMode, b []byte) {
	chk := vC33CheckClass(mode, b)
	dis := vC33Disassemble(b)
	re := vC33Asm{cls: 1, saltok: true}
	nt := vC33Asm{cls: 1, saltok: true}
	fix := vC33Asm{cls: 1, saltok: true}
	if dis.cls == 0 {
		st["d_dis_ok"]++
		re = vC33Assemble(dis.text, assemblerNoVersion, true)
		nt = vC33Assemble(dis.text, assemblerNoVersion, false)
		if re.cls != 0 && nt.cls == 0 {
			st["d_re_typed_reject"]++
		}
		if nt.cls == 0 {
			st["d_nt_ok"]++
			if bytes.Equal(nt.prog, b) {
				st["d_nt_identical"]++
			}
			d2 := vC33Disassemble(nt.prog)
			if d2.cls == 0 {
				fix = vC33Assemble(d2.text, assemblerNoVersion, false)
			}
		} else if st["d_nt_reject"]++; st["d_nt_reject"] <= 8 {
			st["zz_d_reject_example: "+nt.err]++
		}
	}
	if chk == 0 {
		st["d_check_ok"]++
	}
	out.Case(vSym("d"), int(mode), b, chk, dis.term(), re.term(), nt.term(), vL(fix.cls, fix.prog))
}

func TestVerifC33(t *testing.T) {
	if LogicSigOffCurveVersion != 13 || varintBranchInitialSize != 3 || assemblerSaltSearchLimit != 128 ||
		optimizeConstantsEnabledVersion != 4 {
		t.Fatalf("C33: assembler constants changed (model AvmCodecCheck.v must follow)")
	}
	nA := vEnvInt("VERIF_C33_A", 3000)
	nD := vEnvInt("VERIF_C33_D", 3000)
	out := vOpen("cases_c33.txt")
	defer out.Close()
	st := map[string]int{}
	r := vNewRand(0x33)

	// every op of every version once, alone (exhaustive over the tables)
	for v := uint64(0); v <= LogicVersion; v++ {
		for _, s := range vC33Specs(v) {
			p := &vC33Prog{v: v, tt: true, salt: 2, mode: ModeApp}
			if s.Modes&ModeApp == 0 {
				p.mode = ModeSig
			}
			p.ins = []vC33Ins{vC33GenIns(r, v, s, 0, 1, false)}
			p.labs = p.refs()
			vC33RunA(out, st, r, p)
			st["a_single"]++
		}
	}
	for v := uint64(0); v <= LogicVersion; v++ {
		for _, p := range vC33Scenarios(r, v) {
			vC33RunA(out, st, r, p)
			st["a_scenario"]++
		}
	}
	for v := uint64(0); v <= LogicVersion; v++ {
		for _, p := range vC33Cascades(r, v) {
			before := st["a_accepted"]
			vC33RunA(out, st, r, p)
			st["a_cascade"]++
			st["a_cascade_accepted"] += st["a_accepted"] - before
		}
	}
	for i := 0; i < nA; i++ {
		v := uint64(r.Intn(LogicVersion + 1))
		if r.Intn(4) == 0 {
			v = uint64(LogicVersion - r.Intn(3))
		}
		var p *vC33Prog
		if r.Intn(2) == 0 {
			p = vC33GenTyped(r, v, st)
		} else {
			p = vC33GenFree(r, v, st)
		}
		vC33RunA(out, st, r, p)
	}
	// every field byte of every field-taking op of the last version, as raw bytecode
	for _, s := range vC33Specs(LogicVersion) {
		for k, im := range s.Immediates {
			if im.Group == nil || len(s.Immediates) > 2 {
				continue
			}
			for f := 0; f < 256; f++ {
				if vTier() == "quick" && f > len(im.Group.Names)+1 && f < 254 {
					continue
				}
				b := []byte{LogicVersion, s.Opcode}
				for j := range s.Immediates {
					if j == k {
						b = append(b, byte(f))
					} else {
						b = append(b, 1)
					}
				}
				mode := ModeApp
				if s.Modes&ModeApp == 0 {
					mode = ModeSig
				}
				vC33RunD(out, st, mode, b)
				st["d_fieldbyte"]++
			}
		}
	}
	for i := 0; i < nD; i++ {
		v := uint64(r.Intn(LogicVersion + 1))
		if r.Intn(4) == 0 {
			v = uint64(LogicVersion - r.Intn(3))
		}
		mode := ModeApp
		if r.Intn(3) == 0 {
			mode = ModeSig
		}
		b := vC33GenRaw(r, v, mode, st)
		vC33RunD(out, st, mode, b)
	}
	stats := map[string]interface{}{}
	for k, n := range st {
		stats[k] = n
	}
	vStats(stats)
}
