//go:build verif

package bookkeeping

// C26 harness: drives the real UpgradeState.applyUpgradeVote and BlockHeader.PreCheck.
//
//   (hist CONS S0 r0 (VOTE...) (STATE...))   a chain of accepted blocks: the votes of rounds r0, r0+1, ...
//                                            and the implementation's UpgradeState after each block
//   (step CONS S r VOTE RES)                 one call from an arbitrary state; RES = (ok STATE) | (err sym)
//   (pre CONS prevRound PREVSTATE hdrRound VOTE HDRSTATE IMPLSTEP OBS)
//                                            PreCheck of a header against its predecessor; IMPLSTEP is the result of the
//                                            implementation's own applyUpgradeVote(prevRound+1, VOTE) on PREVSTATE
//
// CONS is the part of config.Consensus the case can touch, READ BACK from the running code's
// table when the case is written: ((version voteRounds threshold defaultWait minWait maxWait maxVersionLen) ...);
// a version that is not listed is unsupported.  Histories are enumerated EXHAUSTIVELY (every
// vote sequence over a small alphabet up to a depth) for several small parameter tables
// registered in config.Consensus under test names, plus long random histories; single steps
// and PreCheck are also run under the parameters of every real protocol version.

import (
	"sort"
	"strings"
	"testing"

	"github.com/algorand/go-algorand/config"
	"github.com/algorand/go-algorand/crypto"
	"github.com/algorand/go-algorand/data/basics"
	"github.com/algorand/go-algorand/protocol"
)

const (
	vVerA    = protocol.ConsensusVersion("vA")
	vVerB    = protocol.ConsensusVersion("vB")
	vVerU    = protocol.ConsensusVersion("vU") // never registered
	vVerLong = protocol.ConsensusVersion("vLONGNAME")
)

type vUP struct {
	vr, th, def, min, max uint64
	maxlen                int
}

func (p vUP) params() config.ConsensusParams {
	return config.ConsensusParams{UpgradeVoteRounds: p.vr, UpgradeThreshold: p.th, DefaultUpgradeWaitRounds: p.def,
		MinUpgradeWaitRounds: p.min, MaxUpgradeWaitRounds: p.max, MaxVersionStringLen: p.maxlen}
}

// the table entries for the given versions, read from the running code's config.Consensus
func vC26Cons(vers ...protocol.ConsensusVersion) []interface{} {
	seen := map[protocol.ConsensusVersion]bool{}
	res := []interface{}{}
	for _, v := range vers {
		if seen[v] {
			continue
		}
		seen[v] = true
		if p, ok := config.Consensus[v]; ok {
			res = append(res, vL(string(v), p.UpgradeVoteRounds, p.UpgradeThreshold, p.DefaultUpgradeWaitRounds,
				p.MinUpgradeWaitRounds, p.MaxUpgradeWaitRounds, int64(p.MaxVersionStringLen)))
		}
	}
	return res
}

func vC26State(s UpgradeState) []interface{} {
	return vL(string(s.CurrentProtocol), string(s.NextProtocol), uint64(s.NextProtocolApprovals),
		uint64(s.NextProtocolVoteBefore), uint64(s.NextProtocolSwitchOn))
}

func vC26Vote(v UpgradeVote) []interface{} {
	return vL(string(v.UpgradePropose), uint64(v.UpgradeDelay), v.UpgradeApprove)
}

func vC26ErrSym(err error) vSym {
	m := err.Error()
	switch {
	case strings.Contains(m, "unsupported protocol"):
		return "unsupported"
	case strings.Contains(m, "new proposal during existing proposal"):
		return "during"
	case strings.Contains(m, "too long"):
		return "toolong"
	case strings.Contains(m, "out of permissible range"):
		return "range"
	case strings.Contains(m, "nonzero when not proposing"):
		return "nonzero"
	case strings.Contains(m, "approval without an active proposal"):
		return "noproposal"
	case strings.Contains(m, "approval after vote deadline"):
		return "late"
	}
	return "unknown_error"
}

func vC26Res(s UpgradeState, err error) []interface{} {
	if err != nil {
		return vL(vSym("err"), vC26ErrSym(err))
	}
	return vL(vSym("ok"), vC26State(s))
}

type vC26Ctx struct {
	out                                    *vOut
	seen                                   map[string]struct{}
	nHist, nStep, nPre, nSwitch, nRejected int
	nPreOk, nPreRej, histBlocks            int
	errKinds                               map[string]int
}

func (c *vC26Ctx) line(s string) bool {
	if _, ok := c.seen[s]; ok {
		return false
	}
	c.seen[s] = struct{}{}
	c.out.Line(s)
	return true
}

func (c *vC26Ctx) step(s UpgradeState, r uint64, v UpgradeVote) (UpgradeState, error) {
	res, err := s.applyUpgradeVote(basics.Round(r), v)
	return res, err
}

func (c *vC26Ctx) emitStep(s UpgradeState, r uint64, v UpgradeVote, res UpgradeState, err error) {
	l := vT(vSym("step"), vC26Cons(s.CurrentProtocol, s.NextProtocol, v.UpgradePropose), vC26State(s), r, vC26Vote(v), vC26Res(res, err))
	if c.line(l) {
		c.nStep++
		if err != nil {
			c.errKinds[string(vC26ErrSym(err))]++
		}
	}
}

func (c *vC26Ctx) emitHist(s0 UpgradeState, r0 uint64, votes []UpgradeVote, states []UpgradeState, vers ...protocol.ConsensusVersion) {
	if len(votes) == 0 {
		return
	}
	vs := make([]interface{}, len(votes))
	ss := make([]interface{}, len(states))
	prev := s0
	for i := range votes {
		vs[i] = vC26Vote(votes[i])
		ss[i] = vC26State(states[i])
		if states[i].CurrentProtocol != prev.CurrentProtocol {
			c.nSwitch++
		}
		prev = states[i]
	}
	// histories are distinct by construction (distinct paths / random): no de-duplication set
	c.out.Line(vT(vSym("hist"), vC26Cons(vers...), vC26State(s0), r0, vs, ss))
	c.nHist++
	c.histBlocks += len(votes)
}

// PreCheck of a header built so that every check other than the upgrade-related ones passes.
func (c *vC26Ctx) emitPre(prevRound uint64, prevState UpgradeState, hdrRound uint64, vote UpgradeVote, hdrState UpgradeState) {
	prev := BlockHeader{Round: basics.Round(prevRound), GenesisID: "verif", UpgradeState: prevState}
	bh := BlockHeader{Round: basics.Round(hdrRound), GenesisID: "verif", UpgradeVote: vote, UpgradeState: hdrState}
	bh.Branch = prev.Hash()
	if params, ok := config.Consensus[hdrState.CurrentProtocol]; ok {
		if params.EnableSha512BlockHash {
			bh.Branch512 = prev.Hash512()
		}
		if params.SupportGenesisHash {
			bh.GenesisHash = crypto.Digest{1}
		}
		bh.Bonus = NextBonus(prev, &params)
		bh.CongestionTax = NextCongestionTax(prev.Load, prev.CongestionTax)
	}
	err := bh.PreCheck(prev)
	var obs interface{}
	switch {
	case err == nil:
		obs = vSym("ok")
	case strings.Contains(err.Error(), "BlockHeader.PreCheck: protocol"):
		obs = vSym("unsupported")
	case strings.Contains(err.Error(), "block round incorrect"):
		obs = vSym("badround")
	case strings.Contains(err.Error(), "UpgradeState mismatch"):
		obs = vSym("mismatch")
	case strings.Contains(err.Error(), "applyUpgradeVote:"):
		obs = vL(vSym("uerr"), vC26ErrSym(err))
	default:
		obs = vL(vSym("other"), err.Error())
	}
	is, ierr := prevState.applyUpgradeVote(basics.Round(prevRound+1), vote)
	l := vT(vSym("pre"), vC26Cons(prevState.CurrentProtocol, prevState.NextProtocol, vote.UpgradePropose, hdrState.CurrentProtocol),
		prevRound, vC26State(prevState), hdrRound, vC26Vote(vote), vC26State(hdrState), vC26Res(is, ierr), obs)
	if c.line(l) {
		c.nPre++
		if err == nil {
			c.nPreOk++
		} else {
			c.nPreRej++
		}
	}
}

// header variants for one accepted (or rejected) block: the right header and one-field deviations
func (c *vC26Ctx) preVariants(rnd *vRand, prevState UpgradeState, r uint64, vote UpgradeVote, next UpgradeState, err error) {
	prevRound := r - 1
	if err != nil {
		c.emitPre(prevRound, prevState, r, vote, prevState)
		return
	}
	c.emitPre(prevRound, prevState, r, vote, next)
	m := next
	switch rnd.Intn(7) {
	case 0:
		m.NextProtocolApprovals++
	case 1:
		m.NextProtocolVoteBefore++
	case 2:
		m.NextProtocolSwitchOn += basics.Round(1 + rnd.Intn(2))
	case 3:
		if m.NextProtocol == "" {
			m.NextProtocol = vVerB
		} else {
			m.NextProtocol = ""
		}
	case 4: // claims the upgrade already happened / did not happen
		if m.CurrentProtocol == vVerA {
			m.CurrentProtocol = vVerB
		} else {
			m.CurrentProtocol = vVerA
		}
	case 5: // wrong round
		c.emitPre(prevRound, prevState, r+uint64(1+rnd.Intn(2)), vote, next)
		c.emitPre(prevRound, prevState, r-1, vote, next)
		return
	case 6: // keeps the previous state although the vote changes it (or vice versa)
		m = prevState
		if m == next {
			m.NextProtocolSwitchOn ^= 1
		}
	}
	c.emitPre(prevRound, prevState, r, vote, m)
}

func vC26Other(cur protocol.ConsensusVersion) protocol.ConsensusVersion {
	if cur == vVerA {
		return vVerB
	}
	return vVerA
}

// the vote alphabet of the exhaustive enumeration in a given state
func vC26Alphabet(cur protocol.ConsensusVersion, delays []uint64) []UpgradeVote {
	t := vC26Other(cur)
	al := []UpgradeVote{{}, {UpgradeApprove: true}}
	for _, d := range delays {
		al = append(al, UpgradeVote{UpgradePropose: t, UpgradeDelay: basics.Round(d)})
		al = append(al, UpgradeVote{UpgradePropose: t, UpgradeDelay: basics.Round(d), UpgradeApprove: true})
	}
	al = append(al,
		UpgradeVote{UpgradePropose: vVerU, UpgradeDelay: basics.Round(delays[len(delays)-1]), UpgradeApprove: true},
		UpgradeVote{UpgradePropose: vVerLong},
		UpgradeVote{UpgradeDelay: 1},
		UpgradeVote{UpgradeDelay: 1, UpgradeApprove: true})
	return al
}

func TestVerifC26(t *testing.T) {
	out := vOpen("cases_c26.txt")
	defer out.Close()
	c := &vC26Ctx{out: out, seen: map[string]struct{}{}, errKinds: map[string]int{}}
	rnd := vNewRand(26)
	depth := vEnvInt("VERIF_C26_DEPTH", 7)
	nRandHist := vEnvInt("VERIF_C26_HIST", 300)
	nStep := vEnvInt("VERIF_C26_STEP", 6000)
	maxLeaves := vEnvInt("VERIF_C26_MAXLEAVES", 400000)
	defer func() {
		delete(config.Consensus, vVerA)
		delete(config.Consensus, vVerB)
	}()

	// ---------- (1) exhaustive histories under small parameter tables ----------
	type table struct {
		a, b   vUP
		delays []uint64
	}
	tables := []table{
		{vUP{2, 1, 1, 0, 2, 2}, vUP{1, 1, 0, 0, 1, 2}, []uint64{0, 1, 2, 3}},
		{vUP{3, 2, 0, 0, 2, 2}, vUP{2, 2, 2, 1, 2, 2}, []uint64{0, 1, 2}},
		{vUP{2, 2, 2, 1, 3, 2}, vUP{2, 2, 2, 1, 3, 2}, []uint64{0, 1, 3}},
		{vUP{1, 0, 0, 0, 1, 2}, vUP{0, 0, 0, 0, 0, 2}, []uint64{0, 1}},
		{vUP{2, 3, 1, 0, 1, 2}, vUP{0, 1, 1, 0, 1, 2}, []uint64{0, 1}},
		{vUP{3, 3, 1, 1, 1, 2}, vUP{1, 1, 1, 0, 2, 1}, []uint64{0, 1}},
	}
	if vTier() == "thorough" {
		tables = append(tables,
			table{vUP{4, 3, 2, 0, 3, 2}, vUP{3, 1, 1, 1, 2, 2}, []uint64{0, 2, 3}},
			table{vUP{2, 1, 0, 0, 0, 2}, vUP{2, 2, 0, 0, 2, 2}, []uint64{0, 1}})
	}
	leaves := 0
	truncated := false
	for ti, tb := range tables {
		config.Consensus[vVerA] = tb.a.params()
		config.Consensus[vVerB] = tb.b.params()
		r0 := uint64(1)
		if ti%2 == 1 {
			r0 = 1000 + uint64(ti)
		}
		s0 := UpgradeState{CurrentProtocol: vVerA}
		votes := make([]UpgradeVote, 0, depth)
		states := make([]UpgradeState, 0, depth)
		var dfs func(s UpgradeState, r uint64)
		dfs = func(s UpgradeState, r uint64) {
			if len(votes) == depth {
				c.emitHist(s0, r0, votes, states, vVerA, vVerB)
				leaves++
				return
			}
			if leaves >= maxLeaves {
				truncated = true
				return
			}
			extended := false
			for _, v := range vC26Alphabet(s.CurrentProtocol, tb.delays) {
				res, err := c.step(s, r, v)
				if rnd.Intn(16) == 0 {
					c.preVariants(rnd, s, r, v, res, err)
				}
				if err != nil {
					c.nRejected++
					c.emitStep(s, r, v, res, err)
					continue
				}
				extended = true
				votes = append(votes, v)
				states = append(states, res)
				dfs(res, r+1)
				votes = votes[:len(votes)-1]
				states = states[:len(states)-1]
			}
			if !extended { // stuck (e.g. switched to an unsupported protocol): the chain ends here
				c.emitHist(s0, r0, votes, states, vVerA, vVerB)
				leaves++
			}
		}
		dfs(s0, r0)
	}

	// ---------- (2) long random histories, random tables, large rounds ----------
	for h := 0; h < nRandHist; h++ {
		mk := func() vUP {
			vr := uint64(rnd.Intn(9))
			min := uint64(rnd.Intn(3))
			return vUP{vr, uint64(rnd.Intn(int(vr) + 2)), uint64(rnd.Intn(6)), min, min + uint64(rnd.Intn(6)), 2 + rnd.Intn(2)}
		}
		pa, pb := mk(), mk()
		config.Consensus[vVerA] = pa.params()
		config.Consensus[vVerB] = pb.params()
		r0 := uint64(1 + rnd.Intn(50))
		if h%3 == 0 {
			r0 = (uint64(1) << uint(20+rnd.Intn(43))) + uint64(rnd.Intn(1000))
		}
		approveP := []int{20, 50, 80, 95}[rnd.Intn(4)]
		n := 20 + rnd.Intn(60)
		s0 := UpgradeState{CurrentProtocol: vVerA}
		s, r := s0, r0
		var votes []UpgradeVote
		var states []UpgradeState
		for len(votes) < n {
			cur := config.Consensus[s.CurrentProtocol]
			var v UpgradeVote
			if s.NextProtocol == "" {
				if rnd.Intn(100) < 35 {
					v.UpgradePropose = vC26Other(s.CurrentProtocol)
					if rnd.Intn(12) == 0 {
						v.UpgradePropose = vVerU
					}
					v.UpgradeDelay = basics.Round(cur.MinUpgradeWaitRounds + uint64(rnd.Intn(int(cur.MaxUpgradeWaitRounds-cur.MinUpgradeWaitRounds)+1)))
					if rnd.Intn(10) == 0 {
						v.UpgradeDelay = basics.Round(rnd.Intn(int(cur.MaxUpgradeWaitRounds) + 3))
					}
					v.UpgradeApprove = rnd.Intn(100) < approveP
				}
			} else if r < uint64(s.NextProtocolVoteBefore) {
				v.UpgradeApprove = rnd.Intn(100) < approveP
			}
			if rnd.Intn(25) == 0 { // malformed stream
				al := vC26Alphabet(s.CurrentProtocol, []uint64{0, 1, 7})
				v = al[rnd.Intn(len(al))]
			}
			res, err := c.step(s, r, v)
			if rnd.Intn(8) == 0 {
				c.preVariants(rnd, s, r, v, res, err)
			}
			if err != nil {
				c.nRejected++
				c.emitStep(s, r, v, res, err)
				if vC26ErrSym(err) == "unsupported" {
					break
				}
				continue
			}
			votes = append(votes, v)
			states = append(states, res)
			s, r = res, r+1
		}
		c.emitHist(s0, r0, votes, states, vVerA, vVerB)
	}

	// ---------- (3) single steps + PreCheck from arbitrary states, real protocol versions included ----------
	config.Consensus[vVerA] = vUP{3, 2, 1, 0, 4, 2}.params()
	config.Consensus[vVerB] = vUP{2, 1, 0, 1, 3, 2}.params()
	var real []protocol.ConsensusVersion
	for v := range config.Consensus {
		if v != vVerA && v != vVerB {
			real = append(real, v)
		}
	}
	sort.Slice(real, func(i, j int) bool { return real[i] < real[j] })
	pickVer := func() protocol.ConsensusVersion {
		switch rnd.Intn(8) {
		case 0:
			return vVerU
		case 1, 2:
			return vVerA
		case 3:
			return vVerB
		case 4:
			return protocol.ConsensusCurrentVersion
		default:
			return real[rnd.Intn(len(real))]
		}
	}
	near := func(x uint64) uint64 { return x + uint64(rnd.Intn(3)) - 1 }
	for i := 0; i < nStep; i++ {
		cur := pickVer()
		p := config.Consensus[cur] // zero value when unsupported
		var s UpgradeState
		s.CurrentProtocol = cur
		var r uint64
		if i%2 == 0 {
			// consistent state around the interesting rounds of a pending proposal
			prop := uint64(1 + rnd.Intn(1000000))
			if rnd.Intn(4) == 0 {
				prop = rnd.Edge64() >> 1
			}
			d := p.MinUpgradeWaitRounds
			if p.MaxUpgradeWaitRounds > p.MinUpgradeWaitRounds {
				d += rnd.U64() % (p.MaxUpgradeWaitRounds - p.MinUpgradeWaitRounds + 1)
			}
			if d == 0 {
				d = p.DefaultUpgradeWaitRounds
			}
			s.NextProtocol = []protocol.ConsensusVersion{vVerB, vVerA, vVerU, protocol.ConsensusFuture}[rnd.Intn(4)]
			s.NextProtocolVoteBefore = basics.Round(prop + p.UpgradeVoteRounds)
			s.NextProtocolSwitchOn = basics.Round(prop + p.UpgradeVoteRounds + d)
			s.NextProtocolApprovals = basics.Round(near(p.UpgradeThreshold))
			switch rnd.Intn(4) {
			case 0:
				r = near(uint64(s.NextProtocolVoteBefore))
			case 1:
				r = near(uint64(s.NextProtocolSwitchOn))
			case 2:
				r = prop + rnd.U64()%(p.UpgradeVoteRounds+1)
			default:
				r = near(prop)
			}
			if rnd.Intn(6) == 0 { // no proposal pending
				s.NextProtocol, s.NextProtocolApprovals, s.NextProtocolVoteBefore, s.NextProtocolSwitchOn = "", 0, 0, 0
			}
		} else {
			// arbitrary (possibly unreachable) state, boundary-heavy numbers
			s.NextProtocol = []protocol.ConsensusVersion{"", "", vVerB, vVerA, vVerU, vVerLong}[rnd.Intn(6)]
			s.NextProtocolApprovals = basics.Round(rnd.Edge64())
			s.NextProtocolVoteBefore = basics.Round(rnd.Edge64())
			s.NextProtocolSwitchOn = basics.Round(rnd.Edge64())
			r = rnd.Edge64()
			switch rnd.Intn(4) {
			case 0:
				r = near(uint64(s.NextProtocolVoteBefore))
			case 1:
				r = near(uint64(s.NextProtocolSwitchOn))
			}
		}
		var v UpgradeVote
		switch rnd.Intn(6) {
		case 0:
		case 1, 2:
			v.UpgradeApprove = true
		default:
			v.UpgradePropose = []protocol.ConsensusVersion{vVerA, vVerB, vVerU, vVerLong, protocol.ConsensusFuture,
				protocol.ConsensusVersion(strings.Repeat("x", 1+rnd.Intn(140)))}[rnd.Intn(6)]
			v.UpgradeDelay = basics.Round(near(p.MinUpgradeWaitRounds))
			switch rnd.Intn(4) {
			case 0:
				v.UpgradeDelay = basics.Round(near(p.MaxUpgradeWaitRounds))
			case 1:
				v.UpgradeDelay = 0
			case 2:
				v.UpgradeDelay = basics.Round(rnd.Edge64())
			}
			v.UpgradeApprove = rnd.Bool()
		}
		if rnd.Intn(10) == 0 {
			v.UpgradePropose = ""
			v.UpgradeDelay = basics.Round(rnd.Intn(3))
		}
		res, err := c.step(s, r, v)
		c.emitStep(s, r, v, res, err)
		if i%4 == 0 && r > 0 {
			c.preVariants(rnd, s, r, v, res, err)
		}
		if i%16 == 0 { // header claiming a protocol that is not supported
			hs := res
			hs.CurrentProtocol = vVerU
			c.emitPre(r-1, s, r, v, hs)
		}
	}

	vStats(map[string]interface{}{
		"exhaustive_depth": depth, "exhaustive_tables": len(tables), "exhaustive_leaves": leaves, "exhaustive_truncated": truncated,
		"histories": c.nHist, "history_blocks": c.histBlocks, "protocol_switches_in_histories": c.nSwitch,
		"step_cases": c.nStep, "rejected_votes_seen": c.nRejected, "error_kinds": c.errKinds,
		"precheck_cases": c.nPre, "precheck_accepted": c.nPreOk, "precheck_rejected": c.nPreRej,
		"real_versions": len(real),
	})
}
