//go:build verif

package bookkeeping

// C25 harness: runs the real RewardsState.NextRewardsState on boundary-heavy, structured,
// overflow-targeted and chained inputs, under hand-made parameter records AND under every
// protocol version registered in config.Consensus (parameters read from the running code and
// written into each case line).  One case per call:
//   (nrs level rate residue recalc nextRound minBalance interval pendingResidue calcFix pool units OBS)
//   OBS = (ok level' rate' residue' recalc' specialAddrsKept) | (panic)

import (
	"io"
	"sort"
	"testing"

	"github.com/algorand/go-algorand/config"
	"github.com/algorand/go-algorand/data/basics"
	"github.com/algorand/go-algorand/logging"
	"github.com/algorand/go-algorand/protocol"
)

type vC25Params struct {
	minBal, interval uint64
	pending, fix     bool
}

func (p vC25Params) proto() config.ConsensusParams {
	return config.ConsensusParams{MinBalance: p.minBal, RewardsRateRefreshInterval: p.interval,
		PendingResidueRewards: p.pending, RewardsCalculationFix: p.fix}
}

type vC25Stats struct {
	n, refresh, units0, panics, moved, kept int
}

func vC25Run(out *vOut, log logging.Logger, st *vC25Stats, s RewardsState, next uint64, proto config.ConsensusParams, pool, units uint64) (res RewardsState, ok bool) {
	var obs []interface{}
	func() {
		defer func() {
			if r := recover(); r != nil {
				obs = vL(vSym("panic"))
				ok = false
			}
		}()
		res = s.NextRewardsState(basics.Round(next), proto, basics.MicroAlgos{Raw: pool}, units, log)
		kept := res.FeeSink == s.FeeSink && res.RewardsPool == s.RewardsPool
		obs = vL(vSym("ok"), res.RewardsLevel, res.RewardsRate, res.RewardsResidue, uint64(res.RewardsRecalculationRound), kept)
		ok = true
	}()
	out.Case(vSym("nrs"), s.RewardsLevel, s.RewardsRate, s.RewardsResidue, uint64(s.RewardsRecalculationRound), next,
		proto.MinBalance, proto.RewardsRateRefreshInterval, proto.PendingResidueRewards, proto.RewardsCalculationFix,
		pool, units, obs)
	st.n++
	if next == uint64(s.RewardsRecalculationRound) {
		st.refresh++
	}
	if units == 0 {
		st.units0++
	}
	if !ok {
		st.panics++
	} else if res.RewardsLevel != s.RewardsLevel || res.RewardsResidue != s.RewardsResidue {
		st.moved++
	} else {
		st.kept++
	}
	return
}

func TestVerifC25(t *testing.T) {
	out := vOpen("cases_c25.txt")
	defer out.Close()
	log := logging.NewLogger()
	log.SetOutput(io.Discard)
	rnd := vNewRand(25)
	n := vEnvInt("VERIF_C25_N", 4000)
	st := &vC25Stats{}
	var sink, poolAddr basics.Address
	sink[0], poolAddr[0] = 0xfe, 0xff

	mk := func(level, rate, residue, recalc uint64) RewardsState {
		return RewardsState{FeeSink: sink, RewardsPool: poolAddr, RewardsLevel: level, RewardsRate: rate,
			RewardsResidue: residue, RewardsRecalculationRound: basics.Round(recalc)}
	}
	around := func(x uint64) uint64 { return x + uint64(rnd.Intn(5)) - 2 }

	// --- parameters of every registered protocol version, read from the running code
	var versions []protocol.ConsensusVersion
	for v := range config.Consensus {
		versions = append(versions, v)
	}
	sort.Slice(versions, func(i, j int) bool { return versions[i] < versions[j] })
	seenParams := map[vC25Params]bool{}
	var realParams []config.ConsensusParams
	for _, v := range versions {
		cp := config.Consensus[v]
		k := vC25Params{cp.MinBalance, cp.RewardsRateRefreshInterval, cp.PendingResidueRewards, cp.RewardsCalculationFix}
		if !seenParams[k] {
			seenParams[k] = true
			realParams = append(realParams, cp)
		}
	}

	// --- (a) small exhaustive grid: every combination of tiny values (all branch orders)
	small := []uint64{0, 1, 2, 3, 5}
	for _, pending := range []bool{false, true} {
		for _, fix := range []bool{false, true} {
			for _, interval := range []uint64{0, 1, 2} {
				for _, minBal := range []uint64{0, 2} {
					for _, residue := range []uint64{0, 1, 4} {
						for _, rate := range []uint64{0, 3} {
							for _, pool := range small {
								for _, units := range []uint64{0, 1, 2, 3} {
									for _, refresh := range []bool{false, true} {
										next := uint64(7)
										recalc := uint64(9)
										if refresh {
											recalc = next
										}
										vC25Run(out, log, st, mk(1, rate, residue, recalc), next,
											vC25Params{minBal, interval, pending, fix}.proto(), pool, units)
									}
								}
							}
						}
					}
				}
			}
		}
	}

	for i := 0; i < n; i++ {
		// --- (b) boundary-heavy: every argument drawn from the edge distribution
		p := vC25Params{rnd.Edge64(), rnd.Edge64(), rnd.Bool(), rnd.Bool()}
		if i%4 == 0 {
			p.interval = uint64(rnd.Intn(4))
		}
		s := mk(rnd.Edge64(), rnd.Edge64(), rnd.Edge64(), rnd.Edge64())
		next := rnd.Edge64()
		if rnd.Bool() {
			next = uint64(s.RewardsRecalculationRound)
		}
		pool, units := rnd.Edge64(), rnd.Edge64()
		switch rnd.Intn(6) {
		case 0: // pool around what must be kept
			pool = around(p.minBal + s.RewardsResidue)
		case 1:
			pool = around(p.minBal)
		case 2: // units around rate+residue
			units = around(s.RewardsRate + s.RewardsResidue)
		case 3: // level one quotient away from the top
			if units != 0 {
				s.RewardsLevel = around(^uint64(0) - (s.RewardsRate+s.RewardsResidue)/units)
			}
		case 4: // rate + residue around 2^64
			s.RewardsResidue = around(^uint64(0) - s.RewardsRate + 1)
		}
		vC25Run(out, log, st, s, next, p.proto(), pool, units)

		// --- (c) realistic magnitudes under the parameters of a real protocol version
		cp := realParams[rnd.Intn(len(realParams))]
		units = uint64(1+rnd.Intn(10000)) * 1000000
		if i%17 == 0 {
			units = 0
		}
		rate := uint64(rnd.Intn(100)) * 1000000000
		if rnd.Bool() {
			rate = rnd.U64() % (uint64(1) << uint(1+rnd.Intn(50)))
		}
		residue := uint64(0)
		if units > 0 {
			residue = rnd.U64() % units
		}
		level := rnd.U64() % (uint64(1) << uint(1+rnd.Intn(40)))
		recalc := uint64(1+rnd.Intn(100)) * cp.RewardsRateRefreshInterval
		next = recalc - uint64(rnd.Intn(3))
		pool = cp.MinBalance + residue + rate*cp.RewardsRateRefreshInterval/uint64(1+rnd.Intn(3)) + uint64(rnd.Intn(3)) - 1
		if i%5 == 0 {
			pool = around(cp.MinBalance)
		}
		vC25Run(out, log, st, mk(level, rate, residue, recalc), next, cp, pool, units)
	}

	// --- (d) chains: each output is the next input (reachable states; short refresh interval)
	chains := n / 40
	for c := 0; c < chains; c++ {
		p := vC25Params{uint64(rnd.Intn(200000)), uint64(1 + rnd.Intn(6)), rnd.Bool(), rnd.Bool()}
		s := mk(uint64(rnd.Intn(1000)), uint64(rnd.Intn(100000)), 0, uint64(1+rnd.Intn(4)))
		pool := uint64(rnd.Intn(5000000))
		units := uint64(1 + rnd.Intn(50000))
		for r := uint64(1); r <= 20; r++ {
			if rnd.Intn(4) == 0 {
				units = uint64(rnd.Intn(50000))
			}
			if rnd.Intn(10) == 0 { // protocol upgrade mid-chain
				p.pending, p.fix = true, rnd.Bool()
			}
			res, ok := vC25Run(out, log, st, s, r, p.proto(), pool, units)
			if !ok {
				break
			}
			// the evaluator withdraws (level'-level)*units from the pool
			spent := (res.RewardsLevel - s.RewardsLevel) * units
			if spent <= pool {
				pool -= spent
			}
			pool += uint64(rnd.Intn(2000))
			s = res
		}
	}

	vStats(map[string]interface{}{"calls": st.n, "refresh_rounds": st.refresh, "zero_units": st.units0,
		"panics(zero interval)": st.panics, "level_or_residue_moved": st.moved, "level_and_residue_kept": st.kept,
		"distinct_real_param_sets": len(realParams), "registered_versions": len(versions)})
}
