//go:build verif

package account

// C36 harness, persistence layer (data/account/participation.go, account.go:RestoreParticipation).
//
// A case is one sequence of operations on one freshly created PersistedParticipation backed by a
// REAL participation database (FillDBWithParticipationKeys; in-memory SQLite, or a temp file
// that is closed and reopened on every restart):
//     del r dbok  = errCh := part.DeleteOldKeys(r, proto); err := <-errCh
//                   dbok = 0: the harness hides the ParticipationAccount table for the duration
//                   of the call so that the UPDATE fails (the channel must then report an error)
//     restart     = the in-memory participation is dropped and RestoreParticipation(store)
//                   (file variant: the accessor is closed and the file reopened first)
// After Fill and after EVERY operation EVERY round of LO..HI is probed twice: on part.Voting
// (memory) and on the Voting of a fresh RestoreParticipation(store) (what a restart would load).
// Probe of round q: id = basics.OneTimeIDForRound(q, KE); Sign(id, msgA); the real
// OneTimeSignatureVerifier.Verify(id, msgA, sig); codes as in the crypto-level harness:
//     0 empty signature, rejected   1 valid and bound to id/message   2 non-empty, rejected
//     3 empty but accepted          4 valid but also accepted for (b+1,o), (b,o+1) or msgB
// Line: (pp FV LV K KD D LO HI MEM0 DISK0 ((del R DBOK REP MEM DISK) | (restart MEM DISK))...)
//       MEM/DISK = (FirstBatch BatchesIsNil len(Batches) FirstOffset len(Offsets) (codes...))
// plus (ovl FV LV FIRST LAST RES) for Participation.OverlapsInterval (9 = panic).

import (
	"context"
	"database/sql"
	"fmt"
	"os"
	"path/filepath"
	"sync"
	"sync/atomic"
	"testing"

	"github.com/algorand/go-algorand/config"
	"github.com/algorand/go-algorand/crypto"
	"github.com/algorand/go-algorand/data/basics"
	"github.com/algorand/go-algorand/logging"
	"github.com/algorand/go-algorand/protocol"
	"github.com/algorand/go-algorand/util/db"
)

type vC36pMsg struct{ data []byte }

func (m vC36pMsg) ToBeHashed() (protocol.HashID, []byte) { return protocol.TestHashable, m.data }

var vC36pMsgA = vC36pMsg{data: []byte("verif-c36p-vote-A")}
var vC36pMsgB = vC36pMsg{data: []byte("verif-c36p-vote-B")}

var vC36pProbes, vC36pValid, vC36pOps, vC36pDBSeq int64

type vC36pCfg struct {
	fv, lv, k uint64
	kd0       bool   // zero the keyDilution column/field: proto.DefaultKeyDilution is used
	d         uint64 // proto.DefaultKeyDilution passed to DeleteOldKeys
	lo, hi    uint64
	file      bool // temp-file database, closed and reopened on restart
}

func (c *vC36pCfg) kd() uint64 {
	if c.kd0 {
		return 0
	}
	return c.k
}

func (c *vC36pCfg) ke() uint64 {
	if c.kd0 {
		return c.d
	}
	return c.k
}

type vC36pOp struct {
	restart bool
	r       uint64
	dbok    bool
}

func vC36pObs(s *crypto.OneTimeSignatureSecrets, cfg *vC36pCfg) []interface{} {
	ke := cfg.ke()
	v := s.OneTimeSignatureVerifier
	codes := make([]interface{}, 0, cfg.hi-cfg.lo+1)
	for q := cfg.lo; q <= cfg.hi; q++ {
		id := basics.OneTimeIDForRound(basics.Round(q), ke)
		sig := s.Sign(id, vC36pMsgA)
		empty := sig == crypto.OneTimeSignature{}
		ok := v.Verify(id, vC36pMsgA, sig)
		code := 0
		switch {
		case empty && !ok:
			code = 0
		case empty && ok:
			code = 3
		case !empty && !ok:
			code = 2
		default:
			code = 1
			if v.Verify(crypto.OneTimeSignatureIdentifier{Batch: id.Batch + 1, Offset: id.Offset}, vC36pMsgA, sig) ||
				v.Verify(crypto.OneTimeSignatureIdentifier{Batch: id.Batch, Offset: id.Offset + 1}, vC36pMsgA, sig) ||
				v.Verify(id, vC36pMsgB, sig) {
				code = 4
			}
		}
		codes = append(codes, code)
		atomic.AddInt64(&vC36pProbes, 1)
		if code == 1 {
			atomic.AddInt64(&vC36pValid, 1)
		}
	}
	return vL(s.FirstBatch, s.Batches == nil, len(s.Batches), s.FirstOffset, len(s.Offsets), codes)
}

// one live node: the participation in memory and its database
type vC36pNode struct {
	cfg   *vC36pCfg
	part  PersistedParticipation
	store db.Accessor
	path  string // file variant
	name  string
}

func vC36pMust(err error, what string) {
	if err != nil {
		panic(fmt.Sprintf("c36p %s: %v", what, err))
	}
}

func vC36pExec(store db.Accessor, q string, args ...interface{}) error {
	return store.Atomic(func(ctx context.Context, tx *sql.Tx) error {
		_, err := tx.Exec(q, args...)
		return err
	})
}

func vC36pNewNode(cfg *vC36pCfg, dir string) *vC36pNode {
	n := &vC36pNode{cfg: cfg}
	seq := atomic.AddInt64(&vC36pDBSeq, 1)
	var err error
	if cfg.file {
		n.path = filepath.Join(dir, fmt.Sprintf("c36p_%d.sqlite", seq))
		n.store, err = db.MakeAccessor(n.path, false, false)
	} else {
		n.name = fmt.Sprintf("verif_c36p_%d_%d", os.Getpid(), seq)
		n.store, err = db.MakeAccessor(n.name, false, true)
	}
	vC36pMust(err, "open db")
	var addr basics.Address
	addr[0] = byte(seq)
	n.part, err = FillDBWithParticipationKeys(n.store, addr, basics.Round(cfg.fv), basics.Round(cfg.lv), cfg.k)
	vC36pMust(err, "fill")
	if cfg.kd0 {
		vC36pMust(vC36pExec(n.store, "UPDATE ParticipationAccount SET keyDilution=0"), "zero keyDilution")
		n.part.KeyDilution = 0
	}
	return n
}

func (n *vC36pNode) close() {
	n.store.Close()
	if n.path != "" {
		os.Remove(n.path)
		os.Remove(n.path + "-wal")
		os.Remove(n.path + "-shm")
	}
}

// what a restart would load: a fresh RestoreParticipation (file variant: through a second,
// freshly opened accessor on the same file)
func (n *vC36pNode) diskObs() []interface{} {
	store := n.store
	if n.cfg.file {
		var err error
		store, err = db.MakeAccessor(n.path, false, false)
		vC36pMust(err, "reopen for disk probe")
		defer store.Close()
	}
	fresh, err := RestoreParticipation(store)
	vC36pMust(err, "RestoreParticipation (probe)")
	if fresh.KeyDilution != n.cfg.kd() {
		panic("c36p: restored KeyDilution differs")
	}
	return vC36pObs(fresh.Voting, n.cfg)
}

func (n *vC36pNode) obs() (interface{}, interface{}) {
	return vC36pObs(n.part.Voting, n.cfg), n.diskObs()
}

func (n *vC36pNode) apply(op vC36pOp) []interface{} {
	atomic.AddInt64(&vC36pOps, 1)
	if op.restart {
		if n.cfg.file {
			n.store.Close()
			var err error
			n.store, err = db.MakeAccessor(n.path, false, false)
			vC36pMust(err, "reopen")
		}
		var err error
		n.part, err = RestoreParticipation(n.store)
		vC36pMust(err, "RestoreParticipation")
		m, d := n.obs()
		return vL(vSym("restart"), m, d)
	}
	if !op.dbok {
		vC36pMust(vC36pExec(n.store, "ALTER TABLE ParticipationAccount RENAME TO VerifHiddenAccount"), "hide table")
	}
	rep := 9
	func() {
		defer func() {
			if r := recover(); r != nil {
				rep = 9
			}
		}()
		errCh := n.part.DeleteOldKeys(basics.Round(op.r), config.ConsensusParams{DefaultKeyDilution: n.cfg.d})
		if err := <-errCh; err == nil {
			rep = 1
		} else {
			rep = 0
		}
	}()
	if !op.dbok {
		vC36pMust(vC36pExec(n.store, "ALTER TABLE VerifHiddenAccount RENAME TO ParticipationAccount"), "unhide table")
	}
	m, d := n.obs()
	return vL(vSym("del"), op.r, op.dbok, rep, m, d)
}

type vC36pSink struct {
	mu    sync.Mutex
	out   *vOut
	nseq  int
	nops  int
	kinds map[string]int
}

func (k *vC36pSink) runSeq(cfg *vC36pCfg, dir string, ops []vC36pOp, kind string) {
	n := vC36pNewNode(cfg, dir)
	defer n.close()
	m0, d0 := n.obs()
	items := []interface{}{vSym("pp"), cfg.fv, cfg.lv, cfg.k, cfg.kd(), cfg.d, cfg.lo, cfg.hi, m0, d0}
	for _, op := range ops {
		items = append(items, n.apply(op))
	}
	line := vT(items...)
	k.mu.Lock()
	k.out.Line(line)
	k.nseq++
	k.nops += len(ops)
	k.kinds[kind]++
	k.mu.Unlock()
}

func vC36pAlphabet(cfg *vC36pCfg, fails bool) []vC36pOp {
	var ops []vC36pOp
	for r := cfg.lo; r <= cfg.hi; r++ {
		ops = append(ops, vC36pOp{r: r, dbok: true})
	}
	ops = append(ops, vC36pOp{restart: true})
	if fails {
		for r := cfg.lo; r <= cfg.hi; r++ {
			ops = append(ops, vC36pOp{r: r, dbok: false})
		}
	}
	return ops
}

func vC36pEnum(alpha []vC36pOp, depth int, f func([]vC36pOp)) {
	cur := make([]vC36pOp, 0, depth)
	var rec func(d int)
	rec = func(d int) {
		if d == 0 {
			f(append([]vC36pOp(nil), cur...))
			return
		}
		for _, op := range alpha {
			cur = append(cur, op)
			rec(d - 1)
			cur = cur[:len(cur)-1]
		}
	}
	rec(depth)
}

func TestVerifC36P(t *testing.T) {
	logging.Base().SetLevel(logging.Panic) // Sign warns on every round without a key
	out := vOpen("cases_c36p.txt")
	defer out.Close()
	sink := &vC36pSink{out: out, kinds: map[string]int{}}
	depth := vEnvInt("VERIF_C36P_DEPTH", 2)
	nrand := vEnvInt("VERIF_C36P_RAND", 60)
	big := vEnvInt("VERIF_C36P_BIG", 0)
	dir := t.TempDir()

	type job func()
	var jobs []job
	type ex struct {
		cfg   vC36pCfg
		d     int
		fails bool
	}
	// fv/lv chosen so that the range starts and ends inside a batch; lo..hi also covers a round
	// before the range and rounds behind it
	exs := []ex{
		{vC36pCfg{fv: 2, lv: 7, k: 3, d: 5, lo: 1, hi: 9}, depth, true},
		{vC36pCfg{fv: 1, lv: 4, k: 2, d: 2, lo: 0, hi: 5}, depth + 1, false},
		{vC36pCfg{fv: 3, lv: 5, k: 1, d: 1, lo: 2, hi: 6}, depth, true},
		{vC36pCfg{fv: 1, lv: 4, k: 5, d: 7, lo: 0, hi: 5}, depth, true},              // one batch only
		{vC36pCfg{fv: 3, lv: 8, k: 3, kd0: true, d: 3, lo: 2, hi: 9}, depth, false},    // default dilution
		{vC36pCfg{fv: 2, lv: 6, k: 2, kd0: true, d: 3, lo: 1, hi: 8}, depth, false},    // default != generation dilution
		{vC36pCfg{fv: 2, lv: 5, k: 2, d: 2, lo: 1, hi: 6, file: true}, depth, true},    // file db, real reopen
		{vC36pCfg{fv: 0, lv: 3, k: 2, d: 2, lo: 0, hi: 4}, depth, false},               // fv = 0 (state proof key)
	}
	if big > 0 {
		exs = append(exs,
			ex{vC36pCfg{fv: 2, lv: 7, k: 3, d: 5, lo: 1, hi: 9}, depth + 1, false},
			ex{vC36pCfg{fv: 4, lv: 11, k: 4, d: 4, lo: 3, hi: 12}, depth, true},
			ex{vC36pCfg{fv: 2, lv: 5, k: 2, d: 2, lo: 1, hi: 6, file: true}, depth + 1, false})
	}
	const chunk = 40
	for i := range exs {
		e := exs[i]
		alpha := vC36pAlphabet(&e.cfg, e.fails)
		var seqs [][]vC36pOp
		vC36pEnum(alpha, e.d, func(s []vC36pOp) { seqs = append(seqs, s) })
		for a := 0; a < len(seqs); a += chunk {
			part := seqs[a:min(a+chunk, len(seqs))]
			cfg := e.cfg
			jobs = append(jobs, func() {
				for _, s := range part {
					sink.runSeq(&cfg, dir, s, "exhaustive")
				}
			})
		}
	}
	// random longer histories: mostly advancing round by round (offset-only advances inside a
	// batch, then the next batch), restarts and failing writes sprinkled in
	for c := 0; c*10 < nrand; c++ {
		c := c
		jobs = append(jobs, func() {
			rnd := vNewRand(3650 + uint64(c))
			for i := 0; i < 10 && c*10+i < nrand; i++ {
				k := uint64(1 + rnd.Intn(5))
				fv := uint64(1 + rnd.Intn(6))
				lv := fv + uint64(rnd.Intn(14))
				cfg := vC36pCfg{fv: fv, lv: lv, k: k, d: k, lo: fv - 1, hi: lv + 2, kd0: rnd.Intn(5) == 0, file: rnd.Intn(8) == 0}
				if !cfg.kd0 {
					cfg.d = uint64(1 + rnd.Intn(6))
				}
				var ops []vC36pOp
				r := fv - 1
				ln := 4 + rnd.Intn(9)
				for j := 0; j < ln; j++ {
					switch x := rnd.Intn(12); {
					case x == 0 || x == 1:
						ops = append(ops, vC36pOp{restart: true})
					case x == 2:
						ops = append(ops, vC36pOp{r: cfg.lo + uint64(rnd.Intn(int(cfg.hi-cfg.lo+1))), dbok: true})
					default:
						r += uint64(1 + rnd.Intn(2))
						if r > cfg.hi {
							r = cfg.hi
						}
						ops = append(ops, vC36pOp{r: r, dbok: rnd.Intn(6) != 0})
					}
				}
				sink.runSeq(&cfg, dir, ops, "random")
			}
		})
	}

	workers := vEnvInt("VERIF_C36P_WORKERS", 4)
	ch := make(chan job)
	var wg sync.WaitGroup
	for w := 0; w < workers; w++ {
		wg.Add(1)
		go func() {
			defer wg.Done()
			for j := range ch {
				j()
			}
		}()
	}
	for _, j := range jobs {
		ch <- j
	}
	close(ch)
	wg.Wait()

	// OverlapsInterval: all intervals over a small range against a few validity windows
	novl := 0
	for _, w := range [][2]uint64{{3, 6}, {0, 2}, {4, 4}} {
		p := Participation{FirstValid: basics.Round(w[0]), LastValid: basics.Round(w[1])}
		for first := uint64(0); first <= 8; first++ {
			for last := uint64(0); last <= 8; last++ {
				res := 9
				func() {
					defer func() { recover() }()
					if p.OverlapsInterval(basics.Round(first), basics.Round(last)) {
						res = 1
					} else {
						res = 0
					}
				}()
				out.Line(vT(vSym("ovl"), w[0], w[1], first, last, res))
				novl++
			}
		}
	}
	vStats(map[string]interface{}{
		"sequences": sink.nseq, "operations_in_sequences": sink.nops, "operations_executed": vC36pOps,
		"probes_sign_then_verify_executed": vC36pProbes, "probes_valid": vC36pValid,
		"kinds": sink.kinds, "exhaustive_depth": depth, "overlaps_cases": novl,
	})
}
