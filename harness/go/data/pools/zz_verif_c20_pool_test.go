//go:build verif

package pools

// C20, second harness: the block comes out of the REAL transaction pool.
// TransactionPool.Remember (random valid / invalid signed payment groups) -> OnNewBlock /
// recomputeBlockEvaluator -> AssembleBlock (also its empty-block fall-backs) -> FinishBlock ->
// Ledger.Validate with real signature verification on a SECOND ledger with the same state;
// the validator's canonical delta is compared with a second validation on the pool's own ledger
// and with the non-validating eval.Eval, and a few generate-computed header fields are mutated.
// Cases use the format of harness/go/ledger/zz_verif_c20_test.go with modelled = 0.

import (
	"bytes"
	"context"
	"crypto/sha256"
	"fmt"
	"os"
	"path/filepath"
	"sort"
	"strings"
	"testing"
	"time"

	"github.com/stretchr/testify/require"

	"github.com/algorand/go-algorand/agreement"
	"github.com/algorand/go-algorand/config"
	"github.com/algorand/go-algorand/crypto"
	"github.com/algorand/go-algorand/data/basics"
	"github.com/algorand/go-algorand/data/bookkeeping"
	"github.com/algorand/go-algorand/data/committee"
	"github.com/algorand/go-algorand/data/transactions"
	"github.com/algorand/go-algorand/data/transactions/verify"
	"github.com/algorand/go-algorand/ledger"
	"github.com/algorand/go-algorand/ledger/eval"
	"github.com/algorand/go-algorand/ledger/ledgercore"
	"github.com/algorand/go-algorand/logging"
	"github.com/algorand/go-algorand/protocol"
	"github.com/algorand/go-algorand/util/execpool"
)

func vc20pLedger(t *testing.T, name string, accts map[basics.Address]basics.AccountData, sink, rpool basics.Address, hash crypto.Digest, pv protocol.ConsensusVersion) *ledger.Ledger {
	initBlock := bookkeeping.Block{BlockHeader: bookkeeping.BlockHeader{
		GenesisID: "verifc20", GenesisHash: hash,
		UpgradeState: bookkeeping.UpgradeState{CurrentProtocol: pv},
		RewardsState: bookkeeping.RewardsState{FeeSink: sink, RewardsPool: rpool},
	}}
	var err error
	initBlock.TxnCommitments, err = initBlock.PaysetCommit()
	require.NoError(t, err)
	cp := map[basics.Address]basics.AccountData{}
	for a, d := range accts {
		cp[a] = d
	}
	cfg := config.GetDefaultLocal()
	cfg.Archival = true
	// on disk (tmpfs) rather than in memory: with WAL, readers are never refused while the trackers flush
	l, err := ledger.OpenLedger(logging.Base(), name, false, ledgercore.InitState{Block: initBlock, Accounts: cp, GenesisHash: hash}, cfg)
	require.NoError(t, err)
	return l
}

func vc20pCanon(d *ledgercore.StateDelta) []byte {
	var sb strings.Builder
	accts := append([]ledgercore.BalanceRecord(nil), d.Accts.Accts...)
	sort.Slice(accts, func(i, j int) bool { return bytes.Compare(accts[i].Addr[:], accts[j].Addr[:]) < 0 })
	for _, a := range accts {
		fmt.Fprintf(&sb, "A %x %+v\n", a.Addr[:], a.AccountData)
	}
	type txe struct {
		id transactions.Txid
		v  ledgercore.IncludedTransactions
	}
	var txs []txe
	for id, v := range d.Txids {
		txs = append(txs, txe{id, v})
	}
	sort.Slice(txs, func(i, j int) bool { return bytes.Compare(txs[i].id[:], txs[j].id[:]) < 0 })
	for _, x := range txs {
		fmt.Fprintf(&sb, "T %x %d %d\n", x.id[:], x.v.LastValid, x.v.Intra)
	}
	fmt.Fprintf(&sb, "S %d %d %d %d %d\n", d.StateProofNext, d.PrevTimestamp, len(d.Txleases), len(d.Creatables), len(d.KvMods))
	if d.Hdr != nil {
		fmt.Fprintf(&sb, "H %x\n", protocol.Encode(d.Hdr))
	}
	fmt.Fprintf(&sb, "Z %+v\n", d.Totals)
	h := sha256.Sum256([]byte(sb.String()))
	return h[:8]
}

func TestVerifC20Pool(t *testing.T) {
	logging.Base().SetLevel(logging.Panic)
	universes := vEnvInt("VERIF_C20P_UNIVERSES", 2)
	rounds := vEnvInt("VERIF_C20P_ROUNDS", 10)
	out := vOpen("cases_pool.txt")
	defer out.Close()
	stats := map[string]int{}
	backlog := execpool.MakeBacklog(nil, 0, execpool.LowPriority, nil)
	defer backlog.Shutdown()
	ctx := context.Background()
	// FULL blocks out of the real pool: protocols whose MaxTxnBytesPerBlock holds about ten payments,
	// so that recomputeBlockEvaluator runs into ErrNoSpace and generates the block right there
	smallFuture := protocol.ConsensusVersion("verif-c20-small-future")
	smallCurrent := protocol.ConsensusVersion("verif-c20-small-current")
	for name, from := range map[protocol.ConsensusVersion]protocol.ConsensusVersion{smallFuture: protocol.ConsensusFuture, smallCurrent: protocol.ConsensusCurrentVersion} {
		sp := config.Consensus[from]
		sp.MaxTxnBytesPerBlock = 2400
		sp.ApprovedUpgrades = map[protocol.ConsensusVersion]uint64{}
		config.Consensus[name] = sp
	}
	pvs := []protocol.ConsensusVersion{smallFuture, protocol.ConsensusCurrentVersion, smallCurrent, protocol.ConsensusFuture, protocol.ConsensusV39}
	for u := 0; u < universes; u++ {
		r := vNewRand(uint64(2500 + u))
		pv := pvs[u%len(pvs)]
		proto := config.Consensus[pv]
		const nk = 8
		var keys []*crypto.SignatureSecrets
		var addrs []basics.Address
		accts := map[basics.Address]basics.AccountData{}
		for i := 0; i < nk; i++ {
			var seed crypto.Seed
			copy(seed[:], r.Bytes(32))
			k := crypto.GenerateSignatureSecrets(seed)
			keys = append(keys, k)
			addrs = append(addrs, basics.Address(k.SignatureVerifier))
			if i < 6 {
				accts[addrs[i]] = basics.AccountData{MicroAlgos: basics.MicroAlgos{Raw: uint64(2_000_000 + r.Intn(90_000_000))}}
			}
		}
		var sink, rpool basics.Address
		var hash crypto.Digest
		copy(sink[:], r.Bytes(32))
		copy(rpool[:], r.Bytes(32))
		copy(hash[:], r.Bytes(32))
		accts[sink] = basics.AccountData{MicroAlgos: basics.MicroAlgos{Raw: 3_000_000}, Status: basics.NotParticipating}
		accts[rpool] = basics.AccountData{MicroAlgos: basics.MicroAlgos{Raw: 1 << 40}, Status: basics.NotParticipating}
		base := "/dev/shm"
		if _, serr := os.Stat(base); serr != nil {
			base = os.TempDir()
		}
		dir, derr := os.MkdirTemp(base, "verif_c20p_")
		require.NoError(t, derr)
		defer os.RemoveAll(dir)
		l1 := vc20pLedger(t, filepath.Join(dir, "a"), accts, sink, rpool, hash, pv)
		l2 := vc20pLedger(t, filepath.Join(dir, "b"), accts, sink, rpool, hash, pv)
		cfg := config.GetDefaultLocal()
		cfg.TxPoolSize = 2000
		cfg.EnableProcessBlockStats = false
		pool := MakeTransactionPool(l1, cfg, logging.Base(), nil)

		bal := func(a basics.Address) uint64 {
			d, _, _, err := l1.LookupLatest(a)
			require.NoError(t, err)
			return d.MicroAlgos.Raw
		}
		behind := 0 // blocks committed to the ledgers that the pool has not been told about
		var missed []ledgercore.ValidatedBlock
		for rd := 0; rd < rounds; rd++ {
			rnd := l1.Latest() + 1
			// ---- feed the pool
			tFeed := time.Now()
			nrem, nrej := 0, 0
			ng := 4 + r.Intn(10)
			if proto.MaxTxnBytesPerBlock < 100000 {
				ng += 8 // more than one small block's worth
			}
			if behind > 0 {
				ng = 0 // Remember waits a second for OnNewBlock while the pool is behind the ledger
			}
			for g := 0; g < ng; g++ {
				n := 1
				if r.Intn(4) == 0 {
					n = 2 + r.Intn(3)
				}
				var txs []transactions.Transaction
				for i := 0; i < n; i++ {
					s := r.Intn(nk)
					tx := transactions.Transaction{Type: protocol.PaymentTx, Header: transactions.Header{
						Sender: addrs[s], Fee: basics.MicroAlgos{Raw: proto.MinTxnFee + uint64(r.Intn(3))*500},
						FirstValid: rnd - basics.Round(r.Intn(2)), LastValid: rnd + basics.Round(2+r.Intn(20)), GenesisHash: hash, Note: r.Bytes(4)}}
					tx.Receiver = addrs[r.Intn(nk)]
					b := bal(addrs[s])
					switch k := r.Intn(10); {
					case k < 6 && b > 2*proto.MinBalance:
						tx.Amount.Raw = uint64(r.Intn(int((b - proto.MinBalance) / 8)))
						if bal(tx.Receiver) == 0 {
							tx.Amount.Raw += proto.MinBalance
						}
					case k == 6:
						tx.Amount.Raw = b + 1 // overspend
					case k == 7 && s >= 2:
						tx.CloseRemainderTo = addrs[(s+1)%nk] // close
					case k == 8:
						tx.FirstValid, tx.LastValid = rnd+3, rnd+9 // not yet valid
					default:
						tx.Amount.Raw = uint64(r.Intn(1000))
					}
					txs = append(txs, tx)
				}
				if n > 1 {
					var tg transactions.TxGroup
					for _, tx := range txs {
						tg.TxGroupHashes = append(tg.TxGroupHashes, crypto.Digest(tx.ID()))
					}
					gid := crypto.HashObj(tg)
					for i := range txs {
						txs[i].Group = gid
					}
				}
				var stxs []transactions.SignedTxn
				for _, tx := range txs {
					for i := range addrs {
						if addrs[i] == tx.Sender {
							stxs = append(stxs, tx.Sign(keys[i]))
						}
					}
				}
				if err := pool.Remember(stxs); err != nil {
					nrej++
				} else {
					nrem++
				}
			}
			// ---- the pool's proposal
			stats["ms_feed"] += int(time.Since(tFeed).Milliseconds())
			mode := "assembled"
			if behind >= 1 {
				mode = "pool_behind"
			}
			deadline := time.Now().Add(500 * time.Millisecond)
			tAsm := time.Now()
			ub, err := pool.AssembleBlock(rnd, deadline)
			stats["ms_assemble"] += int(time.Since(tAsm).Milliseconds())
			if err != nil || ub == nil {
				t.Logf("universe %d round %d: AssembleBlock: %v", u, rnd, err)
				stats["assemble_error"]++
				out.Case(vSym("c20"), 0, vL(), vL(), uint64(rnd), 0, vL(), vL(), 0, 0, 0, 0, vL(vSym("codes")), vL(vSym("gen"), 0), vL(vSym("fin")),
					vL(vSym("val"), 0, vL()), vL(vSym("digests")), vL(vSym("errs")), vL(vSym("red")), vL(vSym("mut")), vL(vSym("info"), nrem, nrej), vL(vSym("pschk")))
				break
			}
			stats["blocks_"+mode]++
			var seed committee.Seed
			copy(seed[:], r.Bytes(32))
			proposer := addrs[r.Intn(6)]
			blk := ub.FinishBlock(seed, proposer, r.Intn(3) != 0)
			stats["txns_in_blocks"] += len(blk.Payset)
			// the generated header against the generated payset alone
			prevHdr, herr := l1.BlockHdr(rnd - 1)
			require.NoError(t, herr)
			ublk := ub.UnfinishedBlock()
			psBytes, feeSum := 0, uint64(0)
			for _, sib := range ublk.Payset {
				psBytes += sib.GetEncodedLength()
				if sib.Txn.Sender != sink {
					feeSum += sib.Txn.Fee.Raw
				}
			}
			b2i := func(b bool) int {
				if b {
					return 1
				}
				return 0
			}
			pschk := vL(vSym("pschk"), b2i(proto.LoadTracking), proto.MaxTxnBytesPerBlock, psBytes, uint64(ublk.Load),
				b2i(proto.TxnCounter), prevHdr.TxnCounter, len(ublk.Payset), ublk.TxnCounter,
				b2i(proto.Payouts.Enabled), feeSum, ublk.FeesCollected.Raw)
			if psBytes+400 > proto.MaxTxnBytesPerBlock {
				stats["blocks_full"]++
			}

			// ---- validation elsewhere (cold cache, real signatures), on the pool's ledger, without validation
			tVal := time.Now()
			vb2, verr := l2.Validate(ctx, blk, backlog)
			valOK := verr == nil
			digests := []interface{}{}
			errs := []interface{}{}
			mut := []interface{}{}
			var vb1 *ledgercore.ValidatedBlock
			if valOK {
				d2 := vb2.Delta()
				digests = append(digests, vc20pCanon(&d2))
				errs = append(errs, 0)
				var e1 error
				vb1, e1 = l1.Validate(ctx, blk, backlog)
				if e1 != nil {
					errs = append(errs, 1)
					digests = append(digests, []byte{})
				} else {
					d1 := vb1.Delta()
					errs = append(errs, 0)
					digests = append(digests, vc20pCanon(&d1))
				}
				d3, e3 := eval.Eval(ctx, l2, blk, false, verify.MakeVerifiedTransactionCache(100), nil, nil)
				if e3 != nil {
					errs = append(errs, 1)
					digests = append(digests, []byte{})
				} else {
					errs = append(errs, 0)
					digests = append(digests, vc20pCanon(&d3))
				}
				// the generator's own delta differs from the validator's only in fee sink and proposer
				ud := ub.UnfinishedDeltas()
				for _, br := range ud.Accts.Accts {
					if br.Addr == sink || br.Addr == proposer {
						continue
					}
					v, ok := d2.Accts.GetData(br.Addr)
					if !ok || v != br.AccountData {
						errs = append(errs, 1)
						stats["generator_delta_differs"]++
					}
				}
				type m struct {
					name string
					ok   bool
					f    func(b *bookkeeping.Block)
				}
				for _, x := range []m{
					{"txn_counter_up", true, func(b *bookkeeping.Block) { b.TxnCounter++ }},
					{"fees_collected_up", true, func(b *bookkeeping.Block) { b.FeesCollected.Raw++ }},
					{"payout_up", true, func(b *bookkeeping.Block) {
						b.BlockHeader.ProposerPayout.Raw = ub.UnfinishedBlock().ProposerPayout().Raw + 1
					}},
					{"load_up", true, func(b *bookkeeping.Block) { b.Load++ }},
					{"rewards_residue", true, func(b *bookkeeping.Block) { b.RewardsResidue++ }},
					{"txn_root", true, func(b *bookkeeping.Block) { b.TxnCommitments.NativeSha512_256Commitment[0] ^= 1 }},
					{"ad_closing", len(blk.Payset) > 0, func(b *bookkeeping.Block) {
						b.Payset = append(transactions.Payset(nil), b.Payset...)
						b.Payset[0].ClosingAmount.Raw++
					}},
					{"drop_txn", len(blk.Payset) > 0, func(b *bookkeeping.Block) { b.Payset = b.Payset[:len(b.Payset)-1] }},
				} {
					rej := 0
					if x.ok {
						mb := blk
						x.f(&mb)
						if _, merr := l2.Validate(ctx, mb, backlog); merr != nil {
							rej = 1
						} else {
							stats["mut_ACCEPTED_"+x.name]++
						}
					}
					b := 0
					if x.ok {
						b = 1
					}
					mut = append(mut, vL(vSym(x.name), b, rej))
				}
			} else {
				t.Logf("universe %d round %d (%s): the pool's block was rejected: %v", u, rnd, mode, verr)
				stats["validate_rejected"]++
			}
			v := 0
			if valOK {
				v = 1
			}
			out.Case(vSym("c20"), 0, vL(), vL(), uint64(rnd), blk.Bonus.Raw, vL(), vL(), 0, 0, 0, 0, vL(vSym("codes")),
				vL(vSym("gen"), 1, vL(), vL(), vL()), vL(vSym("fin"), 0, blk.ProposerPayout().Raw), vL(vSym("val"), v, vL()),
				append([]interface{}{vSym("digests")}, digests...), append([]interface{}{vSym("errs")}, errs...),
				vL(vSym("red")), append([]interface{}{vSym("mut")}, mut...), vL(vSym("info"), len(blk.Payset), nrej), pschk)
			if !valOK {
				break
			}
			// ---- commit; sometimes the pool hears about it late (empty-block fall-back next time)
			stats["ms_validate_mutants"] += int(time.Since(tVal).Milliseconds())
			tCommit := time.Now()
			require.NoError(t, l1.AddValidatedBlock(*vb1, agreement.Certificate{}))
			require.NoError(t, l2.AddValidatedBlock(*vb2, agreement.Certificate{}))
			l1.WaitForCommit(rnd)
			l2.WaitForCommit(rnd)
			stats["ms_commit"] += int(time.Since(tCommit).Milliseconds())
			missed = append(missed, *vb1)
			behind++
			if behind < 2 && r.Intn(5) == 0 && rd+2 < rounds {
				stats["late_notifications"]++
				continue
			}
			tNote := time.Now()
			for _, m := range missed {
				pool.OnNewBlock(m.Block(), m.Delta())
			}
			stats["ms_on_new_block"] += int(time.Since(tNote).Milliseconds())
			missed, behind = nil, 0
		}
		pool.Shutdown()
		l1.Close()
		l2.Close()
	}
	m := map[string]interface{}{}
	for k, v := range stats {
		m[k] = v
	}
	vStats(m)
}
