//go:build verif

package pools

// C44 harness: drives the REAL TransactionPool on real test ledgers through random histories
// of submissions (valid, overspending, below-min-balance, duplicate, double-spending, lease
// clashes, expired / early / over-long windows, low fees, close-outs, well-formed and malformed
// groups, state proofs) interleaved with blocks (assembled from the pool, built externally from
// subsets of the pending groups plus conflicting outside transactions, empty) and OnNewBlock
// calls (real delta, empty delta, repeated, delayed).  One line per history (see
// coq/model/TxPoolCheck.v for the format).  After every pool call the harness records the
// pool's observable state and, independently of the pool, replays the pending groups on a fresh
// evaluator started on the ledger's latest block (the spec oracle), together with the pool's
// other views of what it holds (PendingTxIDs, Lookup, PendingCount).

import (
	"encoding/binary"
	"errors"
	"sort"
	"testing"
	"time"

	"github.com/stretchr/testify/require"

	"github.com/algorand/go-algorand/agreement"
	"github.com/algorand/go-algorand/config"
	"github.com/algorand/go-algorand/crypto"
	"github.com/algorand/go-algorand/crypto/merklesignature"
	"github.com/algorand/go-algorand/data/basics"
	"github.com/algorand/go-algorand/data/bookkeeping"
	"github.com/algorand/go-algorand/data/transactions"
	"github.com/algorand/go-algorand/ledger"
	"github.com/algorand/go-algorand/ledger/ledgercore"
	"github.com/algorand/go-algorand/logging"
	"github.com/algorand/go-algorand/protocol"
	"github.com/algorand/go-algorand/stateproof"
	"github.com/algorand/go-algorand/stateproof/verify"
)

const c44SmallProto = protocol.ConsensusVersion("verif-c44-small-blocks")

type c44Tx struct {
	id                 int
	stxn               transactions.SignedTxn
	kind               int
	snd, rcv, cls      int
	amt, fee, fv, lv   uint64
	lease              int
	enc, ib            int
}

type c44World struct {
	t        *testing.T
	r        *vRand
	l        *ledger.Ledger
	pool     *TransactionPool
	proto    config.ConsensusParams
	hdr0     bookkeeping.BlockHeader
	secrets  []*crypto.SignatureSecrets
	addrs    []basics.Address
	addrNum  map[basics.Address]int
	nextAddr int
	byTxid   map[transactions.Txid]*c44Tx
	all      []*c44Tx
	groups   [][]*c44Tx // every group built so far
	noteCtr  uint64
	leaseOff int
	ops      []interface{}
	maxsize  int
	stale    *int
	sp       []*c44Tx // valid state-proof transactions, in order
	accum    bool
	scripted bool
	stat     map[string]int
	// what the calls made so far oblige the pool to: esync = an OnNewBlock for a block at or
	// above evalRound was delivered since the ledger last grew (then the pool must work on latest+1)
	esync     bool
	evalRound basics.Round
}

func (w *c44World) num(a basics.Address) int {
	if a.IsZero() {
		return 0
	}
	if a == transactions.StateProofSender {
		return 2
	}
	if n, ok := w.addrNum[a]; ok {
		return n
	}
	w.addrNum[a] = w.nextAddr
	w.nextAddr++
	return w.addrNum[a]
}

func (w *c44World) balance(a basics.Address) uint64 {
	d, _, err := w.l.LookupWithoutRewards(w.l.Latest(), a)
	require.NoError(w.t, err)
	return d.MicroAlgos.Raw
}

// register a signed transaction (same txid -> same descriptor)
func (w *c44World) reg(stxn transactions.SignedTxn, kind int) *c44Tx {
	id := stxn.ID()
	if x, ok := w.byTxid[id]; ok {
		return x
	}
	x := &c44Tx{id: len(w.all) + 1, stxn: stxn, kind: kind}
	tx := stxn.Txn
	x.snd = w.num(tx.Sender)
	x.fee, x.fv, x.lv = tx.Fee.Raw, uint64(tx.FirstValid), uint64(tx.LastValid)
	if tx.Lease != [32]byte{} {
		x.lease = int(tx.Lease[0]) + 256*int(tx.Lease[1])
	}
	if kind == 0 {
		x.rcv = w.num(tx.Receiver)
		x.cls = w.num(tx.CloseRemainderTo)
		x.amt = tx.Amount.Raw
	} else {
		x.amt = uint64(tx.StateProofTxnFields.Message.LastAttestedRound)
	}
	x.enc = stxn.GetEncodedLength()
	stib, err := w.hdr0.EncodeSignedTxn(stxn, transactions.ApplyData{})
	require.NoError(w.t, err)
	x.ib = stib.GetEncodedLength()
	w.byTxid[id] = x
	w.all = append(w.all, x)
	return x
}

func c44GroupHash(g []transactions.SignedTxn) crypto.Digest {
	var tg transactions.TxGroup
	for _, s := range g {
		tx := s.Txn
		tx.Group = crypto.Digest{}
		tg.TxGroupHashes = append(tg.TxGroupHashes, crypto.Digest(tx.ID()))
	}
	return crypto.HashObj(tg)
}

// descriptor of a group as submitted / committed
func (w *c44World) groupTerm(g []*c44Tx) []interface{} {
	stx := make([]transactions.SignedTxn, len(g))
	for i, x := range g {
		stx[i] = x.stxn
	}
	want := c44GroupHash(stx)
	other := map[crypto.Digest]int{}
	out := make([]interface{}, 0, len(g))
	for _, x := range g {
		gid := 0
		gr := x.stxn.Txn.Group
		if !gr.IsZero() {
			if gr == want {
				gid = 1
			} else {
				if _, ok := other[gr]; !ok {
					other[gr] = 2 + len(other)
				}
				gid = other[gr]
			}
		}
		out = append(out, vL(x.id, x.kind, x.snd, x.rcv, x.amt, x.fee, x.fv, x.lv, x.lease, x.cls, x.enc, x.ib, gid))
	}
	return out
}

func c44Stxns(g []*c44Tx) []transactions.SignedTxn {
	out := make([]transactions.SignedTxn, len(g))
	for i, x := range g {
		out[i] = x.stxn
	}
	return out
}

func (w *c44World) freshEval() BlockEvaluator {
	latest := w.l.Latest()
	prev, err := w.l.BlockHdr(latest)
	require.NoError(w.t, err)
	next := bookkeeping.MakeBlock(prev)
	ev, err := w.l.StartEvaluator(next.BlockHeader, 0, 0, nil)
	require.NoError(w.t, err)
	return ev
}

// the spec oracle: an independent evaluator on the latest block; a group is fed the way a
// proposer would (a full block starts the next one; a transaction must still be alive in the
// block it lands in).  Returns the index of the first rejected pending group (-1: none) and
// whether cand is accepted after them (2: not asked / pending already failed).
func (w *c44World) oracle(pending [][]transactions.SignedTxn, cand []transactions.SignedTxn, ask bool) (int, int) {
	ev := w.freshEval()
	blocks := basics.Round(0)
	feed := func(g []transactions.SignedTxn) error {
		try := func() error {
			for _, s := range g {
				if s.Txn.LastValid < ev.Round()+blocks {
					return errors.New("dead in its block")
				}
			}
			return ev.TransactionGroup(transactions.WrapSignedTxnsWithAD(g)...)
		}
		err := try()
		if err == ledgercore.ErrNoSpace {
			blocks++
			ev.ResetTxnBytes()
			err = try()
		}
		return err
	}
	for i, g := range pending {
		if err := feed(g); err != nil {
			if vEnvInt("VERIF_C44_DEBUG", 0) == 1 {
				println("DEBUG oracle replay", i, "latest", uint64(w.l.Latest()), err.Error())
			}
			return i, 2
		}
	}
	if !ask {
		return -1, 2
	}
	if err := feed(cand); err != nil {
		return -1, 0
	}
	return -1, 1
}

func (w *c44World) inSync() bool {
	w.pool.mu.Lock()
	defer w.pool.mu.Unlock()
	return w.pool.pendingBlockEvaluator != nil && w.pool.pendingBlockEvaluator.Round() == w.l.Latest()+1
}

func (w *c44World) obs(res string) []interface{} {
	pend := w.pool.PendingTxGroups()
	ids := make([]interface{}, 0, len(pend))
	raw := make([][]transactions.SignedTxn, 0, len(pend))
	nsp := 0
	for _, g := range pend {
		gi := make([]interface{}, 0, len(g))
		for _, s := range g {
			x, ok := w.byTxid[s.ID()]
			if !ok {
				w.t.Fatalf("pool holds a transaction the harness never built")
			}
			gi = append(gi, x.id)
		}
		ids = append(ids, gi)
		raw = append(raw, g)
		if len(g) == 1 && g[0].Txn.Type == protocol.StateProofTx {
			nsp++
		}
	}
	sync := w.inSync()
	replay := -1
	if w.esync {
		replay, _ = w.oracle(raw, nil, false)
	}
	w.pool.mu.Lock()
	npwb := uint64(w.pool.numPendingWholeBlocks)
	ftm := w.pool.feeThresholdMultiplier
	w.pool.mu.Unlock()
	w.pool.pendingMu.RLock()
	over := w.pool.stateproofOverflowed
	w.pool.pendingMu.RUnlock()
	// the pool's other views of what it holds (sorted by harness id): PendingTxIDs(), every
	// transaction the harness ever built that Lookup() reports as still in the pool, PendingCount()
	held := make([]int, 0)
	for _, txid := range w.pool.PendingTxIDs() {
		x, ok := w.byTxid[txid]
		if !ok {
			w.t.Fatalf("PendingTxIDs holds a transaction the harness never built")
		}
		held = append(held, x.id)
	}
	sort.Ints(held)
	heldT := make([]interface{}, len(held))
	for i, v := range held {
		heldT[i] = v
	}
	lkp := make([]interface{}, 0)
	for _, x := range w.all {
		if _, txErr, found := w.pool.Lookup(x.stxn.ID()); found && txErr == "" {
			lkp = append(lkp, x.id)
		}
	}
	return vL(vSym(res), ids, nsp, over, npwb, ftm, w.pool.FeePerByte(), sync, w.esync, replay, heldT, lkp, w.pool.PendingCount())
}

func (w *c44World) remember(g []*c44Tx) string {
	stx := c44Stxns(g)
	would := 2
	if w.esync {
		_, would = w.oracle(w.pool.PendingTxGroups(), stx, true)
	}
	err := w.pool.Remember(stx)
	res := "ok"
	if err != nil {
		res = ClassifyTxPoolError(err)
	}
	w.stat["rem_"+res]++
	w.ops = append(w.ops, vL(vSym("rem"), w.groupTerm(g), would, w.obs(res)))
	return res
}

// ---- building transactions ----
func (w *c44World) lease(k int) [32]byte {
	var l [32]byte
	if k != 0 {
		v := w.leaseOff + k
		l[0], l[1] = byte(v), byte(v>>8)
	}
	return l
}

func (w *c44World) pay(snd int, rcv basics.Address, amt, fee, fv, lv uint64, lease int, cls basics.Address) transactions.Transaction {
	w.noteCtr++
	note := make([]byte, 8)
	binary.LittleEndian.PutUint64(note, w.noteCtr)
	return transactions.Transaction{
		Type: protocol.PaymentTx,
		Header: transactions.Header{
			Sender: w.addrs[snd], Fee: basics.MicroAlgos{Raw: fee}, FirstValid: basics.Round(fv), LastValid: basics.Round(lv),
			Note: note, GenesisHash: w.hdr0.GenesisHash, Lease: w.lease(lease),
		},
		PaymentTxnFields: transactions.PaymentTxnFields{Receiver: rcv, Amount: basics.MicroAlgos{Raw: amt}, CloseRemainderTo: cls},
	}
}

// sign (and group) transactions; mode 0: proper group id (none for a singleton), 1: no group id,
// 2: group id computed over one more member (incomplete), 3: last member carries another id,
// 4: proper group id even for a singleton
func (w *c44World) finish(txs []transactions.Transaction, snds []int, mode int) []*c44Tx {
	n := len(txs)
	if (n > 1 && mode == 0) || mode >= 2 {
		tmp := make([]transactions.SignedTxn, 0, n+1)
		for _, tx := range txs {
			tmp = append(tmp, transactions.SignedTxn{Txn: tx})
		}
		if mode == 2 {
			extra := w.pay(snds[0], w.addrs[snds[0]], 0, w.proto.MinTxnFee, uint64(txs[0].FirstValid), uint64(txs[0].LastValid), 0, basics.Address{})
			tmp = append(tmp, transactions.SignedTxn{Txn: extra})
		}
		h := c44GroupHash(tmp)
		for i := range txs {
			txs[i].Group = h
		}
		if mode == 3 {
			txs[n-1].Group[0] ^= 0x55
		}
	}
	g := make([]*c44Tx, n)
	for i, tx := range txs {
		g[i] = w.reg(tx.Sign(w.secrets[snds[i]]), 0)
	}
	w.groups = append(w.groups, g)
	return g
}

func (w *c44World) someRcv() basics.Address {
	switch w.r.Intn(8) {
	case 0: // a brand-new, unfunded address
		var a basics.Address
		copy(a[:], w.r.Bytes(32))
		return a
	default:
		return w.addrs[w.r.Intn(len(w.addrs))]
	}
}

func (w *c44World) window() (uint64, uint64) {
	cur := uint64(w.l.Latest()) + 1
	life := w.proto.MaxTxnLife
	fv := cur
	switch w.r.Intn(10) {
	case 0:
		fv = 0
		if cur > life {
			fv = cur - life
		}
	case 1:
		if cur > 0 {
			fv = cur - 1
		}
	case 2:
		fv = cur + 1 // not yet valid for the next block
	case 3:
		fv = cur + uint64(w.r.Intn(4))
	}
	var lv uint64
	switch w.r.Intn(14) {
	case 0:
		lv = cur - 1 // dead (or lv < fv)
	case 1, 2:
		lv = cur
	case 3, 4:
		lv = cur + 1
	case 5:
		lv = cur + 2
	case 6:
		lv = fv + life
	case 7:
		lv = fv + life + 1 // window too long
	default:
		lv = cur + 3 + uint64(w.r.Intn(40))
	}
	return fv, lv
}

func (w *c44World) someFee() uint64 {
	mf := w.proto.MinTxnFee
	switch w.r.Intn(12) {
	case 0:
		return 0
	case 1:
		return mf - 1
	case 2:
		return 2 * mf
	case 3:
		return mf + uint64(w.r.Intn(5000))
	case 4:
		return 1000 * mf
	default:
		return mf
	}
}

func (w *c44World) someAmount(snd int) uint64 {
	b := w.balance(w.addrs[snd])
	mb := w.proto.MinBalance
	switch w.r.Intn(12) {
	case 0:
		return 0
	case 1:
		return b + 1 // overspend
	case 2:
		return b // fee makes it overspend
	case 3:
		if b > w.proto.MinTxnFee {
			return b - w.proto.MinTxnFee // drains the sender to exactly zero
		}
		return 1
	case 4:
		if b > mb+w.proto.MinTxnFee {
			return b - mb - w.proto.MinTxnFee // leaves exactly the minimum balance
		}
		return 1
	case 5:
		if b > mb+w.proto.MinTxnFee {
			return b - mb - w.proto.MinTxnFee + 1 // one below the minimum balance
		}
		return 1
	case 6:
		return b/2 + 1 // two of these conflict
	case 7:
		return mb - 1 // too little for a new account
	case 8:
		return mb
	default:
		return uint64(1 + w.r.Intn(5000))
	}
}

func (w *c44World) randomPay(snd int) transactions.Transaction {
	fv, lv := w.window()
	lease := 0
	if w.r.Intn(5) == 0 {
		lease = 1 + w.r.Intn(3)
	}
	var cls basics.Address
	if w.r.Intn(12) == 0 {
		cls = w.someRcv()
	}
	return w.pay(snd, w.someRcv(), w.someAmount(snd), w.someFee(), fv, lv, lease, cls)
}

// a plain valid payment from a funded account
func (w *c44World) goodPay() (transactions.Transaction, int) {
	cur := uint64(w.l.Latest()) + 1
	snd := w.r.Intn(2)
	lease := 0
	if w.r.Intn(8) == 0 {
		lease = 1 + w.r.Intn(2)
	}
	return w.pay(snd, w.addrs[w.r.Intn(len(w.addrs))], uint64(1+w.r.Intn(100)), w.proto.MinTxnFee+uint64(w.r.Intn(3))*w.proto.MinTxnFee,
		cur, cur+2+uint64(w.r.Intn(30)), lease, basics.Address{}), snd
}

func (w *c44World) goodSingle(mode int) []*c44Tx {
	tx, snd := w.goodPay()
	return w.finish([]transactions.Transaction{tx}, []int{snd}, mode)
}

func (w *c44World) newGroup() []*c44Tx {
	r := w.r
	switch k := r.Intn(100); {
	case k < 30:
		return w.goodSingle(0)
	case k < 62:
		snd := r.Intn(len(w.secrets))
		return w.finish([]transactions.Transaction{w.randomPay(snd)}, []int{snd}, 0)
	case k < 72 && len(w.groups) > 0: // resubmit an earlier group (pending, committed, rejected, external)
		return w.groups[r.Intn(len(w.groups))]
	case k < 76 && len(w.all) > 0: // one earlier transaction on its own
		x := w.all[r.Intn(len(w.all))]
		return []*c44Tx{x}
	case k < 92: // groups of 2..4
		n := 2 + r.Intn(3)
		if w.proto.MaxTxnBytesPerBlock < 100000 && r.Intn(4) == 0 {
			n = 4 + r.Intn(4) // may not fit into one (small) block at all
		}
		txs := make([]transactions.Transaction, n)
		snds := make([]int, n)
		pooled := r.Intn(3) == 0
		for i := range txs {
			snds[i] = r.Intn(len(w.secrets))
			if r.Intn(3) == 0 {
				txs[i] = w.randomPay(snds[i])
			} else {
				txs[i], snds[i] = w.goodPay()
			}
			if pooled { // the first member pays for everybody
				if i == 0 {
					txs[i].Fee.Raw = uint64(n) * w.proto.MinTxnFee
				} else {
					txs[i].Fee.Raw = 0
				}
			}
		}
		mode := 0
		if r.Intn(6) == 0 {
			mode = 1 + r.Intn(3)
		}
		return w.finish(txs, snds, mode)
	case k < 94: // singleton carrying a group id (its own, or a wrong one)
		if r.Bool() {
			return w.goodSingle(4)
		}
		return w.goodSingle(2)
	case k < 96: // more than MaxTxGroupSize members
		n := w.proto.MaxTxGroupSize + 1
		txs := make([]transactions.Transaction, n)
		snds := make([]int, n)
		for i := range txs {
			txs[i], snds[i] = w.goodPay()
		}
		return w.finish(txs, snds, 0)
	case k < 97:
		return []*c44Tx{}
	default:
		return w.goodSingle(0)
	}
}

// ---- blocks ----
func (w *c44World) commit(vb ledgercore.ValidatedBlock) {
	require.NoError(w.t, w.l.AddValidatedBlock(vb, agreement.Certificate{}))
	w.esync = false
	groups, err := vb.Block().DecodePaysetGroups()
	require.NoError(w.t, err)
	gl := make([]interface{}, 0, len(groups))
	for _, g := range groups {
		mine := make([]*c44Tx, len(g))
		for i, s := range g {
			x, ok := w.byTxid[s.ID()]
			if !ok {
				w.t.Fatalf("block holds a transaction the harness never built")
			}
			mine[i] = x
		}
		gl = append(gl, w.groupTerm(mine))
	}
	w.ops = append(w.ops, vL(vSym("blk"), gl))
	w.stat["blk"]++
	w.stat["blk_groups"] += len(groups)
}

func (w *c44World) externalBlock(cands [][]*c44Tx) ledgercore.ValidatedBlock {
	ev := w.freshEval()
	for _, g := range cands {
		if len(g) == 0 {
			continue
		}
		_ = ev.TransactionGroup(transactions.WrapSignedTxnsWithAD(c44Stxns(g))...)
	}
	uf, err := ev.GenerateBlock(nil)
	require.NoError(w.t, err)
	return ledgercore.MakeValidatedBlock(uf.UnfinishedBlock(), uf.UnfinishedDeltas())
}

func (w *c44World) pendingMine() [][]*c44Tx {
	var out [][]*c44Tx
	for _, g := range w.pool.PendingTxGroups() {
		mine := make([]*c44Tx, len(g))
		for i, s := range g {
			mine[i] = w.byTxid[s.ID()]
		}
		out = append(out, mine)
	}
	return out
}

func (w *c44World) makeBlock(noSP bool) ledgercore.ValidatedBlock {
	r := w.r
	k := r.Intn(10)
	if k < 3 && w.inSync() && !noSP { // the pool's own proposal
		uf, err := w.pool.AssembleBlock(w.l.Latest()+1, time.Now().Add(200*time.Millisecond))
		if err == nil && uf != nil {
			w.stat["blk_pool"]++
			return ledgercore.MakeValidatedBlock(uf.UnfinishedBlock(), uf.UnfinishedDeltas())
		}
	}
	if k == 3 {
		w.stat["blk_empty"]++
		return w.externalBlock(nil)
	}
	// external proposer: a subset of the pending groups (sometimes reordered), transactions the
	// pool never saw (conflicting with pending ones), earlier rejected groups
	var cands [][]*c44Tx
	for _, g := range w.pendingMine() {
		if noSP && len(g) == 1 && g[0].kind == 1 {
			continue
		}
		if r.Intn(2) == 0 {
			cands = append(cands, g)
		}
	}
	if r.Intn(3) == 0 {
		for i := len(cands) - 1; i > 0; i-- {
			j := r.Intn(i + 1)
			cands[i], cands[j] = cands[j], cands[i]
		}
	}
	for i := r.Intn(3); i > 0; i-- {
		snd := r.Intn(len(w.secrets))
		g := w.finish([]transactions.Transaction{w.randomPay(snd)}, []int{snd}, 0)
		if r.Bool() {
			cands = append([][]*c44Tx{g}, cands...)
		} else {
			cands = append(cands, g)
		}
	}
	if r.Intn(4) == 0 && len(w.groups) > 0 {
		g := w.groups[r.Intn(len(w.groups))]
		if !(noSP && len(g) == 1 && g[0].kind == 1) {
			cands = append(cands, g)
		}
	}
	w.stat["blk_ext"]++
	return w.externalBlock(cands)
}

func (w *c44World) onNewBlock(vb ledgercore.ValidatedBlock, mode int) {
	delta := ledgercore.StateDelta{}
	ids := []interface{}{}
	if mode == 0 { // the real delta
		delta = vb.Delta()
		for txid := range delta.Txids {
			ids = append(ids, w.byTxid[txid].id)
		}
	}
	w.pool.OnNewBlock(vb.Block(), delta)
	if vb.Block().Round() >= w.evalRound {
		w.evalRound = w.l.Latest() + 1
		w.esync = true
	}
	if vEnvInt("VERIF_C44_DEBUG", 0) == 1 {
		for _, x := range w.sp {
			if _, txErr, _ := w.pool.Lookup(x.stxn.ID()); txErr != "" {
				println("DEBUG sp", x.id, "round", uint64(vb.Block().Round()), txErr)
			}
		}
	}
	w.stat["onb"]++
	w.ops = append(w.ops, vL(vSym("onb"), uint64(vb.Block().Round()), ids, w.obs("none")))
}

func (w *c44World) blockStep(noSP bool) {
	r := w.r
	vb := w.makeBlock(noSP)
	w.commit(vb)
	mode := r.Intn(3) // 0 real delta, 1/2 empty delta (as most callers in the tests do)
	switch k := r.Intn(20); {
	case k == 0: // two blocks before the pool hears about the first
		vb2 := w.makeBlock(noSP)
		w.commit(vb2)
		w.onNewBlock(vb, mode)
		w.onNewBlock(vb2, r.Intn(2))
	case k == 1: // the notification is delivered twice
		w.onNewBlock(vb, mode)
		w.onNewBlock(vb, mode)
	case k == 2 && *w.stale > 0: // a submission races ahead of OnNewBlock (ingest waits 1 s)
		*w.stale--
		w.stat["stale_remember"]++
		w.remember(w.newGroupChecked())
		w.onNewBlock(vb, mode)
	default:
		w.onNewBlock(vb, mode)
	}
}

func (w *c44World) newGroupChecked() []*c44Tx {
	for {
		g := w.newGroupSP()
		if !w.accum && len(g) == 1 && g[0].kind == 1 {
			// keep the cross-block accumulation (a pool already over its size admitting another
			// state proof) out of the default stream (VERIF_C44_ACCUM=1 lets it through)
			w.pool.pendingMu.RLock()
			full := len(w.pool.pendingTxids) >= w.maxsize+1 && !w.pool.stateproofOverflowed
			w.pool.pendingMu.RUnlock()
			if full {
				w.stat["accum_gated"]++
				continue
			}
		}
		return g
	}
}

// state-proof submissions (only in worlds that have real proofs)
func (w *c44World) newGroupSP() []*c44Tx {
	if len(w.sp) > 0 && w.r.Intn(4) == 0 {
		return []*c44Tx{w.sp[w.r.Intn(len(w.sp))]}
	}
	return w.newGroup()
}

func (w *c44World) history(nOps int, noSPBlocks bool) {
	w.ops = append(w.ops, vL(vSym("ini"), w.obs("none")))
	if len(w.sp) > 0 && w.scripted {
		// scripted prefix: fill the pool, then the state proofs arrive
		if w.r.Intn(3) == 0 {
			w.remember([]*c44Tx{w.sp[1]}) // out of order: rejected by the evaluator
		}
		for i := 0; i < 8 && w.remember(w.goodSingle(0)) != "cap"; i++ {
		}
		w.remember([]*c44Tx{w.sp[0]})
		if w.accum {
			vb := w.externalBlock(nil)
			w.commit(vb)
			w.onNewBlock(vb, w.r.Intn(2))
			w.remember([]*c44Tx{w.sp[1]})
		}
	}
	for i := 0; i < nOps; i++ {
		if w.r.Intn(100) < 70 {
			w.remember(w.newGroupChecked())
		} else {
			w.blockStep(noSPBlocks)
		}
	}
}

func c44Params(p config.ConsensusParams) []interface{} {
	return vL(vSym("P"), p.MinTxnFee, p.MinBalance, p.MaxTxnLife, p.MaxTxGroupSize, p.MaxTxnBytesPerBlock, p.StateProofInterval)
}

func (w *c44World) spNext() uint64 {
	hdr, err := w.l.BlockHdr(w.l.Latest())
	require.NoError(w.t, err)
	return uint64(hdr.StateProofTracking[protocol.StateProofBasic].StateProofNextRound)
}

func (w *c44World) ledgerTerm() []interface{} {
	bals := []interface{}{}
	for _, a := range w.addrs {
		bals = append(bals, vL(w.num(a), w.balance(a)))
	}
	return vL(vSym("L"), uint64(w.l.Latest()), w.spNext(), bals)
}

// like mockLedger, but the trackers never flush during a history (MaxAcctLookback is larger than
// any chain built here): the in-memory SQLite of the test ledgers uses a shared cache, where a
// tracker flush in the background makes concurrent account lookups of the evaluator fail with
// "database table is locked" -- flush timing would leak into the evaluator's answers (observed:
// a valid pending state proof dropped by recomputeBlockEvaluator).  VERIF_C44_DISK=1 uses an
// on-disk (WAL) ledger with the default lookback instead.
func c44Ledger(t *testing.T, r *vRand, initAccounts map[basics.Address]basics.AccountData, pv protocol.ConsensusVersion) *ledger.Ledger {
	var hash crypto.Digest
	copy(hash[:], r.Bytes(32))
	var sink basics.Address
	copy(sink[:], r.Bytes(32))
	var sinkData basics.AccountData
	sinkData.MicroAlgos.Raw = 1 << 32
	initAccounts[sink] = sinkData
	initBlock := bookkeeping.Block{
		BlockHeader: bookkeeping.BlockHeader{
			GenesisID:    "pooltest",
			GenesisHash:  hash,
			UpgradeState: bookkeeping.UpgradeState{CurrentProtocol: pv},
			RewardsState: bookkeeping.RewardsState{FeeSink: sink, RewardsPool: sink},
		},
	}
	var err error
	initBlock.TxnCommitments, err = initBlock.PaysetCommit()
	require.NoError(t, err)
	cfg := config.GetDefaultLocal()
	cfg.Archival = true
	disk := vEnvInt("VERIF_C44_DISK", 0) == 1
	if !disk {
		cfg.MaxAcctLookback = uint64(vEnvInt("VERIF_C44_LOOKBACK", 2048))
	}
	l, err := ledger.OpenLedger(logging.Base(), t.TempDir()+"/ledger", !disk,
		ledgercore.InitState{Block: initBlock, Accounts: initAccounts, GenesisHash: hash}, cfg)
	require.NoError(t, err)
	return l
}

func c44Keys(r *vRand, n int) ([]*crypto.SignatureSecrets, []basics.Address) {
	secrets := make([]*crypto.SignatureSecrets, n)
	addrs := make([]basics.Address, n)
	for i := range secrets {
		var seed crypto.Seed
		copy(seed[:], r.Bytes(32))
		secrets[i] = crypto.GenerateSignatureSecrets(seed)
		addrs[i] = basics.Address(secrets[i].SignatureVerifier)
	}
	return secrets, addrs
}

func c44NewWorld(t *testing.T, r *vRand, l *ledger.Ledger, pv protocol.ConsensusVersion, secrets []*crypto.SignatureSecrets, addrs []basics.Address, stale *int, stat map[string]int) *c44World {
	hdr0, err := l.BlockHdr(0)
	require.NoError(t, err)
	w := &c44World{t: t, r: r, l: l, proto: config.Consensus[pv], hdr0: hdr0, secrets: secrets, addrs: addrs,
		addrNum: map[basics.Address]int{}, nextAddr: 10, byTxid: map[transactions.Txid]*c44Tx{}, stale: stale, stat: stat}
	w.addrNum[hdr0.FeeSink] = 1
	for _, a := range addrs {
		w.num(a)
	}
	return w
}

func (w *c44World) startPool(out *vOut, nOps int, noSPBlocks bool) {
	r := w.r
	cfg := config.GetDefaultLocal()
	sizes := []int{2, 3, 4, 6, 9, 14, 30, 1000}
	cfg.TxPoolSize = sizes[r.Intn(len(sizes))]
	if len(w.sp) > 0 {
		cfg.TxPoolSize = 2 + r.Intn(3)
	}
	factors := []uint64{0, 1, 2, 2, 3, 1 << 40}
	cfg.TxPoolExponentialIncreaseFactor = factors[r.Intn(len(factors))]
	w.maxsize = cfg.TxPoolSize
	ledgerTerm := w.ledgerTerm()
	w.pool = MakeTransactionPool(w.l, cfg, logging.Base(), nil)
	w.evalRound = w.l.Latest() + 1
	w.esync = true
	w.ops = nil
	w.history(nOps, noSPBlocks)
	w.pool.Shutdown()
	out.Case(vSym("c44"), c44Params(w.proto), vL(cfg.TxPoolSize, cfg.TxPoolExponentialIncreaseFactor), ledgerTerm, w.ops)
	w.stat["histories"]++
	w.stat["ops"] += len(w.ops)
}

func c44Balances(r *vRand, addrs []basics.Address, p config.ConsensusParams) map[basics.Address]basics.AccountData {
	res := make(map[basics.Address]basics.AccountData)
	for i, a := range addrs {
		var d basics.AccountData
		switch {
		case i < 2:
			d.MicroAlgos.Raw = 1_000_000_000_000
		case i == 2:
			d.MicroAlgos.Raw = p.MinBalance + uint64(r.Intn(6))*p.MinTxnFee
		case i == 3:
			d.MicroAlgos.Raw = 2*p.MinBalance + uint64(r.Intn(3000))
		case i == 4:
			continue // unfunded
		default:
			d.MicroAlgos.Raw = p.MinBalance + uint64(r.Intn(1_000_000))
		}
		res[a] = d
	}
	return res
}

func TestVerifC44(t *testing.T) {
	small := config.Consensus[protocol.ConsensusCurrentVersion]
	small.MaxTxnBytesPerBlock = 1000
	small.ApprovedUpgrades = map[protocol.ConsensusVersion]uint64{}
	config.Consensus[c44SmallProto] = small

	logging.Base().SetLevel(logging.Error)
	out := vOpen("cases_c44.txt")
	defer out.Close()
	r := vNewRand(44)
	stat := map[string]int{}
	n := vEnvInt("VERIF_C44_N", 150)
	nOps := vEnvInt("VERIF_C44_OPS", 40)
	stale := vEnvInt("VERIF_C44_STALE", 2)

	for h := 0; h < n; h++ {
		pv := protocol.ConsensusCurrentVersion
		if r.Intn(3) == 0 {
			pv = c44SmallProto
		}
		secrets, addrs := c44Keys(r, 6)
		l := c44Ledger(t, r, c44Balances(r, addrs, config.Consensus[pv]), pv)
		w := c44NewWorld(t, r, l, pv, secrets, addrs, &stale, stat)
		w.startPool(out, nOps/2+r.Intn(nOps), false)
		l.Close()
	}

	// state-proof worlds: a chain long enough for two real state proofs (rounds 512 and 768)
	nsp := vEnvInt("VERIF_C44_SP", 1)
	for s := 0; s < nsp; s++ {
		c44StateProofWorld(t, r, out, &stale, stat, vEnvInt("VERIF_C44_SPH", 3), nOps, vEnvInt("VERIF_C44_ACCUM", 0) == 1)
	}
	st := map[string]interface{}{}
	for k, v := range stat {
		st[k] = v
	}
	vStats(st)
}

func c44StateProofWorld(t *testing.T, r *vRand, out *vOut, stale *int, stat map[string]int, histories, nOps int, accum bool) {
	proto := config.Consensus[protocol.ConsensusCurrentVersion]
	const numAccts = 14
	secrets, addrs := c44Keys(r, numAccts)
	init := make(map[basics.Address]basics.AccountData)
	var allKeys []*merklesignature.Secrets
	for i, a := range addrs {
		var d basics.AccountData
		d.MicroAlgos.Raw = 1_000_000_000
		if i >= 2 {
			keys, err := merklesignature.New(0, 1024, proto.StateProofInterval)
			require.NoError(t, err)
			d.StateProofID = keys.GetVerifier().Commitment
			d.Status = basics.Online
			d.VoteLastValid = 100000
			allKeys = append(allKeys, keys)
		}
		init[a] = d
	}
	l := c44Ledger(t, r, init, protocol.ConsensusCurrentVersion)
	defer l.Close()
	w0 := c44NewWorld(t, r, l, protocol.ConsensusCurrentVersion, secrets, addrs, stale, stat)
	for l.Latest() < 3*basics.Round(proto.StateProofInterval)+2 {
		vb := w0.externalBlock(nil)
		require.NoError(t, l.AddValidatedBlock(vb, agreement.Certificate{}))
	}
	mkSP := func(round basics.Round) transactions.SignedTxn {
		spHdr, err := l.BlockHdr(round)
		require.NoError(t, err)
		votersRound := round.SubSaturate(basics.Round(proto.StateProofInterval))
		votersHdr, err := l.BlockHdr(votersRound)
		require.NoError(t, err)
		provenWeight, err := verify.GetProvenWeight(&votersHdr, &spHdr)
		require.NoError(t, err)
		voters, err := l.VotersForStateProof(votersRound.SubSaturate(basics.Round(proto.StateProofVotersLookback)))
		require.NoError(t, err)
		require.NotNil(t, voters)
		msg, err := stateproof.GenerateStateProofMessage(l, round)
		require.NoError(t, err)
		proof := generateProofForTesting(uint64(round), msg, provenWeight, voters.Participants, voters.Tree, allKeys, t)
		var stxn transactions.SignedTxn
		stxn.Txn.Type = protocol.StateProofTx
		stxn.Txn.Sender = transactions.StateProofSender
		stxn.Txn.FirstValid = l.Latest()
		stxn.Txn.LastValid = l.Latest() + basics.Round(proto.MaxTxnLife)
		stxn.Txn.GenesisHash = l.GenesisHash()
		stxn.Txn.StateProofType = protocol.StateProofBasic
		stxn.Txn.StateProof = *proof
		stxn.Txn.Message = msg
		return stxn
	}
	sp1 := mkSP(2 * basics.Round(proto.StateProofInterval))
	sp2 := mkSP(3 * basics.Round(proto.StateProofInterval))
	for h := 0; h < histories; h++ {
		// only the two plain (offline, key-less) accounts send: the model's accounts carry
		// nothing but MicroAlgos, an online account is never "empty" at balance 0
		w := c44NewWorld(t, r, l, protocol.ConsensusCurrentVersion, secrets[:2], addrs, stale, stat)
		w.leaseOff = 10 * (h + 1)
		w.noteCtr = uint64(h+1) << 32
		// history 0 replays the C44_size_by_one_refuted witness (two state proofs over the size, one
		// block apart), history 1 stops at the single allowed overflow; later ones are random
		w.accum = accum && h%2 == 0
		w.scripted = h < 2 || r.Intn(4) > 0
		w.sp = []*c44Tx{w.reg(sp1, 1), w.reg(sp2, 1)}
		w.groups = append(w.groups, []*c44Tx{w.sp[0]}, []*c44Tx{w.sp[1]})
		w.startPool(out, nOps/2+r.Intn(nOps), true)
		stat["sp_histories"]++
	}
}
