//go:build verif

package basics

// C45 harness: runs the real generic helpers exhaustively at 8 bits (all 65 536 operand
// pairs), on boundary/random operands at 16/32/64 bits and, in the thorough tier,
// exhaustively at 16 bits against closed forms computed in uint64.

import (
	"math"
	"sync"
	"testing"

	"golang.org/x/exp/constraints"
)

func vGeneric[T constraints.Unsigned](a, b T) []interface{} {
	ra, oa := OAdd(a, b)
	rs, os_ := OSub(a, b)
	rm, om := OMul(a, b)
	var dc int64 = -1
	if b != 0 {
		dc = int64(DivCeil(a, b))
	}
	return vL(uint64(ra), oa, uint64(rs), os_, uint64(rm), om, uint64(AddSaturate(a, b)), uint64(SubSaturate(a, b)), uint64(MulSaturate(a, b)), dc)
}

func vGeneric64(a, b uint64) []interface{} {
	ra, oa := OAdd(a, b)
	rs, os_ := OSub(a, b)
	rm, om := OMul(a, b)
	var dc interface{} = int64(-1)
	if b != 0 {
		dc = DivCeil(a, b)
	}
	return vL(ra, oa, rs, os_, rm, om, AddSaturate(a, b), SubSaturate(a, b), MulSaturate(a, b), dc)
}

func vDivvy(num, den, q uint64) (res []interface{}) {
	defer func() {
		if r := recover(); r != nil {
			res = vL(1, 0, 0)
		}
	}()
	f, s := Fraction{Numerator: num, Denominator: den}.Divvy(q)
	return vL(0, f, s)
}

func vMul2div(a, b, c, d uint64) (res []interface{}) {
	defer func() {
		if r := recover(); r != nil {
			res = vL(vSym("panic"))
		}
	}()
	q, r, o := Mul2div(a, b, c, d)
	return vL(q, r, o)
}

func TestVerifC45(t *testing.T) {
	out := vOpen("cases_c45.txt")
	defer out.Close()
	g := vSym("g")
	// exhaustive at 8 bits
	for a := 0; a < 256; a++ {
		for b := 0; b < 256; b++ {
			out.Case(g, 8, a, b, vGeneric(uint8(a), uint8(b)))
		}
	}
	// directed boundary grid: every pair / triple of powers of two and their neighbours (a helper
	// with a width-specific fast path typically breaks exactly at 2^k, e.g. a == b == 2^32)
	var edges []uint64
	for _, k := range []uint{0, 1, 7, 8, 15, 16, 20, 31, 32, 33, 40, 47, 48, 62, 63} {
		for _, d := range []int64{-1, 0, 1} {
			edges = append(edges, uint64(int64(uint64(1)<<k)+d))
		}
	}
	edges = append(edges, 0, ^uint64(0), ^uint64(0)-1, 1000000, 999999, 1000001, 1000000000000, 100)
	divs := []uint64{0, 1, 2, 3, 100, 1000000, 1 << 31, 1 << 32, (1 << 32) + 1, 1 << 33, 1 << 63, ^uint64(0)}
	for _, a := range edges {
		for _, b := range edges {
			out.Case(g, 64, a, b, vGeneric64(a, b))
			r, o := ODiff(a, b)
			out.Case(vSym("odiff"), a, b, vL(r, o))
			mr, mo := Micros(a).Mul(Micros(b))
			out.Case(vSym("mmul"), a, b, vL(uint64(mr), mo))
			ar, ao := MicroAlgos{Raw: a}.MulMicros(Micros(b))
			out.Case(vSym("mulmicros"), a, b, vL(ar.Raw, ao))
			for _, c := range divs {
				q, rm, ov := muldiv(a, b, c)
				out.Case(vSym("muldiv"), a, b, c, vL(q, rm, ov))
				out.Case(vSym("divvy"), b, c, a, vDivvy(b, c, a))
			}
		}
	}
	for _, a := range divs {
		for _, b := range divs {
			for _, c := range divs {
				for _, d := range divs {
					out.Case(vSym("mul2div"), a, b, c, d, vMul2div(a, b, c, d))
				}
			}
		}
	}
	rnd := vNewRand(45)
	n := vEnvInt("VERIF_C45_N", 20000)
	for i := 0; i < n; i++ {
		a, b := rnd.Edge64(), rnd.Edge64()
		out.Case(g, 16, a&0xffff, b&0xffff, vGeneric(uint16(a), uint16(b)))
		out.Case(g, 32, a&0xffffffff, b&0xffffffff, vGeneric(uint32(a), uint32(b)))
		out.Case(g, 64, a, b, vGeneric64(a, b))
		r, o := ODiff(a, b)
		out.Case(vSym("odiff"), a, b, vL(r, o))
		c := rnd.Edge64()
		q, rm, ov := muldiv(a, b, c)
		out.Case(vSym("muldiv"), a, b, c, vL(q, rm, ov))
		d := rnd.Edge64()
		if i%3 == 0 { // keep quotients in range more often
			d = ^uint64(0) - uint64(rnd.Intn(5))
			c = uint64(rnd.Intn(3))
		}
		out.Case(vSym("mul2div"), a, b, c, d, vMul2div(a, b, c, d))
		// FeeForUsage: base fee, usage and multiplier in Micros, residue < 1e12
		base := rnd.Edge64()
		if i%2 == 0 {
			base = uint64(rnd.Intn(5000))
		}
		usage := uint64(rnd.Intn(40000000))
		mult := uint64(rnd.Intn(9000000))
		if i%7 == 0 {
			usage, mult = rnd.Edge64(), rnd.Edge64()
		}
		residue := rnd.U64() % uint64(feeResidueScale)
		if i%5 == 0 {
			residue = 0
		}
		fee, nr, fo := MicroAlgos{Raw: base}.FeeForUsage(Micros(usage), Micros(mult), residue)
		out.Case(vSym("fee"), base, usage, mult, residue, vL(fee.Raw, nr, fo))
		// Divvy: proper fractions mostly; improper / zero denominators as the malformed stream
		den := rnd.Edge64()
		num := den
		if den == math.MaxUint64 {
			num = rnd.U64()
		} else if den > 0 {
			num = rnd.U64() % (den + 1)
		}
		if i%11 == 0 {
			num, den = rnd.Edge64(), rnd.Edge64()
		}
		out.Case(vSym("divvy"), num, den, a, vDivvy(num, den, a))
		mr, mo := Micros(a).Mul(Micros(b))
		out.Case(vSym("mmul"), a, b, vL(uint64(mr), mo))
		ar, ao := MicroAlgos{Raw: a}.MulMicros(Micros(b))
		out.Case(vSym("mulmicros"), a, b, vL(ar.Raw, ao))
		ii := int(int64(b))
		if i%2 == 0 {
			ii = int(b >> uint(1+rnd.Intn(63)))
		}
		ir, io := Micros(a).MulInt(ii)
		out.Case(vSym("mmulint"), a, int64(ii), vL(uint64(ir), io))
	}
	stats := map[string]interface{}{"exhaustive_8bit_pairs": 65536, "random_rounds": n}
	if vTier() == "thorough" {
		// exhaustive 16-bit sweep of the generic helpers against closed forms in uint64
		// (the right-hand sides of the proved *_spec theorems, transcribed)
		var wg sync.WaitGroup
		bad := make([]string, 16)
		for w := 0; w < 16; w++ {
			wg.Add(1)
			go func(w int) {
				defer wg.Done()
				for a := w * 4096; a < (w+1)*4096; a++ {
					for b := 0; b < 65536; b++ {
						x, y := uint16(a), uint16(b)
						A, B := uint64(a), uint64(b)
						ra, oa := OAdd(x, y)
						rs, os_ := OSub(x, y)
						rm, om := OMul(x, y)
						okm := (A*B >= 65536) == om && ((om && rm == 0) || (!om && uint64(rm) == A*B))
						sat := uint64(AddSaturate(x, y)) == min(A+B, 65535) && uint64(MulSaturate(x, y)) == min(A*B, 65535)
						sub := (A >= B && uint64(SubSaturate(x, y)) == A-B) || (A < B && SubSaturate(x, y) == 0)
						if uint64(ra) != (A+B)%65536 || oa != (A+B >= 65536) || uint64(rs) != (A+65536-B)%65536 || os_ != (A < B) || !okm || !sat || !sub {
							if bad[w] == "" {
								bad[w] = vT(g, 16, a, b, vGeneric(x, y))
							}
						}
					}
				}
			}(w)
		}
		wg.Wait()
		nb := 0
		for _, s := range bad {
			if s != "" {
				out.Line(s) // goes through the model as well, which will flag it
				nb++
			}
		}
		stats["exhaustive_16bit_pairs"] = uint64(1) << 32
		stats["exhaustive_16bit_failing_workers"] = nb
	}
	vStats(stats)
}
