//go:build verif

package agreement

// C04 harness: real keys (the package's 100-account fixture), real unauthenticatedVote.verify,
// real unauthenticatedBundle.verify and Certificate.Authenticate.  Bundles are obtained by
// mutating valid ones (duplicate voter, missing weight, wrong round/period/step/value, bottom,
// identical / half-invalid equivocation pairs, flipped signature byte, swapped credential,
// non-member) and by assembling random vote subsets.  Each case records, per vote, the outcome
// of verifying the vote re-assembled with the bundle's fields (exactly what verifyAsync
// enqueues) and the bundle-level outcome.

import (
	"context"
	"testing"

	"github.com/algorand/go-algorand/config"
	"github.com/algorand/go-algorand/crypto"
	"github.com/algorand/go-algorand/data/basics"
	"github.com/algorand/go-algorand/data/bookkeeping"
	"github.com/algorand/go-algorand/protocol"
)

type vC04Env struct {
	l      Ledger
	idx    map[basics.Address]int
	cache  map[string][2]uint64 // encoded uv -> (ok, weight)
	avv    *AsyncVoteVerifier
	out    *vOut
	counts map[string]int
}

func (e *vC04Env) voteOutcome(uv unauthenticatedVote) (bool, uint64) {
	k := string(protocol.Encode(&uv))
	if r, ok := e.cache[k]; ok {
		return r[0] == 1, r[1]
	}
	v, err := uv.verify(e.l)
	r := [2]uint64{0, 0}
	if err == nil {
		r = [2]uint64{1, v.Cred.Weight}
	}
	e.cache[k] = r
	return r[0] == 1, r[1]
}

func (e *vC04Env) sid(a basics.Address) int {
	if i, ok := e.idx[a]; ok {
		return i
	}
	return 1000 + int(a[0])
}

func (e *vC04Env) bundleTerm(b unauthenticatedBundle) []interface{} {
	vs := vL()
	for _, auth := range b.Votes {
		rv := rawVote{Sender: auth.Sender, Round: b.Round, Period: b.Period, Step: b.Step, Proposal: b.Proposal}
		ok, w := e.voteOutcome(unauthenticatedVote{R: rv, Cred: auth.Cred, Sig: auth.Sig})
		vs = append(vs, vL(e.sid(auth.Sender), ok, w))
	}
	es := vL()
	for _, auth := range b.EquivocationVotes {
		rv0 := rawVote{Sender: auth.Sender, Round: b.Round, Period: b.Period, Step: b.Step, Proposal: auth.Proposals[0]}
		rv1 := rawVote{Sender: auth.Sender, Round: b.Round, Period: b.Period, Step: b.Step, Proposal: auth.Proposals[1]}
		ok0, w0 := e.voteOutcome(unauthenticatedVote{R: rv0, Cred: auth.Cred, Sig: auth.Sigs[0]})
		ok1, _ := e.voteOutcome(unauthenticatedVote{R: rv1, Cred: auth.Cred, Sig: auth.Sigs[1]})
		es = append(es, vL(e.sid(auth.Sender), auth.Proposals[0] == auth.Proposals[1], ok0, w0, ok1))
	}
	return vL(uint64(b.Step), b.Proposal == bottom, vs, es)
}

func (e *vC04Env) emitBundle(kind string, proto config.ConsensusParams, b unauthenticatedBundle) bool {
	_, err := b.verify(context.Background(), e.l, e.avv)
	e.out.Case(vSym("bundle"), b.Step.threshold(proto), e.bundleTerm(b), err == nil)
	e.counts[kind]++
	if err == nil {
		e.counts["accepted"]++
	}
	return err == nil
}

func (e *vC04Env) emitCert(kind string, proto config.ConsensusParams, b unauthenticatedBundle, blk bookkeeping.Block) {
	err := Certificate(b).Authenticate(blk, e.l, e.avv)
	e.out.Case(vSym("cert"), b.Step.threshold(proto), uint64(b.Round), uint64(blk.Round()),
		b.Proposal.BlockDigest == blk.Digest(), e.bundleTerm(b), err == nil)
	e.counts["cert_"+kind]++
	if err == nil {
		e.counts["cert_accepted"]++
	}
}

func TestVerifC04(t *testing.T) {
	ledger, addrs, vrfs, ots := readOnlyFixture100()
	env := &vC04Env{l: ledger, idx: map[basics.Address]int{}, cache: map[string][2]uint64{}, out: vOpen("cases_c04.txt"), counts: map[string]int{}}
	defer env.out.Close()
	for i, a := range addrs {
		env.idx[a] = i
	}
	env.avv = MakeAsyncVoteVerifier(nil)
	defer env.avv.Quit()
	rnd := vNewRand(4)
	round := ledger.NextRound()
	proto, _ := ledger.ConsensusParams(ParamsRound(round))
	nRandom := vEnvInt("VERIF_C04_RANDOM", 6)

	blk := bookkeeping.Block{BlockHeader: bookkeeping.BlockHeader{Round: round}}
	blkOther := bookkeeping.Block{BlockHeader: bookkeeping.BlockHeader{Round: round + 1}}
	var propA, propB proposalValue
	propA.BlockDigest = blk.Digest()
	propA.EncodingDigest = crypto.Digest{1}
	propB.BlockDigest = crypto.Digest{9, 9}
	propB.EncodingDigest = crypto.Digest{2}

	steps := []step{soft, cert, next, next + 1, late, redo, down}
	for _, per := range []period{0, 2} {
		for _, st := range steps {
			mk := func(i int, pv proposalValue) (va voteAuthenticator, okk bool) {
				defer func() {
					if r := recover(); r != nil { // makeVote refuses bottom for propose/soft/cert
						va, okk = voteAuthenticator{}, false
					}
				}()
				rv := rawVote{Sender: addrs[i], Round: round, Period: per, Step: st, Proposal: pv}
				uv, err := makeVote(rv, ots[i], vrfs[i], ledger)
				if err != nil {
					return voteAuthenticator{}, false
				}
				return voteAuthenticator{Sender: uv.R.Sender, Cred: uv.Cred, Sig: uv.Sig}, true
			}
			var valid, invalid []voteAuthenticator
			var validIdx []int
			propA := propA
			if st == down { // down votes must validate bottom
				propA = bottom
			}
			for i := range addrs {
				a, ok := mk(i, propA)
				if !ok {
					continue
				}
				rv := rawVote{Sender: a.Sender, Round: round, Period: per, Step: st, Proposal: propA}
				if ok, _ := env.voteOutcome(unauthenticatedVote{R: rv, Cred: a.Cred, Sig: a.Sig}); ok {
					valid = append(valid, a)
					validIdx = append(validIdx, i)
				} else {
					invalid = append(invalid, a) // not selected for this committee
				}
			}
			if len(valid) < 4 {
				continue
			}
			base := unauthenticatedBundle{Round: round, Period: per, Step: st, Proposal: propA, Votes: valid}
			cp := func(b unauthenticatedBundle) unauthenticatedBundle {
				c := b
				c.Votes = append([]voteAuthenticator(nil), b.Votes...)
				c.EquivocationVotes = append([]equivocationVoteAuthenticator(nil), b.EquivocationVotes...)
				return c
			}
			env.emitBundle("full", proto, base)
			// missing weight: drop votes one by one from a random order until well below threshold
			order := make([]int, len(valid))
			for i := range order {
				order[i] = i
			}
			for i := len(order) - 1; i > 0; i-- {
				j := rnd.Intn(i + 1)
				order[i], order[j] = order[j], order[i]
			}
			b := cp(base)
			dropped := 0
			for dropped < len(valid)-1 {
				k := 1 + rnd.Intn(3)
				for ; k > 0 && len(b.Votes) > 1; k-- {
					b.Votes = b.Votes[:len(b.Votes)-1]
					dropped++
				}
				acc := env.emitBundle("drop", proto, cp(b))
				if !acc && dropped > len(valid)/2 {
					break
				}
			}
			// duplicated voter
			b = cp(base)
			b.Votes = append(b.Votes, b.Votes[rnd.Intn(len(b.Votes))])
			env.emitBundle("dupvote", proto, b)
			// wrong round / period / step / value
			b = cp(base)
			b.Round++
			env.emitBundle("round", proto, b)
			b = cp(base)
			b.Period++
			env.emitBundle("period", proto, b)
			b = cp(base)
			if st == soft {
				b.Step = cert
			} else {
				b.Step = soft
			}
			env.emitBundle("step", proto, b)
			b = cp(base)
			b.Step = propose
			env.emitBundle("propose", proto, b)
			b = cp(base)
			b.Proposal = propB
			env.emitBundle("value", proto, b)
			b = cp(base)
			b.Proposal = bottom
			env.emitBundle("bottom", proto, b)
			// bottom bundle made of votes really signed for bottom (valid for next-type steps only)
			var bots []voteAuthenticator
			for _, i := range validIdx {
				if a, ok := mk(i, bottom); ok {
					bots = append(bots, a)
				}
			}
			if len(bots) > 0 {
				env.emitBundle("signedbottom", proto, unauthenticatedBundle{Round: round, Period: per, Step: st, Proposal: bottom, Votes: bots})
			}
			// one bad signature / swapped credential / non-member
			b = cp(base)
			k := rnd.Intn(len(b.Votes))
			b.Votes[k].Sig.Sig[rnd.Intn(64)] ^= 0x40
			env.emitBundle("badsig", proto, b)
			b = cp(base)
			if len(b.Votes) >= 2 {
				b.Votes[0].Cred, b.Votes[1].Cred = b.Votes[1].Cred, b.Votes[0].Cred
				env.emitBundle("swapcred", proto, b)
			}
			if len(invalid) > 0 {
				b = cp(base)
				b.Votes = append(b.Votes, invalid[rnd.Intn(len(invalid))])
				env.emitBundle("nonmember", proto, b)
			}
			// equivocation pairs: replace some plain votes by (A,B) pairs
			nEq := 1 + rnd.Intn(4)
			b = cp(base)
			var eqs []equivocationVoteAuthenticator
			for j := 0; j < nEq && j < len(validIdx); j++ {
				i := validIdx[j]
				a0, _ := mk(i, propA)
				a1, _ := mk(i, propB)
				eqs = append(eqs, equivocationVoteAuthenticator{Sender: addrs[i], Cred: a0.Cred, Sigs: [2]crypto.OneTimeSignature{a0.Sig, a1.Sig}, Proposals: [2]proposalValue{propA, propB}})
			}
			b.Votes = b.Votes[len(eqs):]
			b.EquivocationVotes = eqs
			env.emitBundle("eq", proto, cp(b))
			// pair duplicated against a plain vote of the same sender
			b2 := cp(b)
			b2.Votes = append(b2.Votes, base.Votes[0])
			env.emitBundle("eqdup", proto, b2)
			// identical pair
			b2 = cp(b)
			b2.EquivocationVotes[0].Proposals[1] = propA
			b2.EquivocationVotes[0].Sigs[1] = b2.EquivocationVotes[0].Sigs[0]
			env.emitBundle("eqsame", proto, b2)
			// second half invalid
			b2 = cp(b)
			b2.EquivocationVotes[0].Sigs[1].Sig[3] ^= 1
			env.emitBundle("eqbad1", proto, b2)
			// first half invalid
			b2 = cp(b)
			b2.EquivocationVotes[0].Sigs[0].Sig[3] ^= 1
			env.emitBundle("eqbad0", proto, b2)
			// bundle for another value carried only by equivocators plus plain votes for A
			b2 = cp(b)
			b2.Proposal = propB
			env.emitBundle("eqvalue", proto, b2)
			// random subsets of arbitrary weight
			for r := 0; r < nRandom; r++ {
				b = cp(base)
				b.Votes = nil
				pKeep := 50 + rnd.Intn(51)
				for _, a := range base.Votes {
					if rnd.Intn(100) < pKeep {
						b.Votes = append(b.Votes, a)
					}
				}
				if len(b.Votes) == 0 {
					b.Votes = base.Votes[:1]
				}
				env.emitBundle("subset", proto, b)
			}
			// certificates
			env.emitCert("full", proto, base, blk)
			env.emitCert("otherround", proto, base, blkOther)
			b = cp(base)
			b.Proposal = propB
			env.emitCert("otherdigest", proto, b, blk)
			b = cp(base)
			b.Votes = b.Votes[:len(b.Votes)/2]
			env.emitCert("half", proto, b, blk)
			b = cp(base)
			b.Round++
			env.emitCert("bundleround", proto, b, blkOther)
		}
	}
	st := map[string]interface{}{}
	for k, v := range env.counts {
		st[k] = v
	}
	st["distinct_vote_verifications"] = len(env.cache)
	vStats(st)
}
