//go:build verif

package agreement

// C05 (partial): progress once the network is synchronous.  Reuses the N-node simulator of
// zz_verif_c01_test.go: an arbitrary asynchronous prefix (the adversarial scheduler: drops, partitions,
// withheld step classes, delays, crashes, Byzantine votes and bundles) is cut at a random scheduler step --
// the synchrony point.  From there on the Byzantine senders are silent (so every leader is honest), every
// message in flight is either lost or delivered, every new message arrives within 400 ms of virtual time and
// every timer (deadline and fast-recovery) fires exactly at its deadline on the node's own clock (rezero on
// every period / round entry, as the service does).  Observed per node: its period at the synchrony point,
// whether and in which period it emitted ensure for the round, the largest Step it reached afterwards, its
// Go panics; plus the first deadline timeouts of the synchronous phase (step / napping / entropy ->
// step / napping / Deadline), which coq/model/C05Check.v recomputes with the agreement model's
// next_vote_ranges arithmetic.
//   (c05 K ladder (params) ((node syncPeriod committed ensurePeriod maxStepAfter panicsAfter nilRouterPanics) ...)
//        ((period step nap entropy step' nap' deadline') ...) (info))

import (
	"fmt"
	"os"
	"strings"
	"testing"
	"time"

	"github.com/algorand/go-algorand/protocol"
)

const (
	c05K      = 3                  // periods after the synchrony point
	c05Ladder = uint64(next + 9)   // deadline-ladder bound on the Step of one period after the synchrony point
	c05Limit  = 40 * time.Minute   // virtual time allowed after the synchrony point
)

func c05Cfg(rnd *vRand, k int) c01Cfg {
	cfg := c01RandomCfg(rnd, k, false)
	cfg.rounds = 1
	// an honest online supermajority: every threshold is reachable by honest weight alone
	byz := []uint64{0, 100, 180, 220}[rnd.Intn(4)]
	if byz == 0 {
		cfg.nb = 0
	}
	cfg.stake = c01Stakes(rnd, cfg.n, cfg.nb, byz)
	if cfg.mode == "equiv" {
		cfg.w = map[string]int{}
		for k2, v := range c01Modes["random"] {
			cfg.w[k2] = v
		}
		cfg.mode = "random"
	}
	if cfg.mode == "crash" && !(k%12 == 5 && os.Getenv("VERIF_C05_CRASH") != "") {
		// C05 quantifies over schedules, not over crashes: crash-restores stay out of the prefix except in the
		// tagged variant VERIF_C05_CRASH=1 (see corpus/notes/c05_restart_pipelined_payload.txt)
		cfg.mode, cfg.crashes = "random", 0
		cfg.w = map[string]int{}
		for k2, v := range c01Modes["random"] {
			cfg.w[k2] = v
		}
	}
	cfg.syncAfter = 20 + rnd.Intn(700)
	if rnd.Intn(6) == 0 {
		cfg.syncAfter = 1 + rnd.Intn(15)
	}
	return cfg
}

// the stale cert bundle scenario (corpus/notes/router_gc_nil_deref.txt): nobody ever sees the cert votes of
// the prefix (withheld from everyone), so the periods end on next-value quorums; at the synchrony point a
// cert bundle of an old period, in flight since then, arrives
func c05NilRouterCfg(rnd *vRand, k int) c01Cfg {
	cfg := c05Cfg(rnd, k)
	cfg.mode = "stalecert"
	cfg.w = map[string]int{}
	for k2, v := range c01Modes["random"] {
		cfg.w[k2] = v
	}
	cfg.w["adv"] = 6
	cfg.w["drop"], cfg.w["byz"], cfg.w["bprop"], cfg.w["bbundle"], cfg.w["replay"], cfg.w["crash"] = 0, 0, 0, 0, 0, 0
	cfg.partUntil = 0
	cfg.withhold = []c01Rule{{class: "cert", group: 0, until: -1}, {class: "cert", group: 1, until: -1}}
	cfg.syncAfter = 900 + rnd.Intn(900)
	cfg.steps = cfg.syncAfter
	cfg.nilRouter = true
	return cfg
}

// the restart scenario of corpus/notes/c05_restart_pipelined_payload.txt on three equal-stake nodes (every
// threshold needs all three): benign delivery of all proposals, but the victim's validation of the winning
// payload is still in flight when its filter timeout fires (soft vote: persisted with Filled, !Assembled); the
// validation completes in memory, the process crashes before the next attest and restarts from the crash
// database.  Returns the simulator at the synchrony point.
func c05RestartRun(ver protocol.ConsensusVersion, rnd *vRand, st *c01Stats, k int) *c01Sim {
	cfg := c01Cfg{n: 3, nb: 0, rounds: 1, r0: round(5 + rnd.Intn(20)), mode: "restart", stake: []uint64{334, 333, 333},
		groups: []int{0, 0, 0}, w: map[string]int{"adv": 0}, crashes: 1}
	s := c01NewSim(ver, rnd, cfg, st)
	s.runIdx = k
	s.hold = map[int]bool{0: true, 1: true, 2: true}
	quiesce := func() {
		for guard := 0; guard < 20000; guard++ {
			progressed := false
			for j := range s.nodes {
				if s.deliverLocal(j) || s.deliverNet(j) {
					progressed = true
				}
			}
			if !progressed {
				return
			}
		}
	}
	quiesce()
	winner := s.nodes[0].m.rr.Children[cfg.r0].Children[0].ProposalTracker.Freezer.Lowest.R.Proposal
	victim := 0
	for j, nd := range s.nodes {
		if nd.id != vsmSnd(winner.OriginalProposer) {
			victim = j
			break
		}
	}
	for j := range s.nodes {
		if j != victim {
			delete(s.hold, j)
		}
	}
	quiesce()
	s.timeout(victim) // filter timeout: soft vote, persisted while the validation is in flight
	delete(s.hold, victim)
	quiesce() // the validation result arrives (memory only)
	s.crash(victim)
	quiesce()
	s.cfg.syncAfter = s.step
	return s
}

// c05LateCertRun: the late-payload-after-certificate path (player.handleMessageEvent, payloadVerified: "check it
// against any received cert threshold").  Nobody sees the cert votes of the prefix and one node L never gets the
// payload of the leader's value v, so the periods end on next quorums for v; right after everybody entered period
// P = q + dk (dk = 1, 2, 3) the synchrony point comes: the cert bundle of period q (q = 0, 1, 2) reaches everybody,
// and L gets the payload 600 ms after the bundle (order 0) or 600 ms before it (order 1).  The others hold the
// payload, commit and leave; the ledger catch-up is switched OFF in this scenario, so L must emit ensure itself.
// q >= 2 with dk >= 2 is the router-GC nil dereference (corpus/notes/router_gc_nil_deref.txt): every node dies on
// the bundle, restarts from its crash state and the round is finished in period P.
func c05LateCertRun(ver protocol.ConsensusVersion, rnd *vRand, st *c01Stats, k int, variant int) *c01Sim {
	order := variant % 2
	P := period(1 + (variant/2)%3)
	q := period((variant / 6) % 3)
	P += q
	n := 4 + (variant/18)%2
	stake := uint64(260)
	if n == 5 {
		stake = 200
	}
	cfg := c01Cfg{n: n, nb: 0, rounds: 1, r0: round(5 + rnd.Intn(20)), mode: fmt.Sprintf("latecert_q%d_P%d_o%d", q, P, order), w: map[string]int{"adv": 0}}
	for i := 0; i < n; i++ {
		cfg.stake = append(cfg.stake, stake)
		cfg.groups = append(cfg.groups, 0)
	}
	cfg.withhold = []c01Rule{{class: "payload", group: 0, until: -1}, {class: "cert", group: 0, until: -1}, {class: "cert", group: 1, until: -1}}
	s := c01NewSim(ver, rnd, cfg, st)
	s.runIdx = k
	s.noLoss = true
	s.quiesce()
	v := s.nodes[0].m.rr.Children[cfg.r0].Children[0].ProposalTracker.Freezer.Lowest.R.Proposal
	L := 0
	for j, nd := range s.nodes {
		if nd.id != vsmSnd(v.OriginalProposer) {
			L = j
			break
		}
	}
	s.cfg.groups[L] = 1
	s.cfg.withhold[0].group = 1 // from now on only L misses the payloads
	s.quiesce()
	for per := period(0); per < P; per++ {
		for i := range s.nodes {
			s.timeout(i) // filter: soft votes
		}
		s.quiesce()
		for i := range s.nodes {
			s.timeout(i) // deadline: next votes (v by everybody who holds it / has it as starting value)
		}
		s.quiesce()
	}
	// the cert bundle of period q, from the cert votes that were on the network
	t := s.trace(cfg.r0)
	ub := unauthenticatedBundle{Round: cfg.r0, Period: q, Step: cert, Proposal: v}
	var w uint64
	for _, x := range t.pub {
		if x.R.Period == q && x.R.Step == cert && x.R.Proposal == v {
			ub.Votes = append(ub.Votes, voteAuthenticator{Sender: x.R.Sender, Cred: x.Cred.UnauthenticatedCredential})
			w += x.Cred.Weight
		}
	}
	s.cfg.syncAfter = s.step
	s.lag = L
	ok := w >= cert.threshold(s.c.proto)
	for _, nd := range s.nodes {
		if nd.done || nd.m.player().Period != P {
			ok = false
		}
	}
	// drop the withheld payload copies: L gets exactly one, at the chosen moment
	inbox := s.nodes[L].inbox[:0]
	for _, m := range s.nodes[L].inbox {
		if m.kind != c01MCompound {
			inbox = append(inbox, m)
		} else {
			s.lost(L, m)
		}
	}
	s.nodes[L].inbox = inbox
	s.synchronise()
	if !ok {
		if os.Getenv("VERIF_C01_DEBUG") != "" {
			for _, nd := range s.nodes {
				pl := nd.m.player()
				fmt.Fprintf(os.Stderr, "latecert %s not reached: node %d done=%v (%d,%d,%d) w=%d\n", cfg.mode, nd.id, nd.done, pl.Round, pl.Period, pl.Step, w)
			}
		}
		s.lag = -1 // the prefix did not reach the intended state: an ordinary run
		return s
	}
	push := func(j int, d time.Duration, m c01Msg) {
		s.seq++
		s.q = append(s.q, c01Timed{at: s.now + d, seq: s.seq, node: j, net: true, msg: m})
	}
	bm := c01Msg{kind: c01MBundle, ub: ub, from: -1, rnd: cfg.r0}
	pm := c01Msg{kind: c01MCompound, pv: v, from: -1, rnd: cfg.r0}
	for j := range s.nodes {
		if j != L {
			push(j, 10*time.Millisecond, bm)
		}
	}
	if order == 0 {
		push(L, 10*time.Millisecond, bm)
		push(L, 610*time.Millisecond, pm)
	} else {
		push(L, 10*time.Millisecond, pm)
		push(L, 610*time.Millisecond, bm)
	}
	return s
}

func (s *c01Sim) c05StaleBundles() int {
	n := 0
	r := s.cfg.r0
	t := s.trace(r)
	maxP := period(0)
	for _, nd := range s.nodes {
		if !nd.done && nd.m.player().Period > maxP {
			maxP = nd.m.player().Period
		}
	}
	for q := period(0); q+1 < maxP; q++ {
		seen := map[proposalValue]bool{}
		for _, v := range t.pub {
			if v.R.Period != q || v.R.Step != cert || seen[v.R.Proposal] {
				continue
			}
			seen[v.R.Proposal] = true
			// honest votes only: the Byzantine senders add nothing
			var vs []vote
			var w uint64
			for _, x := range t.pub {
				if x.R.Period == q && x.R.Step == cert && x.R.Proposal == v.R.Proposal && !s.isByz(vsmSnd(x.R.Sender)) {
					vs = append(vs, x)
					w += x.Cred.Weight
				}
			}
			if w < cert.threshold(s.c.proto) {
				continue
			}
			ub := unauthenticatedBundle{Round: r, Period: q, Step: cert, Proposal: v.R.Proposal}
			for _, x := range vs {
				ub.Votes = append(ub.Votes, voteAuthenticator{Sender: x.R.Sender, Cred: x.Cred.UnauthenticatedCredential})
			}
			m := c01Msg{kind: c01MBundle, ub: ub, from: -1, rnd: r}
			for j, nd := range s.nodes {
				if !nd.done {
					nd.inbox = append(nd.inbox, m)
					_ = j
				}
			}
			n++
		}
	}
	return n
}

func (s *c01Sim) c05Line(stale int) string {
	nodes := vL()
	for _, nd := range s.nodes {
		p, ok := nd.ensP[s.cfg.r0]
		kind := 0 // 0 still in the round, 1 ensure, 2 caught up through the ledger
		if ok {
			kind = 1
		} else if q, ok2 := nd.caughtUp[s.cfg.r0]; ok2 {
			kind, p = 2, q
		}
		poisoned := false
		if rr := nd.m.rr.Children[s.cfg.r0]; rr != nil && !nd.done {
			for _, ea := range rr.ProposalStore.Assemblers {
				if ea.Filled && !ea.Assembled {
					poisoned = true
				}
			}
		}
		nodes = append(nodes, vL(nd.id, uint64(nd.syncP), kind, uint64(p), uint64(nd.maxStepNew), nd.panicsAfter, nd.nilAfter, nd.syncDone, poisoned))
	}
	crashes := 0
	for _, nd := range s.nodes {
		crashes += nd.crashes - nd.panics
	}
	return vT(vSym("c05"), c05K, c05Ladder, s.c.params(), nodes, s.dlObs,
		vL(uint64(s.cfg.r0), vSym(s.cfg.mode), s.cfg.syncAfter, stale, int64((s.now-time.Hour)/time.Millisecond), s.runIdx, crashes))
}

func TestVerifC05(t *testing.T) {
	defer vsmDevNull()()
	n := vEnvInt("VERIF_C05_N", 150)
	rnd := vNewRand(0xc05)
	out := vOpen("cases_c05.txt")
	defer out.Close()
	st := c01NewStats()
	vers := c01Versions()
	committed, total, nilPanics, maxLag, maxStepAfter, staleRuns, lateNodes, caught, restartRuns, restartStuck, lateCertRuns, lateCertOwn := 0, 0, 0, 0, 0, 0, 0, 0, 0, 0, 0, 0
	var worstTime time.Duration
	hist := map[int]int{}
	for k := 0; k < n; k++ {
		var cfg c01Cfg
		c01Debug = false
		dbg := os.Getenv("VERIF_C01_DEBUG") != "" && vEnvInt("VERIF_C01_DEBUGRUN", -1) == k
		var s *c01Sim
		limit := c05Limit
		directed := false
		if k%25 == 12 {
			// the late-payload-after-certificate scenarios (no ledger catch-up: the lagging node must ensure itself)
			s = c05LateCertRun(vers[k%len(vers)], rnd, st, k, k/25+vEnvInt("VERIF_SEED", 1)-1)
			cfg = s.cfg
			directed = true
			limit = 15 * time.Minute
			if s.lag >= 0 {
				lateCertRuns++
			}
		} else if k%100 == 38 {
			// tagged crash scenario (recorded finding c05_restart_loses_pipelined_payload)
			s = c05RestartRun(vers[k%len(vers)], rnd, st, k)
			cfg = s.cfg
			limit = 12 * time.Minute
			restartRuns++
		} else {
			if k%10 == 9 {
				cfg = c05NilRouterCfg(rnd, k)
			} else {
				cfg = c05Cfg(rnd, k)
			}
			s = c01NewSim(vers[k%len(vers)], rnd, cfg, st)
			s.runIdx = k
			s.runAsync(cfg.syncAfter, 1<<30)
		}
		st.runs++
		st.modes[cfg.mode]++
		stale := 0
		if cfg.nilRouter {
			stale = s.c05StaleBundles()
			if stale > 0 {
				staleRuns++
			}
		}
		if !directed {
			s.synchronise()
		}
		s.catchupDelay = 20 * time.Second
		if directed && s.lag >= 0 {
			s.catchupDelay = 0
		}
		for _, o := range s.nodes {
			if _, ok := o.ensP[cfg.r0]; ok {
				// a block committed during the asynchronous prefix is in that node's ledger
				for j, l := range s.nodes {
					if !l.done {
						s.seq++
						s.q = append(s.q, c01Timed{at: s.now + s.catchupDelay, seq: s.seq, node: j, catchup: cfg.r0})
					}
				}
				break
			}
		}
		c01Debug = dbg
		if dbg {
			for _, nd := range s.nodes {
				pl := nd.m.player()
				fmt.Fprintf(os.Stderr, "SYNC node %d done=%v (%d,%d,%d) nap=%v dl=%v frd=%v zero=%v now=%v\n", nd.id, nd.done, pl.Round, pl.Period, pl.Step, pl.Napping, pl.Deadline.Duration, pl.FastRecoveryDeadline, nd.zero, s.now)
			}
		}
		s.runSync(time.Hour+limit, 60000)
		if s.failed != "" {
			t.Fatalf("c05 run %d (%s): %s", k, cfg.mode, s.failed)
		}
		pstar := period(0)
		for _, nd := range s.nodes {
			if !nd.syncDone && nd.syncP > pstar {
				pstar = nd.syncP
			}
		}
		if directed && s.lag >= 0 {
			if _, ok := s.nodes[s.lag].ensP[cfg.r0]; ok {
				lateCertOwn++
			}
		}
		for _, nd := range s.nodes {
			total++
			if p, ok := nd.ensP[cfg.r0]; ok {
				committed++
				if !nd.syncDone {
					lag := int(p) - int(pstar)
					if lag < 0 {
						lag = 0
					}
					hist[lag]++
					if lag > maxLag {
						maxLag = lag
					}
				}
			} else if _, ok := nd.caughtUp[cfg.r0]; ok {
				caught++
			} else {
				lateNodes++
				if cfg.mode == "restart" {
					restartStuck++
				}
			}
			if int(nd.maxStepNew) > maxStepAfter {
				maxStepAfter = int(nd.maxStepNew)
			}
			nilPanics += nd.nilAfter
		}
		if d := s.now - time.Hour; d > worstTime {
			worstTime = d
		}
		out.Line(s.c05Line(stale))
	}
	vStats(map[string]interface{}{
		"runs": st.runs, "nodes": total, "nodes_committed": committed, "nodes_not_committed": lateNodes, "nodes_caught_up_through_ledger": caught,
		"ensure_period_minus_max_period_at_sync_histogram": hist, "max_periods_after_sync": maxLag, "max_step_in_a_period_entered_after_sync": maxStepAfter,
		"nil_router_panics_after_sync": nilPanics, "stale_cert_bundle_runs": staleRuns, "late_cert_scenario_runs": lateCertRuns, "late_cert_scenario_lagging_node_committed_itself": lateCertOwn, "restart_scenario_runs": restartRuns, "restart_scenario_nodes_stuck": restartStuck, "worst_virtual_seconds_to_finish": int(worstTime / time.Second),
		"submitTop_calls": st.submits, "go_panics": st.panics, "panic_classes": st.panicClasses, "crash_restores": st.crashes, "modes": st.modes,
		"timeouts": st.timeouts, "fast_timeouts": st.fasts,
	})
}

var _ = protocol.ConsensusCurrentVersion

// TestVerifC05RestartNote: minimal single-node script for the observation "a restart between the attest that
// persisted a pipelined (Filled, not yet Assembled) payload and the next attest leaves the blockAssembler
// Filled forever: every later copy of the payload is rejected (blockAssembler.pipeline: already filled), the
// node can neither cert-vote nor commit that value for the rest of the round".  Writes $VERIF_C05_NOTE.
func TestVerifC05RestartNote(t *testing.T) {
	path := os.Getenv("VERIF_C05_NOTE")
	if path == "" {
		t.Skip("VERIF_C05_NOTE not set")
	}
	defer vsmDevNull()()
	rnd := vNewRand(0x5051)
	c := vsmNewCtx(protocol.ConsensusCurrentVersion, rnd)
	const r0 = round(20)
	m := vsmNewMachine(c.ver, r0)
	pv := c.newValue(r0, 0, 2)
	var log []string
	show := func(what string, e vsmEvent) []action {
		acts, pc, _ := m.submit(e.ev)
		pl := m.player()
		ea := m.rr.Children[r0].ProposalStore.Assemblers[pv]
		log = append(log, fmt.Sprintf("%-46s -> %s %s  player=(%d,%d,%d) assembler(Filled=%v Assembled=%v)", what, vT(c.renderActions(acts)...), pc,
			pl.Round, pl.Period, pl.Step, ea.Filled, ea.Assembled))
		return acts
	}
	pvote, rank := c.mkVote(2, r0, 0, propose, pv)
	show("voteVerified proposal-vote(value 1) from 2", c.voteEvent(true, pvote, rank, vsmMeta{}, nil))
	show("payloadPresent(value 1)   [validation starts]", c.payloadEvent(false, pv, vsmMeta{}))
	acts := show("timeout (filter)          [soft vote: PERSISTED]", c.timeoutEvent(false, 7, false, r0))
	show("payloadVerified(value 1)  [validated, in memory]", c.payloadEvent(true, pv, vsmMeta{}))
	// crash before the next attest: the crash database holds the state of the soft vote
	orig := vsmNewMachine(c.ver, r0)
	orig.submit(c.voteEvent(true, pvote, rank, vsmMeta{}, nil).ev)
	orig.submit(c.payloadEvent(false, pv, vsmMeta{}).ev)
	orig.submit(c.timeoutEvent(false, 7, false, r0).ev)
	m2, _, errs := vsmRestore(orig, acts, false)
	if errs != "" {
		t.Fatal(errs)
	}
	m = m2
	log = append(log, "-- crash + restart: real encode (state of the last persistent action list) / decode --")
	show("payloadPresent(value 1)   [relayed again]", c.payloadEvent(false, pv, vsmMeta{}))
	for _, sn := range []uint64{1, 3, 4, 5, 6, 7} {
		v, rk := c.mkVote(sn, r0, 0, soft, pv)
		show(fmt.Sprintf("voteVerified soft(value 1) from %d", sn), c.voteEvent(true, v, rk, vsmMeta{}, nil))
	}
	show("payloadPresent(value 1)   [partition-policy rebroadcast]", c.payloadEvent(false, pv, vsmMeta{}))
	show("timeout (deadline)        [next vote]", c.timeoutEvent(false, 7, false, r0))
	if err := os.WriteFile(path, []byte(strings.Join(log, "\n")+"\n"), 0644); err != nil {
		t.Fatal(err)
	}
}
