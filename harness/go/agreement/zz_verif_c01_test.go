//go:build verif

package agreement

// C01 (layer 2) / C05: N-node simulator.  N REAL state machines (rootRouter + player, built as
// b-agree's shared harness builds them: vsmNewMachine / submit) are wired through a seeded adversarial
// scheduler.  Nothing is delivered to a machine that the real service could not deliver:
//
//   * an attest action is executed like pseudonode does: the vote goes back to the node's OWN machine as
//     voteVerified (nil message handle); it reaches other nodes only through the relay/broadcast network
//     actions the machines emit (votes, bundles, compound proposal messages, broadcastVotes dumps);
//   * assemble / repropose make a proposal-vote (+ payload) for the own machine, as pseudonode does;
//   * a network message is delivered as votePresent / bundlePresent / payloadPresent (compound: votePresent
//     with a payloadPresent tail, as demux.setupCompoundMessage does); the verify* crypto actions the machine
//     answers with are turned into the matching *Verified event for the SAME node;
//   * a payload validation that is still in flight when a newer proposal of the same (round, period | pinned)
//     is submitted comes back Cancelled (pendingRequestsContext.addProposal); nothing else is ever "lost"
//     inside a node; the network de-duplicates like a rotating recently-seen cache (an identical message is
//     not queued twice and not delivered again within 60 scheduler steps / 5 s after its delivery);
//   * the scheduler decides order, delay, duplication, loss, partitions, per-step withholding, timeouts
//     (any time: a timeout that fires "early" is a late message) and fast timeouts (hypothesis N5 of
//     DESIGN 8.2: a VOTING fast timeout is delivered only to a node whose Step > cert; the first,
//     non-voting one is free, as in the service where it fires at time 0 of every period; deadline timeouts
//     stop at step next+11 of one period, see c01StepCap);
//   * Byzantine senders (ids n+1..n+nb, no machine) cast arbitrary valid votes: echo every honest group's
//     own votes back to that group only (two-faced), vote random values, equivocate, craft bundles from any
//     votes that were ever on the network (stale bundles included) and propose withheld / equivocating values;
//   * crash-restore of a node = the REAL persistence.go encode at the last persistent action list and decode
//     at the crash, followed by re-execution of the restored actions (service.mainLoop); a Go panic out of
//     submitTop kills the node the same way.
//
// ONE global trace per (run, round) in the vocabulary of coq/model/AbstractBA.v:
//   (v snd per step val)   a vote cast: honest = attest action emitted; Byzantine = injected; synthetic =
//                          an equivocator (provably Byzantine) that a real tracker counted toward a value
//                          it never voted for (recorded when the tracker holds a quorum for that value)
//   (e node per k val)     an honest player's Period changed; k/val from the threshold event that triggered
//                          enterPeriod (0 next, 1 soft, 2 cert; it is VoteTrackerRound.Freshest, set in the
//                          same submitTop); a crash that rolls a node back over a period entry it never voted
//                          in erases that (unobservable) entry
// plus every ensureAction and the weight table of every (period, step) committee.  Case line:
//   (c01 (Tsoft Tcert Tnext Tlate Tredo Tdown) (honest ids) (byz ids) ((p s (w per id)) ...) (events, oldest
//        first) ((node val certperiod) ...) (round mode flags...))
// checked by coq/model/C01Check.v (first_bad / conflicting_certs of ConcreteBA.v).

import (
	"fmt"
	"os"
	"sort"
	"strings"
	"testing"
	"time"

	"github.com/algorand/go-algorand/data/committee"
	"github.com/algorand/go-algorand/logging"
	"github.com/algorand/go-algorand/protocol"
	"github.com/algorand/go-algorand/util/timers"
)

// ---------------------------------------------------------------- configuration

type c01Cfg struct {
	n, nb     int
	stake     []uint64 // per-mille stake per sender id (index id-1), honest first
	rounds    int
	r0        round
	steps     int
	mode      string
	over      bool // Byzantine stake above the quorum-intersection bound (forks are legitimate)
	crashes   int
	w         map[string]int
	withhold  []c01Rule
	partUntil int // scheduler step at which the partition heals (-1: never)
	groups    []int
	syncAfter int // C05: scheduler step of the synchrony point (0: none)
	nilRouter bool
}

// a withholding rule: messages of the given step class are not delivered to nodes of the group
type c01Rule struct {
	class string // "soft", "cert", "next", "prop", "bundle"; "payload" = compound proposal messages only
	group int
	until int
	per1  int // 0: any period, otherwise period+1 of the votes concerned
}

const (
	c01MVote = iota
	c01MBundle
	c01MCompound
)

type c01Msg struct {
	kind int
	uv   unauthenticatedVote
	ub   unauthenticatedBundle
	pv   proposalValue
	from int // node index, -1 byzantine
	rnd  round
}

type c01Ev struct {
	term  string
	node  uint64
	enter bool
	dead  bool
}

type c01VK struct{ snd, p, s, val uint64 }

type c01Trace struct {
	evs     []c01Ev
	voted   map[c01VK]bool
	ps      map[[2]uint64]bool
	ensures []interface{}
	ensVal  map[uint64]bool
	pub     []vote // votes that were on the network (bundle crafting material)
	pubSeen map[c01VK]bool
	byzAt   map[[3]uint64][]proposalValue // (snd,p,s) -> values voted by a Byzantine sender
	values  []proposalValue
	maxP    period
	synth   int
	dbg     int
}

type c01Node struct {
	id       uint64
	m        *vsmMachine
	inbox    []c01Msg
	local    []vsmEvent
	raw      []byte // last persisted state (real encode)
	rawRound round
	hasRaw   bool
	mark     map[round]int // trace length at the last persist
	crashes  int
	panics   int
	done     bool
	seen     map[string]int64 // gossip de-duplication: -1 queued, otherwise the (virtual) time of the last delivery
	zero     time.Duration // C05 virtual time of the last rezero
	ensP     map[round]period
	caughtUp map[round]period // finished the round through the ledger (roundInterruption), in that period
	maxStep  step // largest Step seen after the synchrony point
	maxStepNew step // ... in a period entered after the synchrony point
	syncP    period
	syncR    round
	syncDone bool // already committed at the synchrony point
	panicsAfter, nilAfter int
}

type c01Timed struct {
	at   time.Duration
	seq  int
	node int
	net  bool
	catchup round // != 0: the ledger of this node obtained the block of that round from a peer (catchup service)
	msg  c01Msg
	ev   vsmEvent
}

type c01Sim struct {
	c      *vsmCtx
	rnd    *vRand
	cfg    c01Cfg
	nodes  []*c01Node
	ids    []uint64
	tr     map[round]*c01Trace
	hist   []c01Msg
	bund   []c01Msg
	step   int
	sync   bool
	now    time.Duration
	q      []c01Timed
	seq    int
	st     *c01Stats
	failed string
	nilHit int
	lastR  round
	runIdx int
	catchupDelay time.Duration
	lag    int          // C05 directed scenarios: index of the lagging node (-1: none)
	noLoss bool         // directed scenarios: nothing in flight is lost at the synchrony point
	hold   map[int]bool // nodes whose payload validation results are held back (directed scenarios)
	dlObs  []interface{} // C05: (period stepBefore napBefore entropy stepAfter napAfter deadlineAfter dynamicFilter) per deadline timeout
}

type c01Stats struct {
	runs, submits, votes, enters, ensures, crashes, panics, synth, byzVotes, byzBundles, forksOver, forksUnder int
	cancelled, dropped, dups, timeouts, fasts, replays, committedRuns, maxPeriod, maxStep, traceMax, rollbackEnters   int
	enterKinds, voteKinds                                                                                   map[string]int
	modes                                                                                                   map[string]int
	panicClasses                                                                                            map[string]int
}

func c01NewStats() *c01Stats {
	return &c01Stats{modes: map[string]int{}, panicClasses: map[string]int{}, enterKinds: map[string]int{}, voteKinds: map[string]int{}}
}

var c01Debug = os.Getenv("VERIF_C01_DEBUG") != ""

func c01Short(e vsmEvent) string {
	switch x := e.ev.(type) {
	case messageEvent:
		switch x.T {
		case votePresent, voteVerified:
			r := x.Input.UnauthenticatedVote.R
			return fmt.Sprintf("%v snd%d p%d s%d", x.T, vsmSnd(r.Sender), r.Period, r.Step)
		case bundlePresent, bundleVerified:
			b := x.Input.UnauthenticatedBundle
			return fmt.Sprintf("%v p%d s%d", x.T, b.Period, b.Step)
		}
		return fmt.Sprint(x.T)
	case timeoutEvent:
		return fmt.Sprint(x.T)
	}
	return ""
}

// ---------------------------------------------------------------- votes / weights

func (s *c01Sim) weight(snd uint64, r round, p period, st step) uint64 {
	if st == propose {
		return 1
	}
	size := st.committeeSize(s.c.proto)
	return size*s.cfg.stake[snd-1]/1000 + (uint64(r)*7+uint64(p)*3+uint64(st)+snd*11)%5
}

func (s *c01Sim) mkVote(snd uint64, r round, p period, st step, pv proposalValue) (vote, uint64) {
	cr, rank := s.c.cred(snd, r, p, st)
	cr = committee.Credential{Weight: s.weight(snd, r, p, st), VrfOut: cr.VrfOut}
	if st != propose {
		s.trace(r).ps[[2]uint64{uint64(p), uint64(st)}] = true
	}
	return vote{R: rawVote{Sender: vsmAddr(snd), Round: r, Period: p, Step: st, Proposal: pv}, Cred: cr}, rank
}

func (s *c01Sim) mkVoteU(uv unauthenticatedVote) (vote, uint64) {
	return s.mkVote(vsmSnd(uv.R.Sender), uv.R.Round, uv.R.Period, uv.R.Step, uv.R.Proposal)
}

func (s *c01Sim) trace(r round) *c01Trace {
	t := s.tr[r]
	if t == nil {
		t = &c01Trace{voted: map[c01VK]bool{}, ps: map[[2]uint64]bool{}, ensVal: map[uint64]bool{}, pubSeen: map[c01VK]bool{},
			byzAt: map[[3]uint64][]proposalValue{}}
		s.tr[r] = t
	}
	return t
}

func (s *c01Sim) valID(pv proposalValue) uint64 {
	if pv == bottom {
		return 0
	}
	return s.c.vals[pv.BlockDigest].id
}

func (s *c01Sim) inScope(r round) bool { return r >= s.cfg.r0 && r <= s.lastR }

// recordVote appends (v snd p s val) unless that exact vote is already in the trace
func (s *c01Sim) recordVote(r round, snd uint64, p period, st step, pv proposalValue, always bool) {
	if !s.inScope(r) || st == propose {
		return
	}
	t := s.trace(r)
	k := c01VK{snd, uint64(p), uint64(st), s.valID(pv)}
	if t.voted[k] && !always {
		return
	}
	t.voted[k] = true
	t.ps[[2]uint64{uint64(p), uint64(st)}] = true
	if p > t.maxP {
		t.maxP = p
	}
	t.evs = append(t.evs, c01Ev{term: vT(vSym("v"), snd, uint64(p), uint64(st), k.val), node: snd})
}

func (s *c01Sim) publish(v vote) {
	if !s.inScope(v.R.Round) || v.R.Step == propose {
		return
	}
	t := s.trace(v.R.Round)
	k := c01VK{vsmSnd(v.R.Sender), uint64(v.R.Period), uint64(v.R.Step), s.valID(v.R.Proposal)}
	if !t.pubSeen[k] {
		t.pubSeen[k] = true
		t.pub = append(t.pub, v)
	}
}

func (s *c01Sim) isByz(snd uint64) bool { return snd > uint64(s.cfg.n) }

// ---------------------------------------------------------------- events

func (s *c01Sim) bundleEv(verified bool, ub unauthenticatedBundle, m vsmMeta) vsmEvent {
	var e messageEvent
	e.Input.Tag = protocol.VoteBundleTag
	e.Input.UnauthenticatedBundle = ub
	if verified {
		var b bundle
		b.U = ub
		for _, a := range ub.Votes {
			v, _ := s.mkVote(vsmSnd(a.Sender), ub.Round, ub.Period, ub.Step, ub.Proposal)
			b.Votes = append(b.Votes, v)
		}
		for _, a := range ub.EquivocationVotes {
			v, _ := s.mkVote(vsmSnd(a.Sender), ub.Round, ub.Period, ub.Step, ub.Proposal)
			b.EquivocationVotes = append(b.EquivocationVotes, equivocationVote{Sender: a.Sender, Round: ub.Round, Period: ub.Period,
				Step: ub.Step, Cred: v.Cred, Proposals: a.Proposals})
		}
		e.T = bundleVerified
		e.Input.Bundle = b
	} else {
		e.T = bundlePresent
	}
	s.c.fillMeta(&e, m)
	return vsmEvent{ev: e, kind: "bundle"}
}

func (s *c01Sim) presentEvent(m c01Msg) vsmEvent {
	switch m.kind {
	case c01MVote:
		v, rank := s.mkVoteU(m.uv)
		return s.c.voteEvent(false, v, rank, vsmMeta{}, nil)
	case c01MBundle:
		return s.bundleEv(false, m.ub, vsmMeta{})
	default:
		if m.uv.R == (rawVote{}) {
			return s.c.payloadEvent(false, m.pv, vsmMeta{})
		}
		v, rank := s.mkVoteU(m.uv)
		pv := m.pv
		return s.c.voteEvent(false, v, rank, vsmMeta{}, &pv)
	}
}

func (m c01Msg) class() string {
	switch m.kind {
	case c01MBundle:
		return "bundle"
	case c01MCompound:
		return "prop"
	}
	switch st := m.uv.R.Step; {
	case st == propose:
		return "prop"
	case st == soft:
		return "soft"
	case st == cert:
		return "cert"
	default:
		return "next"
	}
}

// ---------------------------------------------------------------- network

func (s *c01Sim) msgKey(m c01Msg) string {
	switch m.kind {
	case c01MVote:
		r := m.uv.R
		return fmt.Sprintf("v%d.%d.%d.%d.%d", vsmSnd(r.Sender), r.Round, r.Period, r.Step, s.valID(r.Proposal))
	case c01MBundle:
		return fmt.Sprintf("b%d.%d.%d.%d.%d.%d", m.ub.Round, m.ub.Period, m.ub.Step, s.valID(m.ub.Proposal), len(m.ub.Votes), len(m.ub.EquivocationVotes))
	}
	r := m.uv.R
	return fmt.Sprintf("c%d.%d.%d.%d", s.valID(m.pv), vsmSnd(r.Sender), r.Period, r.Step)
}

// send: gossip de-duplication as a rotating "recently seen" cache would do it: an identical message is not
// queued twice, and not delivered again within a window after its delivery (60 scheduler steps / 5 s of
// virtual time); a lost message can come again with a later relay; a restarted node has forgotten what it saw.
// sendRaw bypasses it.
func (s *c01Sim) stamp() int64 {
	if s.sync {
		return int64(s.now/time.Millisecond) + 1
	}
	return int64(s.step) + 1
}

func (s *c01Sim) send(from int, to int, m c01Msg) {
	nd := s.nodes[to]
	k := s.msgKey(m)
	if at, ok := nd.seen[k]; ok {
		win := int64(60)
		if s.sync {
			win = 5000
		}
		if at < 0 || s.stamp()-at < win {
			return
		}
	}
	nd.seen[k] = -1
	s.sendRaw(to, m)
}

func (s *c01Sim) lost(to int, m c01Msg) {
	nd := s.nodes[to]
	if k := s.msgKey(m); nd.seen[k] == -1 {
		delete(nd.seen, k)
	}
}

func (s *c01Sim) deliver(to int, m c01Msg) {
	s.nodes[to].seen[s.msgKey(m)] = s.stamp()
	s.submit(to, s.presentEvent(m))
}

func (s *c01Sim) sendRaw(to int, m c01Msg) {
	nd := s.nodes[to]
	if nd.done {
		return
	}
	if s.sync {
		// bounded delay: well below the filter timeout (2 lambda = 4 s)
		d := time.Duration(s.rnd.Intn(400)+1) * time.Millisecond
		s.seq++
		s.q = append(s.q, c01Timed{at: s.now + d, seq: s.seq, node: to, net: true, msg: m})
		return
	}
	if len(nd.inbox) > 400 {
		s.lost(to, m)
		return // bounded buffers: oldest kept
	}
	nd.inbox = append(nd.inbox, m)
}

func (s *c01Sim) bcast(from int, m c01Msg) {
	m.from = from
	for j := range s.nodes {
		if j != from {
			s.send(from, j, m)
		}
	}
	if len(s.hist) < 4000 {
		s.hist = append(s.hist, m)
	}
	if m.kind == c01MBundle && len(s.bund) < 500 {
		s.bund = append(s.bund, m)
	}
}

func (s *c01Sim) cancelPending(i int, key string) {
	canc := func(e *vsmEvent) {
		if e.kind != key {
			return
		}
		me := e.ev.(messageEvent)
		if me.Cancelled {
			return
		}
		me.Cancelled = true
		e.ev = me
		s.st.cancelled++
	}
	for k := range s.nodes[i].local {
		canc(&s.nodes[i].local[k])
	}
	for k := range s.q {
		if s.q[k].node == i && !s.q[k].net {
			canc(&s.q[k].ev)
		}
	}
}

func (s *c01Sim) pushLocal(i int, e vsmEvent) {
	if s.sync {
		s.seq++
		s.q = append(s.q, c01Timed{at: s.now + time.Millisecond, seq: s.seq, node: i, ev: e})
		return
	}
	s.nodes[i].local = append(s.nodes[i].local, e)
}

func (s *c01Sim) blocked(m c01Msg, to int) bool {
	if s.sync {
		return false
	}
	g := s.cfg.groups[to]
	if m.from >= 0 && s.cfg.partUntil != 0 && (s.cfg.partUntil < 0 || s.step < s.cfg.partUntil) && s.cfg.groups[m.from] != g {
		return true
	}
	cl := m.class()
	for _, r := range s.cfg.withhold {
		if r.group != g || !(r.until < 0 || s.step < r.until) {
			continue
		}
		if r.class == "payload" {
			if m.kind == c01MCompound {
				return true
			}
			continue
		}
		if r.class == cl && (r.per1 == 0 || (m.kind == c01MVote && int(m.uv.R.Period)+1 == r.per1)) {
			return true
		}
	}
	return false
}

// ---------------------------------------------------------------- running one event on one node

func (s *c01Sim) submit(i int, e vsmEvent) {
	nd := s.nodes[i]
	if nd.done || s.failed != "" {
		return
	}
	pl := nd.m.player()
	r0, p0 := pl.Round, pl.Period
	acts, pc, pm := nd.m.submit(e.ev)
	s.st.submits++
	if c01Debug {
		pl2 := nd.m.player()
		fmt.Fprintf(os.Stderr, "c01 step %d node %d %s -> (%d,%d,%d) %s %s\n", s.step, nd.id, e.kind+":"+c01Short(e), pl2.Round, pl2.Period, pl2.Step, pc, vT(s.c.renderActions(acts)...))
	}
	if c01Debug {
		for _, t := range s.tr {
			for len(t.evs) > t.dbg {
				fmt.Fprintf(os.Stderr, "      trace %s\n", t.evs[t.dbg].term)
				t.dbg++
			}
		}
	}
	if pc != "" {
		s.st.panics++
		s.st.panicClasses[pc]++
		nd.panics++
		if pc == "nil_router" {
			s.nilHit++
			if s.sync {
				nd.nilAfter++
			}
		}
		if s.sync {
			nd.panicsAfter++
		} else if c01Debug {
			fmt.Fprintf(os.Stderr, "c01: node %d panic %s: %s\n", nd.id, pc, pm)
		}
		// service.mainLoop has no recover: the process dies and restarts from the crash database
		s.crash(i)
		return
	}
	s.after(i, r0, p0, acts, false)
}

func (s *c01Sim) viaOf(nd *c01Node, r round, target period) (k uint64, val uint64, ok bool) {
	rr := nd.m.rr.Children[r]
	if rr == nil || !rr.VoteTrackerRound.Ok {
		return 9, 0, false
	}
	f := rr.VoteTrackerRound.Freshest
	switch f.T {
	case nextThreshold:
		return 0, s.valID(f.Proposal), f.Period+1 == target && f.Round == r
	case softThreshold:
		return 1, s.valID(f.Proposal), f.Period == target && f.Round == r
	case certThreshold:
		return 2, s.valID(f.Proposal), f.Period == target && f.Round == r
	}
	return 9, 0, false
}

// syncEquivocators: a tracker that holds a quorum for value v with the help of equivocators counts every
// equivocator X as a voter for v; X is provably Byzantine, so Vote(X, p, s, v) is added to the trace
func (s *c01Sim) syncEquivocators(nd *c01Node) {
	type item struct {
		r  round
		k  c01VK
		pv proposalValue
	}
	var items []item
	for r, rr := range nd.m.rr.Children {
		if !s.inScope(r) || rr == nil {
			continue
		}
		for p, pr := range rr.Children {
			if pr == nil {
				continue
			}
			for st, sr := range pr.Children {
				if sr == nil || len(sr.VoteTracker.Equivocators) == 0 {
					continue
				}
				t := &sr.VoteTracker
				for pv := range t.Counts {
					if !st.reachesQuorum(s.c.proto, t.count(pv)) {
						continue
					}
					for a := range t.Equivocators {
						k := c01VK{vsmSnd(a), uint64(p), uint64(st), s.valID(pv)}
						if !s.trace(r).voted[k] {
							items = append(items, item{r, k, pv})
						}
					}
				}
			}
		}
	}
	sort.Slice(items, func(a, b int) bool {
		x, y := items[a], items[b]
		if x.r != y.r {
			return x.r < y.r
		}
		if x.k.p != y.k.p {
			return x.k.p < y.k.p
		}
		if x.k.s != y.k.s {
			return x.k.s < y.k.s
		}
		if x.k.val != y.k.val {
			return x.k.val < y.k.val
		}
		return x.k.snd < y.k.snd
	})
	for _, it := range items {
		if !s.trace(it.r).voted[it.k] {
			s.recordVote(it.r, it.k.snd, period(it.k.p), step(it.k.s), it.pv, false)
			s.trace(it.r).synth++
			s.st.synth++
		}
	}
}

func (s *c01Sim) enter(nd *c01Node, r round, target period) {
	if !s.inScope(r) {
		return
	}
	k, val, ok := s.viaOf(nd, r, target)
	if !ok {
		k = 9
	}
	t := s.trace(r)
	if target > t.maxP {
		t.maxP = target
	}
	t.evs = append(t.evs, c01Ev{term: vT(vSym("e"), nd.id, uint64(target), k, val), node: nd.id, enter: true})
	s.st.enters++
	kind := map[uint64]string{0: "next", 1: "soft", 2: "cert", 9: "unknown"}[k]
	if k == 0 && val == 0 {
		kind = "next_bottom"
	} else if k == 0 {
		kind = "next_value"
	}
	s.st.enterKinds[kind]++
}

func (s *c01Sim) after(i int, r0 round, p0 period, acts []action, restored bool) {
	nd := s.nodes[i]
	pl := nd.m.player()
	s.syncEquivocators(nd)
	curR, curP := r0, p0
	moveTo := func(r round, p period) {
		if r != curR {
			curR, curP = r, 0
		}
		if p != curP {
			s.enter(nd, r, p)
			curP = p
		}
	}
	for _, a := range acts {
		switch x := a.(type) {
		case pseudonodeAction:
			switch x.T {
			case attest:
				if !restored {
					moveTo(x.Round, x.Period)
				}
				s.recordVote(x.Round, nd.id, x.Period, x.Step, x.Proposal, true)
				s.st.votes++
				vk := map[step]string{soft: "soft", cert: "cert", late: "late", redo: "redo", down: "down"}[x.Step]
				if vk == "" {
					vk = "next_value"
					if x.Proposal == bottom {
						vk = "next_bottom"
					}
				}
				if x.Period > 0 && (x.Step == soft || x.Step == cert) {
					vk += "_later_period"
				}
				s.st.voteKinds[vk]++
				v, rank := s.mkVote(nd.id, x.Round, x.Period, x.Step, x.Proposal)
				s.pushLocal(i, s.c.voteEvent(true, v, rank, vsmMeta{hnil: true}, nil))
			case assemble:
				if s.inScope(x.Round) {
					pv := s.c.newValue(x.Round, x.Period, nd.id)
					s.trace(x.Round).values = append(s.trace(x.Round).values, pv)
					v, rank := s.mkVote(nd.id, x.Round, x.Period, propose, pv)
					s.pushLocal(i, s.c.voteEvent(true, v, rank, vsmMeta{hnil: true}, nil))
					s.pushLocal(i, s.c.payloadEvent(true, pv, vsmMeta{hnil: true}))
				}
			case repropose:
				if s.inScope(x.Round) {
					v, rank := s.mkVote(nd.id, x.Round, x.Period, propose, x.Proposal)
					s.pushLocal(i, s.c.voteEvent(true, v, rank, vsmMeta{hnil: true}, nil))
				}
			}
		case ensureAction:
			r := x.Payload.Round()
			if s.inScope(r) {
				t := s.trace(r)
				id := s.valID(x.Payload.value())
				t.ensures = append(t.ensures, vL(nd.id, id, uint64(x.Certificate.Period)))
				t.ensVal[id] = true
				nd.ensP[r] = x.Certificate.Period
				s.st.ensures++
				if s.sync && s.catchupDelay > 0 {
					// the block and its certificate are now in this node's ledger: peers that fall behind fetch it
					for j, o := range s.nodes {
						if j != i && !o.done {
							s.seq++
							s.q = append(s.q, c01Timed{at: s.now + s.catchupDelay, seq: s.seq, node: j, catchup: r})
						}
					}
				}
			}
		case networkAction:
			switch x.T {
			case relay, broadcast:
				switch x.Tag {
				case protocol.AgreementVoteTag:
					if v, _ := s.mkVoteU(x.UnauthenticatedVote); true {
						s.publish(v)
					}
					s.bcast(i, c01Msg{kind: c01MVote, uv: x.UnauthenticatedVote, rnd: x.UnauthenticatedVote.R.Round})
				case protocol.VoteBundleTag:
					s.bcast(i, c01Msg{kind: c01MBundle, ub: x.UnauthenticatedBundle, rnd: x.UnauthenticatedBundle.Round})
				case protocol.ProposalPayloadTag:
					s.bcast(i, c01Msg{kind: c01MCompound, uv: x.CompoundMessage.Vote, pv: x.CompoundMessage.Proposal.value(), rnd: x.CompoundMessage.Proposal.Round()})
				}
			case broadcastVotes:
				// dumpVotesRequest walks Go maps: fix the order so that runs are reproducible
				uvs := append([]unauthenticatedVote(nil), x.UnauthenticatedVotes...)
				sort.SliceStable(uvs, func(a, b int) bool { return s.msgKey(c01Msg{kind: c01MVote, uv: uvs[a]}) < s.msgKey(c01Msg{kind: c01MVote, uv: uvs[b]}) })
				for _, uv := range uvs {
					s.bcast(i, c01Msg{kind: c01MVote, uv: uv, rnd: uv.R.Round})
				}
			}
		case cryptoAction:
			m := vsmMeta{hnil: x.M.messageHandle == nil}
			switch x.T {
			case verifyVote:
				v, rank := s.mkVoteU(x.M.UnauthenticatedVote)
				m.task = x.TaskIndex
				s.pushLocal(i, s.c.voteEvent(true, v, rank, m, nil))
			case verifyPayload:
				if x.M.UnauthenticatedProposal.Round() != x.Round {
					m.err = true // proposal.validate: proposed entry from wrong round
				}
				// pendingRequestsContext.addProposal: a new proposal of the same (round, period | pinned) cancels
				// the validation of the older one that is still in flight (it comes back as Cancelled)
				key := fmt.Sprintf("payloadV:%d:%d:%v", x.Round, x.Period, x.Pinned)
				if x.Pinned {
					key = fmt.Sprintf("payloadV:%d:pinned", x.Round)
				}
				s.cancelPending(i, key)
				ev := s.c.payloadEvent(true, x.M.UnauthenticatedProposal.value(), m)
				ev.kind = key
				s.pushLocal(i, ev)
			case verifyBundle:
				s.pushLocal(i, s.bundleEv(true, x.M.UnauthenticatedBundle, m))
			}
		case rezeroAction:
			nd.zero = s.now
		}
	}
	if !restored {
		moveTo(pl.Round, pl.Period)
	}
	if s.sync && pl.Step > nd.maxStep && pl.Step < late {
		nd.maxStep = pl.Step
	}
	if s.sync && !nd.done && (pl.Round != nd.syncR || pl.Period != nd.syncP) && pl.Round == nd.syncR && pl.Step > nd.maxStepNew && pl.Step < late {
		nd.maxStepNew = pl.Step
	}
	if uint64(pl.Step) > uint64(s.st.maxStep) && pl.Step < late {
		s.st.maxStep = int(pl.Step)
	}
	if persistent(acts) && vsmDecodable(acts) {
		clock := timers.MakeMonotonicClock[TimeoutType](time.Date(2015, 1, 2, 5, 6, 7, 8, time.UTC))
		nd.raw = encode(clock, *nd.m.rr, *pl, acts, false)
		nd.rawRound = pl.Round
		nd.hasRaw = true
		for r, t := range s.tr {
			nd.mark[r] = len(t.evs)
		}
	}
	if pl.Round > s.lastR {
		nd.done = true
		nd.inbox, nd.local = nil, nil
	}
}

// crash: restart of the node process (service.mainLoop): restore + decode, re-execute the saved actions
func (s *c01Sim) crash(i int) {
	nd := s.nodes[i]
	s.st.crashes++
	nd.crashes++
	cur := nd.m.player().Round
	// period entries the node never voted in are forgotten
	for r, t := range s.tr {
		from := nd.mark[r]
		if !nd.hasRaw || nd.rawRound < cur {
			// a node that never persisted in its current round restarts in period 0 of that round
			if r >= cur {
				from = 0
			}
			if r < cur {
				continue
			}
		}
		for k := from; k < len(t.evs); k++ {
			if t.evs[k].enter && t.evs[k].node == nd.id && !t.evs[k].dead {
				t.evs[k].dead = true
				s.st.rollbackEnters++
			}
		}
	}
	nd.local = nil // crypto tasks in flight are lost
	for k, v := range nd.seen {
		if v >= 0 {
			delete(nd.seen, k) // the restarted process has an empty de-duplication cache
		}
	}
	if s.sync {
		q := s.q[:0]
		for _, e := range s.q {
			if !(e.node == i && !e.net && e.catchup == 0) {
				q = append(q, e)
			}
		}
		s.q = q
	}
	var acts []action
	if nd.hasRaw && nd.rawRound >= cur {
		t0 := timers.MakeMonotonicClock[TimeoutType](time.Date(2000, 0, 0, 0, 0, 0, 0, time.UTC))
		_, rr2, _, a2, err := decode(nd.raw, t0, serviceLogger{logging.Base()}, false)
		if err != nil {
			s.failed = "decode failed: " + err.Error()
			return
		}
		nd.m = &vsmMachine{rr: &rr2, tr: &tracer{log: serviceLogger{logging.Base()}}}
		acts = a2
		nd.zero = s.now
		pl := nd.m.player()
		s.after(i, pl.Round, pl.Period, acts, true)
		return
	}
	// no usable crash state: fresh player for the ledger's next round + assemble (mainLoop)
	nd.m = vsmNewMachine(s.c.ver, cur)
	nd.hasRaw = false
	nd.zero = s.now
	s.after(i, cur, 0, []action{pseudonodeAction{T: assemble, Round: cur, Period: 0}}, true)
}

// ---------------------------------------------------------------- Byzantine moves

func (s *c01Sim) byzIDs() []uint64 {
	return s.ids[s.cfg.n:]
}

func (s *c01Sim) byzCast(b uint64, r round, p period, st step, pv proposalValue) (vote, bool) {
	if st <= cert && pv == bottom {
		return vote{}, false
	}
	t := s.trace(r)
	k := [3]uint64{b, uint64(p), uint64(st)}
	seen := false
	for _, x := range t.byzAt[k] {
		if x == pv {
			seen = true
		}
	}
	if !seen {
		if len(t.byzAt[k]) >= 2 {
			return vote{}, false // a third value adds nothing: the sender is already an equivocator
		}
		t.byzAt[k] = append(t.byzAt[k], pv)
	}
	s.recordVote(r, b, p, st, pv, false)
	v, _ := s.mkVote(b, r, p, st, pv)
	s.publish(v)
	s.st.byzVotes++
	return v, true
}

func (s *c01Sim) targets(group int) []int {
	var out []int
	for j, nd := range s.nodes {
		if nd.done {
			continue
		}
		if group < 0 || s.cfg.groups[j] == group {
			out = append(out, j)
		}
	}
	return out
}

func (s *c01Sim) someValue(r round, p period) proposalValue {
	t := s.trace(r)
	if len(t.values) == 0 || s.rnd.Intn(12) == 0 {
		b := s.byzIDs()
		if len(b) == 0 {
			if len(t.values) == 0 {
				return bottom
			}
			return t.values[s.rnd.Intn(len(t.values))]
		}
		pv := s.c.newValue(r, p, b[s.rnd.Intn(len(b))])
		t.values = append(t.values, pv)
		return pv
	}
	return t.values[s.rnd.Intn(len(t.values))]
}

func (s *c01Sim) curRound() round {
	r := s.lastR
	for _, nd := range s.nodes {
		if !nd.done && nd.m.player().Round < r {
			r = nd.m.player().Round
		}
	}
	return r
}

// byzEcho: every Byzantine sender repeats a vote of an honest node, to that node's group only
func (s *c01Sim) byzEcho() {
	r := s.curRound()
	t := s.trace(r)
	var cand []vote
	for _, v := range t.pub {
		if !s.isByz(vsmSnd(v.R.Sender)) && v.R.Period+1 >= t.maxP {
			cand = append(cand, v)
		}
	}
	if len(cand) == 0 {
		return
	}
	v := cand[s.rnd.Intn(len(cand))]
	g := s.cfg.groups[int(vsmSnd(v.R.Sender))-1]
	for _, b := range s.byzIDs() {
		bv, ok := s.byzCast(b, r, v.R.Period, v.R.Step, v.R.Proposal)
		if !ok {
			continue
		}
		for _, j := range s.targets(g) {
			s.send(-1, j, c01Msg{kind: c01MVote, uv: bv.u(), from: -1, rnd: r})
		}
	}
}

func (s *c01Sim) pickStep(nd *c01Node) step {
	switch x := s.rnd.Intn(100); {
	case x < 30:
		return soft
	case x < 58:
		return cert
	case x < 88:
		st := next + step(s.rnd.Intn(3))
		if nd != nil && nd.m.player().Step > next {
			st = nd.m.player().Step - 1 + step(s.rnd.Intn(3))
		}
		return st
	case x < 92:
		return late
	case x < 96:
		return redo
	default:
		return down
	}
}

func (s *c01Sim) byzRandom() {
	r := s.curRound()
	bs := s.byzIDs()
	if len(bs) == 0 {
		return
	}
	tg := s.targets(-1)
	if len(tg) == 0 {
		return
	}
	nd := s.nodes[tg[s.rnd.Intn(len(tg))]]
	p := nd.m.player().Period
	if s.rnd.Intn(5) == 0 && p > 0 {
		p--
	} else if s.rnd.Intn(6) == 0 {
		p++
	}
	st := s.pickStep(nd)
	pv := s.someValue(r, p)
	if st > cert && s.rnd.Intn(2) == 0 {
		pv = bottom
	}
	b := bs[s.rnd.Intn(len(bs))]
	bv, ok := s.byzCast(b, r, p, st, pv)
	if !ok {
		return
	}
	for _, j := range tg {
		if s.rnd.Intn(3) != 0 {
			s.send(-1, j, c01Msg{kind: c01MVote, uv: bv.u(), from: -1, rnd: r})
		}
	}
}

func (s *c01Sim) byzPropose() {
	r := s.curRound()
	bs := s.byzIDs()
	tg := s.targets(-1)
	if len(bs) == 0 || len(tg) == 0 {
		return
	}
	b := bs[s.rnd.Intn(len(bs))]
	p := s.nodes[tg[s.rnd.Intn(len(tg))]].m.player().Period
	pv := s.c.newValue(r, p, b)
	s.trace(r).values = append(s.trace(r).values, pv)
	v, _ := s.mkVote(b, r, p, propose, pv)
	withhold := s.rnd.Intn(3) == 0
	g := -1
	if s.rnd.Intn(2) == 0 {
		g = s.rnd.Intn(2)
	}
	for _, j := range s.targets(g) {
		if withhold {
			s.send(-1, j, c01Msg{kind: c01MVote, uv: v.u(), from: -1, rnd: r})
		} else {
			s.send(-1, j, c01Msg{kind: c01MCompound, uv: v.u(), pv: pv, from: -1, rnd: r})
		}
	}
}

// byzBundle: a bundle for (p, st, pv) from votes that were on the network, topped up with Byzantine votes /
// equivocation pairs
func (s *c01Sim) craft(r round, p period, st step, pv proposalValue) (ub unauthenticatedBundle, ok bool) {
	if st <= cert && pv == bottom {
		return ub, false
	}
	t := s.trace(r)
	th := st.threshold(s.c.proto)
	var vs []vote
	have := map[uint64]bool{}
	var w uint64
	for _, v := range t.pub {
		snd := vsmSnd(v.R.Sender)
		if v.R.Period == p && v.R.Step == st && v.R.Proposal == pv && !have[snd] {
			have[snd] = true
			vs = append(vs, v)
			w += v.Cred.Weight
		}
	}
	// would the Byzantine senders suffice?
	var extra uint64
	for _, b := range s.byzIDs() {
		if !have[b] {
			extra += s.weight(b, r, p, st)
		}
	}
	if w+extra < th {
		return ub, false
	}
	var eqs []equivocationVote
	for _, b := range s.byzIDs() {
		if w >= th {
			break
		}
		if have[b] {
			continue
		}
		k := [3]uint64{b, uint64(p), uint64(st)}
		prev := t.byzAt[k]
		if len(prev) > 0 && prev[0] != pv && len(vs) > 0 {
			if _, ok := s.byzCast(b, r, p, st, pv); !ok {
				// already two values: pair of the two recorded ones
			}
			v, _ := s.mkVote(b, r, p, st, pv)
			other := prev[0]
			eqs = append(eqs, equivocationVote{Sender: vsmAddr(b), Round: r, Period: p, Step: st, Cred: v.Cred, Proposals: [2]proposalValue{other, pv}})
			if len(prev) >= 2 && prev[1] != pv {
				eqs[len(eqs)-1].Proposals = [2]proposalValue{prev[0], prev[1]}
			}
			w += v.Cred.Weight
			continue
		}
		bv, ok := s.byzCast(b, r, p, st, pv)
		if !ok {
			continue
		}
		vs = append(vs, bv)
		w += bv.Cred.Weight
	}
	if w < th || len(vs) == 0 {
		return ub, false
	}
	sort.SliceStable(vs, func(a, b int) bool { return vs[a].Cred.Weight > vs[b].Cred.Weight })
	ub = unauthenticatedBundle{Round: r, Period: p, Step: st, Proposal: pv}
	var acc uint64
	for _, v := range vs {
		if acc >= th {
			break
		}
		ub.Votes = append(ub.Votes, voteAuthenticator{Sender: v.R.Sender, Cred: v.Cred.UnauthenticatedCredential})
		acc += v.Cred.Weight
	}
	for _, ev := range eqs {
		if acc >= th {
			break
		}
		ub.EquivocationVotes = append(ub.EquivocationVotes, equivocationVoteAuthenticator{Sender: ev.Sender, Cred: ev.Cred.UnauthenticatedCredential, Proposals: ev.Proposals})
		acc += ev.Cred.Weight
	}
	return ub, acc >= th
}

func (s *c01Sim) byzBundle() {
	r := s.curRound()
	t := s.trace(r)
	if len(t.pub) == 0 || len(s.byzIDs()) == 0 {
		return
	}
	v := t.pub[s.rnd.Intn(len(t.pub))]
	pv := v.R.Proposal
	if s.rnd.Intn(4) == 0 {
		pv = s.someValue(r, v.R.Period)
		if v.R.Step > cert && s.rnd.Intn(2) == 0 {
			pv = bottom
		}
	}
	ub, ok := s.craft(r, v.R.Period, v.R.Step, pv)
	if !ok {
		return
	}
	s.st.byzBundles++
	m := c01Msg{kind: c01MBundle, ub: ub, from: -1, rnd: r}
	if len(s.bund) < 500 {
		s.bund = append(s.bund, m)
	}
	g := -1
	if s.rnd.Intn(2) == 0 {
		g = s.rnd.Intn(2)
	}
	for _, j := range s.targets(g) {
		if s.rnd.Intn(4) != 0 {
			s.send(-1, j, m)
		}
	}
}

// ---------------------------------------------------------------- scheduler (asynchronous phase)

func (s *c01Sim) live() []int {
	var out []int
	for j, nd := range s.nodes {
		if !nd.done {
			out = append(out, j)
		}
	}
	return out
}

func (s *c01Sim) pick(w map[string]int, cats []string) string {
	total := 0
	for _, c := range cats {
		total += w[c]
	}
	if total == 0 {
		return "timeout"
	}
	x := s.rnd.Intn(total)
	for _, c := range cats {
		if x < w[c] {
			return c
		}
		x -= w[c]
	}
	return cats[0]
}

var c01AdvCats = []string{"drop", "dup", "timeout", "fast", "echo", "byz", "bprop", "bbundle", "replay", "crash"}

func (s *c01Sim) fastAllowed(nd *c01Node) bool {
	pl := nd.m.player()
	return pl.FastRecoveryDeadline == 0 || pl.Step > cert // N5
}

// c01StepCap: deadline timeouts are not delivered to a node that already sits in step next+11 of one period
// (the deadline of that step is 17 s + 2 s * (2^12 - 1), more than two hours into the period; from step 35 on
// nextVoteRanges overflows int64 and at step 58 the range is 0: RandomEntropy % 0 panics)
const c01StepCap = next + 11

func (s *c01Sim) timeout(i int) {
	nd := s.nodes[i]
	if nd.m.player().Step >= c01StepCap {
		return
	}
	s.st.timeouts++
	s.submit(i, s.c.timeoutEvent(false, s.rnd.U64(), false, nd.m.player().Round))
}

func (s *c01Sim) deliverLocal(i int) bool {
	nd := s.nodes[i]
	if len(nd.local) == 0 {
		return false
	}
	k := 0
	if s.rnd.Intn(6) == 0 {
		k = s.rnd.Intn(len(nd.local))
	}
	if s.hold[i] {
		k = -1
		for j, e := range nd.local {
			if !strings.HasPrefix(e.kind, "payloadV:") {
				k = j
				break
			}
		}
		if k < 0 {
			return false
		}
	}
	e := nd.local[k]
	nd.local = append(nd.local[:k:k], nd.local[k+1:]...)
	s.submit(i, e)
	return true
}

func (s *c01Sim) deliverNet(i int) bool {
	nd := s.nodes[i]
	if len(nd.inbox) == 0 {
		return false
	}
	// oldest deliverable message, sometimes a random one
	start := 0
	if s.rnd.Intn(3) == 0 {
		start = s.rnd.Intn(len(nd.inbox))
	}
	for k := 0; k < len(nd.inbox); k++ {
		idx := (start + k) % len(nd.inbox)
		m := nd.inbox[idx]
		if s.blocked(m, i) {
			continue
		}
		nd.inbox = append(nd.inbox[:idx:idx], nd.inbox[idx+1:]...)
		s.deliver(i, m)
		return true
	}
	return false
}

func (s *c01Sim) stepOnce() {
	lv := s.live()
	if len(lv) == 0 {
		return
	}
	i := lv[s.rnd.Intn(len(lv))]
	nd := s.nodes[i]
	if s.rnd.Intn(100) >= s.cfg.w["adv"] {
		// the network makes progress: pending work first, a timeout when a node has nothing to do
		off := s.rnd.Intn(len(lv))
		netFirst := s.rnd.Intn(2) == 0
		for k := 0; k < len(lv); k++ {
			j := lv[(off+k)%len(lv)]
			if netFirst {
				if s.deliverNet(j) || s.deliverLocal(j) {
					return
				}
			} else if s.deliverLocal(j) || s.deliverNet(j) {
				return
			}
		}
		s.timeout(i)
		return
	}
	switch s.pick(s.cfg.w, c01AdvCats) {
	case "drop":
		if len(nd.inbox) > 0 {
			idx := s.rnd.Intn(len(nd.inbox))
			s.lost(i, nd.inbox[idx])
			nd.inbox = append(nd.inbox[:idx:idx], nd.inbox[idx+1:]...)
			s.st.dropped++
		}
	case "dup":
		if len(s.hist) > 0 {
			m := s.hist[s.rnd.Intn(len(s.hist))]
			if s.inScope(m.rnd) {
				s.sendRaw(i, m)
				s.st.dups++
			}
		}
	case "timeout":
		s.timeout(i)
	case "fast":
		if s.fastAllowed(nd) {
			s.st.fasts++
			s.submit(i, s.c.timeoutEvent(true, s.rnd.U64(), false, nd.m.player().Round))
		}
	case "echo":
		s.byzEcho()
	case "byz":
		s.byzRandom()
	case "bprop":
		s.byzPropose()
	case "bbundle":
		s.byzBundle()
	case "replay":
		if len(s.bund) > 0 {
			m := s.bund[s.rnd.Intn(len(s.bund))]
			if s.inScope(m.rnd) {
				s.st.replays++
				s.submit(i, s.presentEvent(m))
			}
		}
	case "crash":
		if nd.crashes < s.cfg.crashes {
			s.crash(i)
		}
	}
}

// quiesce: deliver everything that is deliverable (no timeouts, no adversary moves)
func (s *c01Sim) quiesce() {
	for guard := 0; guard < 20000 && s.failed == ""; guard++ {
		progressed := false
		for j := range s.nodes {
			if s.deliverLocal(j) || s.deliverNet(j) {
				progressed = true
			}
		}
		if !progressed {
			return
		}
	}
}

// c01LatePayloadRun: the family "late payload after the node's own next vote" x "partition that isolates the
// late cert-voter(s)" x "heal after the others advanced a period".  N = 4, 5 equal weights, no Byzantine sender,
// every threshold is reached by N-1 nodes.  Period 0: all proposal-votes arrive, the payloads do not; everybody
// soft-votes the leader's value v and sees the soft quorum; the deadline passes, the nodes without the payload
// next-vote bottom (0..2 further steps for some); only then the payload arrives.  The network shows the cert
// votes of period 0 to ONE node (the victim) only and the next votes to everybody but the victim; the others
// enter period 1 on the next quorum for bottom and finish with a fresh proposal; then the partition heals.
// A correct player never cert-votes after its next vote, so the victim sees at most the leader's cert vote.
func c01LatePayloadRun(ver protocol.ConsensusVersion, rnd *vRand, st *c01Stats, k int) *c01Sim {
	n := 4 + rnd.Intn(2)
	stake := uint64(260)
	if n == 5 {
		stake = 200
	}
	cfg := c01Cfg{n: n, nb: 0, rounds: 1, r0: round(2 + rnd.Intn(30)), mode: "latepay", w: map[string]int{"adv": 0}}
	for i := 0; i < n; i++ {
		cfg.stake = append(cfg.stake, stake)
		cfg.groups = append(cfg.groups, 0)
	}
	victim := rnd.Intn(n)
	cfg.groups[victim] = 1
	cfg.withhold = []c01Rule{
		{class: "payload", group: 0, until: -1}, {class: "payload", group: 1, until: -1},
		{class: "cert", group: 0, until: -1, per1: 1}, // the cert votes of period 0 reach the victim only
		{class: "next", group: 0, until: -1, per1: 1}, {class: "next", group: 1, until: -1, per1: 1},
		{class: "bundle", group: 1, until: -1},
	}
	s := c01NewSim(ver, rnd, cfg, st)
	s.runIdx = k
	s.quiesce()
	for i := range s.nodes {
		s.timeout(i) // filter: soft votes
	}
	s.quiesce()
	for i := range s.nodes {
		s.timeout(i) // deadline: next votes (bottom without the payload)
	}
	s.quiesce()
	for i := range s.nodes {
		for x := rnd.Intn(8) - 5; x > 0; x-- {
			s.timeout(i) // some nodes are further down the ladder when the payload comes
		}
	}
	s.quiesce()
	// the payloads arrive
	s.cfg.withhold = s.cfg.withhold[2:]
	s.quiesce()
	// the next votes reach everybody but the victim: the others leave period 0
	s.cfg.withhold = []c01Rule{s.cfg.withhold[0], {class: "next", group: 1, until: -1, per1: 1}, {class: "bundle", group: 1, until: -1}}
	s.quiesce()
	for rep := 0; rep < 6 && !s.allDone(); rep++ {
		for i, nd := range s.nodes {
			if i != victim && !nd.done {
				s.timeout(i)
			}
		}
		s.quiesce()
	}
	// heal
	s.cfg.withhold = nil
	s.quiesce()
	for rep := 0; rep < 4 && !s.allDone(); rep++ {
		for i, nd := range s.nodes {
			if !nd.done {
				s.timeout(i)
			}
		}
		s.quiesce()
	}
	return s
}

// c01RestartCertRun: the family "crash-restart right after a bottom next vote" x "soft quorum delivered late" x
// "partition that isolates the cert-voter(s)" x "heal after the others advanced a period".  N = 4, 5 equal
// weights, no Byzantine sender, every threshold is reached by N-1 nodes.  Period 0: proposals and payloads arrive,
// everybody soft-votes v, but the soft votes are held back; the deadline passes and everybody next-votes bottom;
// then some (or all) nodes crash and restart from their crash database; only now the soft votes arrive.  The
// network shows the cert votes of period 0 to ONE node (the victim) only and the next votes to everybody but the
// victim; the others enter period 1 on the next quorum for bottom and finish with a fresh proposal; then the
// partition heals.  A correct node has persisted its next vote (Step = next after the restart) and does not
// cert-vote any more.
func c01RestartCertRun(ver protocol.ConsensusVersion, rnd *vRand, st *c01Stats, k int) *c01Sim {
	n := 4 + rnd.Intn(2)
	stake := uint64(260)
	if n == 5 {
		stake = 200
	}
	cfg := c01Cfg{n: n, nb: 0, rounds: 1, r0: round(2 + rnd.Intn(30)), mode: "restartcert", w: map[string]int{"adv": 0}, crashes: 1}
	for i := 0; i < n; i++ {
		cfg.stake = append(cfg.stake, stake)
		cfg.groups = append(cfg.groups, 0)
	}
	victim := rnd.Intn(n)
	cfg.groups[victim] = 1
	cfg.withhold = []c01Rule{
		{class: "soft", group: 0, until: -1, per1: 1}, {class: "soft", group: 1, until: -1, per1: 1},
		{class: "cert", group: 0, until: -1, per1: 1}, // the cert votes of period 0 reach the victim only
		{class: "next", group: 0, until: -1, per1: 1}, {class: "next", group: 1, until: -1, per1: 1},
		{class: "bundle", group: 1, until: -1},
	}
	s := c01NewSim(ver, rnd, cfg, st)
	s.runIdx = k
	s.quiesce()
	for i := range s.nodes {
		s.timeout(i) // filter: soft votes (held back by the network)
	}
	s.quiesce()
	for i := range s.nodes {
		s.timeout(i) // deadline: no soft quorum seen, next votes for bottom
	}
	s.quiesce()
	// restart: everybody, or everybody but one
	skip := -1
	if rnd.Intn(3) == 0 {
		skip = rnd.Intn(n)
	}
	for i := range s.nodes {
		if i != skip {
			s.crash(i)
		}
	}
	s.quiesce()
	// the soft votes arrive
	s.cfg.withhold = s.cfg.withhold[2:]
	s.quiesce()
	// the next votes reach everybody but the victim: the others leave period 0
	s.cfg.withhold = []c01Rule{s.cfg.withhold[0], {class: "next", group: 1, until: -1, per1: 1}, {class: "bundle", group: 1, until: -1}}
	s.quiesce()
	for rep := 0; rep < 6 && !s.allDone(); rep++ {
		for i, nd := range s.nodes {
			if i != victim && !nd.done {
				s.timeout(i)
			}
		}
		s.quiesce()
	}
	// heal
	s.cfg.withhold = nil
	s.quiesce()
	for rep := 0; rep < 4 && !s.allDone(); rep++ {
		for i, nd := range s.nodes {
			if !nd.done {
				s.timeout(i)
			}
		}
		s.quiesce()
	}
	return s
}

// ---------------------------------------------------------------- synchronous phase (C05): virtual time

func (s *c01Sim) popTimed() (c01Timed, bool) {
	if len(s.q) == 0 {
		return c01Timed{}, false
	}
	best := 0
	for k := range s.q {
		if s.q[k].at < s.q[best].at || (s.q[k].at == s.q[best].at && s.q[k].seq < s.q[best].seq) {
			best = k
		}
	}
	e := s.q[best]
	s.q = append(s.q[:best:best], s.q[best+1:]...)
	return e, true
}

// runSync: every message is delivered within 400 ms, timers fire at their deadlines
func (s *c01Sim) runSync(limit time.Duration, maxEvents int) {
	for n := 0; n < maxEvents && s.failed == ""; n++ {
		lv := s.live()
		if len(lv) == 0 {
			return
		}
		// earliest timer
		ti, tat, tfast := -1, time.Duration(0), false
		for _, j := range lv {
			nd := s.nodes[j]
			pl := nd.m.player()
			at := nd.zero + pl.Deadline.Duration
			if ti < 0 || at < tat {
				ti, tat, tfast = j, at, false
			}
			fat := nd.zero + pl.FastRecoveryDeadline
			if fat < tat {
				ti, tat, tfast = j, fat, true
			}
		}
		useQ := false
		if len(s.q) > 0 {
			bestAt := s.q[0].at
			for _, e := range s.q {
				if e.at < bestAt {
					bestAt = e.at
				}
			}
			if bestAt <= tat {
				useQ = true
			}
		}
		if useQ {
			e, _ := s.popTimed()
			if e.at > s.now {
				s.now = e.at
			}
			if s.nodes[e.node].done {
				continue
			}
			if e.catchup != 0 {
				nd := s.nodes[e.node]
				if pl := nd.m.player(); pl.Round == e.catchup {
					nd.caughtUp[e.catchup] = pl.Period
					s.submit(e.node, s.c.roundInterruptionEvent(e.catchup+1))
				}
			} else if e.net {
				s.deliver(e.node, e.msg)
			} else {
				s.submit(e.node, e.ev)
			}
			continue
		}
		if tat > s.now {
			s.now = tat
		}
		if s.now > limit {
			return
		}
		nd := s.nodes[ti]
		if tfast {
			s.st.fasts++
		} else {
			s.st.timeouts++
		}
		ent := s.rnd.U64()
		pl := nd.m.player()
		r0, p0, s0, n0, pan0 := pl.Round, pl.Period, pl.Step, pl.Napping, nd.panics
		s.submit(ti, s.c.timeoutEvent(tfast, ent, false, r0))
		pl = nd.m.player()
		if !tfast && nd.panics == pan0 && !nd.done && pl.Round == r0 && pl.Period == p0 && len(s.dlObs) < 80 {
			s.dlObs = append(s.dlObs, vL(uint64(p0), uint64(s0), n0, ent, uint64(pl.Step), pl.Napping, int64(pl.Deadline.Duration)))
		}
	}
}

// synchronise: the synchrony point.  Partitions and withholding end, Byzantine senders fall silent, every
// message still in flight is either lost or delivered now, and each node's clock is somewhere inside its
// current timeout interval.
func (s *c01Sim) synchronise() {
	s.now = time.Hour // virtual origin, large enough for zero = now - elapsed
	for j, nd := range s.nodes {
		if nd.done {
			nd.syncDone = true
			continue
		}
		pl := nd.m.player()
		nd.syncP, nd.syncR = pl.Period, pl.Round
		nd.maxStep = 0
		d := pl.Deadline.Duration
		el := time.Duration(0)
		if d > 0 {
			el = time.Duration(s.rnd.U64() % uint64(d))
		}
		nd.zero = s.now - el
		if pl.FastRecoveryDeadline != 0 && nd.zero+pl.FastRecoveryDeadline < s.now {
			nd.zero = s.now - pl.FastRecoveryDeadline + time.Millisecond
		}
		inbox, local := nd.inbox, nd.local
		nd.inbox, nd.local = nil, nil
		s.sync = true
		for _, e := range local {
			s.pushLocal(j, e)
		}
		for _, m := range inbox {
			s.lost(j, m)
			if !s.noLoss && s.rnd.Intn(3) == 0 {
				continue // lost during the asynchronous prefix
			}
			s.send(m.from, j, m)
		}
		s.sync = false
	}
	s.sync = true
}

// ---------------------------------------------------------------- a run

func c01NewSim(ver protocol.ConsensusVersion, rnd *vRand, cfg c01Cfg, st *c01Stats) *c01Sim {
	s := &c01Sim{c: vsmNewCtx(ver, rnd), rnd: rnd, cfg: cfg, tr: map[round]*c01Trace{}, st: st, lastR: cfg.r0 + round(cfg.rounds) - 1}
	for id := uint64(1); id <= uint64(cfg.n+cfg.nb); id++ {
		s.ids = append(s.ids, id)
	}
	for i := 0; i < cfg.n; i++ {
		nd := &c01Node{id: uint64(i + 1), m: vsmNewMachine(ver, cfg.r0), mark: map[round]int{}, ensP: map[round]period{}, caughtUp: map[round]period{}, seen: map[string]int64{}}
		s.nodes = append(s.nodes, nd)
	}
	s.trace(cfg.r0)
	// service.mainLoop on a fresh start: assemble for the next round
	for i := range s.nodes {
		s.after(i, cfg.r0, 0, []action{pseudonodeAction{T: assemble, Round: cfg.r0, Period: 0}}, false)
	}
	return s
}

func (s *c01Sim) allDone() bool {
	for _, nd := range s.nodes {
		if !nd.done {
			return false
		}
	}
	return true
}

func (s *c01Sim) traceLen() int {
	n := 0
	for _, t := range s.tr {
		n += len(t.evs)
	}
	return n
}

func (s *c01Sim) runAsync(steps int, maxTrace int) {
	for ; s.step < steps && !s.allDone() && s.failed == "" && s.traceLen() < maxTrace; s.step++ {
		s.stepOnce()
	}
}

// caseLines: one (c01 ...) line per simulated round that has events
func (s *c01Sim) caseLines() []string {
	var out []string
	var rs []round
	for r := range s.tr {
		rs = append(rs, r)
	}
	sort.Slice(rs, func(a, b int) bool { return rs[a] < rs[b] })
	p := s.c.proto
	for _, r := range rs {
		t := s.tr[r]
		if !s.inScope(r) || len(t.evs) == 0 {
			continue
		}
		var sb strings.Builder
		sb.WriteString("(c01 ")
		sb.WriteString(vT(p.SoftCommitteeThreshold, p.CertCommitteeThreshold, p.NextCommitteeThreshold, p.LateCommitteeThreshold,
			p.RedoCommitteeThreshold, p.DownCommitteeThreshold))
		hs, bs := vL(), vL()
		for _, id := range s.ids {
			if s.isByz(id) {
				bs = append(bs, id)
			} else {
				hs = append(hs, id)
			}
		}
		sb.WriteString(" " + vT(hs...) + " " + vT(bs...) + " (")
		var keys [][2]uint64
		for k := range t.ps {
			keys = append(keys, k)
		}
		sort.Slice(keys, func(a, b int) bool {
			if keys[a][0] != keys[b][0] {
				return keys[a][0] < keys[b][0]
			}
			return keys[a][1] < keys[b][1]
		})
		for i, k := range keys {
			if i > 0 {
				sb.WriteByte(' ')
			}
			ws := vL()
			for _, id := range s.ids {
				ws = append(ws, s.weight(id, r, period(k[0]), step(k[1])))
			}
			sb.WriteString(vT(k[0], k[1], ws))
		}
		sb.WriteString(") (")
		first := true
		nev := 0
		for _, e := range t.evs {
			if e.dead {
				continue
			}
			if !first {
				sb.WriteByte(' ')
			}
			first = false
			sb.WriteString(e.term)
			nev++
		}
		if nev > s.st.traceMax {
			s.st.traceMax = nev
		}
		sb.WriteString(") " + vT(t.ensures...) + " ")
		crashes, panics := 0, 0
		for _, nd := range s.nodes {
			crashes += nd.crashes
			panics += nd.panics
		}
		sb.WriteString(vT(uint64(r), vSym(s.cfg.mode), s.cfg.over, crashes, panics, t.synth, s.runIdx))
		sb.WriteString(")")
		out = append(out, sb.String())
		if int(t.maxP) > s.st.maxPeriod {
			s.st.maxPeriod = int(t.maxP)
		}
		if len(t.ensVal) > 1 {
			if s.cfg.over {
				s.st.forksOver++
			} else {
				s.st.forksUnder++
			}
		}
		if len(t.ensures) > 0 {
			s.st.committedRuns++
		}
	}
	return out
}

// ---------------------------------------------------------------- configurations

var c01Modes = map[string]map[string]int{
	// "adv": per cent of scheduler steps taken by the adversary; the rest deliver pending work (a timeout when idle)
	// benign-ish network: reordering, duplication, a little loss
	"random": {"adv": 10, "drop": 10, "dup": 10, "timeout": 20, "fast": 3, "echo": 0, "byz": 30, "bprop": 8, "bbundle": 8, "replay": 5, "crash": 0},
	// two-faced Byzantine senders amplify every group's own votes while the honest set is split
	"split": {"adv": 22, "drop": 3, "dup": 5, "timeout": 10, "fast": 2, "echo": 55, "byz": 6, "bprop": 6, "bbundle": 10, "replay": 3, "crash": 0},
	// one half never sees the soft / cert votes of a period, the rest does
	"withhold": {"adv": 18, "drop": 3, "dup": 5, "timeout": 14, "fast": 2, "echo": 36, "byz": 10, "bprop": 5, "bbundle": 18, "replay": 7, "crash": 0},
	// stale bundles replayed at random, many periods
	"replay": {"adv": 24, "drop": 8, "dup": 14, "timeout": 24, "fast": 4, "echo": 10, "byz": 10, "bprop": 3, "bbundle": 20, "replay": 20, "crash": 0},
	// Byzantine weight just under the bound, equivocating everywhere
	"equiv": {"adv": 25, "drop": 2, "dup": 5, "timeout": 8, "fast": 2, "echo": 30, "byz": 34, "bprop": 5, "bbundle": 14, "replay": 4, "crash": 0},
	// crash-restore through the real encode/decode
	"crash": {"adv": 14, "drop": 8, "dup": 8, "timeout": 16, "fast": 3, "echo": 14, "byz": 10, "bprop": 4, "bbundle": 8, "replay": 4, "crash": 25},
	// the cert (or soft) votes of a period reach ONE node only: it commits (or cert-votes) alone while the rest moves on
	"lone": {"adv": 16, "drop": 2, "dup": 4, "timeout": 12, "fast": 2, "echo": 40, "byz": 8, "bprop": 4, "bbundle": 10, "replay": 4, "crash": 0},
	// long stalls: many timeouts, fast recovery
	"stall": {"adv": 30, "drop": 14, "dup": 5, "timeout": 45, "fast": 14, "echo": 5, "byz": 6, "bprop": 2, "bbundle": 6, "replay": 4, "crash": 0},
}

var c01ModeNames = []string{"random", "split", "withhold", "replay", "equiv", "crash", "stall", "lone"}

// stakes: honest nodes share 1000 - byz per-mille
func c01Stakes(rnd *vRand, n, nb int, byzTotal uint64) []uint64 {
	st := make([]uint64, n+nb)
	hon := 1000 - byzTotal
	if rnd.Intn(3) == 0 && n >= 3 {
		// skewed: one heavy node
		heavy := hon * 2 / uint64(n+1)
		rest := (hon - heavy) / uint64(n-1)
		for i := 0; i < n; i++ {
			st[i] = rest
		}
		st[rnd.Intn(n)] = heavy
	} else {
		for i := 0; i < n; i++ {
			st[i] = hon / uint64(n)
		}
	}
	for i := 0; i < nb; i++ {
		st[n+i] = byzTotal / uint64(nb)
	}
	return st
}

func c01RandomCfg(rnd *vRand, k int, over bool) c01Cfg {
	cfg := c01Cfg{n: 3 + rnd.Intn(3), rounds: 1, r0: round(2 + rnd.Intn(30))}
	cfg.mode = c01ModeNames[k%len(c01ModeNames)]
	cfg.nb = 1 + rnd.Intn(2)
	byz := []uint64{100, 200, 230, 150}[rnd.Intn(4)]
	switch cfg.mode {
	case "equiv":
		byz = []uint64{270, 260, 230}[rnd.Intn(3)] // late-step intersection bound is 28 %
	case "random":
		if rnd.Intn(4) == 0 {
			cfg.nb, byz = 0, 0
		}
	}
	if over {
		byz = []uint64{550, 600, 640}[rnd.Intn(3)]
		cfg.n = 4
		cfg.nb = 2
	}
	cfg.over = over
	cfg.stake = c01Stakes(rnd, cfg.n, cfg.nb, byz)
	if over {
		// equal honest stakes so that both halves are symmetric
		for i := 0; i < cfg.n; i++ {
			cfg.stake[i] = (1000 - byz) / uint64(cfg.n)
		}
	}
	cfg.w = map[string]int{}
	for k2, v := range c01Modes[cfg.mode] {
		cfg.w[k2] = v
	}
	if over {
		cfg.w = map[string]int{}
		for k2, v := range c01Modes["split"] {
			cfg.w[k2] = v
		}
		cfg.w["adv"] = 30
		cfg.w["echo"] = 80
		cfg.w["byz"] = 0
		cfg.w["drop"] = 0
		cfg.w["timeout"] = 5
	}
	cfg.groups = make([]int, cfg.n)
	for i := range cfg.groups {
		cfg.groups[i] = i % 2
	}
	if rnd.Intn(2) == 0 {
		// uneven split: one node alone
		for i := range cfg.groups {
			cfg.groups[i] = 0
		}
		cfg.groups[rnd.Intn(cfg.n)] = 1
	}
	cfg.steps = 900 + rnd.Intn(900)
	switch cfg.mode {
	case "split":
		cfg.partUntil = 200 + rnd.Intn(800)
		if rnd.Intn(4) == 0 {
			cfg.partUntil = -1
		}
	case "withhold":
		classes := []string{"soft", "cert", "next", "prop", "bundle"}
		nr := 1 + rnd.Intn(2)
		for i := 0; i < nr; i++ {
			cfg.withhold = append(cfg.withhold, c01Rule{class: classes[rnd.Intn(len(classes))], group: rnd.Intn(2), until: 150 + rnd.Intn(900)})
		}
		if rnd.Intn(3) == 0 {
			cfg.withhold[0].until = -1
		}
	case "lone":
		for i := range cfg.groups {
			cfg.groups[i] = 0
		}
		cfg.groups[rnd.Intn(cfg.n)] = 1
		until := 400 + rnd.Intn(900)
		if rnd.Intn(3) == 0 {
			until = -1
		}
		cl := []string{"cert", "cert", "soft"}[rnd.Intn(3)]
		cfg.withhold = append(cfg.withhold, c01Rule{class: cl, group: 0, until: until})
		if rnd.Intn(2) == 0 {
			cfg.withhold = append(cfg.withhold, c01Rule{class: "bundle", group: 0, until: until})
		}
	case "crash":
		cfg.crashes = 1 + rnd.Intn(3)
	case "stall":
		if rnd.Intn(2) == 0 {
			cfg.partUntil = 300 + rnd.Intn(600)
		}
	}
	if over {
		cfg.partUntil = -1
		cfg.groups = []int{0, 0, 1, 1}
		cfg.steps = 2500
	}
	if rnd.Intn(5) == 0 && !over {
		cfg.rounds = 2
	}
	return cfg
}

func c01Versions() []protocol.ConsensusVersion {
	return []protocol.ConsensusVersion{protocol.ConsensusCurrentVersion, protocol.ConsensusV38}
}

func TestVerifC01(t *testing.T) {
	defer vsmDevNull()()
	n := vEnvInt("VERIF_C01_N", 120)
	maxTrace := vEnvInt("VERIF_C01_TRACE", 420)
	search := os.Getenv("VERIF_SEARCH") != ""
	rnd := vNewRand(0xc01)
	out := vOpen("cases_c01.txt")
	defer out.Close()
	st := c01NewStats()
	vers := c01Versions()
	for k := 0; k < n; k++ {
		over := k%12 == 11
		c01Debug = os.Getenv("VERIF_C01_DEBUG") != "" && vEnvInt("VERIF_C01_DEBUGRUN", k) == k
		var s *c01Sim
		var cfg c01Cfg
		// directed family (light in the default stream, 1 run in 3 during the driver's violation search)
		if (search && k%3 == 1) || (!search && k%20 == 7) {
			s = c01LatePayloadRun(vers[k%len(vers)], rnd, st, k)
			cfg = s.cfg
		} else if (search && k%3 == 2) || (!search && k%20 == 13) {
			s = c01RestartCertRun(vers[k%len(vers)], rnd, st, k)
			cfg = s.cfg
		} else {
			cfg = c01RandomCfg(rnd, k, over)
			s = c01NewSim(vers[k%len(vers)], rnd, cfg, st)
			s.runIdx = k
			s.runAsync(cfg.steps, maxTrace)
		}
		st.runs++
		st.modes[cfg.mode]++
		if s.failed != "" {
			t.Fatalf("c01 run %d (%s): %s", k, cfg.mode, s.failed)
		}
		for _, l := range s.caseLines() {
			out.Line(l)
		}
	}
	vStats(map[string]interface{}{
		"runs": st.runs, "submitTop_calls": st.submits, "honest_votes": st.votes, "period_entries": st.enters, "ensure_actions": st.ensures,
		"crash_restores": st.crashes, "go_panics": st.panics, "panic_classes": st.panicClasses, "synthetic_equivocator_votes": st.synth,
		"byzantine_votes": st.byzVotes, "byzantine_bundles": st.byzBundles, "payload_validations_cancelled_by_newer_proposal": st.cancelled, "dropped": st.dropped, "duplicated": st.dups, "timeouts": st.timeouts,
		"fast_timeouts": st.fasts, "bundle_replays": st.replays, "rounds_with_commit": st.committedRuns, "max_period": st.maxPeriod,
		"max_step": st.maxStep, "period_entry_kinds": st.enterKinds, "honest_vote_kinds": st.voteKinds, "max_trace_events": st.traceMax, "period_entries_erased_by_crash": st.rollbackEnters, "modes": st.modes,
		"forks_with_byzantine_stake_over_bound(expected, shows the scheduler can fork)": st.forksOver,
		"forks_with_byzantine_stake_under_bound(must be 0)":                               st.forksUnder,
	})
}
