//go:build verif

package agreement

// C06 harness: drives the REAL voteTracker (its handle method, with a routerHandle built like
// the package's own ioAutomataConcrete does) on vote sequences and prints, per vote, the
// event (kind / proposal / bundle members in packing order) and the complete tracker state
// (Voters, Counts incl. Votes, Equivocators, EquivocatorsCount), maps sorted by key.
// Votes are constructed directly (vote{R: ..., Cred: {Weight: w}}) as voteMakerHelper does:
// the tracker only ever sees verified votes and never looks at signatures.
// Proposal values are full 4-field values from an 81-element universe in which distinct
// values share fields (same digests / other OriginalPeriod or OriginalProposer, zero fields):
// "same value" must mean equality of ALL four fields (see vC06Val).
//
// Streams:  exhaustive  all sequences of length L over nS senders x nV values, for several
//                       per-sender weight vectors, thresholds and steps (small protos
//                       registered in config.Consensus under "verif-c06-*")
//           random      long sequences (honest majority / heavy equivocation / split votes)
//                       against the real current consensus parameters and small ones
//           malformed   outside the property's domain (inconsistent or zero weights, uint64
//                       wrap-around, threshold 0, propose step): correspondence only

import (
	"encoding/binary"
	"fmt"
	"io"
	"os"
	"sort"
	"strings"
	"testing"

	"github.com/algorand/go-algorand/config"
	"github.com/algorand/go-algorand/data/basics"
	"github.com/algorand/go-algorand/data/committee"
	"github.com/algorand/go-algorand/logging"
	"github.com/algorand/go-algorand/protocol"
	"github.com/sirupsen/logrus"
)

type vC06Vote struct{ s, p, w uint64 }

// big-endian index in the last 8 bytes: bytes.Compare on addresses == numeric order
func vC06Addr(i uint64) (a basics.Address) {
	binary.BigEndian.PutUint64(a[24:], i)
	return
}

func vC06AddrIdx(t *testing.T, a basics.Address) uint64 {
	for _, b := range a[:24] {
		if b != 0 {
			t.Fatalf("c06: foreign address %v", a)
		}
	}
	return binary.BigEndian.Uint64(a[24:])
}

// Proposal values are 4-field values.  The value id is the base-3 number d3 d2 d1 d0 of the
// choices for (EncodingDigest, BlockDigest, OriginalProposer, OriginalPeriod); choice 0 is the
// zero ("bottom"-like) field.  81 distinct values; two different ids frequently share one,
// two or three fields (e.g. the same digests with another OriginalPeriod / OriginalProposer).
// The model identifies a value with its id, i.e. it compares FULL values.
var vC06Periods = [3]period{0, 3, 5}

func vC06Dig(tag byte, c uint64) (d [32]byte) {
	if c != 0 {
		d[0], d[31] = tag, byte(c)
	}
	return
}

func vC06Val(i uint64) (p proposalValue) {
	if i >= 81 {
		panic("c06: value id out of range")
	}
	p.OriginalPeriod = vC06Periods[i%3]
	if c := (i / 3) % 3; c != 0 {
		p.OriginalProposer = vC06Addr(1000 + c)
	}
	p.BlockDigest = vC06Dig(0xbd, (i/9)%3)
	p.EncodingDigest = vC06Dig(0xed, (i/27)%3)
	return
}

var vC06ValIds = func() map[proposalValue]uint64 {
	m := make(map[proposalValue]uint64, 81)
	for i := uint64(0); i < 81; i++ {
		m[vC06Val(i)] = i
	}
	if len(m) != 81 {
		panic("c06: value universe not injective")
	}
	return m
}()

func vC06ValIdx(t *testing.T, p proposalValue) uint64 {
	i, ok := vC06ValIds[p]
	if !ok {
		t.Fatalf("c06: foreign proposal value %v", p)
	}
	return i
}

// palettes of value ids for the small universes: values that differ in exactly one field
// (period / proposer / block digest / encoding digest), in two, three or all four, with and
// without zero fields
var vC06Pal2 = [][]uint64{
	{39, 40}, // same proposer+digests, OriginalPeriod 0 vs 3
	{40, 43}, // same period+digests, proposer X vs Y
	{40, 37}, // proposer X vs zero
	{40, 49}, // BlockDigest D1 vs D2 only
	{40, 67}, // EncodingDigest E1 vs E2 only
	{40, 13}, // EncodingDigest E1 vs zero
	{40, 44}, // period and proposer differ, digests shared
	{0, 1},   // all-zero value vs OriginalPeriod 3 only
	{0, 40},  // bottom vs a full value
	{40, 80}, // nothing shared
}
var vC06Pal3 = [][]uint64{
	{39, 40, 41}, // three periods, rest shared
	{40, 43, 44}, // digests shared
	{0, 9, 27},   // zero / only BlockDigest / only EncodingDigest
	{40, 49, 67},
	{13, 40, 80},
}

func vC06Proto(name string, th [6]uint64) protocol.ConsensusVersion {
	ver := protocol.ConsensusVersion(name)
	p := config.Consensus[protocol.ConsensusCurrentVersion]
	p.SoftCommitteeThreshold, p.CertCommitteeThreshold, p.LateCommitteeThreshold = th[0], th[1], th[2]
	p.RedoCommitteeThreshold, p.DownCommitteeThreshold, p.NextCommitteeThreshold = th[3], th[4], th[5]
	config.Consensus[ver] = p
	return ver
}

func vC06Params(ver protocol.ConsensusVersion) []interface{} {
	p := config.Consensus[ver]
	return vL(p.SoftCommitteeThreshold, p.CertCommitteeThreshold, p.LateCommitteeThreshold,
		p.RedoCommitteeThreshold, p.DownCommitteeThreshold, p.NextCommitteeThreshold)
}

func vC06VoteTerm(t *testing.T, key basics.Address, v vote) []interface{} {
	return vL(vC06AddrIdx(t, key), vC06AddrIdx(t, v.R.Sender), vC06ValIdx(t, v.R.Proposal), v.Cred.Weight)
}

func vC06VotesTerm(t *testing.T, m map[basics.Address]vote) []interface{} {
	keys := make([]uint64, 0, len(m))
	for a := range m {
		keys = append(keys, vC06AddrIdx(t, a))
	}
	sort.Slice(keys, func(i, j int) bool { return keys[i] < keys[j] })
	res := make([]interface{}, 0, len(keys))
	for _, k := range keys {
		res = append(res, vC06VoteTerm(t, vC06Addr(k), m[vC06Addr(k)]))
	}
	return res
}

func vC06Snapshot(t *testing.T, tr *voteTracker, r round, p period, s step) []interface{} {
	pkeys := make([]uint64, 0, len(tr.Counts))
	for pv := range tr.Counts {
		pkeys = append(pkeys, vC06ValIdx(t, pv))
	}
	sort.Slice(pkeys, func(i, j int) bool { return pkeys[i] < pkeys[j] })
	counts := make([]interface{}, 0, len(pkeys))
	for _, k := range pkeys {
		c := tr.Counts[vC06Val(k)]
		counts = append(counts, vL(k, c.Count, vC06VotesTerm(t, c.Votes)))
	}
	ekeys := make([]uint64, 0, len(tr.Equivocators))
	for a := range tr.Equivocators {
		ekeys = append(ekeys, vC06AddrIdx(t, a))
	}
	sort.Slice(ekeys, func(i, j int) bool { return ekeys[i] < ekeys[j] })
	eqs := make([]interface{}, 0, len(ekeys))
	for _, k := range ekeys {
		ev := tr.Equivocators[vC06Addr(k)]
		if ev.Round != r || ev.Period != p || ev.Step != s {
			t.Errorf("c06: equivocation record with wrong round/period/step: %+v", ev)
		}
		eqs = append(eqs, vL(k, vC06AddrIdx(t, ev.Sender), ev.Cred.Weight, vC06ValIdx(t, ev.Proposals[0]), vC06ValIdx(t, ev.Proposals[1])))
	}
	return vL(vC06VotesTerm(t, tr.Voters), counts, eqs, tr.EquivocatorsCount)
}

func vC06PanicTag(r interface{}) string {
	var msg string
	switch x := r.(type) {
	case *logrus.Entry:
		msg = x.Message
	case error:
		msg = x.Error()
	default:
		msg = fmt.Sprint(r)
	}
	switch {
	case strings.Contains(msg, "too many equivocators"):
		return "eq"
	case strings.Contains(msg, "more than value reached"):
		return "two"
	case strings.Contains(msg, "index out of range"):
		return "idx"
	case strings.Contains(msg, "no votes present in bundle"):
		return "novotes"
	case strings.Contains(msg, "invalid vote passed"):
		return "badvote"
	case strings.Contains(msg, "not enough votes to generate bundle"):
		return "notenough"
	}
	return "other"
}

type vC06Stats struct {
	seqs, votes, none, thr, malformed int
	panics                           map[string]int
	lens                             map[string]int
	streams                          map[string]int
}

var vC06RH *routerHandle

// one vote through the real tracker; panics recovered into a tag
func vC06Handle(tr *voteTracker, ev voteAcceptedEvent) (res event, tag string) {
	defer func() {
		if r := recover(); r != nil {
			tag = vC06PanicTag(r)
		}
	}()
	res = tr.handle(*vC06RH, player{}, ev)
	return
}

// votes carry value ids (see vC06Val)
func vC06Run(t *testing.T, out *vOut, st *vC06Stats, stream string, ver protocol.ConsensusVersion, s step, votes []vC06Vote) {
	r, p := round(7), period(3)
	tr := new(voteTracker)
	vterms := make([]interface{}, 0, len(votes))
	obs := make([]interface{}, 0, len(votes))
	dead := false
	for _, v := range votes {
		vterms = append(vterms, vL(v.s, v.p, v.w))
		if dead {
			continue
		}
		vt := vote{
			R:    rawVote{Sender: vC06Addr(v.s), Round: r, Period: p, Step: s, Proposal: vC06Val(v.p)},
			Cred: committee.Credential{Weight: v.w},
		}
		e, tag := vC06Handle(tr, voteAcceptedEvent{Vote: vt, Proto: ver})
		st.votes++
		if tag != "" {
			obs = append(obs, vL(vSym("p"), vSym(tag)))
			st.panics[tag]++
			dead = true
			continue
		}
		te, ok := e.(thresholdEvent)
		if !ok {
			t.Fatalf("c06: handle returned %T", e)
		}
		snap := vC06Snapshot(t, tr, r, p, s)
		if te.T == none {
			if te.Bundle.Votes != nil || te.Bundle.EquivocationVotes != nil || te.Proposal != (proposalValue{}) {
				t.Errorf("c06: non-empty none event %+v", te)
			}
			obs = append(obs, vL(vSym("n"), snap))
			st.none++
			continue
		}
		kind := "other"
		switch te.T {
		case softThreshold:
			kind = "soft"
		case certThreshold:
			kind = "cert"
		case nextThreshold:
			kind = "next"
		}
		b := te.Bundle
		if te.Round != r || te.Period != p || te.Step != s || te.Proto != ver || b.Round != r || b.Period != p || b.Step != s {
			t.Errorf("c06: threshold event / bundle for the wrong round, period, step or protocol: %+v", te)
		}
		bv := make([]interface{}, 0, len(b.Votes))
		for _, a := range b.Votes {
			bv = append(bv, vC06AddrIdx(t, a.Sender))
		}
		be := make([]interface{}, 0, len(b.EquivocationVotes))
		for _, a := range b.EquivocationVotes {
			be = append(be, vL(vC06AddrIdx(t, a.Sender), vC06ValIdx(t, a.Proposals[0]), vC06ValIdx(t, a.Proposals[1])))
		}
		obs = append(obs, vL(vSym("t"), vSym(kind), vC06ValIdx(t, te.Proposal), vC06ValIdx(t, b.Proposal), bv, be, snap))
		st.thr++
	}
	out.Case(vSym("c06"), uint64(s), vC06Params(ver), vterms, obs)
	st.seqs++
	st.streams[stream]++
	st.lens[fmt.Sprintf("len<=%d", ((len(votes)+9)/10)*10)]++
}

type vC06Combo struct {
	ws []uint64
	th uint64
}

func vC06Combos(weights [][]uint64, ths []uint64) (res []vC06Combo) {
	for _, ws := range weights {
		for _, th := range ths {
			res = append(res, vC06Combo{ws, th})
		}
	}
	return
}

// every sequence of exactly L votes over nS senders x nV values (shorter ones are its prefixes
// and are observed vote by vote), per (weight vector, threshold) combination
func vC06Exhaustive(t *testing.T, out *vOut, st *vC06Stats, nS, nV, L int, combos []vC06Combo, steps []step) {
	alpha := nS * nV
	idx := make([]int, L)
	for ci, c := range combos {
		ws, th := c.ws, c.th
		s := steps[(ci+nS+L)%len(steps)]
		pal := vC06Pal2[(ci*3+nS+L)%len(vC06Pal2)]
		if nV == 3 {
			pal = vC06Pal3[(ci+nS+L)%len(vC06Pal3)]
		}
		ver := vC06Proto(fmt.Sprintf("verif-c06-t%d", th), [6]uint64{th, th, th, th, th, th})
		for i := range idx {
			idx[i] = 0
		}
		for {
			votes := make([]vC06Vote, L)
			for i, a := range idx {
				votes[i] = vC06Vote{uint64(a / nV), pal[a%nV], ws[a/nV]}
			}
			vC06Run(t, out, st, "exhaustive", ver, s, votes)
			k := L - 1
			for k >= 0 {
				idx[k]++
				if idx[k] < alpha {
					break
				}
				idx[k] = 0
				k--
			}
			if k < 0 {
				break
			}
		}
	}
}

func TestVerifC06(t *testing.T) {
	out := vOpen("cases_c06.txt")
	defer out.Close()
	logging.Base().SetOutput(io.Discard)
	lg := logging.NewLogger()
	lg.SetOutput(io.Discard)
	lg.SetLevel(logging.Error)
	vC06RH = &routerHandle{t: &tracer{log: serviceLogger{lg}}}
	st := &vC06Stats{panics: map[string]int{}, lens: map[string]int{}, streams: map[string]int{}}
	allSteps := []step{soft, cert, next, next + 4, late, redo, down}

	// ---- exhaustive small universes (skipped by the violation search: same cases every time)
	thorough := vTier() == "thorough"
	search := os.Getenv("VERIF_SEARCH") != ""
	L := vEnvInt("VERIF_C06_L", 5)
	if !search {
		w3 := [][]uint64{{1, 1, 1}, {2, 1, 1}, {1, 2, 2}, {3, 1, 2}}
		if thorough {
			w3 = append(w3, []uint64{1, 1, 2}, []uint64{2, 3, 1})
		}
		vC06Exhaustive(t, out, st, 3, 2, L, vC06Combos(w3, []uint64{2, 3}), allSteps)
		vC06Exhaustive(t, out, st, 2, 3, L, vC06Combos([][]uint64{{1, 1}, {1, 2}, {2, 1}}, []uint64{2, 3}), allSteps)
		if thorough {
			vC06Exhaustive(t, out, st, 4, 2, 6, []vC06Combo{{[]uint64{1, 1, 1, 1}, 3}, {[]uint64{2, 1, 1, 2}, 4}}, allSteps)
			vC06Exhaustive(t, out, st, 3, 3, 5, vC06Combos([][]uint64{{1, 1, 1}, {1, 2, 1}}, []uint64{2, 3}), allSteps)
		}
	}

	// ---- random long sequences
	rnd := vNewRand(606)
	n := vEnvInt("VERIF_C06_N", 1500)
	if search {
		n *= 8
	}
	cur := protocol.ConsensusCurrentVersion
	for i := 0; i < n; i++ {
		var ver protocol.ConsensusVersion
		s := allSteps[rnd.Intn(len(allSteps))]
		if rnd.Intn(3) == 0 {
			ver = cur
		} else {
			th := uint64(2 + rnd.Intn(40))
			ver = vC06Proto(fmt.Sprintf("verif-c06-t%d", th), [6]uint64{th, th, th, th, th, th})
		}
		th := s.threshold(config.Consensus[ver])
		nS := 2 + rnd.Intn(14)
		if i%5 == 0 {
			nS = 10 + rnd.Intn(40)
		}
		nV := 1 + rnd.Intn(4)
		// per-sender weights; scale so that roughly 1..2 thresholds of stake exist
		ws := make([]uint64, nS)
		for k := range ws {
			m := 2*th/uint64(nS) + 1
			if rnd.Intn(4) == 0 {
				m = th/2 + 1
			}
			ws[k] = 1 + rnd.U64()%m
		}
		ln := 1 + rnd.Intn(60)
		if i%7 == 0 {
			ln = 60 + rnd.Intn(140)
		}
		style := rnd.Intn(4)
		// nV distinct value ids; mostly neighbours of one base value (1..2 fields changed)
		pal := make([]uint64, 0, nV)
		base := uint64(rnd.Intn(81))
		for len(pal) < nV {
			id := base
			pow := [4]uint64{1, 3, 9, 27}
			for f := 0; f < 1+rnd.Intn(2); f++ {
				w := pow[rnd.Intn(4)]
				id = id - ((id/w)%3)*w + uint64(rnd.Intn(3))*w
			}
			if rnd.Intn(6) == 0 {
				id = uint64(rnd.Intn(81))
			}
			dup := false
			for _, x := range pal {
				dup = dup || x == id
			}
			if !dup {
				pal = append(pal, id)
			}
		}
		votes := make([]vC06Vote, ln)
		for k := range votes {
			sd := uint64(rnd.Intn(nS))
			var pv uint64
			switch style {
			case 0: // honest majority for value 0, few deviations
				if rnd.Intn(8) == 0 {
					pv = uint64(rnd.Intn(nV))
				}
			case 1: // heavy equivocation
				pv = uint64(rnd.Intn(nV))
			case 2: // split by sender parity, occasional switch
				pv = sd % uint64(nV)
				if rnd.Intn(10) == 0 {
					pv = uint64(rnd.Intn(nV))
				}
			default: // each sender sticks to one value, with duplicates
				pv = (sd * 7 / 3) % uint64(nV)
			}
			votes[k] = vC06Vote{sd, pal[pv], ws[sd]}
		}
		vC06Run(t, out, st, "random", ver, s, votes)
	}

	// ---- outside the domain of the property: correspondence of model and code only
	m := vEnvInt("VERIF_C06_M", 600)
	for i := 0; i < m; i++ {
		th := uint64(rnd.Intn(6))
		s := allSteps[rnd.Intn(len(allSteps))]
		if rnd.Intn(6) == 0 {
			s = propose
		}
		if rnd.Intn(5) == 0 {
			th = ^uint64(0) - uint64(rnd.Intn(3))
		}
		ver := vC06Proto(fmt.Sprintf("verif-c06-t%d", th), [6]uint64{th, th, th, th, th, th})
		nS, nV := 1+rnd.Intn(4), 1+rnd.Intn(3)
		ln := 1 + rnd.Intn(9)
		votes := make([]vC06Vote, ln)
		for k := range votes {
			w := uint64(rnd.Intn(4)) // includes 0, inconsistent per sender
			if rnd.Intn(4) == 0 {
				w = rnd.Edge64()
			}
			votes[k] = vC06Vote{uint64(rnd.Intn(nS)), uint64(39 + rnd.Intn(nV)*(1+2*(i%3))), w}
		}
		vC06Run(t, out, st, "malformed", ver, s, votes)
		st.malformed++
	}

	vStats(map[string]interface{}{
		"sequences": st.seqs, "votes_handled": st.votes, "events_none": st.none, "events_threshold": st.thr,
		"panics": st.panics, "length_histogram": st.lens, "streams": st.streams, "exhaustive_length": L,
	})
}
