//go:build verif

package agreement

// C40 / C41 verification harness and schema translator (overlay-only, never part of /repo).
//
//  * vWalker turns reflect.Type + `codec:"..."` tags (+ //msgp:allocbound directives and the
//    run-time values of the allocbound expressions, see util/verifbounds) of the root types
//    below into the schema language of coq/model/Msgpack.v.  TestVerifC40Gen prints
//    coq/gen/Schemas.v from it (deterministic output).
//  * TestVerifC40 produces random instances with the repository's own
//    protocol.RandomizeObject, encodes them with protocol.Encode (msgp) and
//    protocol.EncodeReflect (go-codec), decodes/re-encodes, and emits
//    (schema id, value tree, bytes ...) cases.
//  * TestVerifC41 feeds canonical / mutated / truncated / oversized / deeply nested byte
//    strings to protocol.Decode and emits outcome class + decoded value tree.

import (
	"bytes"
	"context"
	"encoding/json"
	"fmt"
	"go/ast"
	"go/parser"
	"go/token"
	"math/rand"
	"os"
	"os/exec"
	"syscall"
	"path"
	"path/filepath"
	"reflect"
	"sort"
	"strconv"
	"strings"
	"testing"
	"time"

	"github.com/algorand/msgp/msgp"

	"github.com/algorand/go-algorand/crypto"
	"github.com/algorand/go-algorand/crypto/merklearray"
	"github.com/algorand/go-algorand/crypto/merklesignature"
	"github.com/algorand/go-algorand/crypto/stateproof"
	"github.com/algorand/go-algorand/data/basics"
	"github.com/algorand/go-algorand/data/bookkeeping"
	"github.com/algorand/go-algorand/data/committee"
	"github.com/algorand/go-algorand/data/stateproofmsg"
	"github.com/algorand/go-algorand/data/transactions"
	"github.com/algorand/go-algorand/ledger/encoded"
	"github.com/algorand/go-algorand/ledger/ledgercore"
	"github.com/algorand/go-algorand/ledger/store/trackerdb"
	"github.com/algorand/go-algorand/protocol"
	"github.com/algorand/go-algorand/util/verifbounds"
)

// ------------------------------------------------------------------------------------------
// root types (consensus / network / disk facing)
// ------------------------------------------------------------------------------------------

type vCodec interface {
	msgp.Marshaler
	msgp.Unmarshaler
}

func vRoots() []vCodec {
	return []vCodec{
		// transactions
		&transactions.SignedTxn{}, &transactions.Transaction{}, &transactions.SignedTxnInBlock{},
		&transactions.SignedTxnWithAD{}, &transactions.ApplyData{}, &transactions.EvalDelta{},
		&transactions.LogicSig{}, &transactions.Payset{},
		// blocks
		&bookkeeping.BlockHeader{}, &bookkeeping.Block{}, &bookkeeping.LightBlockHeader{},
		// agreement wire types
		&vote{}, &unauthenticatedVote{}, &rawVote{}, &equivocationVote{}, &unauthenticatedEquivocationVote{},
		&bundle{}, &unauthenticatedBundle{}, &proposal{}, &unauthenticatedProposal{}, &transmittedPayload{},
		&proposalValue{}, &Certificate{},
		// accounts / ledger / catchpoint records
		&basics.AccountData{}, &basics.BalanceRecord{}, &basics.AssetParams{}, &basics.AppParams{},
		&basics.AppLocalState{}, &basics.TealKeyValue{}, &basics.StateDelta{},
		&ledgercore.AccountTotals{}, &ledgercore.OnlineRoundParamsData{}, &ledgercore.StateProofVerificationContext{},
		&trackerdb.BaseAccountData{}, &trackerdb.BaseOnlineAccountData{}, &trackerdb.ResourcesData{},
		&trackerdb.TxTailRound{}, &trackerdb.CatchpointFirstStageInfo{},
		&encoded.KVRecordV6{}, // the other ledger/encoded records carry msgp.Raw payloads (their payload types are roots above)
		// crypto
		&crypto.OneTimeSignature{}, &crypto.MultisigSig{}, &crypto.Signature{}, &crypto.VrfProof{}, &crypto.Digest{},
		&crypto.HeartbeatProof{}, &crypto.OneTimeSignatureVerifier{},
		&committee.Credential{}, &committee.UnauthenticatedCredential{},
		// state proofs
		&stateproof.StateProof{}, &merklearray.Proof{}, &merklearray.SingleLeafProof{}, &merklesignature.Signature{},
		&merklesignature.Verifier{}, &stateproofmsg.Message{},
	}
}

// ------------------------------------------------------------------------------------------
// schema
// ------------------------------------------------------------------------------------------

type vKind int

const (
	kUint vKind = iota
	kInt
	kBool
	kBytes
	kString
	kFixBytes
	kArray
	kSlice
	kMap
	kStruct
	kRef
	kPtr
)

type vSch struct {
	K     vKind
	Max   uint64 // kUint: largest admissible value
	Bits  int    // kInt
	N     int    // kArray / kFixBytes
	Bound int64  // kBytes kString kSlice kMap: declared allocbound, -1 = none
	Elem  *vSch  // kArray kSlice kPtr
	Key   *vSch
	Val   *vSch
	Fld   []*vField // kStruct, sorted by codec name
	Ref   *vNamed
	T     reflect.Type
}

type vField struct {
	Name  string
	Index []int // reflect index path (through flattened embedded structs)
	Decl  int   // position in declaration order (struct-from-array decoding)
	Req   bool
	OE    bool // omitted when zero
	S     *vSch
}

type vNamed struct {
	ID      int
	Name    string
	T       reflect.Type
	Body    *vSch
	Special string
	busy    bool
}

type vWalker struct {
	named   map[reflect.Type]*vNamed
	order   []*vNamed
	calls   map[reflect.Type]map[reflect.Type]bool
	byName  map[string]reflect.Type
	seenT   map[reflect.Type]bool
	boundOf func(pkg, expr string) (int64, error)
	dirOf   func(pkg, typ string) (string, bool)
	errs    []string
	used    map[string]int64 // pkg|expr -> value (side table)
	// nested decoder calls inside a generated UnmarshalMsgWithState that do NOT pass the caller's
	// depth state on (`.UnmarshalMsg(bts)` or a second argument other than `st`)
	unthreaded []string
}

var vUnmarshalerT = reflect.TypeOf((*msgp.Unmarshaler)(nil)).Elem()
var vMicroAlgosT = reflect.TypeOf(basics.MicroAlgos{})
var vHashTypeT = reflect.TypeOf(crypto.HashType(0))
var vRawT = reflect.TypeOf(msgp.Raw(nil))

func vHasMethods(t reflect.Type) bool {
	return t.Name() != "" && t.PkgPath() != "" && reflect.PointerTo(t).Implements(vUnmarshalerT)
}

func vShort(t reflect.Type) string { return path.Base(t.PkgPath()) + "." + t.Name() }

func (w *vWalker) errf(f string, a ...interface{}) {
	w.errs = append(w.errs, fmt.Sprintf(f, a...))
}

// called named type: own UnmarshalMsgWithState (one unit of AllowableDepth per call)
func (w *vWalker) ref(t reflect.Type) *vNamed {
	if n, ok := w.named[t]; ok {
		return n
	}
	n := &vNamed{ID: len(w.order), Name: vShort(t), T: t}
	w.named[t] = n
	w.order = append(w.order, n)
	if t == vMicroAlgosT {
		// hand-written codec (data/basics/units.go): encoded as the bare uint64 Raw
		n.Special = "microalgos"
		n.Body = &vSch{K: kUint, Max: ^uint64(0), T: reflect.TypeOf(uint64(0))}
		return n
	}
	n.busy = true
	n.Body = w.structural(t, t, "", "")
	n.busy = false
	return n
}

// Which named types does the generated UnmarshalMsgWithState of `owner` CALL (one unit of
// AllowableDepth each), and which did the msgp generator inline?  The generator's inlining pass
// (parse/inline.go: same package, complexity, processing order) is not re-implemented; instead the
// receivers of the `.UnmarshalMsgWithState(bts, st)` calls in the generated function are read from
// <pkg>/msgp_gen.go (go/parser) and typed by reflection.  Every run validates the result: the
// harness measures the least accepted AllowableDepth of every instance against the model's [need].
type vGenFile struct {
	funcs map[string]*ast.FuncDecl // receiver type name -> UnmarshalMsgWithState
}

var vGenFiles = map[string]*vGenFile{}

func vModuleRoot() string {
	dir, _ := os.Getwd()
	for {
		if _, err := os.Stat(filepath.Join(dir, "go.mod")); err == nil {
			return dir
		}
		parent := filepath.Dir(dir)
		if parent == dir {
			return ""
		}
		dir = parent
	}
}

const vModulePath = "github.com/algorand/go-algorand"

func vGenFileOf(pkg string) *vGenFile {
	if g, ok := vGenFiles[pkg]; ok {
		return g
	}
	g := &vGenFile{funcs: map[string]*ast.FuncDecl{}}
	vGenFiles[pkg] = g
	rel, ok := strings.CutPrefix(pkg, vModulePath+"/")
	if !ok {
		return g
	}
	f, err := parser.ParseFile(token.NewFileSet(), filepath.Join(vModuleRoot(), filepath.FromSlash(rel), "msgp_gen.go"), nil, 0)
	if err != nil {
		return g
	}
	for _, d := range f.Decls {
		fd, ok := d.(*ast.FuncDecl)
		if !ok || fd.Name.Name != "UnmarshalMsgWithState" || fd.Recv == nil || len(fd.Recv.List) != 1 {
			continue
		}
		if st, ok := fd.Recv.List[0].Type.(*ast.StarExpr); ok {
			if id, ok := st.X.(*ast.Ident); ok {
				g.funcs[id.Name] = fd
			}
		}
	}
	return g
}

// all named types structurally reachable from t (for resolving type names in declarations)
func (w *vWalker) collectNames(t reflect.Type) {
	if w.seenT[t] {
		return
	}
	w.seenT[t] = true
	if t.Name() != "" && t.PkgPath() != "" {
		w.byName[t.PkgPath()+"."+t.Name()] = t
	}
	switch t.Kind() {
	case reflect.Slice, reflect.Array, reflect.Ptr:
		w.collectNames(t.Elem())
	case reflect.Map:
		w.collectNames(t.Key())
		w.collectNames(t.Elem())
	case reflect.Struct:
		for i := 0; i < t.NumField(); i++ {
			w.collectNames(t.Field(i).Type)
		}
	}
}

var vBasic = map[string]reflect.Type{
	"uint8": reflect.TypeOf(uint8(0)), "byte": reflect.TypeOf(uint8(0)), "uint16": reflect.TypeOf(uint16(0)),
	"uint32": reflect.TypeOf(uint32(0)), "uint64": reflect.TypeOf(uint64(0)), "uint": reflect.TypeOf(uint(0)),
	"int8": reflect.TypeOf(int8(0)), "int16": reflect.TypeOf(int16(0)), "int32": reflect.TypeOf(int32(0)),
	"int64": reflect.TypeOf(int64(0)), "int": reflect.TypeOf(int(0)), "bool": reflect.TypeOf(false),
	"string": reflect.TypeOf(""),
}

// type expression of a `var zbNNNN T` declaration inside package pkg -> reflect.Type
func (w *vWalker) typeOfExpr(e ast.Expr, pkg string, imports map[string]string) reflect.Type {
	switch x := e.(type) {
	case *ast.Ident:
		if t, ok := vBasic[x.Name]; ok {
			return t
		}
		return w.byName[pkg+"."+x.Name]
	case *ast.SelectorExpr:
		if q, ok := x.X.(*ast.Ident); ok {
			for full, t := range w.byName {
				if strings.HasSuffix(full, "/"+q.Name+"."+x.Sel.Name) || full == q.Name+"."+x.Sel.Name {
					return t
				}
			}
		}
	case *ast.StarExpr:
		if t := w.typeOfExpr(x.X, pkg, imports); t != nil {
			return reflect.PointerTo(t)
		}
	case *ast.ArrayType:
		el := w.typeOfExpr(x.Elt, pkg, imports)
		if el == nil {
			return nil
		}
		if x.Len == nil {
			return reflect.SliceOf(el)
		}
		if lit, ok := x.Len.(*ast.BasicLit); ok {
			if n, err := strconv.Atoi(lit.Value); err == nil {
				return reflect.ArrayOf(n, el)
			}
		}
	case *ast.MapType:
		k, v := w.typeOfExpr(x.Key, pkg, imports), w.typeOfExpr(x.Value, pkg, imports)
		if k != nil && v != nil {
			return reflect.MapOf(k, v)
		}
	}
	return nil
}

func vExprString(e ast.Expr) string {
	var sb strings.Builder
	var pr func(e ast.Expr)
	pr = func(e ast.Expr) {
		switch x := e.(type) {
		case *ast.Ident:
			sb.WriteString(x.Name)
		case *ast.ParenExpr:
			sb.WriteByte('(')
			pr(x.X)
			sb.WriteByte(')')
		case *ast.StarExpr:
			sb.WriteByte('*')
			pr(x.X)
		case *ast.SelectorExpr:
			pr(x.X)
			sb.WriteByte('.')
			sb.WriteString(x.Sel.Name)
		case *ast.IndexExpr:
			pr(x.X)
			sb.WriteString("[i]")
		default:
			sb.WriteByte('?')
		}
	}
	pr(e)
	return sb.String()
}

func (w *vWalker) called(owner reflect.Type) map[reflect.Type]bool {
	if c, ok := w.calls[owner]; ok {
		return c
	}
	c := map[reflect.Type]bool{}
	w.calls[owner] = c
	fd := vGenFileOf(owner.PkgPath()).funcs[owner.Name()]
	if fd == nil {
		if owner != vMicroAlgosT {
			w.errf("no generated UnmarshalMsgWithState found for %s", owner)
		}
		return c
	}
	vars := map[string]ast.Expr{}
	ast.Inspect(fd.Body, func(n ast.Node) bool {
		if ds, ok := n.(*ast.DeclStmt); ok {
			if gd, ok := ds.Decl.(*ast.GenDecl); ok {
				for _, sp := range gd.Specs {
					if vs, ok := sp.(*ast.ValueSpec); ok && vs.Type != nil {
						for _, nm := range vs.Names {
							vars[nm.Name] = vs.Type
						}
					}
				}
			}
		}
		return true
	})
	var resolve func(e ast.Expr) reflect.Type
	resolve = func(e ast.Expr) reflect.Type {
		switch x := e.(type) {
		case *ast.ParenExpr:
			return resolve(x.X)
		case *ast.StarExpr:
			t := resolve(x.X)
			if t != nil && t.Kind() == reflect.Ptr {
				return t.Elem()
			}
			return t
		case *ast.Ident:
			if x.Name == "z" {
				return reflect.PointerTo(owner)
			}
			if te, ok := vars[x.Name]; ok {
				return w.typeOfExpr(te, owner.PkgPath(), nil)
			}
		case *ast.SelectorExpr:
			t := resolve(x.X)
			for t != nil && t.Kind() == reflect.Ptr {
				t = t.Elem()
			}
			if t != nil && t.Kind() == reflect.Struct {
				if f, ok := t.FieldByName(x.Sel.Name); ok {
					return f.Type
				}
			}
		case *ast.IndexExpr:
			t := resolve(x.X)
			for t != nil && t.Kind() == reflect.Ptr {
				t = t.Elem()
			}
			if t != nil && (t.Kind() == reflect.Slice || t.Kind() == reflect.Array || t.Kind() == reflect.Map) {
				return t.Elem()
			}
		}
		return nil
	}
	ast.Inspect(fd.Body, func(n ast.Node) bool {
		ce, ok := n.(*ast.CallExpr)
		if !ok {
			return true
		}
		sel, ok := ce.Fun.(*ast.SelectorExpr)
		if ok && sel.Sel.Name == "UnmarshalMsg" {
			w.unthreaded = append(w.unthreaded, fmt.Sprintf("%s: %s.UnmarshalMsg starts a fresh AllowableDepth", vShort(owner), vExprString(sel.X)))
			return true
		}
		if !ok || sel.Sel.Name != "UnmarshalMsgWithState" {
			return true
		}
		if id, isId := ce.Args[len(ce.Args)-1].(*ast.Ident); len(ce.Args) != 2 || !isId || id.Name != "st" {
			w.unthreaded = append(w.unthreaded, fmt.Sprintf("%s: %s.UnmarshalMsgWithState is not given st", vShort(owner), vExprString(sel.X)))
		}
		t := resolve(sel.X)
		for t != nil && t.Kind() == reflect.Ptr {
			t = t.Elem()
		}
		if t == nil {
			w.errf("cannot type the receiver of a call in %s.UnmarshalMsgWithState", owner)
			return true
		}
		c[t] = true
		return true
	})
	return c
}

// occurrence of type t inside the generated method of the named type `owner`
func (w *vWalker) expand(t reflect.Type, owner reflect.Type, tagBound, tagPkg string) *vSch {
	if t == vRawT {
		w.errf("msgp.Raw (untyped msgpack passthrough) is outside the schema language")
		return &vSch{K: kBool, T: t}
	}
	if t == vMicroAlgosT {
		return &vSch{K: kRef, Ref: w.ref(t), T: t}
	}
	if vHasMethods(t) {
		if w.called(owner)[t] {
			return &vSch{K: kRef, Ref: w.ref(t), T: t}
		}
		if t.PkgPath() != owner.PkgPath() {
			w.errf("%s (other package) is not called from %s.UnmarshalMsgWithState", t, owner)
		}
		return w.structural(t, owner, tagBound, tagPkg) // inlined by the generator
	}
	return w.structural(t, owner, tagBound, tagPkg)
}

func (w *vWalker) bound(t reflect.Type, tagBound, tagPkg string) (this int64, rest string, restPkg string) {
	expr, pkg := tagBound, tagPkg
	if expr == "" && t.Name() != "" {
		if d, ok := w.dirOf(t.PkgPath(), t.Name()); ok {
			expr, pkg = d, t.PkgPath()
		}
	}
	if expr == "" {
		return -1, "", ""
	}
	parts := strings.SplitN(expr, ",", 2)
	if len(parts) == 2 {
		rest, restPkg = parts[1], pkg
	}
	if parts[0] == "-" {
		return -1, rest, restPkg
	}
	if v, err := strconv.ParseInt(parts[0], 10, 64); err == nil {
		return v, rest, restPkg
	}
	v, err := w.boundOf(pkg, parts[0])
	if err != nil {
		w.errf("allocbound %q of %s (package %s): %v", parts[0], t, pkg, err)
		return -1, rest, restPkg
	}
	w.used[pkg+"|"+parts[0]] = v
	return v, rest, restPkg
}

func (w *vWalker) structural(t reflect.Type, owner reflect.Type, tagBound, tagPkg string) *vSch {
	s := &vSch{T: t, Bound: -1}
	switch t.Kind() {
	case reflect.Uint8, reflect.Uint16, reflect.Uint32, reflect.Uint64, reflect.Uint:
		s.K = kUint
		switch t.Kind() {
		case reflect.Uint8:
			s.Max = 1<<8 - 1
		case reflect.Uint16:
			s.Max = 1<<16 - 1
		case reflect.Uint32:
			s.Max = 1<<32 - 1
		default:
			s.Max = ^uint64(0)
		}
		if t == vHashTypeT {
			// crypto.HashFactory has //msgp:postunmarshalcheck Validate: HashType < MaxHashType
			s.Max = uint64(crypto.MaxHashType) - 1
		}
	case reflect.Int8, reflect.Int16, reflect.Int32, reflect.Int64, reflect.Int:
		s.K = kInt
		s.Bits = map[reflect.Kind]int{reflect.Int8: 8, reflect.Int16: 16, reflect.Int32: 32, reflect.Int64: 64, reflect.Int: 64}[t.Kind()]
	case reflect.Bool:
		s.K = kBool
	case reflect.String:
		s.K = kString
		s.Bound, _, _ = w.bound(t, tagBound, tagPkg)
	case reflect.Slice:
		b, rest, restPkg := w.bound(t, tagBound, tagPkg)
		s.Bound = b
		if t.Elem().Kind() == reflect.Uint8 && !vHasMethods(t.Elem()) {
			s.K = kBytes
		} else {
			s.K = kSlice
			s.Elem = w.expand(t.Elem(), owner, rest, restPkg)
		}
	case reflect.Array:
		s.N = t.Len()
		if t.Elem().Kind() == reflect.Uint8 && !vHasMethods(t.Elem()) {
			s.K = kFixBytes
		} else {
			s.K = kArray
			s.Elem = w.expand(t.Elem(), owner, "", "")
		}
	case reflect.Map:
		s.K = kMap
		s.Bound, _, _ = w.bound(t, tagBound, tagPkg)
		s.Key = w.expand(t.Key(), owner, "", "")
		s.Val = w.expand(t.Elem(), owner, "", "")
	case reflect.Ptr:
		s.K = kPtr
		s.Elem = w.expand(t.Elem(), owner, "", "")
	case reflect.Struct:
		s.K = kStruct
		var decl []*vField
		// after msgp's flattening of embedded structs the `_struct` annotations of the embedded
		// structs are fields of the outer struct as well: the options are the union
		sopts, has := vStructOpts(t)
		if !has {
			w.errf("struct %s has no _struct codec annotation", t)
		}
		w.fields(t, owner, nil, sopts, &decl)
		for i, f := range decl {
			f.Decl = i
		}
		s.Fld = append([]*vField(nil), decl...)
		sort.SliceStable(s.Fld, func(i, j int) bool { return s.Fld[i].Name < s.Fld[j].Name })
		for i := 1; i < len(s.Fld); i++ {
			if s.Fld[i].Name == s.Fld[i-1].Name {
				w.errf("duplicate codec name %q in %s", s.Fld[i].Name, t)
			}
		}
	default:
		w.errf("unsupported kind %s (%s)", t.Kind(), t)
		s.K = kBool
	}
	return s
}

func vTagParts(tag reflect.StructTag) (name string, opts []string, has bool) {
	v, ok := tag.Lookup("codec")
	if !ok {
		return "", nil, false
	}
	parts := strings.Split(v, ",")
	return parts[0], parts[1:], true
}

func vHasOpt(opts []string, o string) bool {
	for _, x := range opts {
		if x == o {
			return true
		}
	}
	return false
}

func vStructOpts(t reflect.Type) (opts []string, has bool) {
	for i := 0; i < t.NumField(); i++ {
		f := t.Field(i)
		if f.Name == "_struct" {
			_, o, _ := vTagParts(f.Tag)
			opts = append(opts, o...)
			has = true
		} else if name, _, _ := vTagParts(f.Tag); f.Anonymous && name == "" && f.Type.Kind() == reflect.Struct {
			o, h := vStructOpts(f.Type)
			opts = append(opts, o...)
			has = has || h
		}
	}
	return
}

func (w *vWalker) fields(t reflect.Type, owner reflect.Type, prefix []int, sopts []string, out *[]*vField) {
	for i := 0; i < t.NumField(); i++ {
		f := t.Field(i)
		if f.Name == "_struct" {
			continue
		}
		name, opts, _ := vTagParts(f.Tag)
		if name == "-" {
			continue
		}
		idx := append(append([]int(nil), prefix...), i)
		if f.Anonymous && name == "" {
			if f.Type.Kind() == reflect.Struct && !(f.Type == vMicroAlgosT) {
				w.fields(f.Type, owner, idx, sopts, out)
				continue
			}
			w.errf("unsupported embedded field %s in %s", f.Name, t)
			continue
		}
		if !f.IsExported() {
			continue
		}
		if name == "" {
			name = f.Name
		}
		ab := ""
		for _, o := range opts {
			// several allocbound options: outermost collection first, then its elements
			if strings.HasPrefix(o, "allocbound=") {
				if ab != "" {
					ab += ","
				}
				ab += strings.TrimPrefix(o, "allocbound=")
			}
		}
		fs := w.expand(f.Type, owner, ab, t.PkgPath())
		oeTag := "omitempty"
		if fs.K == kArray || fs.K == kFixBytes {
			oeTag = "omitemptyarray"
		}
		*out = append(*out, &vField{Name: name, Index: idx, Req: vHasOpt(opts, "required"),
			OE: vHasOpt(opts, oeTag) || vHasOpt(sopts, oeTag), S: fs})
	}
}

func vNewWalker(boundOf func(pkg, expr string) (int64, error), dirOf func(pkg, typ string) (string, bool)) *vWalker {
	w := &vWalker{named: map[reflect.Type]*vNamed{}, calls: map[reflect.Type]map[reflect.Type]bool{},
		byName: map[string]reflect.Type{}, seenT: map[reflect.Type]bool{},
		boundOf: boundOf, dirOf: dirOf, used: map[string]int64{}}
	for _, r := range vRoots() {
		w.collectNames(reflect.TypeOf(r).Elem())
	}
	return w
}

// ------------------------------------------------------------------------------------------
// translator: Coq output
// ------------------------------------------------------------------------------------------

func vCoqOpt(b int64) string {
	if b < 0 {
		return "None"
	}
	return fmt.Sprintf("(Some %d)", b)
}

func vCoqBytes(s string) string {
	var sb strings.Builder
	sb.WriteByte('[')
	for i := 0; i < len(s); i++ {
		if i > 0 {
			sb.WriteString("; ")
		}
		sb.WriteString(strconv.Itoa(int(s[i])))
	}
	sb.WriteByte(']')
	return sb.String()
}

func vCoqSchema(sb *strings.Builder, s *vSch, ind string) {
	switch s.K {
	case kUint:
		fmt.Fprintf(sb, "SUint %d", s.Max)
	case kInt:
		fmt.Fprintf(sb, "SInt %d", s.Bits)
	case kBool:
		sb.WriteString("SBool")
	case kBytes:
		fmt.Fprintf(sb, "SBytes %s", vCoqOpt(s.Bound))
	case kString:
		fmt.Fprintf(sb, "SString %s", vCoqOpt(s.Bound))
	case kFixBytes:
		fmt.Fprintf(sb, "SFixBytes %d", s.N)
	case kArray:
		fmt.Fprintf(sb, "SArray %d (", s.N)
		vCoqSchema(sb, s.Elem, ind)
		sb.WriteString(")")
	case kSlice:
		fmt.Fprintf(sb, "SSlice %s (", vCoqOpt(s.Bound))
		vCoqSchema(sb, s.Elem, ind)
		sb.WriteString(")")
	case kPtr:
		sb.WriteString("SPtr (")
		vCoqSchema(sb, s.Elem, ind)
		sb.WriteString(")")
	case kMap:
		fmt.Fprintf(sb, "SMap %s (", vCoqOpt(s.Bound))
		vCoqSchema(sb, s.Key, ind)
		sb.WriteString(") (")
		vCoqSchema(sb, s.Val, ind)
		sb.WriteString(")")
	case kRef:
		fmt.Fprintf(sb, "SRef %d (* %s *)", s.Ref.ID, s.Ref.Name)
	case kStruct:
		sb.WriteString("SStruct [")
		for i, f := range s.Fld {
			if i > 0 {
				sb.WriteString(";")
			}
			fmt.Fprintf(sb, "\n%s  (mkF %s (* %s *) %d %s %s, ", ind, vCoqBytes(f.Name), f.Name, f.Decl, vCoqBool(f.Req), vCoqBool(f.OE))
			vCoqSchema(sb, f.S, ind+"    ")
			sb.WriteString(")")
		}
		sb.WriteString("]")
	}
}

func vCoqBool(b bool) string {
	if b {
		return "true"
	}
	return "false"
}

func vRegistryBound(pkg, expr string) (int64, error) {
	if m, ok := verifbounds.Exprs[pkg]; ok {
		if f, ok := m[expr]; ok {
			return int64(f()), nil
		}
	}
	return 0, fmt.Errorf("expression not registered (verifbounds)")
}

func vRegistryDir(pkg, typ string) (string, bool) {
	if m, ok := verifbounds.Directives[pkg]; ok {
		d, ok := m[typ]
		return d, ok
	}
	return "", false
}

type vSide struct {
	Bounds     map[string]int64  `json:"bounds"`     // "pkg|expr" -> value
	Directives map[string]string `json:"directives"` // "pkg|Type" -> directive text
	MaxDepth   uint64            `json:"maxdepth"`
}

// TestVerifC40Gen is the translator: coq/gen/Schemas.v (+ JSON side table for the harness runs)
func TestVerifC40Gen(t *testing.T) {
	out := os.Getenv("VERIF_GEN_OUT")
	if out == "" {
		t.Skip("VERIF_GEN_OUT not set")
	}
	w := vNewWalker(vRegistryBound, vRegistryDir)
	var roots []*vNamed
	for _, r := range vRoots() {
		roots = append(roots, w.ref(reflect.TypeOf(r).Elem()))
	}
	if len(w.errs) > 0 {
		t.Fatalf("translator errors:\n%s", strings.Join(w.errs, "\n"))
	}
	var sb strings.Builder
	sb.WriteString("(* GENERATED by harness/go/agreement/zz_verif_c40_test.go:TestVerifC40Gen from the running code\n")
	sb.WriteString("   (reflect.Type + codec tags + run-time values of the allocbound expressions). Do not edit. *)\n")
	sb.WriteString("From Coq Require Import List NArith String.\nFrom Verif.model Require Import Msgpack.\nImport ListNotations.\nOpen Scope N_scope.\nOpen Scope string_scope.\n\n")
	fmt.Fprintf(&sb, "Definition max_depth : nat := %d.\n\n", msgp.DefaultUnmarshalState.AllowableDepth)
	for _, n := range w.order {
		fmt.Fprintf(&sb, "(* %d: %s *)\nDefinition s%d : schema :=\n  ", n.ID, n.Name, n.ID)
		vCoqSchema(&sb, n.Body, "  ")
		sb.WriteString(".\n\n")
	}
	sb.WriteString("Definition env : list schema := [")
	for i, n := range w.order {
		if i > 0 {
			sb.WriteString("; ")
		}
		fmt.Fprintf(&sb, "s%d", n.ID)
	}
	sb.WriteString("].\n\n")
	sb.WriteString("Definition names : list (string * N) := [")
	for i, n := range w.order {
		if i > 0 {
			sb.WriteString(";")
		}
		fmt.Fprintf(&sb, "\n  (%q, %d)", n.Name, n.ID)
	}
	sb.WriteString("].\n\n")
	sb.WriteString("Definition roots : list N := [")
	for i, n := range roots {
		if i > 0 {
			sb.WriteString("; ")
		}
		fmt.Fprintf(&sb, "%d", n.ID)
	}
	sb.WriteString("].\n\n")
	sb.WriteString("(* nested decoder calls of the generated UnmarshalMsgWithState functions that do not pass the depth\n   state `st` on (read from the msgp_gen.go files); must be empty: MsgpackSchemas.real_depth_state_threaded *)\n")
	sb.WriteString("Definition unthreaded_calls : list string := [")
	sort.Strings(w.unthreaded)
	for i, u := range w.unthreaded {
		if i > 0 {
			sb.WriteString(";")
		}
		fmt.Fprintf(&sb, "\n  %q", u)
	}
	sb.WriteString("].\n")
	if err := os.WriteFile(out, []byte(sb.String()), 0644); err != nil {
		t.Fatal(err)
	}
	side := vSide{Bounds: map[string]int64{}, Directives: map[string]string{}, MaxDepth: msgp.DefaultUnmarshalState.AllowableDepth}
	for pkg, m := range verifbounds.Exprs {
		for e, f := range m {
			side.Bounds[pkg+"|"+e] = int64(f())
		}
	}
	for pkg, m := range verifbounds.Directives {
		for ty, d := range m {
			side.Directives[pkg+"|"+ty] = d
		}
	}
	js, _ := json.MarshalIndent(side, "", " ")
	if err := os.WriteFile(out+".json", js, 0644); err != nil {
		t.Fatal(err)
	}
	fmt.Printf("C40 translator: %d named types, %d roots\n", len(w.order), len(roots))
}

// walker for the harness runs: bounds from the side table written by the translator step
func vHarnessWalker(t *testing.T) (*vWalker, []*vNamed, []vCodec) {
	p := os.Getenv("VERIF_C40_SIDE")
	if p == "" {
		p = filepath.Join(os.Getenv("VERIF_OUT"), "..", "gen_Schemas.v.json")
	}
	raw, err := os.ReadFile(p)
	if err != nil {
		t.Fatalf("side table %s: %v (the gen step must run first)", p, err)
	}
	var side vSide
	if err := json.Unmarshal(raw, &side); err != nil {
		t.Fatal(err)
	}
	w := vNewWalker(func(pkg, expr string) (int64, error) {
		if v, ok := side.Bounds[pkg+"|"+expr]; ok {
			return v, nil
		}
		return 0, fmt.Errorf("not in side table")
	}, func(pkg, typ string) (string, bool) {
		d, ok := side.Directives[pkg+"|"+typ]
		return d, ok
	})
	var roots []*vNamed
	rs := vRoots()
	for _, r := range rs {
		roots = append(roots, w.ref(reflect.TypeOf(r).Elem()))
	}
	if len(w.errs) > 0 {
		t.Fatalf("walker errors:\n%s", strings.Join(w.errs, "\n"))
	}
	return w, roots, rs
}

// ------------------------------------------------------------------------------------------
// value trees
// ------------------------------------------------------------------------------------------

// vVal renders the Go value v (of the type described by s) as a term:
//   uint -> n | int -> (i z) | bool -> (b 0/1) | bytes/string/[n]byte -> #hex | nil slice/map/ptr/[]byte -> n
//   slice/array -> (l v...) | map -> (m (k v)...) sorted by key | struct -> (s v...) in codec-name order
//   called named type -> (r v) | non-nil pointer -> (p v)
func vVal(sb *strings.Builder, s *vSch, v reflect.Value) {
	switch s.K {
	case kUint:
		sb.WriteString(strconv.FormatUint(v.Uint(), 10))
	case kInt:
		sb.WriteString("(i ")
		sb.WriteString(strconv.FormatInt(v.Int(), 10))
		sb.WriteByte(')')
	case kBool:
		if v.Bool() {
			sb.WriteString("(b 1)")
		} else {
			sb.WriteString("(b 0)")
		}
	case kBytes:
		if v.IsNil() {
			sb.WriteByte('n')
		} else {
			sb.WriteByte('#')
			sb.WriteString(vHex(v.Bytes()))
		}
	case kString:
		sb.WriteByte('#')
		sb.WriteString(vHex([]byte(v.String())))
	case kFixBytes:
		b := make([]byte, v.Len())
		for i := range b {
			b[i] = byte(v.Index(i).Uint())
		}
		sb.WriteByte('#')
		sb.WriteString(vHex(b))
	case kArray:
		vValList(sb, s.Elem, v)
	case kSlice:
		if v.IsNil() {
			sb.WriteByte('n')
			return
		}
		vValList(sb, s.Elem, v)
	case kMap:
		if v.IsNil() {
			sb.WriteByte('n')
			return
		}
		keys := v.MapKeys()
		sort.Slice(keys, func(i, j int) bool { return vKeyLess(s.Key, keys[i], keys[j]) })
		sb.WriteString("(m")
		for _, k := range keys {
			sb.WriteString(" (")
			vVal(sb, s.Key, k)
			sb.WriteByte(' ')
			vVal(sb, s.Val, v.MapIndex(k))
			sb.WriteByte(')')
		}
		sb.WriteByte(')')
	case kStruct:
		sb.WriteString("(s")
		for _, f := range s.Fld {
			sb.WriteByte(' ')
			vVal(sb, f.S, v.FieldByIndex(f.Index))
		}
		sb.WriteByte(')')
	case kPtr:
		if v.IsNil() {
			sb.WriteByte('n')
			return
		}
		sb.WriteString("(p ")
		vVal(sb, s.Elem, v.Elem())
		sb.WriteByte(')')
	case kRef:
		sb.WriteString("(r ")
		if s.Ref.Special == "microalgos" {
			sb.WriteString(strconv.FormatUint(v.FieldByName("Raw").Uint(), 10))
		} else {
			vVal(sb, s.Ref.Body, v)
		}
		sb.WriteByte(')')
	}
}

// list elements; a run of >= 4 equal consecutive elements is written (x n elem) (expanded by the checker)
func vValList(sb *strings.Builder, es *vSch, v reflect.Value) {
	sb.WriteString("(l")
	var prev string
	run := 0
	flush := func() {
		if run == 0 {
			return
		}
		if run >= 4 {
			sb.WriteString(" (x ")
			sb.WriteString(strconv.Itoa(run))
			sb.WriteByte(' ')
			sb.WriteString(prev)
			sb.WriteByte(')')
		} else {
			for i := 0; i < run; i++ {
				sb.WriteByte(' ')
				sb.WriteString(prev)
			}
		}
		run = 0
	}
	var eb strings.Builder
	for i := 0; i < v.Len(); i++ {
		eb.Reset()
		vVal(&eb, es, v.Index(i))
		cur := eb.String()
		if run > 0 && cur == prev {
			run++
			continue
		}
		flush()
		prev, run = cur, 1
	}
	flush()
	sb.WriteByte(')')
}

const vHexDigits = "0123456789abcdef"

func vHex(b []byte) string {
	o := make([]byte, 2*len(b))
	for i, x := range b {
		o[2*i] = vHexDigits[x>>4]
		o[2*i+1] = vHexDigits[x&15]
	}
	return string(o)
}

func vKeyBytes(s *vSch, v reflect.Value) []byte {
	switch s.K {
	case kString:
		return []byte(v.String())
	case kFixBytes:
		b := make([]byte, v.Len())
		for i := range b {
			b[i] = byte(v.Index(i).Uint())
		}
		return b
	case kBytes:
		return v.Bytes()
	}
	return nil
}

func vKeyLess(s *vSch, a, b reflect.Value) bool {
	for s.K == kRef {
		if s.Ref.Special == "microalgos" {
			return a.FieldByName("Raw").Uint() < b.FieldByName("Raw").Uint()
		}
		s = s.Ref.Body
	}
	switch s.K {
	case kUint:
		return a.Uint() < b.Uint()
	case kInt:
		return a.Int() < b.Int()
	case kString, kFixBytes, kBytes:
		return bytes.Compare(vKeyBytes(s, a), vKeyBytes(s, b)) < 0
	}
	// other key kinds: order of the canonical encodings (not produced for the root types)
	return bytes.Compare(protocol.EncodeReflect(a.Interface()), protocol.EncodeReflect(b.Interface())) < 0
}

func vTree(n *vNamed, obj interface{}) string {
	var sb strings.Builder
	v := reflect.ValueOf(obj)
	for v.Kind() == reflect.Ptr {
		v = v.Elem()
	}
	sb.WriteString("(r ")
	if n.Special == "microalgos" {
		sb.WriteString(strconv.FormatUint(v.FieldByName("Raw").Uint(), 10))
	} else {
		vVal(&sb, n.Body, v)
	}
	sb.WriteByte(')')
	return sb.String()
}

// ------------------------------------------------------------------------------------------
// decoding with outcome classification
// ------------------------------------------------------------------------------------------

type vOutcome struct {
	ok    bool
	panic string
	obj   vCodec
}

func vFresh(tmpl vCodec) vCodec {
	return reflect.New(reflect.TypeOf(tmpl).Elem()).Interface().(vCodec)
}

// protocol.Decode with a guard of our own: a panic that escapes protocol.Decode is a violation
func vDecode(tmpl vCodec, b []byte) (out vOutcome) {
	obj := vFresh(tmpl)
	defer func() {
		if x := recover(); x != nil {
			out = vOutcome{panic: fmt.Sprint(x)}
		}
	}()
	err := protocol.Decode(b, obj)
	if err != nil {
		return vOutcome{}
	}
	return vOutcome{ok: true, obj: obj}
}

// smallest AllowableDepth with which the generated decoder accepts b (0 = none up to lim)
func vMinDepth(tmpl vCodec, b []byte, lim uint64) uint64 {
	for k := uint64(1); k <= lim; k++ {
		obj := vFresh(tmpl)
		if _, err := obj.UnmarshalMsgWithState(b, msgp.UnmarshalState{AllowableDepth: k}); err == nil {
			return k
		}
	}
	return 0
}

func vOutTerm(n *vNamed, o vOutcome) string {
	if o.panic != "" {
		return "(panic #" + vHex([]byte(o.panic)) + ")"
	}
	if !o.ok {
		return "(err)"
	}
	return "(ok " + vTree(n, o.obj) + " #" + vHex(protocol.Encode(o.obj)) + ")"
}

// ------------------------------------------------------------------------------------------
// TestVerifC40: random instances, both encoders, decode, re-encode
// ------------------------------------------------------------------------------------------

func vRandomObj(tmpl vCodec, r *vRand) (vCodec, error) {
	var opts []protocol.RandomizeObjectOption
	opts = append(opts, protocol.RandomizeObjectSilenceAllocWarnings())
	switch r.Intn(4) {
	case 0:
	case 1:
		opts = append(opts, protocol.RandomizeObjectWithZeroesEveryN(2+r.Intn(6)))
	case 2:
		opts = append(opts, protocol.RandomizeObjectWithAllUintSizes())
	case 3:
		opts = append(opts, protocol.RandomizeObjectWithAllUintSizes(), protocol.RandomizeObjectWithZeroesEveryN(2+r.Intn(10)),
			protocol.RandomizeObjectWithMaxCollectionLen(1+r.Intn(6)))
	}
	o, err := protocol.RandomizeObject(tmpl, opts...)
	if err != nil {
		return nil, err
	}
	return o.(vCodec), nil
}

func TestVerifC40(t *testing.T) {
	_, roots, tmpls := vHarnessWalker(t)
	r := vNewRand(0xC40)
	rand.Seed(int64(r.U64() >> 1)) // protocol.RandomizeObject draws from math/rand
	per := vEnvInt("VERIF_C40_N", 40)
	out := vOpen("cases_c40.txt")
	defer out.Close()
	stats := map[string]interface{}{}
	hist := map[string]int{}
	total := 0
	for i, n := range roots {
		for k := 0; k < per; k++ {
			obj, err := vRandomObj(tmpls[i], r)
			if err != nil {
				t.Fatalf("RandomizeObject %s: %v", n.Name, err)
			}
			vEmitEnc(out, n, tmpls[i], obj)
			total++
		}
		hist[n.Name] = per
	}
	// honestly encoded objects with LEGAL inner-transaction nesting (consensus allows inner app calls 8 deep;
	// a few more levels for margin): decode(encode x) must succeed and re-encode to the same bytes
	for i, n := range roots {
		for _, d := range []int{1, 2, 3, 4, 5, 6, 7, 8, 9, 10, 12, 16} {
			inner := vNested(d)
			inner.ApplyData.EvalDelta.Logs = []string{"l"}
			var obj vCodec
			switch n.Name {
			case "transactions.SignedTxnWithAD":
				obj = &inner
			case "transactions.EvalDelta":
				obj = &inner.ApplyData.EvalDelta
			case "transactions.ApplyData":
				obj = &inner.ApplyData
			case "transactions.SignedTxnInBlock":
				obj = &transactions.SignedTxnInBlock{SignedTxnWithAD: inner}
			case "transactions.Payset":
				obj = &transactions.Payset{transactions.SignedTxnInBlock{SignedTxnWithAD: inner}}
			case "bookkeeping.Block":
				obj = &bookkeeping.Block{Payset: transactions.Payset{transactions.SignedTxnInBlock{SignedTxnWithAD: inner}}}
			case "agreement.unauthenticatedProposal":
				obj = &unauthenticatedProposal{Block: bookkeeping.Block{Payset: transactions.Payset{transactions.SignedTxnInBlock{SignedTxnWithAD: inner}}}}
			default:
				continue
			}
			vEmitEnc(out, n, tmpls[i], obj)
			total++
			hist[n.Name+"/nested"]++
		}
	}
	// the pointer-to-zero-struct witness of Msgpack encoders_differ_refuted, replayed on the real encoders
	{
		var tx transactions.Transaction
		tx.Type = protocol.HeartbeatTx
		tx.HeartbeatTxnFields = &transactions.HeartbeatTxnFields{}
		for i, n := range roots {
			if n.Name == "transactions.Transaction" {
				vEmitEnc(out, n, tmpls[i], &tx)
				total++
			}
		}
	}
	stats["instances_per_type"] = hist
	stats["types"] = len(roots)
	stats["total"] = total
	vStats(stats)
}

func vEmitEnc(out *vOut, n *vNamed, tmpl vCodec, obj vCodec) {
	e1 := protocol.Encode(obj)
	e2 := protocol.EncodeReflect(obj)
	dec := vDecode(tmpl, e1)
	kmin := uint64(0)
	if dec.ok {
		kmin = vMinDepth(tmpl, e1, 64)
	}
	out.Line("(enc " + n.Name + " " + vTree(n, obj) + " #" + vHex(e1) + " #" + vHex(e2) + " " + vOutTerm(n, dec) + " " + strconv.FormatUint(kmin, 10) + ")")
}

// ------------------------------------------------------------------------------------------
// C41: arbitrary bytes through protocol.Decode
// ------------------------------------------------------------------------------------------

// vLax writes a NON-canonical but (for the real decoder) equivalent encoding of v: wider integer
// and header forms, str<->bin, nil for zero values, shuffled / explicit-zero struct fields,
// struct-from-array, shuffled map entries, long fixed byte arrays.
type vLax struct {
	r    *vRand
	p    int // probability (percent) of a non-canonical choice at each node
	b    []byte
	uses map[string]int
}

func (l *vLax) flip() bool { return l.r.Intn(100) < l.p }

func (l *vLax) note(k string) { l.uses[k]++ }

func (l *vLax) be(n uint64, k int) {
	for i := k - 1; i >= 0; i-- {
		l.b = append(l.b, byte(n>>(8*uint(i))))
	}
}

func (l *vLax) uint(u uint64) {
	if !l.flip() {
		l.b = msgp.AppendUint64(l.b, u)
		return
	}
	if u == 0 && l.r.Intn(4) == 0 {
		l.note("nil-for-zero")
		l.b = append(l.b, 0xc0)
		return
	}
	// any unsigned or signed form wide enough
	type form struct {
		lead byte
		k    int
		max  uint64
	}
	forms := []form{{0xcc, 1, 1<<8 - 1}, {0xcd, 2, 1<<16 - 1}, {0xce, 4, 1<<32 - 1}, {0xcf, 8, ^uint64(0)},
		{0xd0, 1, 1<<7 - 1}, {0xd1, 2, 1<<15 - 1}, {0xd2, 4, 1<<31 - 1}, {0xd3, 8, 1<<63 - 1}}
	var ok []form
	for _, f := range forms {
		if u <= f.max {
			ok = append(ok, f)
		}
	}
	f := ok[l.r.Intn(len(ok))]
	l.note("wide-int")
	l.b = append(l.b, f.lead)
	l.be(u, f.k)
}

func (l *vLax) int(i int64) {
	if !l.flip() {
		l.b = msgp.AppendInt64(l.b, i)
		return
	}
	if i >= 0 {
		l.uint(uint64(i))
		return
	}
	type form struct {
		lead byte
		k    int
		min  int64
	}
	forms := []form{{0xd0, 1, -1 << 7}, {0xd1, 2, -1 << 15}, {0xd2, 4, -1 << 31}, {0xd3, 8, -1 << 63}}
	var ok []form
	for _, f := range forms {
		if i >= f.min {
			ok = append(ok, f)
		}
	}
	f := ok[l.r.Intn(len(ok))]
	l.note("wide-int")
	l.b = append(l.b, f.lead)
	l.be(uint64(i), f.k)
}

func (l *vLax) hdr(kind string, n int) {
	var fix, b8, b16, b32 byte
	fixmax := -1
	switch kind {
	case "map":
		fix, b16, b32, fixmax = 0x80, 0xde, 0xdf, 15
	case "arr":
		fix, b16, b32, fixmax = 0x90, 0xdc, 0xdd, 15
	case "str":
		fix, b8, b16, b32, fixmax = 0xa0, 0xd9, 0xda, 0xdb, 31
	case "bin":
		b8, b16, b32 = 0xc4, 0xc5, 0xc6
	}
	type form struct {
		lead byte
		k    int
	}
	var ok []form
	if n <= fixmax {
		ok = append(ok, form{fix + byte(n), 0})
	}
	if b8 != 0 && n < 1<<8 {
		ok = append(ok, form{b8, 1})
	}
	if n < 1<<16 {
		ok = append(ok, form{b16, 2})
	}
	ok = append(ok, form{b32, 4})
	f := ok[0]
	if l.flip() {
		f = ok[l.r.Intn(len(ok))]
		if f != ok[0] {
			l.note("wide-header")
		}
	}
	l.b = append(l.b, f.lead)
	l.be(uint64(n), f.k)
}

func (l *vLax) raw(strForm bool, data []byte) {
	if l.flip() {
		strForm = !strForm
		l.note("str-bin-swap")
	}
	if strForm {
		l.hdr("str", len(data))
	} else {
		l.hdr("bin", len(data))
	}
	l.b = append(l.b, data...)
}

func (l *vLax) val(s *vSch, v reflect.Value) {
	switch s.K {
	case kUint:
		l.uint(v.Uint())
	case kInt:
		l.int(v.Int())
	case kBool:
		if !v.Bool() && l.flip() {
			l.note("nil-for-zero")
			l.b = append(l.b, 0xc0)
		} else {
			l.b = msgp.AppendBool(l.b, v.Bool())
		}
	case kBytes:
		if v.IsNil() {
			l.b = append(l.b, 0xc0)
		} else {
			l.raw(false, v.Bytes())
		}
	case kString:
		if v.Len() == 0 && l.flip() {
			l.note("nil-for-zero")
			l.b = append(l.b, 0xc0)
		} else {
			l.raw(true, []byte(v.String()))
		}
	case kFixBytes:
		b := make([]byte, v.Len())
		for i := range b {
			b[i] = byte(v.Index(i).Uint())
		}
		if l.flip() {
			switch l.r.Intn(3) {
			case 0: // longer than the array: the excess is dropped
				b = append(b, l.r.Bytes(1+l.r.Intn(5))...)
				l.note("long-fixed-array")
			case 1: // drop trailing zeros: the target is zero-filled
				for len(b) > 0 && b[len(b)-1] == 0 {
					b = b[:len(b)-1]
				}
				l.note("short-fixed-array")
			}
		}
		l.raw(false, b)
	case kArray:
		n := v.Len()
		l.hdr("arr", n)
		for i := 0; i < n; i++ {
			l.val(s.Elem, v.Index(i))
		}
	case kSlice:
		if v.IsNil() {
			l.b = append(l.b, 0xc0)
			return
		}
		l.hdr("arr", v.Len())
		for i := 0; i < v.Len(); i++ {
			l.val(s.Elem, v.Index(i))
		}
	case kMap:
		if v.IsNil() {
			l.b = append(l.b, 0xc0)
			return
		}
		keys := v.MapKeys()
		sort.Slice(keys, func(i, j int) bool { return vKeyLess(s.Key, keys[i], keys[j]) })
		if l.flip() {
			l.note("map-order")
			for i := len(keys) - 1; i > 0; i-- {
				j := l.r.Intn(i + 1)
				keys[i], keys[j] = keys[j], keys[i]
			}
		}
		l.hdr("map", len(keys))
		for _, k := range keys {
			l.val(s.Key, k)
			l.val(s.Val, v.MapIndex(k))
		}
	case kPtr:
		if v.IsNil() {
			l.b = append(l.b, 0xc0)
		} else {
			l.val(s.Elem, v.Elem())
		}
	case kRef:
		if s.Ref.Special == "microalgos" {
			l.uint(v.FieldByName("Raw").Uint())
		} else {
			l.val(s.Ref.Body, v)
		}
	case kStruct:
		zero := func(f *vField) bool { return vIsZero(f.S, v.FieldByIndex(f.Index)) }
		if l.flip() && l.r.Intn(3) == 0 {
			// struct-from-array: declaration order, up to the last non-zero field (or further)
			l.note("struct-from-array")
			byDecl := append([]*vField(nil), s.Fld...)
			sort.Slice(byDecl, func(i, j int) bool { return byDecl[i].Decl < byDecl[j].Decl })
			last := 0
			for i, f := range byDecl {
				if !zero(f) {
					last = i + 1
				}
			}
			if last < len(byDecl) && l.r.Bool() {
				last += l.r.Intn(len(byDecl) - last + 1)
			}
			l.hdr("arr", last)
			for _, f := range byDecl[:last] {
				l.val(f.S, v.FieldByIndex(f.Index))
			}
			return
		}
		var fs []*vField
		explicit := l.flip()
		for _, f := range s.Fld {
			if f.OE && zero(f) {
				if explicit && l.r.Bool() {
					l.note("explicit-zero-field")
					fs = append(fs, f)
				}
				continue
			}
			fs = append(fs, f)
		}
		if l.flip() {
			l.note("field-order")
			for i := len(fs) - 1; i > 0; i-- {
				j := l.r.Intn(i + 1)
				fs[i], fs[j] = fs[j], fs[i]
			}
		}
		if len(fs) == 0 && l.flip() {
			l.note("nil-for-zero")
			l.b = append(l.b, 0xc0)
			return
		}
		l.hdr("map", len(fs))
		for _, f := range fs {
			l.raw(true, []byte(f.Name))
			l.val(f.S, v.FieldByIndex(f.Index))
		}
	}
}

// zero-ness as the generated MsgIsZero sees it (used only to build inputs)
func vIsZero(s *vSch, v reflect.Value) bool {
	switch s.K {
	case kUint:
		return v.Uint() == 0
	case kInt:
		return v.Int() == 0
	case kBool:
		return !v.Bool()
	case kBytes, kString, kSlice, kMap:
		return v.Len() == 0
	case kFixBytes:
		return v.IsZero()
	case kArray:
		for i := 0; i < v.Len(); i++ {
			if !vIsZero(s.Elem, v.Index(i)) {
				return false
			}
		}
		return true
	case kPtr:
		return v.IsNil()
	case kRef:
		if s.Ref.Special == "microalgos" {
			return v.FieldByName("Raw").Uint() == 0
		}
		return vIsZero(s.Ref.Body, v)
	case kStruct:
		for _, f := range s.Fld {
			if !vIsZero(f.S, v.FieldByIndex(f.Index)) {
				return false
			}
		}
		return true
	}
	return false
}

// schema-less msgpack walk: offsets of every object header with its kind and header length
type vObj struct {
	off, hlen int
	kind      byte // 'm' map 'a' array 's' str 'b' bin 'i' int/other scalar
	n         int  // element count / byte length
}

func vScan(b []byte, off int, out *[]vObj, depth int) int {
	if off >= len(b) || depth > 2000 {
		return -1
	}
	lead := b[off]
	rd := func(k int) (int, bool) {
		if off+1+k > len(b) {
			return 0, false
		}
		n := 0
		for i := 0; i < k; i++ {
			n = n<<8 | int(b[off+1+i])
		}
		return n, true
	}
	kind, hlen, n := byte('i'), 1, 0
	switch {
	case lead < 0x80 || lead >= 0xe0 || lead == 0xc0 || lead == 0xc2 || lead == 0xc3:
	case lead < 0x90:
		kind, n = 'm', int(lead&15)
	case lead < 0xa0:
		kind, n = 'a', int(lead&15)
	case lead < 0xc0:
		kind, n = 's', int(lead&31)
	case lead == 0xc4 || lead == 0xc5 || lead == 0xc6 || lead == 0xd9 || lead == 0xda || lead == 0xdb:
		k := map[byte]int{0xc4: 1, 0xc5: 2, 0xc6: 4, 0xd9: 1, 0xda: 2, 0xdb: 4}[lead]
		v, ok := rd(k)
		if !ok {
			return -1
		}
		kind, hlen, n = 'b', 1+k, v
		if lead >= 0xd9 {
			kind = 's'
		}
	case lead == 0xdc || lead == 0xdd || lead == 0xde || lead == 0xdf:
		k := 2
		if lead == 0xdd || lead == 0xdf {
			k = 4
		}
		v, ok := rd(k)
		if !ok {
			return -1
		}
		kind, hlen, n = 'a', 1+k, v
		if lead >= 0xde {
			kind = 'm'
		}
	case lead >= 0xcc && lead <= 0xd3:
		hlen = 1 + []int{1, 2, 4, 8, 1, 2, 4, 8}[lead-0xcc]
	default:
		return -1
	}
	*out = append(*out, vObj{off, hlen, kind, n})
	p := off + hlen
	switch kind {
	case 's', 'b':
		p += n
	case 'a':
		for i := 0; i < n && p >= 0; i++ {
			p = vScan(b, p, out, depth+1)
		}
	case 'm':
		for i := 0; i < 2*n && p >= 0; i++ {
			p = vScan(b, p, out, depth+1)
		}
	}
	if p > len(b) {
		return -1
	}
	return p
}

func vHeader(kind byte, n uint64, width int) []byte {
	var lead byte
	switch kind {
	case 'm':
		lead = map[int]byte{2: 0xde, 4: 0xdf}[width]
	case 'a':
		lead = map[int]byte{2: 0xdc, 4: 0xdd}[width]
	case 's':
		lead = map[int]byte{1: 0xd9, 2: 0xda, 4: 0xdb}[width]
	case 'b':
		lead = map[int]byte{1: 0xc4, 2: 0xc5, 4: 0xc6}[width]
	}
	o := []byte{lead}
	for i := width - 1; i >= 0; i-- {
		o = append(o, byte(n>>(8*uint(i))))
	}
	return o
}

func vSplice(b []byte, off, cut int, ins []byte) []byte {
	o := make([]byte, 0, len(b)+len(ins))
	o = append(o, b[:off]...)
	o = append(o, ins...)
	return append(o, b[off+cut:]...)
}

// byte-level mutations of one encoding
func vMutations(r *vRand, e []byte, emit func(kind string, b []byte)) {
	if len(e) == 0 {
		return
	}
	// truncations
	for _, k := range []int{0, 1, len(e) / 2, len(e) - 1, r.Intn(len(e)), r.Intn(len(e))} {
		if k >= 0 && k < len(e) {
			emit("truncate", e[:k])
		}
	}
	// trailing garbage (ignored by protocol.Decode)
	emit("trailing", append(append([]byte(nil), e...), r.Bytes(1+r.Intn(4))...))
	// random byte substitutions / insertions / deletions
	for i := 0; i < 6; i++ {
		m := append([]byte(nil), e...)
		for j := 0; j <= r.Intn(3); j++ {
			m[r.Intn(len(m))] = byte(r.U64())
		}
		emit("bytes", m)
	}
	for i := 0; i < 3; i++ {
		off := r.Intn(len(e))
		emit("insert", vSplice(e, off, 0, r.Bytes(1+r.Intn(3))))
		emit("delete", vSplice(e, off, 1+r.Intn(minInt(3, len(e)-off)), nil))
	}
	// structured surgery on headers
	var objs []vObj
	if vScan(e, 0, &objs, 0) < 0 || len(objs) == 0 {
		return
	}
	for i := 0; i < 10; i++ {
		o := objs[r.Intn(len(objs))]
		switch o.kind {
		case 'm', 'a', 's', 'b':
			var n uint64
			switch r.Intn(6) {
			case 0:
				n = uint64(o.n) + 1
			case 1:
				n = uint64(maxInt(o.n-1, 0))
			case 2:
				n = 0xffffffff
			case 3:
				n = 0x7fffffff
			case 4:
				n = uint64(o.n) // same length, wider header
			default:
				n = uint64(r.Intn(70000))
			}
			w := []int{2, 4}[r.Intn(2)]
			if (o.kind == 's' || o.kind == 'b') && r.Intn(3) == 0 {
				w = 1
			}
			if w == 1 && n > 255 {
				n &= 255
			}
			if w == 2 && n > 65535 {
				n &= 65535
			}
			emit("header-length", vSplice(e, o.off, o.hlen, vHeader(o.kind, n, w)))
			if o.kind == 's' || o.kind == 'b' {
				k := byte('s')
				if o.kind == 's' {
					k = 'b'
				}
				emit("str-bin", vSplice(e, o.off, o.hlen, vHeader(k, uint64(o.n), 4)))
			}
		case 'i':
			// replace a scalar by nil / by another scalar form
			switch r.Intn(3) {
			case 0:
				emit("nil-scalar", vSplice(e, o.off, o.hlen, []byte{0xc0}))
			case 1:
				emit("neg-scalar", vSplice(e, o.off, o.hlen, []byte{0xff}))
			default:
				emit("big-scalar", vSplice(e, o.off, o.hlen, []byte{0xcf, 0xff, 0xff, 0xff, 0xff, 0xff, 0xff, 0xff, 0xff}))
			}
		}
	}
	// replace a whole object by nil, duplicate / drop a key-value pair of the top-level map
	for i := 0; i < 3; i++ {
		j := r.Intn(len(objs))
		end := vScan(e, objs[j].off, new([]vObj), 0)
		if end > 0 {
			emit("nil-object", vSplice(e, objs[j].off, end-objs[j].off, []byte{0xc0}))
		}
	}
	if top := objs[0]; top.kind == 'm' && top.n > 0 && top.n < 15 && top.hlen == 1 {
		// pairs of the top-level map
		type pair struct{ a, b int }
		var ps []pair
		p := top.hlen
		for i := 0; i < top.n && p > 0; i++ {
			k := vScan(e, p, new([]vObj), 0)
			if k < 0 {
				break
			}
			v := vScan(e, k, new([]vObj), 0)
			if v < 0 {
				break
			}
			ps = append(ps, pair{p, v})
			p = v
		}
		if len(ps) == top.n {
			q := ps[r.Intn(len(ps))]
			dup := append([]byte{e[0] + 1}, e[1:]...)
			dup = append(dup, e[q.a:q.b]...)
			emit("dup-key", dup)
			drop := append([]byte{e[0] - 1}, e[1:q.a]...)
			drop = append(drop, e[q.b:]...)
			emit("drop-key", drop)
			unk := append([]byte{e[0] + 1}, e[1:]...)
			unk = append(unk, 0xa3, 'z', 'z', 'z', 0x01)
			emit("unknown-key", unk)
		}
	}
}

func minInt(a, b int) int {
	if a < b {
		return a
	}
	return b
}

func maxInt(a, b int) int {
	if a > b {
		return a
	}
	return b
}

// all bounded collection nodes reachable in obj (value level), for bound / bound+1 instances
type vSite struct {
	s *vSch
	v reflect.Value
}

func vSites(s *vSch, v reflect.Value, out *[]vSite) {
	switch s.K {
	case kBytes, kString:
		if s.Bound >= 0 && v.CanSet() {
			*out = append(*out, vSite{s, v})
		}
	case kSlice:
		if s.Bound >= 0 && v.CanSet() {
			*out = append(*out, vSite{s, v})
		}
		for i := 0; i < v.Len(); i++ {
			vSites(s.Elem, v.Index(i), out)
		}
	case kArray:
		for i := 0; i < v.Len(); i++ {
			vSites(s.Elem, v.Index(i), out)
		}
	case kMap:
		if s.Bound >= 0 && v.CanSet() {
			*out = append(*out, vSite{s, v})
		}
	case kPtr:
		if !v.IsNil() {
			vSites(s.Elem, v.Elem(), out)
		}
	case kRef:
		if s.Ref.Special == "" {
			vSites(s.Ref.Body, v, out)
		}
	case kStruct:
		for _, f := range s.Fld {
			vSites(f.S, v.FieldByIndex(f.Index), out)
		}
	}
}

// fresh distinct map key number i
func vSetKey(s *vSch, k reflect.Value, i int) bool {
	switch s.K {
	case kUint:
		if uint64(i) > s.Max {
			return false
		}
		k.SetUint(uint64(i))
	case kInt:
		k.SetInt(int64(i))
	case kString:
		k.SetString("k" + strconv.Itoa(i))
	case kFixBytes:
		if k.Len() < 4 {
			return false
		}
		for j := 0; j < 4; j++ {
			k.Index(j).SetUint(uint64(byte(i >> (8 * uint(j)))))
		}
	case kRef:
		if s.Ref.Special != "" {
			return false
		}
		return vSetKey(s.Ref.Body, k, i)
	default:
		return false
	}
	return true
}

// resize the collection at the site to n elements (copies of an existing element where there is one)
func vResize(st vSite, n int, budget int) bool {
	s, v := st.s, st.v
	switch s.K {
	case kBytes:
		if n > budget {
			return false
		}
		v.SetBytes(bytes.Repeat([]byte{0x61}, n))
	case kString:
		if n > budget {
			return false
		}
		v.SetString(strings.Repeat("a", n))
	case kSlice:
		elemSize := 1
		if v.Len() > 0 {
			elemSize = len(protocol.EncodeReflect(v.Index(0).Interface())) + 1
		}
		if n*elemSize > budget {
			return false
		}
		ns := reflect.MakeSlice(v.Type(), n, n)
		if v.Len() > 0 {
			for i := 0; i < n; i++ {
				ns.Index(i).Set(v.Index(0))
			}
		}
		v.Set(ns)
	case kMap:
		var proto reflect.Value
		elemSize := 8
		if v.Len() > 0 {
			proto = v.MapIndex(v.MapKeys()[0])
			elemSize += len(protocol.EncodeReflect(proto.Interface()))
		} else {
			proto = reflect.Zero(v.Type().Elem())
		}
		if n*elemSize > budget {
			return false
		}
		nm := reflect.MakeMapWithSize(v.Type(), n)
		for i := 0; i < n; i++ {
			k := reflect.New(v.Type().Key()).Elem()
			if !vSetKey(s.Key, k, i) {
				return false
			}
			nm.SetMapIndex(k, proto)
		}
		if nm.Len() != n {
			return false
		}
		v.Set(nm)
	default:
		return false
	}
	return true
}


// ------------------------------------------------------------------------------------------
// C41: every allocbound site of every schema, with WELL-FORMED collections of exactly bound and
// bound+1 minimal elements, in every copy of the generated code (struct-from-map and
// struct-from-array branch of every struct level inside the owning method)
// ------------------------------------------------------------------------------------------

var vNil = []byte{0xc0}

func vHasReq(s *vSch) bool {
	for _, f := range s.Fld {
		if f.Req {
			return true
		}
	}
	return false
}

// smallest encoding that the decoder accepts for the type (zero value unless `required` fields force content)
func vValidEnc(s *vSch, d int) []byte {
	if d > 24 {
		return vNil
	}
	switch s.K {
	case kStruct:
		if !vHasReq(s) {
			return vNil
		}
		return vStructMap(s, nil, nil, d)
	case kRef:
		if s.Ref.Special != "" {
			return vNil
		}
		return vValidEnc(s.Ref.Body, d+1)
	}
	return vNil
}

// small encoding of an accepted NON-zero value
func vNonzeroEnc(s *vSch, d int) []byte {
	if d > 24 {
		return vNil
	}
	switch s.K {
	case kUint, kInt:
		return []byte{0x01}
	case kBool:
		return []byte{0xc3}
	case kBytes:
		return []byte{0xc4, 0x01, 0x61}
	case kString:
		return []byte{0xa1, 0x61}
	case kFixBytes:
		return []byte{0xc4, 0x01, 0x01}
	case kArray:
		return append([]byte{0x91}, vNonzeroEnc(s.Elem, d+1)...)
	case kSlice:
		return append([]byte{0x91}, vValidEnc(s.Elem, d+1)...)
	case kMap:
		k, _ := vKeyEnc(s.Key, 0)
		return append(append([]byte{0x81}, k...), vValidEnc(s.Val, d+1)...)
	case kPtr:
		return vNonzeroEnc(s.Elem, d+1)
	case kRef:
		if s.Ref.Special != "" {
			return []byte{0x01}
		}
		return vNonzeroEnc(s.Ref.Body, d+1)
	case kStruct:
		if vHasReq(s) || len(s.Fld) == 0 {
			return vStructMap(s, nil, nil, d)
		}
		return vStructMap(s, s.Fld[0], vNonzeroEnc(s.Fld[0].S, d+1), d)
	}
	return vNil
}

// distinct map key number i
func vKeyEnc(s *vSch, i int) ([]byte, bool) {
	switch s.K {
	case kUint:
		if uint64(i) > s.Max {
			return nil, false
		}
		return msgp.AppendUint64(nil, uint64(i)), true
	case kInt:
		return msgp.AppendInt64(nil, int64(i)), true
	case kString:
		return msgp.AppendString(nil, "k"+strconv.Itoa(i)), true
	case kFixBytes, kBytes:
		return []byte{0xc4, 0x03, byte(i >> 16), byte(i >> 8), byte(i)}, true
	case kRef:
		if s.Ref.Special != "" {
			return msgp.AppendUint64(nil, uint64(i)), true
		}
		return vKeyEnc(s.Ref.Body, i)
	}
	return nil, false
}

// struct as a map: `required` fields with a non-zero value, plus target := inner
func vStructMap(s *vSch, target *vField, inner []byte, d int) []byte {
	var body []byte
	n := 0
	for _, f := range s.Fld {
		var e []byte
		switch {
		case f == target:
			e = inner
		case f.Req:
			e = vNonzeroEnc(f.S, d+1)
		default:
			continue
		}
		body = msgp.AppendString(body, f.Name)
		body = append(body, e...)
		n++
	}
	return append(msgp.AppendMapHeader(nil, uint32(n)), body...)
}

// struct as an array (declaration order): smallest accepted encoding for every other field, `required` fields non-zero
func vStructArr(s *vSch, target *vField, inner []byte, d int) []byte {
	byDecl := append([]*vField(nil), s.Fld...)
	sort.Slice(byDecl, func(i, j int) bool { return byDecl[i].Decl < byDecl[j].Decl })
	last := 0
	for i, f := range byDecl {
		if f == target || f.Req {
			last = i + 1
		}
	}
	body := msgp.AppendArrayHeader(nil, uint32(last))
	for _, f := range byDecl[:last] {
		switch {
		case f == target:
			body = append(body, inner...)
		case f.Req:
			body = append(body, vNonzeroEnc(f.S, d+1)...)
		default:
			// nil, unless the type has `required` fields (nil would fail the callee's required check)
			body = append(body, vValidEnc(f.S, d+1)...)
		}
	}
	return body
}

type vBoundSite struct {
	name string
	s    *vSch
	wrap func([]byte) []byte
}

// collection of n minimal well-formed elements for the bounded node s (nil = not constructible / too large)
func vCollection(s *vSch, n int, maxBytes int) []byte {
	switch s.K {
	case kBytes:
		if n > maxBytes {
			return nil
		}
		return msgp.AppendBytes(nil, bytes.Repeat([]byte{0x61}, n))
	case kString:
		if n > maxBytes {
			return nil
		}
		return msgp.AppendString(nil, strings.Repeat("a", n))
	case kSlice:
		e := vValidEnc(s.Elem, 0)
		if n*len(e) > maxBytes {
			return nil
		}
		o := msgp.AppendArrayHeader(make([]byte, 0, 5+n*len(e)), uint32(n))
		for i := 0; i < n; i++ {
			o = append(o, e...)
		}
		return o
	case kMap:
		e := vValidEnc(s.Val, 0)
		if n*(len(e)+4) > maxBytes {
			return nil
		}
		o := msgp.AppendMapHeader(nil, uint32(n))
		for i := 0; i < n; i++ {
			k, ok := vKeyEnc(s.Key, i)
			if !ok {
				return nil
			}
			o = append(o, k...)
			o = append(o, e...)
		}
		return o
	}
	return nil
}

func vHeaderOnly(s *vSch, n int) []byte {
	switch s.K {
	case kBytes:
		return vHeader('b', uint64(n), 4)
	case kString:
		return vHeader('s', uint64(n), 4)
	case kSlice:
		return msgp.AppendArrayHeader(nil, uint32(n))
	case kMap:
		return msgp.AppendMapHeader(nil, uint32(n))
	}
	return nil
}

// every bounded node below s inside the method of `owner`; called types are entered once (done)
func vEnumSites(s *vSch, name string, wrap func([]byte) []byte, done map[*vNamed]bool, d int, out *[]vBoundSite) {
	if d > 40 {
		return
	}
	switch s.K {
	case kBytes, kString:
		if s.Bound >= 0 {
			*out = append(*out, vBoundSite{name, s, wrap})
		}
	case kSlice:
		if s.Bound >= 0 {
			*out = append(*out, vBoundSite{name, s, wrap})
		}
		if s.Bound != 0 {
			vEnumSites(s.Elem, name+"[]", func(in []byte) []byte { return wrap(append([]byte{0x91}, in...)) }, done, d+1, out)
		}
	case kArray:
		if s.N > 0 {
			vEnumSites(s.Elem, name+"[0]", func(in []byte) []byte { return wrap(append([]byte{0x91}, in...)) }, done, d+1, out)
		}
	case kMap:
		if s.Bound >= 0 {
			*out = append(*out, vBoundSite{name, s, wrap})
		}
		if k, ok := vKeyEnc(s.Key, 0); ok && s.Bound != 0 {
			vEnumSites(s.Val, name+"{}", func(in []byte) []byte { return wrap(append(append([]byte{0x81}, k...), in...)) }, done, d+1, out)
		}
	case kPtr:
		vEnumSites(s.Elem, name, wrap, done, d+1, out)
	case kRef:
		if s.Ref.Special != "" || done[s.Ref] {
			return
		}
		done[s.Ref] = true
		vEnumSites(s.Ref.Body, s.Ref.Name, wrap, done, d+1, out)
	case kStruct:
		for _, f := range s.Fld {
			f := f
			vEnumSites(f.S, name+"."+f.Name+"<map>", func(in []byte) []byte { return wrap(vStructMap(s, f, in, 0)) }, done, d+1, out)
		}
		for _, f := range s.Fld {
			f := f
			if f.S.K == kRef {
				continue // the callee's code is the same whichever branch calls it
			}
			vEnumSites(f.S, name+"."+f.Name+"<arr>", func(in []byte) []byte { return wrap(vStructArr(s, f, in, 0)) }, done, d+1, out)
		}
	}
}

// ------------------------------------------------------------------------------------------
// Root types with a slice / map declared `allocbound=-`: the generated decoder calls make([]T, n) with
// the length prefix before reading any element, so a few input bytes can request > 100 GB and the Go
// runtime dies ("fatal error: runtime: out of memory": not a panic, cannot be recovered).  Inputs for
// these root types are therefore decoded in a child process (same test binary) with a 16 GiB address
// space limit; a child that dies on input k is an observation "(panic ...)" for input k.
// ------------------------------------------------------------------------------------------

func vHasUnbounded(s *vSch, seen map[*vNamed]bool) bool {
	switch s.K {
	case kSlice:
		return s.Bound < 0 || vHasUnbounded(s.Elem, seen)
	case kMap:
		return s.Bound < 0 || vHasUnbounded(s.Key, seen) || vHasUnbounded(s.Val, seen)
	case kArray, kPtr:
		return vHasUnbounded(s.Elem, seen)
	case kRef:
		if s.Ref.Special != "" || seen[s.Ref] {
			return false
		}
		seen[s.Ref] = true
		return vHasUnbounded(s.Ref.Body, seen)
	case kStruct:
		for _, f := range s.Fld {
			if vHasUnbounded(f.S, seen) {
				return true
			}
		}
	}
	return false
}

type vPending struct {
	root int
	kind string
	in   []byte
}

// TestVerifC41Child decodes the inputs of VERIF_C41_CHILD_IN (lines "rootIndex hex") from line
// VERIF_C41_CHILD_FROM on and appends one outcome term per input to VERIF_C41_CHILD_OUT.
func TestVerifC41Child(t *testing.T) {
	inPath := os.Getenv("VERIF_C41_CHILD_IN")
	if inPath == "" {
		t.Skip("child mode only")
	}
	lim := syscall.Rlimit{Cur: 16 << 30, Max: 16 << 30}
	_ = syscall.Setrlimit(syscall.RLIMIT_AS, &lim)
	_, roots, tmpls := vHarnessWalker(t)
	from, _ := strconv.Atoi(os.Getenv("VERIF_C41_CHILD_FROM"))
	raw, err := os.ReadFile(inPath)
	if err != nil {
		t.Fatal(err)
	}
	out, err := os.OpenFile(os.Getenv("VERIF_C41_CHILD_OUT"), os.O_APPEND|os.O_CREATE|os.O_WRONLY, 0644)
	if err != nil {
		t.Fatal(err)
	}
	defer out.Close()
	for i, line := range strings.Split(strings.TrimSpace(string(raw)), "\n") {
		if i < from {
			continue
		}
		parts := strings.SplitN(line, " ", 2)
		ri, _ := strconv.Atoi(parts[0])
		b := make([]byte, len(parts[1])/2)
		for j := range b {
			v, _ := strconv.ParseUint(parts[1][2*j:2*j+2], 16, 8)
			b[j] = byte(v)
		}
		o := vDecode(tmpls[ri], b)
		if _, err := out.WriteString(vOutTerm(roots[ri], o) + "\n"); err != nil {
			t.Fatal(err)
		}
	}
}

// run the pending inputs in child processes; returns one outcome term per input
func vRunChildren(t *testing.T, pend []vPending) []string {
	dir := os.Getenv("VERIF_OUT")
	if dir == "" {
		dir = os.TempDir()
	}
	inPath, outPath := filepath.Join(dir, "child_in.txt"), filepath.Join(dir, "child_out.txt")
	var sb strings.Builder
	for _, p := range pend {
		sb.WriteString(strconv.Itoa(p.root))
		sb.WriteByte(' ')
		sb.WriteString(vHex(p.in))
		sb.WriteByte('\n')
	}
	if err := os.WriteFile(inPath, []byte(sb.String()), 0644); err != nil {
		t.Fatal(err)
	}
	os.Remove(outPath)
	var res []string
	spawned := 0
	for len(res) < len(pend) {
		// hard limits: 16 GiB address space (ulimit -v in the launching shell AND setrlimit in the child),
		// 120 s wall clock per child (killed on expiry: counted as a dead child for the current input)
		ctx, cancel := context.WithTimeout(context.Background(), 120*time.Second)
		cmd := exec.CommandContext(ctx, "/bin/sh", "-c", `ulimit -v 16777216; exec "$0" "$@"`,
			os.Args[0], "-test.run", "^TestVerifC41Child$", "-test.count", "1", "-test.timeout", "110s")
		cmd.Env = append(os.Environ(), "VERIF_C41_CHILD_IN="+inPath, "VERIF_C41_CHILD_OUT="+outPath,
			"VERIF_C41_CHILD_FROM="+strconv.Itoa(len(res)))
		msg, runErr := cmd.CombinedOutput()
		cancel()
		if spawned++; spawned > len(pend)+8 {
			t.Fatalf("too many child processes")
		}
		raw, _ := os.ReadFile(outPath)
		lines := strings.Split(strings.TrimSpace(string(raw)), "\n")
		if len(raw) == 0 {
			lines = nil
		}
		progressed := len(lines) > len(res)
		res = lines
		if len(res) >= len(pend) {
			break
		}
		if runErr == nil && !progressed {
			t.Fatalf("child made no progress: %s", msg)
		}
		if runErr != nil {
			// the child died while decoding input number len(res)
			first := strings.SplitN(strings.TrimSpace(string(msg)), "\n", 2)[0]
			term := "(panic #" + vHex([]byte("child process died: "+first)) + ")"
			f, _ := os.OpenFile(outPath, os.O_APPEND|os.O_CREATE|os.O_WRONLY, 0644)
			f.WriteString(term + "\n")
			f.Close()
			res = append(res, term)
		}
	}
	return res
}

// ------------------------------------------------------------------------------------------
// recursion points: a called type that (transitively, through any struct / slice / map / pointer
// level) contains itself.  For every such cycle and EVERY combination of struct-from-map /
// struct-from-array encodings of the struct levels on the cycle, the cycle is unrolled d times around a
// smallest valid leaf: nesting in the form the honest encoder writes and in the positional forms that
// only the lenient decoder accepts.
// ------------------------------------------------------------------------------------------

type vStep struct {
	kind byte // 'e' slice/array element, 'm' map value, 'f' struct field, 'r' called type, 'p' pointer
	s    *vSch
	f    *vField
	key  []byte
	n    *vNamed
}

func (st vStep) wrap(arrForm bool, in []byte) []byte {
	switch st.kind {
	case 'e':
		return append([]byte{0x91}, in...)
	case 'm':
		return append(append([]byte{0x81}, st.key...), in...)
	case 'f':
		if arrForm {
			return vStructArr(st.s, st.f, in, 0)
		}
		return vStructMap(st.s, st.f, in, 0)
	}
	return in
}

type vCycle struct {
	name   string
	prefix []vStep // root body .. first occurrence of the recursive type (map form)
	turn   []vStep // body of the recursive type .. its next occurrence
	leaf   []byte
}

// named types from which a recursive named type (one that contains itself) can be reached
func vRecursionInfo(all []*vNamed) (canReach map[*vNamed]bool) {
	succ := map[*vNamed]map[*vNamed]bool{}
	var refs func(s *vSch, acc map[*vNamed]bool)
	refs = func(s *vSch, acc map[*vNamed]bool) {
		switch s.K {
		case kSlice, kArray, kPtr:
			refs(s.Elem, acc)
		case kMap:
			refs(s.Key, acc)
			refs(s.Val, acc)
		case kStruct:
			for _, f := range s.Fld {
				refs(f.S, acc)
			}
		case kRef:
			if s.Ref.Special == "" {
				acc[s.Ref] = true
			}
		}
	}
	for _, n := range all {
		succ[n] = map[*vNamed]bool{}
		if n.Special == "" {
			refs(n.Body, succ[n])
		}
	}
	reach := func(from *vNamed) map[*vNamed]bool {
		seen := map[*vNamed]bool{}
		var go1 func(n *vNamed)
		go1 = func(n *vNamed) {
			for m := range succ[n] {
				if !seen[m] {
					seen[m] = true
					go1(m)
				}
			}
		}
		go1(from)
		return seen
	}
	rec := map[*vNamed]bool{}
	rs := map[*vNamed]map[*vNamed]bool{}
	for _, n := range all {
		rs[n] = reach(n)
		if rs[n][n] {
			rec[n] = true
		}
	}
	canReach = map[*vNamed]bool{}
	for _, n := range all {
		if rec[n] {
			canReach[n] = true
		}
		for m := range rs[n] {
			if rec[m] {
				canReach[n] = true
			}
		}
	}
	return canReach
}

func vFindCycles(s *vSch, name string, path []vStep, stack []*vNamed, stackAt []int, canReach map[*vNamed]bool, out *[]vCycle) {
	if len(path) > 80 || len(*out) > 40 {
		return
	}
	ext := func(st vStep) []vStep { return append(append([]vStep(nil), path...), st) }
	switch s.K {
	case kSlice:
		if s.Bound != 0 {
			vFindCycles(s.Elem, name+"[]", ext(vStep{kind: 'e'}), stack, stackAt, canReach, out)
		}
	case kArray:
		if s.N > 0 {
			vFindCycles(s.Elem, name+"[0]", ext(vStep{kind: 'e'}), stack, stackAt, canReach, out)
		}
	case kMap:
		if k, ok := vKeyEnc(s.Key, 0); ok && s.Bound != 0 {
			vFindCycles(s.Val, name+"{}", ext(vStep{kind: 'm', key: k}), stack, stackAt, canReach, out)
		}
	case kPtr:
		vFindCycles(s.Elem, name, ext(vStep{kind: 'p'}), stack, stackAt, canReach, out)
	case kStruct:
		for _, f := range s.Fld {
			vFindCycles(f.S, name+"."+f.Name, ext(vStep{kind: 'f', s: s, f: f}), stack, stackAt, canReach, out)
		}
	case kRef:
		if s.Ref.Special != "" || !canReach[s.Ref] {
			return
		}
		for i, n := range stack {
			if n == s.Ref {
				*out = append(*out, vCycle{name: name + ">" + s.Ref.Name, prefix: path[:stackAt[i]], turn: append([]vStep(nil), path[stackAt[i]:]...),
					leaf: vValidEnc(s, 0)})
				return
			}
		}
		vFindCycles(s.Ref.Body, name+">"+s.Ref.Name, ext(vStep{kind: 'r', n: s.Ref}),
			append(append([]*vNamed(nil), stack...), s.Ref), append(append([]int(nil), stackAt...), len(path)+1), canReach, out)
	}
}

// the cycle unrolled d times; bit k of forms = struct level k of one turn is written as an array
func (c vCycle) nest(d int, forms int) []byte {
	var structIdx []int
	for i, st := range c.turn {
		if st.kind == 'f' {
			structIdx = append(structIdx, i)
		}
	}
	arr := map[int]bool{}
	for k, i := range structIdx {
		if forms&(1<<uint(k)) != 0 {
			arr[i] = true
		}
	}
	cur := c.leaf
	for l := 0; l < d; l++ {
		for i := len(c.turn) - 1; i >= 0; i-- {
			cur = c.turn[i].wrap(arr[i], cur)
		}
	}
	for i := len(c.prefix) - 1; i >= 0; i-- {
		cur = c.prefix[i].wrap(false, cur)
	}
	return cur
}

func (c vCycle) structLevels() int {
	k := 0
	for _, st := range c.turn {
		if st.kind == 'f' {
			k++
		}
	}
	return k
}

func TestVerifC41(t *testing.T) {
	walker, roots, tmpls := vHarnessWalker(t)
	r := vNewRand(0xC41)
	rand.Seed(int64(r.U64() >> 1))
	bases := vEnvInt("VERIF_C41_BASES", 2)
	laxPer := vEnvInt("VERIF_C41_LAX", 4)
	budget := vEnvInt("VERIF_C41_BUDGET", 150000)
	maxSites := vEnvInt("VERIF_C41_SITES", 40)
	out := vOpen("cases_c41.txt")
	defer out.Close()
	kinds := map[string]int{}
	outcomes := map[string]int{}
	lax := &vLax{r: r, uses: map[string]int{}}
	total := 0
	var siteStats, nestStats map[string]interface{}
	unsafeRoot := map[*vNamed]int{}
	for i, n := range roots {
		if vHasUnbounded(n.Body, map[*vNamed]bool{n: true}) {
			unsafeRoot[n] = i
		}
	}
	var pending []vPending
	emitFor := func(n *vNamed, tmpl vCodec) func(kind string, b []byte) {
		return func(kind string, b []byte) {
			if ri, bad := unsafeRoot[n]; bad {
				pending = append(pending, vPending{ri, kind, append([]byte(nil), b...)})
				return
			}
			o := vDecode(tmpl, b)
			switch {
			case o.panic != "":
				outcomes["panic"]++
			case o.ok:
				outcomes["ok"]++
			default:
				outcomes["err"]++
			}
			kinds[kind]++
			total++
			out.Line("(dec " + n.Name + " #" + vHex(b) + " " + vOutTerm(n, o) + " " + strings.ReplaceAll(kind, "-", "_") + ")")
		}
	}
	for i, n := range roots {
		emit := emitFor(n, tmpls[i])
		for k := 0; k < bases; k++ {
			var obj vCodec
			var e []byte
			for try := 0; try < 8; try++ { // prefer decodable instances as mutation bases
				o, err := vRandomObj(tmpls[i], r)
				if err != nil {
					t.Fatal(err)
				}
				obj, e = o, protocol.Encode(o)
				if vDecode(tmpls[i], e).ok {
					break
				}
			}
			emit("canonical", e)
			vMutations(r, e, emit)
			ov := reflect.ValueOf(obj).Elem()
			for j := 0; j < laxPer; j++ {
				lax.p = []int{5, 20, 50, 90}[j%4]
				lax.b = nil
				lax.val(n.Body, ov)
				le := append([]byte(nil), lax.b...)
				emit("lax", le)
				if j == 0 {
					vMutations(r, le, func(kind string, b []byte) {
						if r.Intn(3) == 0 {
							emit("lax+"+kind, b)
						}
					})
				}
			}
			// declared bounds: exactly at the bound and one above, at EVERY bounded site of the instance
			// that fits the size budget (at most maxSites per instance, random choice beyond that)
			var sites []vSite
			vSites(n.Body, ov, &sites)
			order := make([]int, len(sites))
			for j := range order {
				order[j] = j
			}
			for j := len(order) - 1; j > 0; j-- {
				q := r.Intn(j + 1)
				order[j], order[q] = order[q], order[j]
			}
			if len(order) > maxSites {
				order = order[:maxSites]
			}
			for _, j := range order {
				for _, d := range []int{0, 1} {
					// work on a fresh copy of the instance so that sites do not interfere
					cp := vFresh(tmpls[i])
					if err := protocol.Decode(e, cp); err != nil {
						break
					}
					var cs []vSite
					vSites(n.Body, reflect.ValueOf(cp).Elem(), &cs)
					if j >= len(cs) {
						break
					}
					if vResize(cs[j], int(cs[j].s.Bound)+d, budget) {
						emit([]string{"at-bound", "over-bound"}[d], protocol.Encode(cp))
					}
				}
			}
		}
	}
	// every allocbound site of every schema: exactly bound / bound+1 well-formed minimal elements, and
	// the header alone; every struct level of the owning method in its map and its array branch
	{
		siteMax := vEnvInt("VERIF_C41_SITEBYTES", 4000000)
		done := map[*vNamed]bool{}
		nSites, nAccepted := 0, 0
		var skipped, rejected []string
		for i, n := range roots {
			emit := emitFor(n, tmpls[i])
			var bs []vBoundSite
			if !done[n] {
				done[n] = true
				vEnumSites(n.Body, n.Name, func(in []byte) []byte { return in }, done, 0, &bs)
			}
			for _, st := range bs {
				nSites++
				bound := int(st.s.Bound)
				at := vCollection(st.s, bound, siteMax)
				over := vCollection(st.s, bound+1, siteMax)
				if at == nil || over == nil {
					skipped = append(skipped, st.name)
				} else {
					in := st.wrap(at)
					if vDecode(tmpls[i], in).ok {
						nAccepted++
					} else {
						rejected = append(rejected, st.name)
					}
					emit("site-at-bound", in)
					emit("site-over-bound", st.wrap(over))
				}
				emit("site-header-only", st.wrap(vHeaderOnly(st.s, bound+1)))
			}
		}
		siteStats = map[string]interface{}{"sites": nSites, "at_bound_accepted": nAccepted,
			"at_bound_rejected_for_other_reasons": rejected, "skipped_too_large_or_unbuildable": skipped}
	}
	// random byte strings
	for i, n := range roots {
		emit := emitFor(n, tmpls[i])
		for k := 0; k < 6; k++ {
			b := r.Bytes(1 + r.Intn(40))
			if k%2 == 0 {
				b[0] = 0x80 | byte(r.Intn(16))
			}
			emit("random", b)
		}
		emit("empty", nil)
		emit("nil", []byte{0xc0})
	}
	// deep nesting through the recursive type SignedTxnWithAD -> EvalDelta -> []SignedTxnWithAD
	for i, n := range roots {
		emit := emitFor(n, tmpls[i])
		switch n.Name {
		case "transactions.SignedTxnWithAD", "transactions.EvalDelta", "transactions.ApplyData", "transactions.SignedTxnInBlock", "bookkeeping.Block":
			depths := []int{1, 2, 10, 60, 100, 120, 124, 125, 126, 127, 128, 129, 130, 140, 200, 400}
			if vTier() == "thorough" {
				for d := 110; d <= 135; d++ {
					depths = append(depths, d)
				}
				depths = append(depths, 1000, 5000)
			}
			for _, d := range depths {
				inner := vNested(d)
				var obj vCodec
				switch n.Name {
				case "transactions.SignedTxnWithAD":
					obj = &inner
				case "transactions.EvalDelta":
					obj = &inner.ApplyData.EvalDelta
				case "transactions.ApplyData":
					obj = &inner.ApplyData
				case "transactions.SignedTxnInBlock":
					obj = &transactions.SignedTxnInBlock{SignedTxnWithAD: inner}
				case "bookkeeping.Block":
					obj = &bookkeeping.Block{Payset: transactions.Payset{transactions.SignedTxnInBlock{SignedTxnWithAD: inner}}}
				}
				emit("deep-nesting", protocol.Encode(obj))
			}
			// raw nesting of array / map headers
			for _, d := range []int{50, 300, 3000} {
				emit("deep-raw", bytes.Repeat([]byte{0x91}, d))
				emit("deep-raw", bytes.Repeat([]byte{0x81, 0xa2, 'd', 't'}, d))
			}
		}
	}
	// recursion points of the schemas, unrolled in every map / positional form combination
	{
		canReach := vRecursionInfo(walker.order)
		nCycles, nCases := 0, 0
		var cycNames []string
		for i, n := range roots {
			if !canReach[n] {
				continue
			}
			emit := emitFor(n, tmpls[i])
			var cycles []vCycle
			vFindCycles(n.Body, n.Name, nil, []*vNamed{n}, []int{0}, canReach, &cycles)
			for _, c := range cycles {
				nCycles++
				cycNames = append(cycNames, c.name)
				depths := []int{1, 2, 5, 60, 120, 124, 125, 126, 127, 128, 129, 130, 140, 300}
				switch n.Name {
				case "transactions.SignedTxnWithAD", "transactions.SignedTxnInBlock", "transactions.EvalDelta":
					depths = append(depths, 5000)
				}
				for forms := 0; forms < 1<<uint(c.structLevels()); forms++ {
					for _, d := range depths {
						kind := "nest-map-form"
						if forms != 0 {
							kind = "nest-positional-form"
						}
						emit(kind, c.nest(d, forms))
						nCases++
					}
				}
			}
		}
		nestStats = map[string]interface{}{"cycles": nCycles, "cases": nCases, "paths": cycNames}
	}
	// a struct map key given twice: the second map is merged into the first (go-codec compatible
	// behaviour of the generated code); bookkeeping.BlockHeader.StateProofTracking has allocbound 1
	for i, n := range roots {
		if n.Name != "bookkeeping.BlockHeader" {
			continue
		}
		emit := emitFor(n, tmpls[i])
		var h1, h2 bookkeeping.BlockHeader
		h1.StateProofTracking = map[protocol.StateProofType]bookkeeping.StateProofTrackingData{0: {StateProofNextRound: 7}}
		h2.StateProofTracking = map[protocol.StateProofType]bookkeeping.StateProofTrackingData{1: {StateProofNextRound: 9}}
		e1, e2 := protocol.Encode(&h1), protocol.Encode(&h2)
		if len(e1) > 1 && len(e2) > 1 && e1[0] == 0x81 && e2[0] == 0x81 {
			emit("dup-key-merge", append(append([]byte{0x82}, e1[1:]...), e2[1:]...))
		}
	}
	// the witness of the unbounded-length finding: {"l": array32 header 2^31-1} for trackerdb.TxTailRound
	for n, ri := range unsafeRoot {
		if n.Name == "trackerdb.TxTailRound" {
			pending = append(pending, vPending{ri, "unbounded-length-prefix", []byte{0x81, 0xa1, 'l', 0xdd, 0x7f, 0xff, 0xff, 0xff}})
		}
	}
	if len(pending) > 0 {
		res := vRunChildren(t, pending)
		for i, p := range pending {
			switch {
			case strings.HasPrefix(res[i], "(panic"):
				outcomes["panic"]++
			case strings.HasPrefix(res[i], "(ok"):
				outcomes["ok"]++
			default:
				outcomes["err"]++
			}
			kinds[p.kind]++
			total++
			out.Line("(dec " + roots[p.root].Name + " #" + vHex(p.in) + " " + res[i] + " " + strings.ReplaceAll(strings.ReplaceAll(p.kind, "-", "_"), "+", "_") + ")")
		}
	}
	var unsafeNames []string
	for n := range unsafeRoot {
		unsafeNames = append(unsafeNames, n.Name)
	}
	sort.Strings(unsafeNames)
	st := map[string]interface{}{"kinds": kinds, "outcomes": outcomes, "total": total, "lax_choices": lax.uses, "allocbound_sites": siteStats, "recursion_nesting": nestStats,
		"roots_decoded_in_child_process": unsafeNames}
	vStats(st)
	if outcomes["panic"] > 0 {
		t.Logf("C41: %d inputs made a panic escape protocol.Decode", outcomes["panic"])
	}
}

// d levels of inner transactions, each a minimal well-formed payment
func vNested(d int) transactions.SignedTxnWithAD {
	var cur transactions.SignedTxnWithAD
	mk := func() transactions.SignedTxnWithAD {
		var s transactions.SignedTxnWithAD
		s.Txn.Type = protocol.PaymentTx
		s.Txn.Sender = basics.Address{1}
		return s
	}
	cur = mk()
	for i := 1; i < d; i++ {
		outer := mk()
		outer.ApplyData.EvalDelta.InnerTxns = []transactions.SignedTxnWithAD{cur}
		cur = outer
	}
	return cur
}
