//go:build verif

package agreement

// C40 / C41 verification harness and schema translator (overlay-only, never part of /repo).
//
//  * vWalker turns reflect.Type + `codec:"..."` tags (+ //msgp:allocbound directives and the
//    run-time values of the allocbound expressions, see util/verifbounds) of the root types
//    below into the schema language of coq/model/Msgpack.v.  TestVerifC40Gen prints
//    coq/gen/Schemas.v from it (deterministic output).
//  * TestVerifC40 produces random instances with the repository's own
//    protocol.RandomizeObject, encodes them with protocol.Encode (msgp) and
//    protocol.EncodeReflect (go-codec), decodes/re-encodes, and emits
//    (schema id, value tree, bytes ...) cases.
//  * TestVerifC41 feeds canonical / mutated / truncated / oversized / deeply nested byte
//    strings to protocol.Decode and emits outcome class + decoded value tree.

import (
	"bytes"
	"encoding/json"
	"fmt"
	"go/ast"
	"go/parser"
	"go/token"
	"math/rand"
	"os"
	"path"
	"path/filepath"
	"reflect"
	"sort"
	"strconv"
	"strings"
	"testing"

	"github.com/algorand/msgp/msgp"

	"github.com/algorand/go-algorand/crypto"
	"github.com/algorand/go-algorand/crypto/merklearray"
	"github.com/algorand/go-algorand/crypto/merklesignature"
	"github.com/algorand/go-algorand/crypto/stateproof"
	"github.com/algorand/go-algorand/data/basics"
	"github.com/algorand/go-algorand/data/bookkeeping"
	"github.com/algorand/go-algorand/data/committee"
	"github.com/algorand/go-algorand/data/stateproofmsg"
	"github.com/algorand/go-algorand/data/transactions"
	"github.com/algorand/go-algorand/ledger/encoded"
	"github.com/algorand/go-algorand/ledger/ledgercore"
	"github.com/algorand/go-algorand/ledger/store/trackerdb"
	"github.com/algorand/go-algorand/protocol"
	"github.com/algorand/go-algorand/util/verifbounds"
)

// ------------------------------------------------------------------------------------------
// root types (consensus / network / disk facing)
// ------------------------------------------------------------------------------------------

type vCodec interface {
	msgp.Marshaler
	msgp.Unmarshaler
}

func vRoots() []vCodec {
	return []vCodec{
		// transactions
		&transactions.SignedTxn{}, &transactions.Transaction{}, &transactions.SignedTxnInBlock{},
		&transactions.SignedTxnWithAD{}, &transactions.ApplyData{}, &transactions.EvalDelta{},
		&transactions.LogicSig{}, &transactions.Payset{},
		// blocks
		&bookkeeping.BlockHeader{}, &bookkeeping.Block{}, &bookkeeping.LightBlockHeader{},
		// agreement wire types
		&vote{}, &unauthenticatedVote{}, &rawVote{}, &equivocationVote{}, &unauthenticatedEquivocationVote{},
		&bundle{}, &unauthenticatedBundle{}, &proposal{}, &unauthenticatedProposal{}, &transmittedPayload{},
		&proposalValue{}, &Certificate{},
		// accounts / ledger / catchpoint records
		&basics.AccountData{}, &basics.BalanceRecord{}, &basics.AssetParams{}, &basics.AppParams{},
		&basics.AppLocalState{}, &basics.TealKeyValue{}, &basics.StateDelta{},
		&ledgercore.AccountTotals{}, &ledgercore.OnlineRoundParamsData{}, &ledgercore.StateProofVerificationContext{},
		&trackerdb.BaseAccountData{}, &trackerdb.BaseOnlineAccountData{}, &trackerdb.ResourcesData{},
		&trackerdb.TxTailRound{}, &trackerdb.CatchpointFirstStageInfo{},
		&encoded.KVRecordV6{}, // the other ledger/encoded records carry msgp.Raw payloads (their payload types are roots above)
		// crypto
		&crypto.OneTimeSignature{}, &crypto.MultisigSig{}, &crypto.Signature{}, &crypto.VrfProof{}, &crypto.Digest{},
		&crypto.HeartbeatProof{}, &crypto.OneTimeSignatureVerifier{},
		&committee.Credential{}, &committee.UnauthenticatedCredential{},
		// state proofs
		&stateproof.StateProof{}, &merklearray.Proof{}, &merklearray.SingleLeafProof{}, &merklesignature.Signature{},
		&merklesignature.Verifier{}, &stateproofmsg.Message{},
	}
}

// ------------------------------------------------------------------------------------------
// schema
// ------------------------------------------------------------------------------------------

type vKind int

const (
	kUint vKind = iota
	kInt
	kBool
	kBytes
	kString
	kFixBytes
	kArray
	kSlice
	kMap
	kStruct
	kRef
	kPtr
)

type vSch struct {
	K     vKind
	Max   uint64 // kUint: largest admissible value
	Bits  int    // kInt
	N     int    // kArray / kFixBytes
	Bound int64  // kBytes kString kSlice kMap: declared allocbound, -1 = none
	Elem  *vSch  // kArray kSlice kPtr
	Key   *vSch
	Val   *vSch
	Fld   []*vField // kStruct, sorted by codec name
	Ref   *vNamed
	T     reflect.Type
}

type vField struct {
	Name  string
	Index []int // reflect index path (through flattened embedded structs)
	Decl  int   // position in declaration order (struct-from-array decoding)
	Req   bool
	OE    bool // omitted when zero
	S     *vSch
}

type vNamed struct {
	ID      int
	Name    string
	T       reflect.Type
	Body    *vSch
	Special string
	busy    bool
}

type vWalker struct {
	named   map[reflect.Type]*vNamed
	order   []*vNamed
	calls   map[reflect.Type]map[reflect.Type]bool
	byName  map[string]reflect.Type
	seenT   map[reflect.Type]bool
	boundOf func(pkg, expr string) (int64, error)
	dirOf   func(pkg, typ string) (string, bool)
	errs    []string
	used    map[string]int64 // pkg|expr -> value (side table)
}

var vUnmarshalerT = reflect.TypeOf((*msgp.Unmarshaler)(nil)).Elem()
var vMicroAlgosT = reflect.TypeOf(basics.MicroAlgos{})
var vHashTypeT = reflect.TypeOf(crypto.HashType(0))
var vRawT = reflect.TypeOf(msgp.Raw(nil))

func vHasMethods(t reflect.Type) bool {
	return t.Name() != "" && t.PkgPath() != "" && reflect.PointerTo(t).Implements(vUnmarshalerT)
}

func vShort(t reflect.Type) string { return path.Base(t.PkgPath()) + "." + t.Name() }

func (w *vWalker) errf(f string, a ...interface{}) {
	w.errs = append(w.errs, fmt.Sprintf(f, a...))
}

// called named type: own UnmarshalMsgWithState (one unit of AllowableDepth per call)
func (w *vWalker) ref(t reflect.Type) *vNamed {
	if n, ok := w.named[t]; ok {
		return n
	}
	n := &vNamed{ID: len(w.order), Name: vShort(t), T: t}
	w.named[t] = n
	w.order = append(w.order, n)
	if t == vMicroAlgosT {
		// hand-written codec (data/basics/units.go): encoded as the bare uint64 Raw
		n.Special = "microalgos"
		n.Body = &vSch{K: kUint, Max: ^uint64(0), T: reflect.TypeOf(uint64(0))}
		return n
	}
	n.busy = true
	n.Body = w.structural(t, t, "", "")
	n.busy = false
	return n
}

// Which named types does the generated UnmarshalMsgWithState of `owner` CALL (one unit of
// AllowableDepth each), and which did the msgp generator inline?  The generator's inlining pass
// (parse/inline.go: same package, complexity, processing order) is not re-implemented; instead the
// receivers of the `.UnmarshalMsgWithState(bts, st)` calls in the generated function are read from
// <pkg>/msgp_gen.go (go/parser) and typed by reflection.  Every run validates the result: the
// harness measures the least accepted AllowableDepth of every instance against the model's [need].
type vGenFile struct {
	funcs map[string]*ast.FuncDecl // receiver type name -> UnmarshalMsgWithState
}

var vGenFiles = map[string]*vGenFile{}

func vModuleRoot() string {
	dir, _ := os.Getwd()
	for {
		if _, err := os.Stat(filepath.Join(dir, "go.mod")); err == nil {
			return dir
		}
		parent := filepath.Dir(dir)
		if parent == dir {
			return ""
		}
		dir = parent
	}
}

const vModulePath = "github.com/algorand/go-algorand"

func vGenFileOf(pkg string) *vGenFile {
	if g, ok := vGenFiles[pkg]; ok {
		return g
	}
	g := &vGenFile{funcs: map[string]*ast.FuncDecl{}}
	vGenFiles[pkg] = g
	rel, ok := strings.CutPrefix(pkg, vModulePath+"/")
	if !ok {
		return g
	}
	f, err := parser.ParseFile(token.NewFileSet(), filepath.Join(vModuleRoot(), filepath.FromSlash(rel), "msgp_gen.go"), nil, 0)
	if err != nil {
		return g
	}
	for _, d := range f.Decls {
		fd, ok := d.(*ast.FuncDecl)
		if !ok || fd.Name.Name != "UnmarshalMsgWithState" || fd.Recv == nil || len(fd.Recv.List) != 1 {
			continue
		}
		if st, ok := fd.Recv.List[0].Type.(*ast.StarExpr); ok {
			if id, ok := st.X.(*ast.Ident); ok {
				g.funcs[id.Name] = fd
			}
		}
	}
	return g
}

// all named types structurally reachable from t (for resolving type names in declarations)
func (w *vWalker) collectNames(t reflect.Type) {
	if w.seenT[t] {
		return
	}
	w.seenT[t] = true
	if t.Name() != "" && t.PkgPath() != "" {
		w.byName[t.PkgPath()+"."+t.Name()] = t
	}
	switch t.Kind() {
	case reflect.Slice, reflect.Array, reflect.Ptr:
		w.collectNames(t.Elem())
	case reflect.Map:
		w.collectNames(t.Key())
		w.collectNames(t.Elem())
	case reflect.Struct:
		for i := 0; i < t.NumField(); i++ {
			w.collectNames(t.Field(i).Type)
		}
	}
}

var vBasic = map[string]reflect.Type{
	"uint8": reflect.TypeOf(uint8(0)), "byte": reflect.TypeOf(uint8(0)), "uint16": reflect.TypeOf(uint16(0)),
	"uint32": reflect.TypeOf(uint32(0)), "uint64": reflect.TypeOf(uint64(0)), "uint": reflect.TypeOf(uint(0)),
	"int8": reflect.TypeOf(int8(0)), "int16": reflect.TypeOf(int16(0)), "int32": reflect.TypeOf(int32(0)),
	"int64": reflect.TypeOf(int64(0)), "int": reflect.TypeOf(int(0)), "bool": reflect.TypeOf(false),
	"string": reflect.TypeOf(""),
}

// type expression of a `var zbNNNN T` declaration inside package pkg -> reflect.Type
func (w *vWalker) typeOfExpr(e ast.Expr, pkg string, imports map[string]string) reflect.Type {
	switch x := e.(type) {
	case *ast.Ident:
		if t, ok := vBasic[x.Name]; ok {
			return t
		}
		return w.byName[pkg+"."+x.Name]
	case *ast.SelectorExpr:
		if q, ok := x.X.(*ast.Ident); ok {
			for full, t := range w.byName {
				if strings.HasSuffix(full, "/"+q.Name+"."+x.Sel.Name) || full == q.Name+"."+x.Sel.Name {
					return t
				}
			}
		}
	case *ast.StarExpr:
		if t := w.typeOfExpr(x.X, pkg, imports); t != nil {
			return reflect.PointerTo(t)
		}
	case *ast.ArrayType:
		el := w.typeOfExpr(x.Elt, pkg, imports)
		if el == nil {
			return nil
		}
		if x.Len == nil {
			return reflect.SliceOf(el)
		}
		if lit, ok := x.Len.(*ast.BasicLit); ok {
			if n, err := strconv.Atoi(lit.Value); err == nil {
				return reflect.ArrayOf(n, el)
			}
		}
	case *ast.MapType:
		k, v := w.typeOfExpr(x.Key, pkg, imports), w.typeOfExpr(x.Value, pkg, imports)
		if k != nil && v != nil {
			return reflect.MapOf(k, v)
		}
	}
	return nil
}

func (w *vWalker) called(owner reflect.Type) map[reflect.Type]bool {
	if c, ok := w.calls[owner]; ok {
		return c
	}
	c := map[reflect.Type]bool{}
	w.calls[owner] = c
	fd := vGenFileOf(owner.PkgPath()).funcs[owner.Name()]
	if fd == nil {
		if owner != vMicroAlgosT {
			w.errf("no generated UnmarshalMsgWithState found for %s", owner)
		}
		return c
	}
	vars := map[string]ast.Expr{}
	ast.Inspect(fd.Body, func(n ast.Node) bool {
		if ds, ok := n.(*ast.DeclStmt); ok {
			if gd, ok := ds.Decl.(*ast.GenDecl); ok {
				for _, sp := range gd.Specs {
					if vs, ok := sp.(*ast.ValueSpec); ok && vs.Type != nil {
						for _, nm := range vs.Names {
							vars[nm.Name] = vs.Type
						}
					}
				}
			}
		}
		return true
	})
	var resolve func(e ast.Expr) reflect.Type
	resolve = func(e ast.Expr) reflect.Type {
		switch x := e.(type) {
		case *ast.ParenExpr:
			return resolve(x.X)
		case *ast.StarExpr:
			t := resolve(x.X)
			if t != nil && t.Kind() == reflect.Ptr {
				return t.Elem()
			}
			return t
		case *ast.Ident:
			if x.Name == "z" {
				return reflect.PointerTo(owner)
			}
			if te, ok := vars[x.Name]; ok {
				return w.typeOfExpr(te, owner.PkgPath(), nil)
			}
		case *ast.SelectorExpr:
			t := resolve(x.X)
			for t != nil && t.Kind() == reflect.Ptr {
				t = t.Elem()
			}
			if t != nil && t.Kind() == reflect.Struct {
				if f, ok := t.FieldByName(x.Sel.Name); ok {
					return f.Type
				}
			}
		case *ast.IndexExpr:
			t := resolve(x.X)
			for t != nil && t.Kind() == reflect.Ptr {
				t = t.Elem()
			}
			if t != nil && (t.Kind() == reflect.Slice || t.Kind() == reflect.Array || t.Kind() == reflect.Map) {
				return t.Elem()
			}
		}
		return nil
	}
	ast.Inspect(fd.Body, func(n ast.Node) bool {
		ce, ok := n.(*ast.CallExpr)
		if !ok {
			return true
		}
		sel, ok := ce.Fun.(*ast.SelectorExpr)
		if !ok || sel.Sel.Name != "UnmarshalMsgWithState" {
			return true
		}
		t := resolve(sel.X)
		for t != nil && t.Kind() == reflect.Ptr {
			t = t.Elem()
		}
		if t == nil {
			w.errf("cannot type the receiver of a call in %s.UnmarshalMsgWithState", owner)
			return true
		}
		c[t] = true
		return true
	})
	return c
}

// occurrence of type t inside the generated method of the named type `owner`
func (w *vWalker) expand(t reflect.Type, owner reflect.Type, tagBound, tagPkg string) *vSch {
	if t == vRawT {
		w.errf("msgp.Raw (untyped msgpack passthrough) is outside the schema language")
		return &vSch{K: kBool, T: t}
	}
	if t == vMicroAlgosT {
		return &vSch{K: kRef, Ref: w.ref(t), T: t}
	}
	if vHasMethods(t) {
		if w.called(owner)[t] {
			return &vSch{K: kRef, Ref: w.ref(t), T: t}
		}
		if t.PkgPath() != owner.PkgPath() {
			w.errf("%s (other package) is not called from %s.UnmarshalMsgWithState", t, owner)
		}
		return w.structural(t, owner, tagBound, tagPkg) // inlined by the generator
	}
	return w.structural(t, owner, tagBound, tagPkg)
}

func (w *vWalker) bound(t reflect.Type, tagBound, tagPkg string) (this int64, rest string, restPkg string) {
	expr, pkg := tagBound, tagPkg
	if expr == "" && t.Name() != "" {
		if d, ok := w.dirOf(t.PkgPath(), t.Name()); ok {
			expr, pkg = d, t.PkgPath()
		}
	}
	if expr == "" {
		return -1, "", ""
	}
	parts := strings.SplitN(expr, ",", 2)
	if len(parts) == 2 {
		rest, restPkg = parts[1], pkg
	}
	if parts[0] == "-" {
		return -1, rest, restPkg
	}
	if v, err := strconv.ParseInt(parts[0], 10, 64); err == nil {
		return v, rest, restPkg
	}
	v, err := w.boundOf(pkg, parts[0])
	if err != nil {
		w.errf("allocbound %q of %s (package %s): %v", parts[0], t, pkg, err)
		return -1, rest, restPkg
	}
	w.used[pkg+"|"+parts[0]] = v
	return v, rest, restPkg
}

func (w *vWalker) structural(t reflect.Type, owner reflect.Type, tagBound, tagPkg string) *vSch {
	s := &vSch{T: t, Bound: -1}
	switch t.Kind() {
	case reflect.Uint8, reflect.Uint16, reflect.Uint32, reflect.Uint64, reflect.Uint:
		s.K = kUint
		switch t.Kind() {
		case reflect.Uint8:
			s.Max = 1<<8 - 1
		case reflect.Uint16:
			s.Max = 1<<16 - 1
		case reflect.Uint32:
			s.Max = 1<<32 - 1
		default:
			s.Max = ^uint64(0)
		}
		if t == vHashTypeT {
			// crypto.HashFactory has //msgp:postunmarshalcheck Validate: HashType < MaxHashType
			s.Max = uint64(crypto.MaxHashType) - 1
		}
	case reflect.Int8, reflect.Int16, reflect.Int32, reflect.Int64, reflect.Int:
		s.K = kInt
		s.Bits = map[reflect.Kind]int{reflect.Int8: 8, reflect.Int16: 16, reflect.Int32: 32, reflect.Int64: 64, reflect.Int: 64}[t.Kind()]
	case reflect.Bool:
		s.K = kBool
	case reflect.String:
		s.K = kString
		s.Bound, _, _ = w.bound(t, tagBound, tagPkg)
	case reflect.Slice:
		b, rest, restPkg := w.bound(t, tagBound, tagPkg)
		s.Bound = b
		if t.Elem().Kind() == reflect.Uint8 && !vHasMethods(t.Elem()) {
			s.K = kBytes
		} else {
			s.K = kSlice
			s.Elem = w.expand(t.Elem(), owner, rest, restPkg)
		}
	case reflect.Array:
		s.N = t.Len()
		if t.Elem().Kind() == reflect.Uint8 && !vHasMethods(t.Elem()) {
			s.K = kFixBytes
		} else {
			s.K = kArray
			s.Elem = w.expand(t.Elem(), owner, "", "")
		}
	case reflect.Map:
		s.K = kMap
		s.Bound, _, _ = w.bound(t, tagBound, tagPkg)
		s.Key = w.expand(t.Key(), owner, "", "")
		s.Val = w.expand(t.Elem(), owner, "", "")
	case reflect.Ptr:
		s.K = kPtr
		s.Elem = w.expand(t.Elem(), owner, "", "")
	case reflect.Struct:
		s.K = kStruct
		var decl []*vField
		// after msgp's flattening of embedded structs the `_struct` annotations of the embedded
		// structs are fields of the outer struct as well: the options are the union
		sopts, has := vStructOpts(t)
		if !has {
			w.errf("struct %s has no _struct codec annotation", t)
		}
		w.fields(t, owner, nil, sopts, &decl)
		for i, f := range decl {
			f.Decl = i
		}
		s.Fld = append([]*vField(nil), decl...)
		sort.SliceStable(s.Fld, func(i, j int) bool { return s.Fld[i].Name < s.Fld[j].Name })
		for i := 1; i < len(s.Fld); i++ {
			if s.Fld[i].Name == s.Fld[i-1].Name {
				w.errf("duplicate codec name %q in %s", s.Fld[i].Name, t)
			}
		}
	default:
		w.errf("unsupported kind %s (%s)", t.Kind(), t)
		s.K = kBool
	}
	return s
}

func vTagParts(tag reflect.StructTag) (name string, opts []string, has bool) {
	v, ok := tag.Lookup("codec")
	if !ok {
		return "", nil, false
	}
	parts := strings.Split(v, ",")
	return parts[0], parts[1:], true
}

func vHasOpt(opts []string, o string) bool {
	for _, x := range opts {
		if x == o {
			return true
		}
	}
	return false
}

func vStructOpts(t reflect.Type) (opts []string, has bool) {
	for i := 0; i < t.NumField(); i++ {
		f := t.Field(i)
		if f.Name == "_struct" {
			_, o, _ := vTagParts(f.Tag)
			opts = append(opts, o...)
			has = true
		} else if name, _, _ := vTagParts(f.Tag); f.Anonymous && name == "" && f.Type.Kind() == reflect.Struct {
			o, h := vStructOpts(f.Type)
			opts = append(opts, o...)
			has = has || h
		}
	}
	return
}

func (w *vWalker) fields(t reflect.Type, owner reflect.Type, prefix []int, sopts []string, out *[]*vField) {
	for i := 0; i < t.NumField(); i++ {
		f := t.Field(i)
		if f.Name == "_struct" {
			continue
		}
		name, opts, _ := vTagParts(f.Tag)
		if name == "-" {
			continue
		}
		idx := append(append([]int(nil), prefix...), i)
		if f.Anonymous && name == "" {
			if f.Type.Kind() == reflect.Struct && !(f.Type == vMicroAlgosT) {
				w.fields(f.Type, owner, idx, sopts, out)
				continue
			}
			w.errf("unsupported embedded field %s in %s", f.Name, t)
			continue
		}
		if !f.IsExported() {
			continue
		}
		if name == "" {
			name = f.Name
		}
		ab := ""
		for _, o := range opts {
			if strings.HasPrefix(o, "allocbound=") {
				ab = strings.TrimPrefix(o, "allocbound=")
			}
		}
		fs := w.expand(f.Type, owner, ab, t.PkgPath())
		oeTag := "omitempty"
		if fs.K == kArray || fs.K == kFixBytes {
			oeTag = "omitemptyarray"
		}
		*out = append(*out, &vField{Name: name, Index: idx, Req: vHasOpt(opts, "required"),
			OE: vHasOpt(opts, oeTag) || vHasOpt(sopts, oeTag), S: fs})
	}
}

func vNewWalker(boundOf func(pkg, expr string) (int64, error), dirOf func(pkg, typ string) (string, bool)) *vWalker {
	w := &vWalker{named: map[reflect.Type]*vNamed{}, calls: map[reflect.Type]map[reflect.Type]bool{},
		byName: map[string]reflect.Type{}, seenT: map[reflect.Type]bool{},
		boundOf: boundOf, dirOf: dirOf, used: map[string]int64{}}
	for _, r := range vRoots() {
		w.collectNames(reflect.TypeOf(r).Elem())
	}
	return w
}

// ------------------------------------------------------------------------------------------
// translator: Coq output
// ------------------------------------------------------------------------------------------

func vCoqOpt(b int64) string {
	if b < 0 {
		return "None"
	}
	return fmt.Sprintf("(Some %d)", b)
}

func vCoqBytes(s string) string {
	var sb strings.Builder
	sb.WriteByte('[')
	for i := 0; i < len(s); i++ {
		if i > 0 {
			sb.WriteString("; ")
		}
		sb.WriteString(strconv.Itoa(int(s[i])))
	}
	sb.WriteByte(']')
	return sb.String()
}

func vCoqSchema(sb *strings.Builder, s *vSch, ind string) {
	switch s.K {
	case kUint:
		fmt.Fprintf(sb, "SUint %d", s.Max)
	case kInt:
		fmt.Fprintf(sb, "SInt %d", s.Bits)
	case kBool:
		sb.WriteString("SBool")
	case kBytes:
		fmt.Fprintf(sb, "SBytes %s", vCoqOpt(s.Bound))
	case kString:
		fmt.Fprintf(sb, "SString %s", vCoqOpt(s.Bound))
	case kFixBytes:
		fmt.Fprintf(sb, "SFixBytes %d", s.N)
	case kArray:
		fmt.Fprintf(sb, "SArray %d (", s.N)
		vCoqSchema(sb, s.Elem, ind)
		sb.WriteString(")")
	case kSlice:
		fmt.Fprintf(sb, "SSlice %s (", vCoqOpt(s.Bound))
		vCoqSchema(sb, s.Elem, ind)
		sb.WriteString(")")
	case kPtr:
		sb.WriteString("SPtr (")
		vCoqSchema(sb, s.Elem, ind)
		sb.WriteString(")")
	case kMap:
		fmt.Fprintf(sb, "SMap %s (", vCoqOpt(s.Bound))
		vCoqSchema(sb, s.Key, ind)
		sb.WriteString(") (")
		vCoqSchema(sb, s.Val, ind)
		sb.WriteString(")")
	case kRef:
		fmt.Fprintf(sb, "SRef %d (* %s *)", s.Ref.ID, s.Ref.Name)
	case kStruct:
		sb.WriteString("SStruct [")
		for i, f := range s.Fld {
			if i > 0 {
				sb.WriteString(";")
			}
			fmt.Fprintf(sb, "\n%s  (mkF %s (* %s *) %d %s %s, ", ind, vCoqBytes(f.Name), f.Name, f.Decl, vCoqBool(f.Req), vCoqBool(f.OE))
			vCoqSchema(sb, f.S, ind+"    ")
			sb.WriteString(")")
		}
		sb.WriteString("]")
	}
}

func vCoqBool(b bool) string {
	if b {
		return "true"
	}
	return "false"
}

func vRegistryBound(pkg, expr string) (int64, error) {
	if m, ok := verifbounds.Exprs[pkg]; ok {
		if f, ok := m[expr]; ok {
			return int64(f()), nil
		}
	}
	return 0, fmt.Errorf("expression not registered (verifbounds)")
}

func vRegistryDir(pkg, typ string) (string, bool) {
	if m, ok := verifbounds.Directives[pkg]; ok {
		d, ok := m[typ]
		return d, ok
	}
	return "", false
}

type vSide struct {
	Bounds     map[string]int64  `json:"bounds"`     // "pkg|expr" -> value
	Directives map[string]string `json:"directives"` // "pkg|Type" -> directive text
	MaxDepth   uint64            `json:"maxdepth"`
}

// TestVerifC40Gen is the translator: coq/gen/Schemas.v (+ JSON side table for the harness runs)
func TestVerifC40Gen(t *testing.T) {
	out := os.Getenv("VERIF_GEN_OUT")
	if out == "" {
		t.Skip("VERIF_GEN_OUT not set")
	}
	w := vNewWalker(vRegistryBound, vRegistryDir)
	var roots []*vNamed
	for _, r := range vRoots() {
		roots = append(roots, w.ref(reflect.TypeOf(r).Elem()))
	}
	if len(w.errs) > 0 {
		t.Fatalf("translator errors:\n%s", strings.Join(w.errs, "\n"))
	}
	var sb strings.Builder
	sb.WriteString("(* GENERATED by harness/go/agreement/zz_verif_c40_test.go:TestVerifC40Gen from the running code\n")
	sb.WriteString("   (reflect.Type + codec tags + run-time values of the allocbound expressions). Do not edit. *)\n")
	sb.WriteString("From Coq Require Import List NArith String.\nFrom Verif.model Require Import Msgpack.\nImport ListNotations.\nOpen Scope N_scope.\nOpen Scope string_scope.\n\n")
	fmt.Fprintf(&sb, "Definition max_depth : nat := %d.\n\n", msgp.DefaultUnmarshalState.AllowableDepth)
	for _, n := range w.order {
		fmt.Fprintf(&sb, "(* %d: %s *)\nDefinition s%d : schema :=\n  ", n.ID, n.Name, n.ID)
		vCoqSchema(&sb, n.Body, "  ")
		sb.WriteString(".\n\n")
	}
	sb.WriteString("Definition env : list schema := [")
	for i, n := range w.order {
		if i > 0 {
			sb.WriteString("; ")
		}
		fmt.Fprintf(&sb, "s%d", n.ID)
	}
	sb.WriteString("].\n\n")
	sb.WriteString("Definition names : list (string * N) := [")
	for i, n := range w.order {
		if i > 0 {
			sb.WriteString(";")
		}
		fmt.Fprintf(&sb, "\n  (%q, %d)", n.Name, n.ID)
	}
	sb.WriteString("].\n\n")
	sb.WriteString("Definition roots : list N := [")
	for i, n := range roots {
		if i > 0 {
			sb.WriteString("; ")
		}
		fmt.Fprintf(&sb, "%d", n.ID)
	}
	sb.WriteString("].\n")
	if err := os.WriteFile(out, []byte(sb.String()), 0644); err != nil {
		t.Fatal(err)
	}
	side := vSide{Bounds: map[string]int64{}, Directives: map[string]string{}, MaxDepth: msgp.DefaultUnmarshalState.AllowableDepth}
	for pkg, m := range verifbounds.Exprs {
		for e, f := range m {
			side.Bounds[pkg+"|"+e] = int64(f())
		}
	}
	for pkg, m := range verifbounds.Directives {
		for ty, d := range m {
			side.Directives[pkg+"|"+ty] = d
		}
	}
	js, _ := json.MarshalIndent(side, "", " ")
	if err := os.WriteFile(out+".json", js, 0644); err != nil {
		t.Fatal(err)
	}
	fmt.Printf("C40 translator: %d named types, %d roots\n", len(w.order), len(roots))
}

// walker for the harness runs: bounds from the side table written by the translator step
func vHarnessWalker(t *testing.T) (*vWalker, []*vNamed, []vCodec) {
	p := os.Getenv("VERIF_C40_SIDE")
	if p == "" {
		p = filepath.Join(os.Getenv("VERIF_OUT"), "..", "gen_Schemas.v.json")
	}
	raw, err := os.ReadFile(p)
	if err != nil {
		t.Fatalf("side table %s: %v (the gen step must run first)", p, err)
	}
	var side vSide
	if err := json.Unmarshal(raw, &side); err != nil {
		t.Fatal(err)
	}
	w := vNewWalker(func(pkg, expr string) (int64, error) {
		if v, ok := side.Bounds[pkg+"|"+expr]; ok {
			return v, nil
		}
		return 0, fmt.Errorf("not in side table")
	}, func(pkg, typ string) (string, bool) {
		d, ok := side.Directives[pkg+"|"+typ]
		return d, ok
	})
	var roots []*vNamed
	rs := vRoots()
	for _, r := range rs {
		roots = append(roots, w.ref(reflect.TypeOf(r).Elem()))
	}
	if len(w.errs) > 0 {
		t.Fatalf("walker errors:\n%s", strings.Join(w.errs, "\n"))
	}
	return w, roots, rs
}

// ------------------------------------------------------------------------------------------
// value trees
// ------------------------------------------------------------------------------------------

// vVal renders the Go value v (of the type described by s) as a term:
//   uint -> n | int -> (i z) | bool -> (b 0/1) | bytes/string/[n]byte -> #hex | nil slice/map/ptr/[]byte -> n
//   slice/array -> (l v...) | map -> (m (k v)...) sorted by key | struct -> (s v...) in codec-name order
//   called named type -> (r v) | non-nil pointer -> (p v)
func vVal(sb *strings.Builder, s *vSch, v reflect.Value) {
	switch s.K {
	case kUint:
		sb.WriteString(strconv.FormatUint(v.Uint(), 10))
	case kInt:
		sb.WriteString("(i ")
		sb.WriteString(strconv.FormatInt(v.Int(), 10))
		sb.WriteByte(')')
	case kBool:
		if v.Bool() {
			sb.WriteString("(b 1)")
		} else {
			sb.WriteString("(b 0)")
		}
	case kBytes:
		if v.IsNil() {
			sb.WriteByte('n')
		} else {
			sb.WriteByte('#')
			sb.WriteString(vHex(v.Bytes()))
		}
	case kString:
		sb.WriteByte('#')
		sb.WriteString(vHex([]byte(v.String())))
	case kFixBytes:
		b := make([]byte, v.Len())
		for i := range b {
			b[i] = byte(v.Index(i).Uint())
		}
		sb.WriteByte('#')
		sb.WriteString(vHex(b))
	case kArray:
		sb.WriteString("(l")
		for i := 0; i < v.Len(); i++ {
			sb.WriteByte(' ')
			vVal(sb, s.Elem, v.Index(i))
		}
		sb.WriteByte(')')
	case kSlice:
		if v.IsNil() {
			sb.WriteByte('n')
			return
		}
		sb.WriteString("(l")
		for i := 0; i < v.Len(); i++ {
			sb.WriteByte(' ')
			vVal(sb, s.Elem, v.Index(i))
		}
		sb.WriteByte(')')
	case kMap:
		if v.IsNil() {
			sb.WriteByte('n')
			return
		}
		keys := v.MapKeys()
		sort.Slice(keys, func(i, j int) bool { return vKeyLess(s.Key, keys[i], keys[j]) })
		sb.WriteString("(m")
		for _, k := range keys {
			sb.WriteString(" (")
			vVal(sb, s.Key, k)
			sb.WriteByte(' ')
			vVal(sb, s.Val, v.MapIndex(k))
			sb.WriteByte(')')
		}
		sb.WriteByte(')')
	case kStruct:
		sb.WriteString("(s")
		for _, f := range s.Fld {
			sb.WriteByte(' ')
			vVal(sb, f.S, v.FieldByIndex(f.Index))
		}
		sb.WriteByte(')')
	case kPtr:
		if v.IsNil() {
			sb.WriteByte('n')
			return
		}
		sb.WriteString("(p ")
		vVal(sb, s.Elem, v.Elem())
		sb.WriteByte(')')
	case kRef:
		sb.WriteString("(r ")
		if s.Ref.Special == "microalgos" {
			sb.WriteString(strconv.FormatUint(v.FieldByName("Raw").Uint(), 10))
		} else {
			vVal(sb, s.Ref.Body, v)
		}
		sb.WriteByte(')')
	}
}

const vHexDigits = "0123456789abcdef"

func vHex(b []byte) string {
	o := make([]byte, 2*len(b))
	for i, x := range b {
		o[2*i] = vHexDigits[x>>4]
		o[2*i+1] = vHexDigits[x&15]
	}
	return string(o)
}

func vKeyBytes(s *vSch, v reflect.Value) []byte {
	switch s.K {
	case kString:
		return []byte(v.String())
	case kFixBytes:
		b := make([]byte, v.Len())
		for i := range b {
			b[i] = byte(v.Index(i).Uint())
		}
		return b
	case kBytes:
		return v.Bytes()
	}
	return nil
}

func vKeyLess(s *vSch, a, b reflect.Value) bool {
	for s.K == kRef {
		if s.Ref.Special == "microalgos" {
			return a.FieldByName("Raw").Uint() < b.FieldByName("Raw").Uint()
		}
		s = s.Ref.Body
	}
	switch s.K {
	case kUint:
		return a.Uint() < b.Uint()
	case kInt:
		return a.Int() < b.Int()
	case kString, kFixBytes, kBytes:
		return bytes.Compare(vKeyBytes(s, a), vKeyBytes(s, b)) < 0
	}
	// other key kinds: order of the canonical encodings (not produced for the root types)
	return bytes.Compare(protocol.EncodeReflect(a.Interface()), protocol.EncodeReflect(b.Interface())) < 0
}

func vTree(n *vNamed, obj interface{}) string {
	var sb strings.Builder
	v := reflect.ValueOf(obj)
	for v.Kind() == reflect.Ptr {
		v = v.Elem()
	}
	sb.WriteString("(r ")
	if n.Special == "microalgos" {
		sb.WriteString(strconv.FormatUint(v.FieldByName("Raw").Uint(), 10))
	} else {
		vVal(&sb, n.Body, v)
	}
	sb.WriteByte(')')
	return sb.String()
}

// ------------------------------------------------------------------------------------------
// decoding with outcome classification
// ------------------------------------------------------------------------------------------

type vOutcome struct {
	ok    bool
	panic string
	obj   vCodec
}

func vFresh(tmpl vCodec) vCodec {
	return reflect.New(reflect.TypeOf(tmpl).Elem()).Interface().(vCodec)
}

// protocol.Decode with a guard of our own: a panic that escapes protocol.Decode is a violation
func vDecode(tmpl vCodec, b []byte) (out vOutcome) {
	obj := vFresh(tmpl)
	defer func() {
		if x := recover(); x != nil {
			out = vOutcome{panic: fmt.Sprint(x)}
		}
	}()
	err := protocol.Decode(b, obj)
	if err != nil {
		return vOutcome{}
	}
	return vOutcome{ok: true, obj: obj}
}

// smallest AllowableDepth with which the generated decoder accepts b (0 = none up to lim)
func vMinDepth(tmpl vCodec, b []byte, lim uint64) uint64 {
	for k := uint64(1); k <= lim; k++ {
		obj := vFresh(tmpl)
		if _, err := obj.UnmarshalMsgWithState(b, msgp.UnmarshalState{AllowableDepth: k}); err == nil {
			return k
		}
	}
	return 0
}

func vOutTerm(n *vNamed, o vOutcome) string {
	if o.panic != "" {
		return "(panic #" + vHex([]byte(o.panic)) + ")"
	}
	if !o.ok {
		return "(err)"
	}
	return "(ok " + vTree(n, o.obj) + " #" + vHex(protocol.Encode(o.obj)) + ")"
}

// ------------------------------------------------------------------------------------------
// TestVerifC40: random instances, both encoders, decode, re-encode
// ------------------------------------------------------------------------------------------

func vRandomObj(tmpl vCodec, r *vRand) (vCodec, error) {
	var opts []protocol.RandomizeObjectOption
	opts = append(opts, protocol.RandomizeObjectSilenceAllocWarnings())
	switch r.Intn(4) {
	case 0:
	case 1:
		opts = append(opts, protocol.RandomizeObjectWithZeroesEveryN(2+r.Intn(6)))
	case 2:
		opts = append(opts, protocol.RandomizeObjectWithAllUintSizes())
	case 3:
		opts = append(opts, protocol.RandomizeObjectWithAllUintSizes(), protocol.RandomizeObjectWithZeroesEveryN(2+r.Intn(10)),
			protocol.RandomizeObjectWithMaxCollectionLen(1+r.Intn(6)))
	}
	o, err := protocol.RandomizeObject(tmpl, opts...)
	if err != nil {
		return nil, err
	}
	return o.(vCodec), nil
}

func TestVerifC40(t *testing.T) {
	_, roots, tmpls := vHarnessWalker(t)
	r := vNewRand(0xC40)
	rand.Seed(int64(r.U64() >> 1)) // protocol.RandomizeObject draws from math/rand
	per := vEnvInt("VERIF_C40_N", 40)
	out := vOpen("cases_c40.txt")
	defer out.Close()
	stats := map[string]interface{}{}
	hist := map[string]int{}
	total := 0
	for i, n := range roots {
		for k := 0; k < per; k++ {
			obj, err := vRandomObj(tmpls[i], r)
			if err != nil {
				t.Fatalf("RandomizeObject %s: %v", n.Name, err)
			}
			vEmitEnc(out, n, tmpls[i], obj)
			total++
		}
		hist[n.Name] = per
	}
	// the pointer-to-zero-struct witness of Msgpack encoders_differ_refuted, replayed on the real encoders
	{
		var tx transactions.Transaction
		tx.Type = protocol.HeartbeatTx
		tx.HeartbeatTxnFields = &transactions.HeartbeatTxnFields{}
		for i, n := range roots {
			if n.Name == "transactions.Transaction" {
				vEmitEnc(out, n, tmpls[i], &tx)
				total++
			}
		}
	}
	stats["instances_per_type"] = hist
	stats["types"] = len(roots)
	stats["total"] = total
	vStats(stats)
}

func vEmitEnc(out *vOut, n *vNamed, tmpl vCodec, obj vCodec) {
	e1 := protocol.Encode(obj)
	e2 := protocol.EncodeReflect(obj)
	dec := vDecode(tmpl, e1)
	kmin := uint64(0)
	if dec.ok {
		kmin = vMinDepth(tmpl, e1, 64)
	}
	out.Line("(enc " + n.Name + " " + vTree(n, obj) + " #" + vHex(e1) + " #" + vHex(e2) + " " + vOutTerm(n, dec) + " " + strconv.FormatUint(kmin, 10) + ")")
}
