//go:build verif

package agreement

// Shared correspondence harness of the agreement state machine (DESIGN.md 4.A; C03, C07, later
// C01/C02/C05).  Compiled INTO the real package with `go test -tags verif -overlay`
// (checks/C03.py lists the files; reuse its _HARNESS dict from another checks/Cxx.py as C07.py does).
//
// INTERFACE (for other builders)
//   c := vsmNewCtx(version, vNewRand(salt))   one script context: protocol version, value/payload tables, PRNG
//   pv := c.newValue(round, origPeriod, origProposerId)      fresh proposal-value backed by a REAL payload
//   v, rank := c.mkVote(sender, r, p, step, pv)               verified vote (weight = c.weight(sender,r,p,step))
//   c.voteEvent(verified, v, rank, vsmMeta{...}, tail) / c.bundleEvent(verified, r, p, s, pv, senders, eqPairs, meta)
//   c.payloadEvent(verified, pv, meta) / c.timeoutEvent(fast, entropy, badProto, round)
//   c.roundInterruptionEvent(r) / c.checkpointEvent(r, p, s, err)
//                     each returns a vsmEvent{ev: the real event, term: its wire term, kind}
//   m := vsmNewMachine(version, round)        a real rootRouter + player built as service.mainLoop does for a fresh
//                     round; acts, panicClass, msg := m.submit(e.ev) = rootRouter.submitTop with recover();
//                     m.player() is the live *player
//   c.renderActions(acts) / c.renderState(m)  canonical rendering (wire format of coq/model/AgreementRender.v:
//                     r_action / r_state; Go maps printed with sorted keys)
//   c.runEvents(m, events, withDigest)        feed a list, collect observations (stops at the first panic)
//   vsmRestore(m, acts, reflect)              the real persistence.go encode/decode round trip -> new machine
//   c.attestVotes(nodeId, acts)               the votes a node with sender id nodeId casts for its attest actions
//                     (as voteVerified events to deliver to the other machines and to itself)
//   vsmGenerate(c, round0, n, scenario, prefix, stats) + (*vsmGen).caseLine(round0, maxForks)
//                     state-aware random script generator (zz_verif_sm_gen_test.go) and the case-line writer
//
// N MACHINES (C01/C02/C05): make one vsmCtx and N vsmMachine values for the same round; node i has sender
// id i+1.  A scheduler loop takes (node, event) pairs from its queues; after m[i].submit(e.ev) turn the
// actions into new events: attest -> c.attestVotes(i+1, acts) (deliver to every node incl. i, under the
// scheduler's drop/dup/reorder policy), assemble/repropose -> c.voteEvent(false, proposalVote, .., &pv) with a
// fresh c.newValue(round, period, i+1), verifyVote/verifyPayload/verifyBundle -> the matching *Verified event
// for the SAME node (see (*vsmGen).push for the conversion incl. TaskIndex), relay/broadcast -> already covered
// by delivering the original event to the other nodes.  Record per node the event list (terms) and replay each
// node's list through the model with check_sm / run (coq/model/AgreementCheck.v): a case line is
// (sm params round0 (event ...) ((actions digest) ...) end (fork ...)) with forks optional ("()").
// Crash/restore of node i = vsmRestore(m[i], lastPersistentActions, false).
//
// WIRE TERMS: value (id rnd oper oprop), bottom (0 0 0 0); vote (snd rnd per step value weight credRank);
// meta (err cancelled protoErr handleNil taskIndex); events (msg verified (vote V|bundle B|payload value) meta tail),
// (timeout fast entropy bad), (rint r), (ckpt r p s err); see AgreementRender.v for bundles/actions/state.
//
// Senders are addresses whose first 8 bytes are the big-endian sender id (so that
// bytes.Compare order = id order); a proposal-value is always backed by a real payload
// (block with the given round and a Branch derived from the value id), so value() is the real one.

import (
	"encoding/binary"
	"fmt"
	"os"
	"runtime/debug"
	"sort"
	"strings"
	"time"

	"github.com/sirupsen/logrus"

	"github.com/algorand/go-algorand/config"
	"github.com/algorand/go-algorand/crypto"
	"github.com/algorand/go-algorand/data/basics"
	"github.com/algorand/go-algorand/data/bookkeeping"
	"github.com/algorand/go-algorand/data/committee"
	"github.com/algorand/go-algorand/logging"
	"github.com/algorand/go-algorand/protocol"
	"github.com/algorand/go-algorand/util/timers"
)

// ---------------------------------------------------------------- senders / values

func vsmAddr(id uint64) (a basics.Address) {
	binary.BigEndian.PutUint64(a[:8], id)
	return
}

func vsmSnd(a basics.Address) uint64 { return binary.BigEndian.Uint64(a[:8]) }

type vsmValInfo struct {
	id  uint64
	rnd uint64
}

type vsmCtx struct {
	ver      protocol.ConsensusVersion
	proto    config.ConsensusParams
	vals     map[crypto.Digest]vsmValInfo
	payloads map[proposalValue]*proposal
	nextID   uint64
	rnd      *vRand
}

func vsmNewCtx(ver protocol.ConsensusVersion, rnd *vRand) *vsmCtx {
	return &vsmCtx{ver: ver, proto: config.Consensus[ver], vals: map[crypto.Digest]vsmValInfo{},
		payloads: map[proposalValue]*proposal{}, rnd: rnd}
}

// newValue makes a fresh proposal-value backed by a real payload
func (c *vsmCtx) newValue(rnd round, oper period, oprop uint64) proposalValue {
	c.nextID++
	id := c.nextID
	var seed [40]byte
	binary.BigEndian.PutUint64(seed[:8], id)
	copy(seed[8:], "verif-agreement-value")
	var up unauthenticatedProposal
	up.Block = bookkeeping.Block{BlockHeader: bookkeeping.BlockHeader{Round: rnd, Branch: bookkeeping.BlockHash(crypto.Hash(seed[:]))}}
	up.OriginalPeriod = oper
	up.OriginalProposer = vsmAddr(oprop)
	pv := up.value()
	c.vals[pv.BlockDigest] = vsmValInfo{id: id, rnd: uint64(rnd)}
	c.payloads[pv] = &proposal{unauthenticatedProposal: up}
	return pv
}

func (c *vsmCtx) tValue(pv proposalValue) []interface{} {
	if pv == bottom {
		return vL(0, 0, 0, 0)
	}
	info, ok := c.vals[pv.BlockDigest]
	if !ok {
		panic("vsm: unknown proposal value")
	}
	return vL(info.id, info.rnd, uint64(pv.OriginalPeriod), vsmSnd(pv.OriginalProposer))
}

func (c *vsmCtx) params() []interface{} {
	p := c.proto
	return vL(p.SoftCommitteeThreshold, p.CertCommitteeThreshold, p.NextCommitteeThreshold, p.LateCommitteeThreshold,
		p.RedoCommitteeThreshold, p.DownCommitteeThreshold,
		int64(p.AgreementFilterTimeoutPeriod0), int64(p.AgreementFilterTimeout), int64(p.AgreementDeadlineTimeoutPeriod0),
		int64(DefaultDeadlineTimeout()), int64(recoveryExtraTimeout), int64(p.FastRecoveryLambda), p.DynamicFilterTimeout,
		uint64(credentialRoundLag))
}

// weight is a function of (sender, round, period, step): the credential of a sender is unique
func (c *vsmCtx) weight(snd uint64, r round, p period, s step) uint64 {
	if s == propose {
		return 1
	}
	fr := []uint64{34, 26, 21, 17, 13, 41, 9, 30, 23, 19}[snd%10]
	t := s.threshold(c.proto)
	return t*fr/100 + 1 + (uint64(r)*7+uint64(p)*3+uint64(s)+snd)%5
}

func (c *vsmCtx) cred(snd uint64, r round, p period, s step) (cr committee.Credential, rank uint64) {
	cr = committee.Credential{Weight: c.weight(snd, r, p, s)}
	var seed [32]byte
	binary.BigEndian.PutUint64(seed[0:8], snd)
	binary.BigEndian.PutUint64(seed[8:16], uint64(r))
	binary.BigEndian.PutUint64(seed[16:24], uint64(p))
	binary.BigEndian.PutUint64(seed[24:32], uint64(s))
	cr.VrfOut = crypto.Hash(seed[:])
	if s == propose {
		d := cr.LowestOutputDigest()
		rank = binary.BigEndian.Uint64(d[:8]) >> 1
	}
	return
}

func (c *vsmCtx) mkVote(snd uint64, r round, p period, s step, pv proposalValue) (vote, uint64) {
	cr, rank := c.cred(snd, r, p, s)
	return vote{R: rawVote{Sender: vsmAddr(snd), Round: r, Period: p, Step: s, Proposal: pv}, Cred: cr}, rank
}

func (c *vsmCtx) tVoteFull(v vote, rank uint64) []interface{} {
	return vL(vsmSnd(v.R.Sender), uint64(v.R.Round), uint64(v.R.Period), uint64(v.R.Step), c.tValue(v.R.Proposal), v.Cred.Weight, rank)
}

func (c *vsmCtx) tRawVote(r rawVote) []interface{} {
	return vL(vsmSnd(r.Sender), uint64(r.Round), uint64(r.Period), uint64(r.Step), c.tValue(r.Proposal))
}

// ---------------------------------------------------------------- events

type vsmMeta struct {
	err, cancelled, protoErr, hnil bool
	task                           uint64
}

func (m vsmMeta) term() []interface{} { return vL(m.err, m.cancelled, m.protoErr, m.hnil, m.task) }

type vsmEvent struct {
	ev   event
	term string
	// bookkeeping for the generator / spec
	kind string
}

var vsmHandle MessageHandle = "vsm-peer"

func (c *vsmCtx) fillMeta(e *messageEvent, m vsmMeta) {
	if m.err {
		e.Err = makeSerErrStr("vsm: verification failed")
	}
	e.Cancelled = m.cancelled
	e.TaskIndex = m.task
	e.Proto = ConsensusVersionView{Version: c.ver}
	if m.protoErr {
		e.Proto.Err = makeSerErrStr("vsm: no protocol")
	}
	if !m.hnil {
		e.Input.messageHandle = vsmHandle
	}
}

func (c *vsmCtx) payloadOf(pv proposalValue) *proposal {
	p, ok := c.payloads[pv]
	if !ok {
		panic("vsm: no payload for value")
	}
	return p
}

// voteEvent: votePresent / voteVerified; tail (only meaningful for votePresent) is a payloadPresent event
func (c *vsmCtx) voteEvent(verified bool, v vote, rank uint64, m vsmMeta, tail *proposalValue) vsmEvent {
	var e messageEvent
	var tailTerm interface{} = vL()
	e.Input.Tag = protocol.AgreementVoteTag
	e.Input.UnauthenticatedVote = v.u()
	if verified {
		e.T = voteVerified
		e.Input.Vote = v
	} else {
		e.T = votePresent
	}
	c.fillMeta(&e, m)
	if tail != nil {
		tm := vsmMeta{hnil: m.hnil}
		var te messageEvent
		te.T = payloadPresent
		te.Input.Tag = protocol.ProposalPayloadTag
		te.Input.UnauthenticatedProposal = c.payloadOf(*tail).u()
		c.fillMeta(&te, tm)
		e.Tail = &te
		tailTerm = vL(c.tValue(*tail), tm.term())
	}
	t := vT(vSym("msg"), verified, vL(vSym("vote"), c.tVoteFull(v, rank)), m.term(), tailTerm)
	return vsmEvent{ev: e, term: t, kind: "vote"}
}

func (c *vsmCtx) payloadEvent(verified bool, pv proposalValue, m vsmMeta) vsmEvent {
	var e messageEvent
	p := c.payloadOf(pv)
	e.Input.Tag = protocol.ProposalPayloadTag
	e.Input.UnauthenticatedProposal = p.u()
	if verified {
		e.T = payloadVerified
		e.Input.Proposal = *p
	} else {
		e.T = payloadPresent
	}
	c.fillMeta(&e, m)
	t := vT(vSym("msg"), verified, vL(vSym("payload"), c.tValue(pv)), m.term(), vL())
	return vsmEvent{ev: e, term: t, kind: "payload"}
}

type vsmRankedVote struct {
	v    vote
	rank uint64
}

type vsmEqPair struct {
	snd    uint64
	v0, v1 proposalValue
}

// bundleEvent: votes (+ equivocation pairs) for (r,p,s,pv); all votes carry the bundle's r/p/s
func (c *vsmCtx) bundleEvent(verified bool, r round, p period, s step, pv proposalValue, senders []uint64, eqs []vsmEqPair, m vsmMeta) vsmEvent {
	ub := unauthenticatedBundle{Round: r, Period: p, Step: s, Proposal: pv}
	var b bundle
	var tv, te []interface{}
	for _, snd := range senders {
		v, rank := c.mkVote(snd, r, p, s, pv)
		b.Votes = append(b.Votes, v)
		ub.Votes = append(ub.Votes, voteAuthenticator{Sender: v.R.Sender, Cred: v.Cred.UnauthenticatedCredential})
		tv = append(tv, c.tVoteFull(v, rank))
	}
	for _, q := range eqs {
		cr, rank := c.cred(q.snd, r, p, s)
		ev := equivocationVote{Sender: vsmAddr(q.snd), Round: r, Period: p, Step: s, Cred: cr, Proposals: [2]proposalValue{q.v0, q.v1}}
		b.EquivocationVotes = append(b.EquivocationVotes, ev)
		ub.EquivocationVotes = append(ub.EquivocationVotes, equivocationVoteAuthenticator{Sender: ev.Sender, Cred: cr.UnauthenticatedCredential, Proposals: ev.Proposals})
		te = append(te, vL(q.snd, uint64(r), uint64(p), uint64(s), cr.Weight, rank, c.tValue(q.v0), c.tValue(q.v1)))
	}
	b.U = ub
	var e messageEvent
	e.Input.Tag = protocol.VoteBundleTag
	e.Input.UnauthenticatedBundle = ub
	if verified {
		e.T = bundleVerified
		e.Input.Bundle = b
	} else {
		e.T = bundlePresent
	}
	c.fillMeta(&e, m)
	if tv == nil {
		tv = vL()
	}
	if te == nil {
		te = vL()
	}
	t := vT(vSym("msg"), verified, vL(vSym("bundle"), vL(uint64(r), uint64(p), uint64(s), c.tValue(pv), tv, te)), m.term(), vL())
	return vsmEvent{ev: e, term: t, kind: "bundle"}
}

func (c *vsmCtx) timeoutEvent(fast bool, entropy uint64, bad bool, r round) vsmEvent {
	e := timeoutEvent{T: timeout, RandomEntropy: entropy, Round: r, Proto: ConsensusVersionView{Version: c.ver}}
	if fast {
		e.T = fastTimeout
	}
	if bad {
		if fast {
			e.Proto.Err = makeSerErrStr("vsm: no protocol")
		} else {
			e.Proto.Version = ""
		}
	}
	return vsmEvent{ev: e, term: vT(vSym("timeout"), fast, entropy, bad), kind: "timeout"}
}

func (c *vsmCtx) roundInterruptionEvent(r round) vsmEvent {
	e := roundInterruptionEvent{Round: r, Proto: ConsensusVersionView{Version: c.ver}}
	return vsmEvent{ev: e, term: vT(vSym("rint"), uint64(r)), kind: "rint"}
}

func (c *vsmCtx) checkpointEvent(r round, p period, s step, bad bool) vsmEvent {
	e := checkpointEvent{Round: r, Period: p, Step: s}
	if bad {
		e.Err = makeSerErrStr("vsm: disk")
	}
	return vsmEvent{ev: e, term: vT(vSym("ckpt"), uint64(r), uint64(p), uint64(s), bad), kind: "ckpt"}
}

// attestVotes: the verified votes of node `snd` for the attest actions in acts (multi-node simulations)
func (c *vsmCtx) attestVotes(snd uint64, acts []action) []vsmEvent {
	var out []vsmEvent
	for _, a := range acts {
		if x, ok := a.(pseudonodeAction); ok && x.T == attest {
			v, rank := c.mkVote(snd, x.Round, x.Period, x.Step, x.Proposal)
			out = append(out, c.voteEvent(true, v, rank, vsmMeta{hnil: true}, nil))
		}
	}
	return out
}

// ---------------------------------------------------------------- machine

type vsmMachine struct {
	rr *rootRouter
	tr *tracer
}

func vsmNewMachine(ver protocol.ConsensusVersion, r round) *vsmMachine {
	// service.mainLoop, fresh round
	status := player{Round: r, Step: soft, Deadline: Deadline{Duration: FilterTimeout(0, ver), Type: TimeoutFilter},
		lowestCredentialArrivals: makeCredentialArrivalHistory(dynamicFilterCredentialArrivalHistory)}
	router := makeRootRouter(status)
	return &vsmMachine{rr: &router, tr: &tracer{log: serviceLogger{logging.Base()}}}
}

func (m *vsmMachine) player() *player { return m.rr.root.underlying().(*player) }

// vsmPanicClass maps a recovered Go panic to the model's panic class.  A panic raised below
// voteAggregator.handle / proposalManager.handleMessageEvent is MASKED: their deferred
// logVoteAggregatorResult / logProposalManagerResult calls output.t() on the nil result and panics again
// with a nil pointer dereference, which is what recover() sees.  The class is therefore derived from
// the stack (the frame that called Panicf), falling back to the message.
func vsmPanicClass(r interface{}, stack string) string {
	msg := fmt.Sprint(r)
	if ent, ok := r.(*logrus.Entry); ok {
		msg = ent.Message
	}
	if i := strings.Index(stack, "logger.Panicf("); i >= 0 {
		// first agreement frame above Panicf
		rest := stack[i:]
		for _, line := range strings.Split(rest, "\n") {
			if !strings.HasPrefix(line, "github.com/algorand/go-algorand/agreement.") {
				continue
			}
			switch {
			case strings.Contains(line, "serviceLogger"):
				continue
			case strings.Contains(line, "overThreshold"):
				return "two_values"
			case strings.Contains(line, "makeBundle"):
				return "makeBundle"
			case strings.Contains(line, "(*voteTracker).handle"):
				return "equivocators"
			case strings.Contains(line, "checkedListener.handle"):
				return "contract"
			case strings.Contains(line, "(*proposalStore).handle"):
				return "assemblers"
			case strings.Contains(line, "(*voteAggregator).handle"):
				return "bad_round"
			case strings.Contains(line, "fresherThan"):
				return "other"
			}
			break
		}
	}
	switch {
	case strings.Contains(stack, "(*periodRouter).dispatch(0x0") || strings.Contains(stack, "(*roundRouter).dispatch(0x0") ||
		strings.Contains(stack, "(*periodRouter).update(...)"):
		return "nil_router"
	case strings.Contains(msg, "precondition violated") || strings.Contains(msg, "postcondition violated"):
		return "contract"
	case strings.Contains(msg, "too many equivocators"):
		return "equivocators"
	case strings.Contains(msg, "more than value reached"):
		return "two_values"
	case strings.Contains(msg, "too many assemblers"):
		return "assemblers"
	case strings.Contains(msg, "bad round ("):
		return "bad_round"
	case strings.Contains(msg, "makeBundle") || strings.Contains(msg, "not enough votes to generate bundle"):
		return "makeBundle"
	case strings.Contains(msg, "index out of range"):
		return "index"
	case strings.Contains(msg, "interface conversion"):
		return "cast"
	case strings.Contains(msg, "divide by zero"):
		return "div"
	case strings.Contains(msg, "nil pointer dereference"):
		return "nil_router"
	}
	return "other"
}

// submit = rootRouter.submitTop as in service.mainLoop; a Go panic is returned as its class
func (m *vsmMachine) submit(e event) (acts []action, panicClass string, panicMsg string) {
	defer func() {
		if r := recover(); r != nil {
			stack := string(debug.Stack())
			panicClass = vsmPanicClass(r, stack)
			panicMsg = fmt.Sprint(r)
			if os.Getenv("VERIF_SM_STACK") != "" {
				fmt.Fprintf(os.Stderr, "VSM PANIC %s: %v\n%s\n", panicClass, r, stack)
			}
			if ent, ok := r.(*logrus.Entry); ok {
				panicMsg = ent.Message
			}
		}
	}()
	_, acts = m.rr.submitTop(m.tr, *m.player(), e)
	return
}

// ---------------------------------------------------------------- rendering

func (c *vsmCtx) tUVote(uv unauthenticatedVote) []interface{} {
	if uv.R == (rawVote{}) {
		return vL()
	}
	return c.tRawVote(uv.R)
}

func (c *vsmCtx) tBundle(b unauthenticatedBundle) []interface{} {
	vs := vL()
	for _, a := range b.Votes {
		vs = append(vs, vsmSnd(a.Sender))
	}
	es := vL()
	for _, a := range b.EquivocationVotes {
		es = append(es, vL(vsmSnd(a.Sender), c.tValue(a.Proposals[0]), c.tValue(a.Proposals[1])))
	}
	return vL(uint64(b.Round), uint64(b.Period), uint64(b.Step), c.tValue(b.Proposal), vs, es)
}

func vsmLessValue(a, b []interface{}) bool {
	for i := 0; i < 4; i++ {
		x, y := vsmU(a[i]), vsmU(b[i])
		if x != y {
			return x < y
		}
	}
	return false
}

func vsmU(v interface{}) uint64 {
	switch x := v.(type) {
	case uint64:
		return x
	case int:
		return uint64(x)
	}
	panic("vsmU")
}

func (c *vsmCtx) renderAction(a action) []interface{} {
	switch x := a.(type) {
	case networkAction:
		switch x.T {
		case ignore:
			return vL(vSym("ignore"))
		case disconnect:
			return vL(vSym("disconnect"))
		case broadcastVotes:
			vs := vL()
			type kv struct {
				snd, st uint64
				val     []interface{}
				t       []interface{}
			}
			var l []kv
			for _, uv := range x.UnauthenticatedVotes {
				l = append(l, kv{vsmSnd(uv.R.Sender), uint64(uv.R.Step), c.tValue(uv.R.Proposal), c.tRawVote(uv.R)})
			}
			sort.SliceStable(l, func(i, j int) bool {
				if l[i].snd != l[j].snd {
					return l[i].snd < l[j].snd
				}
				if l[i].st != l[j].st {
					return l[i].st < l[j].st
				}
				return vsmLessValue(l[i].val, l[j].val)
			})
			for _, e := range l {
				vs = append(vs, e.t)
			}
			return vL(vSym("bcastVs"), vs)
		}
		pre := "relay"
		if x.T == broadcast {
			pre = "bcast"
		}
		switch x.Tag {
		case protocol.AgreementVoteTag:
			return vL(vSym(pre+"V"), c.tRawVote(x.UnauthenticatedVote.R))
		case protocol.VoteBundleTag:
			return vL(vSym(pre+"B"), c.tBundle(x.UnauthenticatedBundle))
		case protocol.ProposalPayloadTag:
			return vL(vSym(pre+"C"), c.tValue(x.CompoundMessage.Proposal.value()), c.tUVote(x.CompoundMessage.Vote))
		}
		return vL(vSym("net_unknown"))
	case cryptoAction:
		switch x.T {
		case verifyVote:
			return vL(vSym("verV"), c.tRawVote(x.M.UnauthenticatedVote.R), uint64(x.Round), uint64(x.Period), x.TaskIndex)
		case verifyPayload:
			return vL(vSym("verP"), c.tValue(x.M.UnauthenticatedProposal.value()), uint64(x.Round), uint64(x.Period), x.Pinned)
		case verifyBundle:
			b := x.M.UnauthenticatedBundle
			return vL(vSym("verB"), uint64(b.Round), uint64(b.Period), uint64(b.Step), c.tValue(b.Proposal), uint64(x.Round), uint64(x.Period), uint64(x.Step))
		}
	case ensureAction:
		return vL(vSym("ensure"), c.tValue(x.Payload.value()), uint64(x.Payload.Round()), c.tBundle(unauthenticatedBundle(x.Certificate)))
	case stageDigestAction:
		return vL(vSym("stage"), c.tBundle(unauthenticatedBundle(x.Certificate)))
	case rezeroAction:
		return vL(vSym("rezero"), uint64(x.Round))
	case pseudonodeAction:
		switch x.T {
		case attest:
			return vL(vSym("attest"), uint64(x.Round), uint64(x.Period), uint64(x.Step), c.tValue(x.Proposal))
		case assemble:
			return vL(vSym("assemble"), uint64(x.Round), uint64(x.Period))
		case repropose:
			return vL(vSym("repropose"), uint64(x.Round), uint64(x.Period), c.tValue(x.Proposal))
		}
	case checkpointAction:
		return vL(vSym("ckpt"), uint64(x.Round), uint64(x.Period), uint64(x.Step), x.Err != nil)
	}
	return vL(vSym("unknown_action"))
}

func (c *vsmCtx) renderActions(as []action) []interface{} {
	l := vL()
	for _, a := range as {
		l = append(l, c.renderAction(a))
	}
	return l
}

func (c *vsmCtx) tVoteOr(v vote, ok bool) []interface{} {
	if !ok {
		return vL()
	}
	return c.tRawVote(v.R)
}

func (c *vsmCtx) renderPlayer(p *player) []interface{} {
	keys := make([]uint64, 0, len(p.Pending.Pending))
	for k := range p.Pending.Pending {
		keys = append(keys, k)
	}
	sort.Slice(keys, func(i, j int) bool { return keys[i] < keys[j] })
	pend := vL()
	for _, k := range keys {
		te := p.Pending.Pending[k]
		var tt interface{} = vL()
		if te != nil {
			m := vsmMeta{err: te.Err != nil, cancelled: te.Cancelled, protoErr: te.Proto.Err != nil, hnil: te.Input.messageHandle == nil, task: te.TaskIndex}
			tt = vL(c.tValue(te.Input.UnauthenticatedProposal.value()), m.term())
		}
		pend = append(pend, vL(k, tt))
	}
	return vL(uint64(p.Round), uint64(p.Period), uint64(p.Step), uint64(p.LastConcluding), int64(p.Deadline.Duration), int64(p.Deadline.Type),
		p.Napping, int64(p.FastRecoveryDeadline), pend, p.Pending.PendingNext)
}

func (c *vsmCtx) renderVoteTracker(sr *stepRouter) []interface{} {
	t := &sr.VoteTracker
	var ks []uint64
	for a := range t.Voters {
		ks = append(ks, vsmSnd(a))
	}
	sort.Slice(ks, func(i, j int) bool { return ks[i] < ks[j] })
	voters := vL()
	for _, k := range ks {
		voters = append(voters, vL(k, c.tValue(t.Voters[vsmAddr(k)].R.Proposal)))
	}
	type cv struct {
		val []interface{}
		t   []interface{}
	}
	var cl []cv
	for pv, pc := range t.Counts {
		var ss []uint64
		for a := range pc.Votes {
			ss = append(ss, vsmSnd(a))
		}
		sort.Slice(ss, func(i, j int) bool { return ss[i] < ss[j] })
		sl := vL()
		for _, s := range ss {
			sl = append(sl, s)
		}
		cl = append(cl, cv{c.tValue(pv), vL(c.tValue(pv), pc.Count, sl)})
	}
	sort.SliceStable(cl, func(i, j int) bool { return vsmLessValue(cl[i].val, cl[j].val) })
	counts := vL()
	for _, e := range cl {
		counts = append(counts, e.t)
	}
	ks = nil
	for a := range t.Equivocators {
		ks = append(ks, vsmSnd(a))
	}
	sort.Slice(ks, func(i, j int) bool { return ks[i] < ks[j] })
	eqs := vL()
	for _, k := range ks {
		ev := t.Equivocators[vsmAddr(k)]
		eqs = append(eqs, vL(k, ev.Cred.Weight, c.tValue(ev.Proposals[0]), c.tValue(ev.Proposals[1])))
	}
	ct := sr.VoteTrackerContract
	return vL(voters, counts, eqs, t.EquivocatorsCount, uint64(ct.Step), ct.StepOk, ct.Emitted)
}

func (c *vsmCtx) renderThresh(ok bool, e thresholdEvent) []interface{} {
	if !ok {
		return vL()
	}
	k := 0
	switch e.T {
	case softThreshold:
		k = 1
	case certThreshold:
		k = 2
	case nextThreshold:
		k = 3
	}
	return vL(k, uint64(e.Round), uint64(e.Period), uint64(e.Step), c.tValue(e.Proposal), c.tBundle(e.Bundle))
}

func (c *vsmCtx) renderProposalTracker(pr *periodRouter) []interface{} {
	t := &pr.ProposalTracker
	var ks []uint64
	for a, b := range t.Duplicate {
		if b {
			ks = append(ks, vsmSnd(a))
		}
	}
	sort.Slice(ks, func(i, j int) bool { return ks[i] < ks[j] })
	dup := vL()
	for _, k := range ks {
		dup = append(dup, k)
	}
	fz := t.Freezer
	ct := pr.ProposalTrackerContract
	return vL(dup, c.tVoteOr(fz.Lowest, fz.Filled), fz.Filled, fz.Frozen, c.tVoteOr(fz.lowestIncludingLate, fz.hasLowestIncludingLate),
		fz.hasLowestIncludingLate, c.tValue(t.Staging), ct.SawOneVote, ct.Froze, ct.SawSoftThreshold, ct.SawCertThreshold)
}

func (c *vsmCtx) renderStore(s *proposalStore) []interface{} {
	var ps []uint64
	for p := range s.Relevant {
		ps = append(ps, uint64(p))
	}
	sort.Slice(ps, func(i, j int) bool { return ps[i] < ps[j] })
	rel := vL()
	for _, p := range ps {
		rel = append(rel, vL(p, c.tValue(s.Relevant[period(p)])))
	}
	type av struct {
		val []interface{}
		t   []interface{}
	}
	var al []av
	for pv, ea := range s.Assemblers {
		auth := vL()
		for _, v := range ea.Authenticators {
			auth = append(auth, vL(vsmSnd(v.R.Sender), uint64(v.R.Period)))
		}
		// the model identifies Pipeline / Payload with the key: check it here
		if ea.Filled && ea.Pipeline.value() != pv {
			panic("vsm: assembler pipeline does not match its key")
		}
		if ea.Assembled && ea.Payload.value() != pv {
			panic("vsm: assembler payload does not match its key")
		}
		al = append(al, av{c.tValue(pv), vL(c.tValue(pv), ea.Filled, ea.Assembled, auth)})
	}
	sort.SliceStable(al, func(i, j int) bool { return vsmLessValue(al[i].val, al[j].val) })
	asm := vL()
	for _, e := range al {
		asm = append(asm, e.t)
	}
	return vL(rel, c.tValue(s.Pinned), asm)
}

func (c *vsmCtx) renderRouter(rr *rootRouter) []interface{} {
	var rs []uint64
	for r := range rr.Children {
		rs = append(rs, uint64(r))
	}
	sort.Slice(rs, func(i, j int) bool { return rs[i] < rs[j] })
	out := vL()
	for _, r := range rs {
		rn := rr.Children[round(r)]
		var ps []uint64
		for p := range rn.Children {
			ps = append(ps, uint64(p))
		}
		sort.Slice(ps, func(i, j int) bool { return ps[i] < ps[j] })
		pl := vL()
		for _, p := range ps {
			pn := rn.Children[period(p)]
			var ss []uint64
			for s := range pn.Children {
				ss = append(ss, uint64(s))
			}
			sort.Slice(ss, func(i, j int) bool { return ss[i] < ss[j] })
			sl := vL()
			for _, s := range ss {
				sl = append(sl, vL(s, c.renderVoteTracker(pn.Children[step(s)])))
			}
			cached := pn.VoteTrackerPeriod.Cached
			pl = append(pl, vL(p, c.renderProposalTracker(pn), vL(cached.Bottom, c.tValue(cached.Proposal)), sl))
		}
		out = append(out, vL(r, c.renderStore(&rn.ProposalStore), c.renderThresh(rn.VoteTrackerRound.Ok, rn.VoteTrackerRound.Freshest), pl))
	}
	return out
}

func (c *vsmCtx) renderState(m *vsmMachine) string {
	return vT(c.renderPlayer(m.player()), c.renderRouter(m.rr))
}

// ---------------------------------------------------------------- C07 forks: real encode / decode

type vsmFork struct {
	k       int  // number of events processed before the fork
	reflect bool // reflection codec instead of msgp
}

// restoreMachine runs the real persistence round trip on the machine
func vsmRestore(m *vsmMachine, acts []action, reflect bool) (m2 *vsmMachine, decoded []action, errs string) {
	defer func() {
		if r := recover(); r != nil {
			errs = "panic: " + fmt.Sprint(r)
		}
	}()
	clock := timers.MakeMonotonicClock[TimeoutType](time.Date(2015, 1, 2, 5, 6, 7, 8, time.UTC))
	raw := encode(clock, *m.rr, *m.player(), acts, reflect)
	t0 := timers.MakeMonotonicClock[TimeoutType](time.Date(2000, 0, 0, 0, 0, 0, 0, time.UTC))
	_, rr2, _, a2, err := decode(raw, t0, serviceLogger{logging.Base()}, reflect)
	if err != nil {
		return nil, nil, "error: " + err.Error()
	}
	return &vsmMachine{rr: &rr2, tr: &tracer{log: serviceLogger{logging.Base()}}}, a2, ""
}

func vsmPersistent(as []action) bool { return persistent(as) }

func vsmDecodable(as []action) bool {
	for _, a := range as {
		if a.t() == stageDigest || a.t() == noop {
			// zeroAction() has no case for stageDigest: decode would panic; never persisted together
			// with an attest in any observed run (counted in stats)
			return false
		}
	}
	return true
}

// staleTask: voteVerified for a proposal-vote whose TaskIndex refers to a Pending entry of p
func vsmStaleTask(p *player, e event) bool {
	me, ok := e.(messageEvent)
	if !ok || me.T != voteVerified || me.Input.UnauthenticatedVote.R.Step != propose {
		return false
	}
	_, in := p.Pending.Pending[me.TaskIndex]
	return in
}

type vsmObs struct {
	acts   string
	digest string
}

type vsmRun struct {
	obs      []vsmObs
	end      string // "(ok)" or "(panic class)"
	panicMsg string
	rawActs  [][]action
}

func vsmDevNull() func() {
	logging.Base().SetOutput(nullWriter{})
	return func() { logging.Base().SetOutput(os.Stderr) }
}

// runEvents feeds events to the machine; digests are rendered when withDigest, "=" when unchanged
func (c *vsmCtx) runEvents(m *vsmMachine, evs []vsmEvent, withDigest bool) vsmRun {
	var r vsmRun
	prev := ""
	r.end = "(ok)"
	for _, e := range evs {
		acts, pc, pm := m.submit(e.ev)
		if pc != "" {
			r.end = vT(vSym("panic"), vSym(pc))
			r.panicMsg = pm
			break
		}
		o := vsmObs{acts: vT(c.renderActions(acts)...)}
		if withDigest {
			d := c.renderState(m)
			if d == prev {
				o.digest = "="
			} else {
				o.digest = d
				prev = d
			}
		}
		r.obs = append(r.obs, o)
		r.rawActs = append(r.rawActs, acts)
	}
	return r
}
