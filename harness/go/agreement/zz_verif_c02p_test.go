//go:build verif

package agreement

// C02, part 2: the REAL pseudonode (makePseudonode / asyncPseudonode.MakeVotes /
// pseudonodeVotesTask.execute with real participation keys, VRF and one-time signatures; the same
// set-up as the package's pseudonode tests) is driven with a persistStateDone channel that
//   ok    is closed after a short random delay,
//   slow  stays pending for longer than maxPseudonodeOutputWaitDuration (2 s) and is closed then,
//   err   delivers an error (the checkpoint reported a failed write) and is closed.
// zz_verif_c02_test.go mirrors this wait with a fake pseudonode; here the real one is observed.
// Observation per case, in the order seen by the harness:  signal_ok / signal_err (recorded BEFORE
// the harness touches the channel), vote (one per event read from the MakeVotes channel), closed.
//
// CASE LINE  (c02p mode expected (event ...) tag): expected = number of votes the same request
// releases when the channel is closed at once (reference run on the implementation).
// The Coq side replays [FEv; FWrite ok; FRelease] through DurableFine.fstep (release only after a
// successful write) and spec_ok = no vote before signal_ok, no vote after signal_err.

import (
	"context"
	"crypto/sha256"
	"fmt"
	"strings"
	"sync"
	"testing"
	"time"

	"github.com/algorand/go-algorand/logging"
)

type vc02pEnv struct {
	t        *testing.T
	accounts int
	mk       func() pseudonode
	rnd      round
	props    []proposalValue
}

// one request on a fresh pseudonode; mode: 0 ok (delay), 1 slow, 2 err
func (e *vc02pEnv) run(mode int, delay time.Duration, p period, s step, prop proposalValue) []string {
	pb := e.mk()
	defer pb.Quit()
	done := make(chan error)
	ch, err := pb.MakeVotes(context.Background(), e.rnd, p, s, prop, done)
	if err != nil {
		e.t.Fatalf("c02p: MakeVotes: %v", err)
	}
	var evs []string
	closed := false
	deadline := time.After(delay)
wait:
	for !closed {
		select {
		case ev, ok := <-ch:
			if !ok {
				evs = append(evs, "closed")
				closed = true
			} else if ev.t() == voteVerified {
				evs = append(evs, "vote")
			} else {
				evs = append(evs, "other")
			}
		case <-deadline:
			break wait
		}
	}
	if mode == 2 {
		evs = append(evs, "signal_err")
		select {
		case done <- fmt.Errorf("c02p: injected persistence failure"):
		case <-time.After(time.Second): // the task no longer listens
		}
	} else {
		evs = append(evs, "signal_ok")
	}
	close(done)
	drain := time.After(20 * time.Second)
	for !closed {
		select {
		case ev, ok := <-ch:
			if !ok {
				evs = append(evs, "closed")
				closed = true
			} else if ev.t() == voteVerified {
				evs = append(evs, "vote")
			} else {
				evs = append(evs, "other")
			}
		case <-drain:
			evs = append(evs, "stuck")
			closed = true
		}
	}
	return evs
}

func vc02pCount(evs []string) int {
	n := 0
	for _, e := range evs {
		if e == "vote" {
			n++
		}
	}
	return n
}

func TestVerifC02Pseudonode(t *testing.T) {
	defer vsmDevNull()()
	rnd := vNewRand(0xc02b)
	out := vOpen("cases_c02p.txt")
	defer out.Close()
	rootSeed := sha256.Sum256([]byte("verif-c02p"))
	accounts, balances := createTestAccountsAndBalances(t, 10, rootSeed[:])
	ledger := makeTestLedger(balances)
	sLogger := serviceLogger{logging.NewLogger()}
	sLogger.SetLevel(logging.Error)
	env := &vc02pEnv{t: t, accounts: len(accounts), rnd: ledger.NextRound()}
	env.mk = func() pseudonode {
		return makePseudonode(pseudonodeParams{factory: testBlockFactory{Owner: 0}, validator: testBlockValidator{},
			keys: makeRecordingKeyManager(accounts), ledger: ledger, voteVerifier: MakeAsyncVoteVerifier(nil), log: sLogger, monitor: nil})
	}
	for i := 0; i < 4; i++ {
		env.props = append(env.props, makeProposalValue(period(i), accounts[i].Address()))
	}
	modeNames := []string{"ok", "slow", "err"}
	var mu sync.Mutex
	stats := map[string]int{}
	emit := func(mode int, p period, s step, prop proposalValue, delay time.Duration, expected int) {
		evs := env.run(mode, delay, p, s, prop)
		mu.Lock()
		defer mu.Unlock()
		stats["cases_"+modeNames[mode]]++
		stats["votes"] += vc02pCount(evs)
		out.Line(fmt.Sprintf("(c02p %s %d (%s) step%d_period%d)", modeNames[mode], expected, strings.Join(evs, " "), uint64(s), uint64(p)))
	}
	nOK := vEnvInt("VERIF_C02P_N", 6)
	nSlow := vEnvInt("VERIF_C02P_SLOW", 2)
	steps := []step{soft, cert, next, next + 1, late, down}
	type req struct {
		p        period
		s        step
		prop     proposalValue
		expected int
	}
	var reqs []req
	for i := 0; i < nOK; i++ {
		r := req{p: period(rnd.Intn(3)), s: steps[i%len(steps)], prop: env.props[rnd.Intn(len(env.props))]}
		if r.s == down || (r.s >= next && r.s < late && rnd.Intn(2) == 0) {
			r.prop = bottom // makeVote: down must be bottom, late/redo/soft/cert must not
		}
		// reference: channel closed at once
		r.expected = vc02pCount(env.run(0, 0, r.p, r.s, r.prop))
		reqs = append(reqs, r)
	}
	// slow cases in parallel (each waits longer than the output timeout)
	var wg sync.WaitGroup
	for i := 0; i < nSlow && i < len(reqs); i++ {
		r := reqs[i]
		wg.Add(1)
		go func() {
			defer wg.Done()
			emit(1, r.p, r.s, r.prop, maxPseudonodeOutputWaitDuration+300*time.Millisecond, r.expected)
		}()
	}
	for _, r := range reqs {
		emit(0, r.p, r.s, r.prop, time.Duration(rnd.Intn(40))*time.Millisecond, r.expected)
		emit(2, r.p, r.s, r.prop, time.Duration(rnd.Intn(20))*time.Millisecond, r.expected)
	}
	wg.Wait()
	if st := stats["votes"]; st == 0 {
		t.Fatalf("c02p: the real pseudonode produced no vote at all")
	}
}
