//go:build verif

package agreement

// Script generator, runner (main run + C07 forks) and the test entry point of the shared
// agreement state-machine harness (see zz_verif_sm_test.go for the interface).

import (
	"fmt"
	"os"
	"strings"
	"testing"

	"github.com/algorand/go-algorand/protocol"
)

type vsmKey struct {
	r round
	p period
	s step
}

type vsmStats struct {
	scripts, events, panics, forks, forkDiffs, decodeErrs, persistentSteps, undecodablePersistent int
	ensures, attests, periodChanges, roundChanges, historyFull                                     int
	kinds                                                                                          map[string]int
	actions                                                                                        map[string]int
	panicClasses                                                                                   map[string]int
	scenarios                                                                                      map[string]int
	maxPeriod, maxStep                                                                             uint64
}

func vsmNewStats() *vsmStats {
	return &vsmStats{kinds: map[string]int{}, actions: map[string]int{}, panicClasses: map[string]int{}, scenarios: map[string]int{}}
}

type vsmGen struct {
	c       *vsmCtx
	m       *vsmMachine
	events  []vsmEvent
	run     vsmRun
	prevDig string
	pool    map[round][]proposalValue
	fav     map[vsmKey]proposalValue
	hasFav  map[vsmKey]bool
	sent    map[vsmKey]map[uint64]proposalValue
	queue   []vsmEvent
	w       map[string]int // category weights (scenario bias)
	ns      uint64
	stats   *vsmStats
	dead    bool
	flagsP  int // per-mille probability of error flags on message events
}

func (g *vsmGen) pl() *player { return g.m.player() }

func (g *vsmGen) values(r round) []proposalValue {
	if len(g.pool[r]) == 0 {
		n := 2 + g.c.rnd.Intn(2)
		for i := 0; i < n; i++ {
			g.pool[r] = append(g.pool[r], g.c.newValue(r, 0, 1+uint64(g.c.rnd.Intn(int(g.ns)))))
		}
	}
	return g.pool[r]
}

func (g *vsmGen) someValue(r round, p period) proposalValue {
	vs := g.values(r)
	if p > 0 && g.c.rnd.Intn(6) == 0 {
		v := g.c.newValue(r, p, 1+uint64(g.c.rnd.Intn(int(g.ns))))
		g.pool[r] = append(g.pool[r], v)
		return v
	}
	return vs[g.c.rnd.Intn(len(vs))]
}

func (g *vsmGen) favoured(k vsmKey) proposalValue {
	if !g.hasFav[k] {
		// one value per (r,p) for soft/cert so that quorums agree most of the time
		base := vsmKey{k.r, k.p, soft}
		if !g.hasFav[base] {
			g.fav[base] = g.someValue(k.r, k.p)
			g.hasFav[base] = true
		}
		v := g.fav[base]
		if k.s > cert && g.c.rnd.Intn(2) == 0 {
			v = bottom
		}
		g.fav[k] = v
		g.hasFav[k] = true
	}
	return g.fav[k]
}

func (g *vsmGen) meta() vsmMeta {
	var m vsmMeta
	if g.c.rnd.Intn(1000) < g.flagsP {
		switch g.c.rnd.Intn(3) {
		case 0:
			m.err = true
		case 1:
			m.cancelled = true
		case 2:
			m.protoErr = true
		}
	}
	m.hnil = g.c.rnd.Intn(8) == 0
	return m
}

// push delivers one event to the real machine, records the observation and reacts to verify actions
func (g *vsmGen) push(e vsmEvent) {
	if g.dead {
		return
	}
	acts, pc, pm := g.m.submit(e.ev)
	g.events = append(g.events, e)
	g.stats.events++
	g.stats.kinds[e.kind]++
	if pc != "" {
		g.run.end = vT(vSym("panic"), vSym(pc))
		g.run.panicMsg = pm
		g.dead = true
		g.stats.panics++
		g.stats.panicClasses[pc]++
		return
	}
	o := vsmObs{acts: vT(g.c.renderActions(acts)...)}
	d := g.c.renderState(g.m)
	if d == g.prevDig {
		o.digest = "="
	} else {
		o.digest = d
		g.prevDig = d
	}
	g.run.obs = append(g.run.obs, o)
	g.run.rawActs = append(g.run.rawActs, acts)
	if g.pl().lowestCredentialArrivals.isFull() {
		g.stats.historyFull++
	}
	if uint64(g.pl().Period) > g.stats.maxPeriod {
		g.stats.maxPeriod = uint64(g.pl().Period)
	}
	if uint64(g.pl().Step) > g.stats.maxStep {
		g.stats.maxStep = uint64(g.pl().Step)
	}
	for _, a := range acts {
		g.stats.actions[a.t().String()]++
		switch x := a.(type) {
		case ensureAction:
			g.stats.ensures++
		case cryptoAction:
			if g.c.rnd.Intn(100) < 12 {
				continue // request lost
			}
			m := vsmMeta{hnil: x.M.messageHandle == nil}
			if g.c.rnd.Intn(100) < 3 {
				m.err = true
			} else if g.c.rnd.Intn(100) < 2 {
				m.cancelled = true
			}
			switch x.T {
			case verifyVote:
				uv := x.M.UnauthenticatedVote
				v, rank := g.c.mkVote(vsmSnd(uv.R.Sender), uv.R.Round, uv.R.Period, uv.R.Step, uv.R.Proposal)
				m.task = x.TaskIndex
				g.queue = append(g.queue, g.c.voteEvent(true, v, rank, m, nil))
			case verifyPayload:
				pv := x.M.UnauthenticatedProposal.value()
				if x.M.UnauthenticatedProposal.Round() != x.Round {
					m.err = true // proposal.validate: "proposed entry from wrong round"
				}
				g.queue = append(g.queue, g.c.payloadEvent(true, pv, m))
			case verifyBundle:
				ub := x.M.UnauthenticatedBundle
				var snds []uint64
				for _, a := range ub.Votes {
					snds = append(snds, vsmSnd(a.Sender))
				}
				var eqs []vsmEqPair
				for _, a := range ub.EquivocationVotes {
					eqs = append(eqs, vsmEqPair{vsmSnd(a.Sender), a.Proposals[0], a.Proposals[1]})
				}
				g.queue = append(g.queue, g.c.bundleEvent(true, ub.Round, ub.Period, ub.Step, ub.Proposal, snds, eqs, m))
			}
		case pseudonodeAction:
			if x.T == attest {
				g.stats.attests++
			}
		}
	}
}

func (g *vsmGen) noteSent(v vote) {
	k := vsmKey{v.R.Round, v.R.Period, v.R.Step}
	if g.sent[k] == nil {
		g.sent[k] = map[uint64]proposalValue{}
	}
	if _, ok := g.sent[k][vsmSnd(v.R.Sender)]; !ok {
		g.sent[k][vsmSnd(v.R.Sender)] = v.R.Proposal
	}
}

// pickSender prefers a sender that has not yet voted in (r,p,s)
func (g *vsmGen) pickSender(k vsmKey, fresh bool) uint64 {
	if fresh {
		for tries := 0; tries < 6; tries++ {
			s := 1 + uint64(g.c.rnd.Intn(int(g.ns)))
			if _, ok := g.sent[k][s]; !ok {
				return s
			}
		}
	}
	return 1 + uint64(g.c.rnd.Intn(int(g.ns)))
}

func (g *vsmGen) genProposalVote(r round, p period, verified bool) {
	pv := g.someValue(r, p)
	snd := vsmSnd(pv.OriginalProposer)
	if pv.OriginalPeriod != p || g.c.rnd.Intn(5) == 0 {
		snd = 1 + uint64(g.c.rnd.Intn(int(g.ns))) // reproposal / relay by someone else
	}
	v, rank := g.c.mkVote(snd, r, p, propose, pv)
	m := g.meta()
	var tail *proposalValue
	if !verified && g.c.rnd.Intn(2) == 0 {
		tail = &pv
	}
	if verified {
		m.task = uint64(g.c.rnd.Intn(3)) // usually no matching Pending entry
	}
	g.push(g.c.voteEvent(verified, v, rank, m, tail))
}

func (g *vsmGen) genPayload(r round, verified bool) {
	vs := g.values(r)
	pv := vs[g.c.rnd.Intn(len(vs))]
	// prefer the value that the votes favour
	if k := (vsmKey{r, g.pl().Period, soft}); g.hasFav[k] && g.c.rnd.Intn(3) != 0 && g.fav[k] != bottom {
		if uint64(g.c.vals[g.fav[k].BlockDigest].rnd) == uint64(r) {
			pv = g.fav[k]
		}
	}
	g.push(g.c.payloadEvent(verified, pv, g.meta()))
}

func (g *vsmGen) stepChoice() step {
	pl := g.pl()
	switch x := g.c.rnd.Intn(100); {
	case x < 32:
		return soft
	case x < 62:
		return cert
	case x < 84:
		s := next + step(g.c.rnd.Intn(3))
		if pl.Step > next && g.c.rnd.Intn(2) == 0 {
			s = pl.Step - 1 + step(g.c.rnd.Intn(3))
		}
		return s
	case x < 90:
		return late
	case x < 95:
		return redo
	default:
		return down
	}
}

func (g *vsmGen) genVote(r round, p period, s step, verified bool) {
	k := vsmKey{r, p, s}
	pv := g.favoured(k)
	equiv := g.c.rnd.Intn(100) < g.w["equivocate"]
	snd := g.pickSender(k, !equiv)
	if equiv {
		// a different value from a sender that already voted
		for s2 := range g.sent[k] {
			snd = s2
			break
		}
		pv = g.someValue(r, p)
	} else if g.c.rnd.Intn(100) < 7 {
		pv = g.someValue(r, p)
	}
	if s <= cert && pv == bottom {
		pv = g.someValue(r, p) // vote.verify rejects bottom for propose/soft/cert
	}
	v, rank := g.c.mkVote(snd, r, p, s, pv)
	m := g.meta()
	g.push(g.c.voteEvent(verified, v, rank, m, nil))
	if verified && !m.err && !m.cancelled && !m.protoErr {
		g.noteSent(v)
	}
}

// quorum senders for a bundle of (r,p,s)
func (g *vsmGen) quorum(r round, p period, s step, short bool) []uint64 {
	var snds []uint64
	var w uint64
	t := s.threshold(g.c.proto)
	perm := []uint64{}
	for i := uint64(1); i <= g.ns; i++ {
		perm = append(perm, i)
	}
	for i := len(perm) - 1; i > 0; i-- {
		j := g.c.rnd.Intn(i + 1)
		perm[i], perm[j] = perm[j], perm[i]
	}
	for _, sn := range perm {
		if w >= t {
			break
		}
		snds = append(snds, sn)
		w += g.c.weight(sn, r, p, s)
	}
	if short && len(snds) > 1 {
		snds = snds[:len(snds)-1]
	}
	return snds
}

func (g *vsmGen) genBundle(r round, p period, s step, verified bool) {
	k := vsmKey{r, p, s}
	pv := g.favoured(k)
	if s <= cert && pv == bottom {
		pv = g.someValue(r, p)
	}
	snds := g.quorum(r, p, s, g.c.rnd.Intn(10) == 0)
	var eqs []vsmEqPair
	if len(snds) > 2 && g.c.rnd.Intn(6) == 0 {
		// turn the last voter into an equivocation pair
		last := snds[len(snds)-1]
		snds = snds[:len(snds)-1]
		other := g.someValue(r, p)
		if other != pv {
			eqs = append(eqs, vsmEqPair{last, pv, other})
		} else {
			snds = append(snds, last)
		}
	}
	m := g.meta()
	g.push(g.c.bundleEvent(verified, r, p, s, pv, snds, eqs, m))
	if verified && !m.err && !m.cancelled && !m.protoErr {
		for _, sn := range snds {
			v, _ := g.c.mkVote(sn, r, p, s, pv)
			g.noteSent(v)
		}
	}
}

// safeCertPeriod: a cert bundle of period q while the player is in period P of the same round
// crashes the router (nil period router after its own GC) when q >= 2 and q+1 < P: only tagged cases
func vsmNilRouterPeriod(q, P period) bool { return q >= 2 && q+1 < P }

func (g *vsmGen) pickCategory() string {
	total := 0
	cats := []string{"pvote", "pvoteV", "payload", "payloadV", "vote", "voteOther", "bundle", "timeout", "fast", "ckpt", "rint", "lateCred", "queue"}
	for _, c := range cats {
		total += g.w[c]
	}
	x := g.c.rnd.Intn(total)
	for _, c := range cats {
		if x < g.w[c] {
			return c
		}
		x -= g.w[c]
	}
	return "vote"
}

func (g *vsmGen) stepOnce() {
	pl := g.pl()
	R, P := pl.Round, pl.Period
	switch g.pickCategory() {
	case "queue":
		if len(g.queue) > 0 {
			i := 0
			if g.c.rnd.Intn(4) == 0 {
				i = g.c.rnd.Intn(len(g.queue))
			}
			e := g.queue[i]
			g.queue = append(g.queue[:i:i], g.queue[i+1:]...)
			g.push(e)
			if me, ok := e.ev.(messageEvent); ok && me.T == voteVerified && me.Err == nil && !me.Cancelled {
				g.noteSent(me.Input.Vote)
			}
			return
		}
		g.genVote(R, P, g.stepChoice(), true)
	case "pvote":
		g.genProposalVote(R, P, false)
	case "pvoteV":
		g.genProposalVote(R, P, true)
	case "payload":
		g.genPayload(R, false)
	case "payloadV":
		g.genPayload(R, true)
	case "vote":
		g.genVote(R, P, g.stepChoice(), g.c.rnd.Intn(100) < 75)
	case "voteOther":
		switch g.c.rnd.Intn(7) {
		case 0:
			if P > 0 {
				g.genVote(R, P-1, g.stepChoice(), true)
			} else {
				g.genVote(R, P+1, g.stepChoice(), true)
			}
		case 1:
			g.genVote(R, P+1, g.stepChoice(), true)
		case 2:
			g.genVote(R, P+2+period(g.c.rnd.Intn(2)), g.stepChoice(), g.c.rnd.Intn(2) == 0)
		case 3, 4:
			g.genVote(R+1, 0, g.stepChoice(), true) // pipelined
		case 5:
			g.genProposalVote(R+1, 0, g.c.rnd.Intn(2) == 0)
		case 6:
			if g.c.rnd.Intn(2) == 0 {
				g.genPayload(R+1, false)
			} else {
				g.genProposalVote(R, P+1, true)
			}
		}
	case "bundle":
		s := []step{soft, cert, next, next + 1, late, down}[g.c.rnd.Intn(6)]
		q := P + period(g.c.rnd.Intn(3))
		if g.c.rnd.Intn(4) == 0 && P > 0 {
			q = P - 1 - period(g.c.rnd.Intn(int(P)))
		}
		if s == cert && vsmNilRouterPeriod(q, P) {
			q = P
		}
		g.genBundle(R, q, s, g.c.rnd.Intn(100) < 80)
	case "timeout":
		g.push(g.c.timeoutEvent(false, g.c.rnd.U64(), g.c.rnd.Intn(40) == 0, R))
	case "fast":
		g.push(g.c.timeoutEvent(true, g.c.rnd.U64(), g.c.rnd.Intn(40) == 0, R))
	case "ckpt":
		g.push(g.c.checkpointEvent(R, P, pl.Step, g.c.rnd.Intn(4) == 0))
	case "rint":
		g.push(g.c.roundInterruptionEvent(R + 1 + round(g.c.rnd.Intn(2))))
	case "lateCred":
		// late proposal-votes: for the current period after the freeze, or for old rounds
		if g.c.rnd.Intn(2) == 0 || R < 3 {
			g.genProposalVote(R, P, g.c.rnd.Intn(3) != 0)
		} else {
			back := round(1 + g.c.rnd.Intn(3))
			if g.c.rnd.Intn(3) == 0 {
				back = credentialRoundLag + round(g.c.rnd.Intn(2)) // window boundary of proposalUsefulForCredentialHistory
			}
			if R > back {
				g.genProposalVote(R-back, 0, g.c.rnd.Intn(3) != 0)
			}
		}
	}
}

var vsmScenarios = []struct {
	name string
	w    map[string]int
}{
	{"happy", map[string]int{"pvote": 14, "pvoteV": 8, "payload": 8, "payloadV": 8, "vote": 40, "voteOther": 4, "bundle": 3, "timeout": 5, "fast": 0, "ckpt": 1, "rint": 0, "lateCred": 3, "queue": 30, "equivocate": 1}},
	{"latepayload", map[string]int{"pvote": 10, "pvoteV": 8, "payload": 2, "payloadV": 3, "vote": 50, "voteOther": 4, "bundle": 6, "timeout": 4, "fast": 0, "ckpt": 1, "rint": 0, "lateCred": 2, "queue": 20, "equivocate": 2}},
	{"periods", map[string]int{"pvote": 8, "pvoteV": 6, "payload": 5, "payloadV": 5, "vote": 38, "voteOther": 10, "bundle": 10, "timeout": 14, "fast": 2, "ckpt": 1, "rint": 0, "lateCred": 2, "queue": 20, "equivocate": 3}},
	{"partition", map[string]int{"pvote": 5, "pvoteV": 4, "payload": 4, "payloadV": 4, "vote": 22, "voteOther": 6, "bundle": 8, "timeout": 30, "fast": 10, "ckpt": 1, "rint": 1, "lateCred": 1, "queue": 15, "equivocate": 3}},
	{"chaos", map[string]int{"pvote": 10, "pvoteV": 10, "payload": 8, "payloadV": 8, "vote": 30, "voteOther": 14, "bundle": 10, "timeout": 8, "fast": 3, "ckpt": 2, "rint": 2, "lateCred": 5, "queue": 25, "equivocate": 12}},
	{"pipelined", map[string]int{"pvote": 10, "pvoteV": 6, "payload": 8, "payloadV": 8, "vote": 34, "voteOther": 22, "bundle": 6, "timeout": 5, "fast": 0, "ckpt": 1, "rint": 1, "lateCred": 3, "queue": 28, "equivocate": 2}},
}

// directed prefixes (guarantee that the key paths are exercised whatever the seed)
func (g *vsmGen) prefixHappyRound() {
	R, P := g.pl().Round, g.pl().Period
	pv := g.favoured(vsmKey{R, P, soft})
	// proposal-vote with attached payload, verification round trip
	v, rank := g.c.mkVote(vsmSnd(pv.OriginalProposer), R, P, propose, pv)
	g.push(g.c.voteEvent(false, v, rank, vsmMeta{}, &pv))
	for len(g.queue) > 0 && !g.dead {
		e := g.queue[0]
		g.queue = g.queue[1:]
		g.push(e)
	}
	g.push(g.c.timeoutEvent(false, 5, false, R)) // filter timeout: soft vote
	for _, s := range []step{soft, cert} {
		for _, sn := range g.quorum(R, P, s, false) {
			if g.dead || g.pl().Round != R {
				return
			}
			vv, rk := g.c.mkVote(sn, R, P, s, pv)
			g.push(g.c.voteEvent(true, vv, rk, vsmMeta{}, nil))
			g.noteSent(vv)
		}
	}
}

func (g *vsmGen) prefixLatePayload() {
	R, P := g.pl().Round, g.pl().Period
	pv := g.favoured(vsmKey{R, P, soft})
	g.push(g.c.bundleEvent(true, R, P, cert, pv, g.quorum(R, P, cert, false), nil, vsmMeta{}))
	g.push(g.c.payloadEvent(false, pv, vsmMeta{}))
	g.push(g.c.payloadEvent(true, pv, vsmMeta{}))
}

func (g *vsmGen) prefixNextPeriods(n int, value bool) {
	for i := 0; i < n && !g.dead; i++ {
		R, P := g.pl().Round, g.pl().Period
		pv := bottom
		if value {
			pv = g.favoured(vsmKey{R, P, soft})
		}
		g.push(g.c.bundleEvent(true, R, P, next, pv, g.quorum(R, P, next, false), nil, vsmMeta{}))
	}
}

// the frozen seeker / late credential path (C07 finding c07_late_credential_tracking_not_persisted)
func (g *vsmGen) prefixLateCredential() {
	R, P := g.pl().Round, g.pl().Period
	vs := g.values(R)
	pv := vs[0]
	v, rank := g.c.mkVote(1, R, P, propose, pv)
	g.push(g.c.voteEvent(true, v, rank, vsmMeta{}, nil))
	g.push(g.c.timeoutEvent(false, 9, false, R)) // freeze + soft vote (persistent action)
	for sn := uint64(2); sn <= 4; sn++ {
		v2, rank2 := g.c.mkVote(sn, R, P, propose, vs[len(vs)-1])
		g.push(g.c.voteEvent(true, v2, rank2, vsmMeta{}, nil))
	}
}

// Directed equivocation schedule for the cert step (C03 "distinct voters whose total weight reaches the
// threshold"): X votes the winning value A and then equivocates, Z votes another value and then
// equivocates, repeats / stale copies of their votes are interleaved in random order, and the honest
// filler votes for A are chosen so that the quorum is crossed only WITH the equivocators' weight while
// (fillers + X) stays below the threshold: a tracker that keeps X's stale first vote packs X twice.
func (g *vsmGen) prefixEquivCert() {
	R, P := g.pl().Round, g.pl().Period
	c := g.c
	vs := g.values(R)
	A, B := vs[0], vs[len(vs)-1]
	if A == B {
		B = c.newValue(R, 0, 1+uint64(c.rnd.Intn(int(g.ns))))
		g.pool[R] = append(g.pool[R], B)
	}
	g.fav[vsmKey{R, P, soft}] = A
	g.hasFav[vsmKey{R, P, soft}] = true
	T := cert.threshold(c.proto)
	w := func(s uint64) uint64 { return c.weight(s, R, P, cert) }
	// search X, Z, fillers (senders 1..10) satisfying the window
	type plan struct {
		x, z    uint64
		fillers []uint64 // last one crosses the threshold
	}
	var plans []plan
	for x := uint64(1); x <= 10; x++ {
		for z := uint64(1); z <= 10; z++ {
			if z == x {
				continue
			}
			E := w(x) + w(z)
			var others []uint64
			for s := uint64(1); s <= 10; s++ {
				if s != x && s != z {
					others = append(others, s)
				}
			}
			for mask := 1; mask < 1<<uint(len(others)); mask++ {
				var f []uint64
				var sum uint64
				for i, s := range others {
					if mask&(1<<uint(i)) != 0 {
						f = append(f, s)
						sum += w(s)
					}
				}
				if len(f) < 2 || len(f) > 3 {
					continue
				}
				last := f[len(f)-1]
				if sum+E >= T && sum-w(last)+E < T && sum+w(x) < T {
					plans = append(plans, plan{x, z, f})
				}
			}
		}
	}
	if len(plans) == 0 {
		return
	}
	pl := plans[c.rnd.Intn(len(plans))]
	// block A proposed, payload validated (so that the cert threshold commits)
	pvv, rank := c.mkVote(vsmSnd(A.OriginalProposer), R, P, propose, A)
	g.push(c.voteEvent(true, pvv, rank, vsmMeta{}, nil))
	g.push(c.payloadEvent(true, A, vsmMeta{}))
	send := func(s uint64, v proposalValue) {
		if g.dead || g.pl().Round != R {
			return
		}
		vv, rk := c.mkVote(s, R, P, cert, v)
		g.push(c.voteEvent(true, vv, rk, vsmMeta{}, nil))
		g.noteSent(vv)
	}
	// constrained random order: fillers[0] and X->A first (X's entry must not be the only vote when X
	// equivocates), Z->B before Z->A, X->A before X->B; repeats / stale copies anywhere after their original
	type ev struct {
		s uint64
		v proposalValue
	}
	first := []ev{{pl.fillers[0], A}, {pl.x, A}}
	if c.rnd.Bool() {
		first[0], first[1] = first[1], first[0]
	}
	mid := []ev{{pl.z, B}, {pl.x, B}, {pl.z, A}}
	// shuffle mid keeping Z->B before Z->A
	for tries := 0; tries < 4; tries++ {
		i, j := c.rnd.Intn(3), c.rnd.Intn(3)
		mid[i], mid[j] = mid[j], mid[i]
	}
	zb, za := -1, -1
	for i, e := range mid {
		if e.s == pl.z && e.v == B {
			zb = i
		}
		if e.s == pl.z && e.v == A {
			za = i
		}
	}
	if zb > za {
		mid[zb], mid[za] = mid[za], mid[zb]
	}
	seq := append(first, mid...)
	for _, f := range pl.fillers[1 : len(pl.fillers)-1] {
		k := 2 + c.rnd.Intn(len(seq)-1)
		seq = append(seq[:k:k], append([]ev{{f, A}}, seq[k:]...)...)
	}
	// stale copies / repeats of A and B votes of the equivocators and of a filler
	for n := c.rnd.Intn(4); n > 0; n-- {
		k := 2 + c.rnd.Intn(len(seq)-1)
		cp := []ev{{pl.x, A}, {pl.x, B}, {pl.z, A}, {pl.z, B}, {pl.fillers[0], A}}[c.rnd.Intn(5)]
		seq = append(seq[:k:k], append([]ev{cp}, seq[k:]...)...)
	}
	for _, e := range seq {
		send(e.s, e.v)
	}
	send(pl.fillers[len(pl.fillers)-1], A) // crosses the threshold only together with the equivocators
	for n := c.rnd.Intn(3); n > 0; n-- {
		cp := []ev{{pl.x, A}, {pl.x, B}, {pl.z, A}}[c.rnd.Intn(3)]
		send(cp.s, cp.v)
	}
}

// tagged: valid cert bundle of an old period => router GC nil dereference
func (g *vsmGen) prefixNilRouter() {
	g.prefixNextPeriods(4, false)
	R := g.pl().Round
	if g.dead || g.pl().Period < 4 {
		return
	}
	pv := g.favoured(vsmKey{R, 2, soft})
	g.push(g.c.bundleEvent(true, R, 2, cert, pv, g.quorum(R, 2, cert, false), nil, vsmMeta{}))
}

func vsmGenerate(c *vsmCtx, r0 round, n int, scenario int, prefix string, stats *vsmStats) *vsmGen {
	sc := vsmScenarios[scenario%len(vsmScenarios)]
	g := &vsmGen{c: c, m: vsmNewMachine(c.ver, r0), pool: map[round][]proposalValue{}, fav: map[vsmKey]proposalValue{},
		hasFav: map[vsmKey]bool{}, sent: map[vsmKey]map[uint64]proposalValue{}, w: sc.w, ns: 7, stats: stats, flagsP: 25}
	g.run.end = "(ok)"
	stats.scripts++
	stats.scenarios[sc.name+"/"+prefix]++
	switch prefix {
	case "happy":
		g.prefixHappyRound()
	case "latepayload":
		g.prefixLatePayload()
	case "next":
		g.prefixNextPeriods(1+c.rnd.Intn(3), c.rnd.Bool())
	case "latecred":
		g.prefixLateCredential()
	case "nilrouter":
		g.prefixNilRouter()
	case "equivcert":
		g.prefixEquivCert()
	}
	r00, p00 := g.pl().Round, g.pl().Period
	for len(g.events) < n && !g.dead {
		g.stepOnce()
		if g.pl().Round != r00 {
			stats.roundChanges++
			r00, p00 = g.pl().Round, g.pl().Period
		} else if g.pl().Period != p00 {
			stats.periodChanges++
			p00 = g.pl().Period
		}
	}
	return g
}

// ---------------------------------------------------------------- one case line

func vsmB(b bool) string {
	if b {
		return "1"
	}
	return "0"
}

func (c *vsmCtx) obsList(r vsmRun, withDigest bool) string {
	var sb strings.Builder
	sb.WriteByte('(')
	for i, o := range r.obs {
		if i > 0 {
			sb.WriteByte(' ')
		}
		if withDigest {
			sb.WriteString("(" + o.acts + " " + o.digest + ")")
		} else {
			sb.WriteString(o.acts)
		}
	}
	sb.WriteByte(')')
	return sb.String()
}

// after a Go panic the state is half-updated: not rendered
func (c *vsmCtx) finalState(m *vsmMachine, r vsmRun) string {
	if r.end != "(ok)" {
		return "()"
	}
	return c.renderState(m)
}

// forkLine: replay events[:k] on a fresh machine, run the real encode/decode, then run BOTH the
// original and the restored machine on the remaining events (minus verification results of crypto
// tasks that were in flight at the crash) and record everything.
func (g *vsmGen) forkLine(r0 round, f vsmFork) string {
	c := g.c
	orig := vsmNewMachine(c.ver, r0)
	pre := c.runEvents(orig, g.events[:f.k], false)
	if pre.end != "(ok)" || len(pre.obs) != f.k {
		return vT(vSym("forkerr"), f.k, vSym("replay_diverged"))
	}
	var acts []action
	if f.k > 0 {
		acts = pre.rawActs[f.k-1]
	}
	if !vsmPersistent(acts) || !vsmDecodable(acts) {
		if vsmPersistent(acts) {
			g.stats.undecodablePersistent++
		}
		acts = nil
	}
	rest := make([]vsmEvent, 0, len(g.events)-f.k)
	dropped := 0
	for _, e := range g.events[f.k:] {
		if vsmStaleTask(orig.player(), e.ev) {
			dropped++
			continue
		}
		rest = append(rest, e)
	}
	restored, decoded, errs := vsmRestore(orig, acts, f.reflect)
	g.stats.forks++
	if errs != "" {
		g.stats.decodeErrs++
		return vT(vSym("fork"), f.k, f.reflect, vSym("decode_failed"), errs)
	}
	actsEq := vT(c.renderActions(acts)...) == vT(c.renderActions(decoded)...)
	rd0 := c.renderState(restored)
	ro := c.runEvents(orig, rest, false)
	rr := c.runEvents(restored, rest, false)
	same := ro.end == rr.end && len(ro.obs) == len(rr.obs)
	if same {
		for i := range ro.obs {
			if ro.obs[i].acts != rr.obs[i].acts {
				same = false
				break
			}
		}
	}
	if !same {
		g.stats.forkDiffs++
	}
	return "(fork " + fmt.Sprint(f.k) + " " + vsmB(f.reflect) + " " + vsmB(actsEq) + " " + fmt.Sprint(dropped) + " " + rd0 + " " +
		c.obsList(ro, false) + " " + ro.end + " " + c.finalState(orig, ro) + " " +
		c.obsList(rr, false) + " " + rr.end + " " + c.finalState(restored, rr) + ")"
}

func (g *vsmGen) caseLine(r0 round, maxForks int) string {
	c := g.c
	// fork points: after every step with a persistent action (capped), plus random others
	var forks []vsmFork
	var pers []int
	for i, a := range g.run.rawActs {
		if vsmPersistent(a) {
			pers = append(pers, i+1)
			g.stats.persistentSteps++
		}
	}
	for len(pers) > maxForks-1 && maxForks > 1 {
		i := c.rnd.Intn(len(pers))
		pers = append(pers[:i:i], pers[i+1:]...)
	}
	for _, k := range pers {
		forks = append(forks, vsmFork{k: k, reflect: c.rnd.Intn(5) == 0})
	}
	if n := len(g.run.obs); n > 0 && maxForks > 0 {
		forks = append(forks, vsmFork{k: c.rnd.Intn(n + 1), reflect: c.rnd.Intn(5) == 0})
	}
	var sb strings.Builder
	sb.WriteString("(sm ")
	sb.WriteString(vT(c.params()...))
	sb.WriteString(" " + fmt.Sprint(uint64(r0)) + " (")
	for i, e := range g.events {
		if i > 0 {
			sb.WriteByte(' ')
		}
		sb.WriteString(e.term)
	}
	sb.WriteString(") ")
	sb.WriteString(c.obsList(g.run, true))
	sb.WriteString(" " + g.run.end + " (")
	for i, f := range forks {
		if i > 0 {
			sb.WriteByte(' ')
		}
		sb.WriteString(g.forkLine(r0, f))
	}
	sb.WriteString("))")
	return sb.String()
}

func TestVerifSM(t *testing.T) {
	defer vsmDevNull()()
	n := vEnvInt("VERIF_SM_N", 120)
	evs := vEnvInt("VERIF_SM_EVENTS", 60)
	maxForks := vEnvInt("VERIF_SM_FORKS", 5)
	rnd := vNewRand(0xa9ee)
	out := vOpen("cases_sm.txt")
	defer out.Close()
	stats := vsmNewStats()
	versions := []protocol.ConsensusVersion{protocol.ConsensusCurrentVersion, protocol.ConsensusV38}
	prefixes := []string{"", "happy", "latepayload", "next", "latecred", "", "happy", "", "equivcert"}
	if os.Getenv("VERIF_SEARCH") != "" {
		// violation search: mostly directed schedules
		prefixes = []string{"equivcert", "equivcert", "happy", "latepayload", "next", "latecred", ""}
	}
	nilCases := 0
	for i := 0; i < n; i++ {
		ver := versions[i%len(versions)]
		c := vsmNewCtx(ver, rnd)
		prefix := prefixes[rnd.Intn(len(prefixes))]
		if nilCases < 2 && i%37 == 5 {
			prefix = "nilrouter"
			nilCases++
		}
		r0 := round(2 + rnd.Intn(40))
		if rnd.Intn(6) == 0 {
			r0 = round(1 + rnd.Intn(3))
		}
		g := vsmGenerate(c, r0, evs/2+rnd.Intn(evs), rnd.Intn(len(vsmScenarios)), prefix, stats)
		out.Line(g.caseLine(r0, maxForks))
	}
	vStats(map[string]interface{}{
		"scripts": stats.scripts, "events": stats.events, "event_kinds": stats.kinds, "actions": stats.actions,
		"panics": stats.panics, "panic_classes": stats.panicClasses, "forks": stats.forks, "fork_diffs": stats.forkDiffs,
		"decode_errors": stats.decodeErrs, "persistent_steps": stats.persistentSteps,
		"undecodable_persistent_action_lists": stats.undecodablePersistent,
		"ensure_actions": stats.ensures, "attest_actions": stats.attests, "period_changes": stats.periodChanges,
		"round_changes": stats.roundChanges, "max_period": stats.maxPeriod, "max_step": stats.maxStep,
		"credential_history_full_steps(must be 0)": stats.historyFull, "scenarios": stats.scenarios,
	})
	if stats.historyFull != 0 {
		t.Fatalf("lowestCredentialArrivals became full: the model's calculateFilterTimeout path is not the one taken")
	}
}

// TestVerifSMNilRouterNote writes the minimal script that crashes submitTop with a nil period
// router (router.go garbage collection) into $VERIF_SM_NOTE (not part of any check's case stream).
func TestVerifSMNilRouterNote(t *testing.T) {
	path := os.Getenv("VERIF_SM_NOTE")
	if path == "" {
		t.Skip("VERIF_SM_NOTE not set")
	}
	defer vsmDevNull()()
	rnd := vNewRand(0x911)
	stats := vsmNewStats()
	var sb strings.Builder
	// (a) a valid cert bundle of period 2 delivered while the player is in period 4
	{
		c := vsmNewCtx(protocol.ConsensusCurrentVersion, rnd)
		g := vsmGenerate(c, 20, 0, 0, "nilrouter", stats)
		sb.WriteString("# (a) next-bottom bundles of periods 0..3, then a verified CERT bundle of period 2: " + g.run.end + " -- " + g.run.panicMsg + "\n")
		sb.WriteString(g.caseLine(20, 0) + "\n")
	}
	if err := os.WriteFile(path, []byte(sb.String()), 0644); err != nil {
		t.Fatal(err)
	}
}
