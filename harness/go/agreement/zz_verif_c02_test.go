//go:build verif

package agreement

// C02 correspondence harness: honest nodes never equivocate, even across crashes.
//
// Drives the REAL Service.mainLoop (goroutine, unbuffered input/output/ready channels exactly as
// Service.Start wires them), the REAL persistState / asyncPersistenceLoop / persist / restore /
// decode on a REAL crash-DB accessor, with generated event scripts (zz_verif_sm_gen_test.go) and an
// emulated demuxLoop written here:
//   actions.go   the REAL pseudonodeAction.do / checkpointAction.do / rezeroAction.do are called (with
//                a real demux value for prioritize and a fake pseudonode behind the `pseudonode`
//                interface); network / crypto / ledger actions are not executed (the scripts already
//                contain the verification results)
//   pseudonode.go pseudonodeVotesTask.execute is MIRRORED by the fake pseudonode: a goroutine per
//                MakeVotes call waits on persistStateDone and writes the votes to its output channel only
//                when it was closed without error (drops them otherwise); MakeProposals and MakeVotes for
//                step 0 answer "no keys" (proposal-votes are outside the property)
//   demux.go     next() is MIRRORED: FIFO over the real demux.queue of prioritized channels; head channel
//                open-but-empty => other events may be delivered meanwhile (so script events can
//                interleave with a slow persist)
// Votes are fabricated (vsmCtx.mkVote, own senders 101 and 102), keyed (sender, round, period, step, value).
// The moment at which the persistence loop writes is controlled through LedgerReader.Wait (the loop
// waits for the previous round before every write): the stub ledger hands out a gate channel.
// PersistFail = the loop's accessor is swapped for a closed one for that write (persist returns the
// sql error, the checkpoint event carries Err).  Crash = close(input), quit the persistence loop,
// abandon the Service value and every pending task; restart = a fresh Service on the same accessor
// (real restore + decode + re-emission of the saved actions).
//
// CRASH POINTS (enumerated for the first VERIF_C02_ATTESTS persist requests of every script):
//   a0 after the attest action was emitted (before demuxLoop executes it)
//   a1 after it was executed (persist request enqueued, nothing written)
//   b  after persist returned (row written, checkpoint event not yet delivered)
//   c  after the checkpoint event went through the state machine (checkpointAction not executed)
//   d  after the release of the votes (own votes not yet fed back)
//   two crashes in a row: crash at b / d, restart, the re-emitted attest is executed and persisted
//   (x1: crash right after that write; x2: after the re-release), restart, rest of the script, then
//   an adversarial tail (a fresh proposal + timeouts) -- the schedule of DESIGN 8.3 F6.
//
// CASE LINE  (c02 params round0 (own ...) (op ...) plan_tag), ops in execution order:
//   (start restored (action ...))            mainLoop started: 1 = crash state restored and re-emitted
//   (ev src event (action ...))              event fed to mainLoop and its output; src s = script,
//                                            k = checkpoint event from the persistence loop, o = own vote
//   (do ((snd rnd per step value) ...))      demuxLoop executed the last output; votes released by it
//   (write ok (rnd per step) (action ...) digest)   one request written (ok=1) or failed (ok=0), then what
//                                            restore+decode read back from the crash DB ( (nodisk) if none)
//   (crash)
// Wire terms as in zz_verif_sm_test.go.  A shadow rootRouter+player (restored from the same DB after
// a crash) is fed every event first, under recover(): an event on which submitTop panics ends the
// case (mainLoop has no recover); its action lists must equal mainLoop's (counted, must be 0 diffs).

import (
	"context"
	"fmt"
	"strings"
	"sync"
	"testing"

	"github.com/algorand/go-algorand/logging"
	"github.com/algorand/go-algorand/protocol"
	"github.com/algorand/go-algorand/util/db"
)

// ---------------------------------------------------------------- ledger stub

type vc02Ledger struct {
	Ledger // nil: only the three methods below are reached from mainLoop / the persistence loop
	next   round
	ver    protocol.ConsensusVersion
	gate   chan struct{}
}

func (l *vc02Ledger) NextRound() round { return l.next }
func (l *vc02Ledger) ConsensusVersion(round) (protocol.ConsensusVersion, error) {
	return l.ver, nil
}
func (l *vc02Ledger) Wait(round) chan struct{} { return l.gate }

// ---------------------------------------------------------------- node

type vc02Req struct {
	id     int
	done   chan error
	events <-chan externalEvent // persistCompleteEvents (from the real persistState via demux.queue)
	out    chan externalEvent   // voteEvents of the fake pseudonode
	votes  []vsmRankedVote
	result chan int // 1 released, 0 dropped
	delay  int
	fail   bool
}

// bookkeeping for one channel of the real demux.queue
type vc02QEntry struct {
	req    *vc02Req
	ckpt   bool
	ready  []vsmEvent // events already taken off the channel, not yet delivered
	src    string
	closed bool // the channel was drained and closed
}

// the fake behind Service.loopback
type vc02Pseudonode struct{ n *vc02Node }

func (f vc02Pseudonode) MakeProposals(ctx context.Context, r round, p period) (<-chan externalEvent, error) {
	return nil, errPseudonodeNoProposals
}

func (f vc02Pseudonode) Quit() {}

// MakeVotes mirrors asyncPseudonode.MakeVotes + pseudonodeVotesTask.execute
func (f vc02Pseudonode) MakeVotes(ctx context.Context, r round, p period, st step, prop proposalValue, persistStateDone chan error) (chan externalEvent, error) {
	n := f.n
	if st == propose {
		return nil, errPseudonodeNoVotes
	}
	n.reqSeq++
	n.st.requests++
	n.st.steps[fmt.Sprint(uint64(st))]++
	req := &vc02Req{id: n.reqSeq, done: persistStateDone, out: make(chan externalEvent), result: make(chan int, 1)}
	if n.reqSeq < len(n.delays) {
		req.delay, req.fail = n.delays[n.reqSeq], n.fails[n.reqSeq]
	}
	if req.id == n.noFail {
		req.fail = false // the request whose crash points are enumerated is written successfully
	}
	var evs []externalEvent
	for _, snd := range n.own {
		v, rank := n.c.mkVote(snd, r, p, st, prop)
		req.votes = append(req.votes, vsmRankedVote{v, rank})
		evs = append(evs, n.c.voteEvent(true, v, rank, vsmMeta{hnil: true}, nil).ev.(externalEvent))
	}
	quit := n.quit
	go func() {
		defer close(req.out)
		// wait until the persist state is flushed, as we don't want to send any vote unless we've completed flushing it to disk
		select {
		case err, ok := <-req.done:
			if ok && err != nil {
				req.result <- 0 // votes dropped due to disk persistence failure
				return
			}
		case <-quit:
			return
		}
		req.result <- 1
		for _, e := range evs {
			select {
			case req.out <- e:
			case <-quit:
				return
			}
		}
	}()
	n.newReqs = append(n.newReqs, req)
	return req.out, nil
}

type vc02Stats struct {
	cases, ops, events, writes, fails, crashes, restored, fresh, released, dropped int
	shadowDiffs, shadowPanics, requests, okMismatch                                int
	points                                                                         map[string]int
	scenarios                                                                      map[string]int
	kinds                                                                          map[string]int
	steps                                                                          map[string]int
}

type vc02Node struct {
	t      *testing.T
	c      *vsmCtx
	r0     round
	own    []uint64
	acc    db.Accessor
	bad    db.Accessor
	led    *vc02Ledger
	log    serviceLogger
	st     *vc02Stats
	s      *Service
	input  chan externalEvent
	output chan []action
	ready  chan externalDemuxSignals
	quit   chan struct{}
	wg     sync.WaitGroup
	shadow *vsmMachine
	cur    []action
	hasCur bool
	queue  []*vc02QEntry // parallel to s.demux.queue
	newReqs []*vc02Req
	reqs   []*vc02Req // enqueued, not yet written
	byDone map[chan error]*vc02Req
	reqSeq int
	ops    []string
	dead   bool
	delays []int
	fails  []bool
	noFail int
}

func (n *vc02Node) op(s string) {
	n.ops = append(n.ops, s)
	n.st.ops++
}

// start: a fresh Service value on the crash DB; the real mainLoop restores / decodes / re-emits
func (n *vc02Node) start() {
	n.s = &Service{log: n.log, parameters: parameters{Accessor: n.acc, Ledger: n.led, Clock: makeTestingClock(nil)},
		tracer: &tracer{log: n.log}, historicalClocks: make(map[round]roundStartTimer),
		demux: &demux{}, loopback: vc02Pseudonode{n}}
	n.s.persistenceLoop = makeAsyncPersistenceLoop(n.s.log, n.acc, n.led)
	n.s.persistenceLoop.Start()
	// shadow machine: the same restore/decode as mainLoop
	usable := false
	raw, err := restore(n.log, n.acc)
	if err == nil {
		_, rr, st, _, derr := decode(raw, makeTestingClock(nil), n.log, false)
		if derr == nil && st.Round >= n.led.NextRound() {
			usable = true
			n.shadow = &vsmMachine{rr: &rr, tr: &tracer{log: n.log}}
		}
	}
	if !usable {
		n.shadow = vsmNewMachine(n.c.ver, n.r0)
	}
	n.input = make(chan externalEvent)
	n.output = make(chan []action)
	n.ready = make(chan externalDemuxSignals)
	n.quit = make(chan struct{})
	n.byDone = map[chan error]*vc02Req{}
	n.s.wg.Add(1)
	go n.s.mainLoop(n.input, n.output, n.ready)
	a := <-n.output
	sig := <-n.ready
	restored := 0
	if vc02HasAttest(a) {
		restored = 1
	}
	// cross-check with what the harness itself read from the DB
	if (restored == 1) != usable || sig.CurrentRound != n.shadow.player().Round {
		n.t.Fatalf("c02: mainLoop start (restored=%d, round %d) disagrees with the crash DB (usable=%v, round %d)", restored, sig.CurrentRound, usable, n.shadow.player().Round)
	}
	if restored == 1 {
		n.st.restored++
	} else {
		n.st.fresh++
	}
	n.op(vT(vSym("start"), restored, n.c.renderActions(a)))
	n.cur, n.hasCur = a, true
}

func vc02HasAttest(as []action) bool {
	for _, a := range as {
		if x, ok := a.(pseudonodeAction); ok && x.T == attest {
			return true
		}
	}
	return false
}

// feed one event to the real mainLoop (after the shadow accepted it)
func (n *vc02Node) feed(e vsmEvent, src string) {
	sacts, pc, _ := n.shadow.submit(e.ev)
	if pc != "" {
		n.st.shadowPanics++
		n.dead = true
		return
	}
	n.input <- e.ev.(externalEvent)
	a := <-n.output
	<-n.ready
	ra := n.c.renderActions(a)
	if vT(ra...) != vT(n.c.renderActions(sacts)...) {
		n.st.shadowDiffs++
	}
	n.st.events++
	n.st.kinds[src+":"+e.kind]++
	n.op("(ev " + src + " " + e.term + " " + vT(ra...) + ")")
	n.cur, n.hasCur = a, true
}

// do: the emulated Service.do of the last output
func (n *vc02Node) do() (created []int, releasedReq []int) {
	rel := vL()
	ctx := context.Background()
	for _, a := range n.cur {
		switch x := a.(type) {
		case pseudonodeAction:
			n.newReqs = nil
			before := len(n.s.demux.queue)
			x.do(ctx, n.s) // REAL: MakeVotes (fake), persistState, prioritize x 2
			if len(n.newReqs) == 0 {
				continue // assemble / repropose: no proposal-votes of our own
			}
			req := n.newReqs[0]
			q := n.s.demux.queue
			if len(n.newReqs) != 1 || len(q) != before+2 || q[before+1] != (<-chan externalEvent)(req.out) {
				n.t.Fatalf("c02: attest action did not prioritize (persistCompleteEvents, voteEvents): %d new channels", len(q)-before)
			}
			req.events = q[before]
			n.byDone[req.done] = req
			n.reqs = append(n.reqs, req)
			n.queue = append(n.queue, &vc02QEntry{req: req, ckpt: true, src: "k"}, &vc02QEntry{req: req, src: "o"})
			created = append(created, req.id)
		case checkpointAction:
			x.do(ctx, n.s) // REAL
			req := n.byDone[x.done]
			if x.done == nil || req == nil {
				continue // a scripted checkpoint event (no completion channel)
			}
			var ent *vc02QEntry
			for _, q := range n.queue {
				if q.req == req && !q.ckpt {
					ent = q
				}
			}
			if ent == nil {
				n.t.Fatalf("c02: checkpoint for a request without a vote channel")
			}
			if <-req.result == 1 {
				i := 0
				for e := range req.out { // the fake pseudonode writes the votes and closes the channel
					rv := req.votes[i]
					i++
					rel = append(rel, n.c.tRawVote(rv.v.R))
					ent.ready = append(ent.ready, vsmEvent{ev: e, term: n.c.voteEvent(true, rv.v, rv.rank, vsmMeta{hnil: true}, nil).term, kind: "vote"})
					n.st.released++
				}
				releasedReq = append(releasedReq, req.id)
			} else {
				for range req.out {
				}
				n.st.dropped += len(req.votes)
			}
			ent.closed = true
		case rezeroAction:
			x.do(ctx, n.s) // REAL
		}
	}
	n.op(vT(vSym("do"), rel))
	n.cur, n.hasCur = nil, false
	return
}

func (n *vc02Node) diskObs() string {
	raw, err := restore(n.log, n.acc)
	if err != nil {
		return "(nodisk)"
	}
	_, rr, st, a, derr := decode(raw, makeTestingClock(nil), n.log, false)
	if derr != nil {
		return "(undecodable)"
	}
	m := &vsmMachine{rr: &rr, tr: &tracer{log: n.log}}
	return vT(vL(uint64(st.Round), uint64(st.Period), uint64(st.Step)), n.c.renderActions(a)) + " " + n.c.renderState(m)
}

// write: let the persistence loop handle its oldest request
func (n *vc02Node) write(ok bool) *vc02Req {
	req := n.reqs[0]
	n.reqs = n.reqs[1:]
	if !ok {
		n.s.persistenceLoop.crashDb = n.bad
	}
	n.led.gate <- struct{}{}
	ev := <-req.events
	if _, open := <-req.events; open {
		n.t.Fatalf("c02: persistence loop left the events channel open")
	}
	n.s.persistenceLoop.crashDb = n.acc
	ce, isCkpt := ev.(checkpointEvent)
	if !isCkpt {
		n.t.Fatalf("c02: persistence loop answered %+v", ev)
	}
	if (ce.Err == nil) != ok {
		n.st.okMismatch++ // injected failure not reported (or a spurious one): the case records what the loop REPORTED
	}
	ok = ce.Err == nil
	for _, q := range n.queue {
		if q.req == req && q.ckpt {
			q.ready = append(q.ready, vsmEvent{ev: ce, term: vT(vSym("ckpt"), uint64(ce.Round), uint64(ce.Period), uint64(ce.Step), ce.Err != nil), kind: "ckpt"})
			q.closed = true
		}
	}
	n.st.writes++
	if !ok {
		n.st.fails++
	}
	okI := 0
	if ok {
		okI = 1
	}
	n.op("(write " + fmt.Sprint(okI) + " " + n.diskObs() + ")")
	return req
}

func (n *vc02Node) crash() {
	close(n.input)
	for range n.output { // mainLoop closes output on exit
	}
	close(n.quit)
	n.s.persistenceLoop.Quit()
	n.s.wg.Wait()
	n.queue, n.reqs, n.cur, n.hasCur = nil, nil, nil, false
	n.st.crashes++
	n.op("(crash)")
}

// demux.next over the prioritized queue: (event, true) if the head channel has one
func (n *vc02Node) popReady() (vsmEvent, string, *vc02Req, bool) {
	for len(n.queue) > 0 {
		h := n.queue[0]
		if len(h.ready) > 0 {
			e := h.ready[0]
			h.ready = h.ready[1:]
			return e, h.src, h.req, true
		}
		if h.closed {
			n.queue = n.queue[1:]
			n.s.demux.queue = n.s.demux.queue[1:] // demux.next: the channel got closed, remove it from the queue
			continue
		}
		break
	}
	return vsmEvent{}, "", nil, false
}

// ---------------------------------------------------------------- plans

const (
	vc02A0 = iota
	vc02A1
	vc02B
	vc02C
	vc02D
)

var vc02PointNames = []string{"a0", "a1", "b", "c", "d"}

type vc02Plan struct {
	crashAt int // request id; 0 = no crash
	point   int
	second  int // 0 none, 1 = crash again after the re-persist (b), 2 = after the re-release (d)
	tail    bool
}

func (p vc02Plan) name() string {
	if p.crashAt == 0 {
		return "none"
	}
	s := vc02PointNames[p.point]
	if p.second > 0 {
		s += fmt.Sprintf("+x%d", p.second)
	}
	return s
}

type vc02Script struct {
	c      *vsmCtx
	r0     round
	events []vsmEvent
	delays []int
	fails  []bool
	noFail int
}

// runPlan executes one schedule on a fresh crash DB and returns the case line and the number of requests
func vc02Run(t *testing.T, sc *vc02Script, plan vc02Plan, st *vc02Stats, seq int) (string, int) {
	name := fmt.Sprintf("%s_c02_%d_crash.db", t.Name(), seq)
	acc, err := db.MakeAccessor(name, false, true)
	if err != nil {
		t.Fatal(err)
	}
	defer acc.Close()
	bad, err := db.MakeAccessor(name+"_closed", false, true)
	if err != nil {
		t.Fatal(err)
	}
	bad.Handle.Close() // keeps the handle: every Atomic on it fails with "sql: database is closed"
	log := serviceLogger{Logger: logging.Base()}
	n := &vc02Node{t: t, c: sc.c, r0: sc.r0, own: []uint64{101, 102}, acc: acc, bad: bad, log: log, st: st,
		led: &vc02Ledger{next: sc.r0, ver: sc.c.ver, gate: make(chan struct{})}, delays: sc.delays, fails: sc.fails, noFail: plan.crashAt}
	st.cases++
	st.points[plan.name()]++
	tag := fmt.Sprintf("plan_%s_req%d", strings.ReplaceAll(plan.name(), "+", "_"), plan.crashAt)
	n.start()
	script := sc.events
	si := 0
	doCrash := func() {
		n.crash()
		n.start()
		if plan.second > 0 && vc02HasAttest(n.cur) {
			plan.crashAt, plan.point, plan.second = n.reqSeq+1, []int{vc02B, vc02B, vc02D}[plan.second], 0
			n.noFail = plan.crashAt
		} else {
			plan.crashAt, plan.second = 0, 0
		}
	}
	for guard := 0; !n.dead && guard < 100000; guard++ {
		if n.hasCur {
			if plan.crashAt == n.reqSeq+1 && plan.point == vc02A0 && vc02HasAttest(n.cur) {
				doCrash()
				continue
			}
			// asyncPersistenceLoop.Enqueue blocks demuxLoop when two requests are outstanding
			for vc02HasAttest(n.cur) && len(n.reqs) >= 2 {
				n.write(!n.reqs[0].fail)
			}
			created, released := n.do()
			hit := false
			for _, id := range created {
				hit = hit || (id == plan.crashAt && plan.point == vc02A1)
			}
			for _, id := range released {
				hit = hit || (id == plan.crashAt && plan.point == vc02D)
			}
			if hit {
				doCrash()
			}
			continue
		}
		if e, src, req, ok := n.popReady(); ok {
			n.feed(e, src)
			if src == "k" && req.id == plan.crashAt && plan.point == vc02C && !n.dead {
				doCrash()
			}
			continue
		}
		if len(n.reqs) > 0 {
			req := n.reqs[0]
			if req.delay > 0 && si < len(script) {
				req.delay--
				n.feed(script[si], "s")
				si++
				continue
			}
			n.write(!req.fail)
			if req.id == plan.crashAt && plan.point == vc02B {
				doCrash()
			}
			continue
		}
		if si < len(script) {
			n.feed(script[si], "s")
			si++
			continue
		}
		if plan.tail {
			// adversarial tail: a proposal nobody has seen for the node's current period, then timeouts
			plan.tail = false
			pl := n.shadow.player()
			R, P := pl.Round, pl.Period
			pv := sc.c.newValue(R, P, 3)
			v, rank := sc.c.mkVote(3, R, P, propose, pv)
			script = append(script, sc.c.voteEvent(true, v, rank, vsmMeta{}, nil), sc.c.timeoutEvent(false, 11, false, R),
				sc.c.timeoutEvent(false, 12, false, R))
			continue
		}
		break
	}
	nreq := n.reqSeq
	// shut the last Service down (not recorded: the case is over)
	close(n.input)
	for range n.output {
	}
	close(n.quit)
	n.s.persistenceLoop.Quit()
	n.s.wg.Wait()
	var sb strings.Builder
	sb.WriteString("(c02 " + vT(sc.c.params()...) + " " + fmt.Sprint(uint64(sc.r0)) + " (101 102) (")
	for i, o := range n.ops {
		if i > 0 {
			sb.WriteByte(' ')
		}
		sb.WriteString(o)
	}
	sb.WriteString(") " + tag + ")")
	return sb.String(), nreq
}

// the minimal script of the F6 schedule: one proposal, filter timeout => soft vote
func vc02Directed(c *vsmCtx, r0 round) *vc02Script {
	pv := c.newValue(r0, 0, 1)
	v, rank := c.mkVote(1, r0, 0, propose, pv)
	return &vc02Script{c: c, r0: r0, events: []vsmEvent{c.voteEvent(true, v, rank, vsmMeta{}, nil), c.timeoutEvent(false, 5, false, r0)}}
}

// quorum of senders 1..7 for (r,p,s)
func vc02Quorum(c *vsmCtx, r round, p period, s step) []uint64 {
	var snds []uint64
	var w uint64
	for sn := uint64(1); sn <= 7 && w < s.threshold(c.proto); sn++ {
		snds = append(snds, sn)
		w += c.weight(sn, r, p, s)
	}
	return snds
}

// hypothesis-violating script (AgreementAttestOnce.script_redo on the real code): a next quorum for v1
// moves the node to period 1 and the fast-recovery timer votes redo v1; a late-step quorum of period 0
// for v2 then overwrites voteTrackerPeriod.Cached and the next fast-recovery vote is redo v2
func vc02DirectedRedo(c *vsmCtx, r0 round) *vc02Script {
	v1, v2 := c.newValue(r0, 0, 1), c.newValue(r0, 0, 2)
	return &vc02Script{c: c, r0: r0, events: []vsmEvent{
		c.bundleEvent(true, r0, 0, next, v1, vc02Quorum(c, r0, 0, next), nil, vsmMeta{}),
		c.timeoutEvent(true, 3, false, r0), c.timeoutEvent(true, 4, false, r0),
		c.bundleEvent(true, r0, 0, late, v2, vc02Quorum(c, r0, 0, late), nil, vsmMeta{}),
		c.timeoutEvent(true, 5, false, r0)}}
}

func TestVerifC02(t *testing.T) {
	defer vsmDevNull()()
	nScripts := vEnvInt("VERIF_C02_N", 24)
	evs := vEnvInt("VERIF_C02_EVENTS", 36)
	maxAtt := vEnvInt("VERIF_C02_ATTESTS", 3)
	rnd := vNewRand(0xc02)
	out := vOpen("cases_c02.txt")
	defer out.Close()
	st := &vc02Stats{points: map[string]int{}, scenarios: map[string]int{}, kinds: map[string]int{}, steps: map[string]int{}}
	gst := vsmNewStats()
	seq := 0
	run := func(sc *vc02Script, plan vc02Plan) int {
		seq++
		line, nreq := vc02Run(t, sc, plan, st, seq)
		out.Line(line)
		return nreq
	}
	// ---- directed: the two-crash schedule of F6 on the minimal script (both protocol versions)
	for _, ver := range []protocol.ConsensusVersion{protocol.ConsensusCurrentVersion, protocol.ConsensusV38} {
		for _, second := range []int{2, 1} {
			c := vsmNewCtx(ver, rnd)
			run(vc02Directed(c, 7), vc02Plan{crashAt: 1, point: vc02D, second: second, tail: true})
		}
	}
	// ---- directed: two redo values in one run when the delivered quorums are inconsistent (excused by the oracle)
	run(vc02DirectedRedo(vsmNewCtx(protocol.ConsensusCurrentVersion, rnd), 9), vc02Plan{})
	run(vc02DirectedRedo(vsmNewCtx(protocol.ConsensusCurrentVersion, rnd), 9), vc02Plan{crashAt: 1, point: vc02D})
	// ---- generated scripts x enumerated crash points
	versions := []protocol.ConsensusVersion{protocol.ConsensusCurrentVersion, protocol.ConsensusV38}
	prefixes := []string{"happy", "latecred", "happy", "next", "", "latepayload", "happy", ""}
	for i := 0; i < nScripts; i++ {
		c := vsmNewCtx(versions[i%2], rnd)
		prefix := prefixes[rnd.Intn(len(prefixes))]
		r0 := round(2 + rnd.Intn(40))
		scen := rnd.Intn(len(vsmScenarios))
		g := vsmGenerate(c, r0, evs/2+rnd.Intn(evs), scen, prefix, gst)
		sc := &vc02Script{c: c, r0: r0, events: g.events}
		st.scenarios[vsmScenarios[scen%len(vsmScenarios)].name+"/"+prefix]++
		for k := 0; k < 24; k++ {
			d := 0
			if rnd.Intn(4) == 0 {
				d = 1 + rnd.Intn(3)
			}
			sc.delays = append(sc.delays, d)
			sc.fails = append(sc.fails, rnd.Intn(9) == 0)
		}
		nreq := run(sc, vc02Plan{})
		if rnd.Intn(2) == 0 {
			run(sc, vc02Plan{tail: true})
		}
		for k := 1; k <= nreq && k <= maxAtt; k++ {
			for pt := vc02A0; pt <= vc02D; pt++ {
				run(sc, vc02Plan{crashAt: k, point: pt})
			}
			run(sc, vc02Plan{crashAt: k, point: vc02D, second: 1, tail: true})
			run(sc, vc02Plan{crashAt: k, point: vc02B, second: 2, tail: true})
			if k == 1 {
				run(sc, vc02Plan{crashAt: k, point: vc02D, second: 2, tail: true})
			}
		}
	}
	vStats(map[string]interface{}{
		"cases": st.cases, "ops": st.ops, "events_fed_to_mainLoop": st.events, "event_sources": st.kinds,
		"persist_requests": st.requests, "writes": st.writes, "failed_writes": st.fails, "crashes": st.crashes,
		"restarts_restored": st.restored, "restarts_fresh": st.fresh, "votes_released": st.released, "votes_dropped": st.dropped,
		"crash_points": st.points, "attest_steps": st.steps, "scenarios": st.scenarios,
		"write_result_differs_from_injection(must be 0)": st.okMismatch,
		"shadow_action_diffs(must be 0)": st.shadowDiffs, "script_cut_short_by_panic": st.shadowPanics,
	})
	if st.shadowDiffs != 0 {
		t.Fatalf("c02: mainLoop and the shadow state machine disagreed on %d action lists", st.shadowDiffs)
	}
}
