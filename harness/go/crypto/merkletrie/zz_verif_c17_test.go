//go:build verif

package merkletrie

// C17 harness: drives the real Trie (with the package's InMemoryCommitter) through
// sequences of Add / Delete / Commit / Evict / reload-from-committer / RootHash under
// several MemoryConfig page configurations and writes one case per sequence:
//
//   (seq (cfg npp cached fill% maxpages) (ops...) (obs...) (set k...) #root #fresh shape hashing dropped)
//
// ops:  (a #key) (d #key) (c) (e 0|1) (r) (h)
// obs:  0/1 for Add/Delete, err (ErrMismatchingElementLength, ErrUnableToEvictPendingCommits),
//       ok for Commit/Evict/reload, #digest for RootHash, panic / ioerr otherwise
// set:  the harness's own bookkeeping of the final element set (never uses the trie's answers)
// root: RootHash() after the sequence; fresh: RootHash() of a new trie (default test
//       configuration, nothing evicted) built by inserting the sorted final set
// shape: the stored trie read back through cache.getNode after everything else was observed.
//
// and, into cases_c17_store.txt, for the same run the node/page structure of the real cache after
// every operation (see coq/model/MerkleTrieStoreCheck.v for the format):
//
//   (st npp (op...) (dump...))
//
// Streams: (1) EXHAUSTIVE op sequences up to a length bound over a small universe of 3-byte
// keys with shared prefixes, once per page configuration class; (2) random long sequences over
// random 32-byte keys (a few of them forced to share long prefixes) with random page
// configurations; (1b) fixed regression histories; (2b) commit/evict/reload cycles with branch-local changes; (3) a malformed stream (wrong element lengths, empty keys).

import (
	"errors"
	"fmt"
	"slices"
	"sort"
	"testing"
)

type vC17Op struct {
	kind byte // 'a','d','c','e','r','h'
	key  []byte
	flag bool
}

func (o vC17Op) term() []interface{} {
	switch o.kind {
	case 'a', 'd':
		return vL(vSym(string(o.kind)), slices.Clone(o.key))
	case 'e':
		return vL(vSym("e"), o.flag)
	default:
		return vL(vSym(string(o.kind)))
	}
}

// set-level bookkeeping (what the property says should happen), independent of the trie
type vC17Book struct {
	cur, committed map[string]bool
	modified       bool
}

func vC17Copy(m map[string]bool) map[string]bool {
	r := make(map[string]bool, len(m))
	for k := range m {
		r[k] = true
	}
	return r
}

func (b *vC17Book) mismatch(k []byte) bool {
	for x := range b.cur {
		return len(x) != len(k)
	}
	return false
}

func (b *vC17Book) apply(o vC17Op) {
	switch o.kind {
	case 'a':
		if !b.mismatch(o.key) && !b.cur[string(o.key)] {
			b.cur[string(o.key)] = true
			b.modified = true
		}
	case 'd':
		if !b.mismatch(o.key) && b.cur[string(o.key)] {
			delete(b.cur, string(o.key))
			b.modified = true
		}
	case 'c':
		b.committed, b.modified = vC17Copy(b.cur), false
	case 'e':
		if o.flag && b.modified {
			b.committed, b.modified = vC17Copy(b.cur), false
		}
	case 'r':
		b.cur, b.modified = vC17Copy(b.committed), false
	case 'h':
		if len(b.cur) > 0 && b.modified {
			b.committed, b.modified = vC17Copy(b.cur), false
		}
	}
}

func vC17Err(err error) interface{} {
	if errors.Is(err, ErrMismatchingElementLength) || errors.Is(err, ErrUnableToEvictPendingCommits) {
		return vSym("err")
	}
	return vSym("ioerr")
}

// one op on the real trie; a Go panic is reported as the symbol panic
func vC17Apply(pmt **Trie, committer Committer, cfg MemoryConfig, o vC17Op) (obs interface{}) {
	defer func() {
		if r := recover(); r != nil {
			obs = vSym("panic")
		}
	}()
	mt := *pmt
	switch o.kind {
	case 'a':
		ok, err := mt.Add(o.key)
		if err != nil {
			return vC17Err(err)
		}
		return ok
	case 'd':
		ok, err := mt.Delete(o.key)
		if err != nil {
			return vC17Err(err)
		}
		return ok
	case 'c':
		if _, err := mt.Commit(); err != nil {
			return vC17Err(err)
		}
		return vSym("ok")
	case 'e':
		if _, err := mt.Evict(o.flag); err != nil {
			return vC17Err(err)
		}
		return vSym("ok")
	case 'r':
		nmt, err := MakeTrie(committer, cfg)
		if err != nil {
			return vC17Err(err)
		}
		*pmt = nmt
		return vSym("ok")
	case 'h':
		h, err := mt.RootHash()
		if err != nil {
			return vC17Err(err)
		}
		return slices.Clone(h[:])
	}
	return vSym("badop")
}

func vC17Shape(mt *Trie) (res interface{}) {
	defer func() {
		if r := recover(); r != nil {
			res = vSym("panic")
		}
	}()
	if mt.root == storedNodeIdentifierNull {
		return vSym("nil")
	}
	var walk func(id storedNodeIdentifier) interface{}
	walk = func(id storedNodeIdentifier) interface{} {
		n, err := mt.cache.getNode(id)
		if err != nil {
			return vSym("ioerr")
		}
		if n.leaf() {
			return slices.Clone(n.hash)
		}
		l := vL()
		for _, c := range n.children {
			if !n.childrenMask.Bit(c.hashIndex) {
				return vSym("badmask")
			}
			l = append(l, vL(int(c.hashIndex), walk(c.id)))
		}
		return l
	}
	return walk(mt.root)
}

// vC17LastPageDropped reports the precondition of finding "evict_drops_partial_last_page"
// (fixed by fixes/C17.patch); it is evaluated right after every Evict call:
// the page that the next node id falls into already holds committed nodes, is not in the cache
// (Evict released it) and is not scheduled for the deferred load.
func vC17LastPageDropped(mt *Trie, committer *InMemoryCommitter) bool {
	npp := mt.cache.nodesPerPage
	if int64(mt.nextNodeID)%npp == 0 {
		return false
	}
	page := uint64(mt.nextNodeID) / uint64(npp)
	if mt.cache.pageToNIDsPtr[page] != nil || mt.cache.deferedPageLoad == page {
		return false
	}
	return len(committer.memStore[page]) > 0
}

var vC17FreshCfg = MemoryConfig{NodesCountPerPage: inMemoryCommitterPageSize, CachedNodesCount: 1000000, PageFillFactor: 0.90, MaxChildrenPagesThreshold: 32}

func vC17Fresh(keys []string) (res []byte) {
	defer func() {
		if r := recover(); r != nil {
			res = []byte{0xee}
		}
	}()
	mt, _ := MakeTrie(&InMemoryCommitter{}, vC17FreshCfg)
	for _, k := range keys {
		mt.Add([]byte(k))
	}
	h, err := mt.RootHash()
	if err != nil {
		return []byte{0xef}
	}
	return slices.Clone(h[:])
}

type vC17Stats struct {
	cases, ops, panics, hashing      int
	dropped                          int
	byKind                           map[string]int
	byCfg                            map[string]int
	finalSize                        map[int]int
	errs, addTrue, addFalse, delTrue int
}

// ---- store dumps: the node/page structure of the real cache after every operation ----

var vC17StoreOut *vOut // when non-nil, vC17Run also writes a (st ...) case for the sequence
var vC17StoreCases int

func vC17NodeTerm(n *node) interface{} {
	if n.leaf() {
		return slices.Clone(n.hash)
	}
	l := vL()
	for _, c := range n.children {
		l = append(l, vL(int(c.hashIndex), uint64(c.id))) // (hashIndex childid)
	}
	return l
}

func vC17SortedIDs(m map[storedNodeIdentifier]*node) []storedNodeIdentifier {
	ids := make([]storedNodeIdentifier, 0, len(m))
	for id := range m {
		ids = append(ids, id)
	}
	sort.Slice(ids, func(i, j int) bool { return ids[i] < ids[j] })
	return ids
}

func vC17Dump(res interface{}, mt *Trie, committer *InMemoryCommitter) []interface{} {
	memL := vL(vSym("mem"))
	var pages []uint64
	for p := range mt.cache.pageToNIDsPtr {
		pages = append(pages, p)
	}
	sort.Slice(pages, func(i, j int) bool { return pages[i] < pages[j] })
	for _, p := range pages {
		m := mt.cache.pageToNIDsPtr[p]
		for _, id := range vC17SortedIDs(m) {
			memL = append(memL, vL(uint64(id), vC17NodeTerm(m[id])))
		}
	}
	diskL := vL(vSym("disk"))
	pages = pages[:0]
	for p := range committer.memStore {
		if p != 0 {
			pages = append(pages, p)
		}
	}
	sort.Slice(pages, func(i, j int) bool { return pages[i] < pages[j] })
	for _, p := range pages {
		nodes, err := decodePage(committer.memStore[p])
		if err != nil {
			diskL = append(diskL, vL(p, vSym("undecodable")))
			continue
		}
		for _, id := range vC17SortedIDs(nodes) {
			diskL = append(diskL, vL(uint64(id), vC17NodeTerm(nodes[id])))
		}
	}
	rootL := vL(false, 0, 0, 0)
	if rb := committer.memStore[0]; rb != nil {
		var tmp Trie
		if _, err := tmp.deserialize(rb); err == nil {
			rootL = vL(true, uint64(tmp.root), uint64(tmp.nextNodeID), tmp.elementLength)
		}
	}
	createdL := vL(vSym("created"))
	var cr []uint64
	for id, v := range mt.cache.pendingCreatedNID {
		if v {
			cr = append(cr, uint64(id))
		}
	}
	sort.Slice(cr, func(i, j int) bool { return cr[i] < cr[j] })
	for _, id := range cr {
		createdL = append(createdL, id)
	}
	delL := vL(vSym("delpages"))
	var dp []uint64
	for pg, v := range mt.cache.pendingDeletionPages {
		if v {
			dp = append(dp, pg)
		}
	}
	sort.Slice(dp, func(i, j int) bool { return dp[i] < dp[j] })
	for _, pg := range dp {
		delL = append(delL, pg)
	}
	if b, isBytes := res.([]byte); isBytes {
		res = slices.Clone(b)
	}
	return vL(res, uint64(mt.root), uint64(mt.nextNodeID), mt.elementLength, mt.cache.deferedPageLoad, mt.cache.modified,
		createdL, delL, memL, diskL, rootL)
}

// the operation together with the choices the implementation made while executing it: the ids
// re-allocated by a commit (old new), the nextNodeID after it, and the pages Evict released
type vC17Snap struct {
	id       storedNodeIdentifier
	children []storedNodeIdentifier
}

func vC17StoreOp(o vC17Op, committed bool, before, after map[*node]vC17Snap, mt *Trie) []interface{} {
	rho := vL()
	next := uint64(0)
	if committed {
		next = uint64(mt.nextNodeID)
		// a node keeps its Go pointer when it is re-allocated; nodes that were loaded by the commit
		// itself and then moved are found through the child pointers of their (in-memory) parents
		m := map[uint64]uint64{}
		for ptr, a := range after {
			b, ok := before[ptr]
			if !ok {
				continue
			}
			if b.id != a.id {
				m[uint64(b.id)] = uint64(a.id)
			}
			if len(b.children) == len(a.children) {
				for i := range b.children {
					if b.children[i] != a.children[i] {
						m[uint64(b.children[i])] = uint64(a.children[i])
					}
				}
			}
		}
		type pr struct{ o, n uint64 }
		var prs []pr
		for k, v := range m {
			prs = append(prs, pr{k, v})
		}
		sort.Slice(prs, func(i, j int) bool { return prs[i].o < prs[j].o })
		for _, q := range prs {
			rho = append(rho, vL(q.o, q.n))
		}
	}
	switch o.kind {
	case 'a', 'd':
		return o.term()
	case 'c':
		return vL(vSym("c"), rho, next)
	case 'h':
		return vL(vSym("h"), rho, next)
	case 'e':
		droppedL := vL()
		npp := uint64(mt.cache.nodesPerPage)
		for p := uint64(storedNodeIdentifierBase) / npp; p <= uint64(mt.nextNodeID)/npp; p++ {
			if _, has := mt.cache.pageToNIDsPtr[p]; !has {
				droppedL = append(droppedL, p)
			}
		}
		return vL(vSym("e"), o.flag, rho, next, droppedL)
	default:
		return vL(vSym("r"))
	}
}

// vC17Committer passes everything to the package's InMemoryCommitter and lets the harness look at
// the cache at the moment the root page is stored, i.e. right after cache.commit() and before
// anything else (Evict(true) releases pages after that point)
type vC17Committer struct {
	*InMemoryCommitter
	onRoot func()
}

func (c *vC17Committer) StorePage(page uint64, content []byte) error {
	if page == storedNodeIdentifierNull && c.onRoot != nil {
		c.onRoot()
	}
	return c.InMemoryCommitter.StorePage(page, content)
}

func vC17Pointers(mt *Trie) map[*node]vC17Snap {
	r := make(map[*node]vC17Snap)
	for _, m := range mt.cache.pageToNIDsPtr {
		for id, ptr := range m {
			sn := vC17Snap{id: id}
			for _, c := range ptr.children {
				sn.children = append(sn.children, c.id)
			}
			r[ptr] = sn
		}
	}
	return r
}

func vC17Run(out *vOut, st *vC17Stats, cfg MemoryConfig, ops []vC17Op, hashing bool) {
	inner := &InMemoryCommitter{}
	committer := &vC17Committer{InMemoryCommitter: inner}
	mt, err := MakeTrie(committer, cfg)
	if err != nil {
		panic(err)
	}
	book := &vC17Book{cur: map[string]bool{}, committed: map[string]bool{}}
	topsL, obsL := vL(), vL()
	dropped, broken := false, false
	storeOps, storeDumps := vL(), vL()
	step := func(o vC17Op) interface{} {
		if vC17StoreOut == nil {
			return vC17Apply(&mt, committer, cfg, o)
		}
		willCommit := o.kind == 'c' || (o.kind == 'e' && o.flag && mt.cache.modified) ||
			(o.kind == 'h' && mt.root != storedNodeIdentifierNull && mt.cache.modified)
		var before, after map[*node]vC17Snap
		if willCommit {
			before = vC17Pointers(mt)
			cur := mt
			committer.onRoot = func() { after = vC17Pointers(cur) }
		}
		ob := vC17Apply(&mt, committer, cfg, o)
		committer.onRoot = nil
		storeOps = append(storeOps, vC17StoreOp(o, willCommit && after != nil, before, after, mt))
		storeDumps = append(storeDumps, vC17Dump(ob, mt, inner))
		return ob
	}
	for _, o := range ops {
		ob := step(o)
		topsL = append(topsL, o.term())
		obsL = append(obsL, ob)
		book.apply(o)
		st.ops++
		st.byKind[string(o.kind)]++
		switch v := ob.(type) {
		case bool:
			if o.kind == 'a' {
				if v {
					st.addTrue++
				} else {
					st.addFalse++
				}
			} else if v {
				st.delTrue++
			}
		case vSym:
			if v == "err" {
				st.errs++
			}
			if v == "panic" {
				st.panics++
			}
		}
		dropped = dropped || (o.kind == 'e' && vC17LastPageDropped(mt, inner))
		if s, isSym := ob.(vSym); isSym && (s == "panic" || s == "ioerr") {
			broken = true
			break // the trie may be inconsistent after a panic / storage error: stop here
		}
	}
	// final observation: RootHash (counts as the op (h): it commits), then the fresh build, then the shape
	var root []byte
	if !broken {
		fin := vC17Op{kind: 'h'}
		ob := step(fin)
		topsL = append(topsL, fin.term())
		obsL = append(obsL, ob)
		book.apply(fin)
		root, _ = ob.([]byte)
	}
	keys := make([]string, 0, len(book.cur))
	for k := range book.cur {
		keys = append(keys, k)
	}
	sort.Strings(keys)
	setL := vL(vSym("set"))
	for _, k := range keys {
		setL = append(setL, []byte(k))
	}
	fresh := vC17Fresh(keys)
	shape := vC17Shape(mt)
	cfgL := vL(vSym("cfg"), cfg.NodesCountPerPage, cfg.CachedNodesCount, int(cfg.PageFillFactor*100), cfg.MaxChildrenPagesThreshold)
	out.Case(vSym("seq"), cfgL, topsL, obsL, setL, root, fresh, shape, hashing, dropped)
	if vC17StoreOut != nil {
		vC17StoreOut.Case(vSym("st"), cfg.NodesCountPerPage, storeOps, storeDumps)
		vC17StoreCases++
	}
	st.cases++
	if dropped {
		st.dropped++
	}
	if hashing {
		st.hashing++
	}
	st.finalSize[len(keys)]++
	st.byCfg[fmt.Sprintf("npp=%d cached=%d fill=%.2f maxpages=%d", cfg.NodesCountPerPage, cfg.CachedNodesCount, cfg.PageFillFactor, cfg.MaxChildrenPagesThreshold)]++
}

// small page configurations: every structural path of cache.go (page re-packing, fan-out
// re-allocation, deferred page load, eviction of everything) is reached with a handful of nodes
var vC17Cfgs = []MemoryConfig{
	{NodesCountPerPage: 2, CachedNodesCount: 0, PageFillFactor: 0.90, MaxChildrenPagesThreshold: 1},
	{NodesCountPerPage: 3, CachedNodesCount: 1, PageFillFactor: 0.50, MaxChildrenPagesThreshold: 2},
	{NodesCountPerPage: 4, CachedNodesCount: 2, PageFillFactor: 0.95, MaxChildrenPagesThreshold: 1},
	{NodesCountPerPage: 5, CachedNodesCount: 0, PageFillFactor: 0.0, MaxChildrenPagesThreshold: 64},
	{NodesCountPerPage: 8, CachedNodesCount: 3, PageFillFactor: 1.0, MaxChildrenPagesThreshold: 2},
	{NodesCountPerPage: 116, CachedNodesCount: 0, PageFillFactor: 0.95, MaxChildrenPagesThreshold: 64},
	{NodesCountPerPage: inMemoryCommitterPageSize, CachedNodesCount: 10000, PageFillFactor: 0.90, MaxChildrenPagesThreshold: 32},
}

// universe of 3-byte keys with shared prefixes: chains of single-child nodes (00 00 xx),
// a second branch under 00, a second root branch with its own chain
var vC17Universe = [][]byte{
	{0, 0, 0}, {0, 0, 1}, {0, 1, 0}, {1, 0, 0}, {0, 0, 2}, {1, 0, 1}, {1, 1, 1}, {0, 1, 2},
}

func TestVerifC17(t *testing.T) {
	out := vOpen("cases_c17.txt")
	defer out.Close()
	st := &vC17Stats{byKind: map[string]int{}, byCfg: map[string]int{}, finalSize: map[int]int{}}
	rnd := vNewRand(17)
	hashEvery := vEnvInt("VERIF_C17_HASH_EVERY", 4)
	storeEvery := vEnvInt("VERIF_C17_STORE_EVERY", 1) // store dumps for every n-th exhaustive sequence

	storeOut := vOpen("cases_c17_store.txt")
	defer storeOut.Close()
	vC17StoreOut = storeOut
	defer func() { vC17StoreOut = nil }()

	// ---- (1) exhaustive sequences
	nk := vEnvInt("VERIF_C17_KEYS", 4)
	maxLen := vEnvInt("VERIF_C17_LEN", 4)
	if nk > len(vC17Universe) {
		nk = len(vC17Universe)
	}
	var alphabet []vC17Op
	for i := 0; i < nk; i++ {
		alphabet = append(alphabet, vC17Op{kind: 'a', key: vC17Universe[i]})
	}
	for i := 0; i < nk; i++ {
		alphabet = append(alphabet, vC17Op{kind: 'd', key: vC17Universe[i]})
	}
	alphabet = append(alphabet, vC17Op{kind: 'c'}, vC17Op{kind: 'e', flag: true}, vC17Op{kind: 'e', flag: false}, vC17Op{kind: 'r'})
	exhaustive := 0
	seq := make([]vC17Op, 0, maxLen)
	var rec func()
	rec = func() {
		// every sequence (all prefixes included) is a case, under a configuration chosen round-robin
		// from the small ones so that each configuration sees a dense sample and the union is exhaustive
		cfg := vC17Cfgs[exhaustive%len(vC17Cfgs)]
		if exhaustive%storeEvery != 0 {
			vC17StoreOut = nil
		}
		vC17Run(out, st, cfg, seq, exhaustive%hashEvery == 0)
		vC17StoreOut = storeOut
		exhaustive++
		if len(seq) == maxLen {
			return
		}
		for _, o := range alphabet {
			seq = append(seq, o)
			rec()
			seq = seq[:len(seq)-1]
		}
	}
	rec()

	// ---- (1b) regression: the minimal histories that exposed "evict_drops_partial_last_page"
	// (Evict released the committed, partially filled tail page; the next commit lost its nodes), each
	// followed by operations that walk into the affected branch, under every configuration
	k := func(a, b, c byte) []byte { return []byte{a, b, c} }
	A := func(x []byte) vC17Op { return vC17Op{kind: 'a', key: x} }
	D := func(x []byte) vC17Op { return vC17Op{kind: 'd', key: x} }
	E := func(f bool) vC17Op { return vC17Op{kind: 'e', flag: f} }
	C, R, Hh := vC17Op{kind: 'c'}, vC17Op{kind: 'r'}, vC17Op{kind: 'h'}
	regress := [][]vC17Op{
		{A(k(0, 0, 1)), A(k(0, 0, 0)), E(true), A(k(1, 0, 0)), Hh, A(k(0, 0, 2)), D(k(0, 0, 0))},
		{A(k(1, 0, 0)), A(k(0, 0, 1)), A(k(0, 1, 0)), E(true), D(k(1, 0, 0)), Hh, A(k(0, 1, 1)), D(k(0, 0, 1))},
		{A(k(0, 0, 1)), A(k(0, 0, 0)), C, E(false), A(k(1, 0, 0)), C, E(false), A(k(0, 0, 2)), C, R, D(k(0, 0, 0))},
		{A(k(0, 0, 1)), A(k(0, 0, 0)), C, R, A(k(1, 0, 0)), C, R, A(k(0, 0, 2)), D(k(0, 0, 1)), E(true), R, A(k(0, 0, 1))},
	}
	for i, seq := range regress {
		for _, cfg := range vC17Cfgs {
			vC17Run(out, st, cfg, seq, i == 0)
		}
	}

	// ---- (2) random long sequences over 32-byte keys (store dumps for every 8th only: they are large)
	nRand := vEnvInt("VERIF_C17_RANDOM", 150)
	maxOps := vEnvInt("VERIF_C17_RANDOM_OPS", 120)
	for i := 0; i < nRand; i++ {
		cfg := vC17Cfgs[rnd.Intn(len(vC17Cfgs))]
		if rnd.Intn(3) == 0 {
			cfg = MemoryConfig{NodesCountPerPage: int64(2 + rnd.Intn(40)), CachedNodesCount: rnd.Intn(30),
				PageFillFactor: float32(rnd.Intn(101)) / 100, MaxChildrenPagesThreshold: uint64(1 + rnd.Intn(8))}
		}
		klen := 32
		if i%5 == 4 {
			klen = 1 + rnd.Intn(6)
		}
		pool := make([][]byte, 4+rnd.Intn(40))
		for j := range pool {
			pool[j] = rnd.Bytes(klen)
			if j > 0 && rnd.Intn(3) == 0 { // share a long prefix with an earlier key
				p := pool[rnd.Intn(j)]
				cut := rnd.Intn(klen)
				copy(pool[j], p[:cut])
				if rnd.Intn(2) == 0 && cut > 0 {
					pool[j][cut-1] = p[cut-1]
				}
			}
			if rnd.Intn(4) == 0 { // few distinct leading bytes: wide fan-out below the root
				pool[j][0] = byte(rnd.Intn(3))
			}
		}
		n := 1 + rnd.Intn(maxOps)
		ops := make([]vC17Op, 0, n)
		for j := 0; j < n; j++ {
			switch x := rnd.Intn(100); {
			case x < 50:
				ops = append(ops, vC17Op{kind: 'a', key: pool[rnd.Intn(len(pool))]})
			case x < 80:
				ops = append(ops, vC17Op{kind: 'd', key: pool[rnd.Intn(len(pool))]})
			case x < 86:
				ops = append(ops, vC17Op{kind: 'c'})
			case x < 92:
				ops = append(ops, vC17Op{kind: 'e', flag: rnd.Intn(4) != 0})
			case x < 96:
				ops = append(ops, vC17Op{kind: 'r'})
			default:
				ops = append(ops, vC17Op{kind: 'h'})
			}
		}
		if i%8 != 0 {
			vC17StoreOut = nil
		}
		vC17Run(out, st, cfg, ops, i%hashEvery == 0)
		vC17StoreOut = storeOut
	}

	// ---- (2b) commit / evict / reload cycles: a few changes, then a storage transition, repeated; the
	// changes of one cycle mostly stay in one branch, so that pages written by earlier commits are
	// rewritten / re-packed / reloaded while most of their nodes are not touched
	nCyc := vEnvInt("VERIF_C17_CYCLES", 1500)
	for i := 0; i < nCyc; i++ {
		cfg := vC17Cfgs[rnd.Intn(5)]
		if rnd.Intn(3) == 0 {
			cfg = MemoryConfig{NodesCountPerPage: int64(2 + rnd.Intn(12)), CachedNodesCount: rnd.Intn(8),
				PageFillFactor: float32(rnd.Intn(101)) / 100, MaxChildrenPagesThreshold: uint64(1 + rnd.Intn(4))}
		}
		klen := 3
		if i%4 == 3 {
			klen = 32
		}
		pool := make([][]byte, 6+rnd.Intn(10))
		for j := range pool {
			pool[j] = rnd.Bytes(klen)
			pool[j][0] = byte(rnd.Intn(4))
			if klen == 3 {
				pool[j][1] = byte(rnd.Intn(2))
				pool[j][2] = byte(rnd.Intn(3))
			}
		}
		var ops []vC17Op
		for c, nc := 0, 2+rnd.Intn(6); c < nc; c++ {
			branch := byte(rnd.Intn(4))
			for j, nj := 0, 1+rnd.Intn(4); j < nj; j++ {
				k := pool[rnd.Intn(len(pool))]
				if rnd.Intn(4) != 0 { // stay in the cycle's branch
					for t := 0; t < 8 && k[0] != branch; t++ {
						k = pool[rnd.Intn(len(pool))]
					}
				}
				if rnd.Intn(10) < 7 {
					ops = append(ops, vC17Op{kind: 'a', key: k})
				} else {
					ops = append(ops, vC17Op{kind: 'd', key: k})
				}
			}
			switch rnd.Intn(6) {
			case 0:
				ops = append(ops, vC17Op{kind: 'c'})
			case 1:
				ops = append(ops, vC17Op{kind: 'e', flag: true})
			case 2:
				ops = append(ops, vC17Op{kind: 'c'}, vC17Op{kind: 'e', flag: false})
			case 3:
				ops = append(ops, vC17Op{kind: 'c'}, vC17Op{kind: 'r'})
			case 4:
				ops = append(ops, vC17Op{kind: 'h'}, vC17Op{kind: 'r'})
			default:
				ops = append(ops, vC17Op{kind: 'e', flag: true}, vC17Op{kind: 'r'})
			}
		}
		vC17Run(out, st, cfg, ops, i%(4*hashEvery) == 0)
	}

	// ---- (3) malformed: wrong element lengths, empty elements
	nBad := vEnvInt("VERIF_C17_MALFORMED", 200)
	for i := 0; i < nBad; i++ {
		cfg := vC17Cfgs[rnd.Intn(len(vC17Cfgs))]
		n := 1 + rnd.Intn(10)
		ops := make([]vC17Op, 0, n)
		for j := 0; j < n; j++ {
			k := rnd.Bytes(rnd.Intn(4))
			for q := range k {
				k[q] &= 1
			}
			switch x := rnd.Intn(10); {
			case x < 5:
				ops = append(ops, vC17Op{kind: 'a', key: k})
			case x < 8:
				ops = append(ops, vC17Op{kind: 'd', key: k})
			case x < 9:
				ops = append(ops, vC17Op{kind: 'r'})
			default:
				ops = append(ops, vC17Op{kind: 'e', flag: rnd.Bool()})
			}
		}
		vC17Run(out, st, cfg, ops, i%2 == 0)
	}

	vStats(map[string]interface{}{
		"cases": st.cases, "ops": st.ops, "exhaustive_sequences": exhaustive,
		"exhaustive_universe_keys": nk, "exhaustive_max_len": maxLen, "alphabet": len(alphabet),
		"random_sequences": nRand, "commit_evict_reload_cycle_sequences": nCyc, "malformed_sequences": nBad, "hashing_cases": st.hashing, "store_dump_cases": vC17StoreCases,
		"ops_by_kind": st.byKind, "cases_by_config": st.byCfg, "final_set_size": st.finalSize,
		"length_errors_and_evict_refusals": st.errs, "add_true": st.addTrue, "add_false": st.addFalse,
		"delete_true": st.delTrue, "panics": st.panics, "cases_where_evict_dropped_partial_last_page": st.dropped,
	})
	if st.panics > 0 {
		t.Logf("C17: %d Go panics observed (reported in the cases)", st.panics)
	}
}
