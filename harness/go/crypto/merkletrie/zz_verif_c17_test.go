//go:build verif

package merkletrie

// C17 harness: drives the real Trie (with the package's InMemoryCommitter) through
// sequences of Add / Delete / Commit / Evict / reload-from-committer / RootHash under
// several MemoryConfig page configurations and writes one case per sequence:
//
//   (seq (cfg npp cached fill% maxpages) (ops...) (obs...) (set k...) #root #fresh shape hashing dropped)
//
// ops:  (a #key) (d #key) (c) (e 0|1) (r) (h)
// obs:  0/1 for Add/Delete, err (ErrMismatchingElementLength, ErrUnableToEvictPendingCommits),
//       ok for Commit/Evict/reload, #digest for RootHash, panic / ioerr otherwise
// set:  the harness's own bookkeeping of the final element set (never uses the trie's answers)
// root: RootHash() after the sequence; fresh: RootHash() of a new trie (default test
//       configuration, nothing evicted) built by inserting the sorted final set
// shape: the stored trie read back through cache.getNode after everything else was observed.
//
// Streams: (1) EXHAUSTIVE op sequences up to a length bound over a small universe of 3-byte
// keys with shared prefixes, once per page configuration class; (2) random long sequences over
// random 32-byte keys (a few of them forced to share long prefixes) with random page
// configurations; (1b) fixed regression histories; (2b) commit/evict/reload cycles with branch-local changes; (3) a malformed stream (wrong element lengths, empty keys).

import (
	"errors"
	"fmt"
	"slices"
	"sort"
	"testing"
)

type vC17Op struct {
	kind byte // 'a','d','c','e','r','h'
	key  []byte
	flag bool
}

func (o vC17Op) term() []interface{} {
	switch o.kind {
	case 'a', 'd':
		return vL(vSym(string(o.kind)), slices.Clone(o.key))
	case 'e':
		return vL(vSym("e"), o.flag)
	default:
		return vL(vSym(string(o.kind)))
	}
}

// set-level bookkeeping (what the property says should happen), independent of the trie
type vC17Book struct {
	cur, committed map[string]bool
	modified       bool
}

func vC17Copy(m map[string]bool) map[string]bool {
	r := make(map[string]bool, len(m))
	for k := range m {
		r[k] = true
	}
	return r
}

func (b *vC17Book) mismatch(k []byte) bool {
	for x := range b.cur {
		return len(x) != len(k)
	}
	return false
}

func (b *vC17Book) apply(o vC17Op) {
	switch o.kind {
	case 'a':
		if !b.mismatch(o.key) && !b.cur[string(o.key)] {
			b.cur[string(o.key)] = true
			b.modified = true
		}
	case 'd':
		if !b.mismatch(o.key) && b.cur[string(o.key)] {
			delete(b.cur, string(o.key))
			b.modified = true
		}
	case 'c':
		b.committed, b.modified = vC17Copy(b.cur), false
	case 'e':
		if o.flag && b.modified {
			b.committed, b.modified = vC17Copy(b.cur), false
		}
	case 'r':
		b.cur, b.modified = vC17Copy(b.committed), false
	case 'h':
		if len(b.cur) > 0 && b.modified {
			b.committed, b.modified = vC17Copy(b.cur), false
		}
	}
}

func vC17Err(err error) interface{} {
	if errors.Is(err, ErrMismatchingElementLength) || errors.Is(err, ErrUnableToEvictPendingCommits) {
		return vSym("err")
	}
	return vSym("ioerr")
}

// one op on the real trie; a Go panic is reported as the symbol panic
func vC17Apply(pmt **Trie, committer *InMemoryCommitter, cfg MemoryConfig, o vC17Op) (obs interface{}) {
	defer func() {
		if r := recover(); r != nil {
			obs = vSym("panic")
		}
	}()
	mt := *pmt
	switch o.kind {
	case 'a':
		ok, err := mt.Add(o.key)
		if err != nil {
			return vC17Err(err)
		}
		return ok
	case 'd':
		ok, err := mt.Delete(o.key)
		if err != nil {
			return vC17Err(err)
		}
		return ok
	case 'c':
		if _, err := mt.Commit(); err != nil {
			return vC17Err(err)
		}
		return vSym("ok")
	case 'e':
		if _, err := mt.Evict(o.flag); err != nil {
			return vC17Err(err)
		}
		return vSym("ok")
	case 'r':
		nmt, err := MakeTrie(committer, cfg)
		if err != nil {
			return vC17Err(err)
		}
		*pmt = nmt
		return vSym("ok")
	case 'h':
		h, err := mt.RootHash()
		if err != nil {
			return vC17Err(err)
		}
		return slices.Clone(h[:])
	}
	return vSym("badop")
}

func vC17Shape(mt *Trie) (res interface{}) {
	defer func() {
		if r := recover(); r != nil {
			res = vSym("panic")
		}
	}()
	if mt.root == storedNodeIdentifierNull {
		return vSym("nil")
	}
	var walk func(id storedNodeIdentifier) interface{}
	walk = func(id storedNodeIdentifier) interface{} {
		n, err := mt.cache.getNode(id)
		if err != nil {
			return vSym("ioerr")
		}
		if n.leaf() {
			return slices.Clone(n.hash)
		}
		l := vL()
		for _, c := range n.children {
			if !n.childrenMask.Bit(c.hashIndex) {
				return vSym("badmask")
			}
			l = append(l, vL(int(c.hashIndex), walk(c.id)))
		}
		return l
	}
	return walk(mt.root)
}

// vC17LastPageDropped reports the precondition of finding "evict_drops_partial_last_page"
// (fixed by fixes/C17.patch); it is evaluated right after every Evict call:
// the page that the next node id falls into already holds committed nodes, is not in the cache
// (Evict released it) and is not scheduled for the deferred load.
func vC17LastPageDropped(mt *Trie, committer *InMemoryCommitter) bool {
	npp := mt.cache.nodesPerPage
	if int64(mt.nextNodeID)%npp == 0 {
		return false
	}
	page := uint64(mt.nextNodeID) / uint64(npp)
	if mt.cache.pageToNIDsPtr[page] != nil || mt.cache.deferedPageLoad == page {
		return false
	}
	return len(committer.memStore[page]) > 0
}

var vC17FreshCfg = MemoryConfig{NodesCountPerPage: inMemoryCommitterPageSize, CachedNodesCount: 1000000, PageFillFactor: 0.90, MaxChildrenPagesThreshold: 32}

func vC17Fresh(keys []string) (res []byte) {
	defer func() {
		if r := recover(); r != nil {
			res = []byte{0xee}
		}
	}()
	mt, _ := MakeTrie(&InMemoryCommitter{}, vC17FreshCfg)
	for _, k := range keys {
		mt.Add([]byte(k))
	}
	h, err := mt.RootHash()
	if err != nil {
		return []byte{0xef}
	}
	return slices.Clone(h[:])
}

type vC17Stats struct {
	cases, ops, panics, hashing      int
	dropped                          int
	byKind                           map[string]int
	byCfg                            map[string]int
	finalSize                        map[int]int
	errs, addTrue, addFalse, delTrue int
}

func vC17Run(out *vOut, st *vC17Stats, cfg MemoryConfig, ops []vC17Op, hashing bool) {
	committer := &InMemoryCommitter{}
	mt, err := MakeTrie(committer, cfg)
	if err != nil {
		panic(err)
	}
	book := &vC17Book{cur: map[string]bool{}, committed: map[string]bool{}}
	topsL, obsL := vL(), vL()
	dropped, broken := false, false
	for _, o := range ops {
		ob := vC17Apply(&mt, committer, cfg, o)
		topsL = append(topsL, o.term())
		obsL = append(obsL, ob)
		book.apply(o)
		st.ops++
		st.byKind[string(o.kind)]++
		switch v := ob.(type) {
		case bool:
			if o.kind == 'a' {
				if v {
					st.addTrue++
				} else {
					st.addFalse++
				}
			} else if v {
				st.delTrue++
			}
		case vSym:
			if v == "err" {
				st.errs++
			}
			if v == "panic" {
				st.panics++
			}
		}
		dropped = dropped || (o.kind == 'e' && vC17LastPageDropped(mt, committer))
		if s, isSym := ob.(vSym); isSym && (s == "panic" || s == "ioerr") {
			broken = true
			break // the trie may be inconsistent after a panic / storage error: stop here
		}
	}
	// final observation: RootHash (counts as the op (h): it commits), then the fresh build, then the shape
	var root []byte
	if !broken {
		fin := vC17Op{kind: 'h'}
		ob := vC17Apply(&mt, committer, cfg, fin)
		topsL = append(topsL, fin.term())
		obsL = append(obsL, ob)
		book.apply(fin)
		root, _ = ob.([]byte)
	}
	keys := make([]string, 0, len(book.cur))
	for k := range book.cur {
		keys = append(keys, k)
	}
	sort.Strings(keys)
	setL := vL(vSym("set"))
	for _, k := range keys {
		setL = append(setL, []byte(k))
	}
	fresh := vC17Fresh(keys)
	shape := vC17Shape(mt)
	cfgL := vL(vSym("cfg"), cfg.NodesCountPerPage, cfg.CachedNodesCount, int(cfg.PageFillFactor*100), cfg.MaxChildrenPagesThreshold)
	out.Case(vSym("seq"), cfgL, topsL, obsL, setL, root, fresh, shape, hashing, dropped)
	st.cases++
	if dropped {
		st.dropped++
	}
	if hashing {
		st.hashing++
	}
	st.finalSize[len(keys)]++
	st.byCfg[fmt.Sprintf("npp=%d cached=%d fill=%.2f maxpages=%d", cfg.NodesCountPerPage, cfg.CachedNodesCount, cfg.PageFillFactor, cfg.MaxChildrenPagesThreshold)]++
}

// small page configurations: every structural path of cache.go (page re-packing, fan-out
// re-allocation, deferred page load, eviction of everything) is reached with a handful of nodes
var vC17Cfgs = []MemoryConfig{
	{NodesCountPerPage: 2, CachedNodesCount: 0, PageFillFactor: 0.90, MaxChildrenPagesThreshold: 1},
	{NodesCountPerPage: 3, CachedNodesCount: 1, PageFillFactor: 0.50, MaxChildrenPagesThreshold: 2},
	{NodesCountPerPage: 4, CachedNodesCount: 2, PageFillFactor: 0.95, MaxChildrenPagesThreshold: 1},
	{NodesCountPerPage: 5, CachedNodesCount: 0, PageFillFactor: 0.0, MaxChildrenPagesThreshold: 64},
	{NodesCountPerPage: 8, CachedNodesCount: 3, PageFillFactor: 1.0, MaxChildrenPagesThreshold: 2},
	{NodesCountPerPage: 116, CachedNodesCount: 0, PageFillFactor: 0.95, MaxChildrenPagesThreshold: 64},
	{NodesCountPerPage: inMemoryCommitterPageSize, CachedNodesCount: 10000, PageFillFactor: 0.90, MaxChildrenPagesThreshold: 32},
}

// universe of 3-byte keys with shared prefixes: chains of single-child nodes (00 00 xx),
// a second branch under 00, a second root branch with its own chain
var vC17Universe = [][]byte{
	{0, 0, 0}, {0, 0, 1}, {0, 1, 0}, {1, 0, 0}, {0, 0, 2}, {1, 0, 1}, {1, 1, 1}, {0, 1, 2},
}

func TestVerifC17(t *testing.T) {
	out := vOpen("cases_c17.txt")
	defer out.Close()
	st := &vC17Stats{byKind: map[string]int{}, byCfg: map[string]int{}, finalSize: map[int]int{}}
	rnd := vNewRand(17)
	hashEvery := vEnvInt("VERIF_C17_HASH_EVERY", 4)

	// ---- (1) exhaustive sequences
	nk := vEnvInt("VERIF_C17_KEYS", 4)
	maxLen := vEnvInt("VERIF_C17_LEN", 4)
	if nk > len(vC17Universe) {
		nk = len(vC17Universe)
	}
	var alphabet []vC17Op
	for i := 0; i < nk; i++ {
		alphabet = append(alphabet, vC17Op{kind: 'a', key: vC17Universe[i]})
	}
	for i := 0; i < nk; i++ {
		alphabet = append(alphabet, vC17Op{kind: 'd', key: vC17Universe[i]})
	}
	alphabet = append(alphabet, vC17Op{kind: 'c'}, vC17Op{kind: 'e', flag: true}, vC17Op{kind: 'e', flag: false}, vC17Op{kind: 'r'})
	exhaustive := 0
	seq := make([]vC17Op, 0, maxLen)
	var rec func()
	rec = func() {
		// every sequence (all prefixes included) is a case, under a configuration chosen round-robin
		// from the small ones so that each configuration sees a dense sample and the union is exhaustive
		cfg := vC17Cfgs[exhaustive%len(vC17Cfgs)]
		vC17Run(out, st, cfg, seq, exhaustive%hashEvery == 0)
		exhaustive++
		if len(seq) == maxLen {
			return
		}
		for _, o := range alphabet {
			seq = append(seq, o)
			rec()
			seq = seq[:len(seq)-1]
		}
	}
	rec()

	// ---- (1b) regression: the minimal histories that exposed "evict_drops_partial_last_page"
	// (Evict released the committed, partially filled tail page; the next commit lost its nodes), each
	// followed by operations that walk into the affected branch, under every configuration
	k := func(a, b, c byte) []byte { return []byte{a, b, c} }
	A := func(x []byte) vC17Op { return vC17Op{kind: 'a', key: x} }
	D := func(x []byte) vC17Op { return vC17Op{kind: 'd', key: x} }
	E := func(f bool) vC17Op { return vC17Op{kind: 'e', flag: f} }
	C, R, Hh := vC17Op{kind: 'c'}, vC17Op{kind: 'r'}, vC17Op{kind: 'h'}
	regress := [][]vC17Op{
		{A(k(0, 0, 1)), A(k(0, 0, 0)), E(true), A(k(1, 0, 0)), Hh, A(k(0, 0, 2)), D(k(0, 0, 0))},
		{A(k(1, 0, 0)), A(k(0, 0, 1)), A(k(0, 1, 0)), E(true), D(k(1, 0, 0)), Hh, A(k(0, 1, 1)), D(k(0, 0, 1))},
		{A(k(0, 0, 1)), A(k(0, 0, 0)), C, E(false), A(k(1, 0, 0)), C, E(false), A(k(0, 0, 2)), C, R, D(k(0, 0, 0))},
		{A(k(0, 0, 1)), A(k(0, 0, 0)), C, R, A(k(1, 0, 0)), C, R, A(k(0, 0, 2)), D(k(0, 0, 1)), E(true), R, A(k(0, 0, 1))},
	}
	for i, seq := range regress {
		for _, cfg := range vC17Cfgs {
			vC17Run(out, st, cfg, seq, i == 0)
		}
	}

	// ---- (2) random long sequences over 32-byte keys
	nRand := vEnvInt("VERIF_C17_RANDOM", 150)
	maxOps := vEnvInt("VERIF_C17_RANDOM_OPS", 120)
	for i := 0; i < nRand; i++ {
		cfg := vC17Cfgs[rnd.Intn(len(vC17Cfgs))]
		if rnd.Intn(3) == 0 {
			cfg = MemoryConfig{NodesCountPerPage: int64(2 + rnd.Intn(40)), CachedNodesCount: rnd.Intn(30),
				PageFillFactor: float32(rnd.Intn(101)) / 100, MaxChildrenPagesThreshold: uint64(1 + rnd.Intn(8))}
		}
		klen := 32
		if i%5 == 4 {
			klen = 1 + rnd.Intn(6)
		}
		pool := make([][]byte, 4+rnd.Intn(40))
		for j := range pool {
			pool[j] = rnd.Bytes(klen)
			if j > 0 && rnd.Intn(3) == 0 { // share a long prefix with an earlier key
				p := pool[rnd.Intn(j)]
				cut := rnd.Intn(klen)
				copy(pool[j], p[:cut])
				if rnd.Intn(2) == 0 && cut > 0 {
					pool[j][cut-1] = p[cut-1]
				}
			}
			if rnd.Intn(4) == 0 { // few distinct leading bytes: wide fan-out below the root
				pool[j][0] = byte(rnd.Intn(3))
			}
		}
		n := 1 + rnd.Intn(maxOps)
		ops := make([]vC17Op, 0, n)
		for j := 0; j < n; j++ {
			switch x := rnd.Intn(100); {
			case x < 50:
				ops = append(ops, vC17Op{kind: 'a', key: pool[rnd.Intn(len(pool))]})
			case x < 80:
				ops = append(ops, vC17Op{kind: 'd', key: pool[rnd.Intn(len(pool))]})
			case x < 86:
				ops = append(ops, vC17Op{kind: 'c'})
			case x < 92:
				ops = append(ops, vC17Op{kind: 'e', flag: rnd.Intn(4) != 0})
			case x < 96:
				ops = append(ops, vC17Op{kind: 'r'})
			default:
				ops = append(ops, vC17Op{kind: 'h'})
			}
		}
		vC17Run(out, st, cfg, ops, i%hashEvery == 0)
	}

	// ---- (2b) commit / evict / reload cycles: a few changes, then a storage transition, repeated; the
	// changes of one cycle mostly stay in one branch, so that pages written by earlier commits are
	// rewritten / re-packed / reloaded while most of their nodes are not touched
	nCyc := vEnvInt("VERIF_C17_CYCLES", 1500)
	for i := 0; i < nCyc; i++ {
		cfg := vC17Cfgs[rnd.Intn(5)]
		if rnd.Intn(3) == 0 {
			cfg = MemoryConfig{NodesCountPerPage: int64(2 + rnd.Intn(12)), CachedNodesCount: rnd.Intn(8),
				PageFillFactor: float32(rnd.Intn(101)) / 100, MaxChildrenPagesThreshold: uint64(1 + rnd.Intn(4))}
		}
		klen := 3
		if i%4 == 3 {
			klen = 32
		}
		pool := make([][]byte, 6+rnd.Intn(10))
		for j := range pool {
			pool[j] = rnd.Bytes(klen)
			pool[j][0] = byte(rnd.Intn(4))
			if klen == 3 {
				pool[j][1] = byte(rnd.Intn(2))
				pool[j][2] = byte(rnd.Intn(3))
			}
		}
		var ops []vC17Op
		for c, nc := 0, 2+rnd.Intn(6); c < nc; c++ {
			branch := byte(rnd.Intn(4))
			for j, nj := 0, 1+rnd.Intn(4); j < nj; j++ {
				k := pool[rnd.Intn(len(pool))]
				if rnd.Intn(4) != 0 { // stay in the cycle's branch
					for t := 0; t < 8 && k[0] != branch; t++ {
						k = pool[rnd.Intn(len(pool))]
					}
				}
				if rnd.Intn(10) < 7 {
					ops = append(ops, vC17Op{kind: 'a', key: k})
				} else {
					ops = append(ops, vC17Op{kind: 'd', key: k})
				}
			}
			switch rnd.Intn(6) {
			case 0:
				ops = append(ops, vC17Op{kind: 'c'})
			case 1:
				ops = append(ops, vC17Op{kind: 'e', flag: true})
			case 2:
				ops = append(ops, vC17Op{kind: 'c'}, vC17Op{kind: 'e', flag: false})
			case 3:
				ops = append(ops, vC17Op{kind: 'c'}, vC17Op{kind: 'r'})
			case 4:
				ops = append(ops, vC17Op{kind: 'h'}, vC17Op{kind: 'r'})
			default:
				ops = append(ops, vC17Op{kind: 'e', flag: true}, vC17Op{kind: 'r'})
			}
		}
		vC17Run(out, st, cfg, ops, i%(4*hashEvery) == 0)
	}

	// ---- (3) malformed: wrong element lengths, empty elements
	nBad := vEnvInt("VERIF_C17_MALFORMED", 200)
	for i := 0; i < nBad; i++ {
		cfg := vC17Cfgs[rnd.Intn(len(vC17Cfgs))]
		n := 1 + rnd.Intn(10)
		ops := make([]vC17Op, 0, n)
		for j := 0; j < n; j++ {
			k := rnd.Bytes(rnd.Intn(4))
			for q := range k {
				k[q] &= 1
			}
			switch x := rnd.Intn(10); {
			case x < 5:
				ops = append(ops, vC17Op{kind: 'a', key: k})
			case x < 8:
				ops = append(ops, vC17Op{kind: 'd', key: k})
			case x < 9:
				ops = append(ops, vC17Op{kind: 'r'})
			default:
				ops = append(ops, vC17Op{kind: 'e', flag: rnd.Bool()})
			}
		}
		vC17Run(out, st, cfg, ops, i%2 == 0)
	}

	vStats(map[string]interface{}{
		"cases": st.cases, "ops": st.ops, "exhaustive_sequences": exhaustive,
		"exhaustive_universe_keys": nk, "exhaustive_max_len": maxLen, "alphabet": len(alphabet),
		"random_sequences": nRand, "commit_evict_reload_cycle_sequences": nCyc, "malformed_sequences": nBad, "hashing_cases": st.hashing,
		"ops_by_kind": st.byKind, "cases_by_config": st.byCfg, "final_set_size": st.finalSize,
		"length_errors_and_evict_refusals": st.errs, "add_true": st.addTrue, "add_false": st.addFalse,
		"delete_true": st.delTrue, "panics": st.panics, "cases_where_evict_dropped_partial_last_page": st.dropped,
	})
	if st.panics > 0 {
		t.Logf("C17: %d Go panics observed (reported in the cases)", st.panics)
	}
}
