//go:build verif

package stateproof

// C39 harness: real Falcon / merkle-signature keys (small key lifetimes), random participant
// sets and signing subsets above / below the proven weight, the real Prover (IsValid, Add,
// CreateProof) and the real Verifier.Verify on the honest proof and on single-field mutations
// of it, and on directed forgeries (fully consistent proofs whose revealed slots carry the empty
// signature).  Every case records the implementation's observation AND the facts the model needs
// as oracles, computed with the primitives directly (PK.VerifyBytes, ValidateSaltVersion,
// buildCommittableSignature, VerifyVectorCommitment, makeCoinGenerator), never through
// Verify / CreateProof.  Case formats: coq/model/StateProofCheck.v.

import (
	"errors"
	"fmt"
	"sort"
	"strings"
	"testing"

	"github.com/algorand/go-algorand/crypto"
	"github.com/algorand/go-algorand/crypto/merklearray"
	"github.com/algorand/go-algorand/crypto/merklesignature"
	"github.com/algorand/go-algorand/data/basics"
	"github.com/algorand/go-algorand/protocol"
)

func vC39Class(err error) string {
	if err == nil {
		return "ok"
	}
	msg := err.Error()
	switch {
	case errors.Is(err, ErrTreeDepthTooLarge):
		return "depth"
	case errors.Is(err, ErrTooManyReveals):
		return "toomany"
	case errors.Is(err, ErrZeroSignedWeight):
		return "zerosw"
	case errors.Is(err, ErrInsufficientSignedWeight):
		return "insufficient"
	case errors.Is(err, ErrNegativeNumOfRevealsEquation):
		return "negative"
	case errors.Is(err, merklesignature.ErrSignatureSaltVersionMismatch):
		return "salt"
	case errors.Is(err, merklesignature.ErrSignatureSchemeVerificationFailed), errors.Is(err, merklesignature.ErrKeyLifetimeIsZero),
		strings.HasPrefix(msg, "signature in reveal pos"):
		return "sig"
	case errors.Is(err, ErrNoRevealInPos):
		return "noreveal"
	case errors.Is(err, ErrCoinNotInRange):
		return "coin"
	case errors.Is(err, ErrSignedWeightLessThanProvenWeight):
		return "notready"
	case errors.Is(err, ErrCoinIndexError):
		return "coinindex"
	case errors.Is(err, ErrPositionOutOfBound):
		return "posbound"
	case errors.Is(err, ErrPositionWithZeroWeight):
		return "zeroweight"
	case errors.Is(err, ErrPositionAlreadyPresent):
		return "present"
	case strings.Contains(msg, "buildCommittableSignature"):
		return "commit"
	}
	return "other:" + msg
}

func vC39Res(class string) []interface{} {
	if class == "ok" {
		return vL(vSym("ok"))
	}
	if strings.HasPrefix(class, "other:") {
		return vL(vSym("err"), vSym("other"))
	}
	return vL(vSym("err"), vSym(class))
}

type vC39Signer struct {
	sec      *merklesignature.Secrets
	lifetime uint64
}

func vC39Pool(t *testing.T, lifetime uint64, n int) []vC39Signer {
	res := make([]vC39Signer, n)
	for i := range res {
		s, err := merklesignature.New(0, 3*lifetime, lifetime)
		if err != nil {
			t.Fatal(err)
		}
		res[i] = vC39Signer{s, lifetime}
	}
	return res
}

func vC39Rev(x uint64, n uint) uint64 {
	var r uint64
	for i := uint(0); i < n; i++ {
		if x&(1<<i) != 0 {
			r |= 1 << (n - 1 - i)
		}
	}
	return r
}

// index reaching, at claimed depth d1, the leaf that index i reaches at depth d0
func vC39Relab(i uint64, d0, d1 uint) (uint64, bool) {
	if d0 < 64 && i >= (uint64(1)<<d0) {
		return 0, false
	}
	p := vC39Rev(i, d0)
	if d1 < 64 && p >= (uint64(1)<<d1) {
		return 0, false
	}
	return vC39Rev(p, d1), true
}

func vC39Copy(sp *StateProof) *StateProof {
	var c StateProof
	if err := protocol.Decode(protocol.Encode(sp), &c); err != nil {
		panic(err)
	}
	if c.Reveals == nil {
		c.Reveals = map[uint64]Reveal{}
	}
	return &c
}

func vC39CopySig(s merklesignature.Signature) merklesignature.Signature {
	var c merklesignature.Signature
	if err := protocol.Decode(protocol.Encode(&s), &c); err != nil {
		panic(err)
	}
	return c
}

func vC39Safe(f func() error) (err error) {
	defer func() {
		if r := recover(); r != nil {
			err = fmt.Errorf("panic: %v", r)
		}
	}()
	return f()
}

type vC39Out struct {
	o      *vOut
	labels map[string]int
	accept map[string]int
	reject map[string]int
	other  int
	panics int
}

// one Verify case: the facts, then the real Verify
func (w *vC39Out) verifyCase(label string, expect int, partcom crypto.GenericDigest, provenWeight, st uint64,
	round uint64, data MessageHash, sp *StateProof, d0 uint8, pos0 []uint64) {
	v, err := MkVerifier(partcom, provenWeight, st)
	if err != nil {
		return
	}
	keys := make([]uint64, 0, len(sp.Reveals))
	for k := range sp.Reveals {
		keys = append(keys, k)
	}
	sort.Slice(keys, func(i, j int) bool { return keys[i] < keys[j] })
	var rfs []interface{}
	sigs := make(map[uint64]crypto.Hashable)
	parts := make(map[uint64]crypto.Hashable)
	allCommit := true
	var commitErrs []string
	for _, k := range keys {
		r := sp.Reveals[k]
		saltok := r.SigSlot.Sig.ValidateSaltVersion(sp.MerkleSignatureSaltVersion) == nil
		var cs *committableSignatureSlot
		cerr := vC39Safe(func() error {
			var e error
			cs, e = buildCommittableSignature(r.SigSlot)
			return e
		})
		if cerr != nil {
			allCommit = false
			commitErrs = append(commitErrs, cerr.Error())
		} else {
			sigs[k] = cs
		}
		parts[k] = r.Part
		sig := r.SigSlot.Sig
		sigok := vC39Safe(func() error { return r.Part.PK.VerifyBytes(round, data[:], &sig) }) == nil
		rfs = append(rfs, vL(k, r.SigSlot.L, r.Part.Weight, saltok, cerr == nil, sigok))
	}
	vcs := allCommit && vC39Safe(func() error { return merklearray.VerifyVectorCommitment(sp.SigCommit[:], sigs, &sp.SigProofs) }) == nil
	vcp := vC39Safe(func() error { return merklearray.VerifyVectorCommitment(partcom[:], parts, &sp.PartProofs) }) == nil
	var coins []interface{}
	nr := len(sp.PositionsToReveal)
	if sp.SignedWeight > 0 && nr <= MaxReveals {
		choice := coinChoiceSeed{partCommitment: partcom, lnProvenWeight: v.lnProvenWeight, sigCommitment: sp.SigCommit,
			signedWeight: sp.SignedWeight, data: data}
		cg := makeCoinGenerator(&choice)
		for j := 0; j < nr; j++ {
			coins = append(coins, cg.getNextCoin())
		}
	}
	var positions, p0 []interface{}
	for _, p := range sp.PositionsToReveal {
		positions = append(positions, p)
	}
	for _, p := range pos0 {
		p0 = append(p0, p)
	}
	verr := vC39Safe(func() error { return v.Verify(basics.Round(round), data, sp) })
	class := vC39Class(verr)
	if strings.HasPrefix(class, "other:") {
		// after the signature loop only the two VerifyVectorCommitment calls can fail; an error
		// of buildCommittableSignature's callees carries their text
		class = "vc"
		for _, ce := range commitErrs {
			if verr.Error() == ce {
				class = "commit"
			}
		}
		if strings.HasPrefix(verr.Error(), "panic:") {
			class = "other:panic"
			w.panics++
		}
	}
	w.labels[label]++
	if class == "ok" {
		w.accept[label]++
	} else {
		w.reject[label]++
	}
	w.o.Case(vSym("verify"), vSym(label), expect, st, v.lnProvenWeight, sp.SignedWeight,
		sp.SigProofs.TreeDepth, sp.PartProofs.TreeDepth, positions, rfs, vcs, vcp, coins, d0, p0, vC39Res(class))
}

func TestVerifC39(t *testing.T) {
	r := vNewRand(0xC39)
	nScen := vEnvInt("VERIF_C39_N", 30)
	poolN := vEnvInt("VERIF_C39_POOL", 20)
	out := &vC39Out{o: vOpen("cases_c39.txt"), labels: map[string]int{}, accept: map[string]int{}, reject: map[string]int{}}
	defer out.o.Close()
	lifetimes := []uint64{1, 4, 256}
	pools := map[uint64][]vC39Signer{}
	for _, lt := range lifetimes {
		pools[lt] = vC39Pool(t, lt, poolN)
	}
	hf := crypto.HashFactory{HashType: HashType}
	nProofs, nBelow, nTooMany, nIsValid, nBlocked, nForged := 0, 0, 0, 0, 0, 0
	partHist := map[int]int{}

	for sc := 0; sc < nScen; sc++ {
		lt := lifetimes[r.Intn(len(lifetimes))]
		pool := pools[lt]
		n := 1 + r.Intn(poolN)
		if sc < 3 {
			n = sc + 1
		}
		partHist[n]++
		perm := make([]int, poolN)
		for i := range perm {
			perm[i] = i
		}
		for i := poolN - 1; i > 0; i-- {
			j := r.Intn(i + 1)
			perm[i], perm[j] = perm[j], perm[i]
		}
		signers := make([]vC39Signer, n)
		parts := make([]basics.Participant, n)
		wmode := r.Intn(4)
		for i := 0; i < n; i++ {
			signers[i] = pool[perm[i]]
			var w uint64
			switch wmode {
			case 0:
				w = 1000
			case 1:
				w = uint64(1 + r.Intn(50))
			case 2:
				w = r.U64() >> uint(24+r.Intn(30))
			default:
				w = uint64(1 + r.Intn(20))
				if i == 0 {
					w = 100000
				}
			}
			if r.Intn(10) == 0 {
				w = 0
			}
			parts[i] = basics.Participant{PK: *signers[i].sec.GetVerifier(), Weight: w}
		}
		round := lt * uint64(1+r.Intn(2))
		if lt > 1 && r.Intn(3) == 0 {
			round += uint64(r.Intn(int(lt)))
		}
		var data MessageHash
		copy(data[:], r.Bytes(32))
		partTree, err := merklearray.BuildVectorCommitmentTree(basics.ParticipantsArray(parts), hf)
		if err != nil {
			t.Fatal(err)
		}
		partcom := partTree.Root()

		// who signs
		q := []int{3, 6, 9, 10}[r.Intn(4)]
		signs := make([]bool, n)
		var signedW uint64
		for i := 0; i < n; i++ {
			if parts[i].Weight > 0 && r.Intn(10) < q {
				signs[i] = true
				signedW += parts[i].Weight
			}
		}
		var total uint64
		for i := range parts {
			total += parts[i].Weight
		}
		// proven weight: mostly below the signed weight, sometimes at / above it
		var pw uint64
		switch r.Intn(8) {
		case 0:
			pw = signedW
		case 1:
			pw = signedW + 1 + uint64(r.Intn(5))
		case 2:
			if signedW > 0 {
				pw = signedW - 1
			}
		default:
			pw = signedW / uint64(2+r.Intn(4))
		}
		if pw == 0 {
			pw = 1
		}
		st := []uint64{1, 4, 16, 64, 256}[r.Intn(5)]
		lnpw, _ := LnIntApproximation(pw)

		b, err := MakeProver(data, round, pw, parts, partTree, st)
		if err != nil {
			t.Fatal(err)
		}
		goodSigs := make([]merklesignature.Signature, n)
		haveSig := make([]bool, n)
		commitoks := make([]interface{}, n)
		for i := range commitoks {
			commitoks[i] = true
		}
		var adds []interface{}
		allvalid := true
		submit := func(pos int, sig merklesignature.Signature, verifySig bool, addIt bool) bool {
			p := parts[pos]
			saltok := sig.ValidateSaltVersion(merklesignature.SchemeSaltVersion) == nil
			sigok := vC39Safe(func() error { return p.PK.VerifyBytes(round, data[:], &sig) }) == nil
			_, cerr := buildCommittableSignature(sigslotCommit{Sig: sig})
			ierr := vC39Safe(func() error { return b.IsValid(uint64(pos), &sig, verifySig) })
			out.o.Case(vSym("isvalid"), p.Weight, verifySig, saltok, sigok, cerr == nil, vC39Res(vC39Class(ierr)))
			nIsValid++
			if ierr == nil && addIt {
				if present, _ := b.Present(uint64(pos)); !present {
					if b.Add(uint64(pos), sig) == nil {
						adds = append(adds, pos)
						commitoks[pos] = cerr == nil
						if !verifySig {
							allvalid = false
						}
					}
				}
			}
			return ierr == nil
		}
		for i := 0; i < n; i++ {
			sig, err := signers[i].sec.GetSigner(round).SignBytes(data[:])
			if err != nil {
				t.Fatal(err)
			}
			goodSigs[i] = sig
			haveSig[i] = true
		}
		// a participant that sends a genuine signature whose proof claims TreeDepth 17 (index
		// renamed accordingly): cryptographically valid, not committable
		evil := -1
		if r.Intn(4) == 0 {
			for i := 0; i < n; i++ {
				if signs[i] {
					evil = i
					break
				}
			}
		}
		for i := 0; i < n; i++ {
			// rejected submissions first (never added)
			if r.Intn(3) == 0 {
				other := goodSigs[(i+1)%n]
				if n > 1 {
					submit(i, vC39CopySig(other), true, false)
				}
				var d2 MessageHash
				copy(d2[:], r.Bytes(32))
				s2, _ := signers[i].sec.GetSigner(round).SignBytes(d2[:])
				submit(i, s2, true, false)
				s3 := vC39CopySig(goodSigs[i])
				s3.Signature[1] ^= 1 // salt version byte
				submit(i, s3, true, false)
				submit(i, vC39CopySig(other), false, false)
			}
			if !signs[i] {
				if parts[i].Weight == 0 {
					submit(i, vC39CopySig(goodSigs[i]), true, false)
				}
				continue
			}
			if i == evil {
				s := vC39CopySig(goodSigs[i])
				d := uint(s.Proof.TreeDepth)
				if idx, ok := vC39Relab(s.VectorCommitmentIndex, d, 17); ok {
					s.Proof.TreeDepth = 17
					s.VectorCommitmentIndex = idx
					if submit(i, s, true, true) {
						nBlocked++
						continue
					}
				}
			}
			submit(i, vC39CopySig(goodSigs[i]), true, true)
		}

		// CreateProof
		var sp *StateProof
		cerr := vC39Safe(func() error {
			var e error
			sp, e = b.CreateProof()
			return e
		})
		var ws []interface{}
		for i := range parts {
			ws = append(ws, parts[i].Weight)
		}
		var coins []interface{}
		var obs []interface{}
		if cerr == nil {
			nProofs++
			choice := coinChoiceSeed{partCommitment: partcom, lnProvenWeight: lnpw, sigCommitment: sp.SigCommit,
				signedWeight: sp.SignedWeight, data: data}
			cg := makeCoinGenerator(&choice)
			for j := 0; j < len(sp.PositionsToReveal); j++ {
				coins = append(coins, cg.getNextCoin())
			}
			keys := make([]uint64, 0, len(sp.Reveals))
			for k := range sp.Reveals {
				keys = append(keys, k)
			}
			sort.Slice(keys, func(i, j int) bool { return keys[i] < keys[j] })
			var rv, ps []interface{}
			for _, k := range keys {
				rv = append(rv, vL(k, sp.Reveals[k].SigSlot.L, sp.Reveals[k].Part.Weight))
			}
			for _, p := range sp.PositionsToReveal {
				ps = append(ps, p)
			}
			obs = vL(vSym("ok"), sp.SignedWeight, ps, rv)
		} else {
			cl := vC39Class(cerr)
			if cl == "notready" {
				nBelow++
			}
			if cl == "toomany" {
				nTooMany++
			}
			obs = vC39Res(cl)
		}
		out.o.Case(vSym("prove"), ws, adds, commitoks, allvalid, pw, lnpw, st, coins, obs)

		// ---- directed forgeries: proofs that are consistent in every respect (signature commitment
		// built over the slots actually used, L = prefix sums, coins -> positions by the real
		// CreateProof, genuine participant proofs, claimed signed weight above the proven weight)
		// but in which some or all of the "signing" slots carry the EMPTY signature.  The forger
		// needs no key.  Every one of them must be rejected.
		forge := func(label string, fake func(i int) bool, real func(i int) bool) {
			var claimed uint64
			for i := range parts {
				if parts[i].Weight > 0 && (fake(i) || real(i)) {
					claimed += parts[i].Weight
				}
			}
			if claimed < 2 {
				return
			}
			for _, pwF := range []uint64{claimed / 3, claimed / 2, claimed - 1} {
				if pwF == 0 {
					continue
				}
				fb, err := MakeProver(data, round, pwF, parts, partTree, st)
				if err != nil {
					continue
				}
				for i := range parts {
					if parts[i].Weight == 0 {
						continue
					}
					if real(i) {
						fb.sigs[i].Weight = parts[i].Weight
						fb.sigs[i].Sig = vC39CopySig(goodSigs[i])
					} else if fake(i) {
						fb.sigs[i].Weight = parts[i].Weight // bookkeeping only; the slot stays empty
					}
				}
				fb.signedWeight = claimed
				var fsp *StateProof
				if vC39Safe(func() error {
					var e error
					fsp, e = fb.CreateProof()
					return e
				}) != nil {
					continue
				}
				empties := 0
				for _, rv := range fsp.Reveals {
					if rv.SigSlot.Sig.MsgIsZero() {
						empties++
					}
				}
				if empties == 0 {
					continue
				}
				nForged++
				out.verifyCase(label, 0, partcom, pwF, st, round, data, fsp, fsp.SigProofs.TreeDepth,
					append([]uint64(nil), fsp.PositionsToReveal...))
				// the same forgery for another message (nobody signed it)
				if label == "forge_all_empty" {
					var d2 MessageHash
					copy(d2[:], r.Bytes(32))
					fb2, err := MakeProver(d2, round, pwF, parts, partTree, st)
					if err != nil {
						continue
					}
					for i := range parts {
						fb2.sigs[i].Weight = parts[i].Weight
					}
					fb2.signedWeight = claimed
					if f2, err := fb2.CreateProof(); err == nil {
						nForged++
						out.verifyCase("forge_all_empty_other_msg", 0, partcom, pwF, st, round, d2, f2, f2.SigProofs.TreeDepth,
							append([]uint64(nil), f2.PositionsToReveal...))
					}
				}
				break
			}
		}
		never := func(int) bool { return false }
		always := func(int) bool { return true }
		forge("forge_all_empty", always, never)
		forge("forge_nonsigners_empty", func(i int) bool { return !signs[i] }, func(i int) bool { return signs[i] && i != evil })
		firstNon := -1
		for i := range parts {
			if !signs[i] && parts[i].Weight > 0 {
				firstNon = i
				break
			}
		}
		if firstNon >= 0 {
			forge("forge_one_empty", func(i int) bool { return i == firstNon }, func(i int) bool { return signs[i] && i != evil })
		}

		if cerr != nil {
			continue
		}

		// ---- Verify: the honest proof and single-field mutations
		d0 := sp.SigProofs.TreeDepth
		pos0 := append([]uint64(nil), sp.PositionsToReveal...)
		vcase := func(label string, expect int, m *StateProof) {
			out.verifyCase(label, expect, partcom, pw, st, round, data, m, d0, pos0)
		}
		vcase("none", 1, sp)

		revealed := make([]uint64, 0, len(sp.Reveals))
		for k := range sp.Reveals {
			revealed = append(revealed, k)
		}
		sort.Slice(revealed, func(i, j int) bool { return revealed[i] < revealed[j] })
		pick := revealed[r.Intn(len(revealed))]
		// another signer (revealed or not) different from pick
		otherSigner := -1
		for i := 0; i < n; i++ {
			j := (int(pick) + 1 + i) % n
			if uint64(j) != pick && signs[j] && j != evil {
				otherSigner = j
				break
			}
		}

		// message / round
		{
			d2 := data
			d2[r.Intn(32)] ^= 1 << uint(r.Intn(8))
			out.verifyCase("data", 0, partcom, pw, st, round, d2, vC39Copy(sp), d0, pos0)
			out.verifyCase("round_far", 0, partcom, pw, st, round+lt, data, vC39Copy(sp), d0, pos0)
			if round >= lt {
				out.verifyCase("round_far", 0, partcom, pw, st, round-lt, data, vC39Copy(sp), d0, pos0)
			}
			if lt > 1 {
				r2 := round + 1
				if r2/lt != round/lt {
					r2 = round - 1
				}
				// same key-lifetime window: the signatures are valid for r2 as well
				out.verifyCase("round_window", 2, partcom, pw, st, r2, data, vC39Copy(sp), d0, pos0)
			}
		}
		// signature
		{
			m := vC39Copy(sp)
			rv := m.Reveals[pick]
			rv.SigSlot.Sig.Signature[len(rv.SigSlot.Sig.Signature)/2] ^= 0x10
			m.Reveals[pick] = rv
			vcase("sig_flip", 0, m)
		}
		if otherSigner >= 0 {
			m := vC39Copy(sp)
			rv := m.Reveals[pick]
			rv.SigSlot.Sig = vC39CopySig(goodSigs[otherSigner])
			m.Reveals[pick] = rv
			vcase("sig_swap", 0, m)
		}
		{
			var d2 MessageHash
			copy(d2[:], r.Bytes(32))
			s2, _ := signers[pick].sec.GetSigner(round).SignBytes(d2[:])
			m := vC39Copy(sp)
			rv := m.Reveals[pick]
			rv.SigSlot.Sig = s2
			m.Reveals[pick] = rv
			vcase("sig_other_msg", 0, m)
		}
		{
			m := vC39Copy(sp)
			rv := m.Reveals[pick]
			rv.SigSlot.Sig = merklesignature.Signature{}
			m.Reveals[pick] = rv
			vcase("sig_empty", 0, m)
		}
		// participant / weight / L
		if otherSigner >= 0 {
			m := vC39Copy(sp)
			rv := m.Reveals[pick]
			rv.Part.PK = parts[otherSigner].PK
			m.Reveals[pick] = rv
			vcase("pk", 0, m)

			m = vC39Copy(sp)
			rv = m.Reveals[pick]
			rv.Part = parts[otherSigner]
			rv.SigSlot.Sig = vC39CopySig(goodSigs[otherSigner])
			m.Reveals[pick] = rv
			vcase("part_swap", 0, m)
		}
		{
			m := vC39Copy(sp)
			rv := m.Reveals[pick]
			rv.Part.PK.KeyLifetime++
			m.Reveals[pick] = rv
			vcase("pk_lifetime", 0, m)

			m = vC39Copy(sp)
			rv = m.Reveals[pick]
			rv.Part.Weight++
			m.Reveals[pick] = rv
			vcase("weight_up", 0, m)

			m = vC39Copy(sp)
			rv = m.Reveals[pick]
			rv.Part.Weight--
			m.Reveals[pick] = rv
			vcase("weight_down", 0, m)

			m = vC39Copy(sp)
			rv = m.Reveals[pick]
			rv.SigSlot.L++
			m.Reveals[pick] = rv
			vcase("L_up", 0, m)
			if sp.Reveals[pick].SigSlot.L > 0 {
				m = vC39Copy(sp)
				rv = m.Reveals[pick]
				rv.SigSlot.L--
				m.Reveals[pick] = rv
				vcase("L_down", 0, m)
			}
		}
		// reveal positions
		{
			j := r.Intn(len(sp.PositionsToReveal))
			missing := uint64(n + r.Intn(3))
			for i := 0; i < n; i++ {
				if _, ok := sp.Reveals[uint64(i)]; !ok {
					missing = uint64(i)
					break
				}
			}
			m := vC39Copy(sp)
			m.PositionsToReveal[j] = missing
			vcase("pos_missing", 0, m)

			if len(revealed) > 1 {
				m = vC39Copy(sp)
				for _, k := range revealed {
					if k != m.PositionsToReveal[j] {
						m.PositionsToReveal[j] = k
						break
					}
				}
				vcase("pos_other", 0, m)
				// swap two entries naming different positions
				for k := range sp.PositionsToReveal {
					if sp.PositionsToReveal[k] != sp.PositionsToReveal[j] {
						m = vC39Copy(sp)
						m.PositionsToReveal[j], m.PositionsToReveal[k] = m.PositionsToReveal[k], m.PositionsToReveal[j]
						vcase("pos_swap", 0, m)
						break
					}
				}
			}
			m = vC39Copy(sp)
			delete(m.Reveals, pick)
			vcase("drop_reveal", 0, m)

			m = vC39Copy(sp)
			m.PositionsToReveal = m.PositionsToReveal[:len(m.PositionsToReveal)-1]
			vcase("drop_position", 2, m)

			if len(sp.PositionsToReveal) < MaxReveals {
				m = vC39Copy(sp)
				m.PositionsToReveal = append(m.PositionsToReveal, m.PositionsToReveal[0])
				vcase("add_position", 2, m)
			}
			m = vC39Copy(sp)
			for len(m.PositionsToReveal) <= MaxReveals {
				m.PositionsToReveal = append(m.PositionsToReveal, m.PositionsToReveal[0])
			}
			vcase("too_many_positions", 0, m)
		}
		// proof-level fields
		{
			m := vC39Copy(sp)
			m.SignedWeight++
			vcase("signedweight_up", 2, m)
			m = vC39Copy(sp)
			m.SignedWeight--
			vcase("signedweight_down", 2, m)
			m = vC39Copy(sp)
			m.SignedWeight = 0
			vcase("signedweight_zero", 0, m)
			m = vC39Copy(sp)
			m.SigCommit[r.Intn(len(m.SigCommit))] ^= 4
			vcase("sigcommit", 0, m)
			m = vC39Copy(sp)
			m.MerkleSignatureSaltVersion++
			vcase("salt_version", 0, m)
			m = vC39Copy(sp)
			m.SigProofs.TreeDepth = MaxTreeDepth + 1
			vcase("depth_too_large_sig", 0, m)
			m = vC39Copy(sp)
			m.PartProofs.TreeDepth = MaxTreeDepth + 1 + uint8(r.Intn(200))
			vcase("depth_too_large_part", 0, m)
			if len(sp.SigProofs.Path) > 0 {
				m = vC39Copy(sp)
				k := r.Intn(len(m.SigProofs.Path))
				m.SigProofs.Path[k][r.Intn(len(m.SigProofs.Path[k]))] ^= 1
				vcase("path_sig", 0, m)
			}
			if len(sp.PartProofs.Path) > 0 {
				m = vC39Copy(sp)
				k := r.Intn(len(m.PartProofs.Path))
				m.PartProofs.Path[k][r.Intn(len(m.PartProofs.Path[k]))] ^= 1
				vcase("path_part", 0, m)
			}
		}
		// TreeDepth / position renaming (C37: the depth is not bound by the VC verification)
		relabel := func(label string, dS, dP uint8, rename bool, dR uint8) {
			m := vC39Copy(sp)
			m.SigProofs.TreeDepth = dS
			m.PartProofs.TreeDepth = dP
			if rename {
				nr := map[uint64]Reveal{}
				for k, rv := range m.Reveals {
					k2, ok := vC39Relab(k, uint(d0), uint(dR))
					if !ok {
						return
					}
					nr[k2] = rv
				}
				if len(nr) != len(m.Reveals) {
					return
				}
				m.Reveals = nr
				changed := dS != d0 || dP != d0
				for j := range m.PositionsToReveal {
					old := m.PositionsToReveal[j]
					m.PositionsToReveal[j], _ = vC39Relab(old, uint(d0), uint(dR))
					changed = changed || m.PositionsToReveal[j] != old
				}
				if !changed {
					return // nothing was tampered with
				}
			}
			vcase(label, 0, m)
		}
		relabel("depth_only_sig", d0+1, d0, false, 0)
		relabel("depth_only_part", d0, d0+1, false, 0)
		relabel("depth_only_both", d0+1, d0+1, false, 0)
		relabel("relabel_up1", d0+1, d0+1, true, d0+1)
		relabel("relabel_up3", d0+3, d0+3, true, d0+3)
		relabel("relabel_max", MaxTreeDepth, MaxTreeDepth, true, MaxTreeDepth)
		if d0 > 0 {
			relabel("relabel_down1", d0-1, d0-1, true, d0-1)
		}
		relabel("relabel_sig_only", d0+1, d0, true, d0+1)
		relabel("relabel_keys_only", d0, d0, true, d0+1)

		// the verifier's trusted data
		{
			out.verifyCase("verifier_pw_signed", 2, partcom, sp.SignedWeight, st, round, data, vC39Copy(sp), d0, pos0)
			out.verifyCase("verifier_pw_plus1", 2, partcom, pw+1, st, round, data, vC39Copy(sp), d0, pos0)
			out.verifyCase("verifier_pw_double", 2, partcom, pw*2, st, round, data, vC39Copy(sp), d0, pos0)
			out.verifyCase("verifier_st_double", 2, partcom, pw, st*2, round, data, vC39Copy(sp), d0, pos0)
			pc2 := append(crypto.GenericDigest(nil), partcom...)
			pc2[r.Intn(len(pc2))] ^= 2
			out.verifyCase("verifier_partcom", 0, pc2, pw, st, round, data, vC39Copy(sp), d0, pos0)
		}
	}
	labels := map[string]interface{}{}
	for k, v := range out.labels {
		labels[k] = map[string]int{"cases": v, "accepted": out.accept[k], "rejected": out.reject[k]}
	}
	vStats(map[string]interface{}{
		"scenarios": nScen, "participants_histogram": partHist, "proofs_created": nProofs,
		"below_threshold": nBelow, "too_many_reveals": nTooMany, "isvalid_cases": nIsValid,
		"uncommittable_valid_sig_added": nBlocked, "forged_empty_signature_proofs": nForged, "verify_mutations": labels, "verify_panics": out.panics,
	})
	if out.panics > 0 {
		t.Errorf("Verifier.Verify panicked in %d cases", out.panics)
	}
}
