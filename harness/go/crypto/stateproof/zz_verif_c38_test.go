//go:build verif

package stateproof

// C38 harness: runs the real numReveals / verifyWeights / getSubExpressions / coinGenerator
// of crypto/stateproof on boundary-heavy, realistic and random inputs and writes one term
// per observation (see coq/model/SpWeights.v:check for the case formats).

import (
	"encoding/binary"
	"errors"
	"math/big"
	"testing"

	"golang.org/x/crypto/sha3"

	"github.com/algorand/go-algorand/crypto"
)

func vC38Err(err error) []interface{} {
	switch {
	case err == nil:
		return vL(vSym("ok"))
	case errors.Is(err, ErrTooManyReveals):
		return vL(vSym("err"), vSym("toomany"))
	case errors.Is(err, ErrZeroSignedWeight):
		return vL(vSym("err"), vSym("zerosw"))
	case errors.Is(err, ErrInsufficientSignedWeight):
		return vL(vSym("err"), vSym("insufficient"))
	case errors.Is(err, ErrNegativeNumOfRevealsEquation):
		return vL(vSym("err"), vSym("negative"))
	}
	return vL(vSym("err"), vSym("other"))
}

func vC38NumReveals(sw, lnPW, st uint64) (res []interface{}, n uint64, ok bool) {
	defer func() {
		if r := recover(); r != nil {
			res, n, ok = vL(vSym("panic")), 0, false
		}
	}()
	n, err := numReveals(sw, lnPW, st)
	if err != nil {
		return vC38Err(err), 0, false
	}
	return vL(vSym("ok"), n), n, true
}

// big integers are printed in decimal as bare integer tokens
type vBig struct{ b *big.Int }

func vC38Big(b *big.Int) vSym { return vSym(b.String()) }

func vC38Inputs(r *vRand, kind int) (sw, lnPW, st uint64) {
	switch kind {
	case 0: // realistic: proven weight a fraction of the signed weight, small targets
		sw = r.U64()>>uint(r.Intn(63)) | 1
		pw := sw / uint64(2+r.Intn(6))
		if r.Intn(4) == 0 {
			pw = sw - sw/uint64(3+r.Intn(1000))
		}
		if pw == 0 {
			pw = 1
		}
		lnPW, _ = LnIntApproximation(pw)
		switch r.Intn(4) {
		case 0:
			st = 256
		case 1:
			st = uint64(r.Intn(16))
		default:
			st = uint64(r.Intn(1200))
		}
	case 1: // boundary: ln of the signed weight itself +- a few units, edge weights
		sw = r.Edge64()
		if sw == 0 {
			sw = 1
		}
		l, _ := LnIntApproximation(sw)
		d := uint64(r.Intn(2000))
		if r.Bool() {
			lnPW = l + d
		} else if l >= d {
			lnPW = l - d
		}
		st = uint64(r.Intn(700))
		if r.Intn(8) == 0 {
			st = r.Edge64()
		}
	case 2: // tiny weights: exhaustive-ish small corner
		sw = uint64(1 + r.Intn(40))
		lnPW = uint64(r.Intn(400000))
		st = uint64(r.Intn(300))
	default: // unconstrained
		sw = r.Edge64()
		if sw == 0 {
			sw = 1
		}
		lnPW = r.Edge64()
		if r.Bool() {
			lnPW = uint64(r.Intn(3200000))
		}
		st = r.Edge64()
		if r.Bool() {
			st = uint64(r.Intn(100000))
		}
	}
	return
}

func TestVerifC38(t *testing.T) {
	out := vOpen("cases_c38.txt")
	defer out.Close()
	r := vNewRand(38)
	n := vEnvInt("VERIF_C38_N", 4000)
	stats := map[string]interface{}{}
	kinds := map[string]int{}
	okCount, errCount := 0, 0

	emitNR := func(sw, lnPW, st uint64) (uint64, bool) {
		res, nr, ok := vC38NumReveals(sw, lnPW, st)
		y, x, w := getSubExpressions(sw)
		out.Case(vSym("nr"), sw, lnPW, st, res, vL(vC38Big(y), vC38Big(x), vC38Big(w)))
		if ok {
			okCount++
		} else {
			errCount++
		}
		return nr, ok
	}

	// the recorded witness of C38_prover_satisfies_verifier_refuted, replayed on the real code
	emitNR(2, 45425, 16469161498611801019)
	// consensus-like point of C38_nonvacuous
	emitNR(1<<40, 1738076, 256)

	// ---- directed boundary stream (always run, a few hundred cases): inputs SOLVED so that
	// the exact quotient floor(numerator/denom) is MaxReveals-2 .. MaxReveals+1, the zero
	// crossing of denom, and the other guards of numReveals / verifyWeights
	directed := 0
	emitProbe := func(sw, lnPW, st uint64) {
		nr, ok := emitNR(sw, lnPW, st)
		cand := []uint64{0, 1, MaxReveals - 2, MaxReveals - 1, MaxReveals, MaxReveals + 1, MaxReveals + 2}
		if ok {
			cand = append(cand, nr, nr+1)
			if nr >= 1 {
				cand = append(cand, nr-1)
			}
			if nr >= 2 {
				cand = append(cand, nr-2)
			}
		}
		var probes []interface{}
		for _, m := range cand {
			probes = append(probes, vL(m, vC38Err(verifyWeights(sw, lnPW, m, st))))
		}
		res, _, _ := vC38NumReveals(sw, lnPW, st)
		out.Case(vSym("pv"), sw, lnPW, st, res, probes)
		directed++
	}
	quotients := map[uint64]int{}
	type wp struct{ sw, pw uint64 }
	weights := []wp{{100, 50}, {100, 1}, {100, 99}, {3, 1}, {2, 1}, {7, 2}, {1000, 300}, {65536, 1000}, {65537, 40000},
		{1 << 20, 1 << 18}, {1<<32 - 1, 1 << 30}, {1 << 40, 3 << 38}, {1<<40 + 12345, 1 << 39}, {1 << 50, 1 << 49},
		{1<<63 - 1, 1 << 61}, {1 << 63, 1 << 62}, {^uint64(0), 1 << 63}, {^uint64(0), ^uint64(0) / 3}, {^uint64(0) - 1, 12345}}
	for _, c := range weights {
		lnPW, _ := LnIntApproximation(c.pw)
		// independent big-integer computation of y, x, w, denom (not through getSubExpressions)
		d := uint(0)
		for (uint64(1)<<(d+1)) <= c.sw && d < 63 {
			d++
		}
		bsw := new(big.Int).SetUint64(c.sw)
		sq := new(big.Int).Mul(bsw, bsw)
		p2d := new(big.Int).Lsh(big.NewInt(1), 2*d)
		y := new(big.Int).Lsh(big.NewInt(1), d+2)
		y.Mul(y, bsw).Add(y, sq).Add(y, p2d)
		x := new(big.Int).Sub(sq, p2d)
		x.Mul(x, big.NewInt(3<<16))
		w := new(big.Int).SetUint64(uint64(d) * (ln2IntApproximation - 1))
		wy := new(big.Int).Mul(w, y)
		denom := new(big.Int).SetUint64(lnPW)
		denom.Mul(denom, y).Sub(wy, denom).Add(denom, x)
		ty := new(big.Int).Mul(big.NewInt(int64(ln2IntApproximation)), y)
		if denom.Sign() > 0 {
			// strengthTarget with floor(st*T*y/denom) = q, if one exists: st = ceil(q*denom/(T*y)) and neighbours
			for q := uint64(MaxReveals - 3); q <= MaxReveals+2; q++ {
				st := new(big.Int).Mul(new(big.Int).SetUint64(q), denom)
				st.Add(st, ty).Sub(st, big.NewInt(1)).Div(st, ty)
				if !st.IsUint64() {
					continue
				}
				for delta := int64(-1); delta <= 1; delta++ {
					s64 := st.Uint64() + uint64(delta)
					if delta < 0 && st.Uint64() == 0 {
						continue
					}
					got := new(big.Int).Mul(new(big.Int).SetUint64(s64), ty)
					got.Div(got, denom)
					if got.IsUint64() && got.Uint64() >= MaxReveals-3 && got.Uint64() <= MaxReveals+2 {
						quotients[got.Uint64()]++
						emitProbe(c.sw, lnPW, s64)
					}
				}
			}
			emitProbe(c.sw, lnPW, 0) // strength 0: quotient 0, one reveal
			emitProbe(c.sw, lnPW, 1)
			emitProbe(c.sw, lnPW, 256)
		}
		// zero crossing of denom in lnProvenWeight: largest P with denom > 0 is ceil((w*y+x)/y) - 1
		pz := new(big.Int).Add(wy, x)
		pz.Add(pz, y).Sub(pz, big.NewInt(1)).Div(pz, y)
		if pz.IsUint64() && pz.Uint64() >= 2 {
			for _, P := range []uint64{pz.Uint64() - 2, pz.Uint64() - 1, pz.Uint64(), pz.Uint64() + 1} {
				emitProbe(c.sw, P, 1)
				emitProbe(c.sw, P, 256)
			}
		}
		// proven weight >= signed weight
		lnSW, _ := LnIntApproximation(c.sw)
		emitProbe(c.sw, lnSW, 256)
		emitProbe(c.sw, lnSW+1, 256)
		emitProbe(c.sw, lnSW-1, 256)
	}
	// signedWeight = 1 (d = 0, x = 0, w = 0: never provable) and 0 (verifier only; numReveals(0)
	// would shift by uint(0)-1 and is never called by the prover)
	for _, P := range []uint64{0, 1, 45427} {
		for _, st := range []uint64{0, 1, 256} {
			emitProbe(1, P, st)
			for _, m := range []uint64{0, 1, MaxReveals, MaxReveals + 1} {
				out.Case(vSym("vw"), 0, P, m, st, vC38Err(verifyWeights(0, P, m, st)))
			}
		}
	}
	stats["directed_cases"] = directed
	stats["directed_exact_quotients"] = quotients

	for i := 0; i < n; i++ {
		kind := i % 4
		sw, lnPW, st := vC38Inputs(r, kind)
		kinds[[]string{"realistic", "boundary", "tiny", "random"}[kind]]++
		nr, ok := emitNR(sw, lnPW, st)

		// prover/verifier agreement probe: the verifier on the prover's count and around it
		var probes []interface{}
		cand := []uint64{0, 1, uint64(r.Intn(641)), MaxReveals, MaxReveals + 1}
		if ok {
			cand = append(cand, nr, nr+1)
			if nr >= 1 {
				cand = append(cand, nr-1)
			}
			if nr >= 2 {
				cand = append(cand, nr-2, uint64(r.Intn(int(nr))))
			}
		}
		for _, m := range cand {
			probes = append(probes, vL(m, vC38Err(verifyWeights(sw, lnPW, m, st))))
		}
		res, _, _ := vC38NumReveals(sw, lnPW, st)
		out.Case(vSym("pv"), sw, lnPW, st, res, probes)

		// verifier alone, including signedWeight = 0 and counts above MaxReveals
		vsw := sw
		if r.Intn(16) == 0 {
			vsw = 0
		}
		m := uint64(r.Intn(700))
		if r.Intn(16) == 0 {
			m = r.Edge64()
		}
		out.Case(vSym("vw"), vsw, lnPW, m, st, vC38Err(verifyWeights(vsw, lnPW, m, st)))

		// coins: the generator under test and an independent read of the same XOF stream
		if i%4 == 0 {
			csw := sw
			switch r.Intn(4) {
			case 0:
				csw = (uint64(1) << 63) + 1 + uint64(r.Intn(1000)) // ~50% rejection
			case 1:
				csw = ^uint64(0) / uint64(2+r.Intn(5)) + 1 + uint64(r.Intn(50))
			}
			choice := coinChoiceSeed{
				partCommitment: crypto.GenericDigest(r.Bytes(64)),
				lnProvenWeight: lnPW,
				sigCommitment:  crypto.GenericDigest(r.Bytes(64)),
				signedWeight:   csw,
			}
			copy(choice.data[:], r.Bytes(32))
			cg := makeCoinGenerator(&choice)
			const k = 8
			var coins []interface{}
			for j := 0; j < k; j++ {
				coins = append(coins, cg.getNextCoin())
			}
			shk := sha3.NewShake256()
			shk.Write(crypto.HashRep(&choice))
			var words []interface{}
			for j := 0; j < 96; j++ {
				var b [8]byte
				shk.Read(b[:])
				words = append(words, binary.LittleEndian.Uint64(b[:]))
			}
			out.Case(vSym("coin"), csw, words, coins)
		}
	}
	stats["input_kinds"] = kinds
	stats["numReveals_ok"] = okCount
	stats["numReveals_err"] = errCount
	vStats(stats)
}
