//go:build verif

package merklearray

// C37 harness.  For arrays of size 0..N (all position subsets for small N, random subsets
// for large N; plain trees and vector commitments) it records what the real Build / Prove /
// Verify / VerifyVectorCommitment do on the honest proof and on a catalogue of single-field
// mutations of (root, elements, positions, path, tree depth, hash factory), plus the replay
// of the recorded findings (tree-depth-only mutation, oversize hint forgery, plain-array
// position past the end).  Case formats: coq/model/MerkleArrayCheck.v.
//
// Every case carries the oracle table of the real hash function on the pre-images of the
// tree under test, computed here with crypto.HashFactory directly.

import (
	"bytes"
	"errors"
	"fmt"
	"sort"
	"strings"
	"testing"

	"github.com/algorand/go-algorand/crypto"
	"github.com/algorand/go-algorand/protocol"
)

type vElem []byte

func (e vElem) ToBeHashed() (protocol.HashID, []byte) { return protocol.TestHashable, []byte(e) }

type vArr []vElem

func (a vArr) Length() uint64 { return uint64(len(a)) }
func (a vArr) Marshal(pos uint64) (crypto.Hashable, error) {
	if pos >= uint64(len(a)) {
		return nil, fmt.Errorf("pos %d past end %d", pos, len(a))
	}
	return a[pos], nil
}

type vRaw struct {
	id protocol.HashID
	b  []byte
}

func (r vRaw) ToBeHashed() (protocol.HashID, []byte) { return r.id, r.b }

type vTree struct {
	vc      bool
	hf      crypto.HashFactory
	hs      int
	arr     vArr
	foreign []vElem
	tree    *Tree
	env     string // rendered (vc hs elems tab)
}

func vB(b []byte) string {
	var sb strings.Builder
	vTerm(&sb, []byte(b))
	return sb.String()
}

func vBL(l [][]byte) string {
	var sb strings.Builder
	sb.WriteByte('(')
	for i, b := range l {
		if i > 0 {
			sb.WriteByte(' ')
		}
		vTerm(&sb, []byte(b))
	}
	sb.WriteByte(')')
	return sb.String()
}

func vDigests(l []crypto.GenericDigest) [][]byte {
	r := make([][]byte, len(l))
	for i := range l {
		r[i] = []byte(l[i])
	}
	return r
}

func vMakeTree(r *vRand, n int, vc bool, ht crypto.HashType) *vTree {
	t := &vTree{vc: vc, hf: crypto.HashFactory{HashType: ht}}
	h := t.hf.NewHash()
	t.hs = h.Size()
	seen := map[string]bool{}
	fresh := func() vElem {
		for {
			e := vElem(r.Bytes(1 + r.Intn(4)))
			if !seen[string(e)] {
				seen[string(e)] = true
				return e
			}
		}
	}
	t.arr = make(vArr, n)
	for i := range t.arr {
		t.arr[i] = fresh()
	}
	t.foreign = []vElem{fresh(), fresh()}
	var err error
	if vc {
		t.tree, err = BuildVectorCommitmentTree(t.arr, t.hf)
	} else {
		t.tree, err = Build(t.arr, t.hf)
	}
	if err != nil {
		panic(err)
	}
	// oracle table: leaves, foreign elements, bottom leaf, and one node pre-image per adjacent
	// pair of every layer (digest values come from the hash function, not from the tree)
	var sb strings.Builder
	put := func(obj crypto.Hashable) {
		pre := crypto.HashRep(obj)
		d := crypto.GenericHashObj(h, obj)
		sb.WriteString("(" + vB(pre) + " " + vB(d) + ")")
	}
	sb.WriteString("(")
	for _, e := range t.arr {
		put(e)
	}
	for _, e := range t.foreign {
		put(e)
	}
	put(vRaw{protocol.MerkleVectorCommitmentBottomLeaf, nil})
	for _, lvl := range t.tree.Levels {
		if len(lvl) < 2 {
			continue
		}
		for i := 0; i < len(lvl); i += 2 {
			buf := make([]byte, 2*t.hs)
			copy(buf, lvl[i])
			if i+1 < len(lvl) {
				copy(buf[t.hs:], lvl[i+1])
			}
			put(vRaw{protocol.MerkleArrayNode, buf})
		}
	}
	sb.WriteString(")")
	var es strings.Builder
	es.WriteString("(")
	for i, e := range t.arr {
		if i > 0 {
			es.WriteByte(' ')
		}
		es.WriteString(vB(crypto.HashRep(e)))
	}
	es.WriteString(")")
	vcI := 0
	if vc {
		vcI = 1
	}
	t.env = fmt.Sprintf("(%d %d %s %s)", vcI, t.hs, es.String(), sb.String())
	return t
}

type vClaimElem struct {
	pos uint64
	e   vElem
}

type vClaim struct {
	hf    crypto.HashFactory
	root  []byte
	elems []vClaimElem
	path  [][]byte
	depth uint8
}

func (c vClaim) clone() vClaim {
	d := c
	d.root = append([]byte(nil), c.root...)
	d.elems = append([]vClaimElem(nil), c.elems...)
	d.path = make([][]byte, len(c.path))
	for i := range c.path {
		d.path[i] = append([]byte(nil), c.path[i]...)
	}
	return d
}

func vVerifyErr(err error) string {
	switch {
	case err == nil:
		return "ok"
	case errors.Is(err, ErrRootMismatch):
		return "root"
	case errors.Is(err, ErrPosOutOfBound):
		return "pos"
	case errors.Is(err, ErrNonEmptyProofForEmptyElements):
		return "nonempty"
	case strings.Contains(err.Error(), "no more sibling hints"):
		return "nohints"
	case strings.Contains(err.Error(), "digest size"):
		return "hintlen"
	}
	return "other"
}

func (t *vTree) runClaim(c vClaim) (res string) {
	defer func() {
		if r := recover(); r != nil {
			res = "panic"
		}
	}()
	elems := make(map[uint64]crypto.Hashable, len(c.elems))
	for _, ce := range c.elems {
		elems[ce.pos] = ce.e
	}
	p := &Proof{HashFactory: c.hf, TreeDepth: c.depth}
	for _, h := range c.path {
		p.Path = append(p.Path, crypto.GenericDigest(h))
	}
	if t.vc {
		return vVerifyErr(VerifyVectorCommitment(crypto.GenericDigest(c.root), elems, p))
	}
	return vVerifyErr(Verify(crypto.GenericDigest(c.root), elems, p))
}

type vMut struct {
	name string
	c    vClaim
}

// lowest level at which the path of leaf position p takes a right step, or -1
func vRightStep(p uint64, depth int) int {
	for l := 0; l < depth; l++ {
		if (p>>uint(l))&1 == 1 {
			return l
		}
	}
	return -1
}

func (t *vTree) mutations(r *vRand, hon vClaim, exhaustivePos bool) []vMut {
	var ms []vMut
	add := func(name string, c vClaim) { ms = append(ms, vMut{name, c}) }
	hs := t.hs
	n := len(t.arr)
	claimed := map[uint64]bool{}
	for _, ce := range hon.elems {
		claimed[ce.pos] = true
	}
	// ---- path
	for k := 0; k <= len(hon.path); k++ {
		if k < len(hon.path) {
			h := hon.path[k]
			c := hon.clone()
			if len(h) > 0 {
				c.path[k][r.Intn(len(h))] ^= 1 << uint(r.Intn(8))
			} else {
				c.path[k] = r.Bytes(hs)
			}
			add("hint_flip", c)
			c = hon.clone()
			c.path = append(c.path[:k], c.path[k+1:]...)
			add("hint_drop", c)
			c = hon.clone()
			c.path = append(c.path[:k+1], c.path[k:]...)
			add("hint_dup", c)
			if k+1 < len(hon.path) && !bytes.Equal(hon.path[k], hon.path[k+1]) {
				c = hon.clone()
				c.path[k], c.path[k+1] = c.path[k+1], c.path[k]
				add("hint_swap", c)
			}
			if len(h) == 0 {
				c = hon.clone()
				c.path[k] = make([]byte, hs)
				add("hint_zero_for_empty", c)
			} else {
				c = hon.clone()
				c.path[k] = nil
				add("hint_emptied", c)
				c = hon.clone()
				c.path[k] = append(c.path[k], 1, 2, 3)
				add("hint_trailing", c)
				c = hon.clone()
				c.path[k] = c.path[k][:hs/2]
				add("hint_truncated", c)
				c = hon.clone()
				c.path[k] = r.Bytes(2*hs + 1)
				add("hint_too_long", c)
			}
		}
		c := hon.clone()
		ins := r.Bytes(hs)
		c.path = append(c.path[:k], append([][]byte{ins}, c.path[k:]...)...)
		add("hint_add", c)
		c = hon.clone()
		c.path = append(c.path[:k], append([][]byte{nil}, c.path[k:]...)...)
		add("hint_add_empty", c)
	}
	// ---- tree depth
	for _, d := range []int{int(hon.depth) + 1, int(hon.depth) - 1, int(hon.depth) + 2, 0, 63, 64, 255} {
		if d < 0 || d > 255 || d == int(hon.depth) {
			continue
		}
		c := hon.clone()
		c.depth = uint8(d)
		name := "depth_other"
		if d == int(hon.depth)+1 {
			name = "depth_plus1"
		} else if d == int(hon.depth)-1 {
			name = "depth_minus1"
		}
		add(name, c)
	}
	// ---- elements
	for j := range hon.elems {
		c := hon.clone()
		c.elems[j].e = t.foreign[r.Intn(len(t.foreign))]
		add("elem_foreign", c)
		if n >= 2 {
			o := uint64(r.Intn(n))
			if o == hon.elems[j].pos {
				o = (o + 1) % uint64(n)
			}
			c = hon.clone()
			c.elems[j].e = t.arr[o]
			add("elem_other", c)
		}
		if j+1 < len(hon.elems) {
			c = hon.clone()
			c.elems[j].e, c.elems[j+1].e = c.elems[j+1].e, c.elems[j].e
			add("elem_swapped", c)
		}
	}
	// ---- positions
	if hon.depth < 40 {
		lim := uint64(1) << hon.depth
		for j := range hon.elems {
			var cands []uint64
			if exhaustivePos && lim <= 32 {
				for q := uint64(0); q <= lim; q++ {
					cands = append(cands, q)
				}
			} else {
				cands = []uint64{hon.elems[j].pos ^ 1, hon.elems[j].pos + 1, uint64(n), lim - 1, lim, uint64(r.Intn(int(lim) + 1))}
				if hon.elems[j].pos > 0 {
					cands = append(cands, hon.elems[j].pos-1)
				}
			}
			for _, q := range cands {
				if claimed[q] {
					continue
				}
				c := hon.clone()
				c.elems[j].pos = q
				add("pos_moved", c)
			}
		}
	}
	// ---- directed family: the proof for position p of a depth-d tree, re-presented with
	// TreeDepth d+j at position p + k*2^d (vector commitments: at the element index whose msb
	// position under the claimed depth d+j is msb(p) + k*2^d).  Every claim climbs the same d
	// levels with the same hints and ends at position k != 0: only the final position check of
	// inspectRoot rejects it.
	if len(hon.elems) >= 1 && len(t.tree.Levels) >= 1 {
		d := len(t.tree.Levels) - 1
		for j := 1; j <= 2 && d+j <= 62; j++ {
			for k := uint64(1); k < uint64(1)<<uint(j); k++ {
				c := hon.clone()
				c.depth = uint8(d + j)
				ok := true
				for x := range c.elems {
					pos := c.elems[x].pos
					if t.vc {
						m, err := merkleTreeToVectorCommitmentIndex(pos, uint8(d))
						if err != nil {
							ok = false
							break
						}
						m += k << uint(d)
						back, err := merkleTreeToVectorCommitmentIndex(m, uint8(d+j))
						if err != nil {
							ok = false
							break
						}
						c.elems[x].pos = back
					} else {
						c.elems[x].pos = pos + k<<uint(d)
					}
				}
				if ok {
					add("shift_depth", c)
				}
			}
		}
	}
	// ---- root
	if len(hon.root) > 0 {
		c := hon.clone()
		c.root[r.Intn(len(c.root))] ^= 1 << uint(r.Intn(8))
		add("root_flip", c)
		c = hon.clone()
		c.root = nil
		add("root_empty", c)
		c = hon.clone()
		c.root = c.root[:len(c.root)-1]
		add("root_truncated", c)
		if len(t.tree.Levels) >= 2 {
			c = hon.clone()
			c.root = append([]byte(nil), t.tree.Levels[len(t.tree.Levels)-2][0]...)
			add("root_other_node", c)
		}
	}
	// ---- set of claims
	if len(hon.elems) >= 1 {
		j := r.Intn(len(hon.elems))
		c := hon.clone()
		c.elems = append(c.elems[:j], c.elems[j+1:]...)
		add("claim_dropped", c)
	}
	for q := 0; q < n; q++ {
		if !claimed[uint64(q)] {
			c := hon.clone()
			c.elems = append(c.elems, vClaimElem{uint64(q), t.arr[q]})
			add("claim_added_true", c)
			c = hon.clone()
			c.elems = append(c.elems, vClaimElem{uint64(q), t.foreign[0]})
			add("claim_added_false", c)
			break
		}
	}
	// ---- hash factory
	for _, ht := range []crypto.HashType{crypto.Sha512_256, crypto.Sumhash, crypto.Sha256, crypto.Sha512} {
		if ht != t.hf.HashType {
			c := hon.clone()
			c.hf = crypto.HashFactory{HashType: ht}
			add("hash_changed", c)
		}
	}
	// ---- replay of the oversize-hint forgery: a foreign element at a single position whose
	// path has a right step; below that step the hints are junk, at the step the hint is
	// leftChild||rightChild of the real tree, above it the honest siblings
	if len(hon.elems) == 1 && len(t.tree.Levels) >= 2 {
		depth := len(t.tree.Levels) - 1
		leaf := hon.elems[0].pos
		if t.vc {
			m, err := merkleTreeToVectorCommitmentIndex(leaf, uint8(depth))
			if err != nil {
				panic(err)
			}
			leaf = m
		}
		if l := vRightStep(leaf, depth); l >= 0 {
			c := hon.clone()
			c.elems[0].e = t.foreign[1]
			c.path = nil
			for k := 0; k < depth; k++ {
				q := leaf >> uint(k)
				lvl := t.tree.Levels[k]
				switch {
				case k < l:
					c.path = append(c.path, r.Bytes(hs))
				case k == l:
					c.path = append(c.path, append(append([]byte(nil), lvl[q-1]...), lvl[q]...))
				default:
					var sib []byte
					if q^1 < uint64(len(lvl)) {
						sib = append(sib, lvl[q^1]...)
					}
					c.path = append(c.path, sib)
				}
			}
			add("forge_oversize", c)
		}
	}
	return ms
}

func (t *vTree) emitClaim(out *vOut, hon vClaim, honIdxs []uint64, name string, c vClaim, counts map[string]map[string]int) {
	res := t.runClaim(c)
	same := 0
	if c.hf.HashType == t.hf.HashType {
		same = 1
	}
	var es strings.Builder
	es.WriteString("(")
	for i, ce := range c.elems {
		if i > 0 {
			es.WriteByte(' ')
		}
		es.WriteString(fmt.Sprintf("(%d %s)", ce.pos, vB(crypto.HashRep(ce.e))))
	}
	es.WriteString(")")
	idx := make([]interface{}, len(honIdxs))
	for i, v := range honIdxs {
		idx[i] = v
	}
	line := fmt.Sprintf("(verify %s (%s %s %d %s) %s (%d %d %s %s %s %d) %s)",
		t.env, vT(idx...), vB(hon.root), hon.depth, vBL(hon.path), name,
		same, c.hf.NewHash().Size(), vB(c.root), es.String(), vBL(c.path), c.depth, res)
	out.Line(line)
	if counts[name] == nil {
		counts[name] = map[string]int{}
	}
	counts[name][res]++
}

func (t *vTree) emitBuild(out *vOut) {
	var sb strings.Builder
	sb.WriteString("(")
	for _, lvl := range t.tree.Levels {
		sb.WriteString(vBL(vDigests(lvl)))
	}
	sb.WriteString(")")
	out.Line(fmt.Sprintf("(build %s %s %s)", t.env, sb.String(), vB(t.tree.Root())))
}

func (t *vTree) emitProve(out *vOut, idxs []uint64) (*Proof, error) {
	arg := append([]uint64(nil), idxs...)
	p, err := t.tree.Prove(arg)
	il := make([]interface{}, len(idxs))
	for i, v := range idxs {
		il[i] = v
	}
	var res string
	switch {
	case err == nil:
		res = fmt.Sprintf("(ok %s %d)", vBL(vDigests(p.Path)), p.TreeDepth)
	case errors.Is(err, ErrProvingZeroCommitment):
		res = "(err zerocommitment)"
	case errors.Is(err, ErrPosOutOfBound):
		res = "(err pos)"
	default:
		res = "(err internal)"
	}
	out.Line(fmt.Sprintf("(prove %s %s %s)", t.env, vT(il...), res))
	return p, err
}

// one position set on one tree: Prove, the honest Verify, and the mutations
func (t *vTree) exercise(out *vOut, r *vRand, idxs []uint64, maxMut int, exhaustivePos bool, counts map[string]map[string]int) {
	p, err := t.emitProve(out, idxs)
	if err != nil {
		return
	}
	hon := vClaim{hf: t.hf, root: append([]byte(nil), t.tree.Root()...), depth: p.TreeDepth}
	hon.path = vDigests(p.Path)
	set := map[uint64]bool{}
	for _, i := range idxs {
		if !set[i] {
			set[i] = true
			hon.elems = append(hon.elems, vClaimElem{i, t.arr[i]})
		}
	}
	sort.Slice(hon.elems, func(a, b int) bool { return hon.elems[a].pos < hon.elems[b].pos })
	t.emitClaim(out, hon, idxs, "honest", hon, counts)
	ms := t.mutations(r, hon, exhaustivePos)
	if maxMut >= 0 && len(ms) > maxMut {
		// keep the forgery replay and the depth mutations, sample the rest
		var keep, rest []vMut
		for _, m := range ms {
			if m.name == "forge_oversize" || m.name == "depth_plus1" || m.name == "shift_depth" {
				keep = append(keep, m)
			} else {
				rest = append(rest, m)
			}
		}
		// the directed shift_depth family does not consume the sampling budget
		budget := maxMut
		for _, m := range keep {
			if m.name == "shift_depth" {
				budget++
			}
		}
		for len(keep) < budget && len(rest) > 0 {
			k := r.Intn(len(rest))
			keep = append(keep, rest[k])
			rest = append(rest[:k], rest[k+1:]...)
		}
		ms = keep
	}
	for _, m := range ms {
		t.emitClaim(out, hon, idxs, m.name, m.c, counts)
	}
}

func TestVerifC37(t *testing.T) {
	out := vOpen("cases_c37.txt")
	defer out.Close()
	r := vNewRand(37)
	fullN := vEnvInt("VERIF_C37_FULLN", 4)  // all subsets x full mutation catalogue up to this size
	exhN := vEnvInt("VERIF_C37_EXHN", 8)    // all subsets (sampled mutations) up to this size
	sampled := vEnvInt("VERIF_C37_SAMPLED", 5)
	nRand := vEnvInt("VERIF_C37_RAND", 40)
	maxLarge := vEnvInt("VERIF_C37_MAXN", 70)
	counts := map[string]map[string]int{}
	sizes := map[string]int{}
	subsets := 0

	for _, vc := range []bool{false, true} {
		for n := 0; n <= exhN; n++ {
			ht := crypto.Sha512_256
			tr := vMakeTree(r, n, vc, ht)
			tr.emitBuild(out)
			sizes[fmt.Sprintf("n=%d", n)]++
			for mask := 0; mask < 1<<uint(n); mask++ {
				var idxs []uint64
				for i := 0; i < n; i++ {
					if mask>>uint(i)&1 == 1 {
						idxs = append(idxs, uint64(i))
					}
				}
				subsets++
				if n <= fullN {
					tr.exercise(out, r, idxs, -1, true, counts)
				} else {
					tr.exercise(out, r, idxs, sampled, false, counts)
				}
			}
			// Prove on requests that are unsorted, repeated, out of range
			if n > 0 {
				tr.emitProve(out, []uint64{uint64(n - 1), 0, uint64(n - 1), 0})
				tr.emitProve(out, []uint64{uint64(n)})
				tr.emitProve(out, []uint64{0, uint64(n) + 5})
				tr.exercise(out, r, []uint64{uint64(n - 1), uint64(n / 2), uint64(n - 1), 0}, sampled, false, counts)
			} else {
				tr.emitProve(out, []uint64{0})
			}
		}
	}
	// large arrays, random subsets, all hash functions
	hts := []crypto.HashType{crypto.Sha512_256, crypto.Sumhash, crypto.Sha256, crypto.Sha512}
	for k := 0; k < nRand; k++ {
		n := exhN + 1 + r.Intn(maxLarge-exhN)
		switch r.Intn(6) {
		case 0:
			n = 1 << uint(3+r.Intn(4))
		case 1:
			n = 1<<uint(3+r.Intn(4)) + 1
		}
		tr := vMakeTree(r, n, r.Bool(), hts[k%len(hts)])
		tr.emitBuild(out)
		sizes["large"]++
		for rep := 0; rep < 3; rep++ {
			var idxs []uint64
			switch rep {
			case 0: // a single position
				idxs = []uint64{uint64(r.Intn(n))}
			case 1: // a few
				for i := 0; i < 2+r.Intn(4); i++ {
					idxs = append(idxs, uint64(r.Intn(n)))
				}
			default: // dense
				for i := 0; i < n; i++ {
					if r.Intn(3) != 0 {
						idxs = append(idxs, uint64(i))
					}
				}
				if len(idxs) == 0 {
					idxs = []uint64{0}
				}
			}
			tr.exercise(out, r, idxs, 12, false, counts)
		}
	}
	vStats(map[string]interface{}{"verify_outcomes_by_mutation": counts, "trees": sizes, "position_subsets_exhaustive": subsets})
}
