//go:build verif

package crypto

// C36 harness: forward security of the one-time (participation) signature keys.
//
// Real ed25519 keys.  A case is one sequence of operations on one freshly generated
// OneTimeSignatureSecrets:
//     del cb co K   = DeleteBeforeFineGrained({cb,co}, K)
//     reload        = Snapshot -> protocol.Encode -> protocol.Decode into a fresh value
//                     (what the participation database does; turns an empty Batches slice
//                     into nil, which DeleteBeforeFineGrained distinguishes)
// After Generate and after EVERY operation EVERY identifier of the universe UB x UO is probed:
// Sign(id, msgA) and the real Verify on the result.  Probe codes:
//     0  Sign returned the empty OneTimeSignature and Verify rejects it
//     1  non-empty signature, Verify accepts it, and Verify rejects it for the identifiers
//        (b+1,o), (b,o+1) and for another message
//     2  non-empty signature that Verify rejects
//     3  empty signature that Verify accepts
//     4  valid signature that Verify also accepts for another identifier / message
// Line:  (seq start n (UB...) (UO...) OBS0 ((del cb co K OBS) | (reload OBS)) ...)
//        OBS = (FirstBatch BatchesIsNil len(Batches) FirstOffset len(Offsets) (codes...))
// Exhaustive part: ALL operation sequences of length D over (every identifier of the universe
// as deletion point, fixed K) + reload, for several (start, n, K); random part: longer
// sequences with per-operation K, boundary starts (0, 2^64-n), huge offsets, wrap batch.

import (
	"fmt"
	"sync"
	"sync/atomic"
	"testing"

	"github.com/algorand/go-algorand/logging"
	"github.com/algorand/go-algorand/protocol"
)

var vC36MsgA = TestingHashable{data: []byte("verif-c36-message-A")}
var vC36MsgB = TestingHashable{data: []byte("verif-c36-message-B")}

// number of Sign-then-Verify probes and of operations really executed (shared prefixes once)
var vC36Probes, vC36Ops, vC36Valid int64

type vC36Op struct {
	reload bool
	cb, co uint64
	k      uint64
}

type vC36Cfg struct {
	start, n uint64
	ub, uo   []uint64
}

func vC36List(xs []uint64) []interface{} {
	r := make([]interface{}, len(xs))
	for i, x := range xs {
		r[i] = x
	}
	return r
}

func vC36Obs(s *OneTimeSignatureSecrets, cfg *vC36Cfg) []interface{} {
	codes := make([]interface{}, 0, len(cfg.ub)*len(cfg.uo))
	v := s.OneTimeSignatureVerifier
	for _, b := range cfg.ub {
		for _, o := range cfg.uo {
			id := OneTimeSignatureIdentifier{Batch: b, Offset: o}
			sig := s.Sign(id, vC36MsgA)
			empty := sig == OneTimeSignature{}
			ok := v.Verify(id, vC36MsgA, sig)
			code := 0
			switch {
			case empty && !ok:
				code = 0
			case empty && ok:
				code = 3
			case !empty && !ok:
				code = 2
			default:
				code = 1
				if v.Verify(OneTimeSignatureIdentifier{Batch: b + 1, Offset: o}, vC36MsgA, sig) ||
					v.Verify(OneTimeSignatureIdentifier{Batch: b, Offset: o + 1}, vC36MsgA, sig) ||
					v.Verify(id, vC36MsgB, sig) {
					code = 4
				}
			}
			codes = append(codes, code)
			atomic.AddInt64(&vC36Probes, 1)
			if code == 1 {
				atomic.AddInt64(&vC36Valid, 1)
			}
		}
	}
	return vL(s.FirstBatch, s.Batches == nil, len(s.Batches), s.FirstOffset, len(s.Offsets), codes)
}

func vC36Copy(s *OneTimeSignatureSecrets) *OneTimeSignatureSecrets {
	// DeleteBeforeFineGrained only re-slices / replaces the slices, so a copy of the
	// persistent part is an independent state (used to share prefixes in the enumeration)
	c := s.Snapshot()
	return &c
}

func vC36Reload(s *OneTimeSignatureSecrets) *OneTimeSignatureSecrets {
	snap := s.Snapshot()
	enc := protocol.Encode(&snap)
	var fresh OneTimeSignatureSecrets
	if err := protocol.Decode(enc, &fresh); err != nil {
		panic(fmt.Sprintf("c36 reload: %v", err))
	}
	return &fresh
}

func vC36Apply(s *OneTimeSignatureSecrets, op vC36Op, cfg *vC36Cfg) (*OneTimeSignatureSecrets, []interface{}) {
	atomic.AddInt64(&vC36Ops, 1)
	if op.reload {
		s2 := vC36Reload(s)
		return s2, vL(vSym("reload"), vC36Obs(s2, cfg))
	}
	s2 := vC36Copy(s)
	s2.DeleteBeforeFineGrained(OneTimeSignatureIdentifier{Batch: op.cb, Offset: op.co}, op.k)
	return s2, vL(vSym("del"), op.cb, op.co, op.k, vC36Obs(s2, cfg))
}

type vC36Sink struct {
	mu    sync.Mutex
	out   *vOut
	nseq  int
	nops  int
	kinds map[string]int
}

func (k *vC36Sink) emit(cfg *vC36Cfg, obs0 []interface{}, steps []interface{}, kind string) {
	line := vT(append([]interface{}{vSym("seq"), cfg.start, cfg.n, vC36List(cfg.ub), vC36List(cfg.uo), obs0}, steps...)...)
	k.mu.Lock()
	k.out.Line(line)
	k.nseq++
	k.nops += len(steps)
	k.kinds[kind]++
	k.mu.Unlock()
}

// every operation sequence of length depth over ops (prefix observations are shared)
func vC36Enum(sink *vC36Sink, cfg *vC36Cfg, ops []vC36Op, depth int, kind string) {
	s0 := GenerateOneTimeSignatureSecrets(cfg.start, cfg.n)
	obs0 := vC36Obs(s0, cfg)
	var rec func(s *OneTimeSignatureSecrets, steps []interface{}, d int)
	rec = func(s *OneTimeSignatureSecrets, steps []interface{}, d int) {
		if d == 0 {
			sink.emit(cfg, obs0, steps, kind)
			return
		}
		for _, op := range ops {
			s2, st := vC36Apply(s, op, cfg)
			ns := make([]interface{}, len(steps), len(steps)+1)
			copy(ns, steps)
			rec(s2, append(ns, st), d-1)
		}
	}
	rec(s0, nil, depth)
}

func vC36Universe(start, n, k uint64, extraB []uint64) *vC36Cfg {
	cfg := &vC36Cfg{start: start, n: n}
	seen := map[uint64]bool{}
	add := func(b uint64) {
		if !seen[b] {
			seen[b] = true
			cfg.ub = append(cfg.ub, b)
		}
	}
	add(start - 1) // wraps to 2^64-1 for start = 0 (callers that do not want that pass start > 0)
	for i := uint64(0); i <= n; i++ {
		add(start + i)
	}
	for _, b := range extraB {
		add(b)
	}
	for o := uint64(0); o <= k; o++ {
		cfg.uo = append(cfg.uo, o)
	}
	return cfg
}

func vC36AllDel(cfg *vC36Cfg, k uint64, skipWrap bool) []vC36Op {
	var ops []vC36Op
	for _, b := range cfg.ub {
		if skipWrap && b == ^uint64(0) {
			continue
		}
		for _, o := range cfg.uo {
			ops = append(ops, vC36Op{cb: b, co: o, k: k})
		}
	}
	return ops
}

func TestVerifC36(t *testing.T) {
	logging.Base().SetLevel(logging.Panic) // Sign warns on every out-of-range identifier
	out := vOpen("cases_c36.txt")
	defer out.Close()
	sink := &vC36Sink{out: out, kinds: map[string]int{}}
	depth := vEnvInt("VERIF_C36_DEPTH", 3)
	nrand := vEnvInt("VERIF_C36_RAND", 300)
	big := vEnvInt("VERIF_C36_BIG", 0)

	type job func()
	var jobs []job
	// --- exhaustive: every sequence of `depth` operations, deletion point = every identifier of
	// the universe {start-1..start+n} x {0..K}, fixed K, plus reload
	type ex struct {
		start, n, k uint64
		d           int
	}
	exs := []ex{{3, 2, 2, depth}, {1, 1, 1, depth + 1}, {7, 2, 1, depth}, {5, 1, 2, depth}, {2, 0, 1, depth}, {4, 3, 1, depth - 1}, {9, 2, 0, depth - 1}}
	if big > 0 {
		exs = append(exs, ex{3, 3, 2, depth}, ex{6, 2, 3, depth}, ex{3, 2, 2, depth + 1})
	}
	for _, e := range exs {
		e := e
		jobs = append(jobs, func() {
			cfg := vC36Universe(e.start, e.n, e.k, nil)
			ops := append(vC36AllDel(cfg, e.k, true), vC36Op{reload: true})
			vC36Enum(sink, cfg, ops, e.d, "exhaustive")
		})
	}
	// --- boundaries of uint64: start = 0 (FirstBatch-1 wraps) and the top of the batch range;
	// deletion points with Batch = 2^64-1 make Batch+1 wrap (recorded finding signature)
	max := ^uint64(0)
	jobs = append(jobs, func() {
		cfg := vC36Universe(0, 2, 1, nil) // universe contains batch 2^64-1
		ops := append(vC36AllDel(cfg, 1, true), vC36Op{reload: true})
		vC36Enum(sink, cfg, ops, depth, "start0")
	})
	jobs = append(jobs, func() {
		cfg := vC36Universe(max-2, 2, 1, nil) // batches 2^64-3, 2^64-2; universe up to 2^64-1
		ops := append(vC36AllDel(cfg, 1, true), vC36Op{reload: true})
		vC36Enum(sink, cfg, ops, depth-1, "top")
	})
	jobs = append(jobs, func() {
		cfg := vC36Universe(1, 1, 1, []uint64{max})
		ops := vC36AllDel(cfg, 1, false)
		vC36Enum(sink, cfg, ops, 2, "wrapcur")
	})
	jobs = append(jobs, func() {
		cfg := vC36Universe(max-1, 2, 1, nil) // range [2^64-2, 2^64): last batch is 2^64-1
		ops := vC36AllDel(cfg, 1, false)
		vC36Enum(sink, cfg, ops, 2, "wrapcur")
	})
	// --- random: longer sequences, K varies per operation, huge offsets, n = 0
	const chunk = 25
	for c := 0; c*chunk < nrand; c++ {
		c := c
		jobs = append(jobs, func() {
			rnd := vNewRand(3600 + uint64(c))
			for i := 0; i < chunk && c*chunk+i < nrand; i++ {
				n := uint64(rnd.Intn(5))
				kmax := uint64(1 + rnd.Intn(3))
				var start uint64
				switch rnd.Intn(8) {
				case 0:
					start = 0
				case 1:
					start = max - n - uint64(rnd.Intn(2)) // top of the range, start+n <= 2^64-1
				case 2:
					start = rnd.U64() >> 1
				default:
					start = uint64(1 + rnd.Intn(6))
				}
				cfg := vC36Universe(start, n, kmax, nil)
				s := GenerateOneTimeSignatureSecrets(cfg.start, cfg.n)
				obs0 := vC36Obs(s, cfg)
				var steps []interface{}
				ln := 3 + rnd.Intn(6)
				// mostly advancing deletion points, sometimes going back
				bi, oi := 0, 0
				for j := 0; j < ln; j++ {
					var op vC36Op
					switch r := rnd.Intn(20); {
					case r == 0:
						op = vC36Op{reload: true}
					case r == 1:
						op = vC36Op{cb: cfg.ub[rnd.Intn(len(cfg.ub))], co: rnd.Edge64(), k: uint64(rnd.Intn(int(kmax) + 1))}
					case r < 6:
						op = vC36Op{cb: cfg.ub[rnd.Intn(len(cfg.ub))], co: cfg.uo[rnd.Intn(len(cfg.uo))], k: uint64(rnd.Intn(int(kmax) + 2))}
					default:
						if rnd.Intn(3) == 0 {
							bi, oi = bi+1, 0
						} else {
							oi++
						}
						if bi >= len(cfg.ub) {
							bi = len(cfg.ub) - 1
						}
						if oi >= len(cfg.uo) {
							oi = 0
							if bi+1 < len(cfg.ub) {
								bi++
							}
						}
						op = vC36Op{cb: cfg.ub[bi], co: cfg.uo[oi], k: kmax}
					}
					if !op.reload && op.cb == max && rnd.Intn(4) != 0 {
						op.cb = cfg.start // keep wrap deletion points rare outside the dedicated group
					}
					var st []interface{}
					s, st = vC36Apply(s, op, cfg)
					steps = append(steps, st)
				}
				sink.emit(cfg, obs0, steps, "random")
			}
		})
	}

	workers := vEnvInt("VERIF_C36_WORKERS", 4)
	ch := make(chan job)
	var wg sync.WaitGroup
	for w := 0; w < workers; w++ {
		wg.Add(1)
		go func() {
			defer wg.Done()
			for j := range ch {
				j()
			}
		}()
	}
	for _, j := range jobs {
		ch <- j
	}
	close(ch)
	wg.Wait()
	vStats(map[string]interface{}{
		"sequences": sink.nseq, "operations_in_sequences": sink.nops, "operations_executed": vC36Ops,
		"probes_sign_then_verify_executed": vC36Probes, "probes_valid": vC36Valid,
		"kinds": sink.kinds, "exhaustive_depth": depth,
	})
}
