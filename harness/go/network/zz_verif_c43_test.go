//go:build verif

package network

// C43 harness (package network, injected with -overlay; /repo is not modified).
//
//   TestVerifC43Gen  translator: dumps protocol.TagList / Tag.MaxMessageSize() (evaluated on
//                    ALL 65536 two-byte tags), dedupSafeTag, MaxMessageLength,
//                    averageMessageLength, allocationStep and the default filter geometry from
//                    the running code into coq/gen/TagLimits.v.
//   TestVerifC43     correspondence cases (one term per line, inputs + observation):
//     (consts ...) / (tag ...)   constants seen by this binary (cross-check of the translator)
//     (slurp base max (msg...))  the real LimitedReaderSlurper fed by a scripted io.Reader
//                                 (arbitrary chunking, zero-length reads, early EOF, errors),
//                                 several messages per slurper (Reset), sizes around each tag limit
//     (filter n max ops has st)  the real messageFilter under random CheckDigest sequences
//     (net n max peers steps)    real wsPeer.readLoop goroutines on fake connections sharing one
//                                 messageFilter, serialised by a schedule
//     (vnet n max peers steps)   the same, with votes sent over connections that negotiated
//                                 different vote encodings (plain AV, stateless AV, stateful VP):
//                                 the delivered (tag, bytes) stream must not repeat within the window

import (
	"bytes"
	"errors"
	"fmt"
	"io"
	"net"
	"os"
	"sort"
	"strings"
	"testing"
	"time"

	"github.com/algorand/websocket"

	"github.com/algorand/go-algorand/config"
	"github.com/algorand/go-algorand/crypto"
	"github.com/algorand/go-algorand/logging"
	"github.com/algorand/go-algorand/network/vpack"
	"github.com/algorand/go-algorand/protocol"
)

// ---------------------------------------------------------------- translator

func vCoqTag(t string) string {
	var parts []string
	for i := 0; i < len(t); i++ {
		parts = append(parts, fmt.Sprintf("%d", t[i]))
	}
	return "[" + strings.Join(parts, "; ") + "]"
}

func vCoqTagTable(name, comment string, tags []protocol.Tag) string {
	var sb strings.Builder
	fmt.Fprintf(&sb, "(* %s *)\nDefinition %s : list (list N * N) := [", comment, name)
	for i, t := range tags {
		if i > 0 {
			sb.WriteString(";")
		}
		fmt.Fprintf(&sb, "\n  (%s, %d) (* %q *)", vCoqTag(string(t)), t.MaxMessageSize(), string(t))
	}
	sb.WriteString("].\n\n")
	return sb.String()
}

func vAllTwoByteTags() []protocol.Tag {
	res := make([]protocol.Tag, 0, 65536)
	for a := 0; a < 256; a++ {
		for b := 0; b < 256; b++ {
			res = append(res, protocol.Tag(string([]byte{byte(a), byte(b)})))
		}
	}
	return res
}

func TestVerifC43Gen(t *testing.T) {
	out := os.Getenv("VERIF_GEN_OUT")
	if out == "" {
		t.Skip("VERIF_GEN_OUT not set")
	}
	var sb strings.Builder
	sb.WriteString("(* GENERATED on every run by harness/go/network/zz_verif_c43_test.go:TestVerifC43Gen from the\n   running code (protocol/tags.go, network/wsPeer.go, network/limited_reader_slurper.go,\n   config defaults).  Never edit. *)\n")
	sb.WriteString("From Coq Require Import NArith List.\nImport ListNotations.\nOpen Scope N_scope.\n\n")
	sb.WriteString(vCoqTagTable("tag_list", "protocol.TagList with Tag.MaxMessageSize()", protocol.TagList))
	sb.WriteString(vCoqTagTable("deprecated_tag_list", "protocol.DeprecatedTagList with Tag.MaxMessageSize()", protocol.DeprecatedTagList))
	var nonzero, dedup []protocol.Tag
	for _, tg := range vAllTwoByteTags() {
		if tg.MaxMessageSize() != 0 {
			nonzero = append(nonzero, tg)
		}
		if dedupSafeTag(tg) {
			dedup = append(dedup, tg)
		}
	}
	sb.WriteString(vCoqTagTable("nonzero_limits", "every two-byte tag t with t.MaxMessageSize() <> 0 (all 65536 evaluated)", nonzero))
	sb.WriteString("(* every two-byte tag t with dedupSafeTag(t) (all 65536 evaluated) *)\nDefinition dedup_safe_tags : list (list N) := [")
	for i, tg := range dedup {
		if i > 0 {
			sb.WriteString("; ")
		}
		sb.WriteString(vCoqTag(string(tg)))
	}
	sb.WriteString("].\n\n")
	// MaxMessageSize of tags that are not two bytes long (readLoop only ever builds two-byte tags)
	odd := uint64(0)
	for _, s := range []string{"", "A", "AVX", "TX "} {
		odd += protocol.Tag(s).MaxMessageSize()
	}
	fmt.Fprintf(&sb, "Definition odd_length_tag_limit_sum : N := %d.\n", odd)
	fmt.Fprintf(&sb, "Definition tagLength : N := %d.\n", protocol.TagLength)
	fmt.Fprintf(&sb, "Definition maxMessageLength : N := %d.\n", uint64(MaxMessageLength))
	fmt.Fprintf(&sb, "Definition averageMessageLength : N := %d.\n", uint64(averageMessageLength))
	fmt.Fprintf(&sb, "Definition allocationStep_code : N := %d.\n", uint64(allocationStep))
	dl := config.GetDefaultLocal()
	fmt.Fprintf(&sb, "Definition incomingFilterBucketCount : N := %d.\n", dl.IncomingMessageFilterBucketCount)
	fmt.Fprintf(&sb, "Definition incomingFilterBucketSize : N := %d.\n", dl.IncomingMessageFilterBucketSize)
	if err := os.WriteFile(out, []byte(sb.String()), 0644); err != nil {
		t.Fatal(err)
	}
}

// ---------------------------------------------------------------- scripted reader

var errVerifReader = errors.New("verif: injected reader error")

type vEv struct {
	k    int
	kind int // 0 data, 1 data + EOF with the last bytes, 2 error
}

// vScriptReader mirrors coq/model/Slurper.v:rread
type vScriptReader struct {
	data   []byte
	pos    int
	script []vEv
	calls  int
	maxL   int
}

func (r *vScriptReader) Read(p []byte) (int, error) {
	r.calls++
	L := len(p)
	if L > r.maxL {
		r.maxL = L
	}
	rem := len(r.data) - r.pos
	scribble := func(n int) {
		// a Reader may use all of p as scratch space: dirty the bytes after n
		for i := n; i < L && i < n+8; i++ {
			p[i] = 0xEE
		}
	}
	if len(r.script) == 0 {
		n := min(L, rem)
		if n == 0 {
			if rem == 0 {
				return 0, io.EOF
			}
			return 0, nil
		}
		copy(p, r.data[r.pos:r.pos+n])
		r.pos += n
		scribble(n)
		return n, nil
	}
	e := r.script[0]
	r.script = r.script[1:]
	n := min(e.k, min(L, rem))
	copy(p, r.data[r.pos:r.pos+n])
	r.pos += n
	scribble(n)
	switch e.kind {
	case 1:
		if r.pos == len(r.data) {
			return n, io.EOF
		}
		return n, nil
	case 2:
		return n, errVerifReader
	}
	return n, nil
}

func vScriptTerm(s []vEv) []interface{} {
	l := make([]interface{}, 0, len(s))
	for _, e := range s {
		l = append(l, vL(e.k, e.kind))
	}
	return l
}

// payload bytes are a function of (id, length): byte 0 is the id, the rest pseudo-random
func vPayload(id int, n int) []byte {
	b := make([]byte, n)
	s := uint64(id)*0x9E3779B97F4A7C15 + 12345
	for i := 0; i < n; i += 8 {
		s += 0x9E3779B97F4A7C15
		z := s
		z = (z ^ (z >> 30)) * 0xBF58476D1CE4E5B9
		z = (z ^ (z >> 27)) * 0x94D049BB133111EB
		z ^= z >> 31
		for j := 0; j < 8 && i+j < n; j++ {
			b[i+j] = byte(z >> (8 * uint(j)))
		}
	}
	if n > 0 {
		b[0] = byte(id)
	}
	return b
}

// random read script for a message of total bytes; profile decides the chunk sizes
func vGenScript(rnd *vRand, total int, profile int, withErr bool) []vEv {
	var s []vEv
	maxEvents := 6 + rnd.Intn(60)
	chunk := func() int {
		switch profile {
		case 0: // tiny
			return rnd.Intn(4)
		case 1:
			return rnd.Intn(600)
		case 2:
			return rnd.Intn(70000)
		case 3:
			return 60000 + rnd.Intn(1<<20)
		default: // boundary-ish: around the allocation step / base allocation
			c := []int{0, 1, 2047, 2048, 2049, 65535, 65536, 65537, 1 << 30}
			return c[rnd.Intn(len(c))]
		}
	}
	if profile == 0 {
		maxEvents = total + 4 + rnd.Intn(8)
		if maxEvents > 5000 {
			maxEvents = 5000
		}
	}
	sent := 0
	for i := 0; i < maxEvents; i++ {
		k := chunk()
		kind := 0
		if rnd.Intn(3) == 0 {
			kind = 1
		}
		s = append(s, vEv{k, kind})
		sent += k
		if sent > total+3 && rnd.Intn(2) == 0 {
			break
		}
	}
	switch rnd.Intn(6) {
	case 0: // script shorter than the message: greedy tail
		if len(s) > 1 {
			s = s[:rnd.Intn(len(s))]
		}
	case 1: // trailing empty reads before the separate EOF
		for i := rnd.Intn(4); i >= 0; i-- {
			s = append(s, vEv{0, 0})
		}
	}
	if withErr && len(s) > 0 {
		i := rnd.Intn(len(s))
		s[i].kind = 2
	} else if withErr {
		s = append(s, vEv{rnd.Intn(5), 2})
	}
	return s
}

func vErrClass(err error) int {
	switch {
	case err == nil:
		return 0
	case err == ErrIncomingMsgTooLarge:
		return 1
	case err == errVerifReader:
		return 2
	}
	return 4
}

// one message through the real slurper; returns the message term
func vSlurpOne(s *LimitedReaderSlurper, limit uint64, data []byte, script []vEv, withBytes bool, st map[string]int) []interface{} {
	rd := &vScriptReader{data: data, script: append([]vEv(nil), script...)}
	errc := 0
	func() {
		defer func() {
			if r := recover(); r != nil {
				errc = 3
			}
		}()
		s.Reset(limit)
		errc = vErrClass(s.Read(rd))
	}()
	var size uint64
	contentOK := true
	var bytesObs interface{} = 0
	if errc == 0 {
		size = s.Size()
		b := s.Bytes()
		contentOK = uint64(len(b)) == size && size <= uint64(len(data)) && bytes.Equal(b, data[:size])
		if withBytes {
			bytesObs = b
		}
	}
	var alloc, held uint64
	nb := 0
	if errc != 3 {
		for i := 0; i <= s.lastBuffer; i++ {
			alloc += uint64(cap(s.buffers[i]))
		}
		nb = s.lastBuffer
		held = s.currentMessageBytesRead // bytes of this message copied into the buffers
	}
	// the slurper counts exactly what the reader handed out, except for the one probe byte it
	// reads when all memory is used
	if uint64(rd.pos) != held && !(errc == 1 && uint64(rd.pos) == held+1) {
		st["slurp_held_mismatch_unexpected"]++
	}
	if held > limit {
		st["slurp_held_over_limit"]++
	}
	st[fmt.Sprintf("slurp_err_%d", errc)]++
	var dataT interface{} = 0
	if withBytes {
		dataT = data
	}
	return vL(limit, len(data), vScriptTerm(script), dataT,
		vL(errc, size, contentOK, nb, s.remainedUnallocatedSpace, alloc, held, bytesObs))
}

func vAround(rnd *vRand, limit int) int {
	c := []int{limit - 2, limit - 1, limit, limit, limit + 1, limit + 2, limit / 2, limit / 3, limit - 65536, limit + 65536, limit + 65537, 2 * limit, 0, 1, limit - 1, limit}
	v := c[rnd.Intn(len(c))]
	if v < 0 {
		v = 0
	}
	return v
}

// a size that is acceptable under (limit, maxA): the message must be read completely
func vWithin(rnd *vRand, limit int, maxA int) int {
	top := limit
	if top == 0 || maxA < top {
		top = maxA
	}
	c := []int{top, top, top - 1, top - 2, top / 2, top / 3, top - 65536, top - 65537, 0, 1, 2047, 2048, 2049}
	v := c[rnd.Intn(len(c))]
	if v < 0 {
		v = 0
	}
	if v > top {
		v = top
	}
	return v
}

func vSlurpCases(out *vOut, rnd *vRand, st map[string]int) {
	slurp := vSym("slurp")
	// (0) replay of the Coq witnesses (props/C43.v: C43_literal_limit_refuted,
	// C43_unlimited_tag_witness) on the real code: a 70 000-byte frame under the 6378-byte
	// limit of tag SP, and a 6 MiB frame of a tag without a limit
	{
		s := MakeLimitedReaderSlurper(averageMessageLength, MaxMessageLength)
		out.Case(slurp, uint64(averageMessageLength), uint64(MaxMessageLength),
			vL(vSlurpOne(s, protocol.StateProofSigTag.MaxMessageSize(), vPayload(1, 70000), nil, false, st)))
		s = MakeLimitedReaderSlurper(averageMessageLength, MaxMessageLength)
		out.Case(slurp, uint64(averageMessageLength), uint64(MaxMessageLength),
			vL(vSlurpOne(s, protocol.Tag("zz").MaxMessageSize(), vPayload(2, MaxMessageLength), nil, false, st)))
	}
	// (1) small geometries, byte-exact: data included
	nSmall := vEnvInt("VERIF_C43_SLURP_SMALL", 1500)
	for c := 0; c < nSmall; c++ {
		base := uint64([]int{0, 1, 2, 7, 16, 64, 100, 300}[rnd.Intn(8)])
		maxA := uint64([]int{0, 1, 5, 16, 64, 100, 255, 400, 1000}[rnd.Intn(9)])
		s := MakeLimitedReaderSlurper(base, maxA)
		var msgs []interface{}
		clean := rnd.Intn(2) == 0 // only acceptable messages (reader errors still possible)
		for m := 1 + rnd.Intn(4); m > 0; m-- {
			limit := 0
			if clean || rnd.Intn(5) > 0 {
				limit = []int{1, 2, 5, 16, 48, 64, 100, 101, 255, 400, 999, 1000, 1001, 2000}[rnd.Intn(14)]
			}
			ref := limit
			if ref == 0 || rnd.Intn(3) == 0 {
				ref = int(maxA)
			}
			total := vAround(rnd, ref)
			if clean {
				total = vWithin(rnd, limit, int(maxA))
			}
			if total > 1300 {
				total = 1300
			}
			msgs = append(msgs, vSlurpOne(s, uint64(limit), vPayload(rnd.Intn(256), total), vGenScript(rnd, total, rnd.Intn(2), rnd.Intn(8) == 0), true, st))
		}
		out.Case(slurp, base, maxA, msgs)
	}
	// (2) geometries that cross the 64 KiB allocation step; sizes only + content flag
	nMid := vEnvInt("VERIF_C43_SLURP_MID", 250)
	for c := 0; c < nMid; c++ {
		base := uint64([]int{0, 1, 2048, 65536, 70000, 200000}[rnd.Intn(6)])
		maxA := uint64([]int{2048, 65535, 65536, 65537, 131072, 133120, 200000, 300001}[rnd.Intn(8)])
		s := MakeLimitedReaderSlurper(base, maxA)
		var msgs []interface{}
		clean := rnd.Intn(2) == 0
		for m := 1 + rnd.Intn(4); m > 0; m-- {
			limit := 0
			if clean || rnd.Intn(5) > 0 {
				limit = []int{1, 48, 2048, 6378, 65536, 67584, 100000, 131072, 133120, 250000, 400000}[rnd.Intn(11)]
			}
			ref := limit
			if ref == 0 || rnd.Intn(3) == 0 {
				ref = int(maxA)
			}
			total := vAround(rnd, ref)
			if clean {
				total = vWithin(rnd, limit, int(maxA))
			}
			msgs = append(msgs, vSlurpOne(s, uint64(limit), vPayload(rnd.Intn(256), total), vGenScript(rnd, total, 1+rnd.Intn(4), rnd.Intn(8) == 0), false, st))
		}
		out.Case(slurp, base, maxA, msgs)
	}
	// (3) the geometry of wsPeer.readLoop and every tag's limit: limit-1, limit, limit+1, ...
	reps := vEnvInt("VERIF_C43_SLURP_TAGREPS", 1)
	tags := append(append([]protocol.Tag{}, protocol.TagList...), protocol.DeprecatedTagList...)
	tags = append(tags, protocol.Tag("zz"))
	for rep := 0; rep < reps; rep++ {
		for _, tg := range tags {
			limit := tg.MaxMessageSize()
			ref := int(limit)
			if limit == 0 {
				ref = MaxMessageLength
			}
			run := func(totals []int) {
				s := MakeLimitedReaderSlurper(averageMessageLength, MaxMessageLength)
				var msgs []interface{}
				for _, total := range totals {
					profile := 1 + rnd.Intn(4)
					if total > 300000 {
						profile = 2 + rnd.Intn(3)
					}
					if total > 2000000 {
						profile = 3
					}
					msgs = append(msgs, vSlurpOne(s, limit, vPayload(rnd.Intn(256), total), vGenScript(rnd, total, profile, rnd.Intn(10) == 0), false, st))
				}
				out.Case(slurp, uint64(averageMessageLength), uint64(MaxMessageLength), msgs)
			}
			// acceptable sizes only (for a tag without a limit nothing non-empty is "acceptable"
			// in the literal reading, so that case is empty messages only)
			if limit > 0 {
				run([]int{ref - 1, ref, rnd.Intn(ref + 1), ref})
			} else {
				run([]int{0, 0})
			}
			// around and above the limit, then an acceptable one on the same slurper
			run([]int{ref - 1, ref, ref + 1, rnd.Intn(ref + 1), ref + 1 + rnd.Intn(70000), ref})
			st["slurp_tag_cases"]++
		}
	}
}

// ---------------------------------------------------------------- message filter

func vDigest(id int) crypto.Digest {
	var d crypto.Digest
	for i := 0; i < 8; i++ {
		d[i] = byte(uint64(id) >> (8 * uint(i)))
	}
	d[31] = 0x5a
	return d
}

func vDigestID(d crypto.Digest) int {
	id := 0
	for i := 7; i >= 0; i-- {
		id = id<<8 | int(d[i])
	}
	return id
}

func vFilterState(f *messageFilter) []interface{} {
	st := []interface{}{f.currentTopBucket}
	for _, b := range f.buckets {
		ids := make([]int, 0, len(b))
		for d := range b {
			ids = append(ids, vDigestID(d))
		}
		sort.Ints(ids)
		l := make([]interface{}, 0, len(ids))
		for _, id := range ids {
			l = append(l, id)
		}
		st = append(st, l)
	}
	return st
}

func vFilterCases(out *vOut, rnd *vRand, st map[string]int) {
	n := vEnvInt("VERIF_C43_FILTER", 1500)
	for c := 0; c < n; c++ {
		nb := 1 + rnd.Intn(5)
		maxsz := rnd.Intn(6)
		if maxsz == 0 && rnd.Intn(4) > 0 {
			maxsz = 1 + rnd.Intn(4)
		}
		nops := 1 + rnd.Intn(60)
		universe := 1 + rnd.Intn(3*nb*max(maxsz, 1)+2)
		if c%50 == 49 { // the default geometry, long runs
			dl := config.GetDefaultLocal()
			nb, maxsz = dl.IncomingMessageFilterBucketCount, dl.IncomingMessageFilterBucketSize
			nops = 2000 + rnd.Intn(2500)
			universe = 200 + rnd.Intn(4000)
		}
		f := makeMessageFilter(nb, maxsz)
		var ops, has []interface{}
		for i := 0; i < nops; i++ {
			id := rnd.Intn(universe)
			add := rnd.Intn(5) > 0
			promote := rnd.Bool()
			h := f.CheckDigest(vDigest(id), add, promote)
			ops = append(ops, vL(id, add, promote))
			has = append(has, h)
			if h {
				st["filter_has"]++
			} else {
				st["filter_hasnot"]++
			}
		}
		out.Case(vSym("filter"), nb, maxsz, ops, has, vFilterState(f))
	}
}

// ---------------------------------------------------------------- wsPeer.readLoop

type vFrameIn struct {
	tag  []byte
	body *vScriptReader
}

type vFrameReader struct {
	tag  []byte
	tpos int
	body *vScriptReader
}

func (f *vFrameReader) Read(p []byte) (int, error) {
	if f.tpos < len(f.tag) {
		n := copy(p, f.tag[f.tpos:])
		f.tpos += n
		return n, nil
	}
	return f.body.Read(p)
}

type vConn struct {
	frames chan vFrameIn
	idle   chan struct{}
}

func (c *vConn) RemoteAddr() net.Addr     { return nil }
func (c *vConn) RemoteAddrString() string { return "verif" }
func (c *vConn) NextReader() (int, io.Reader, error) {
	c.idle <- struct{}{}
	fr, ok := <-c.frames
	if !ok {
		return 0, nil, &websocket.CloseError{Code: websocket.CloseNormalClosure}
	}
	return websocket.BinaryMessage, &vFrameReader{tag: fr.tag, body: fr.body}, nil
}
func (c *vConn) WriteMessage(int, []byte) error              { return nil }
func (c *vConn) CloseWithMessage([]byte, time.Time) error    { return nil }
func (c *vConn) SetReadLimit(int64)                          {}
func (c *vConn) CloseWithoutFlush() error                    { return nil }
func (c *vConn) UnderlyingConn() net.Conn                    { return nil }
func (c *vConn) SetPingHandler(h func(appData string) error) {}

type vNet struct {
	GossipNode
	closed chan *wsPeer
}

func (n *vNet) peerRemoteClose(peer *wsPeer, reason disconnectReason) { n.closed <- peer }

type vPeer struct {
	wp     *wsPeer
	conn   *vConn
	open   bool
	closed chan struct{}
}

type vNetStep struct {
	peer   int
	tag    string
	id     int
	total  int
	script []vEv
}

// run a schedule against real readLoops; one observation per step
func vRunNet(t *testing.T, nb, maxsz, npeers int, steps []vNetStep, st map[string]int) []interface{} {
	lg := logging.NewLogger()
	lg.SetLevel(logging.Error)
	flt := makeMessageFilter(nb, maxsz)
	readBuffer := make(chan IncomingMessage, 8)
	nt := &vNet{closed: make(chan *wsPeer, npeers+1)}
	peers := make([]*vPeer, npeers)
	for i := range peers {
		conn := &vConn{frames: make(chan vFrameIn), idle: make(chan struct{})}
		wp := &wsPeer{}
		wp.wsPeerCore = wsPeerCore{net: nt, log: lg, readBuffer: readBuffer}
		wp.conn = conn
		wp.closing = make(chan struct{})
		wp.processed = make(chan struct{}, len(steps)+4)
		for j := 0; j < len(steps)+4; j++ {
			wp.processed <- struct{}{}
		}
		wp.responseChannels = make(map[uint64]chan *Response)
		wp.incomingMsgFilter = flt
		wp.msgCodec = makeWsPeerMsgCodec(wp)
		peers[i] = &vPeer{wp: wp, conn: conn, open: true}
		wp.wg.Add(1)
		go wp.readLoop()
		<-conn.idle // readLoop is waiting in NextReader
	}
	waitClosed := func(p *vPeer) {
		select {
		case wp := <-nt.closed:
			if wp != p.wp {
				t.Fatalf("unexpected peer closed")
			}
		case <-time.After(30 * time.Second):
			t.Fatalf("peer did not close")
		}
		p.wp.wg.Wait()
		p.open = false
	}
	var res []interface{}
	for _, sp := range steps {
		data := vPayload(sp.id, sp.total)
		stepT := func(obs []interface{}) {
			res = append(res, vL(sp.peer, sp.tag, sp.id, sp.total, vScriptTerm(sp.script), obs))
		}
		if sp.peer >= npeers || !peers[sp.peer].open {
			stepT(vL(0, 1, 0, true))
			st["net_gone"]++
			continue
		}
		p := peers[sp.peer]
		p.conn.frames <- vFrameIn{tag: []byte(sp.tag), body: &vScriptReader{data: data, script: append([]vEv(nil), sp.script...)}}
		closed := false
		select {
		case <-p.conn.idle:
		case wp := <-nt.closed:
			if wp != p.wp {
				t.Fatalf("unexpected peer closed")
			}
			p.wp.wg.Wait()
			p.open = false
			closed = true
		case <-time.After(60 * time.Second):
			t.Fatalf("readLoop stuck")
		}
		delivered := 0
		dlen := 0
		ok := true
	drain:
		for {
			select {
			case m := <-readBuffer:
				delivered++
				dlen = len(m.Data)
				ok = ok && string(m.Tag) == sp.tag && m.Sender == DisconnectableAddressablePeer(p.wp) && bytes.Equal(m.Data, data)
			default:
				break drain
			}
		}
		if closed {
			st["net_closed"]++
		} else if delivered > 0 {
			st["net_delivered"]++
		} else {
			st["net_dropped"]++
		}
		stepT(vL(delivered, closed, dlen, ok))
	}
	for _, p := range peers {
		if p.open {
			close(p.conn.frames)
			waitClosed(p)
		}
	}
	return res
}

func vNetCases(t *testing.T, out *vOut, rnd *vRand, st map[string]int) {
	netS := vSym("net")
	deliver := []string{"TX", "AV", "PP", "NP", "SP", "UE", "VB", "NI"}
	other := []string{"MS", "VP", "zz", "pi", "pj", "\x00\x00", "tx"}
	// (1) every tag: sizes around its limit through one readLoop each
	if vEnvInt("VERIF_C43_NET_TAGS", 1) > 0 {
		for _, tg := range append(append([]string{}, deliver...), other...) {
			limit := int(protocol.Tag(tg).MaxMessageSize())
			ref := limit
			if limit == 0 {
				ref = MaxMessageLength
			}
			var steps []vNetStep
			peer := 0
			for _, total := range []int{0, ref - 1, ref, ref + 1, ref} {
				profile := 1 + rnd.Intn(4)
				if total > 300000 {
					profile = 3
				}
				steps = append(steps, vNetStep{peer, tg, rnd.Intn(256), total, vGenScript(rnd, total, profile, false)})
				if total > ref {
					peer++ // the previous peer is closed now
				}
			}
			out.Case(netS, 5, 512, peer+1, vRunNet(t, 5, 512, peer+1, steps, st))
		}
	}
	// (2) duplicate interleavings across peers, small filter geometries and small messages
	n := vEnvInt("VERIF_C43_NET", 150)
	for c := 0; c < n; c++ {
		nb := 1 + rnd.Intn(4)
		maxsz := 1 + rnd.Intn(4)
		npeers := 1 + rnd.Intn(4)
		nsteps := 5 + rnd.Intn(40)
		universe := 1 + rnd.Intn(2*nb*maxsz+2)
		var steps []vNetStep
		others := other
		if rnd.Intn(2) == 0 {
			others = other[:2] // only tags that have a limit (consumed inside the peer)
		}
		for i := 0; i < nsteps; i++ {
			tg := deliver[rnd.Intn(2)] // mostly the dedup-safe tags
			switch rnd.Intn(8) {
			case 0:
				tg = deliver[rnd.Intn(len(deliver))]
			case 1:
				tg = others[rnd.Intn(len(others))]
			}
			total := 1 + rnd.Intn(3)
			switch rnd.Intn(16) {
			case 0:
				total = 0
			case 1:
				total = vAround(rnd, int(protocol.Tag(tg).MaxMessageSize()))
				if total > 70000 {
					total = 70000
				}
			}
			peer := rnd.Intn(npeers)
			if rnd.Intn(25) == 0 {
				peer = npeers // no such connection
			}
			steps = append(steps, vNetStep{peer, tg, rnd.Intn(universe), total, vGenScript(rnd, total, rnd.Intn(3), rnd.Intn(70) == 0)})
		}
		out.Case(netS, nb, maxsz, npeers, vRunNet(t, nb, maxsz, npeers, steps, st))
	}
}


// ---------------------------------------------------------------- votes over mixed encodings

// a well-formed vote (layout accepted by vpack), distinct per id
func vVote(id int) []byte {
	var snd, p, p2 [32]byte
	var p1s, p2s, sg [64]byte
	snd[0], snd[1] = byte(id), 3
	p[0], p[5] = 4, byte(id)
	p1s[0], p2[0], p2s[0], sg[0] = 5, 6, 7, 9
	sg[7] = byte(id)
	return protocol.EncodeReflect(map[string]any{
		"cred": map[string]any{"pf": crypto.VrfProof{1, byte(id)}},
		"r":    map[string]any{"rnd": uint64(2 + id), "snd": snd},
		"sig": map[string]any{
			"p": p, "p1s": p1s, "p2": p2,
			"p2s": p2s, "ps": [64]byte{}, "s": sg,
		},
	})
}

type vVoteStep struct {
	peer int
	id   int
}

const vVoteTableSize = 16

// Real readLoops on connections that negotiated different vote encodings (mode 0: plain AV,
// 1: AV carrying a stateless-compressed vote, 2: VP statefully compressed) share one incoming
// filter; every step sends one logical vote in the encoding of its connection.  Observed: what
// reaches the handlers (count, tag, bytes == the raw vote).
func vRunVotes(t *testing.T, nb, maxsz int, modes []int, steps []vVoteStep, st map[string]int) []interface{} {
	lg := logging.NewLogger()
	lg.SetLevel(logging.Error)
	flt := makeMessageFilter(nb, maxsz)
	readBuffer := make(chan IncomingMessage, 8)
	npeers := len(modes)
	nt := &vNet{closed: make(chan *wsPeer, npeers+1)}
	peers := make([]*vPeer, npeers)
	encs := make([]*vpack.StatefulEncoder, npeers)
	for i := range peers {
		conn := &vConn{frames: make(chan vFrameIn), idle: make(chan struct{})}
		wp := &wsPeer{}
		wp.wsPeerCore = wsPeerCore{net: nt, log: lg, readBuffer: readBuffer}
		wp.conn = conn
		wp.closing = make(chan struct{})
		wp.sendBufferHighPrio = make(chan sendMessage, 4)
		wp.sendBufferBulk = make(chan sendMessage, 4)
		wp.processed = make(chan struct{}, len(steps)+4)
		for j := 0; j < len(steps)+4; j++ {
			wp.processed <- struct{}{}
		}
		wp.responseChannels = make(map[uint64]chan *Response)
		wp.incomingMsgFilter = flt
		// the state makeWsPeerMsgCodec sets up once both ends advertised the feature
		wp.msgCodec = &wsPeerMsgCodec{log: lg, origin: "verif"}
		if modes[i] >= 1 {
			wp.msgCodec.avdec = vpackVoteDecompressor{enabled: true, dec: vpack.NewStatelessDecoder()}
		}
		if modes[i] == 2 {
			wp.msgCodec.statefulVoteEnabled.Store(true)
			wp.msgCodec.statefulVoteTableSize = vVoteTableSize
			enc, err := vpack.NewStatefulEncoder(vVoteTableSize)
			if err != nil {
				t.Fatal(err)
			}
			encs[i] = enc
		}
		peers[i] = &vPeer{wp: wp, conn: conn, open: true}
		wp.wg.Add(1)
		go wp.readLoop()
		<-conn.idle
	}
	var res []interface{}
	for _, sp := range steps {
		raw := vVote(sp.id)
		mode := -1
		if sp.peer < npeers {
			mode = modes[sp.peer]
		}
		wireTag := "AV"
		wire := raw
		if mode >= 1 {
			sl, err := vpack.NewStatelessEncoder().CompressVote(nil, raw)
			if err != nil {
				t.Fatalf("stateless compress: %v", err)
			}
			wire = sl
			if mode == 2 && peers[sp.peer].open {
				pk, err := encs[sp.peer].Compress(make([]byte, 0, vpack.MaxCompressedVoteSize), sl)
				if err != nil {
					t.Fatalf("stateful compress: %v", err)
				}
				wire = pk
			}
			if mode == 2 {
				wireTag = "VP"
			}
		}
		if mode < 0 {
			mode = 0
		}
		stepT := func(obs []interface{}) {
			res = append(res, vL(sp.peer, mode, wireTag, len(wire), sp.id, len(raw), obs))
		}
		if sp.peer >= npeers || !peers[sp.peer].open {
			stepT(vL(0, 1, 0, true, ""))
			st["vnet_gone"]++
			continue
		}
		p := peers[sp.peer]
		p.conn.frames <- vFrameIn{tag: []byte(wireTag), body: &vScriptReader{data: wire}}
		closed := false
		select {
		case <-p.conn.idle:
		case wp := <-nt.closed:
			if wp != p.wp {
				t.Fatalf("unexpected peer closed")
			}
			p.wp.wg.Wait()
			p.open = false
			closed = true
		case <-time.After(60 * time.Second):
			t.Fatalf("readLoop stuck")
		}
		delivered := 0
		dlen := 0
		dtag := ""
		ok := true
	drain:
		for {
			select {
			case m := <-readBuffer:
				delivered++
				dlen = len(m.Data)
				dtag = string(m.Tag)
				ok = ok && m.Sender == DisconnectableAddressablePeer(p.wp) && bytes.Equal(m.Data, raw)
			default:
				break drain
			}
		}
		if closed {
			st["vnet_closed"]++
		} else if delivered > 0 {
			st[fmt.Sprintf("vnet_delivered_mode%d", mode)]++
		} else {
			st[fmt.Sprintf("vnet_dropped_mode%d", mode)]++
		}
		stepT(vL(delivered, closed, dlen, ok, dtag))
	}
	for _, p := range peers {
		if p.open {
			close(p.conn.frames)
			select {
			case <-nt.closed:
			case <-time.After(30 * time.Second):
				t.Fatalf("peer did not close")
			}
			p.wp.wg.Wait()
			p.open = false
		}
	}
	return res
}

func vVoteCases(t *testing.T, out *vOut, rnd *vRand, st map[string]int) {
	vnet := vSym("vnet")
	emit := func(nb, maxsz int, modes []int, steps []vVoteStep) {
		out.Case(vnet, nb, maxsz, len(modes), vRunVotes(t, nb, maxsz, modes, steps, st))
	}
	// (1) the same vote over every ordered pair of encodings, both orders, then once more
	for a := 0; a < 3; a++ {
		for b := 0; b < 3; b++ {
			emit(4, 100, []int{a, b}, []vVoteStep{{0, 1}, {1, 1}, {0, 2}, {1, 2}, {1, 3}, {0, 3}, {0, 1}, {1, 1}})
		}
	}
	// (2) random schedules over 2-4 connections of mixed encodings, small and default filters
	n := vEnvInt("VERIF_C43_VNET", 100)
	for c := 0; c < n; c++ {
		nb, maxsz := 1+rnd.Intn(4), 1+rnd.Intn(4)
		if c%10 == 9 {
			nb, maxsz = 5, 512
		}
		npeers := 2 + rnd.Intn(3)
		modes := make([]int, npeers)
		for i := range modes {
			modes[i] = rnd.Intn(3)
		}
		modes[rnd.Intn(npeers)] = 2 // at least one statefully compressing connection ...
		if modes[0] == 2 && npeers > 1 {
			modes[1] = rnd.Intn(2) // ... and one that is not
		} else {
			modes[0] = rnd.Intn(2)
			if npeers > 1 && modes[1] != 2 {
				modes[npeers-1] = 2
			}
		}
		universe := 1 + rnd.Intn(2*nb*maxsz+2)
		if universe > 200 {
			universe = 200
		}
		var steps []vVoteStep
		for i := 5 + rnd.Intn(40); i > 0; i-- {
			peer := rnd.Intn(npeers)
			if rnd.Intn(30) == 0 {
				peer = npeers
			}
			steps = append(steps, vVoteStep{peer, rnd.Intn(universe)})
		}
		emit(nb, maxsz, modes, steps)
	}
}

// ---------------------------------------------------------------- entry point

func TestVerifC43(t *testing.T) {
	st := map[string]int{}
	out := vOpen("cases_c43.txt")
	defer out.Close()
	// constants as seen by this binary
	dl := config.GetDefaultLocal()
	out.Case(vSym("consts"), uint64(allocationStep), uint64(averageMessageLength), uint64(MaxMessageLength),
		dl.IncomingMessageFilterBucketCount, dl.IncomingMessageFilterBucketSize)
	tags := append(append([]protocol.Tag{}, protocol.TagList...), protocol.DeprecatedTagList...)
	for _, tg := range append(tags, "zz", "\x00\x00", "tx") {
		out.Case(vSym("tag"), string(tg), tg.MaxMessageSize(), dedupSafeTag(tg))
	}
	rnd := vNewRand(43)
	vSlurpCases(out, rnd, st)
	vFilterCases(out, rnd, st)
	vNetCases(t, out, rnd, st)
	vVoteCases(t, out, vNewRand(4343), st)
	m := map[string]interface{}{}
	for k, v := range st {
		m[k] = v
	}
	m["cases"] = out.n
	vStats(m)
}
