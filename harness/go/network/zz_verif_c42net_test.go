//go:build verif

package network

// C42 harness, network level: drives the REAL sender path (vpackCompressVote as the broadcast
// path does, wsPeerMsgCodec.compress, the error path of wsPeer.writeLoopSendMsg with the VP
// abort message) and the REAL receiver (wsPeerMsgCodec.decompress, the abort sent back on a VP
// error as wsPeer.handleVPError does) of one connection, over histories that interleave
// compressible votes with inputs on which StatefulEncoder.Compress fails at every point of its
// parse (i.e. after every possible partial update of the encoder's tables): votes the
// stateless encoder refuses (sig.ps != 0, reordered keys: the broadcaster falls back to raw
// msgpack), and stateless frames cut / corrupted / extended at every field boundary.
//
//   (net <tableSize> ( op ... ))
//   op  = (m #msgpackVote #avref obs)     vote handed to the broadcaster
//       | (d #payload #avref obs)         AV payload handed straight to the sending peer
//   avref = what a fresh real codec delivers for the same AV payload without stateful compression
//   obs = (wires deliveries senderOn receiverOn encState decState)
//   wires = ((VP #..)|(AV #..) ...)   deliveries = (#bytes | none | err | panic ...)
//   encState / decState: dumped in package vpack (zz_verif_c42dump.go) while both flags are set,
//   decState = same when equal; skip otherwise.

import (
	"encoding/binary"
	"errors"
	"fmt"
	"io"
	"math"
	"strings"
	"testing"

	"github.com/algorand/go-algorand/logging"
	"github.com/algorand/go-algorand/network/vpack"
	"github.com/algorand/go-algorand/protocol"
)

func vnCodec(size uint) *wsPeerMsgCodec {
	wp := &wsPeer{}
	l := logging.NewLogger()
	l.SetOutput(io.Discard)
	wp.wsPeerCore.log = l
	wp.wsPeerCore.originAddress = "verif"
	wp.enableVoteCompression = true
	wp.voteCompressionTableSize = size
	wp.features = pfCompressedVoteVpack
	switch size {
	case 16:
		wp.features |= pfCompressedVoteVpackStateful16
	case 32:
		wp.features |= pfCompressedVoteVpackStateful32
	case 64:
		wp.features |= pfCompressedVoteVpackStateful64
	case 256:
		wp.features |= pfCompressedVoteVpackStateful256
	default:
		wp.features |= pfCompressedVoteVpackStateful2048
	}
	return makeWsPeerMsgCodec(wp)
}

func vnHex(b []byte) string { s := vT(b); return s[1 : len(s)-1] }

type vnConn struct {
	size             uint
	sender, receiver *wsPeerMsgCodec
	ops              []string
	nVP, nAbort      int
}

func vnNewConn(size uint) *vnConn {
	c := &vnConn{size: size, sender: vnCodec(size), receiver: vnCodec(size)}
	if !c.sender.statefulVoteEnabled.Load() || !c.receiver.statefulVoteEnabled.Load() || c.sender.statefulVoteTableSize != size {
		panic("stateful compression not negotiated")
	}
	return c
}

func (c *vnConn) states() (string, string) {
	if !c.sender.statefulVoteEnabled.Load() || !c.receiver.statefulVoteEnabled.Load() {
		return "skip", "skip"
	}
	enc, dec := c.sender.statefulVoteEnc, c.receiver.statefulVoteDec
	if enc == nil {
		enc, _ = vpack.NewStatefulEncoder(c.size)
	}
	if dec == nil {
		dec, _ = vpack.NewStatefulDecoder(c.size)
	}
	es, ds := vpack.VerifDumpEncoder(enc), vpack.VerifDumpDecoder(dec)
	if es == ds {
		return es, "same"
	}
	return es, ds
}

// one AV message (tag + payload) through the sending peer and the receiving peer
func (c *vnConn) push(kind string, payload []byte, data []byte) {
	var wires [][]byte
	var delivs []string
	func() {
		defer func() {
			if r := recover(); r != nil {
				delivs = append(delivs, "panic")
			}
		}()
		// reference: the plain AV path on a fresh codec
		// wsPeer.writeLoopSendMsg
		out, err := c.sender.compress(protocol.AgreementVoteTag, data)
		var vcErr *voteCompressionError
		switch {
		case err != nil && errors.As(err, &vcErr):
			c.sender.switchOffStatefulVoteCompression()
			wires = append(wires, append([]byte(protocol.VotePackedTag), voteCompressionAbortMessage), data)
			c.nAbort++
		case err != nil:
			wires = append(wires, data)
		case out != nil:
			wires = append(wires, out)
			c.nVP++
		default:
			wires = append(wires, data)
		}
		// wsPeer.readLoop
		for _, w := range wires {
			got, derr := c.receiver.decompress(protocol.Tag(w[:2]), append([]byte{}, w[2:]...))
			switch {
			case derr != nil && errors.As(derr, &vcErr):
				delivs = append(delivs, "err")
				// handleVPError: abort message back to the sending peer
				if _, e2 := c.sender.decompress(protocol.VotePackedTag, []byte{voteCompressionAbortMessage}); e2 != nil {
					delivs = append(delivs, "panic")
				}
			case derr != nil:
				delivs = append(delivs, "err")
			case got == nil:
				delivs = append(delivs, "none")
			default:
				delivs = append(delivs, vnHex(got))
			}
		}
	}()
	avref, err := vnCodec(c.size).decompress(protocol.AgreementVoteTag, append([]byte{}, data[2:]...))
	if err != nil {
		avref = []byte("error")
	}
	var ws []string
	for _, w := range wires {
		ws = append(ws, fmt.Sprintf("(%s %s)", string(w[:2]), vnHex(w[2:])))
	}
	on := func(b bool) int {
		if b {
			return 1
		}
		return 0
	}
	es, ds := c.states()
	c.ops = append(c.ops, fmt.Sprintf("(%s %s %s ((%s) (%s) %d %d %s %s))", kind, vnHex(payload), vnHex(avref),
		strings.Join(ws, " "), strings.Join(delivs, " "), on(c.sender.statefulVoteEnabled.Load()), on(c.receiver.statefulVoteEnabled.Load()), es, ds))
}

// vote handed to the broadcaster (wsNetwork broadcast path)
func (c *vnConn) vote(m []byte) {
	data, _ := vpackCompressVote([]byte(protocol.AgreementVoteTag), m)
	c.push("m", m, data)
}

// AV payload handed straight to the sending peer
func (c *vnConn) raw(payload []byte) {
	c.push("d", payload, append([]byte(protocol.AgreementVoteTag), payload...))
}

func (c *vnConn) line() string {
	return fmt.Sprintf("(net %d (%s))", c.size, strings.Join(c.ops, " "))
}

// ---------------------------------------------------------------- votes

type vnVote struct {
	pf, per, step, rnd, oper, dig, encdig, oprop, snd, p, p1s, p2, p2s, s, ps []byte
	swapRndSnd                                                                bool
}

func vnUint(v uint64) []byte {
	switch {
	case v <= 127:
		return []byte{byte(v)}
	case v <= math.MaxUint8:
		return []byte{0xcc, byte(v)}
	case v <= math.MaxUint16:
		return binary.BigEndian.AppendUint16([]byte{0xcd}, uint16(v))
	case v <= math.MaxUint32:
		return binary.BigEndian.AppendUint32([]byte{0xce}, uint32(v))
	}
	return binary.BigEndian.AppendUint64([]byte{0xcf}, v)
}

func vnKey(k string) []byte           { return append([]byte{0xa0 | byte(len(k))}, k...) }
func vnBin(k string, d []byte) []byte { return append(append(vnKey(k), 0xc4, byte(len(d))), d...) }

func (v *vnVote) encode() []byte {
	b := []byte{0x83}
	b = append(append(b, vnKey("cred")...), 0x81)
	b = append(b, vnBin("pf", v.pf)...)
	b = append(b, vnKey("r")...)
	n := 2
	np := 0
	for _, f := range [][]byte{v.dig, v.encdig, v.oper, v.oprop} {
		if f != nil {
			np++
		}
	}
	if v.per != nil {
		n++
	}
	if v.step != nil {
		n++
	}
	if np > 0 {
		n++
	}
	b = append(b, 0x80|byte(n))
	if v.per != nil {
		b = append(append(b, vnKey("per")...), v.per...)
	}
	if np > 0 {
		b = append(append(b, vnKey("prop")...), 0x80|byte(np))
		if v.dig != nil {
			b = append(b, vnBin("dig", v.dig)...)
		}
		if v.encdig != nil {
			b = append(b, vnBin("encdig", v.encdig)...)
		}
		if v.oper != nil {
			b = append(append(b, vnKey("oper")...), v.oper...)
		}
		if v.oprop != nil {
			b = append(b, vnBin("oprop", v.oprop)...)
		}
	}
	if v.swapRndSnd {
		b = append(b, vnBin("snd", v.snd)...)
		b = append(append(b, vnKey("rnd")...), v.rnd...)
	} else {
		b = append(append(b, vnKey("rnd")...), v.rnd...)
		b = append(b, vnBin("snd", v.snd)...)
	}
	if v.step != nil {
		b = append(append(b, vnKey("step")...), v.step...)
	}
	b = append(append(b, vnKey("sig")...), 0x86)
	b = append(b, vnBin("p", v.p)...)
	b = append(b, vnBin("p1s", v.p1s)...)
	b = append(b, vnBin("p2", v.p2)...)
	b = append(b, vnBin("p2s", v.p2s)...)
	b = append(b, vnBin("ps", v.ps)...)
	b = append(b, vnBin("s", v.s)...)
	return b
}

type vnGen struct {
	r       *vRand
	senders [][]byte
	keys    [][4][]byte
	props   [][4][]byte
	round   uint64
}

func vnNewGen(r *vRand) *vnGen {
	g := &vnGen{r: r, round: 1000 + uint64(r.Intn(1000000))}
	for i := 0; i < 2+r.Intn(6); i++ {
		g.senders = append(g.senders, r.Bytes(32))
	}
	for i := 0; i < 2+r.Intn(5); i++ {
		g.keys = append(g.keys, [4][]byte{r.Bytes(32), r.Bytes(64), r.Bytes(32), r.Bytes(64)})
	}
	for i := 0; i < 2+r.Intn(8); i++ {
		p := [4][]byte{r.Bytes(32), r.Bytes(32), vnUint(uint64(r.Intn(300))), r.Bytes(32)}
		for j := range p {
			if r.Intn(5) == 0 {
				p[j] = nil
			}
		}
		g.props = append(g.props, p)
	}
	return g
}

// a canonical vote; withProp=false gives a bottom vote (no proposal)
func (g *vnGen) voteStruct(withProp bool) *vnVote {
	r := g.r
	switch r.Intn(6) {
	case 0:
		g.round++
	case 1:
		g.round--
	case 2:
		g.round += uint64(r.Intn(5))
	}
	v := &vnVote{pf: r.Bytes(80), s: r.Bytes(64), ps: make([]byte, 64), rnd: vnUint(g.round)}
	if r.Intn(4) == 0 {
		v.pf = make([]byte, 80)
	}
	v.snd = g.senders[r.Intn(len(g.senders))]
	k := g.keys[r.Intn(len(g.keys))]
	v.p, v.p1s, v.p2, v.p2s = k[0], k[1], k[2], k[3]
	if withProp {
		p := g.props[r.Intn(len(g.props))]
		v.dig, v.encdig, v.oper, v.oprop = p[0], p[1], p[2], p[3]
		if r.Intn(3) != 0 {
			v.per = vnUint(uint64(r.Intn(3)))
		}
		if r.Intn(3) != 0 {
			v.step = vnUint(uint64(1 + r.Intn(5)))
		}
	}
	return v
}

// a vote that agreement would decode but the stateless encoder refuses; short=true gives a
// bottom vote of at most MaxCompressedVoteSize bytes, otherwise it is longer (the broadcaster's
// fallback must send all of it)
func (g *vnGen) uncompressible(short bool) []byte {
	v := g.voteStruct(!short)
	if short {
		v.rnd = vnUint(uint64(g.r.Intn(60000)))
	}
	if g.r.Intn(3) == 0 {
		v.swapRndSnd = true // rejected since the C42 fix (keys out of order)
	} else {
		v.ps = make([]byte, 64)
		v.ps[g.r.Intn(64)] = 1 + byte(g.r.Intn(255)) // legacy field, ignored by verification
	}
	// Compress reads the fallback bytes as a frame with hdr0 = 0x83; a valid uint marker at
	// pf[70] lets it get as far as the proposal window / the tables before it fails
	if g.r.Intn(4) != 0 {
		v.pf[70] = byte(g.r.Intn(128))
		if g.r.Intn(3) == 0 {
			v.pf[70] = 0xcc + byte(g.r.Intn(4))
		}
	}
	return v.encode()
}

// every way of damaging a stateless frame at a field boundary: Compress fails there, after
// having updated whatever precedes it
func vnDamage(x []byte, r *vRand, variant int) []byte {
	x = append([]byte{}, x...)
	// offsets of the fields of the frame
	var cuts []int
	pos := 2
	cuts = append(cuts, 0, 1, pos)
	step := func(n int) { pos += n; cuts = append(cuts, pos-1, pos) }
	uintLen := func() int {
		if pos >= len(x) {
			return 1
		}
		switch x[pos] {
		case 0xcc:
			return 2
		case 0xcd:
			return 3
		case 0xce:
			return 5
		case 0xcf:
			return 9
		}
		return 1
	}
	var markers []int
	step(80)
	m := x[0]
	if m&1 != 0 {
		markers = append(markers, pos)
		step(uintLen())
	}
	if m&2 != 0 {
		step(32)
	}
	if m&4 != 0 {
		step(32)
	}
	if m&8 != 0 {
		markers = append(markers, pos)
		step(uintLen())
	}
	if m&16 != 0 {
		step(32)
	}
	markers = append(markers, pos)
	step(uintLen())
	step(32)
	if m&32 != 0 {
		markers = append(markers, pos)
		step(uintLen())
	}
	step(96)
	step(96)
	step(63)
	switch variant % 4 {
	case 0: // cut at a boundary
		c := cuts[r.Intn(len(cuts))]
		if c > len(x) {
			c = len(x)
		}
		return x[:c]
	case 1: // extra bytes: fails only at the final length check, every table already updated
		return append(x, r.Bytes(1+r.Intn(3))...)
	case 2: // invalid uint marker at one of the uint fields
		x[markers[r.Intn(len(markers))]] = 0xc0 + byte(r.Intn(12))
		return x
	default: // widen a uint marker: shifts everything after it, length mismatch at the end
		i := markers[r.Intn(len(markers))]
		x[i] = 0xcc + byte(r.Intn(4))
		return x
	}
}

func TestVerifC42Net(t *testing.T) {
	out := vOpen("cases_c42net.txt")
	defer out.Close()
	rnd := vNewRand(4243)
	nConn := vEnvInt("VERIF_C42_NET_CONNS", 60)
	sizes := []uint{16, 16, 32, 64, 256, 2048}
	var nVotes, nVP, nAbort, nFail, nDamaged, nLong int
	for i := 0; i < nConn; i++ {
		g := vnNewGen(rnd)
		c := vnNewConn(sizes[rnd.Intn(len(sizes))])
		good := func(k int) {
			for j := 0; j < k; j++ {
				c.vote(g.voteStruct(rnd.Intn(6) != 0).encode())
				nVotes++
			}
		}
		fail := func() {
			nFail++
			switch rnd.Intn(3) {
			case 0:
				c.vote(g.uncompressible(rnd.Intn(3) == 0)) // mostly longer than MaxCompressedVoteSize
				nLong++
				nVotes++
			default:
				var se vpack.StatelessEncoder
				x, err := se.CompressVote(nil, g.voteStruct(rnd.Intn(4) != 0).encode())
				if err != nil {
					panic(err)
				}
				c.raw(vnDamage(x, rnd, rnd.Intn(4)))
				nDamaged++
			}
		}
		good(rnd.Intn(9))
		if i%6 != 5 { // every sixth connection has no failure at all
			fail()
			good(3 + rnd.Intn(7))
			if rnd.Intn(3) == 0 {
				fail()
				good(2 + rnd.Intn(4))
			}
		}
		out.Line(c.line())
		nVP += c.nVP
		nAbort += c.nAbort
	}
	// a refused vote longer than MaxCompressedVoteSize while the stream is on, and again after the abort
	{
		g := vnNewGen(vNewRand(4244))
		c := vnNewConn(16)
		c.vote(g.voteStruct(true).encode())
		u := g.voteStruct(true)
		u.ps[7] = 9
		c.vote(u.encode())
		c.vote(g.voteStruct(true).encode())
		u = g.voteStruct(true)
		u.ps[63] = 1
		c.vote(u.encode())
		out.Line(c.line())
	}
	// the history of seeded/m31: P1, P2, an uncompressible vote, P3, P2 again, P1 again
	{
		g := vnNewGen(vNewRand(31))
		c := vnNewConn(256)
		mk := func(snd, prop int, ps byte) []byte {
			v := g.voteStruct(true)
			v.pf = make([]byte, 80)
			v.snd = g.senders[snd%len(g.senders)]
			p := [4][]byte{make([]byte, 32), nil, nil, nil}
			p[0][0] = byte(prop)
			v.dig, v.encdig, v.oper, v.oprop = p[0], nil, nil, nil
			v.per, v.step = nil, nil
			v.rnd = vnUint(100)
			v.ps[0] = ps
			return v.encode()
		}
		c.vote(mk(0, 1, 0))
		c.vote(mk(1, 2, 0))
		u := g.voteStruct(false)
		u.rnd = vnUint(100)
		u.pf = make([]byte, 80)
		u.ps[0] = 1
		c.vote(u.encode())
		c.vote(mk(2, 3, 0))
		c.vote(mk(3, 2, 0))
		c.vote(mk(4, 1, 0))
		out.Line(c.line())
	}
	vStats(map[string]interface{}{"net_connections": nConn + 1, "net_votes": nVotes, "net_vp_frames": nVP,
		"net_aborts": nAbort, "net_failure_points": nFail, "net_damaged_frames": nDamaged, "net_refused_votes": nLong})
}
