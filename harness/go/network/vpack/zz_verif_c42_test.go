//go:build verif

package vpack

// C42 harness: drives the real StatelessEncoder/StatelessDecoder and StatefulEncoder/
// StatefulDecoder of this package over generated connections and writes, per operation, the
// inputs and everything the implementation did (all four intermediate byte strings and the
// complete encoder / decoder table state, dumped in-package) as one term per connection:
//
//   (conn <tableSize> ( op ... ))
//   op = (v #msgpackVote (cv cs ds dv encState decState))   vote through both ends
//      | (x #statelessFrame (cs ds encState decState))      frame straight into Compress / Decompress   (ends the connection)
//      | (f #bytes (ds decState))                            bytes straight into Decompress              (ends the connection)
//   cv/cs/ds/dv = #bytes | err | panic | skip ;  decState = same when equal to encState
//   state = (lastRnd (head size (entry*7)) sndTable pkTable pk2Table)
//   entry = (mask operLen #dig #encdig #oprop #operEnc) ; table = (numBuckets ((bucket #slot0 #slot1 mru1) ...))   non-initial buckets only
//
// The generated votes deliberately include encodings that the parser accepts although they are
// not canonical msgpack: wider-than-necessary uint forms for rnd, per, step and oper, explicit
// zero fields, reordered and repeated map keys; plus truncated / bit-flipped / extended inputs at
// all three entry points.

import (
	"encoding/binary"
	"fmt"
	"math"
	"strings"
	"testing"
)

// ---------------------------------------------------------------- state dumps

func vc42DumpWindow(w *propWindow) []interface{} {
	ents := []interface{}{}
	for i := 0; i < proposalWindowSize; i++ {
		e := &w.entries[i]
		ents = append(ents, vL(int(e.mask), int(e.operLen), e.dig[:], e.encdig[:], e.oprop[:], e.operEnc[:]))
	}
	return vL(w.head, w.size, ents)
}

func vc42AllZero(b []byte) bool {
	for _, x := range b {
		if x != 0 {
			return false
		}
	}
	return true
}

func vc42DumpSnd(t *lruTable[addressValue]) []interface{} {
	bs := []interface{}{}
	for b := uint(0); b < t.numBuckets; b++ {
		s0, s1 := t.buckets[b].slots[0], t.buckets[b].slots[1]
		mru1 := t.getLRUSlot(lruBucketIndex(b)) == 0
		if vc42AllZero(s0[:]) && vc42AllZero(s1[:]) && !mru1 {
			continue
		}
		bs = append(bs, vL(b, append([]byte{}, s0[:]...), append([]byte{}, s1[:]...), mru1))
	}
	return vL(t.numBuckets, bs)
}

func vc42PkBytes(p pkSigPair) []byte {
	return append(append([]byte{}, p.pk[:]...), p.sig[:]...)
}

func vc42DumpPk(t *lruTable[pkSigPair]) []interface{} {
	bs := []interface{}{}
	for b := uint(0); b < t.numBuckets; b++ {
		s0, s1 := vc42PkBytes(t.buckets[b].slots[0]), vc42PkBytes(t.buckets[b].slots[1])
		mru1 := t.getLRUSlot(lruBucketIndex(b)) == 0
		if vc42AllZero(s0) && vc42AllZero(s1) && !mru1 {
			continue
		}
		bs = append(bs, vL(b, s0, s1, mru1))
	}
	return vL(t.numBuckets, bs)
}

func vc42DumpState(s *dynamicTableState) string {
	return vT(s.lastRnd, vc42DumpWindow(&s.proposalWindow), vc42DumpSnd(s.sndTable), vc42DumpPk(s.pkTable), vc42DumpPk(s.pk2Table))
}

// ---------------------------------------------------------------- guarded calls

type vc42Res struct {
	kind string // "ok", "err", "panic", "skip"
	b    []byte
}

func (r vc42Res) term() string {
	if r.kind == "ok" {
		return vT(r.b)[1 : len(vT(r.b))-1]
	}
	return r.kind
}

func vc42Guard(f func() ([]byte, error)) (res vc42Res) {
	defer func() {
		if r := recover(); r != nil {
			res = vc42Res{kind: "panic"}
		}
	}()
	b, err := f()
	if err != nil {
		return vc42Res{kind: "err"}
	}
	return vc42Res{kind: "ok", b: append([]byte{}, b...)}
}

var vc42Skip = vc42Res{kind: "skip"}

type vc42Conn struct {
	size  uint
	enc   *StatefulEncoder
	dec   *StatefulDecoder
	ops   []string
	ended bool
	// statistics
	refs, votes, rejected int
}

func vc42NewConn(size uint) *vc42Conn {
	e, err := NewStatefulEncoder(size)
	if err != nil {
		panic(err)
	}
	d, err := NewStatefulDecoder(size)
	if err != nil {
		panic(err)
	}
	return &vc42Conn{size: size, enc: e, dec: d}
}

func (c *vc42Conn) dumps() (string, string) {
	es := vc42DumpState(&c.enc.dynamicTableState)
	ds := vc42DumpState(&c.dec.dynamicTableState)
	if es == ds {
		return es, "same"
	}
	return es, ds
}

// vote: full pipeline at both ends
func (c *vc42Conn) vote(m []byte) {
	if c.ended {
		return
	}
	c.votes++
	cv, cs, ds, dv := vc42Skip, vc42Skip, vc42Skip, vc42Skip
	cv = vc42Guard(func() ([]byte, error) { var e StatelessEncoder; return e.CompressVote(nil, m) })
	es, dd := "skip", "skip"
	if cv.kind == "ok" {
		cs = vc42Guard(func() ([]byte, error) { return c.enc.Compress(nil, cv.b) })
		if cs.kind == "ok" {
			if len(cs.b) < len(cv.b) {
				c.refs++
			}
			ds = vc42Guard(func() ([]byte, error) { return c.dec.Decompress(nil, cs.b) })
			if ds.kind == "ok" {
				dv = vc42Guard(func() ([]byte, error) { var d StatelessDecoder; return d.DecompressVote(nil, ds.b) })
			}
		}
	} else {
		c.rejected++
	}
	if cv.kind != "ok" || (cs.kind == "ok" && ds.kind == "ok") {
		es, dd = c.dumps()
	} else {
		c.ended = true // an error inside Compress/Decompress leaves a partially updated state
	}
	c.ops = append(c.ops, fmt.Sprintf("(v %s (%s %s %s %s %s %s))", vT(m)[1:len(vT(m))-1], cv.term(), cs.term(), ds.term(), dv.term(), es, dd))
}

// frame: a stateless frame straight into Compress, result into Decompress; ends the connection
func (c *vc42Conn) frame(x []byte) {
	if c.ended {
		return
	}
	cs, ds := vc42Skip, vc42Skip
	es, dd := "skip", "skip"
	cs = vc42Guard(func() ([]byte, error) { return c.enc.Compress(nil, x) })
	if cs.kind == "ok" {
		ds = vc42Guard(func() ([]byte, error) { return c.dec.Decompress(nil, cs.b) })
		if ds.kind == "ok" {
			es, dd = c.dumps()
		}
	}
	c.ended = true
	c.ops = append(c.ops, fmt.Sprintf("(x %s (%s %s %s %s))", vT(x)[1:len(vT(x))-1], cs.term(), ds.term(), es, dd))
}

// raw: arbitrary bytes straight into Decompress; ends the connection
func (c *vc42Conn) raw(f []byte) {
	if c.ended {
		return
	}
	ds := vc42Guard(func() ([]byte, error) { return c.dec.Decompress(nil, f) })
	dd := "skip"
	if ds.kind == "ok" {
		dd = vc42DumpState(&c.dec.dynamicTableState)
	}
	c.ended = true
	c.ops = append(c.ops, fmt.Sprintf("(f %s (%s %s))", vT(f)[1:len(vT(f))-1], ds.term(), dd))
}

func (c *vc42Conn) line() string {
	return fmt.Sprintf("(conn %d (%s))", c.size, strings.Join(c.ops, " "))
}

// ---------------------------------------------------------------- vote construction

type vc42Vote struct {
	pf                   []byte
	per, step, rnd, oper []byte // msgpack uint encodings (nil = field absent)
	dig, encdig, oprop   []byte // nil = absent
	snd                  []byte
	p, p1s, p2, p2s, s   []byte
	rOrder               []string // keys of r, in emission order
	propOrder            []string
	ps                   []byte
}

func vc42Uint(v uint64, form int) []byte {
	// form 0 = canonical; 1..4 = force uint8/16/32/64 when the value fits
	switch {
	case form == 4 || (form == 0 && v > math.MaxUint32):
		return binary.BigEndian.AppendUint64([]byte{0xcf}, v)
	case (form == 3 && v <= math.MaxUint32) || (form == 0 && v > math.MaxUint16):
		return binary.BigEndian.AppendUint32([]byte{0xce}, uint32(v))
	case (form == 2 && v <= math.MaxUint16) || (form == 0 && v > math.MaxUint8):
		return binary.BigEndian.AppendUint16([]byte{0xcd}, uint16(v))
	case (form == 1 && v <= math.MaxUint8) || (form == 0 && v > 127):
		return []byte{0xcc, byte(v)}
	case form == 0:
		return []byte{byte(v)}
	}
	return vc42Uint(v, 4)
}

func vc42Key(k string) []byte { return append([]byte{0xa0 | byte(len(k))}, k...) }
func vc42Bin(k string, d []byte) []byte {
	return append(append(vc42Key(k), 0xc4, byte(len(d))), d...)
}

func (v *vc42Vote) encode() []byte {
	b := []byte{0x83}
	b = append(b, vc42Key("cred")...)
	b = append(b, 0x81)
	b = append(b, vc42Bin("pf", v.pf)...)
	b = append(b, vc42Key("r")...)
	b = append(b, 0x80|byte(len(v.rOrder)))
	for _, k := range v.rOrder {
		switch k {
		case "per":
			b = append(append(b, vc42Key(k)...), v.per...)
		case "rnd":
			b = append(append(b, vc42Key(k)...), v.rnd...)
		case "step":
			b = append(append(b, vc42Key(k)...), v.step...)
		case "snd":
			b = append(b, vc42Bin(k, v.snd)...)
		case "prop":
			b = append(b, vc42Key(k)...)
			b = append(b, 0x80|byte(len(v.propOrder)))
			for _, pk := range v.propOrder {
				switch pk {
				case "dig":
					b = append(b, vc42Bin(pk, v.dig)...)
				case "encdig":
					b = append(b, vc42Bin(pk, v.encdig)...)
				case "oprop":
					b = append(b, vc42Bin(pk, v.oprop)...)
				case "oper":
					b = append(append(b, vc42Key(pk)...), v.oper...)
				}
			}
		}
	}
	b = append(b, vc42Key("sig")...)
	b = append(b, 0x86)
	b = append(b, vc42Bin("p", v.p)...)
	b = append(b, vc42Bin("p1s", v.p1s)...)
	b = append(b, vc42Bin("p2", v.p2)...)
	b = append(b, vc42Bin("p2s", v.p2s)...)
	b = append(b, vc42Bin("ps", v.ps)...)
	b = append(b, vc42Bin("s", v.s)...)
	return b
}

type vc42Gen struct {
	r       *vRand
	senders [][]byte
	pks     [][2][]byte
	pk2s    [][2][]byte
	props   []vc42Vote // only the proposal fields are used
	round   uint64
	// statistics
	nNoncanonRnd, nNoncanonOther, nReorder, nDup, nMutated, nZeroSnd int
}

// key whose table bucket (for every table size up to 2^16 entries) is [bucket]
func vc42KeyInBucket(r *vRand, n int, bucket uint64, pkStyle bool) []byte {
	k := r.Bytes(n)
	if pkStyle { // hash = LE64(pk[:8]) ^ LE64(sig[:8]); pk = k[:32], sig = k[32:]
		h := binary.LittleEndian.Uint64(k[:8]) ^ binary.LittleEndian.Uint64(k[32:40])
		binary.LittleEndian.PutUint64(k[:8], binary.LittleEndian.Uint64(k[:8])^((h^bucket)&0xffff))
	} else {
		h := binary.LittleEndian.Uint64(k[:8]) ^ binary.LittleEndian.Uint64(k[8:16]) ^ binary.LittleEndian.Uint64(k[16:24]) ^ binary.LittleEndian.Uint64(k[24:])
		binary.LittleEndian.PutUint64(k[:8], binary.LittleEndian.Uint64(k[:8])^((h^bucket)&0xffff))
	}
	return k
}

func vc42NewGen(r *vRand) *vc42Gen {
	g := &vc42Gen{r: r}
	nS := 2 + r.Intn(8)
	for i := 0; i < nS; i++ {
		if r.Intn(3) == 0 { // force bucket collisions (bucket 0..2), exercising eviction
			g.senders = append(g.senders, vc42KeyInBucket(r, 32, uint64(r.Intn(3)), false))
		} else {
			g.senders = append(g.senders, r.Bytes(32))
		}
	}
	if r.Intn(4) == 0 {
		g.senders = append(g.senders, make([]byte, 32)) // all-zero address: equals an empty slot
	}
	nK := 2 + r.Intn(6)
	for i := 0; i < nK; i++ {
		var k, k2 []byte
		if r.Intn(3) == 0 {
			k, k2 = vc42KeyInBucket(r, 96, uint64(r.Intn(2)), true), vc42KeyInBucket(r, 96, uint64(r.Intn(2)), true)
		} else {
			k, k2 = r.Bytes(96), r.Bytes(96)
		}
		g.pks = append(g.pks, [2][]byte{k[:32], k[32:]})
		g.pk2s = append(g.pk2s, [2][]byte{k2[:32], k2[32:]})
	}
	if r.Intn(6) == 0 {
		g.pks = append(g.pks, [2][]byte{make([]byte, 32), make([]byte, 64)})
	}
	nP := 1 + r.Intn(10) // up to 10 > window size 7: eviction of the oldest
	for i := 0; i < nP; i++ {
		var p vc42Vote
		m := r.Intn(16)
		if r.Intn(3) != 0 {
			m = 15
		}
		if m&1 != 0 {
			p.dig = r.Bytes(32)
		}
		if m&2 != 0 {
			p.encdig = r.Bytes(32)
		}
		if m&4 != 0 {
			p.oper = vc42Uint(g.smallOrEdge(), g.form())
		}
		if m&8 != 0 {
			p.oprop = r.Bytes(32)
		}
		g.props = append(g.props, p)
	}
	g.round = g.edgeRound()
	return g
}

func (g *vc42Gen) form() int {
	if g.r.Intn(6) == 0 {
		return 1 + g.r.Intn(4)
	}
	return 0
}

func (g *vc42Gen) smallOrEdge() uint64 {
	switch g.r.Intn(8) {
	case 0:
		return 0
	case 1:
		return []uint64{127, 128, 255, 256, 65535, 65536, math.MaxUint32, math.MaxUint32 + 1, math.MaxUint64}[g.r.Intn(9)]
	case 2:
		return g.r.Edge64()
	default:
		return uint64(g.r.Intn(300))
	}
}

func (g *vc42Gen) edgeRound() uint64 {
	switch g.r.Intn(8) {
	case 0:
		return 0
	case 1:
		return 1
	case 2:
		return math.MaxUint64 - uint64(g.r.Intn(2))
	case 3:
		return []uint64{126, 127, 128, 254, 255, 256, 65534, 65535, 65536, math.MaxUint32 - 1, math.MaxUint32, math.MaxUint32 + 1}[g.r.Intn(12)]
	case 4:
		return g.r.Edge64()
	default:
		return 1000000 + uint64(g.r.Intn(50000000))
	}
}

func (g *vc42Gen) nextRound() uint64 {
	switch g.r.Intn(10) {
	case 0, 1, 2, 3:
		// same
	case 4, 5:
		g.round++ // wraps at MaxUint64 on purpose
	case 6, 7:
		g.round-- // wraps at 0 on purpose
	case 8:
		g.round = g.edgeRound()
	default:
		g.round += uint64(2 + g.r.Intn(5))
	}
	return g.round
}

func vc42Swap(r *vRand, s []string) {
	if len(s) >= 2 {
		i := r.Intn(len(s))
		j := r.Intn(len(s))
		s[i], s[j] = s[j], s[i]
	}
}

func (g *vc42Gen) voteStruct() *vc42Vote {
	r := g.r
	v := &vc42Vote{pf: r.Bytes(80), s: r.Bytes(64), ps: make([]byte, 64)}
	if r.Intn(3) == 0 {
		v.pf = make([]byte, 80)
	}
	rf := g.form()
	if rf != 0 {
		g.nNoncanonRnd++
	}
	v.rnd = vc42Uint(g.nextRound(), rf)
	v.snd = g.senders[r.Intn(len(g.senders))]
	if vc42AllZero(v.snd) {
		g.nZeroSnd++
	}
	i := r.Intn(len(g.pks))
	v.p, v.p1s = g.pks[i][0], g.pks[i][1]
	j := i
	if r.Intn(4) == 0 {
		j = r.Intn(len(g.pk2s))
	}
	v.p2, v.p2s = g.pk2s[j%len(g.pk2s)][0], g.pk2s[j%len(g.pk2s)][1]
	if r.Intn(3) != 0 {
		f := g.form()
		if f != 0 {
			g.nNoncanonOther++
		}
		v.per = vc42Uint(uint64(r.Intn(3))+uint64(r.Intn(2))*g.smallOrEdge(), f)
	}
	if r.Intn(4) != 0 {
		f := g.form()
		if f != 0 {
			g.nNoncanonOther++
		}
		v.step = vc42Uint(uint64(r.Intn(6))+uint64(r.Intn(8)/7)*g.smallOrEdge(), f)
	}
	if r.Intn(8) != 0 { // bottom votes have no prop
		p := g.props[r.Intn(len(g.props))]
		if r.Intn(2) == 0 {
			p = g.props[0] // most votes of a round are for one proposal
		}
		v.dig, v.encdig, v.oper, v.oprop = p.dig, p.encdig, p.oper, p.oprop
	}
	if v.per != nil {
		v.rOrder = append(v.rOrder, "per")
	}
	if v.dig != nil {
		v.propOrder = append(v.propOrder, "dig")
	}
	if v.encdig != nil {
		v.propOrder = append(v.propOrder, "encdig")
	}
	if v.oper != nil {
		v.propOrder = append(v.propOrder, "oper")
	}
	if v.oprop != nil {
		v.propOrder = append(v.propOrder, "oprop")
	}
	if len(v.propOrder) > 0 {
		v.rOrder = append(v.rOrder, "prop")
	}
	v.rOrder = append(v.rOrder, "rnd", "snd")
	if v.step != nil {
		v.rOrder = append(v.rOrder, "step")
	}
	return v
}

// a vote as msgpack bytes; mostly canonical key order, sometimes reordered / repeated keys
func (g *vc42Gen) vote() []byte {
	r := g.r
	v := g.voteStruct()
	switch r.Intn(40) {
	case 0:
		vc42Swap(r, v.rOrder)
		g.nReorder++
	case 1:
		vc42Swap(r, v.propOrder)
		g.nReorder++
	case 2: // repeat a key (replacing another one so that the count stays plausible, or adding)
		k := v.rOrder[r.Intn(len(v.rOrder))]
		if r.Bool() && len(v.rOrder) < 5 {
			v.rOrder = append(v.rOrder, k)
		} else {
			v.rOrder[r.Intn(len(v.rOrder))] = k
		}
		g.nDup++
	case 3:
		if len(v.propOrder) > 0 {
			k := v.propOrder[r.Intn(len(v.propOrder))]
			if r.Bool() && len(v.propOrder) < 4 {
				v.propOrder = append(v.propOrder, k)
			} else {
				v.propOrder[r.Intn(len(v.propOrder))] = k
			}
			g.nDup++
		}
	case 4: // rnd moved to the front / snd before rnd: the silent stateless reordering
		v.rOrder = []string{"snd", "rnd"}
		if r.Bool() && v.step != nil {
			v.rOrder = []string{"step", "rnd", "snd"}
		}
		g.nReorder++
	}
	return v.encode()
}

func vc42Mutate(r *vRand, b []byte) []byte {
	b = append([]byte{}, b...)
	if len(b) == 0 {
		return []byte{byte(r.U64())}
	}
	switch r.Intn(7) {
	case 0:
		return b[:r.Intn(len(b))]
	case 1:
		return append(b, r.Bytes(1+r.Intn(3))...)
	case 2:
		b[r.Intn(len(b))] ^= 1 << uint(r.Intn(8))
	case 3:
		b[r.Intn(len(b))] = byte(r.U64())
	case 4: // header area
		b[r.Intn(2)%len(b)] = byte(r.U64())
	case 5: // delete a byte
		i := r.Intn(len(b))
		b = append(b[:i], b[i+1:]...)
	default: // early bytes (markers, keys, first fields)
		b[r.Intn(min(len(b), 140))] ^= 1 << uint(r.Intn(8))
	}
	return b
}

// ---------------------------------------------------------------- the test

func TestVerifC42(t *testing.T) {
	out := vOpen("cases_c42.txt")
	defer out.Close()
	rnd := vNewRand(42)
	nConn := vEnvInt("VERIF_C42_CONNS", 120)
	maxLen := vEnvInt("VERIF_C42_LEN", 24)
	sizes := []uint{16, 16, 16, 32, 32, 64, 256, 2048}
	stats := map[string]int{}
	hist := map[string]int{}
	var totalVotes, totalRefs, totalRejected int
	emit := func(c *vc42Conn) {
		out.Line(c.line())
		totalVotes += c.votes
		totalRefs += c.refs
		totalRejected += c.rejected
		hist[fmt.Sprintf("size_%d", c.size)]++
	}

	// (0) fixed regression connections: the two recorded deviations, in their smallest form
	{
		g := vc42NewGen(vNewRand(4201))
		v := g.voteStruct()
		v.rnd = vc42Uint(5, 4) // cf 00 00 00 00 00 00 00 05
		c := vc42NewConn(16)
		c.vote(v.encode())
		c.vote(v.encode()) // same round: delta-coded by the unfixed encoder
		v.rnd = vc42Uint(6, 2)
		c.vote(v.encode()) // +1
		v.rnd = vc42Uint(5, 1)
		c.vote(v.encode()) // -1
		emit(c)
		v = g.voteStruct()
		v.rnd = []byte{5}
		v.snd = append([]byte{0x11}, v.snd[1:]...)
		v.rOrder = []string{"snd", "rnd"}
		v.propOrder = nil
		c = vc42NewConn(16)
		c.vote(v.encode())
		emit(c)
	}

	// (a) random connections
	for i := 0; i < nConn; i++ {
		g := vc42NewGen(rnd)
		c := vc42NewConn(sizes[rnd.Intn(len(sizes))])
		n := 2 + rnd.Intn(maxLen)
		for k := 0; k < n && !c.ended; k++ {
			m := g.vote()
			if rnd.Intn(12) == 0 {
				m = vc42Mutate(rnd, m)
				g.nMutated++
			}
			c.vote(m)
		}
		// terminal operation
		if !c.ended {
			switch rnd.Intn(4) {
			case 0: // mutated stateful frame into the decoder
				var se StatelessEncoder
				if x, err := se.CompressVote(nil, g.voteStruct().encode()); err == nil {
					if f, err := c.enc.Compress(nil, x); err == nil {
						c.raw(vc42Mutate(rnd, f))
						stats["raw_mutated_frames"]++
					}
				}
			case 1: // (mutated) stateless frame into Compress
				var se StatelessEncoder
				if x, err := se.CompressVote(nil, g.voteStruct().encode()); err == nil {
					if rnd.Intn(3) != 0 {
						x = vc42Mutate(rnd, x)
					}
					c.frame(x)
					stats["stateless_frames_into_compress"]++
				}
			case 2: // random bytes into the decoder
				c.raw(rnd.Bytes(rnd.Intn(400)))
				stats["raw_random_frames"]++
			}
		}
		emit(c)
		stats["noncanonical_rnd"] += g.nNoncanonRnd
		stats["noncanonical_per_step_oper"] += g.nNoncanonOther
		stats["reordered_keys"] += g.nReorder
		stats["repeated_keys"] += g.nDup
		stats["mutated_votes"] += g.nMutated
		stats["zero_sender_votes"] += g.nZeroSnd
	}

	// (b) frames that reference slots / window indices beyond the tables (decoder must reject)
	for i := 0; i < 24; i++ {
		g := vc42NewGen(rnd)
		c := vc42NewConn(sizes[rnd.Intn(3)])
		for k := 0; k < rnd.Intn(4); k++ {
			c.vote(g.voteStruct().encode())
		}
		var se StatelessEncoder
		x, err := se.CompressVote(nil, g.voteStruct().encode())
		if err != nil || c.ended {
			continue
		}
		f, err := c.enc.Compress(nil, x)
		if err != nil {
			continue
		}
		f = append([]byte{}, f...)
		switch i % 3 {
		case 0:
			f[1] = (f[1] &^ hdr1PropMask) | byte(1+rnd.Intn(7))<<hdr1PropShift
		case 1:
			f[1] |= hdr1SndRef | hdr1PkRef
		default:
			f[1] = byte(rnd.U64())
		}
		c.raw(f)
		emit(c)
		stats["bad_reference_frames"]++
	}

	// (c) exhaustive: every sequence of length L over 3 votes whose senders and keys all fall
	//     into bucket 0 of a 16-entry table (2 slots: every eviction order is reached)
	{
		L := vEnvInt("VERIF_C42_EXH_LEN", 5)
		g := vc42NewGen(vNewRand(4242))
		var alphabet [][]byte
		for a := 0; a < 3; a++ {
			v := g.voteStruct()
			v.snd = vc42KeyInBucket(g.r, 32, 0, false)
			k := vc42KeyInBucket(g.r, 96, 0, true)
			v.p, v.p1s = k[:32], k[32:]
			k2 := vc42KeyInBucket(g.r, 96, 0, true)
			v.p2, v.p2s = k2[:32], k2[32:]
			v.rnd = vc42Uint(uint64(100+a), []int{0, 0, 3}[a])
			alphabet = append(alphabet, v.encode())
		}
		total := 1
		for i := 0; i < L; i++ {
			total *= 3
		}
		for code := 0; code < total; code++ {
			c := vc42NewConn(16)
			x := code
			for i := 0; i < L; i++ {
				c.vote(alphabet[x%3])
				x /= 3
			}
			emit(c)
		}
		stats["exhaustive_sequences"] = total
		stats["exhaustive_len"] = L
	}

	// (d) stateless layer alone on heavily mutated inputs (connection of size 16, votes only)
	for i := 0; i < vEnvInt("VERIF_C42_SL", 60); i++ {
		g := vc42NewGen(rnd)
		c := vc42NewConn(16)
		for k := 0; k < 6; k++ {
			m := g.vote()
			for j := rnd.Intn(3); j >= 0; j-- {
				m = vc42Mutate(rnd, m)
			}
			c.vote(m)
			g.nMutated++
		}
		emit(c)
		stats["mutated_votes"] += g.nMutated
	}

	st := map[string]interface{}{"connections": hist, "votes": totalVotes, "votes_compressed_with_reference_or_delta": totalRefs,
		"votes_rejected_by_stateless_parser": totalRejected}
	for k, v := range stats {
		st[k] = v
	}
	vStats(st)
}
