//go:build verif

package vpack

// C42: in-package dump of the complete table state of a StatefulEncoder / StatefulDecoder in
// the term syntax of the model's t_state, exported (under build tag verif only) for the harness
// in package network, which drives the real wsPeerMsgCodec on both ends of a connection.
//   state = (lastRnd (head size (entry*7)) sndTable pkTable pk2Table)
//   entry = (mask operLen #dig #encdig #oprop #operEnc)
//   table = (numBuckets ((bucket #slot0 #slot1 mru1) ...))     non-initial buckets only

import (
	"encoding/hex"
	"fmt"
	"strings"
)

func verifAllZero(b []byte) bool {
	for _, x := range b {
		if x != 0 {
			return false
		}
	}
	return true
}

func verifB(b []byte) string { return "#" + hex.EncodeToString(b) }

func verifBool(b bool) string {
	if b {
		return "1"
	}
	return "0"
}

func verifDumpTable[K comparable](t *lruTable[K], key func(K) []byte) string {
	var bs []string
	for b := uint(0); b < t.numBuckets; b++ {
		s0, s1 := key(t.buckets[b].slots[0]), key(t.buckets[b].slots[1])
		mru1 := t.getLRUSlot(lruBucketIndex(b)) == 0
		if verifAllZero(s0) && verifAllZero(s1) && !mru1 {
			continue
		}
		bs = append(bs, fmt.Sprintf("(%d %s %s %s)", b, verifB(s0), verifB(s1), verifBool(mru1)))
	}
	return fmt.Sprintf("(%d (%s))", t.numBuckets, strings.Join(bs, " "))
}

func verifDumpState(s *dynamicTableState) string {
	var ents []string
	for i := 0; i < proposalWindowSize; i++ {
		e := &s.proposalWindow.entries[i]
		ents = append(ents, fmt.Sprintf("(%d %d %s %s %s %s)", e.mask, e.operLen, verifB(e.dig[:]), verifB(e.encdig[:]), verifB(e.oprop[:]), verifB(e.operEnc[:])))
	}
	win := fmt.Sprintf("(%d %d (%s))", s.proposalWindow.head, s.proposalWindow.size, strings.Join(ents, " "))
	addr := func(k addressValue) []byte { return append([]byte{}, k[:]...) }
	pk := func(k pkSigPair) []byte { return append(append([]byte{}, k.pk[:]...), k.sig[:]...) }
	return fmt.Sprintf("(%d %s %s %s %s)", s.lastRnd, win, verifDumpTable(s.sndTable, addr), verifDumpTable(s.pkTable, pk), verifDumpTable(s.pk2Table, pk))
}

// VerifDumpEncoder returns the encoder's table state as a term.
func VerifDumpEncoder(e *StatefulEncoder) string { return verifDumpState(&e.dynamicTableState) }

// VerifDumpDecoder returns the decoder's table state as a term.
func VerifDumpDecoder(d *StatefulDecoder) string { return verifDumpState(&d.dynamicTableState) }
