//go:build verif

package ledger

// C10 harness: paginated listings on a real Ledger (in-memory SQLite tracker DB).
//
// A history is a list of rounds; every round is a block with a prepared StateDelta (asset and app
// resource records as the evaluator writes them: full state of (address, creatable) per record,
// Creatables for creations/destructions, KvMods for boxes) added with Ledger.AddValidatedBlock.
// MaxAcctLookback is large, so nothing is flushed until the harness commits the trackers itself
// up to a chosen round (the same single-goroutine commit flow as the package's triggerTrackerFlush).
// At every snapshot the real paginated APIs are iterated to exhaustion:
//
//   (kv  (round ...) dbr rnd #prefix #cursor limit maxBytes incl (page ...))
//        round = ((#key #value) | (#key) ...)       (#key) = box deleted
//        page  = (more (#key #value) ...) | (err code)       [a trailing symbol `loop` = runaway]
//        Ledger.LookupKvPairsByPrefix(rnd, prefix, cursor', limit, maxBytes, incl); cursor' = last
//        key of the previous page; stops when more = false, on an error or on an empty page.
//   (res app incl (round ...) dbr addr gt limit mode (page ...))
//        round = ((addr aidx pd hd) ...)   pd, hd = 0 (not affected) | 1 (deleted) | (2 v)
//        page  = ((id hold creator params) ...)      hold / params -1 = nil, creator 0 = zero address
//        mode 0: Ledger.LookupAssets/LookupApplications(addr, gt', limit), gt' = last id, until a short page
//        mode 1: the v2 handler protocol: ask limit+1, drop the last item when limit+1 came back
//
// dbr = the tracker DB round at the time of the query (rounds 1..dbr are in SQLite, the rest in
// au.deltas).  The whole history is in every case line, so `check` recomputes the world itself.

import (
	"encoding/binary"
	"errors"
	"sort"
	"strings"
	"testing"

	"github.com/stretchr/testify/require"

	"github.com/algorand/go-algorand/agreement"
	"github.com/algorand/go-algorand/config"
	"github.com/algorand/go-algorand/data/basics"
	"github.com/algorand/go-algorand/ledger/ledgercore"
	ledgertesting "github.com/algorand/go-algorand/ledger/testing"
	"github.com/algorand/go-algorand/logging"
	"github.com/algorand/go-algorand/protocol"
)

type vc10Dlt struct {
	kind int // 0 none, 1 deleted, 2 set
	v    uint64
}

func (d vc10Dlt) term() interface{} {
	if d.kind == 2 {
		return vL(2, d.v)
	}
	return d.kind
}

type vc10Rec struct {
	addr      int
	aidx      uint64
	par, hold vc10Dlt
}

type vc10Kv struct {
	key string
	val []byte // nil = deleted
	old []byte // value before the round (nil = did not exist), as roundCowState.deltas() fills OldData
}

type vc10Round struct {
	res [2][]vc10Rec // 0 assets, 1 apps
	kv  []vc10Kv
	// creatables created / destroyed in this round
	created   map[uint64]int
	destroyed map[uint64]int
}

type vc10Key struct {
	addr int
	aidx uint64
}

type vc10World struct {
	t       *testing.T
	l       *Ledger
	genesis ledgercore.InitState
	addrs   []basics.Address // addrs[i-1] = address with id i
	addrID  map[basics.Address]int
	rounds  []vc10Round
	// generator state (what exists now)
	hold   [2]map[vc10Key]uint64
	par    [2]map[vc10Key]uint64
	ids    [2][]uint64 // every id ever created
	kv     map[string][]byte
	nextID uint64
	nextV  uint64
	st     map[string]int
}

func vc10Open(t *testing.T, name string) *vc10World {
	genesisInitState, _ := ledgertesting.GenerateInitState(t, protocol.ConsensusCurrentVersion, 100)
	cfg := config.GetDefaultLocal()
	cfg.MaxAcctLookback = 1000 // no automatic flush: the harness chooses the DB round
	log := logging.NewLogger()
	log.SetLevel(logging.Error)
	l, err := OpenLedger(log, name, true, genesisInitState, cfg)
	require.NoError(t, err)
	w := &vc10World{t: t, l: l, genesis: genesisInitState, addrID: map[basics.Address]int{}, kv: map[string][]byte{}, nextID: 1000, nextV: 1}
	for a := range genesisInitState.Accounts {
		if a != testPoolAddr && a != testSinkAddr {
			w.addrs = append(w.addrs, a)
		}
	}
	sort.Slice(w.addrs, func(i, j int) bool { return string(w.addrs[i][:]) < string(w.addrs[j][:]) })
	w.addrs = w.addrs[:4]
	for i, a := range w.addrs {
		w.addrID[a] = i + 1
	}
	for c := 0; c < 2; c++ {
		w.hold[c] = map[vc10Key]uint64{}
		w.par[c] = map[vc10Key]uint64{}
	}
	return w
}

func (w *vc10World) val() uint64 { w.nextV++; return w.nextV }

// record with the full state of (addr, aidx) after the operation, deletions flagged
func (w *vc10World) rec(c int, k vc10Key, delPar, delHold bool) vc10Rec {
	r := vc10Rec{addr: k.addr, aidx: k.aidx}
	if v, ok := w.par[c][k]; ok {
		r.par = vc10Dlt{2, v}
	} else if delPar {
		r.par = vc10Dlt{1, 0}
	}
	if v, ok := w.hold[c][k]; ok {
		r.hold = vc10Dlt{2, v}
	} else if delHold {
		r.hold = vc10Dlt{1, 0}
	}
	return r
}

func (w *vc10World) creatorOf(c int, id uint64) int {
	for a := 1; a <= 3; a++ {
		if _, ok := w.par[c][vc10Key{a, id}]; ok {
			return a
		}
	}
	return 0
}

// one random operation on creatable type c, chosen among the (address, creatable) pairs it applies
// to; returns false when there is none
func (w *vc10World) genResOp(r *vRand, c int, rd *vc10Round, touched map[vc10Key]bool) bool {
	const (
		opCreate = iota
		opOptIn
		opOptOut
		opModHold
		opModPar
		opDestroy
	)
	op := opCreate
	switch x := r.Intn(100); {
	case x < 18:
		op = opCreate
	case x < 45:
		op = opOptIn
	case x < 72:
		op = opOptOut
	case x < 80:
		op = opModHold
	case x < 86:
		op = opModPar
	default:
		op = opDestroy
	}
	if op == opCreate {
		a := 1 + r.Intn(3)
		w.nextID += uint64(1 + r.Intn(3))
		id := w.nextID
		k := vc10Key{a, id}
		w.par[c][k] = w.val()
		if c == 0 || r.Intn(2) == 0 {
			w.hold[c][k] = w.val()
		}
		w.ids[c] = append(w.ids[c], id)
		rd.created[id] = a
		touched[k] = true
		rd.res[c] = append(rd.res[c], w.rec(c, k, false, false))
		w.st["op_create"]++
		return true
	}
	var cand []vc10Key
	for _, id := range w.ids[c] {
		for a := 1; a <= 3; a++ {
			k := vc10Key{a, id}
			if touched[k] {
				continue
			}
			_, hasHold := w.hold[c][k]
			_, hasPar := w.par[c][k]
			ok := false
			switch op {
			case opOptIn:
				ok = !hasHold && w.creatorOf(c, id) != 0
			case opOptOut:
				ok = hasHold && !(c == 0 && hasPar) // an asset creator cannot close out of its own asset
			case opModHold:
				ok = hasHold
			case opModPar, opDestroy:
				ok = hasPar
			}
			if ok {
				cand = append(cand, k)
			}
		}
	}
	if len(cand) == 0 {
		return false
	}
	k := cand[r.Intn(len(cand))]
	touched[k] = true
	switch op {
	case opOptIn:
		w.hold[c][k] = w.val()
		rd.res[c] = append(rd.res[c], w.rec(c, k, false, false))
		w.st["op_optin"]++
	case opOptOut:
		delete(w.hold[c], k)
		rd.res[c] = append(rd.res[c], w.rec(c, k, false, true))
		w.st["op_optout"]++
	case opModHold:
		if r.Intn(4) == 0 {
			w.hold[c][k] = 0
		} else {
			w.hold[c][k] = w.val()
		}
		rd.res[c] = append(rd.res[c], w.rec(c, k, false, false))
		w.st["op_modhold"]++
	case opModPar:
		w.par[c][k] = w.val()
		rd.res[c] = append(rd.res[c], w.rec(c, k, false, false))
		w.st["op_modpar"]++
	case opDestroy:
		delete(w.par[c], k)
		delHold := false
		if c == 0 { // the creator's holding goes away with the asset
			delete(w.hold[c], k)
			delHold = true
		}
		rd.destroyed[k.aidx] = k.addr
		rd.res[c] = append(rd.res[c], w.rec(c, k, true, delHold))
		w.st["op_destroy"]++
	}
	return true
}

var vc10Apps = []uint64{1, 255, 256, 0x1ff}
var vc10Alpha = []byte{0x00, 'a', 'b', 0xff}

func vc10BoxKey(app uint64, name string) string {
	var b [8]byte
	binary.BigEndian.PutUint64(b[:], app)
	return "bx:" + string(b[:]) + name
}

func vc10Name(r *vRand, maxLen int) string {
	n := r.Intn(maxLen + 1)
	b := make([]byte, n)
	for i := range b {
		b[i] = vc10Alpha[r.Intn(len(vc10Alpha))]
	}
	return string(b)
}

func (w *vc10World) genKvOp(r *vRand, rd *vc10Round, touched map[string]bool) bool {
	if r.Intn(10) < 6 || len(w.kv) == 0 { // create / overwrite / resize
		key := vc10BoxKey(vc10Apps[r.Intn(len(vc10Apps))], vc10Name(r, 3))
		if touched[key] {
			return false
		}
		val := r.Bytes(r.Intn(6))
		if val == nil {
			val = []byte{}
		}
		old := w.kv[key]
		w.kv[key] = val
		touched[key] = true
		rd.kv = append(rd.kv, vc10Kv{key, val, old})
		w.st["op_boxset"]++
		return true
	}
	keys := make([]string, 0, len(w.kv))
	for k := range w.kv {
		keys = append(keys, k)
	}
	sort.Strings(keys)
	key := keys[r.Intn(len(keys))]
	if touched[key] {
		return false
	}
	old := w.kv[key]
	delete(w.kv, key)
	touched[key] = true
	rd.kv = append(rd.kv, vc10Kv{key, nil, old})
	w.st["op_boxdel"]++
	return true
}

func (w *vc10World) genRound(r *vRand, nres, nkv int) vc10Round {
	rd := vc10Round{created: map[uint64]int{}, destroyed: map[uint64]int{}}
	touched := map[vc10Key]bool{}
	for c := 0; c < 2; c++ {
		n := r.Intn(nres + 1)
		for i, tries := 0, 0; i < n && tries < 20; tries++ {
			if w.genResOp(r, c, &rd, touched) {
				i++
			}
		}
	}
	tk := map[string]bool{}
	n := r.Intn(nkv + 1)
	for i, tries := 0, 0; i < n && tries < 20; tries++ {
		if w.genKvOp(r, &rd, tk) {
			i++
		}
	}
	return rd
}

// addRound appends the round to the real ledger as a validated block with a prepared delta
func (w *vc10World) addRound(rd vc10Round) {
	t, l := w.t, w.l
	blk := makeNewEmptyBlock(t, l, t.Name(), w.genesis.Accounts)
	delta := ledgercore.MakeStateDelta(&blk.BlockHeader, 0, 0, 0)
	_, tot, err := l.LatestTotals()
	require.NoError(t, err)
	delta.Totals = tot
	delta.KvMods = map[string]ledgercore.KvValueDelta{}
	for _, x := range rd.res[0] {
		var pd ledgercore.AssetParamsDelta
		var hd ledgercore.AssetHoldingDelta
		switch x.par.kind {
		case 1:
			pd.Deleted = true
		case 2:
			pd.Params = &basics.AssetParams{Total: x.par.v}
		}
		switch x.hold.kind {
		case 1:
			hd.Deleted = true
		case 2:
			hd.Holding = &basics.AssetHolding{Amount: x.hold.v}
		}
		delta.Accts.UpsertAssetResource(w.addrs[x.addr-1], basics.AssetIndex(x.aidx), pd, hd)
	}
	for _, x := range rd.res[1] {
		var pd ledgercore.AppParamsDelta
		var hd ledgercore.AppLocalStateDelta
		switch x.par.kind {
		case 1:
			pd.Deleted = true
		case 2:
			pd.Params = &basics.AppParams{StateSchemas: basics.StateSchemas{GlobalStateSchema: basics.StateSchema{NumUint: x.par.v}}}
		}
		switch x.hold.kind {
		case 1:
			hd.Deleted = true
		case 2:
			hd.LocalState = &basics.AppLocalState{Schema: basics.StateSchema{NumUint: x.hold.v}}
		}
		delta.Accts.UpsertAppResource(w.addrs[x.addr-1], basics.AppIndex(x.aidx), pd, hd)
	}
	ctypeOf := func(id uint64) basics.CreatableType {
		for _, x := range w.ids[1] {
			if x == id {
				return basics.AppCreatable
			}
		}
		return basics.AssetCreatable
	}
	for id, a := range rd.created {
		delta.AddCreatable(basics.CreatableIndex(id), ledgercore.ModifiedCreatable{Ctype: ctypeOf(id), Created: true, Creator: w.addrs[a-1]})
	}
	for id, a := range rd.destroyed {
		delta.AddCreatable(basics.CreatableIndex(id), ledgercore.ModifiedCreatable{Ctype: ctypeOf(id), Created: false, Creator: w.addrs[a-1]})
	}
	for _, kv := range rd.kv {
		delta.KvMods[kv.key] = ledgercore.KvValueDelta{Data: kv.val, OldData: kv.old}
	}
	require.NoError(t, l.AddValidatedBlock(ledgercore.MakeValidatedBlock(blk, delta), agreement.Certificate{}))
	w.rounds = append(w.rounds, rd)
}

// flushTo commits the trackers up to round target (single goroutine, as triggerTrackerFlush)
func (w *vc10World) flushTo(target basics.Round) {
	l := w.l
	l.WaitForCommit(l.Latest())
	rnd := l.Latest()
	if target > rnd {
		target = rnd
	}
	dcc := &deferredCommitContext{deferredCommitRange: deferredCommitRange{lookback: rnd - target}}
	l.trackers.mu.RLock()
	dbRound := l.trackers.dbRound
	cdr := l.trackers.produceCommittingTask(rnd, dbRound, &dcc.deferredCommitRange)
	if cdr != nil {
		dcc.deferredCommitRange = *cdr
	} else {
		dcc = nil
	}
	l.trackers.mu.RUnlock()
	if dcc != nil {
		l.trackers.accountsWriting.Add(1)
		require.NoError(w.t, l.trackers.commitRound(dcc))
	}
}

func (w *vc10World) dbRound() uint64 {
	w.l.accts.accountsMu.RLock()
	defer w.l.accts.accountsMu.RUnlock()
	return uint64(w.l.accts.cachedDBRound)
}

func (w *vc10World) roundsTerm(kind int) []interface{} {
	out := make([]interface{}, 0, len(w.rounds))
	for _, rd := range w.rounds {
		var l []interface{}
		if kind == 2 {
			for _, kv := range rd.kv {
				if kv.val == nil {
					l = append(l, vL([]byte(kv.key)))
				} else {
					l = append(l, vL([]byte(kv.key), kv.val))
				}
			}
		} else {
			for _, x := range rd.res[kind] {
				l = append(l, vL(x.addr, x.aidx, x.par.term(), x.hold.term()))
			}
		}
		if l == nil {
			l = []interface{}{}
		}
		out = append(out, l)
	}
	return out
}

const vc10MaxPages = 400

func (w *vc10World) queryKv(out *vOut, rounds []interface{}, rnd uint64, prefix, cursor string, limit, maxBytes uint64, incl bool) {
	dbr := w.dbRound()
	var pages []interface{}
	cur := cursor
	for n := 0; ; n++ {
		if n >= vc10MaxPages {
			pages = append(pages, vSym("loop"))
			break
		}
		res, _, more, err := w.l.LookupKvPairsByPrefix(basics.Round(rnd), prefix, cur, limit, maxBytes, incl)
		if err != nil {
			code := 9
			var roe *RoundOffsetError
			switch {
			case errors.As(err, &roe):
				code = 2
			case strings.Contains(err.Error(), "too high"):
				code = 3
			case strings.Contains(err.Error(), "strange prefix"):
				code = 1
			}
			pages = append(pages, vL(vSym("err"), code))
			w.st["kv_err"]++
			break
		}
		pg := []interface{}{more}
		for _, kv := range res {
			v := kv.Value
			if v == nil {
				v = []byte{}
			}
			pg = append(pg, vL([]byte(kv.Key), v))
		}
		pages = append(pages, pg)
		if !more || len(res) == 0 {
			break
		}
		cur = res[len(res)-1].Key
	}
	w.st["kv_pages"] += len(pages)
	out.Case(vSym("kv"), rounds, dbr, rnd, []byte(prefix), []byte(cursor), limit, maxBytes, incl, pages)
}

func (w *vc10World) creatorID(a basics.Address) int {
	if a.IsZero() {
		return 0
	}
	if id, ok := w.addrID[a]; ok {
		return id
	}
	return 99
}

func (w *vc10World) lookupRes(app bool, incl bool, addr int, gt, limit uint64) ([]interface{}, []uint64, error) {
	a := w.addrs[addr-1]
	var items []interface{}
	var ids []uint64
	if !app {
		res, _, err := w.l.LookupAssets(a, basics.AssetIndex(gt), limit)
		if err != nil {
			return nil, nil, err
		}
		for _, x := range res {
			hold, par := int64(-1), int64(-1)
			if x.AssetHolding != nil {
				hold = int64(x.AssetHolding.Amount)
			}
			if x.AssetParams != nil {
				par = int64(x.AssetParams.Total)
			}
			items = append(items, vL(uint64(x.AssetID), hold, w.creatorID(x.Creator), par))
			ids = append(ids, uint64(x.AssetID))
		}
		return items, ids, nil
	}
	res, _, err := w.l.LookupApplications(a, basics.AppIndex(gt), limit, incl)
	if err != nil {
		return nil, nil, err
	}
	for _, x := range res {
		hold, par := int64(-1), int64(-1)
		if x.AppLocalState != nil {
			hold = int64(x.AppLocalState.Schema.NumUint)
		}
		if x.AppParams != nil {
			par = int64(x.AppParams.GlobalStateSchema.NumUint)
		}
		items = append(items, vL(uint64(x.AppID), hold, w.creatorID(x.Creator), par))
		ids = append(ids, uint64(x.AppID))
	}
	return items, ids, nil
}

func (w *vc10World) queryRes(out *vOut, rounds []interface{}, app, incl bool, addr int, gt, limit uint64, mode int) {
	dbr := w.dbRound()
	var pages []interface{}
	cur := gt
	for n := 0; ; n++ {
		if n >= vc10MaxPages {
			pages = append(pages, vSym("loop"))
			break
		}
		ask := limit
		if mode == 1 {
			ask = limit + 1
		}
		items, ids, err := w.lookupRes(app, incl, addr, cur, ask)
		require.NoError(w.t, err)
		if items == nil {
			items = []interface{}{}
		}
		if mode == 1 {
			if uint64(len(items)) > limit {
				items, ids = items[:limit], ids[:limit]
				pages = append(pages, items)
				if len(ids) == 0 {
					break
				}
				cur = ids[len(ids)-1]
				continue
			}
			pages = append(pages, items)
			break
		}
		pages = append(pages, items)
		if uint64(len(items)) < limit || len(ids) == 0 {
			break
		}
		cur = ids[len(ids)-1]
	}
	w.st["res_pages"] += len(pages)
	out.Case(vSym("res"), app, incl, rounds, dbr, addr, gt, limit, mode, pages)
}

var vc10ByteCaps = []uint64{0, 1, 11, 12, 13, 14, 15, 17, 24, 26, 27, 40, 1000}

func (w *vc10World) snapshot(r *vRand, out *vOut, nres, nkv int) {
	latest := uint64(w.l.Latest())
	dbr := w.dbRound()
	// ---- assets and apps
	for c := 0; c < 2; c++ {
		rounds := w.roundsTerm(c)
		ids := append([]uint64{}, w.ids[c]...)
		for q := 0; q < nres; q++ {
			addr := 1 + r.Intn(4)
			if r.Intn(8) != 0 {
				addr = 1 + r.Intn(3)
			}
			limit := uint64(1 + r.Intn(7))
			switch r.Intn(40) {
			case 0:
				limit = 0
			case 1:
				limit = 1000
			}
			gt := uint64(0)
			switch r.Intn(6) {
			case 0:
				if len(ids) > 0 {
					gt = ids[r.Intn(len(ids))] - uint64(r.Intn(2))
				}
			case 1:
				gt = w.nextID + uint64(r.Intn(3))
			case 2:
				gt = 999 + uint64(r.Intn(3))
			}
			mode := 0
			if limit > 0 && r.Intn(4) == 0 {
				mode = 1
			}
			w.queryRes(out, rounds, c == 1, r.Intn(3) != 0, addr, gt, limit, mode)
		}
	}
	// ---- boxes
	rounds := w.roundsTerm(2)
	allKeys := map[string]bool{}
	for _, rd := range w.rounds {
		for _, kv := range rd.kv {
			allKeys[kv.key] = true
		}
	}
	keys := make([]string, 0, len(allKeys))
	for k := range allKeys {
		keys = append(keys, k)
	}
	sort.Strings(keys)
	for q := 0; q < nkv; q++ {
		app := vc10Apps[r.Intn(len(vc10Apps))]
		prefix := vc10BoxKey(app, "")
		switch r.Intn(10) {
		case 0, 1, 2:
			prefix = vc10BoxKey(app, vc10Name(r, 2))
		case 3:
			prefix = vc10BoxKey(app, strings.Repeat("\xff", 1+r.Intn(2)))
		case 4:
			prefix = "bx:"
		case 5:
			prefix = []string{"", "\xff", "\xff\xff", "b", "bx:\x00\x00\x00\x00\x00\x00\x00", "bx:\x00\x00\x00\x00\x00\x00\x01"}[r.Intn(6)]
		}
		cursor := ""
		switch r.Intn(8) {
		case 0, 1:
			if len(keys) > 0 {
				cursor = keys[r.Intn(len(keys))]
			}
		case 2:
			cursor = vc10BoxKey(app, vc10Name(r, 3))
		case 3:
			cursor = prefix
		case 4:
			cursor = []string{"a", "c", "bx:", "bx:\xff", vc10BoxKey(app+1, "")}[r.Intn(5)]
		}
		limit := uint64(1 + r.Intn(7))
		switch r.Intn(40) {
		case 0:
			limit = 0
		case 1:
			limit = 1000
		}
		maxBytes := vc10ByteCaps[r.Intn(len(vc10ByteCaps))]
		rnd := latest
		switch r.Intn(12) {
		case 0, 1, 2:
			rnd = dbr + uint64(r.Intn(int(latest-dbr)+1))
		case 3:
			rnd = dbr
		case 4:
			if r.Intn(2) == 0 && dbr > 0 {
				rnd = dbr - 1
			} else {
				rnd = latest + 1
			}
		}
		w.queryKv(out, rounds, rnd, prefix, cursor, limit, maxBytes, r.Intn(4) != 0)
	}
}

func TestVerifC10(t *testing.T) {
	out := vOpen("cases_c10.txt")
	defer out.Close()
	nHist := vEnvInt("VERIF_C10_HIST", 30)
	nres := vEnvInt("VERIF_C10_QRES", 40)
	nkv := vEnvInt("VERIF_C10_QKV", 80)
	r := vNewRand(10)
	st := map[string]int{}

	// 0. scripted: deletions that live only in memory, with a DB page that must be over-requested
	{
		w := vc10Open(t, t.Name()+"-scripted")
		w.st = st
		rd := vc10Round{created: map[uint64]int{}, destroyed: map[uint64]int{}}
		for i := uint64(0); i < 8; i++ {
			k := vc10Key{1, 1001 + i}
			w.par[0][k], w.hold[0][k] = w.val(), w.val()
			w.ids[0] = append(w.ids[0], k.aidx)
			rd.created[k.aidx] = 1
			rd.res[0] = append(rd.res[0], w.rec(0, k, false, false))
			k2 := vc10Key{2, 1001 + i}
			w.hold[0][k2] = w.val()
			rd.res[0] = append(rd.res[0], w.rec(0, k2, false, false))
			key := vc10BoxKey(255, string([]byte{'a' + byte(i)}))
			w.kv[key] = []byte{byte(i)}
			rd.kv = append(rd.kv, vc10Kv{key, []byte{byte(i)}, nil})
		}
		w.addRound(rd)
		w.flushTo(1)
		rd = vc10Round{created: map[uint64]int{}, destroyed: map[uint64]int{}}
		for _, i := range []uint64{0, 1, 3, 4} { // address 2 opts out of four assets, boxes deleted
			k2 := vc10Key{2, 1001 + i}
			delete(w.hold[0], k2)
			rd.res[0] = append(rd.res[0], w.rec(0, k2, false, true))
			key := vc10BoxKey(255, string([]byte{'a' + byte(i)}))
			old := w.kv[key]
			delete(w.kv, key)
			rd.kv = append(rd.kv, vc10Kv{key, nil, old})
		}
		w.addRound(rd)
		w.nextID = 1010
		for limit := uint64(1); limit <= 5; limit++ {
			for mode := 0; mode < 2; mode++ {
				w.queryRes(out, w.roundsTerm(0), false, true, 2, 0, limit, mode)
			}
			for _, mb := range []uint64{0, 13, 26, 1000} {
				w.queryKv(out, w.roundsTerm(2), 2, vc10BoxKey(255, ""), "", limit, mb, true)
			}
		}
		w.l.Close()
	}

	// 0b. scripted: the page is a prefix of the listing but not the maximal one under the byte cap
	// (props/C10.v C10_kv_budget_not_maximal): database a (20 bytes), c (16); delta b (13); cap 34
	{
		w := vc10Open(t, t.Name()+"-budget")
		w.st = st
		ka, kb, kc := vc10BoxKey(7, "a"), vc10BoxKey(7, "b"), vc10BoxKey(7, "c")
		rd := vc10Round{created: map[uint64]int{}, destroyed: map[uint64]int{}}
		rd.kv = []vc10Kv{{ka, make([]byte, 8), nil}, {kc, make([]byte, 4), nil}}
		w.addRound(rd)
		w.flushTo(1)
		rd = vc10Round{created: map[uint64]int{}, destroyed: map[uint64]int{}}
		rd.kv = []vc10Kv{{kb, []byte{1}, nil}}
		w.addRound(rd)
		for _, mb := range []uint64{33, 34, 36, 49} {
			w.queryKv(out, w.roundsTerm(2), 2, vc10BoxKey(7, ""), "", 5, mb, true)
		}
		w.l.Close()
	}

	for h := 0; h < nHist; h++ {
		w := vc10Open(t, t.Name()+"-h"+string(rune('a'+h%26))+string(rune('a'+h/26)))
		w.st = st
		total := 5 + r.Intn(14)
		opsPerRound := 2 + r.Intn(4)
		kvPerRound := 2 + r.Intn(4)
		for len(w.rounds) < total {
			w.addRound(w.genRound(r, opsPerRound, kvPerRound))
			n := len(w.rounds)
			if n >= 2 && r.Intn(3) == 0 {
				// move the DB round somewhere between the current DB round and latest
				dbr := int(w.dbRound())
				w.flushTo(basics.Round(dbr + r.Intn(n-dbr+1)))
				st["flushes"]++
			}
			if n >= 2 && (r.Intn(3) == 0 || n == total) {
				w.snapshot(r, out, nres, nkv)
				st["snapshots"]++
			}
		}
		st["histories"]++
		st["rounds"] += len(w.rounds)
		w.l.Close()
	}
	stats := map[string]interface{}{}
	for k, v := range st {
		stats[k] = v
	}
	stats["cases"] = out.n
	vStats(stats)
}
