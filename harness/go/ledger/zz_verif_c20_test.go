//go:build verif

package ledger

// C20 "Proposed blocks validate and evaluation is deterministic".
//
// Two real ledgers (in-memory SQLite) opened from the same genesis play generator (L1) and
// validator (L2).  Per round: a random pool of valid and invalid, really signed transaction
// groups -> L1.StartEvaluator (Generate+Validate) / TestTransactionGroup / TransactionGroup /
// GenerateBlock / FinishBlock -> L2.Validate (real signature verification, own empty verified-txn
// cache) must accept; eval.Eval of the same block is repeated with the prefetcher on / off, with a
// 1-worker and the real NumCPU-worker execution pool, with an empty / warm / mocked verified-txn
// cache, with validate on / off, on both ledgers, and the canonicalised StateDeltas must be
// identical; every generate-computed field of the block is mutated in turn and Validate must
// reject each mutant.  "plain" universes (payments only, no rewards) are additionally described
// to the Coq model (coq/model/GenVal.v), which recomputes the generated block, the validator's
// verdict and both deltas.

import (
	"bytes"
	"context"
	"crypto/sha256"
	"errors"
	"fmt"
	"os"
	"path/filepath"
	"runtime"
	"sort"
	"strings"
	"sync"
	"testing"
	"time"

	"github.com/stretchr/testify/require"

	"github.com/algorand/go-algorand/agreement"
	"github.com/algorand/go-algorand/config"
	"github.com/algorand/go-algorand/crypto"
	"github.com/algorand/go-algorand/crypto/merklesignature"
	"github.com/algorand/go-algorand/data/basics"
	"github.com/algorand/go-algorand/data/bookkeeping"
	"github.com/algorand/go-algorand/data/committee"
	"github.com/algorand/go-algorand/data/transactions"
	"github.com/algorand/go-algorand/data/transactions/verify"
	"github.com/algorand/go-algorand/ledger/eval"
	"github.com/algorand/go-algorand/ledger/ledgercore"
	"github.com/algorand/go-algorand/logging"
	"github.com/algorand/go-algorand/protocol"
	"github.com/algorand/go-algorand/util/execpool"
)

// ------------------------------------------------------------------ infrastructure

// vc20NoPrefetch makes every ledger read issued by the prefetcher's goroutines fail, so that
// eval.Eval discards all preloaded data ("prefetcher off"); reads by the evaluator itself pass.
type vc20NoPrefetch struct {
	*Ledger
	hits *int64
	mu   *sync.Mutex
}

var errVc20NoPrefetch = errors.New("verif: prefetch disabled")

func vc20InPrefetcher() bool {
	var pcs [24]uintptr
	n := runtime.Callers(2, pcs[:])
	frames := runtime.CallersFrames(pcs[:n])
	for {
		f, more := frames.Next()
		if strings.Contains(f.Function, "ledger/eval/prefetcher.") {
			return true
		}
		if !more {
			return false
		}
	}
}

func (w vc20NoPrefetch) hit() {
	w.mu.Lock()
	*w.hits++
	w.mu.Unlock()
}

func (w vc20NoPrefetch) LookupWithoutRewards(rnd basics.Round, addr basics.Address) (ledgercore.AccountData, basics.Round, error) {
	if vc20InPrefetcher() {
		w.hit()
		return ledgercore.AccountData{}, 0, errVc20NoPrefetch
	}
	return w.Ledger.LookupWithoutRewards(rnd, addr)
}

func (w vc20NoPrefetch) LookupAsset(rnd basics.Round, addr basics.Address, aidx basics.AssetIndex) (ledgercore.AssetResource, error) {
	if vc20InPrefetcher() {
		w.hit()
		return ledgercore.AssetResource{}, errVc20NoPrefetch
	}
	return w.Ledger.LookupAsset(rnd, addr, aidx)
}

func (w vc20NoPrefetch) LookupApplication(rnd basics.Round, addr basics.Address, aidx basics.AppIndex) (ledgercore.AppResource, error) {
	if vc20InPrefetcher() {
		w.hit()
		return ledgercore.AppResource{}, errVc20NoPrefetch
	}
	return w.Ledger.LookupApplication(rnd, addr, aidx)
}

func (w vc20NoPrefetch) GetCreatorForRound(rnd basics.Round, cidx basics.CreatableIndex, ctype basics.CreatableType) (basics.Address, bool, error) {
	if vc20InPrefetcher() {
		w.hit()
		return basics.Address{}, false, errVc20NoPrefetch
	}
	return w.Ledger.GetCreatorForRound(rnd, cidx, ctype)
}

func (w vc20NoPrefetch) LookupKv(rnd basics.Round, key string) ([]byte, error) {
	if vc20InPrefetcher() {
		w.hit()
		return nil, errVc20NoPrefetch
	}
	return w.Ledger.LookupKv(rnd, key)
}

// vc20Pool is an execpool.ExecutionPool with a chosen number of workers (the real MakePool
// always starts runtime.NumCPU() workers).
type vc20Pool struct {
	in chan func()
	wg sync.WaitGroup
	n  int
}

func vc20MakePool(n int) *vc20Pool {
	p := &vc20Pool{in: make(chan func()), n: n}
	p.wg.Add(n)
	for i := 0; i < n; i++ {
		go func() {
			defer p.wg.Done()
			for f := range p.in {
				f()
			}
		}()
	}
	return p
}

func (p *vc20Pool) Enqueue(ctx context.Context, t execpool.ExecFunc, arg any, _ execpool.Priority, out chan any) error {
	select {
	case p.in <- func() {
		r := t(arg)
		if out != nil {
			out <- r
		}
	}:
		return nil
	case <-ctx.Done():
		return ctx.Err()
	}
}
func (p *vc20Pool) GetOwner() any       { return p }
func (p *vc20Pool) Shutdown()           { close(p.in); p.wg.Wait() }
func (p *vc20Pool) GetParallelism() int { return p.n }

// canonical (sorted) rendering of a StateDelta; acctFilter drops accounts (for the reduced form)
func vc20Canon(d *ledgercore.StateDelta, skip map[basics.Address]bool, reduced bool) string {
	var sb strings.Builder
	accts := append([]ledgercore.BalanceRecord(nil), d.Accts.Accts...)
	sort.Slice(accts, func(i, j int) bool { return bytes.Compare(accts[i].Addr[:], accts[j].Addr[:]) < 0 })
	for _, a := range accts {
		if skip[a.Addr] {
			continue
		}
		fmt.Fprintf(&sb, "A %x %+v\n", a.Addr[:], a.AccountData)
	}
	ars := append([]ledgercore.AssetResourceRecord(nil), d.Accts.AssetResources...)
	sort.Slice(ars, func(i, j int) bool {
		if c := bytes.Compare(ars[i].Addr[:], ars[j].Addr[:]); c != 0 {
			return c < 0
		}
		return ars[i].Aidx < ars[j].Aidx
	})
	for _, r := range ars {
		fmt.Fprintf(&sb, "R %x %d pd=%v hd=%v", r.Addr[:], r.Aidx, r.Params.Deleted, r.Holding.Deleted)
		if r.Params.Params != nil {
			fmt.Fprintf(&sb, " p=%+v", *r.Params.Params)
		}
		if r.Holding.Holding != nil {
			fmt.Fprintf(&sb, " h=%+v", *r.Holding.Holding)
		}
		sb.WriteByte('\n')
	}
	prs := append([]ledgercore.AppResourceRecord(nil), d.Accts.AppResources...)
	sort.Slice(prs, func(i, j int) bool {
		if c := bytes.Compare(prs[i].Addr[:], prs[j].Addr[:]); c != 0 {
			return c < 0
		}
		return prs[i].Aidx < prs[j].Aidx
	})
	for _, r := range prs {
		fmt.Fprintf(&sb, "P %x %d pd=%v sd=%v", r.Addr[:], r.Aidx, r.Params.Deleted, r.State.Deleted)
		if r.Params.Params != nil {
			fmt.Fprintf(&sb, " p=%x", protocol.EncodeReflect(*r.Params.Params))
		}
		if r.State.LocalState != nil {
			fmt.Fprintf(&sb, " s=%x", protocol.EncodeReflect(*r.State.LocalState))
		}
		sb.WriteByte('\n')
	}
	kvk := make([]string, 0, len(d.KvMods))
	for k := range d.KvMods {
		kvk = append(kvk, k)
	}
	sort.Strings(kvk)
	for _, k := range kvk {
		fmt.Fprintf(&sb, "K %x %x %x\n", k, d.KvMods[k].Data, d.KvMods[k].OldData)
	}
	type txe struct {
		id transactions.Txid
		v  ledgercore.IncludedTransactions
	}
	txs := make([]txe, 0, len(d.Txids))
	for id, v := range d.Txids {
		txs = append(txs, txe{id, v})
	}
	sort.Slice(txs, func(i, j int) bool { return bytes.Compare(txs[i].id[:], txs[j].id[:]) < 0 })
	for _, x := range txs {
		fmt.Fprintf(&sb, "T %x %d %d\n", x.id[:], x.v.LastValid, x.v.Intra)
	}
	type le struct {
		l ledgercore.Txlease
		r basics.Round
	}
	ls := make([]le, 0, len(d.Txleases))
	for l, r := range d.Txleases {
		ls = append(ls, le{l, r})
	}
	sort.Slice(ls, func(i, j int) bool {
		if c := bytes.Compare(ls[i].l.Sender[:], ls[j].l.Sender[:]); c != 0 {
			return c < 0
		}
		return bytes.Compare(ls[i].l.Lease[:], ls[j].l.Lease[:]) < 0
	})
	for _, x := range ls {
		fmt.Fprintf(&sb, "L %x %x %d\n", x.l.Sender[:], x.l.Lease[:], x.r)
	}
	cks := make([]basics.CreatableIndex, 0, len(d.Creatables))
	for k := range d.Creatables {
		cks = append(cks, k)
	}
	sort.Slice(cks, func(i, j int) bool { return cks[i] < cks[j] })
	for _, k := range cks {
		fmt.Fprintf(&sb, "C %d %+v\n", k, d.Creatables[k])
	}
	fmt.Fprintf(&sb, "S %d %d\n", d.StateProofNext, d.PrevTimestamp)
	if !reduced {
		if d.Hdr != nil {
			fmt.Fprintf(&sb, "H %x\n", protocol.Encode(d.Hdr))
		}
		fmt.Fprintf(&sb, "Z %+v\n", d.Totals)
	}
	return sb.String()
}

func vc20Digest(s string) []byte { h := sha256.Sum256([]byte(s)); return h[:8] }

// raw account order of the delta (informational: differs only through Go map iteration)
func vc20Order(d *ledgercore.StateDelta) string {
	var sb strings.Builder
	for _, a := range d.Accts.Accts {
		fmt.Fprintf(&sb, "%x,", a.Addr[:4])
	}
	return sb.String()
}

func vc20ErrClass(err error) int {
	if err == nil {
		return 0
	}
	var dead *bookkeeping.TxnDeadError
	var til *ledgercore.TransactionInLedgerError
	var ovs *ledgercore.OverspendError
	var mb *ledgercore.MinBalanceError
	var wf *ledgercore.TxnNotWellFormedError
	var gm *ledgercore.TxGroupMalformedError
	var lil *ledgercore.LeaseInLedgerError
	switch {
	case errors.As(err, &dead):
		return 1
	case errors.As(err, &til):
		return 3
	case errors.As(err, &ovs):
		return 4
	case errors.As(err, &mb):
		return 5
	case errors.As(err, &wf):
		return 6
	case errors.As(err, &lil):
		return 30
	case errors.As(err, &gm):
		switch gm.Reason {
		case ledgercore.TxGroupMalformedErrorReasonExceedMaxSize:
			return 7
		case ledgercore.TxGroupErrorReasonInvalidFee:
			return 9
		default:
			return 8
		}
	case errors.Is(err, ledgercore.ErrNoSpace):
		return 12
	}
	s := err.Error()
	switch {
	case strings.Contains(s, "does not match expected"), strings.Contains(s, "GenesisHash"), strings.Contains(s, "GenesisID"):
		return 2
	}
	return 10
}

// ------------------------------------------------------------------ the world

type vc20Kind int

const (
	vc20Plain vc20Kind = iota // payments only, no rewards: described to the model
	vc20Rich                  // rewards, assets, key registration, leases, rekeying
)

type vc20World struct {
	t       *testing.T
	r       *vRand
	kind    vc20Kind
	cv      protocol.ConsensusVersion
	proto   config.ConsensusParams
	l1, l2  *Ledger
	addrs   []basics.Address // index i+1; 0 is the zero address
	keys    []*crypto.SignatureSecrets
	sink    basics.Address
	pool    basics.Address
	idx     map[basics.Address]int
	txid    map[transactions.Txid]int // model ids of every transaction ever created
	nextTx  int
	commGrp [][]transactions.SignedTxn // committed groups (for duplicates)
	commIDs []int
	assets  []vc20Asset
	auth    map[int]int // rekeyed: account index -> index of the key that signs for it
	leaseN  int
	stats   map[string]int
	dir     string
}

type vc20Asset struct {
	id      basics.AssetIndex
	creator int
	opted   map[int]bool
}

func (w *vc20World) count(k string) { w.stats[k]++ }

func vc20Open(t *testing.T, r *vRand, kind vc20Kind, cv protocol.ConsensusVersion, stats map[string]int) *vc20World {
	w := &vc20World{t: t, r: r, kind: kind, cv: cv, proto: config.Consensus[cv], idx: map[basics.Address]int{},
		txid: map[transactions.Txid]int{}, nextTx: 1, auth: map[int]int{}, stats: stats}
	const nkeys = 12
	const funded = 8
	accts := map[basics.Address]basics.AccountData{}
	for i := 0; i < nkeys; i++ {
		var seed crypto.Seed
		copy(seed[:], r.Bytes(32))
		k := crypto.GenerateSignatureSecrets(seed)
		a := basics.Address(k.SignatureVerifier)
		w.keys = append(w.keys, k)
		w.addrs = append(w.addrs, a)
		w.idx[a] = i + 1
		if i < funded {
			amt := uint64(1_000_000 + r.Intn(50_000_000))
			if i == 0 {
				amt = 5_000_000_000
			}
			accts[a] = basics.AccountData{MicroAlgos: basics.MicroAlgos{Raw: amt}, Status: basics.Offline}
		}
	}
	copy(w.sink[:], r.Bytes(32))
	copy(w.pool[:], r.Bytes(32))
	w.idx[basics.Address{}] = 0
	w.idx[w.sink] = nkeys + 1
	w.idx[w.pool] = nkeys + 2
	sinkBal := uint64(100_000 + r.Intn(3_000_000))
	poolBal := w.proto.MinBalance // plain: no rewards are ever paid out
	if kind == vc20Rich {
		poolBal = 800_000_000_000_000
	}
	accts[w.sink] = basics.AccountData{MicroAlgos: basics.MicroAlgos{Raw: sinkBal}, Status: basics.NotParticipating}
	accts[w.pool] = basics.AccountData{MicroAlgos: basics.MicroAlgos{Raw: poolBal}, Status: basics.NotParticipating}
	bal := bookkeeping.MakeGenesisBalances(accts, w.sink, w.pool)
	var genHash crypto.Digest
	copy(genHash[:], r.Bytes(32))
	// on-disk ledgers (WAL: readers never see "database table is locked" while the trackers
	// flush, unlike the shared-cache in-memory mode) on tmpfs
	base := os.Getenv("VERIF_C20_DIR")
	if base == "" {
		base = "/dev/shm"
		if _, err := os.Stat(base); err != nil {
			base = os.TempDir()
		}
	}
	dir, err := os.MkdirTemp(base, "verif_c20_")
	require.NoError(t, err)
	w.dir = dir
	genBlock, err := bookkeeping.MakeGenesisBlock(cv, bal, "test", genHash)
	require.NoError(t, err)
	cfg := config.GetDefaultLocal()
	cfg.Archival = true
	open := func(name string) *Ledger {
		l, err := OpenLedger(logging.Base(), filepath.Join(dir, name), false, ledgercore.InitState{
			Block: genBlock, Accounts: bal.Balances, GenesisHash: genHash}, cfg)
		require.NoError(t, err)
		return l
	}
	w.l1 = open("l1")
	w.l2 = open("l2")
	return w
}

func (w *vc20World) close() {
	w.l1.Close()
	w.l2.Close()
	os.RemoveAll(w.dir)
}

func (w *vc20World) addr(i int) basics.Address {
	if i == 0 {
		return basics.Address{}
	}
	if i <= len(w.addrs) {
		return w.addrs[i-1]
	}
	if i == len(w.addrs)+1 {
		return w.sink
	}
	return w.pool
}

func (w *vc20World) balance(rnd basics.Round, i int) uint64 {
	d, _, err := w.l1.LookupWithoutRewards(rnd, w.addr(i))
	require.NoError(w.t, err)
	return d.MicroAlgos.Raw
}

// a transaction in a pool group, with what the model needs to know about it
type vc20Tx struct {
	stx transactions.SignedTxn
	id  int
}

type vc20Group struct {
	txs  []vc20Tx
	kind string
}

func (w *vc20World) sign(tx transactions.Transaction) vc20Tx {
	si := w.idx[tx.Sender]
	ki := si
	if a, ok := w.auth[si]; ok {
		ki = a
	}
	var stx transactions.SignedTxn
	if ki >= 1 && ki <= len(w.keys) {
		stx = tx.Sign(w.keys[ki-1])
		if ki != si {
			stx.AuthAddr = w.addrs[ki-1]
		}
	} else {
		stx = transactions.SignedTxn{Txn: tx}
	}
	id, ok := w.txid[stx.ID()]
	if !ok {
		id = w.nextTx
		w.nextTx++
		w.txid[stx.ID()] = id
	}
	return vc20Tx{stx: stx, id: id}
}

func (w *vc20World) header(rnd basics.Round, snd int, fee uint64) transactions.Header {
	return transactions.Header{
		Sender: w.addr(snd), Fee: basics.MicroAlgos{Raw: fee},
		FirstValid: rnd - basics.Round(w.r.Intn(2)), LastValid: rnd + basics.Round(w.r.Intn(20)),
		GenesisHash: w.l1.GenesisHash(), Note: w.r.Bytes(4),
	}
}

func (w *vc20World) pay(rnd basics.Round, snd, rcv int, amt uint64, closeTo int, fee uint64) transactions.Transaction {
	tx := transactions.Transaction{Type: protocol.PaymentTx, Header: w.header(rnd, snd, fee)}
	tx.Receiver = w.addr(rcv)
	tx.Amount = basics.MicroAlgos{Raw: amt}
	if closeTo >= 0 {
		tx.CloseRemainderTo = w.addr(closeTo)
	}
	return tx
}

// group: assign the group id and sign
func (w *vc20World) group(kind string, txs ...transactions.Transaction) vc20Group {
	if len(txs) > 1 {
		var g transactions.TxGroup
		for _, tx := range txs {
			g.TxGroupHashes = append(g.TxGroupHashes, crypto.Digest(tx.ID()))
		}
		gid := crypto.HashObj(g)
		for i := range txs {
			txs[i].Group = gid
		}
	}
	out := vc20Group{kind: kind}
	for _, tx := range txs {
		out.txs = append(out.txs, w.sign(tx))
	}
	return out
}

// one random pool group; est = running estimate of the spendable balances
func (w *vc20World) genGroup(rnd basics.Round, est map[int]uint64, pool []vc20Group) vc20Group {
	r := w.r
	minFee := w.proto.MinTxnFee
	minBal := w.proto.MinBalance
	nk := len(w.addrs)
	// a sender that can afford something
	rich := func() int {
		for try := 0; try < 30; try++ {
			i := 1 + r.Intn(nk)
			if _, rk := w.auth[i]; w.kind == vc20Plain && rk {
				continue
			}
			if est[i] >= minBal+5*minFee+10 {
				return i
			}
		}
		return 1
	}
	anyAcct := func() int { return 1 + r.Intn(nk) }
	spend := func(i int, v uint64) {
		if est[i] >= v {
			est[i] -= v
		} else {
			est[i] = 0
		}
	}
	free := func(i int) uint64 {
		if est[i] < minBal+minFee {
			return 0
		}
		return est[i] - minBal - minFee
	}
	k := r.Intn(100)
	switch {
	case k < 30: // plain payment
		s := rich()
		d := anyAcct()
		amt := uint64(0)
		if f := free(s); f > 0 {
			amt = uint64(r.Intn(int(f%2_000_000 + 1)))
		}
		if est[d] == 0 && amt < minBal && r.Intn(4) != 0 {
			amt = minBal + uint64(r.Intn(1000)) // fund a fresh account properly
			if amt > free(s) {
				amt = 0
			}
		}
		spend(s, amt+minFee)
		est[d] += amt
		return w.group("pay", w.pay(rnd, s, d, amt, -1, minFee+uint64(r.Intn(3))*uint64(r.Intn(500))))
	case k < 36: // payment to the zero address / the fee sink / self / zero amount
		s := rich()
		switch r.Intn(4) {
		case 0:
			spend(s, 1+minFee)
			return w.group("pay_zeroaddr", w.pay(rnd, s, 0, 1+uint64(r.Intn(100)), -1, minFee))
		case 1:
			spend(s, 7+minFee)
			return w.group("pay_sink", w.pay(rnd, s, nk+1, 7, -1, minFee))
		case 2:
			spend(s, minFee)
			return w.group("pay_self", w.pay(rnd, s, s, uint64(r.Intn(1000)), -1, minFee))
		default:
			spend(s, minFee)
			return w.group("pay_zero", w.pay(rnd, s, anyAcct(), 0, -1, minFee))
		}
	case k < 44: // close an account
		s := 2 + r.Intn(nk-1)
		d := anyAcct()
		if d == s {
			d = 1
		}
		if est[s] < minFee {
			return w.group("close_poor", w.pay(rnd, s, d, 0, d, minFee))
		}
		amt := uint64(r.Intn(1000))
		if amt+minFee > est[s] {
			amt = 0
		}
		c := anyAcct()
		if c == s {
			c = 1
		}
		est[d] += amt
		est[c] += est[s] - amt - minFee
		est[s] = 0
		return w.group("close", w.pay(rnd, s, d, amt, c, minFee))
	case k < 56: // proper group of 2..4 payments, fees possibly pooled
		n := 2 + r.Intn(3)
		var txs []transactions.Transaction
		pooled := r.Intn(3) == 0
		for i := 0; i < n; i++ {
			s := rich()
			d := anyAcct()
			fee := minFee
			if pooled {
				if i == 0 {
					fee = minFee * uint64(n)
				} else {
					fee = 0
				}
			}
			amt := uint64(r.Intn(5000))
			if est[d] == 0 {
				amt += minBal
			}
			if amt > free(s) {
				amt = 0
			}
			spend(s, amt+fee)
			est[d] += amt
			txs = append(txs, w.pay(rnd, s, d, amt, -1, fee))
		}
		if pooled {
			return w.group("group_pooled", txs...)
		}
		return w.group("group", txs...)
	case k < 61: // overspend
		s := anyAcct()
		return w.group("bad_overspend", w.pay(rnd, s, anyAcct(), est[s]+1+uint64(r.Intn(1000)), -1, minFee))
	case k < 66: // leaves the sender (or funds a receiver) below the minimum balance
		if r.Bool() {
			s := rich()
			amt := est[s] - minFee - uint64(1+r.Intn(int(minBal-1)))
			return w.group("bad_minbal_sender", w.pay(rnd, s, 1, amt, -1, minFee))
		}
		s := rich()
		for d := nk; d >= 1; d-- {
			if est[d] == 0 {
				return w.group("bad_minbal_receiver", w.pay(rnd, s, d, uint64(1+r.Intn(int(minBal-1))), -1, minFee))
			}
		}
		return w.group("bad_overspend", w.pay(rnd, s, 1, est[s]+5, -1, minFee))
	case k < 71: // dead
		s := rich()
		tx := w.pay(rnd, s, anyAcct(), 5, -1, minFee)
		if r.Bool() && rnd > 2 {
			tx.FirstValid, tx.LastValid = rnd-2, rnd-1
			return w.group("bad_dead_past", tx)
		}
		tx.FirstValid, tx.LastValid = rnd+1, rnd+9
		return w.group("bad_dead_future", tx)
	case k < 76: // duplicate
		if len(w.commGrp) > 0 && r.Bool() {
			j := r.Intn(len(w.commGrp))
			g := vc20Group{kind: "bad_dup_committed"}
			for _, stx := range w.commGrp[j] {
				g.txs = append(g.txs, vc20Tx{stx: stx, id: w.txid[stx.ID()]})
			}
			return g
		}
		if len(pool) > 0 {
			g := pool[r.Intn(len(pool))]
			return vc20Group{txs: g.txs, kind: "bad_dup_pool"}
		}
		fallthrough
	case k < 79: // wrong genesis hash
		s := rich()
		tx := w.pay(rnd, s, anyAcct(), 5, -1, minFee)
		tx.GenesisHash[3] ^= 0x40
		return w.group("bad_genesis", tx)
	case k < 83: // fee too low
		s := rich()
		if r.Bool() {
			return w.group("bad_fee", w.pay(rnd, s, anyAcct(), 5, -1, minFee-1-uint64(r.Intn(int(minFee)))))
		}
		return w.group("bad_fee_group", w.pay(rnd, s, anyAcct(), 5, -1, minFee), w.pay(rnd, rich(), anyAcct(), 6, -1, minFee-1))
	case k < 89: // broken group ids
		a := w.pay(rnd, rich(), anyAcct(), 5, -1, minFee)
		b := w.pay(rnd, rich(), anyAcct(), 6, -1, minFee)
		c := w.pay(rnd, rich(), anyAcct(), 7, -1, minFee)
		switch r.Intn(3) {
		case 0: // members of two different groups
			g1 := w.group("x", a, b)
			g2 := w.group("x", b, c)
			return vc20Group{txs: []vc20Tx{g1.txs[0], g2.txs[1]}, kind: "bad_gid_inconsistent"}
		case 1: // two ungrouped transactions submitted as one group
			return vc20Group{txs: []vc20Tx{w.sign(a), w.sign(b)}, kind: "bad_gid_empty"}
		default: // a member is missing
			g := w.group("x", a, b, c)
			return vc20Group{txs: g.txs[:2], kind: "bad_gid_incomplete"}
		}
	case k < 92: // malformed
		s := rich()
		switch r.Intn(3) {
		case 0:
			return w.group("bad_wf_closeself", w.pay(rnd, s, anyAcct(), 5, s, minFee))
		case 1:
			tx := w.pay(rnd, s, anyAcct(), 5, -1, minFee)
			tx.FirstValid, tx.LastValid = rnd, rnd+basics.Round(w.proto.MaxTxnLife)+5
			return w.group("bad_wf_life", tx)
		default:
			tx := w.pay(rnd, s, anyAcct(), 5, -1, minFee)
			tx.Note = make([]byte, w.proto.MaxTxnNoteBytes+1)
			return w.group("bad_wf_note", tx)
		}
	case k < 94: // too many members
		var txs []transactions.Transaction
		for i := 0; i <= w.proto.MaxTxGroupSize; i++ {
			txs = append(txs, w.pay(rnd, 1, anyAcct(), uint64(i), -1, minFee))
		}
		return w.group("bad_oversize", txs...)
	case k < 97: // closes the account, then spends from it in the same group
		s := 2 + r.Intn(nk-1)
		return w.group("bad_close_then_spend", w.pay(rnd, s, 1, 0, 1, minFee), w.pay(rnd, s, 1, 1, -1, minFee))
	default: // a second member fails: the whole group must disappear
		s := rich()
		return w.group("bad_group_atomic", w.pay(rnd, s, anyAcct(), 1000, -1, minFee), w.pay(rnd, anyAcct(), 1, ^uint64(0)>>1, -1, minFee))
	}
}

// extra group kinds of the rich universes (not described to the model)
func (w *vc20World) genRich(rnd basics.Round, est map[int]uint64) (vc20Group, bool) {
	r := w.r
	minFee := w.proto.MinTxnFee
	nk := len(w.addrs)
	s := 1 + r.Intn(nk)
	if est[s] < 5*w.proto.MinBalance {
		s = 1
	}
	hdr := func(fee uint64) transactions.Header { return w.header(rnd, s, fee) }
	switch r.Intn(9) {
	case 0: // asset create
		tx := transactions.Transaction{Type: protocol.AssetConfigTx, Header: hdr(minFee)}
		tx.AssetParams = basics.AssetParams{Total: uint64(100 + r.Intn(1000)), Manager: w.addr(s), Reserve: w.addr(s), Freeze: w.addr(s), Clawback: w.addr(s), UnitName: "v"}
		return w.group("acfg_create", tx), true
	case 1, 2: // opt in
		if len(w.assets) == 0 {
			return vc20Group{}, false
		}
		a := w.assets[r.Intn(len(w.assets))]
		tx := transactions.Transaction{Type: protocol.AssetTransferTx, Header: hdr(minFee)}
		tx.XferAsset = a.id
		tx.AssetReceiver = w.addr(s)
		a.opted[s] = true
		return w.group("axfer_optin", tx), true
	case 3, 4: // transfer (may or may not be allowed)
		if len(w.assets) == 0 {
			return vc20Group{}, false
		}
		a := w.assets[r.Intn(len(w.assets))]
		tx := transactions.Transaction{Type: protocol.AssetTransferTx, Header: w.header(rnd, a.creator, minFee)}
		tx.XferAsset = a.id
		tx.AssetAmount = uint64(r.Intn(20))
		tx.AssetReceiver = w.addr(1 + r.Intn(nk))
		if r.Intn(5) == 0 {
			tx.AssetCloseTo = w.addr(a.creator)
			tx.Sender = tx.AssetReceiver
		}
		return w.group("axfer", tx), true
	case 5: // key registration (online with a short validity window, or offline)
		if s == nk {
			return vc20Group{}, false // the last account never holds keys: see the bogus expired / absent mutants
		}
		tx := transactions.Transaction{Type: protocol.KeyRegistrationTx, Header: hdr(minFee)}
		if r.Intn(4) != 0 {
			copy(tx.VotePK[:], r.Bytes(32))
			copy(tx.SelectionPK[:], r.Bytes(32))
			var c merklesignature.Commitment
			copy(c[:], r.Bytes(len(c)))
			tx.StateProofPK = c
			tx.VoteFirst = rnd
			tx.VoteLast = rnd + basics.Round(1+r.Intn(4))
			tx.VoteKeyDilution = 100
			if w.proto.Payouts.Enabled && r.Bool() {
				tx.Fee = basics.MicroAlgos{Raw: w.proto.Payouts.GoOnlineFee}
			}
		}
		return w.group("keyreg", tx), true
	case 6: // leased payment (repeating a lease is an error while it is held)
		tx := w.pay(rnd, s, 1+r.Intn(nk), 3, -1, minFee)
		tx.Lease[0] = byte(1 + w.leaseN%3)
		w.leaseN++
		return w.group("pay_lease", tx), true
	case 7: // rekey to another of our keys; later transactions are signed by that key
		if _, done := w.auth[s]; done || s == 1 {
			return vc20Group{}, false
		}
		to := 1 + r.Intn(nk)
		tx := w.pay(rnd, s, s, 0, -1, minFee)
		tx.RekeyTo = w.addr(to)
		g := w.group("rekey", tx)
		w.auth[s] = to // assume it lands; if it does not, later signatures simply fail authorization
		return g, true
	default: // mixed group: payment + asset transfer
		if len(w.assets) == 0 {
			return vc20Group{}, false
		}
		a := w.assets[r.Intn(len(w.assets))]
		t1 := w.pay(rnd, s, a.creator, 1000, -1, minFee)
		t2 := transactions.Transaction{Type: protocol.AssetTransferTx, Header: w.header(rnd, a.creator, minFee)}
		t2.XferAsset = a.id
		t2.AssetAmount = 1
		t2.AssetReceiver = w.addr(s)
		return w.group("group_mixed", t1, t2), true
	}
}

// the state-independent checks of TransactionGroup, computed with the real functions.  memberOK[i]:
// the group-id checks made inside the per-transaction loop pass for member i (same Group as the
// first member; non-zero unless the group is a singleton); gid: the completeness check made
// after the loop (hash of the members' ids = Group).
func (w *vc20World) staticFlags(g vc20Group, spec transactions.SpecialAddresses) (wf, gid, feeok bool, memberOK []bool) {
	wf, gid = true, true
	stxs := make([]transactions.SignedTxn, len(g.txs))
	for i, t := range g.txs {
		stxs[i] = t.stx
		if t.stx.Txn.WellFormed(spec, w.proto) != nil {
			wf = false
		}
	}
	var grp transactions.TxGroup
	memberOK = make([]bool, len(g.txs))
	for i, t := range g.txs {
		memberOK[i] = true
		if t.stx.Txn.Group != g.txs[0].stx.Txn.Group {
			memberOK[i] = false
		}
		if !t.stx.Txn.Group.IsZero() {
			x := t.stx.Txn
			x.Group = crypto.Digest{}
			grp.TxGroupHashes = append(grp.TxGroupHashes, crypto.Digest(x.ID()))
		} else if len(g.txs) > 1 {
			memberOK[i] = false
		}
	}
	if grp.TxGroupHashes != nil && g.txs[0].stx.Txn.Group != crypto.HashObj(grp) {
		gid = false
	}
	usage, paid := transactions.SummarizeFees(transactions.WrapSignedTxnsWithAD(stxs), w.proto)
	feeok = eval.CheckGroupFees(paid, usage, w.proto.MinFee()) == nil
	return
}

func vc20B(b bool) int {
	if b {
		return 1
	}
	return 0
}

// account table rows (idx algos lastprop) of a delta; ok=false if an account is not "plain"
func (w *vc20World) deltaRows(d *ledgercore.StateDelta) ([]interface{}, bool) {
	type row struct {
		i    int
		a, l uint64
	}
	var rows []row
	plain := true
	for _, br := range d.Accts.Accts {
		i, ok := w.idx[br.Addr]
		if !ok {
			plain = false
			continue
		}
		chk := br.AccountData
		chk.MicroAlgos = basics.MicroAlgos{}
		chk.LastProposed = 0
		if i == len(w.addrs)+1 || i == len(w.addrs)+2 {
			chk.Status = 0
		}
		if chk != (ledgercore.AccountData{}) {
			plain = false
		}
		rows = append(rows, row{i, br.MicroAlgos.Raw, uint64(br.LastProposed)})
	}
	if len(d.Accts.AssetResources)+len(d.Accts.AppResources)+len(d.KvMods)+len(d.Creatables)+len(d.Txleases) > 0 {
		plain = false
	}
	sort.Slice(rows, func(i, j int) bool { return rows[i].i < rows[j].i })
	out := []interface{}{}
	for _, x := range rows {
		out = append(out, vL(x.i, x.a, x.l))
	}
	return out, plain
}

type vc20Mut struct {
	name string
	ok   bool // applicable
	blk  bookkeeping.Block
	cold bool // validate with an empty verified-txn cache (default: the ledger's warm one)
}

func vc20CopyBlock(b bookkeeping.Block) bookkeeping.Block {
	c := b
	c.Payset = append(transactions.Payset(nil), b.Payset...)
	if b.StateProofTracking != nil {
		c.StateProofTracking = map[protocol.StateProofType]bookkeeping.StateProofTrackingData{}
		for k, v := range b.StateProofTracking {
			c.StateProofTracking[k] = v
		}
	}
	c.ExpiredParticipationAccounts = append([]basics.Address(nil), b.ExpiredParticipationAccounts...)
	c.AbsentParticipationAccounts = append([]basics.Address(nil), b.AbsentParticipationAccounts...)
	return c
}

// every generate-computed field of blk, altered one at a time
func (w *vc20World) mutants(blk bookkeeping.Block, unfinishedPayout uint64, prevTimeStamp int64) []vc20Mut {
	r := w.r
	var ms []vc20Mut
	add := func(name string, ok bool, f func(b *bookkeeping.Block)) {
		m := vc20Mut{name: name, ok: ok}
		if ok {
			m.blk = vc20CopyBlock(blk)
			f(&m.blk)
		}
		ms = append(ms, m)
	}
	np := len(blk.Payset)
	pick := 0
	if np > 0 {
		pick = r.Intn(np)
	}
	closer := -1
	for i, s := range blk.Payset {
		if !s.ClosingAmount.IsZero() {
			closer = i
		}
	}
	reroot := func(b *bookkeeping.Block) {
		// a forger would also recompute the commitment: keep the root consistent so that only
		// the ApplyData comparison can catch the change
		c, err := b.PaysetCommit()
		if err == nil {
			b.TxnCommitments = c
		}
	}
	add("ad_closing", np > 0, func(b *bookkeeping.Block) { b.Payset[pick].ClosingAmount.Raw += 1; reroot(b) })
	add("ad_closing_real", closer >= 0, func(b *bookkeeping.Block) { b.Payset[closer].ClosingAmount.Raw -= 1; reroot(b) })
	add("ad_sender_rewards", np > 0, func(b *bookkeeping.Block) { b.Payset[pick].SenderRewards.Raw += 1; reroot(b) })
	add("ad_receiver_rewards", np > 0, func(b *bookkeeping.Block) { b.Payset[pick].ReceiverRewards.Raw += 1; reroot(b) })
	add("ad_close_rewards", np > 0, func(b *bookkeeping.Block) { b.Payset[pick].CloseRewards.Raw += 1; reroot(b) })
	add("ad_config_asset", np > 0, func(b *bookkeeping.Block) { b.Payset[pick].ConfigAsset += 77; reroot(b) })
	add("ad_application_id", np > 0, func(b *bookkeeping.Block) { b.Payset[pick].ApplicationID += 78; reroot(b) })
	add("ad_asset_closing", np > 0, func(b *bookkeeping.Block) { b.Payset[pick].AssetClosingAmount += 1; reroot(b) })
	add("ad_unrooted", np > 0, func(b *bookkeeping.Block) { b.Payset[pick].ClosingAmount.Raw += 1 })
	add("txn_counter_up", true, func(b *bookkeeping.Block) { b.TxnCounter++ })
	add("txn_counter_down", blk.TxnCounter > 0, func(b *bookkeeping.Block) { b.TxnCounter-- })
	add("fees_collected_up", true, func(b *bookkeeping.Block) { b.FeesCollected.Raw++ })
	add("fees_collected_down", blk.FeesCollected.Raw > 0, func(b *bookkeeping.Block) { b.FeesCollected.Raw-- })
	add("payout_up", true, func(b *bookkeeping.Block) { b.BlockHeader.ProposerPayout.Raw = unfinishedPayout + 1 })
	add("proposer_zero", w.proto.Payouts.Enabled, func(b *bookkeeping.Block) { b.BlockHeader.Proposer = basics.Address{} })
	add("load_up", true, func(b *bookkeeping.Block) { b.Load++ })
	add("load_down", blk.Load > 0, func(b *bookkeeping.Block) { b.Load-- })
	add("txn_root", true, func(b *bookkeeping.Block) { b.TxnCommitments.NativeSha512_256Commitment[5] ^= 1 })
	add("txn_root_sha256", w.proto.EnableSHA256TxnCommitmentHeader, func(b *bookkeeping.Block) { b.TxnCommitments.Sha256Commitment[5] ^= 1 })
	add("rewards_level", true, func(b *bookkeeping.Block) { b.RewardsLevel++ })
	add("rewards_rate", true, func(b *bookkeeping.Block) { b.RewardsRate++ })
	add("rewards_residue", true, func(b *bookkeeping.Block) { b.RewardsResidue++ })
	add("rewards_recalc", true, func(b *bookkeeping.Block) { b.RewardsRecalculationRound++ })
	add("fee_sink", true, func(b *bookkeeping.Block) { b.FeeSink[0] ^= 1 })
	add("genesis_hash", true, func(b *bookkeeping.Block) { b.BlockHeader.GenesisHash[7] ^= 1 })
	add("drop_txn", np > 0, func(b *bookkeeping.Block) { b.Payset = b.Payset[:np-1] })
	add("drop_txn_rerooted", np > 0, func(b *bookkeeping.Block) { b.Payset = b.Payset[:np-1]; reroot(b) })
	add("dup_txn_rerooted", np > 0, func(b *bookkeeping.Block) { b.Payset = append(b.Payset, b.Payset[pick]); reroot(b) })
	_, spOK := blk.StateProofTracking[protocol.StateProofBasic]
	add("stateproof_next", spOK, func(b *bookkeeping.Block) {
		x := b.StateProofTracking[protocol.StateProofBasic]
		x.StateProofNextRound++
		b.StateProofTracking[protocol.StateProofBasic] = x
	})
	add("stateproof_weight", spOK, func(b *bookkeeping.Block) {
		x := b.StateProofTracking[protocol.StateProofBasic]
		x.StateProofOnlineTotalWeight.Raw += 1 << 62
		b.StateProofTracking[protocol.StateProofBasic] = x
	})
	// an account that never registered keys is neither expired nor absent (the validator does not
	// require the lists to be complete, so an account with really expired keys would be accepted)
	keyless := w.addrs[len(w.addrs)-1]
	add("expired_bogus", true, func(b *bookkeeping.Block) {
		b.ExpiredParticipationAccounts = append(b.ExpiredParticipationAccounts, keyless)
	})
	add("absent_bogus", true, func(b *bookkeeping.Block) {
		b.AbsentParticipationAccounts = append(b.AbsentParticipationAccounts, keyless)
	})
	add("expired_dup", len(blk.ExpiredParticipationAccounts) > 0, func(b *bookkeeping.Block) {
		b.ExpiredParticipationAccounts = append(b.ExpiredParticipationAccounts, b.ExpiredParticipationAccounts[0])
	})
	add("bonus", true, func(b *bookkeeping.Block) { b.Bonus.Raw++ })
	add("round", true, func(b *bookkeeping.Block) { b.BlockHeader.Round++ })
	add("branch", true, func(b *bookkeeping.Block) { b.Branch[1] ^= 1 })
	// (after a zero timestamp any timestamp is allowed)
	add("timestamp", prevTimeStamp > 0, func(b *bookkeeping.Block) { b.TimeStamp += 1 << 40 })
	add("congestion_tax", true, func(b *bookkeeping.Block) { b.CongestionTax++ })
	add("upgrade_state", true, func(b *bookkeeping.Block) { b.NextProtocolApprovals++ })
	// signatures: the evaluator's verifier must reject with an empty AND with a warm cache (which
	// holds the correctly signed version of the same transaction id)
	sigIdx := -1
	for i, s := range blk.Payset {
		if s.Sig != (crypto.Signature{}) {
			sigIdx = i
		}
	}
	add("bad_sig_warm_cache", sigIdx >= 0, func(b *bookkeeping.Block) { b.Payset[sigIdx].Sig[9] ^= 4; reroot(b) })
	add("bad_sig_cold_cache", sigIdx >= 0, func(b *bookkeeping.Block) { b.Payset[sigIdx].Sig[9] ^= 4; reroot(b) })
	ms[len(ms)-1].cold = true
	add("auth_addr_warm_cache", sigIdx >= 0, func(b *bookkeeping.Block) {
		// an authorizer that is neither the sender nor the address the transaction was signed for
		for _, a := range w.addrs {
			if a != b.Payset[sigIdx].Txn.Sender && a != b.Payset[sigIdx].AuthAddr {
				b.Payset[sigIdx].AuthAddr = a
				break
			}
		}
		reroot(b)
	})
	return ms
}

type vc20EvalVariant struct {
	name     string
	led      int // 1 or 2
	prefetch bool
	validate bool
	workers  int // 1, 16 (real pool), 0 = nil pool (validate off)
	cache    string
}

// ------------------------------------------------------------------ one round
func (w *vc20World) round(out *vOut, pools map[int]execpool.BacklogPool) bool {
	t := w.t
	r := w.r
	prev := w.l1.Latest()
	rnd := prev + 1
	prevHdr, err := w.l1.BlockHdr(prev)
	require.NoError(t, err)
	nk := len(w.addrs)
	est := map[int]uint64{}
	for i := 1; i <= nk; i++ {
		est[i] = w.balance(prev, i)
	}
	hdr := bookkeeping.MakeBlock(prevHdr).BlockHeader
	hdr.TimeStamp = prevHdr.TimeStamp + 1
	spec := transactions.SpecialAddresses{FeeSink: hdr.FeeSink, RewardsPool: hdr.RewardsPool}

	// ---- the pool
	ng := 5 + r.Intn(10)
	var pool []vc20Group
	for len(pool) < ng {
		if w.kind == vc20Rich && r.Intn(3) == 0 {
			if g, ok := w.genRich(rnd, est); ok {
				pool = append(pool, g)
				continue
			}
		}
		pool = append(pool, w.genGroup(rnd, est, pool))
	}

	// ---- the model's view of the ledger (before anything is evaluated)
	var lvAccts []interface{}
	modelled := w.kind == vc20Plain
	for i := 0; i <= nk+2; i++ {
		d, _, err := w.l1.LookupWithoutRewards(prev, w.addr(i))
		require.NoError(t, err)
		chk := d
		chk.MicroAlgos = basics.MicroAlgos{}
		chk.LastProposed = 0
		if i > nk {
			chk.Status = 0
		}
		if chk != (ledgercore.AccountData{}) {
			modelled = false
		}
		if d.MicroAlgos.Raw != 0 || d.LastProposed != 0 {
			lvAccts = append(lvAccts, vL(i, d.MicroAlgos.Raw, uint64(d.LastProposed)))
		}
	}
	if lvAccts == nil {
		lvAccts = []interface{}{}
	}
	_, totals, err := w.l1.LatestTotals()
	require.NoError(t, err)
	poolData, _, err := w.l1.LookupWithoutRewards(prev, prevHdr.RewardsPool)
	require.NoError(t, err)
	expectRS := prevHdr.NextRewardsState(rnd, w.proto, poolData.MicroAlgos, totals.RewardUnits(), logging.Base())
	if expectRS.RewardsLevel != prevHdr.RewardsLevel {
		modelled = false
	}
	lvTxids := []interface{}{}
	for _, id := range w.commIDs {
		lvTxids = append(lvTxids, id)
	}

	// ---- generate on L1.  A third of the rounds assemble a FULL block the way the transaction
	// pool does: the evaluator gets a lowered node-local size cap, groups are offered until one
	// does not fit (ErrNoSpace) and GenerateBlock follows immediately (stopFull); sometimes the
	// remaining, smaller groups are still offered after a group did not fit.
	tGen := time.Now()
	capBytes, stopFull := 0, false
	if r.Intn(3) == 0 {
		capBytes = 300 + r.Intn(2400)
		stopFull = r.Intn(3) != 0
		w.count("rounds_with_size_cap")
	}
	ev, err := w.l1.StartEvaluator(hdr, 0, capBytes, nil)
	require.NoError(t, err)
	offered := len(pool)
	noSpace := map[int]bool{}
	codes := []interface{}{}
	accepted := make([]bool, len(pool))
	nacc, nrej := 0, 0
	for gi, g := range pool {
		stxs := make([]transactions.SignedTxn, len(g.txs))
		for i, x := range g.txs {
			stxs[i] = x.stx
		}
		// the pool's Test() runs TestTransactionGroup on ingestion; the pending block evaluator is fed
		// through TransactionGroup alone (addToPendingBlockEvaluatorOnce), whose verdict counts
		terr := ev.TestTransactionGroup(stxs)
		gerr := ev.TransactionGroup(transactions.WrapSignedTxnsWithAD(stxs)...)
		if terr != nil && gerr == nil {
			t.Errorf("round %d: TestTransactionGroup rejects (%v) what TransactionGroup accepts", rnd, terr)
		}
		c := vc20ErrClass(gerr)
		codes = append(codes, c)
		accepted[gi] = gerr == nil
		if errors.Is(gerr, ledgercore.ErrNoSpace) {
			noSpace[gi] = true
			w.count("groups_no_space")
			if stopFull {
				offered = gi + 1
				w.count("rej_" + g.kind)
				w.count("errclass_12")
				nrej++
				w.count("blocks_generated_right_after_no_space")
				break
			}
		}
		if gerr == nil {
			nacc++
			w.count("acc_" + g.kind)
		} else {
			nrej++
			w.count("rej_" + g.kind)
			w.count(fmt.Sprintf("errclass_%d", c))
		}
	}
	var parts []basics.Address
	partIdx := []interface{}{}
	for i := 1; i <= nk; i++ {
		if r.Intn(3) == 0 {
			parts = append(parts, w.addr(i))
			partIdx = append(partIdx, i)
		}
	}
	proposerIdx := 1 + r.Intn(nk)
	if len(parts) > 0 && r.Intn(4) != 0 {
		proposerIdx = partIdx[r.Intn(len(partIdx))].(int)
	}
	eligible := r.Intn(4) != 0
	ub, err := ev.GenerateBlock(parts)
	genOK := err == nil
	if !genOK {
		out.Case(vSym("c20"), 0, vL(), vL(), uint64(rnd), 0, vL(), vL(), 0, 0, capBytes, vc20B(stopFull), vL(vSym("codes")), vL(vSym("gen"), 0),
			vL(vSym("fin")), vL(vSym("val"), 0, vL()), vL(vSym("digests")), vL(vSym("errs")), vL(vSym("red")), vL(vSym("mut")), vL(vSym("info"), nacc, nrej), vL(vSym("pschk")))
		t.Logf("GenerateBlock failed: %v", err)
		w.count("generate_failed")
		return false
	}
	ublk := ub.UnfinishedBlock()
	gdelta := ub.UnfinishedDeltas()
	var seed committee.Seed
	copy(seed[:], r.Bytes(32))
	blk := ub.FinishBlock(seed, w.addr(proposerIdx), eligible)

	// ---- model inputs for the pool (lengths are those of the block's encoded transactions)
	lenOf := map[transactions.Txid]int{}
	for _, s := range blk.Payset {
		stx, _, derr := blk.DecodeSignedTxn(s)
		require.NoError(t, derr)
		lenOf[stx.ID()] = s.GetEncodedLength()
	}
	poolT := []interface{}{}
	for gi, g := range pool {
		if gi < offered && noSpace[gi] {
			// the exact encoded length of a transaction that is not in the block is known only for an
			// empty ApplyData: a closing member of a group that did not fit is outside the modelled subset
			for _, x := range g.txs {
				if !x.stx.Txn.CloseRemainderTo.IsZero() {
					modelled = false
				}
			}
		}
		wf, gid, feeok, memberOK := w.staticFlags(g, spec)
		gt := []interface{}{vSym("g"), vc20B(wf), vc20B(gid), vc20B(feeok)}
		for xi, x := range g.txs {
			tx := x.stx.Txn
			if tx.Type != protocol.PaymentTx || tx.Lease != [32]byte{} || !tx.RekeyTo.IsZero() || !x.stx.AuthAddr.IsZero() {
				modelled = false
			}
			cl := 0
			if !tx.CloseRemainderTo.IsZero() {
				cl = w.idx[tx.CloseRemainderTo]
				if cl == 0 {
					modelled = false
				}
			}
			genok := hdr.Alive(transactions.Header{FirstValid: rnd, LastValid: rnd, GenesisID: tx.GenesisID, GenesisHash: tx.GenesisHash}) == nil
			if w.proto.SupportGenesisHash && tx.GenesisHash != w.l1.GenesisHash() && !tx.GenesisHash.IsZero() {
				genok = false // the generator's header only carries the hash after StartEvaluator
			}
			ln, inBlock := lenOf[x.stx.ID()]
			if !inBlock {
				if stib, eerr := blk.BlockHeader.EncodeSignedTxn(x.stx, transactions.ApplyData{}); eerr == nil {
					ln = stib.GetEncodedLength()
				}
			}
			gt = append(gt, vL(vSym("tx"), x.id, w.idx[tx.Sender], w.idx[tx.Receiver], tx.Amount.Raw, cl, tx.Fee.Raw,
				uint64(tx.FirstValid), uint64(tx.LastValid), vc20B(genok), ln, vc20B(memberOK[xi])))
		}
		poolT = append(poolT, gt)
	}

	// ---- observations of the generated block
	gh := 2
	if blk.GenesisHash() == w.l1.GenesisHash() {
		gh = 1
	} else if blk.GenesisHash().IsZero() {
		gh = 0
	}
	rsTok := 2
	if blk.RewardsState == expectRS {
		rsTok = 1
	}
	root, rerr := blk.PaysetCommit()
	rootOK := rerr == nil && root == blk.TxnCommitments
	paysetT := []interface{}{}
	groups, derr := blk.DecodePaysetGroups()
	require.NoError(t, derr)
	for _, g := range groups {
		gt := []interface{}{}
		for _, s := range g {
			other := 0
			ad := s.ApplyData
			ad.ClosingAmount = basics.MicroAlgos{}
			if !ad.Equal(transactions.ApplyData{}) {
				other = 1
			}
			gt = append(gt, vL(w.txid[s.ID()], s.ClosingAmount.Raw, other))
		}
		paysetT = append(paysetT, gt)
	}
	psBytes, feeSum := 0, uint64(0)
	for _, sib := range ublk.Payset {
		psBytes += sib.GetEncodedLength()
		if sib.Txn.Sender != hdr.FeeSink {
			feeSum += sib.Txn.Fee.Raw
		}
	}
	pschk := vL(vSym("pschk"), vc20B(w.proto.LoadTracking), w.proto.MaxTxnBytesPerBlock, psBytes, uint64(ublk.Load),
		vc20B(w.proto.TxnCounter), prevHdr.TxnCounter, len(ublk.Payset), ublk.TxnCounter,
		vc20B(w.proto.Payouts.Enabled), feeSum, ublk.FeesCollected.Raw)
	if capBytes > 0 && psBytes > capBytes {
		t.Fatalf("block of %d bytes exceeds the local cap %d", psBytes, capBytes)
	}
	gRows, gPlain := w.deltaRows(&gdelta)
	if !gPlain {
		modelled = false
	}

	// ---- validate on L2 (real signatures, its own cold cache), then on L1
	w.stats["ms_generate"] += int(time.Since(tGen).Milliseconds())
	tVal := time.Now()
	ctx := context.Background()
	vb2, verr := w.l2.Validate(ctx, blk, pools[16])
	valOK := verr == nil
	vRows := []interface{}{}
	var digests []interface{}
	var errs []interface{}
	red := []interface{}{[]byte{}, []byte{}}
	orderSame := true
	if valOK {
		vd := vb2.Delta()
		var vPlain bool
		vRows, vPlain = w.deltaRows(&vd)
		if !vPlain {
			modelled = false
		}
		base := vc20Canon(&vd, nil, false)
		order0 := vc20Order(&vd)
		digests = append(digests, vc20Digest(base))
		errs = append(errs, 0)
		skip := map[basics.Address]bool{w.sink: true, w.addr(proposerIdx): true}
		red = []interface{}{vc20Digest(vc20Canon(&gdelta, skip, true)), vc20Digest(vc20Canon(&vd, skip, true))}

		// ---- repeated evaluation under every runtime variation
		variants := []vc20EvalVariant{
			{"L2_prefetch_pool1_empty", 2, true, true, 1, "empty"},
			{"L2_noprefetch_pool16_empty", 2, false, true, 16, "empty"},
			{"L2_noprefetch_pool1_warm", 2, false, true, 1, "warm"},
			{"L2_prefetch_pool16_warm", 2, true, true, 16, "warm"},
			{"L2_prefetch_pool16_mock", 2, true, true, 16, "mock"},
			{"L2_prefetch_novalidate", 2, true, false, 0, "empty"},
			{"L2_noprefetch_novalidate", 2, false, false, 0, "warm"},
			{"L1_prefetch_pool16_empty", 1, true, true, 16, "empty"},
			{"L1_noprefetch_pool1_half", 1, false, true, 1, "half"},
		}
		for _, v := range variants {
			led := w.l2
			if v.led == 1 {
				led = w.l1
			}
			var lfe eval.LedgerForEvaluator = led
			var hits int64
			if !v.prefetch {
				lfe = vc20NoPrefetch{Ledger: led, hits: &hits, mu: &sync.Mutex{}}
			}
			var cache verify.VerifiedTransactionCache
			switch v.cache {
			case "empty":
				cache = verify.MakeVerifiedTransactionCache(1000)
			case "warm":
				cache = w.l2.verifiedTxnCache // filled by L2.Validate above
			case "mock":
				cache = verify.GetMockedCache(true)
			case "half": // every other group verified beforehand
				cache = verify.MakeVerifiedTransactionCache(1000)
				var half [][]transactions.SignedTxn
				for i, g := range groups {
					if i%2 == 0 {
						sg := make([]transactions.SignedTxn, len(g))
						for j := range g {
							sg[j] = g[j].SignedTxn
						}
						half = append(half, sg)
					}
				}
				require.NoError(t, verify.PaysetGroups(ctx, half, blk.BlockHeader, pools[16], cache, led))
			}
			var p execpool.BacklogPool
			if v.workers > 0 {
				p = pools[v.workers]
			}
			d, eerr := eval.Eval(ctx, lfe, blk, v.validate, cache, p, nil)
			if eerr != nil {
				t.Logf("round %d variant %s: %v", rnd, v.name, eerr)
				errs = append(errs, 1)
				digests = append(digests, []byte{})
				w.count("variant_error_" + v.name)
				continue
			}
			if !v.prefetch && len(blk.Payset) > 0 && hits == 0 {
				t.Fatalf("prefetch switch did not intercept any prefetcher read (variant %s)", v.name)
			}
			errs = append(errs, 0)
			c := vc20Canon(&d, nil, false)
			digests = append(digests, vc20Digest(c))
			if c != base {
				w.count("variant_differs_" + v.name)
				t.Logf("round %d variant %s: delta differs\n--- validate\n%s\n--- variant\n%s", rnd, v.name, base, c)
			}
			if vc20Order(&d) != order0 {
				orderSame = false
			}
		}
	} else {
		t.Logf("round %d: L2.Validate rejected the generated block: %v", rnd, verr)
		w.count("validate_rejected")
	}
	if !orderSame {
		w.count("account_order_differs")
	}

	// ---- mutants
	w.stats["ms_validate_and_variants"] += int(time.Since(tVal).Milliseconds())
	tMut := time.Now()
	mutT := []interface{}{}
	if valOK {
		for _, m := range w.mutants(blk, ublk.ProposerPayout().Raw, prevHdr.TimeStamp) {
			rej := 0
			if m.ok {
				var merr error
				if m.cold {
					_, merr = eval.Eval(ctx, w.l2, m.blk, true, verify.MakeVerifiedTransactionCache(1000), pools[16], nil)
				} else {
					_, merr = w.l2.Validate(ctx, m.blk, pools[16])
				}
				if merr != nil {
					rej = 1
					w.count("mut_rejected")
				} else {
					w.count("mut_ACCEPTED_" + m.name)
					t.Logf("round %d: mutant %s accepted", rnd, m.name)
				}
			}
			mutT = append(mutT, vL(vSym(m.name), vc20B(m.ok), rej))
		}
		// informational: a lowered payout is a different, valid block (the proposer may be altruistic)
		if blk.ProposerPayout().Raw > 0 {
			lb := vc20CopyBlock(blk)
			lb.BlockHeader.ProposerPayout.Raw--
			if _, lerr := w.l2.Validate(ctx, lb, pools[16]); lerr == nil {
				w.count("payout_lower_accepted")
			} else {
				w.count("payout_lower_rejected")
			}
		}
	}

	// ---- the case line
	w.stats["ms_mutants"] += int(time.Since(tMut).Milliseconds())
	P := w.proto
	paramsT := vL(P.MinBalance, P.RewardUnit, vc20B(P.UnfundedSenders), P.MaxTxGroupSize, vc20B(P.Payouts.Enabled), P.Payouts.Percent,
		vc20B(P.TxnCounter), vc20B(P.LoadTracking), P.MaxTxnBytesPerBlock, vc20B(P.SupportGenesisHash), vc20B(P.ApplyData))
	lvT := vL(lvAccts, lvTxids, prevHdr.TxnCounter, uint64(prev), 1, 1, bookkeeping.NextBonus(prevHdr, &P).Raw, nk+1, nk+2)
	if digests == nil {
		digests, errs = []interface{}{}, []interface{}{}
	}
	if !modelled {
		// the model part is left out; the runtime observations remain
		paramsT, lvT, poolT = vL(), vL(), []interface{}{}
	}
	out.Case(vSym("c20"), vc20B(modelled), paramsT, lvT, uint64(rnd), hdr.Bonus.Raw, poolT, partIdx, proposerIdx, vc20B(eligible),
		capBytes, vc20B(stopFull),
		append([]interface{}{vSym("codes")}, codes...),
		vL(vSym("gen"), 1, vL(gh, rsTok, vc20B(rootOK), ublk.TxnCounter, ublk.FeesCollected.Raw, ublk.ProposerPayout().Raw, uint64(ublk.Load)), paysetT, gRows),
		vL(vSym("fin"), w.idx[blk.Proposer()], blk.ProposerPayout().Raw),
		vL(vSym("val"), vc20B(valOK), vRows),
		append([]interface{}{vSym("digests")}, digests...),
		append([]interface{}{vSym("errs")}, errs...),
		append([]interface{}{vSym("red")}, red...),
		append([]interface{}{vSym("mut")}, mutT...),
		vL(vSym("info"), nacc, nrej), pschk)
	if modelled {
		w.count("cases_modelled")
	} else {
		w.count("cases_runtime_only")
	}
	if len(blk.ExpiredParticipationAccounts) > 0 {
		w.count("blocks_with_expired_accounts")
	}
	if len(blk.AbsentParticipationAccounts) > 0 {
		w.count("blocks_with_absent_accounts")
	}
	if blk.ProposerPayout().Raw > 0 {
		w.count("blocks_with_payout")
	}

	// ---- commit on both ledgers and remember what was committed
	if !valOK {
		// the case line above carries the violation; this universe cannot go on (the two ledgers
		// would no longer hold the same state)
		return false
	}
	vb1, err := w.l1.Validate(ctx, blk, pools[16])
	require.NoError(t, err)
	require.NoError(t, w.l1.AddValidatedBlock(*vb1, agreement.Certificate{}))
	require.NoError(t, w.l2.AddValidatedBlock(*vb2, agreement.Certificate{}))
	w.l1.WaitForCommit(rnd)
	w.l2.WaitForCommit(rnd)
	for _, g := range groups {
		sg := make([]transactions.SignedTxn, len(g))
		for j := range g {
			sg[j] = g[j].SignedTxn
			w.commIDs = append(w.commIDs, w.txid[g[j].ID()])
			if g[j].Txn.Type == protocol.AssetConfigTx && g[j].Txn.ConfigAsset == 0 && g[j].ApplyData.ConfigAsset != 0 {
				ci := w.idx[g[j].Txn.Sender]
				w.assets = append(w.assets, vc20Asset{id: g[j].ApplyData.ConfigAsset, creator: ci, opted: map[int]bool{ci: true}})
			}
		}
		w.commGrp = append(w.commGrp, sg)
	}
	// a rekey that did not land must not change who signs
	for s, to := range w.auth {
		d, _, err := w.l1.LookupWithoutRewards(rnd, w.addr(s))
		require.NoError(t, err)
		if d.AuthAddr != w.addr(to) {
			delete(w.auth, s)
		}
	}
	return true
}

func TestVerifC20(t *testing.T) {
	logging.Base().SetLevel(logging.Panic)
	universes := vEnvInt("VERIF_C20_UNIVERSES", 6)
	rounds := vEnvInt("VERIF_C20_ROUNDS", 6)
	out := vOpen("cases.txt")
	defer out.Close()
	stats := map[string]int{}
	pools := map[int]execpool.BacklogPool{
		1:  execpool.MakeBacklog(vc20MakePool(1), 0, execpool.LowPriority, nil),
		16: execpool.MakeBacklog(nil, 0, execpool.LowPriority, nil), // the real pool: runtime.NumCPU() workers
	}
	defer pools[1].Shutdown()
	defer pools[16].Shutdown()
	type sched struct {
		kind vc20Kind
		cv   protocol.ConsensusVersion
	}
	schedule := []sched{
		{vc20Plain, protocol.ConsensusCurrentVersion}, {vc20Rich, protocol.ConsensusFuture}, {vc20Plain, protocol.ConsensusV39},
		{vc20Plain, protocol.ConsensusFuture}, {vc20Rich, protocol.ConsensusCurrentVersion}, {vc20Plain, protocol.ConsensusV41},
		{vc20Rich, protocol.ConsensusV39},
	}
	for u := 0; u < universes; u++ {
		r := vNewRand(uint64(2000 + u))
		kind, cv := schedule[u%len(schedule)].kind, schedule[u%len(schedule)].cv
		func() {
			tOpen := time.Now()
			w := vc20Open(t, r, kind, cv, stats)
			stats["ms_open"] += int(time.Since(tOpen).Milliseconds())
			defer w.close()
			for i := 0; i < rounds; i++ {
				if !w.round(out, pools) {
					stats["universes_abandoned"]++
					break
				}
			}
		}()
		stats["universe_"+string(cv)]++
	}
	stats["real_pool_workers"] = pools[16].GetParallelism()
	m := map[string]interface{}{}
	for k, v := range stats {
		m[k] = v
	}
	vStats(m)
}
