//go:build verif

package ledger

// C16 harness: a generated history is run on a real tracker stack (helpers of zz_verif_c14_test.go)
// that generates catchpoint files; right after the first-stage commit the real
// catchpointFileWriter is ALSO run with a small resources-per-chunk budget (accounts whose
// resources span several chunks), and its data file is repacked with the real header / label.
// Every file is restored by the real CatchpointCatchupAccessor into a fresh Ledger
// (ResetStagingBalances, SetLabel, ProcessStagingBalances per section, BuildMerkleTrie,
// VerifyCatchpoint with the real block, finishBalances) and the restored tracker DB is dumped
// (accounts + resources, KVs, online tables, totals, committed trie root) and compared with the
// dump of the producer's DB at the balances round.  Then the section list is mutated (chunk level
// and single field level) and every mutant goes through the same accessor: it must be rejected
// before finishBalances, or restore the same state.
// One case line per (file, mutant); format in coq/model/CatchpointFileCheck.v.

import (
	"bytes"
	"context"
	"database/sql"
	"fmt"
	"os"
	"path/filepath"
	"sort"
	"strings"
	"testing"

	"github.com/stretchr/testify/require"

	"github.com/algorand/go-algorand/config"
	"github.com/algorand/go-algorand/crypto"
	"github.com/algorand/go-algorand/crypto/merkletrie"
	"github.com/algorand/go-algorand/data/basics"
	"github.com/algorand/go-algorand/data/bookkeeping"
	"github.com/algorand/go-algorand/ledger/encoded"
	"github.com/algorand/go-algorand/ledger/ledgercore"
	"github.com/algorand/go-algorand/ledger/store/trackerdb"
	"github.com/algorand/go-algorand/logging"
	"github.com/algorand/go-algorand/protocol"
	"github.com/algorand/go-algorand/util/db"
	"github.com/algorand/msgp/msgp"
)

// ---------- generator: accounts whose Total* counters match their resources ----------
func vc16GenHistory(r *vRand, proto vc14Proto, nrounds int, collide int, stats map[string]int) *vc14History {
	h := &vc14History{proto: proto, genesis: map[basics.Address]basics.AccountData{}}
	cur := map[basics.Address]ledgercore.AccountData{}
	nacct := 5 + r.Intn(3)
	var addrs []basics.Address
	for i := 0; i < nacct; i++ {
		a := vc14Addr(uint64(i + 1))
		addrs = append(addrs, a)
		ad := basics.AccountData{MicroAlgos: basics.MicroAlgos{Raw: uint64(1000000 * (1 + r.Intn(50)))}}
		if i%3 == 0 {
			ad.Status = basics.Online
			ad.VoteID[0], ad.SelectionID[0] = byte(i+1), byte(i+2)
			ad.VoteFirstValid, ad.VoteLastValid, ad.VoteKeyDilution = 1, basics.Round(2000+i), 10
		}
		h.genesis[a] = ad
		cur[a] = ledgercore.ToAccountData(ad)
	}
	h.gtotals = vc14Totals(cur)
	res := map[vc14ResKey][2]int64{}
	kv := map[string][]byte{}
	heavy := addrs[r.Intn(len(addrs))] // holds many resources: spans chunks
	names := []string{"aa", "ab", "ba", "bb", "ca", "cb", "da"}
	vals := [][]byte{[]byte("c"), []byte("bc"), {}, []byte("xyz")}
	nextCidx := uint64(10)

	setRes := func(b *vc14Block, a basics.Address, c uint64, nw [2]int64) {
		k := vc14ResKey{a, c}
		old, had := res[k]
		if !had {
			old = [2]int64{-1, -1}
		}
		m := vc14Mod{class: 1, addr: a, cidx: c, p: nw[0], h: nw[1]}
		if nw[0] < 0 && old[0] >= 0 {
			m.p = -2
		}
		if nw[1] < 0 && old[1] >= 0 {
			m.h = -2
		}
		x := cur[a]
		d := func(o, n int64) int64 {
			if o < 0 && n >= 0 {
				return 1
			}
			if o >= 0 && n < 0 {
				return -1
			}
			return 0
		}
		if vc14IsApp(c) {
			x.TotalAppParams = uint64(int64(x.TotalAppParams) + d(old[0], nw[0]))
			x.TotalAppLocalStates = uint64(int64(x.TotalAppLocalStates) + d(old[1], nw[1]))
		} else {
			x.TotalAssetParams = uint64(int64(x.TotalAssetParams) + d(old[0], nw[0]))
			x.TotalAssets = uint64(int64(x.TotalAssets) + d(old[1], nw[1]))
		}
		cur[a] = x
		if old[0] < 0 && nw[0] >= 0 {
			b.cre = append(b.cre, vc14Cre{c, true, a})
		} else if old[0] >= 0 && nw[0] < 0 {
			b.cre = append(b.cre, vc14Cre{c, false, a})
		}
		if nw[0] < 0 && nw[1] < 0 {
			delete(res, k)
		} else {
			res[k] = nw
		}
		b.mods = append(b.mods, m)
	}

	for rnd := 1; rnd <= nrounds; rnd++ {
		var b vc14Block
		copy(b.seed[:], r.Bytes(32))
		touched := map[basics.Address]bool{}
		touchedR := map[vc14ResKey]bool{}
		touchedK := map[string]bool{}
		n := 2 + r.Intn(5)
		for i := 0; i < n; i++ {
			a := addrs[r.Intn(len(addrs))]
			if rnd <= 3 || r.Intn(3) == 0 {
				a = heavy
			}
			switch r.Intn(8) {
			case 0, 1: // payment
				x := cur[a]
				x.MicroAlgos.Raw = uint64(1000000 * (1 + r.Intn(50)))
				cur[a] = x
				touched[a] = true
			case 2, 3, 4: // new resource (params and/or holding)
				c := nextCidx
				nextCidx++
				if touchedR[vc14ResKey{a, c}] {
					break
				}
				nw := [2]int64{-1, -1}
				switch r.Intn(3) {
				case 0:
					nw[0] = int64(1 + r.Intn(5))
				case 1:
					nw[1] = int64(r.Intn(5))
				default:
					nw = [2]int64{int64(1 + r.Intn(5)), int64(r.Intn(5))}
				}
				touchedR[vc14ResKey{a, c}] = true
				setRes(&b, a, c, nw)
				touched[a] = true
				stats["res_new"]++
			case 5: // change / drop an existing resource
				var ks []vc14ResKey
				for k := range res {
					if k.addr == a && !touchedR[k] {
						ks = append(ks, k)
					}
				}
				if len(ks) == 0 {
					break
				}
				sort.Slice(ks, func(i, j int) bool { return ks[i].cidx < ks[j].cidx })
				k := ks[r.Intn(len(ks))]
				nw := res[k]
				half := r.Intn(2)
				if half == 0 && nw[0] < 0 {
					half = 1 // params are changed or destroyed here, never (re)created: a creatable index is never reused
				}
				if r.Intn(3) == 0 {
					nw[half] = -1
				} else {
					nw[half] = int64(1 + r.Intn(5))
				}
				touchedR[k] = true
				setRes(&b, a, k.cidx, nw)
				touched[a] = true
				stats["res_change"]++
			default: // boxes
				key := vc14BoxKey(7, names[r.Intn(len(names))])
				if touchedK[key] {
					break
				}
				old, had := kv[key]
				nw := vals[r.Intn(len(vals))]
				if had && r.Intn(4) == 0 {
					nw = nil
				}
				m := vc14Mod{class: 2, key: key, data: nw}
				if had {
					m.old = old
				}
				if nw == nil {
					delete(kv, key)
				} else {
					kv[key] = nw
				}
				touchedK[key] = true
				b.mods = append(b.mods, m)
				stats["kv_mod"]++
			}
		}
		// a late account that only HOLDS (opts in to) something created by an earlier account: it gets the highest
		// rowid, so it is the last resource-bearing account of the (last) balances chunk
		if rnd == 3 {
			late := vc14Addr(300)
			var owned []uint64
			for k, v := range res {
				if v[0] >= 0 && !touchedR[k] {
					owned = append(owned, k.cidx)
				}
			}
			sort.Slice(owned, func(i, j int) bool { return owned[i] < owned[j] })
			c := nextCidx
			nextCidx++
			if len(owned) > 0 {
				c = owned[r.Intn(len(owned))]
			}
			cur[late] = ledgercore.AccountData{AccountBaseData: ledgercore.AccountBaseData{MicroAlgos: basics.MicroAlgos{Raw: 3000000}}}
			setRes(&b, late, c, [2]int64{-1, int64(1 + r.Intn(5))})
			touched[late] = true
			stats["late_holder"]++
		}
		// boxes of DIFFERENT name lengths whose name ‖ value concatenations coincide (C15 finding):
		// collide = 1: only ("ab","c") lives; collide = 2: ("ab","c") and ("a","bc") both live
		if rnd == 1 && collide >= 1 {
			b.mods = append(b.mods, vc14Mod{class: 2, key: vc14BoxKey(9, "ab"), data: []byte("c")})
			if collide >= 2 {
				b.mods = append(b.mods, vc14Mod{class: 2, key: vc14BoxKey(9, "a"), data: []byte("bc")})
			}
		}
		addrsSorted := make([]basics.Address, 0, len(touched))
		for a := range touched {
			addrsSorted = append(addrsSorted, a)
		}
		sort.Slice(addrsSorted, func(i, j int) bool { return bytes.Compare(addrsSorted[i][:], addrsSorted[j][:]) < 0 })
		for _, a := range addrsSorted {
			b.mods = append(b.mods, vc14Mod{class: 0, addr: a, acct: cur[a]})
		}
		b.totals = vc14Totals(cur)
		h.blocks = append(h.blocks, b)
	}
	h.oracle()
	return h
}

// ---------- dump of a tracker DB (the observable "ledger state" of the property) ----------
type vc16Dump struct {
	accts  []encoded.BalanceRecordV6 // sorted by address
	kvs    [][2][]byte               // sorted by key
	oa     [][]byte                  // encoded OnlineAccountRecordV6, iteration order
	orp    [][]byte
	totals ledgercore.AccountTotals
	root   crypto.Digest
	cre    [][]interface{} // (cidx ctype #creator): the assetcreators table, by LookupCreator over every index of the history
}

func vc16DumpDB(t *testing.T, dbs trackerdb.Store, proto config.ConsensusParams, accountsRound basics.Round, mem merkletrie.MemoryConfig, dbFile string) (d vc16Dump) {
	err := dbs.Transaction(func(ctx context.Context, tx trackerdb.TransactionScope) error {
		it := tx.MakeEncodedAccountsBatchIter()
		for {
			bals, _, err := it.Next(ctx, 100000, 10000000)
			if err != nil {
				return err
			}
			if len(bals) == 0 {
				break
			}
			d.accts = append(d.accts, bals...)
		}
		it.Close()
		rows, err := tx.MakeKVsIter(ctx)
		if err != nil {
			return err
		}
		for rows.Next() {
			k, v, err := rows.KeyValue()
			if err != nil {
				return err
			}
			d.kvs = append(d.kvs, [2][]byte{append([]byte{}, k...), append([]byte{}, v...)})
		}
		rows.Close()
		if proto.EnableCatchpointsWithOnlineAccounts {
			oit, err := makeCatchpointOrderedOnlineAccountsIterFactory(tx.MakeOrderedOnlineAccountsIter, accountsRound, proto)(ctx, false, 0)
			if err != nil {
				return err
			}
			for oit.Next() {
				x, err := oit.GetItem()
				if err != nil {
					return err
				}
				d.oa = append(d.oa, protocol.Encode(x))
			}
			oit.Close()
			pit, err := tx.MakeOnlineRoundParamsIter(ctx, false, 0)
			if err != nil {
				return err
			}
			for pit.Next() {
				x, err := pit.GetItem()
				if err != nil {
					return err
				}
				d.orp = append(d.orp, protocol.Encode(x))
			}
			pit.Close()
		}
		ar, err := tx.MakeAccountsReader()
		if err != nil {
			return err
		}
		d.totals, err = ar.AccountsTotals(ctx, false)
		if err != nil {
			return err
		}
		mc, err := tx.MakeMerkleCommitter(false)
		if err != nil {
			return err
		}
		trie, err := merkletrie.MakeTrie(mc, mem)
		if err != nil {
			return err
		}
		d.root, err = trie.RootHash()
		return err
	})
	require.NoError(t, err)
	// the creators table, read through a second connection to the (shared, in-memory) tracker DB: the restored
	// DB is at schema 6/7 until the ledger is reloaded, the prepared statements of the readers do not fit it
	pair, err := db.OpenPair(dbFile, true)
	require.NoError(t, err)
	err = pair.Rdb.Atomic(func(ctx context.Context, tx *sql.Tx) error {
		rows, err := tx.Query("SELECT asset, creator, ctype FROM assetcreators ORDER BY asset, ctype")
		if err != nil {
			return err
		}
		defer rows.Close()
		for rows.Next() {
			var asset, ctype uint64
			var creator []byte
			if err := rows.Scan(&asset, &creator, &ctype); err != nil {
				return err
			}
			d.cre = append(d.cre, vL(asset, ctype, append([]byte{}, creator...)))
		}
		return rows.Err()
	})
	require.NoError(t, err)
	pair.Close()
	sort.Slice(d.accts, func(i, j int) bool { return bytes.Compare(d.accts[i].Address[:], d.accts[j].Address[:]) < 0 })
	sort.Slice(d.kvs, func(i, j int) bool { return bytes.Compare(d.kvs[i][0], d.kvs[j][0]) < 0 })
	return
}

// (world ((#addr #enc ((cidx #enc) ...)) ...) ((#k #v) ...) (#oa ...) (#orp ...) #totals #root)
func (d *vc16Dump) term() []interface{} {
	accts := vL()
	for _, b := range d.accts {
		var cs []uint64
		for c := range b.Resources {
			cs = append(cs, c)
		}
		sort.Slice(cs, func(i, j int) bool { return cs[i] < cs[j] })
		rs := vL()
		for _, c := range cs {
			rs = append(rs, vL(c, []byte(b.Resources[c])))
		}
		accts = append(accts, vL(b.Address[:], []byte(b.AccountData), rs))
	}
	kvs := vL()
	for _, kv := range d.kvs {
		kvs = append(kvs, vL(kv[0], kv[1]))
	}
	oa, orp := vL(), vL()
	for _, x := range d.oa {
		oa = append(oa, x)
	}
	for _, x := range d.orp {
		orp = append(orp, x)
	}
	t := d.totals
	cre := vL()
	for _, x := range d.cre {
		cre = append(cre, x)
	}
	return vL(vSym("world"), accts, kvs, oa, orp, protocol.EncodeReflect(&t), d.root[:], cre)
}

// every creatable index of a history, ascending, and the creators after the first n rounds (the oracle)
func vc16Creatables(h *vc14History, n uint64) (cidxs []uint64, cre []interface{}) {
	seen := map[uint64]bool{}
	creator := map[uint64]basics.Address{}
	for i := range h.blocks {
		for _, m := range h.blocks[i].mods {
			if m.class == 1 && !seen[m.cidx] {
				seen[m.cidx] = true
				cidxs = append(cidxs, m.cidx)
			}
		}
		if uint64(i) < n {
			for _, c := range h.blocks[i].cre {
				if c.created {
					creator[c.cidx] = c.creator
				} else {
					delete(creator, c.cidx)
				}
			}
		}
	}
	sort.Slice(cidxs, func(i, j int) bool { return cidxs[i] < cidxs[j] })
	cre = vL()
	for _, c := range cidxs {
		if a, ok := creator[c]; ok {
			ct := uint64(basics.AssetCreatable)
			if vc14IsApp(c) {
				ct = uint64(basics.AppCreatable)
			}
			cre = append(cre, vL(c, ct, a[:]))
		}
	}
	return
}

// the oracle's state as a dump (accounts / resources / KVs only)
func vc16OracleTerm(s *vc14State) (accts, kvs []interface{}) {
	var as []basics.Address
	for a := range s.acct {
		as = append(as, a)
	}
	sort.Slice(as, func(i, j int) bool { return bytes.Compare(as[i][:], as[j][:]) < 0 })
	accts = vL()
	for _, a := range as {
		b := s.acct[a]
		var cs []uint64
		for k := range s.res {
			if k.addr == a {
				cs = append(cs, k.cidx)
			}
		}
		sort.Slice(cs, func(i, j int) bool { return cs[i] < cs[j] })
		rs := vL()
		for _, c := range cs {
			rd := s.res[vc14ResKey{a, c}]
			rs = append(rs, vL(c, protocol.Encode(&rd)))
		}
		accts = append(accts, vL(a[:], protocol.Encode(&b), rs))
	}
	var ks []string
	for k := range s.kv {
		ks = append(ks, k)
	}
	sort.Strings(ks)
	kvs = vL()
	for _, k := range ks {
		kvs = append(kvs, vL([]byte(k), s.kv[k]))
	}
	return
}

// ---------- sections of a catchpoint file ----------
type vc16Section struct {
	name string
	data []byte
}

// FILE term: sections decoded the way the accessor decodes them; (raw #bytes) when undecodable
//  (hdr version balancesRound blocksRound #totals nacct nkv noa norp nchunks #label #digest)
//  (sp #bytes)
//  (bal ((#addr #enc expecting (tap tals tasp tas) #leaf|nil ((cidx #enc isapp isasset owning holding #leaf) ...)) ...)
//       ((#k #v #leaf) ...) (#oa ...) (#orp ...))
//  (other #name)
func vc16FileTerm(secs []vc16Section) []interface{} {
	out := vL()
	for _, s := range secs {
		switch {
		case s.name == CatchpointContentFileName:
			var hdr CatchpointFileHeader
			if err := protocol.Decode(s.data, &hdr); err != nil {
				out = append(out, vL(vSym("raw"), vSym("hdr")))
				continue
			}
			t := hdr.Totals
			out = append(out, vL(vSym("hdr"), hdr.Version, uint64(hdr.BalancesRound), uint64(hdr.BlocksRound), protocol.EncodeReflect(&t),
				hdr.TotalAccounts, hdr.TotalKVs, hdr.TotalOnlineAccounts, hdr.TotalOnlineRoundParams, hdr.TotalChunks,
				[]byte(hdr.Catchpoint), hdr.BlockHeaderDigest[:]))
		case s.name == catchpointSPVerificationFileName:
			var d catchpointStateProofVerificationContext
			if err := protocol.Decode(s.data, &d); err != nil {
				out = append(out, vL(vSym("raw"), vSym("sp")))
				continue
			}
			out = append(out, vL(vSym("sp"), s.data, len(d.Data)))
		case strings.HasPrefix(s.name, catchpointBalancesFileNamePrefix) && strings.HasSuffix(s.name, catchpointBalancesFileNameSuffix):
			var chunk CatchpointSnapshotChunkV6
			if err := protocol.Decode(s.data, &chunk); err != nil {
				out = append(out, vL(vSym("raw"), vSym("bal")))
				continue
			}
			bals, bad := vL(), false
			for _, b := range chunk.Balances {
				var ad trackerdb.BaseAccountData
				if err := protocol.Decode(b.AccountData, &ad); err != nil {
					bad = true
					break
				}
				var leaf interface{} = vSym("nil")
				if !b.ExpectingMoreEntries {
					leaf = trackerdb.AccountHashBuilderV6(b.Address, &ad, b.AccountData)
				}
				var cs []uint64
				for c := range b.Resources {
					cs = append(cs, c)
				}
				sort.Slice(cs, func(i, j int) bool { return cs[i] < cs[j] })
				rs := vL()
				for _, c := range cs {
					var rd trackerdb.ResourcesData
					if err := protocol.Decode(b.Resources[c], &rd); err != nil {
						bad = true
						break
					}
					l, err := trackerdb.ResourcesHashBuilderV6(&rd, b.Address, basics.CreatableIndex(c), rd.UpdateRound, b.Resources[c])
					if err != nil {
						bad = true
						break
					}
					rs = append(rs, vL(c, []byte(b.Resources[c]), rd.IsApp(), rd.IsAsset(), rd.IsOwning(), rd.IsHolding(), l))
				}
				bals = append(bals, vL(b.Address[:], []byte(b.AccountData), b.ExpectingMoreEntries,
					vL(ad.TotalAppParams, ad.TotalAppLocalStates, ad.TotalAssetParams, ad.TotalAssets), leaf, rs))
			}
			if bad {
				out = append(out, vL(vSym("raw"), vSym("bal")))
				continue
			}
			kvs := vL()
			for _, kv := range chunk.KVs {
				kvs = append(kvs, vL(kv.Key, kv.Value, trackerdb.KvHashBuilderV6(string(kv.Key), kv.Value)))
			}
			oa, orp := vL(), vL()
			for i := range chunk.OnlineAccounts {
				oa = append(oa, protocol.Encode(&chunk.OnlineAccounts[i]))
			}
			for i := range chunk.OnlineRoundParams {
				orp = append(orp, protocol.Encode(&chunk.OnlineRoundParams[i]))
			}
			out = append(out, vL(vSym("bal"), bals, kvs, oa, orp))
		default:
			out = append(out, vL(vSym("other"), []byte(s.name)))
		}
	}
	return out
}

// ---------- restore through the real accessor ----------
type vc16Outcome struct {
	stage string // "" = accepted; otherwise where it was rejected: process / trie / verify
	dump  vc16Dump
	err   string
}

func vc16Restore(t *testing.T, secs []vc16Section, label string, blk *bookkeeping.Block, proto vc14Proto, accountsRound basics.Round, seq *int) (o vc16Outcome) {
	var initState ledgercore.InitState
	initState.Block.CurrentProtocol = proto.ver
	conf := config.GetDefaultLocal()
	*seq++
	dbName := fmt.Sprintf("%s.c16.%d", strings.Replace(t.Name(), "/", "_", -1), *seq)
	log := logging.NewLogger()
	log.SetOutput(&vc14LogSink{})
	l, err := OpenLedger(log, dbName, true, initState, conf)
	require.NoError(t, err)
	defer l.Close()
	accessor := MakeCatchpointCatchupAccessor(l, l.log)
	ctx := context.Background()
	require.NoError(t, accessor.ResetStagingBalances(ctx, true))
	require.NoError(t, accessor.SetLabel(ctx, label))
	var progress CatchpointCatchupAccessorProgress
	for _, s := range secs {
		if err := accessor.ProcessStagingBalances(ctx, s.name, s.data, &progress); err != nil {
			return vc16Outcome{stage: "process", err: err.Error()}
		}
	}
	if err := accessor.BuildMerkleTrie(ctx, nil); err != nil {
		return vc16Outcome{stage: "trie", err: err.Error()}
	}
	if err := accessor.VerifyCatchpoint(ctx, blk); err != nil {
		return vc16Outcome{stage: "verify", err: err.Error()}
	}
	// adopted
	if err := accessor.(*catchpointCatchupAccessorImpl).finishBalances(ctx); err != nil {
		return vc16Outcome{stage: "finish", err: err.Error()}
	}
	o.dump = vc16DumpDB(t, l.trackerDBs, config.Consensus[proto.ver], accountsRound, trackerdb.TrieMemoryConfig, dbName+".tracker.sqlite")
	return
}

// the accessor's reader and writer goroutines share one in-memory sqlite DB (shared cache): under heavy machine
// load BuildMerkleTrie / the staging writers can fail with "database table is locked"; that is not an answer
// about the file, the restore is repeated on a fresh ledger
func vc16RestoreStable(t *testing.T, secs []vc16Section, label string, blk *bookkeeping.Block, proto vc14Proto, accountsRound basics.Round, seq *int, stats map[string]int) (o vc16Outcome) {
	for try := 0; try < 4; try++ {
		o = vc16Restore(t, secs, label, blk, proto, accountsRound, seq)
		if o.stage == "" || !(strings.Contains(o.err, "locked") || strings.Contains(o.err, "busy") || strings.Contains(o.err, "context")) {
			return
		}
		stats["restore_retried_db_locked"]++
	}
	return
}

func (o *vc16Outcome) term() []interface{} {
	if o.stage != "" {
		return vL(vSym("rejected"), vSym(o.stage))
	}
	return vL(vSym("accepted"), o.dump.term())
}

// ---------- mutants ----------
type vc16Mutant struct {
	name string
	secs []vc16Section
}

func vc16Clone(secs []vc16Section) []vc16Section {
	out := make([]vc16Section, len(secs))
	for i, s := range secs {
		out[i] = vc16Section{s.name, append([]byte{}, s.data...)}
	}
	return out
}

func vc16IsBal(name string) bool {
	return strings.HasPrefix(name, catchpointBalancesFileNamePrefix) && strings.HasSuffix(name, catchpointBalancesFileNameSuffix)
}

// apply f to the decoded chunk of section i and re-encode it
func vc16EditChunk(secs []vc16Section, i int, f func(c *CatchpointSnapshotChunkV6) bool) ([]vc16Section, bool) {
	out := vc16Clone(secs)
	var chunk CatchpointSnapshotChunkV6
	if err := protocol.Decode(out[i].data, &chunk); err != nil {
		return nil, false
	}
	if !f(&chunk) {
		return nil, false
	}
	out[i].data = protocol.Encode(&chunk)
	return out, true
}

func vc16EditAcct(raw msgp.Raw, f func(b *trackerdb.BaseAccountData)) msgp.Raw {
	var ad trackerdb.BaseAccountData
	if err := protocol.Decode(raw, &ad); err != nil {
		panic(err)
	}
	f(&ad)
	return protocol.Encode(&ad)
}

func vc16Mutants(r *vRand, secs []vc16Section, budget int) (out []vc16Mutant) {
	add := func(name string, s []vc16Section, ok bool) {
		if ok {
			out = append(out, vc16Mutant{name, s})
		}
	}
	var balIdx []int
	hdrIdx := -1
	for i, s := range secs {
		if vc16IsBal(s.name) {
			balIdx = append(balIdx, i)
		}
		if s.name == CatchpointContentFileName {
			hdrIdx = i
		}
	}
	// --- header fields ---
	editHdr := func(name string, f func(h *CatchpointFileHeader)) {
		s := vc16Clone(secs)
		var hdr CatchpointFileHeader
		if err := protocol.Decode(s[hdrIdx].data, &hdr); err != nil {
			panic(err)
		}
		f(&hdr)
		s[hdrIdx].data = protocol.Encode(&hdr)
		add(name, s, true)
	}
	editHdr("hdr_totals", func(h *CatchpointFileHeader) { h.Totals.Offline.Money.Raw += 1 + uint64(r.Intn(1000)) })
	editHdr("hdr_rewardslevel", func(h *CatchpointFileHeader) { h.Totals.RewardsLevel++ })
	editHdr("hdr_blocksround", func(h *CatchpointFileHeader) { h.BlocksRound++ })
	editHdr("hdr_balancesround", func(h *CatchpointFileHeader) { h.BalancesRound++ })
	editHdr("hdr_counts", func(h *CatchpointFileHeader) { h.TotalAccounts++; h.TotalKVs += 3; h.TotalChunks++ })
	editHdr("hdr_label", func(h *CatchpointFileHeader) { h.Catchpoint = "1#AAAA" })
	editHdr("hdr_digest", func(h *CatchpointFileHeader) { h.BlockHeaderDigest[3] ^= 1 })
	editHdr("hdr_version_down", func(h *CatchpointFileHeader) { h.Version-- })
	editHdr("hdr_version_bad", func(h *CatchpointFileHeader) { h.Version = 99 })
	// --- section level ---
	if len(balIdx) > 0 {
		i := balIdx[r.Intn(len(balIdx))]
		s := vc16Clone(secs)
		add("drop_chunk", append(s[:i:i], s[i+1:]...), true)
		s = vc16Clone(secs)
		dup := append(append(s[:i+1:i+1], s[i]), s[i+1:]...)
		add("dup_chunk", dup, true)
		if len(balIdx) > 1 {
			s = vc16Clone(secs)
			a, b := balIdx[0], balIdx[len(balIdx)-1]
			s[a].data, s[b].data = s[b].data, s[a].data
			add("swap_chunks", s, true)
		}
		s = vc16Clone(secs)
		s[i].data = s[i].data[:len(s[i].data)/2]
		add("truncated_chunk", s, true)
		s = vc16Clone(secs)
		s[i].data[len(s[i].data)/2] ^= 0x40
		add("bitflip_chunk", s, true)
	}
	{
		s := vc16Clone(secs)
		add("no_header", append(s[:hdrIdx:hdrIdx], s[hdrIdx+1:]...), true)
		s = vc16Clone(secs)
		add("header_twice", append(s, s[hdrIdx]), true)
		s = vc16Clone(secs)
		h0 := s[hdrIdx]
		rest := append(s[:hdrIdx:hdrIdx], s[hdrIdx+1:]...)
		add("header_last", append(rest, h0), true)
		s = vc16Clone(secs)
		add("unknown_section", append(s, vc16Section{"extra.msgpack", []byte{1, 2, 3}}), true)
	}
	// --- single fields of one record ---
	pickBal := func(need func(c *CatchpointSnapshotChunkV6) bool) int {
		var ok []int
		for _, i := range balIdx {
			var c CatchpointSnapshotChunkV6
			if protocol.Decode(secs[i].data, &c) == nil && need(&c) {
				ok = append(ok, i)
			}
		}
		if len(ok) == 0 {
			return -1
		}
		return ok[r.Intn(len(ok))]
	}
	hasBal := func(c *CatchpointSnapshotChunkV6) bool { return len(c.Balances) > 0 }
	hasKV := func(c *CatchpointSnapshotChunkV6) bool { return len(c.KVs) > 0 }
	hasRes := func(c *CatchpointSnapshotChunkV6) bool {
		for _, b := range c.Balances {
			if len(b.Resources) > 0 {
				return true
			}
		}
		return false
	}
	withRes := func(c *CatchpointSnapshotChunkV6) int {
		var ok []int
		for j, b := range c.Balances {
			if len(b.Resources) > 0 {
				ok = append(ok, j)
			}
		}
		return ok[r.Intn(len(ok))]
	}
	someCidx := func(b *encoded.BalanceRecordV6) uint64 {
		var cs []uint64
		for c := range b.Resources {
			cs = append(cs, c)
		}
		sort.Slice(cs, func(i, j int) bool { return cs[i] < cs[j] })
		return cs[r.Intn(len(cs))]
	}
	if i := pickBal(hasBal); i >= 0 {
		s, ok := vc16EditChunk(secs, i, func(c *CatchpointSnapshotChunkV6) bool {
			j := r.Intn(len(c.Balances))
			c.Balances[j].AccountData = vc16EditAcct(c.Balances[j].AccountData, func(b *trackerdb.BaseAccountData) { b.MicroAlgos.Raw += 1000000 })
			return true
		})
		add("acct_balance", s, ok)
		s, ok = vc16EditChunk(secs, i, func(c *CatchpointSnapshotChunkV6) bool {
			j := r.Intn(len(c.Balances))
			c.Balances[j].AccountData = vc16EditAcct(c.Balances[j].AccountData, func(b *trackerdb.BaseAccountData) { b.AuthAddr = vc14Addr(77) })
			return true
		})
		add("acct_rekey", s, ok)
		s, ok = vc16EditChunk(secs, i, func(c *CatchpointSnapshotChunkV6) bool {
			j := r.Intn(len(c.Balances))
			c.Balances[j].AccountData = vc16EditAcct(c.Balances[j].AccountData, func(b *trackerdb.BaseAccountData) { b.UpdateRound++ })
			return true
		})
		add("acct_updround", s, ok)
		s, ok = vc16EditChunk(secs, i, func(c *CatchpointSnapshotChunkV6) bool {
			j := r.Intn(len(c.Balances))
			c.Balances[j].Address[5] ^= 1
			return true
		})
		add("acct_address", s, ok)
		s, ok = vc16EditChunk(secs, i, func(c *CatchpointSnapshotChunkV6) bool {
			j := r.Intn(len(c.Balances))
			c.Balances = append(c.Balances[:j:j], c.Balances[j+1:]...)
			return !c.empty()
		})
		add("acct_removed", s, ok)
		s, ok = vc16EditChunk(secs, i, func(c *CatchpointSnapshotChunkV6) bool {
			x := encoded.BalanceRecordV6{Address: vc14Addr(999)}
			bad := trackerdb.BaseAccountData{MicroAlgos: basics.MicroAlgos{Raw: 5000000}, UpdateRound: 1}
			x.AccountData = protocol.Encode(&bad)
			c.Balances = append(c.Balances, x)
			return true
		})
		add("acct_added", s, ok)
		s, ok = vc16EditChunk(secs, i, func(c *CatchpointSnapshotChunkV6) bool {
			j := r.Intn(len(c.Balances))
			c.Balances = append(c.Balances, c.Balances[j])
			return true
		})
		add("acct_twice", s, ok)
		s, ok = vc16EditChunk(secs, i, func(c *CatchpointSnapshotChunkV6) bool {
			j := r.Intn(len(c.Balances))
			c.Balances[j].ExpectingMoreEntries = !c.Balances[j].ExpectingMoreEntries
			return true
		})
		add("acct_expecting_flipped", s, ok)
		// a partial record with OTHER account data put in front of an account's (complete) record
		s, ok = vc16EditChunk(secs, i, func(c *CatchpointSnapshotChunkV6) bool {
			j := r.Intn(len(c.Balances))
			if c.Balances[j].ExpectingMoreEntries || (j > 0 && c.Balances[j-1].ExpectingMoreEntries) {
				return false
			}
			x := encoded.BalanceRecordV6{Address: c.Balances[j].Address, ExpectingMoreEntries: true}
			x.AccountData = vc16EditAcct(c.Balances[j].AccountData, func(b *trackerdb.BaseAccountData) {
				b.MicroAlgos.Raw += 777000000
				b.AuthAddr = vc14Addr(66)
			})
			c.Balances = append(c.Balances[:j:j], append([]encoded.BalanceRecordV6{x}, c.Balances[j:]...)...)
			return true
		})
		add("partial_prefix_other_data", s, ok)
	}
	// a partial record of a NEW account at the very end of the last balances chunk that has accounts
	{
		last := -1
		for _, i := range balIdx {
			var c CatchpointSnapshotChunkV6
			if protocol.Decode(secs[i].data, &c) == nil && len(c.Balances) > 0 {
				last = i
			}
		}
		if last >= 0 {
			s, ok := vc16EditChunk(secs, last, func(c *CatchpointSnapshotChunkV6) bool {
				if c.Balances[len(c.Balances)-1].ExpectingMoreEntries {
					return false
				}
				x := encoded.BalanceRecordV6{Address: vc14Addr(998), ExpectingMoreEntries: true}
				bad := trackerdb.BaseAccountData{MicroAlgos: basics.MicroAlgos{Raw: 123000000}, UpdateRound: 1}
				x.AccountData = protocol.Encode(&bad)
				c.Balances = append(c.Balances, x)
				return true
			})
			add("dangling_partial_new_account", s, ok)
		}
	}
	if i := pickBal(hasRes); i >= 0 {
		s, ok := vc16EditChunk(secs, i, func(c *CatchpointSnapshotChunkV6) bool {
			j := withRes(c)
			cx := someCidx(&c.Balances[j])
			var rd trackerdb.ResourcesData
			if err := protocol.Decode(c.Balances[j].Resources[cx], &rd); err != nil {
				panic(err)
			}
			rd.Amount += 5
			rd.Total += 7
			rd.SchemaNumUint += 3
			m := map[uint64]msgp.Raw{}
			for k, v := range c.Balances[j].Resources {
				m[k] = v
			}
			m[cx] = protocol.Encode(&rd)
			c.Balances[j].Resources = m
			return true
		})
		add("res_data", s, ok)
		s, ok = vc16EditChunk(secs, i, func(c *CatchpointSnapshotChunkV6) bool {
			j := withRes(c)
			cx := someCidx(&c.Balances[j])
			m := map[uint64]msgp.Raw{}
			for k, v := range c.Balances[j].Resources {
				if k != cx {
					m[k] = v
				}
			}
			m[cx+1000] = c.Balances[j].Resources[cx]
			c.Balances[j].Resources = m
			return true
		})
		add("res_cidx", s, ok)
		s, ok = vc16EditChunk(secs, i, func(c *CatchpointSnapshotChunkV6) bool {
			j := withRes(c)
			cx := someCidx(&c.Balances[j])
			m := map[uint64]msgp.Raw{}
			for k, v := range c.Balances[j].Resources {
				if k != cx {
					m[k] = v
				}
			}
			if len(m) == 0 {
				m = nil
			}
			c.Balances[j].Resources = m
			return true
		})
		add("res_removed", s, ok)
		s, ok = vc16EditChunk(secs, i, func(c *CatchpointSnapshotChunkV6) bool {
			j := withRes(c)
			k := (j + 1) % len(c.Balances)
			if k == j {
				return false
			}
			cx := someCidx(&c.Balances[j])
			m := map[uint64]msgp.Raw{}
			for kk, v := range c.Balances[j].Resources {
				if kk != cx {
					m[kk] = v
				}
			}
			m2 := map[uint64]msgp.Raw{cx: c.Balances[j].Resources[cx]}
			for kk, v := range c.Balances[k].Resources {
				m2[kk] = v
			}
			if len(m) == 0 {
				m = nil
			}
			c.Balances[j].Resources, c.Balances[k].Resources = m, m2
			return true
		})
		add("res_moved_to_other_account", s, ok)
	}
	if i := pickBal(hasKV); i >= 0 {
		s, ok := vc16EditChunk(secs, i, func(c *CatchpointSnapshotChunkV6) bool {
			j := r.Intn(len(c.KVs))
			c.KVs[j].Value = append(append([]byte{}, c.KVs[j].Value...), 'z')
			return true
		})
		add("kv_value", s, ok)
		s, ok = vc16EditChunk(secs, i, func(c *CatchpointSnapshotChunkV6) bool {
			j := r.Intn(len(c.KVs))
			k := append([]byte{}, c.KVs[j].Key...)
			k[len(k)-1] ^= 1
			c.KVs[j].Key = k
			return true
		})
		add("kv_key", s, ok)
		s, ok = vc16EditChunk(secs, i, func(c *CatchpointSnapshotChunkV6) bool {
			j := r.Intn(len(c.KVs))
			c.KVs = append(c.KVs[:j:j], c.KVs[j+1:]...)
			return !c.empty()
		})
		add("kv_removed", s, ok)
		s, ok = vc16EditChunk(secs, i, func(c *CatchpointSnapshotChunkV6) bool {
			c.KVs = append(c.KVs, encoded.KVRecordV6{Key: []byte(vc14BoxKey(7, "zz")), Value: []byte("new")})
			return true
		})
		add("kv_added", s, ok)
		s, ok = vc16EditChunk(secs, i, func(c *CatchpointSnapshotChunkV6) bool {
			c.KVs = append(c.KVs, c.KVs[r.Intn(len(c.KVs))])
			return true
		})
		add("kv_twice", s, ok)
		// the C15 ambiguity: move the last byte of a box name into its value
		s, ok = vc16EditChunk(secs, i, func(c *CatchpointSnapshotChunkV6) bool {
			for j := range c.KVs {
				k := c.KVs[j].Key
				if len(k) == 11+2 && bytes.HasPrefix(k, []byte(vc14BoxKey(9, ""))) {
					other := false
					for _, kv := range c.KVs {
						if bytes.Equal(kv.Key, k[:len(k)-1]) {
							other = true
						}
					}
					if other {
						return false
					}
					c.KVs[j].Value = append([]byte{k[len(k)-1]}, c.KVs[j].Value...)
					c.KVs[j].Key = append([]byte{}, k[:len(k)-1]...)
					return true
				}
			}
			return false
		})
		add("kv_boundary_shift", s, ok)
	}
	// --- online tables (current format only) ---
	if i := pickBal(func(c *CatchpointSnapshotChunkV6) bool { return len(c.OnlineAccounts) > 0 }); i >= 0 {
		s, ok := vc16EditChunk(secs, i, func(c *CatchpointSnapshotChunkV6) bool {
			j := r.Intn(len(c.OnlineAccounts))
			c.OnlineAccounts[j].NormalizedOnlineBalance += 1000
			return true
		})
		add("oa_balance", s, ok)
		s, ok = vc16EditChunk(secs, i, func(c *CatchpointSnapshotChunkV6) bool {
			j := r.Intn(len(c.OnlineAccounts))
			c.OnlineAccounts = append(c.OnlineAccounts[:j:j], c.OnlineAccounts[j+1:]...)
			return !c.empty()
		})
		add("oa_removed", s, ok)
	}
	if i := pickBal(func(c *CatchpointSnapshotChunkV6) bool { return len(c.OnlineRoundParams) > 0 }); i >= 0 {
		s, ok := vc16EditChunk(secs, i, func(c *CatchpointSnapshotChunkV6) bool {
			j := r.Intn(len(c.OnlineRoundParams))
			c.OnlineRoundParams[j].Round += 1000
			return true
		})
		add("orp_round", s, ok)
		s, ok = vc16EditChunk(secs, i, func(c *CatchpointSnapshotChunkV6) bool {
			j := r.Intn(len(c.OnlineRoundParams))
			c.OnlineRoundParams = append(c.OnlineRoundParams[:j:j], c.OnlineRoundParams[j+1:]...)
			return !c.empty()
		})
		add("orp_removed", s, ok)
	}
	if budget > 0 && len(out) > budget {
		// keep a random subset (deterministic)
		for len(out) > budget {
			j := r.Intn(len(out))
			out = append(out[:j], out[j+1:]...)
		}
	}
	return
}

func vc16Warnings(logs string) (out string) {
	for _, ln := range strings.Split(logs, "\n") {
		if strings.Contains(ln, "level=warning") || strings.Contains(ln, "level=error") {
			out += ln + "\n"
		}
	}
	return
}

// ---------- the producer ----------
type vc16File struct {
	kind  string // "tracker" (file generated by the catchpoint tracker) / "writer" (small resource budget)
	secs  []vc16Section
	label string
	round uint64 // catchpoint round
}

func vc16ReadFile(t *testing.T, path string) (secs []vc16Section) {
	for _, c := range readCatchpointFile(t, path) {
		secs = append(secs, vc16Section{c.headerName, c.data})
	}
	return
}

func TestVerifC16(t *testing.T) {
	protos, undo := vc14InstallProtos()
	defer undo()
	saved := trackerdb.TrieMemoryConfig
	defer func() { trackerdb.TrieMemoryConfig = saved }()
	out := vOpen("cases_c16.txt")
	defer out.Close()
	stats := map[string]int{}
	r := vNewRand(0xc16)
	nh := vEnvInt("VERIF_C16_HIST", 4)
	budget := vEnvInt("VERIF_C16_MUTANTS", 14)
	seq := 0

	for hi := 0; hi < nh; hi++ {
		// lookback 2 or 3, label format alternating; interval 4: first stage at 8 - lookback + ... see schedule
		var proto vc14Proto
		for {
			proto = protos[r.Intn(len(protos))]
			if proto.lookback <= 4 {
				break
			}
		}
		collide := 0
		if hi == 0 {
			collide = 1 // only ("ab","c") lives: the boundary-shift mutant applies
		} else if hi == 1 {
			collide = 2 // both colliding boxes live: an HONEST file
		}
		interval := uint64(4)
		if proto.lookback == 4 {
			interval = 6
		}
		catchRound := 2 * interval
		fsRound := catchRound - proto.lookback
		h := vc16GenHistory(r, proto, int(catchRound), collide, stats)
		memID := r.Intn(len(vc14MemConfigs))
		cfg := vc14Cfg{interval: interval, acctLookback: 0, tracking: 2, mem: vc14MemConfigs[memID], memID: memID}
		w := vc14Open(t, h, cfg)
		params := config.Consensus[proto.ver]
		// some commits before the first stage, then the first stage exactly at fsRound
		for i := uint64(1); i <= fsRound; i++ {
			w.opBlock()
			if i < fsRound && r.Intn(3) == 0 {
				w.opCommit(i)
				w.observe()
			}
		}
		w.opCommit(fsRound)
		w.observe()
		require.Equal(t, basics.Round(fsRound), w.ml.trackers.getDbRound(), "the first-stage commit did not happen: %s", vc16Warnings(w.lastLogs))
		_, hasFirst := w.firsts[fsRound]
		require.True(t, hasFirst, "first stage at %d", fsRound)
		_, ocre := vc16Creatables(h, fsRound)
		src := vc16DumpDB(t, w.ml.dbs, params, basics.Round(fsRound), cfg.mem, w.ml.filename)
		// the writer itself, with a small resource budget
		maxRes := 2 + r.Intn(3)
		dataPath := filepath.Join(t.TempDir(), "direct.data")
		var wTotalAccounts, wTotalKVs, wTotalOA, wTotalORP, wChunks, wBiggest uint64
		err := w.ml.dbs.Transaction(func(ctx context.Context, tx trackerdb.TransactionScope) error {
			writer, err := makeCatchpointFileWriter(ctx, params, dataPath, tx, maxRes, basics.Round(fsRound), 0)
			if err != nil {
				return err
			}
			rawData, err := tx.MakeSpVerificationCtxReader().GetAllSPContexts(ctx)
			if err != nil {
				return err
			}
			_, encodedData := crypto.EncodeAndHash(catchpointStateProofVerificationContext{Data: rawData})
			if err = writer.FileWriteSPVerificationContext(encodedData); err != nil {
				return err
			}
			for {
				more, err := writer.FileWriteStep(ctx)
				if err != nil {
					return err
				}
				if !more {
					break
				}
			}
			wTotalAccounts, wTotalKVs, wTotalOA, wTotalORP = writer.totalAccounts, writer.totalKVs, writer.totalOnlineAccounts, writer.totalOnlineRoundParams
			wChunks, wBiggest = writer.chunkNum, writer.biggestChunkLen
			return nil
		})
		require.NoError(t, err)
		// on to the catchpoint round: label + the tracker's own file
		for i := fsRound + 1; i <= catchRound; i++ {
			w.opBlock()
		}
		w.opCommit(catchRound)
		w.observe()
		label := w.labels[catchRound]
		require.NotEmpty(t, label)
		blk, _ := h.blocks[catchRound-1].build(basics.Round(catchRound), proto.ver)
		blkDigest := blk.Digest()
		first := w.firsts[fsRound]
		var files []vc16File
		trackerPath := filepath.Join(w.cold, trackerdb.CatchpointDirName, trackerdb.MakeCatchpointFilePath(basics.Round(catchRound)))
		if _, err := os.Stat(trackerPath); err == nil {
			files = append(files, vc16File{"tracker", vc16ReadFile(t, trackerPath), label, catchRound})
		} else {
			stats["tracker_file_missing"]++
		}
		version := uint64(CatchpointFileVersionV7)
		if proto.nx == 3 {
			version = CatchpointFileVersionV8
		}
		hdr := CatchpointFileHeader{Version: version, BalancesRound: basics.Round(fsRound), BlocksRound: basics.Round(catchRound),
			Totals: first.Totals, TotalAccounts: wTotalAccounts, TotalKVs: wTotalKVs, TotalOnlineAccounts: wTotalOA,
			TotalOnlineRoundParams: wTotalORP, TotalChunks: wChunks, Catchpoint: label, BlockHeaderDigest: blk.Digest()}
		outPath := filepath.Join(t.TempDir(), "direct.catchpoint")
		require.NoError(t, repackCatchpoint(context.Background(), hdr, wBiggest, dataPath, outPath))
		files = append(files, vc16File{fmt.Sprintf("writer%d", maxRes), vc16ReadFile(t, outPath), label, catchRound})
		w.close()

		oa, ok := vc16OracleTerm(h.states[fsRound])
		srcTerm := src.term()
		t0 := h.totalsAt(fsRound)
		emit := func(f vc16File, mname string, secs []vc16Section) {
			o := vc16RestoreStable(t, secs, f.label, &blk, proto, basics.Round(fsRound), &seq, stats)
			stats["restore_"+mname+"_"+map[bool]string{true: "accepted", false: "rejected_" + o.stage}[o.stage == ""]]++
			out.Case(vSym("c16"), vSym(f.kind), vSym(mname), vL(proto.lookback, proto.nx, maxRes, BalancesPerCatchpointFileChunk),
				vL(srcTerm, vL(vSym("oracle"), oa, ok, protocol.EncodeReflect(&t0), h.roots[fsRound][:], ocre),
					vL(f.round, blkDigest[:], []byte(f.label))),
				vc16FileTerm(vc16SectionsOf(f.secs)), vc16FileTerm(secs), o.term())
		}
		for _, f := range files {
			emit(f, "honest", f.secs)
			stats["files"]++
			for _, m := range vc16Mutants(r, f.secs, budget) {
				emit(f, m.name, m.secs)
				stats["mutants"]++
			}
		}
		stats["histories"]++
	}
	st := map[string]interface{}{}
	for k, v := range stats {
		st[k] = v
	}
	vStats(st)
}

func vc16SectionsOf(s []vc16Section) []vc16Section { return s }
