//go:build verif

package eval

// C21 harness: the shared evaluator generator (zz_verif_c18_test.go); the generator aims many
// payments at the exact minimum balance (spendable amount, +1, receiver below the minimum)
// and the universe contains an account whose requirement is raised by resource counters.

import "testing"

func TestVerifC21(t *testing.T) {
	vc18Run(t, vc18Opts{universes: vEnvInt("VERIF_C21_UNIVERSES", 16), blocks: vEnvInt("VERIF_C21_BLOCKS", 8),
		groups: vEnvInt("VERIF_C21_GROUPS", 10), faultPct: vEnvInt("VERIF_C21_FAULTPCT", 30), assetWeight: vEnvInt("VERIF_C21_ASSETS", 12), appWeight: vEnvInt("VERIF_C21_APPS", 16), panicPct: vEnvInt("VERIF_C21_PANICS", 2), probePct: vEnvInt("VERIF_C21_PROBES", 4), file: "cases_c21.txt", salt: 0xC21})
}
