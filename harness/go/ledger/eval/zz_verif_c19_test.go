//go:build verif

package eval

// C19 harness: the shared evaluator generator (zz_verif_c18_test.go) with a fault-heavy mix --
// roughly every second group has a failing member of a random kind at a random position.

import "testing"

func TestVerifC19(t *testing.T) {
	vc18Run(t, vc18Opts{universes: vEnvInt("VERIF_C19_UNIVERSES", 12), blocks: vEnvInt("VERIF_C19_BLOCKS", 8),
		groups: vEnvInt("VERIF_C19_GROUPS", 12), faultPct: vEnvInt("VERIF_C19_FAULTPCT", 55), assetWeight: vEnvInt("VERIF_C19_ASSETS", 8), appWeight: vEnvInt("VERIF_C19_APPS", 16), panicPct: vEnvInt("VERIF_C19_PANICS", 8), probePct: vEnvInt("VERIF_C19_PROBES", 14), file: "cases_c19.txt", salt: 0xC19})
}
